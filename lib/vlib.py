# vlib.py -- shared machinery of ./check (see DESIGN.md section 3.5)
import fcntl, hashlib, json, os, random, re, subprocess, sys, time

VERIF = os.path.dirname(os.path.dirname(os.path.abspath(__file__)))
REPO = os.environ.get("NNGV_REPO", "/repo")
COQ = os.path.join(VERIF, "coq")
OCAML = os.path.join(VERIF, "ocaml")
HARNESS = os.path.join(VERIF, "harness")
OUT = os.path.join(VERIF, "out")
SCRATCH = os.environ.get("NNGV_SCRATCH", "/tmp/nngv")

ALLOWED_AXIOMS = {
    # axioms declared by the standard library itself; each use is reported
    "functional_extensionality_dep", "FunctionalExtensionality.functional_extensionality_dep",
    "proof_irrelevance", "ProofIrrelevance.proof_irrelevance", "classic", "Classical_Prop.classic",
    "Eqdep.Eq_rect_eq.eq_rect_eq", "eq_rect_eq", "JMeq_eq", "JMeq.JMeq_eq",
    "propositional_extensionality", "PropExtensionality.propositional_extensionality",
}
FORBIDDEN = re.compile(
    r"\b(Admitted|admit|Axiom|Axioms|Parameter|Parameters|Conjecture|Conjectures|Admit Obligations|"
    r"Unset Guard Checking|Unset Positivity Checking|Unset Universe Checking|bypass_check|type-in-type|"
    r"impredicative-set|native_compute)\b")


def sh(cmd, timeout=None, cwd=None, input=None, env=None):
    e = dict(os.environ)
    if env:
        e.update(env)
    p = subprocess.run(cmd, shell=isinstance(cmd, str), cwd=cwd, input=input, capture_output=True,
                       text=True, timeout=timeout, env=e)
    return p.returncode, p.stdout, p.stderr


class Lock:
    def __init__(self, name):
        os.makedirs(SCRATCH, exist_ok=True)
        self.path = os.path.join(SCRATCH, name + ".lock")

    def __enter__(self):
        self.f = open(self.path, "w")
        fcntl.flock(self.f, fcntl.LOCK_EX)

    def __exit__(self, *a):
        fcntl.flock(self.f, fcntl.LOCK_UN)
        self.f.close()


# ---------------------------------------------------------------- Coq side
def coq_makefile():
    sh([sys.executable, os.path.join(VERIF, "tools", "assemble.py")], timeout=60)
    mk = os.path.join(COQ, "Makefile")
    cp = os.path.join(COQ, "_CoqProject")
    if not os.path.exists(mk) or os.path.getmtime(mk) < os.path.getmtime(cp):
        rc, o, e = sh("coq_makefile -f _CoqProject -o Makefile", cwd=COQ, timeout=60)
        if rc != 0:
            raise RuntimeError("coq_makefile failed: " + e)


def gen_consts(tag=None):
    """regenerate coq/Gen/Consts.v from /repo's current sources; returns (ok, message).
    Patterns missing for another property's drop-in (tools/gen_consts_d/<tag>_*.py) do not count."""
    with Lock("coq"):
        rc, o, e = sh([sys.executable, os.path.join(VERIF, "tools", "gen_consts.py")], timeout=120)
        miss = {}
        try:
            miss = json.load(open(os.path.join(COQ, "Gen", "missing.json")))
        except Exception:
            pass
    bad = list(miss.get("core", []))
    if tag:
        bad += miss.get(tag.lower(), [])
    if rc != 0 and not bad:
        bad = [(o + e).strip()[-500:]]
    return (not bad), "; ".join(bad)


def coq_gate():
    """no Admitted/admit/Axiom/... anywhere in the development"""
    bad = []
    for root, _, files in os.walk(COQ):
        for f in files:
            if f.endswith(".v"):
                p = os.path.join(root, f)
                txt = open(p).read()
                # strip comments (non-nested good enough; nested handled by loop)
                prev = None
                while prev != txt:
                    prev = txt
                    txt = re.sub(r"\(\*[^*(]*(?:\*(?!\))[^*(]*|\((?!\*)[^*(]*)*\*\)", " ", txt)
                for m in FORBIDDEN.finditer(txt):
                    bad.append("%s: %s" % (os.path.relpath(p, COQ), m.group(0)))
    return bad


def coq_build(prop_file, timeout=1500, extra=()):
    """full .vo build of the cone of Props/<prop_file>.v (plus further statement
    files `extra`, paths relative to coq/ without .v), then re-run coqc on each
    statement file to capture Print Assumptions.  Returns dict."""
    res = {"ok": False, "log": "", "theorems": [], "axioms": {}, "bad_axioms": [], "undeclared": []}
    files = ["Props/" + prop_file] + list(extra)
    outs = {}
    with Lock("coq"):
        # regenerate the constants inside the lock: another check (possibly for another tree,
        # NNGV_REPO) may have rewritten Gen/Consts.v since this run's gen_consts()
        sh([sys.executable, os.path.join(VERIF, "tools", "gen_consts.py")], timeout=120)
        coq_makefile()
        targets = " ".join(f + ".vo" for f in files)
        rc, o, e = sh("timeout %d make -k -j16 %s" % (timeout, targets), cwd=COQ, timeout=timeout + 30)
        res["log"] = (o + e)[-6000:]
        if rc != 0:
            m = re.findall(r'File "([^"]+)", line (\d+)[^\n]*\n(?:[^\n]*\n)?Error:([^\n]*(?:\n[^\n]+)?)', o + e)
            res["failed_at"] = ["%s:%s %s" % (a, b, c.strip()) for a, b, c in m][:5]
            return res
        for f in files:
            rc, o, e = sh("timeout 900 coqc -Q . NngV %s.v" % f, cwd=COQ, timeout=930)
            if rc != 0:
                res["log"] = (o + e)[-6000:]
                return res
            outs[f] = o
    for f in files:
        o = outs[f]
        src = open(os.path.join(COQ, f + ".v")).read()
        names = re.findall(r"^\s*Print Assumptions (\w+)\.", src, re.M)
        blocks = re.split(r"(?=^Closed under the global context|^Axioms:)", o, flags=re.M)
        blocks = [b for b in blocks if b.startswith("Closed") or b.startswith("Axioms:")]
        if len(blocks) != len(names):
            res["log"] = "%s: Print Assumptions output count mismatch: %d vs %d\n%s" % (f, len(blocks), len(names), o[-3000:])
            return res
        for n, b in zip(names, blocks):
            if b.startswith("Closed"):
                res["axioms"][n] = []
            else:
                ax = re.findall(r"^([A-Za-z_][\w.']*)\s*:", b, re.M)
                res["axioms"][n] = ax
                for a in ax:
                    if a not in ALLOWED_AXIOMS and a.split(".")[-1] not in ALLOWED_AXIOMS:
                        res["bad_axioms"].append("%s uses %s" % (n, a))
        res["theorems"] += names
        thm_decl = re.findall(r"^\s*(?:Theorem|Corollary)\s+(\w+)", src, re.M)
        res["undeclared"] += [t for t in thm_decl if t not in names]
    res["ok"] = not res["bad_axioms"] and not res["undeclared"]
    return res


def model_build(*drivers):
    """extract the models and build the OCaml drivers named (incremental); e.g. model_build("msg")"""
    with Lock("coq"):
        sh([sys.executable, os.path.join(VERIF, "tools", "gen_consts.py")], timeout=120)   # see coq_build
        rc, o, e = sh([os.path.join(VERIF, "tools", "build_models.sh")] + list(drivers), timeout=2400)
        if rc != 0:
            raise RuntimeError("model build failed:\n" + (o + e)[-3000:])


def model_bin(name):
    return os.path.join(OCAML, "build", name)


# ---------------------------------------------------------------- nng side
def nng_build(variant="asan"):
    with Lock("nng-" + variant):
        rc, o, e = sh([os.path.join(VERIF, "tools", "build_nng.sh"), variant], timeout=900)
        if rc != 0:
            return None, (o + e)
        return o.strip().splitlines()[-1], ""


def wb_build(bdir, src):
    with Lock("wb-" + os.path.basename(src)):
        rc, o, e = sh([os.path.join(VERIF, "tools", "build_wb.sh"), bdir, os.path.join(HARNESS, src)], timeout=300)
        if rc != 0:
            return None, (o + e)
        return o.strip().splitlines()[-1], ""


ASAN_ENV = {"ASAN_OPTIONS": "detect_leaks=1:abort_on_error=0:exitcode=99:allocator_may_return_null=1",
            "UBSAN_OPTIONS": "print_stacktrace=1:halt_on_error=1:exitcode=98"}


def run_prog(binpath, script, timeout=120, args=()):
    """run a driver on a script (stdin); returns (rc, stdout lines, stderr)"""
    try:
        p = subprocess.run([binpath] + list(args), input=script, capture_output=True, text=True,
                           timeout=timeout, env=dict(os.environ, **ASAN_ENV))
        return p.returncode, p.stdout.splitlines(), p.stderr
    except subprocess.TimeoutExpired as ex:
        out = ex.stdout.decode() if isinstance(ex.stdout, bytes) else (ex.stdout or "")
        return -9, out.splitlines(), "TIMEOUT"


# ---------------------------------------------------------------- reporting
def known_findings(prop):
    """lines 'known: property=<id> key=<key> <what fails>' of findings/known_findings.txt"""
    res = {}
    p = os.path.join(VERIF, "findings", "known_findings.txt")
    if os.path.exists(p):
        for l in open(p):
            m = re.match(r"known:\s+property=(\w+)\s+key=(\S+)\s+(.*)", l.strip())
            if m and m.group(1) == prop:
                res[m.group(2)] = m.group(3)
    return res


class Report:
    def __init__(self, prop, tier, seed, level="proof"):
        self.prop, self.tier, self.seed, self.level = prop, tier, seed, level
        self.t0 = time.time()
        self.violations = []      # (replay path, nofail flag, text)
        self.known_hit = {}       # key -> text
        self.cov = {"evaluations": 0, "distinct_nontrivial": 0, "rule": "", "samples": []}
        self.assumptions = []
        self.outdir = os.path.join(OUT, prop)
        os.makedirs(self.outdir, exist_ok=True)
        self.known = known_findings(prop)

    def replay_file(self, name, content):
        p = os.path.join(self.outdir, name)
        with open(p, "w") as f:
            f.write(content)
        return p

    def violation(self, replay_path, text="", nofail=False, key=None):
        if key is not None and key in self.known:
            self.known_hit[key] = self.known[key]
            return
        self.violations.append((replay_path, nofail, text))

    def proof_cov(self, cb, checker_cmd):
        n = len(cb.get("theorems", []))
        self.cov["obligations"] = max(n, 1)
        self.cov["discharged"] = n if cb.get("ok") else 0
        self.cov["checker_cmd"] = checker_cmd
        self.cov["theorems"] = cb.get("theorems", [])
        self.cov["axioms_per_theorem"] = cb.get("axioms", {})

    def finish(self):
        wall = time.time() - self.t0
        if self.level not in ("exploration", "fault_enumeration", "model_checking", "proof", "translation_validation", "other"):
            self.cov["level_detail"] = self.level
            self.level = "proof"
        ev = {"property_id": self.prop, "tier": self.tier, "seed": self.seed, "level": self.level,
              "coverage": self.cov, "assumptions": self.assumptions, "wall_s": round(wall, 2),
              "violations": len(self.violations)}
        self.cov.setdefault("trusted_base", TRUSTED_BASE)
        os.makedirs(os.path.join(VERIF, "evidence"), exist_ok=True)
        with open(os.path.join(VERIF, "evidence", self.prop + ".json"), "w") as f:
            json.dump(ev, f, indent=1, default=str)
        for k, t in sorted(self.known_hit.items()):
            print("KNOWN-FINDING: property=%s %s [%s]" % (self.prop, t, k))
        shown = 0
        for path, nofail, text in self.violations:
            shown += 1
            if shown > 4:
                print("  (... %d more violations of this run not listed; replay files under %s)" % (len(self.violations) - 4, self.outdir))
                break
            if text:
                print("  " + text.replace("\n", "\n  "))
            print("VIOLATION property=%s replay=%s%s" % (self.prop, path, " no-failing-input-found" if nofail else ""))
        if not self.violations:
            print("OK property=%s tier=%s evaluations=%d distinct=%d wall=%.1fs" %
                  (self.prop, self.tier, self.cov.get("evaluations", 0), self.cov.get("distinct_nontrivial", 0), wall))
        sys.stdout.flush()
        return 1 if self.violations else 0


TRUSTED_BASE = [
    "Coq 8.16.1 kernel (coqc, full .vo builds; vm_compute used, native_compute not used)",
    "Coq extraction with ExtrOcamlBasic only (Extract Inductive bool/option/unit/list/prod/sumbool; no Extract Constant); OCaml 4.13.1",
    "hand-written OCaml drivers ocaml/conv.ml, ocaml/drv_*.ml; C drivers harness/*.c; lib/vlib.py, checks/*.py, tools/*.py|sh",
    "gcc + ASan/UBSan runtimes; the model stands in for the C (no C is verified directly): memcpy/memmove as list blits, nni_zalloc zero-fills, sizes as unbounded nat",
]


def proof_broken_report(rep, cb, what):
    """a proof obligation no longer checks and no failing input was found"""
    txt = "PROOF/CORRESPONDENCE BROKEN: %s\n%s\n%s" % (what, "\n".join(cb.get("failed_at", []) + cb.get("bad_axioms", []) + cb.get("undeclared", [])), cb.get("log", "")[-2500:])
    p = rep.replay_file("broken_obligation.txt", txt)
    rep.violation(p, what, nofail=True)


# ------------------------------------------------- white-box differential runs
def run_cases(binpath, cases, timeout=300, args=()):
    """cases: list of list-of-lines.  Runs them in one process, separated by
    'mark <k>' lines.  Returns (per_case_output_lines, crash) where crash is
    None or (case_index, rc, stderr_tail)."""
    script = []
    for k, c in enumerate(cases):
        script.append("mark %d" % k)
        script.extend(c)
    script.append("mark %d" % len(cases))
    rc, out, err = run_prog(binpath, "\n".join(script) + "\n", timeout=timeout, args=args)
    per = [[] for _ in cases]
    cur = -1
    for l in out:
        if l.startswith("mark "):
            cur = int(l.split()[1])
            continue
        if 0 <= cur < len(cases):
            per[cur].append(l)
    crash = None
    if rc != 0:
        crash = (min(max(cur, 0), len(cases) - 1), rc, err[-3000:])
    return per, crash


def ddmin(case, still_fails, max_iter=400):
    """delta-debugging on a list of lines; still_fails(list)->bool"""
    n = 2
    it = 0
    while len(case) >= 2 and it < max_iter:
        chunk = max(1, len(case) // n)
        reduced = False
        for i in range(0, len(case), chunk):
            cand = case[:i] + case[i + chunk:]
            it += 1
            if cand and still_fails(cand):
                case = cand
                n = max(n - 1, 2)
                reduced = True
                break
        if not reduced:
            if chunk == 1:
                break
            n = min(len(case), n * 2)
    return case


def load_corpus(prop):
    d = os.path.join(VERIF, "corpus", prop)
    res = []
    if os.path.isdir(d):
        for f in sorted(os.listdir(d)):
            if f.endswith(".case"):
                res.append([l.strip() for l in open(os.path.join(d, f)) if l.strip() and not l.startswith("#")])
    return res


def san_summary(err):
    """one line out of a sanitizer report"""
    for l in (err or "").splitlines():
        if "ERROR:" in l or "runtime error" in l or "SUMMARY:" in l or "panic" in l.lower():
            return l.strip()[:240]
    ls = [l for l in (err or "").splitlines() if l.strip() and not l.startswith("=")]
    return ls[0].strip()[:240] if ls else ""
