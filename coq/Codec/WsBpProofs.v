(* WsBpProofs: with the gate of ws_start_read as written, whatever the order of
   frame arrivals and receive requests, the messages handed over are the
   FIN-delimited groups of the frames that arrived -- a prefix of them, in
   order, never two groups merged, never a group split.  The read-ahead variant
   of the gate merges messages (witness). *)
From Coq Require Import List Arith Lia Bool NArith.
From NngV Require Import Base.ListX Codec.WsBpModel.
Import ListNotations.

Definition gf := groups_from ([], []).

Lemma gf_snoc C fr : gf (C ++ [fr]) = grp (gf C) fr.
Proof. unfold gf, groups_from. rewrite fold_left_app. reflexivity. Qed.

Lemma groups_fst_prefix : forall P st, exists t, fst (groups_from st P) = fst st ++ t.
Proof.
  induction P as [|fr P IH]; intros st; [exists []; cbn; now rewrite app_nil_r|].
  cbn [groups_from fold_left]. destruct (IH (grp st fr)) as [t Ht]. fold (groups_from (grp st fr) P). rewrite Ht.
  unfold grp. destruct (f_final fr); cbn [fst]; [rewrite <- app_assoc|]; eauto.
Qed.

(* what the queue state says about the frames read so far ([pre]: before
   ws_read_finish has run, a complete message may sit there with a receiver waiting) *)
Definition Q (pre : bool) (s : bp) (D : list (list byte)) (g : list (list byte) * list byte) : Prop :=
  (b_inmsg s = true /\ b_rxq s <> [] /\ g = (D, concat (b_rxq s))) \/
  (b_inmsg s = false /\ b_rxq s = [] /\ g = (D, [])) \/
  (b_inmsg s = false /\ b_rxq s <> [] /\ (pre = true \/ b_recvq s = 0) /\ g = (D ++ [concat (b_rxq s)], [])).

Lemma finish_inv s D g : Q true s D g ->
  Q false (fst (bp_finish s)) (D ++ snd (bp_finish s)) g /\ b_pending (fst (bp_finish s)) = b_pending s.
Proof.
  intros H. unfold bp_finish.
  destruct H as [(HI & HR & HG)|[(HI & HR & HG)|(HI & HR & _ & HG)]].
  - rewrite HI. cbn [orb fst snd]. rewrite app_nil_r. split; [left; auto|reflexivity].
  - rewrite HI, HR. cbn [orb is_nil fst snd]. rewrite app_nil_r. split; [right; left; auto|reflexivity].
  - rewrite HI. destruct (b_rxq s) as [|x r] eqn:ER; [congruence|]. cbn [orb is_nil].
    destruct (b_recvq s =? 0) eqn:E0; cbn [fst snd].
    + rewrite app_nil_r. split; [|reflexivity]. right; right. rewrite ER. apply Nat.eqb_eq in E0.
      repeat split; auto; discriminate.
    + split; [|reflexivity]. right; left. cbn [b_inmsg b_rxq]. auto.
Qed.

Lemma pump_inv A : forall fuel s D C, A = C ++ b_pending s -> Q false s D (gf C) ->
  exists C', A = C' ++ b_pending (fst (bp_pump true fuel s)) /\
             Q false (fst (bp_pump true fuel s)) (D ++ snd (bp_pump true fuel s)) (gf C').
Proof.
  induction fuel as [|fuel IH]; intros s D C HA HQ.
  - exists C. cbn [bp_pump fst snd]. rewrite app_nil_r. auto.
  - cbn [bp_pump].
    destruct (bp_may_read true s) eqn:EM; [|exists C; cbn [fst snd]; rewrite app_nil_r; auto].
    remember (b_pending s) as P eqn:EP. destruct P as [|fr r];
      [exists C; cbn [fst snd]; rewrite app_nil_r; split; [congruence|exact HQ]|].
    symmetry in EP.
    set (s1 := mkBp (negb (f_final fr)) (b_rxq s ++ [f_payload fr]) (b_recvq s) r).
    assert (HQ1: Q true s1 D (gf (C ++ [fr]))).
    { rewrite gf_snoc. unfold Q, s1. cbn [b_inmsg b_rxq b_recvq].
      assert (NE: b_rxq s ++ [f_payload fr] <> []) by (destruct (b_rxq s); discriminate).
      assert (CC: concat (b_rxq s ++ [f_payload fr]) = concat (b_rxq s) ++ f_payload fr)
        by (rewrite concat_app; cbn; now rewrite app_nil_r).
      destruct HQ as [(HI & HR & HG)|[(HI & HR & HG)|(HI & HR & HW & HG)]].
      - rewrite HG. unfold grp. cbn [fst snd]. destruct (f_final fr); cbn [negb].
        + right; right. rewrite CC. auto.
        + left. rewrite CC. auto.
      - rewrite HG, HR. unfold grp. cbn [fst snd app concat]. destruct (f_final fr); cbn [negb].
        + right; right. rewrite app_nil_r. repeat split; auto. discriminate.
        + left. rewrite app_nil_r. repeat split; auto. discriminate.
      - (* a complete message with nobody waiting: the gate does not let the next frame in *)
        exfalso. destruct HW as [HW|HW]; [discriminate|].
        unfold bp_may_read in EM. rewrite HW in EM. destruct (b_rxq s); [congruence|]. cbn in EM. discriminate. }
    destruct (finish_inv s1 D _ HQ1) as [HQ2 HP2].
    destruct (bp_finish s1) as [s2 d] eqn:EF. cbn [fst snd] in HQ2, HP2.
    destruct (IH s2 (D ++ d) (C ++ [fr])) as (C' & HA' & HQ').
    { rewrite HP2. unfold s1. cbn [b_pending]. rewrite <- app_assoc. cbn [app]. exact HA. }
    { exact HQ2. }
    destruct (bp_pump true fuel s2) as [s3 d'] eqn:EPu. cbn [fst snd] in *.
    exists C'. split; [exact HA'|]. rewrite app_assoc. exact HQ'.
Qed.

Definition BpInv (s : bp) (D : list (list byte)) (A : list dframe) : Prop :=
  exists C, A = C ++ b_pending s /\ Q false s D (gf C).

Lemma step_inv s D A e : BpInv s D A ->
  BpInv (fst (bp_step true s e)) (D ++ snd (bp_step true s e)) (A ++ arrived [e]).
Proof.
  intros (C & HA & HQ). destruct e as [fr|]; cbn [bp_step arrived flat_map app].
  - set (s1 := mkBp (b_inmsg s) (b_rxq s) (b_recvq s) (b_pending s ++ [fr])).
    destruct (pump_inv (A ++ [fr]) (S (length (b_pending s1))) s1 D C) as (C' & H1 & H2).
    { unfold s1. cbn [b_pending]. rewrite HA, <- app_assoc. reflexivity. }
    { exact HQ. }
    exists C'. auto.
  - rewrite app_nil_r.
    set (s1 := mkBp (b_inmsg s) (b_rxq s) (S (b_recvq s)) (b_pending s)).
    assert (HQ1: Q true s1 D (gf C)).
    { unfold Q, s1 in *. cbn [b_inmsg b_rxq b_recvq].
      destruct HQ as [H|[H|(HI & HR & _ & HG)]]; [left; exact H|right; left; exact H|right; right; auto]. }
    destruct (b_recvq s =? 0) eqn:E0.
    + destruct (finish_inv s1 D _ HQ1) as [HQ2 HP2].
      destruct (bp_finish s1) as [s2 d] eqn:EF. cbn [fst snd] in HQ2, HP2.
      destruct (pump_inv A (S (length (b_pending s2))) s2 (D ++ d) C) as (C' & H1 & H2).
      { rewrite HP2. exact HA. }
      { exact HQ2. }
      destruct (bp_pump true (S (length (b_pending s2))) s2) as [s3 d'] eqn:EPu. cbn [fst snd] in *.
      exists C'. split; [exact H1|]. rewrite app_assoc. exact H2.
    + (* other receivers were already waiting: nothing complete can be queued *)
      assert (HQ2: Q false s1 D (gf C)).
      { unfold Q, s1 in *. cbn [b_inmsg b_rxq b_recvq].
        destruct HQ as [H|[H|(HI & HR & HW & HG)]]; [left; exact H|right; left; exact H|].
        apply Nat.eqb_neq in E0. destruct HW as [HW|HW]; [discriminate|contradiction]. }
      destruct (pump_inv A (S (length (b_pending s1))) s1 D C HA HQ2) as (C' & H1 & H2).
      destruct (bp_pump true (S (length (b_pending s1))) s1) as [s3 d'] eqn:EPu. cbn [fst snd app] in *.
      exists C'. auto.
Qed.

Lemma run_inv : forall evs s D A, BpInv s D A ->
  BpInv (fst (bp_run true s evs)) (D ++ snd (bp_run true s evs)) (A ++ arrived evs).
Proof.
  induction evs as [|e evs IH]; intros s D A HI.
  - cbn [bp_run fst snd arrived flat_map]. now rewrite !app_nil_r.
  - cbn [bp_run]. pose proof (step_inv s D A e HI) as H1.
    destruct (bp_step true s e) as [s1 d] eqn:ES. cbn [fst snd] in H1.
    specialize (IH s1 (D ++ d) (A ++ arrived [e]) H1).
    destruct (bp_run true s1 evs) as [s2 d'] eqn:ER. cbn [fst snd] in *.
    replace (arrived (e :: evs)) with (arrived [e] ++ arrived evs) by (unfold arrived; cbn; now rewrite app_nil_r).
    rewrite !app_assoc in *. exact IH.
Qed.

(* ANY interleaving of frame arrivals and receive requests: what is handed over
   is a prefix of the FIN-delimited messages of the frames that arrived *)
Theorem bp_boundaries_independent_of_receivers evs :
  let D := snd (bp_run true bp_init evs) in
  D = firstn (length D) (messages (arrived evs)).
Proof.
  cbv zeta. pose proof (run_inv evs bp_init [] []) as H. cbn [app] in H.
  assert (H0: BpInv bp_init [] []).
  { exists []. split; [reflexivity|]. right; left. repeat split. }
  destruct (H H0) as (C & HA & HQ). clear H H0.
  set (D := snd (bp_run true bp_init evs)) in *.
  unfold messages. rewrite HA. unfold groups_from. rewrite fold_left_app.
  fold (groups_from ([], []) C). fold gf. fold (groups_from (gf C) (b_pending (fst (bp_run true bp_init evs)))).
  destruct (groups_fst_prefix (b_pending (fst (bp_run true bp_init evs))) (gf C)) as [t Ht]. rewrite Ht.
  destruct HQ as [(_ & _ & HG)|[(_ & _ & HG)|(_ & _ & _ & HG)]]; rewrite HG; cbn [fst].
  - symmetry. apply firstn_app_exact. reflexivity.
  - symmetry. apply firstn_app_exact. reflexivity.
  - rewrite <- app_assoc. symmetry. apply firstn_app_exact. reflexivity.
Qed.

(* the read-ahead gate (gate = false) merges two messages that arrive while
   nobody receives: A (final), B (final), C (final), then two receives *)
Example bp_readahead_merges :
  let evs := [BRecv; BArrive (mkFr true [65%N]); BArrive (mkFr true [66%N]); BArrive (mkFr true [67%N]); BRecv; BRecv] in
  snd (bp_run false bp_init evs) = [[65%N]; [66%N; 67%N]] /\
  snd (bp_run true bp_init evs) = [[65%N]; [66%N]; [67%N]].
Proof. split; vm_compute; reflexivity. Qed.
