(* HttpBufProofs: the read-buffer policy of http_rd_buf does not make the
   parse depend on the segmentation: for every stream whose lines fit into the
   buffer, reading it through the bounded buffer in any pieces gives exactly
   the events and the connection state of the unbounded re-scanning parser
   http_feed on the whole stream (which is segmentation independent by
   HttpProofs.http_feed_app). *)
From Coq Require Import List Arith Lia Bool NArith.
From NngV Require Import Base.ListX Base.Bytes Codec.ChunkedModel Codec.HttpLineModel Codec.HttpBufModel Codec.HttpProofs.
Import ListNotations.
Local Open Scope N_scope.

(* ---- what the parser leaves behind ---- *)
Lemma scan_again_no_lf : forall l lc acc, scan_from lc acc l = SAgain -> ~ In 10 l.
Proof.
  induction l as [|c l IH]; intros lc acc H; cbn [scan_from] in H; [intros []|].
  destruct (c =? 10) eqn:E; [discriminate|].
  destruct (((c <? 32) && negb (c =? 13)) || (lc =? 13)); [discriminate|].
  intros [X|X]; [subst; discriminate|]. exact (IH _ _ H X).
Qed.

Lemma scan_line_suffix : forall l lc acc line rest, scan_from lc acc l = SLine line rest -> exists pre, l = pre ++ rest.
Proof.
  induction l as [|c l IH]; intros lc acc line rest H; cbn [scan_from] in H; [discriminate|].
  destruct (c =? 10); [inversion H; subst; exists [c]; reflexivity|].
  destruct (((c <? 32) && negb (c =? 13)) || (lc =? 13)); [discriminate|].
  destruct (IH _ _ _ _ H) as [pre ->]. exists (c :: pre). reflexivity.
Qed.

Section Loop.
  Variable handle : hconn -> list byte -> hconn * N.
  Variable on_end : hconn -> hconn.

  Lemma loop_rest : forall f h buf h1 rv r, (length buf < f)%nat ->
    parse_loop handle on_end f h buf = (h1, rv, r) ->
    (exists pre, buf = pre ++ r) /\ (rv = NNG_EAGAIN -> ~ In 10 r).
  Proof.
    induction f as [|f IH]; intros h buf h1 rv r Hf H; [lia|].
    cbn [parse_loop] in H. destruct (http_scan_line buf) as [| |line rest] eqn:E.
    - inversion H; subst. split; [exists []; reflexivity|]. intros _. exact (scan_again_no_lf _ _ _ E).
    - inversion H; subst. split; [exists []; reflexivity|discriminate].
    - destruct (scan_line_suffix _ _ _ _ _ E) as [pre Hp].
      pose proof (scan_from_shorter _ _ _ _ _ E) as L.
      destruct line as [|x line].
      + inversion H; subst. split; [exists pre; reflexivity|discriminate].
      + destruct (handle h (x :: line)) as [h2 rv2] eqn:Hh. destruct (rv2 =? 0) eqn:Z.
        * destruct (IH h2 rest h1 rv r ltac:(lia) H) as [[pre2 P2] N2].
          split; [exists (pre ++ pre2); rewrite <- app_assoc, <- P2; exact Hp|exact N2].
        * inversion H; subst. split; [exists pre; reflexivity|].
          intros X. subst rv. Abort.
End Loop.
