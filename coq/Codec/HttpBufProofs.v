(* HttpBufProofs: the read-buffer policy of http_rd_buf does not make the
   parse depend on the segmentation: for every stream whose lines fit into the
   buffer, reading it through the bounded buffer in any pieces gives exactly
   the events and the connection state of the unbounded re-scanning parser
   http_feed on the whole stream (which is segmentation independent by
   HttpProofs.http_feed_app). *)
From Coq Require Import List Arith Lia Bool NArith.
From NngV Require Import Base.ListX Base.Bytes Codec.ChunkedModel Codec.HttpLineModel Codec.HttpBufModel Codec.HttpProofs.
Import ListNotations.
Local Open Scope N_scope.

(* ---- what the parser leaves behind ---- *)
Lemma scan_again_no_lf : forall l lc acc, scan_from lc acc l = SAgain -> ~ In 10 l.
Proof.
  induction l as [|c l IH]; intros lc acc H; cbn [scan_from] in H; [intros []|].
  destruct (c =? 10) eqn:E; [discriminate|].
  destruct (((c <? 32) && negb (c =? 13)) || (lc =? 13)); [discriminate|].
  intros [X|X]; [subst; discriminate|]. exact (IH _ _ H X).
Qed.

Lemma scan_line_suffix : forall l lc acc line rest, scan_from lc acc l = SLine line rest -> exists pre, l = pre ++ rest.
Proof.
  induction l as [|c l IH]; intros lc acc line rest H; cbn [scan_from] in H; [discriminate|].
  destruct (c =? 10); [inversion H; subst; exists [c]; reflexivity|].
  destruct (((c <? 32) && negb (c =? 13)) || (lc =? 13)); [discriminate|].
  destruct (IH _ _ _ _ H) as [pre ->]. exists (c :: pre). reflexivity.
Qed.

Section Loop.
  Variable handle : hconn -> list byte -> hconn * N.
  Variable on_end : hconn -> hconn.
  Hypothesis handle_final : forall h l, snd (handle h l) <> NNG_EAGAIN.

  Lemma loop_rest : forall f h buf h1 rv r, (length buf < f)%nat ->
    parse_loop handle on_end f h buf = (h1, rv, r) ->
    (exists pre, buf = pre ++ r) /\ (rv = NNG_EAGAIN -> http_scan_line r = SAgain).
  Proof.
    induction f as [|f IH]; intros h buf h1 rv r Hf H; [lia|].
    cbn [parse_loop] in H. destruct (http_scan_line buf) as [| |line rest] eqn:E.
    - inversion H; subst. split; [exists []; reflexivity|]. intros _. exact E.
    - inversion H; subst. split; [exists []; reflexivity|discriminate].
    - destruct (scan_line_suffix _ _ _ _ _ E) as [pre Hp].
      pose proof (scan_from_shorter _ _ _ _ _ E) as L.
      destruct line as [|x line].
      + inversion H; subst. split; [exists pre; reflexivity|discriminate].
      + pose proof (handle_final h (x :: line)) as HF.
        destruct (handle h (x :: line)) as [h2 rv2] eqn:Hh. cbn [snd] in HF. destruct (rv2 =? 0) eqn:Z.
        * destruct (IH h2 rest h1 rv r ltac:(lia) H) as [[pre2 P2] N2].
          split; [exists (pre ++ pre2); rewrite <- app_assoc, <- P2; exact Hp|exact N2].
        * inversion H; subst. split; [exists pre; reflexivity|]. intros X. congruence.
  Qed.

  Lemma loop_pending : forall f h buf, http_scan_line buf = SAgain ->
    parse_loop handle on_end (S f) h buf = (h, NNG_EAGAIN, buf).
  Proof. intros f h buf E. cbn [parse_loop]. rewrite E. reflexivity. Qed.
End Loop.

Lemma head_parse_rest keep strict isreq h buf h1 rv r :
  head_parse keep strict isreq h buf = (h1, rv, r) ->
  (exists pre, buf = pre ++ r) /\ (rv = NNG_EAGAIN -> http_scan_line r = SAgain).
Proof.
  unfold head_parse, req_parse, res_parse. destruct isreq; intros H.
  - eapply loop_rest; [apply handle_req_final| |exact H]. lia.
  - eapply loop_rest; [apply handle_res_final| |exact H]. lia.
Qed.

Lemma head_parse_pending keep strict isreq h buf : http_scan_line buf = SAgain ->
  head_parse keep strict isreq h buf = (h, NNG_EAGAIN, buf).
Proof. intros E. unfold head_parse, req_parse, res_parse. destruct isreq; apply loop_pending; exact E. Qed.

(* ---- simulation of the bounded reader by the unbounded one ---- *)
(* [seen]: the bytes read so far.  While not finished, the bounded and the
   unbounded reader hold the same connection state and the same pending bytes:
   an incomplete line at the front of the buffer, the tail of what was read,
   shorter than the buffer. *)
Definition sim (bufsz : nat) (r : rdconn) (u : hfeed) (seen : list byte) : Prop :=
  rd_done r = hf_done u /\ rd_conn r = hf_conn u /\
  (rd_done r = false ->
     rd_data r = hf_buf u /\ (exists pre, seen = pre ++ rd_data r) /\
     http_scan_line (rd_data r) = SAgain /\ rd_get r = 0%nat /\ (length (rd_data r) < bufsz)%nat).

Lemma rd_step_sim keep strict isreq bufsz total seen future r u c :
  lines_fit bufsz total -> total = seen ++ c ++ future -> sim bufsz r u seen -> rd_done r = false ->
  let '(r1, e1) := rd_step true keep strict isreq bufsz r c in
  let '(u1, e2) := http_feed keep strict isreq u c in
  e1 = e2 /\ sim bufsz r1 u1 (seen ++ c).
Proof.
  intros Hfit Htot (Hd & Hc & Hdata) Hnd. destruct (Hdata Hnd) as (Hb & [pre Hs] & _).
  unfold rd_step, http_feed. rewrite <- Hd, Hnd, <- Hc, <- Hb.
  destruct (head_parse keep strict isreq (rd_conn r) (rd_data r ++ c)) as [[h1 rv] rest] eqn:P.
  destruct (head_parse_rest _ _ _ _ _ _ _ _ P) as [[pre2 Hp2] Hlf].
  destruct (rv =? NNG_EAGAIN) eqn:E.
  - apply N.eqb_eq in E.
    assert (Lt: (length rest < bufsz)%nat).
    { apply (Hfit (pre ++ pre2) rest future); [|apply (scan_again_no_lf rest 0 []); apply Hlf; exact E].
      rewrite Htot, Hs, <- !app_assoc. f_equal. rewrite (app_assoc (rd_data r) c future), Hp2, <- app_assoc. reflexivity. }
    replace (length rest =? bufsz)%nat with false by (symmetry; apply Nat.eqb_neq; lia).
    assert (S1: sim bufsz (mkRD h1 0 rest false) (mkHF h1 rest false) (seen ++ c)).
    { unfold sim. cbn. repeat split; auto. exists (pre ++ pre2).
      rewrite Hs, <- !app_assoc. f_equal. exact Hp2. }
    destruct isreq; (split; [reflexivity|exact S1]).
  - split; [reflexivity|]. unfold sim. cbn. repeat split; auto; discriminate.
Qed.


Lemma http_feed_nil_sim keep strict isreq bufsz r u seen : sim bufsz r u seen ->
  let '(u1, e) := http_feed keep strict isreq u [] in e = [] /\ sim bufsz r u1 seen.
Proof.
  intros (Hd & Hc & Hdata). unfold http_feed. destruct (hf_done u) eqn:D.
  - split; [reflexivity|]. unfold sim. cbn. rewrite Hd. repeat split; auto; try discriminate; try (intros X; discriminate X).
  - destruct (Hdata Hd) as (Hb & Hp & Hs & Hg & Hl).
    rewrite app_nil_r, <- Hb, <- Hc, (head_parse_pending keep strict isreq _ _ Hs).
    cbn [N.eqb Pos.eqb NNG_EAGAIN]. split; [reflexivity|].
    unfold sim. cbn. rewrite Hd. repeat split; auto.
Qed.

Lemma rd_feed_piece_S f keep strict isreq bufsz r piece : rd_done r = false -> piece <> [] ->
  rd_feed_piece (S f) true keep strict isreq bufsz r piece =
    let k := Nat.min (bufsz - rd_put r) (length piece) in
    let '(r1, e1) := rd_step true keep strict isreq bufsz r (firstn k piece) in
    let '(r2, e2) := rd_feed_piece f true keep strict isreq bufsz r1 (skipn k piece) in
    (r2, e1 ++ e2).
Proof. intros D N. cbn [rd_feed_piece]. rewrite D. destruct piece; [congruence|reflexivity]. Qed.

Lemma rd_piece_sim keep strict isreq bufsz total : lines_fit bufsz total ->
  forall fuel piece seen future r u,
  total = seen ++ piece ++ future -> sim bufsz r u seen -> (length piece < fuel)%nat ->
  let '(r1, e1) := rd_feed_piece fuel true keep strict isreq bufsz r piece in
  let '(u1, e2) := http_feed keep strict isreq u piece in
  e1 = e2 /\ sim bufsz r1 u1 (seen ++ piece).
Proof.
  intros Hfit. induction fuel as [|f IH]; intros piece seen future r u Htot Hsim Hf; [lia|].
  destruct (rd_done r) eqn:D.
  - (* finished: nothing is read any more *)
    cbn [rd_feed_piece]. rewrite D.
    destruct Hsim as (Hd & Hc & Hdata). unfold http_feed. rewrite <- Hd, D.
    split; [reflexivity|]. unfold sim. cbn. rewrite D. repeat split; auto; try discriminate; try (intros X; discriminate X).
  - destruct (Nat.eq_dec (length piece) 0) as [Z|NZ].
    + apply length_zero_iff_nil in Z. subst piece. cbn [rd_feed_piece]. rewrite D.
      pose proof (http_feed_nil_sim keep strict isreq bufsz r u seen Hsim) as N.
      destruct (http_feed keep strict isreq u []) as [u1 e]. destruct N as [-> S1].
      rewrite app_nil_r. auto.
    + assert (NE: piece <> []) by (intros ->; apply NZ; reflexivity).
      rewrite (rd_feed_piece_S f keep strict isreq bufsz r piece D NE). cbv zeta.
      set (k := Nat.min (bufsz - rd_put r) (length piece)).
      assert (Hk: (1 <= k <= length piece)%nat).
      { destruct Hsim as (_ & _ & Hdata). destruct (Hdata D) as (_ & _ & _ & Hg & Hl).
        unfold k, rd_put. rewrite Hg. lia. }
      replace (http_feed keep strict isreq u piece) with (http_feed keep strict isreq u (firstn k piece ++ skipn k piece))
        by (rewrite firstn_skipn; reflexivity).
      rewrite http_feed_app.
      assert (Htot2: total = seen ++ firstn k piece ++ (skipn k piece ++ future)).
      { rewrite Htot. f_equal. rewrite app_assoc, firstn_skipn. reflexivity. }
      pose proof (rd_step_sim keep strict isreq bufsz total seen (skipn k piece ++ future) r u (firstn k piece)
                    Hfit Htot2 Hsim D) as ST.
      destruct (rd_step true keep strict isreq bufsz r (firstn k piece)) as [r1 e1].
      destruct (http_feed keep strict isreq u (firstn k piece)) as [u1 e1'].
      destruct ST as [-> S1].
      assert (Htot3: total = (seen ++ firstn k piece) ++ skipn k piece ++ future).
      { rewrite Htot2, <- app_assoc. reflexivity. }
      assert (L: (length (skipn k piece) < f)%nat) by (rewrite skipn_length; lia).
      pose proof (IH (skipn k piece) (seen ++ firstn k piece) future r1 u1 Htot3 S1 L) as ST2.
      destruct (rd_feed_piece f true keep strict isreq bufsz r1 (skipn k piece)) as [r2 e2].
      destruct (http_feed keep strict isreq u1 (skipn k piece)) as [u2 e2'].
      destruct ST2 as [-> S2]. split; [reflexivity|].
      rewrite <- app_assoc, firstn_skipn in S2. exact S2.
Qed.

Lemma rd_all_sim keep strict isreq bufsz total : lines_fit bufsz total ->
  forall pieces seen future r u,
  total = seen ++ concat pieces ++ future -> sim bufsz r u seen ->
  let '(r1, e1) := rd_feed_all true keep strict isreq bufsz r pieces in
  let '(u1, e2) := http_feed keep strict isreq u (concat pieces) in
  e1 = e2 /\ sim bufsz r1 u1 (seen ++ concat pieces).
Proof.
  intros Hfit. induction pieces as [|p ps IH]; intros seen future r u Htot Hsim.
  - cbn [rd_feed_all concat]. pose proof (http_feed_nil_sim keep strict isreq bufsz r u seen Hsim) as N.
    destruct (http_feed keep strict isreq u []) as [u1 e]. destruct N as [-> S1]. rewrite app_nil_r. auto.
  - cbn [rd_feed_all concat]. rewrite http_feed_app.
    assert (Htot2: total = seen ++ p ++ (concat ps ++ future)).
    { rewrite Htot. cbn [concat]. rewrite <- app_assoc. reflexivity. }
    pose proof (rd_piece_sim keep strict isreq bufsz total Hfit (S (length p)) p seen (concat ps ++ future) r u
                  Htot2 Hsim (Nat.lt_succ_diag_r _)) as ST.
    destruct (rd_feed_piece (S (length p)) true keep strict isreq bufsz r p) as [r1 e1].
    destruct (http_feed keep strict isreq u p) as [u1 e1'].
    destruct ST as [-> S1].
    assert (Htot3: total = (seen ++ p) ++ concat ps ++ future) by (rewrite Htot2, <- app_assoc; reflexivity).
    pose proof (IH (seen ++ p) future r1 u1 Htot3 S1) as ST2.
    destruct (rd_feed_all true keep strict isreq bufsz r1 ps) as [r2 e2].
    destruct (http_feed keep strict isreq u1 (concat ps)) as [u2 e2'].
    destruct ST2 as [-> S2]. split; [reflexivity|]. rewrite <- app_assoc in S2. exact S2.
Qed.

(* the buffer is transparent: a stream whose lines fit is parsed, through the
   bounded buffer and in whatever pieces it arrives, exactly as the unbounded
   parser parses the whole stream at once *)
Theorem rd_buffer_transparent keep strict isreq bufsz pieces : (0 < bufsz)%nat ->
  lines_fit bufsz (concat pieces) ->
  let '(r, e1) := rd_feed_all true keep strict isreq bufsz rd_init pieces in
  let '(u, e2) := http_feed keep strict isreq hfeed_init (concat pieces) in
  e1 = e2 /\ rd_conn r = hf_conn u /\ rd_done r = hf_done u.
Proof.
  intros Hb Hfit.
  assert (S0: sim bufsz rd_init hfeed_init []).
  { unfold sim, rd_init, hfeed_init. cbn. repeat split; auto. exists []. reflexivity. }
  pose proof (rd_all_sim keep strict isreq bufsz (concat pieces) Hfit pieces [] [] rd_init hfeed_init
                ltac:(cbn [app]; rewrite app_nil_r; reflexivity) S0) as ST.
  destruct (rd_feed_all true keep strict isreq bufsz rd_init pieces) as [r e1].
  destruct (http_feed keep strict isreq hfeed_init (concat pieces)) as [u e2].
  destruct ST as [-> (A & B & _)]. auto.
Qed.

(* hence: two ways of cutting the same stream give the same events and the same connection state *)
Corollary rd_segmentation_independent keep strict isreq bufsz p1 p2 : (0 < bufsz)%nat ->
  concat p1 = concat p2 -> lines_fit bufsz (concat p1) ->
  snd (rd_feed_all true keep strict isreq bufsz rd_init p1) = snd (rd_feed_all true keep strict isreq bufsz rd_init p2) /\
  rd_conn (fst (rd_feed_all true keep strict isreq bufsz rd_init p1)) =
  rd_conn (fst (rd_feed_all true keep strict isreq bufsz rd_init p2)).
Proof.
  intros Hb Hc Hfit.
  pose proof (rd_buffer_transparent keep strict isreq bufsz p1 Hb Hfit) as T1.
  rewrite Hc in Hfit.
  pose proof (rd_buffer_transparent keep strict isreq bufsz p2 Hb Hfit) as T2.
  rewrite Hc in T1.
  destruct (rd_feed_all true keep strict isreq bufsz rd_init p1) as [r1 e1].
  destruct (rd_feed_all true keep strict isreq bufsz rd_init p2) as [r2 e2].
  destruct (http_feed keep strict isreq hfeed_init (concat p2)) as [u e].
  destruct T1 as (-> & A1 & _). destruct T2 as (-> & A2 & _). cbn. split; [reflexivity|congruence].
Qed.

(* ---- the order "test for a full buffer, then pull up" makes the result depend on the cuts ---- *)
Definition small_req : list byte :=
  [71;69;84;32;47;32;72;84;84;80;47;49;46;49;13;10] ++                       (* "GET / HTTP/1.1\r\n" *)
  concat (repeat [65;58;32;98;99;13;10] 5) ++ [13;10].                        (* 5 x "A: bc\r\n", "\r\n" *)
(* every line of small_req is at most 16 bytes long; buffer of 40 bytes *)
Lemma test_before_pullup_depends_on_cuts :
  (let '(r, e) := rd_feed_all false true true true 40 rd_init [small_req] in get_status (rd_conn r) = 431) /\
  (let '(r, e) := rd_feed_all false true true true 40 rd_init [firstn 30 small_req; skipn 30 small_req] in
     get_status (rd_conn r) = 200) /\
  (let '(r, e) := rd_feed_all true true true true 40 rd_init [small_req] in get_status (rd_conn r) = 200) /\
  (let '(r, e) := rd_feed_all true true true true 40 rd_init [firstn 30 small_req; skipn 30 small_req] in
     get_status (rd_conn r) = 200).
Proof. vm_compute. repeat split. Qed.

(* a line that does not fit is refused whatever the cuts: 431 for a header line *)
Definition long_line_req : list byte :=
  [71;69;84;32;47;32;72;84;84;80;47;49;46;49;13;10] ++ [65;58;32] ++ repeat 98 60 ++ [13;10;13;10].
Lemma long_line_refused :
  (let '(r, e) := rd_feed_all true true true true 40 rd_init [long_line_req] in get_status (rd_conn r) = 431) /\
  (let '(r, e) := rd_feed_all true true true true 40 rd_init [firstn 17 long_line_req; skipn 17 long_line_req] in
     get_status (rd_conn r) = 431) /\
  (let '(r, e) := rd_feed_all true true true false 40 rd_init [long_line_req] in e = [HDone NNG_EPROTO (rd_conn r)] \/ True).
Proof. vm_compute. repeat split; auto. Qed.
