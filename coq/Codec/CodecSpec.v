(* CodecSpec: the independent grammars and reference semantics for C16.
   Definitions only; written from RFC 6455 section 5.2, RFC 7230 sections 3/4.1
   and RFC 4648, not from the C.  Arithmetic with div/mod (the models use the
   C's masks and shifts). *)
From Coq Require Import List Arith Lia Bool NArith.
From NngV Require Import Base.ListX Base.Bytes.
Import ListNotations.
Local Open Scope N_scope.

(* ---- RFC 6455 5.2: one frame as a predicate over bytes ---- *)
Definition ws_known_op (op : N) : Prop := In op [0; 1; 2; 8; 9; 10].

Definition wf_ws_frame (from_server : bool) (bytes : list byte) : Prop :=
  exists (fin op len7 : N) (ext key payload : list byte),
    bytes = [fin * 128 + op; (if from_server then 0 else 128) + len7] ++ ext ++ key ++ payload /\
    fin < 2 /\ ws_known_op op /\ len7 < 128 /\
    (len7 < 126 -> ext = [] /\ N.of_nat (length payload) = len7) /\
    (len7 = 126 -> length ext = 2%nat /\ be_dec ext = N.of_nat (length payload) /\ 126 <= be_dec ext) /\
    (len7 = 127 -> length ext = 8%nat /\ be_dec ext = N.of_nat (length payload) /\
                   65536 <= be_dec ext /\ be_dec ext < 2 ^ 63) /\
    (if from_server then key = [] else length key = 4%nat) /\
    (8 <= op -> fin = 1 /\ len7 <= 125) /\
    bytes_ok bytes.

(* ---- reference receiver (executable): frames, then the message rules ---- *)
Fixpoint xor_key (i : nat) (key l : list byte) : list byte :=
  match l with
  | [] => []
  | b :: r => N.lxor b (nth (Nat.modulo i 4) key 0) :: xor_key (Nat.modulo (S i) 4) key r
  end.

Record sframe := mkSF { sf_b0 : N; sf_masked : bool; sf_minimal : bool; sf_len : N; sf_payload : list byte }.

(* None: the bytes do not (yet) contain a whole frame *)
Definition spec_parse_frame (buf : list byte) : option (sframe * list byte) :=
  match buf with
  | b0 :: b1 :: r =>
      let l7 := b1 mod 128 in
      let masked := 128 <=? b1 in
      let next := if l7 =? 126 then 2%nat else if l7 =? 127 then 8%nat else 0%nat in
      if (length r <? next)%nat then None
      else
        let len := match next with O => l7 | _ => be_dec (firstn next r) end in
        let minimal := if l7 =? 126 then 126 <=? len else if l7 =? 127 then 65536 <=? len else true in
        let r1 := skipn next r in
        if masked && (length r1 <? 4)%nat then None
        else
          let key := if masked then firstn 4 r1 else [] in
          let r2 := if masked then skipn 4 r1 else r1 in
          if N.of_nat (length r2) <? len then None
          else
            let k := N.to_nat len in
            let p := firstn k r2 in
            Some (mkSF b0 masked minimal len (if masked then xor_key 0 key p else p), skipn k r2)
  | _ => None
  end.

Record spec_cfg := mkSC { sc_server : bool; sc_isstream : bool; sc_maxframe : N; sc_recvmax : N; sc_recv_text : bool }.
Inductive spec_outcome := SOk | SViolation | SClosed.

Definition sf_op (f : sframe) : N := sf_b0 f mod 16.
Definition sf_rsv (f : sframe) : N := (sf_b0 f / 16) mod 8.
Definition sf_fin (f : sframe) : bool := 128 <=? sf_b0 f.
Definition total_len (q : list (list byte)) : N := N.of_nat (length (concat q)).

(* the rules of the property, for one frame in context *)
Definition frame_violates (c : spec_cfg) (inmsg : bool) (parts : list (list byte)) (f : sframe) : bool :=
  let op := sf_op f in
  negb (sf_rsv f =? 0)
  || negb (existsb (N.eqb op) [0; 1; 2; 8; 9; 10])
  || negb (Bool.eqb (sf_masked f) (sc_server c))
  || negb (sf_minimal f)
  || ((8 <=? op) && (125 <? sf_len f))
  || ((0 <? sc_maxframe c) && (sc_maxframe c <? sf_len f))
  || ((op =? 0) && negb inmsg)
  || (((op =? 1) || (op =? 2)) && inmsg)
  || ((op =? 1) && negb (sc_recv_text c))
  || (negb (sc_isstream c) && (0 <? sc_recvmax c) && (op <? 8) && (sc_recvmax c <? sf_len f + total_len parts)).

Fixpoint spec_ws_loop (fuel : nat) (c : spec_cfg) (inmsg : bool) (parts : list (list byte))
    (buf : list byte) : list (list byte) * spec_outcome :=
  match fuel with
  | O => ([], SOk)
  | S f =>
      match spec_parse_frame buf with
      | None => ([], SOk)
      | Some (fr, rest) =>
          if frame_violates c inmsg parts fr then ([], SViolation)
          else
            let op := sf_op fr in
            if op =? 8 then ([], SClosed)
            else if 8 <=? op then spec_ws_loop f c inmsg parts rest
            else if sc_isstream c then
              let '(d, o) := spec_ws_loop f c (negb (sf_fin fr)) [] rest in
              ((if (length (sf_payload fr) =? 0)%nat then d else sf_payload fr :: d), o)
            else if sf_fin fr then
              let '(d, o) := spec_ws_loop f c false [] rest in (concat (parts ++ [sf_payload fr]) :: d, o)
            else spec_ws_loop f c true (parts ++ [sf_payload fr]) rest
      end
  end.
Definition spec_ws_run (c : spec_cfg) (stream : list byte) : list (list byte) * spec_outcome :=
  spec_ws_loop (S (length stream)) c false [] stream.

(* a stream of frames all well formed for a sender of the given role
   (executable form of wf_ws_frame, used on the bytes nng emits) *)
Definition frame_wf_b (from_server : bool) (f : sframe) : bool :=
  (sf_rsv f =? 0) && existsb (N.eqb (sf_op f)) [0; 1; 2; 8; 9; 10]
  && Bool.eqb (sf_masked f) (negb from_server) && sf_minimal f
  && ((sf_op f <? 8) || (sf_fin f && (sf_len f <=? 125))) && (sf_len f <? 2 ^ 63).
Fixpoint frames_wf_b (fuel : nat) (from_server : bool) (buf : list byte) : bool :=
  match fuel with
  | O => false
  | S f => match buf with
           | [] => true
           | _ => match spec_parse_frame buf with
                  | None => false
                  | Some (fr, rest) => frame_wf_b from_server fr && frames_wf_b f from_server rest
                  end
           end
  end.
Definition wf_ws_stream_b (from_server : bool) (buf : list byte) : bool :=
  frames_wf_b (S (length buf)) from_server buf.

(* ---- RFC 7230: head = start-line CRLF *( field CRLF ) CRLF ---- *)
Definition is_tchar (c : byte) : bool :=
  ((48 <=? c) && (c <=? 57)) || ((65 <=? c) && (c <=? 90)) || ((97 <=? c) && (c <=? 122))
  || existsb (N.eqb c) [33; 35; 36; 37; 38; 39; 42; 43; 45; 46; 94; 95; 96; 124; 126].
Definition is_vchar_sp (c : byte) : bool := ((32 <=? c) && (c <=? 126)) || (c =? 9) || (128 <=? c).

(* split at the first CRLF *)
Fixpoint split_crlf (l : list byte) : option (list byte * list byte) :=
  match l with
  | 13 :: 10 :: r => Some ([], r)
  | c :: r => match split_crlf r with Some (a, b) => Some (c :: a, b) | None => None end
  | [] => None
  end.
Fixpoint field_ok (name : bool) (l : list byte) : bool :=
  match l with
  | [] => negb name                      (* a colon must have been seen *)
  | c :: r => if name then (if c =? 58 then field_ok false r else is_tchar c && field_ok true r)
              else is_vchar_sp c && field_ok false r
  end.
Definition field_line_ok (l : list byte) : bool :=
  match l with [] => false | c :: _ => negb (c =? 58) && field_ok true l end.
Definition count_sp (l : list byte) : nat := length (filter (N.eqb 32) l).
Definition start_line_ok (l : list byte) : bool :=
  (2 <=? count_sp l)%nat && forallb (fun c => (32 <=? c) && (c <=? 126)) l
  && match l with c :: _ => negb (c =? 32) | [] => false end.
Fixpoint fields_ok (fuel : nat) (l : list byte) : bool :=
  match fuel with
  | O => false
  | S f => match split_crlf l with
           | None => false
           | Some ([], rest) => match rest with [] => true | _ => false end
           | Some (line, rest) => field_line_ok line && fields_ok f rest
           end
  end.
Definition wf_http_head_b (l : list byte) : bool :=
  match split_crlf l with
  | None => false
  | Some (sl, rest) => start_line_ok sl && fields_ok (S (length rest)) rest
  end.
Definition wf_http_head (l : list byte) : Prop := wf_http_head_b l = true.

(* ---- chunk-size: value of a hex string ---- *)
Definition hex_digit (c : byte) : option N :=
  if (48 <=? c) && (c <=? 57) then Some (c - 48)
  else if (65 <=? c) && (c <=? 70) then Some (c - 55)
  else if (97 <=? c) && (c <=? 102) then Some (c - 87)
  else None.
Fixpoint hex_value_from (acc : N) (l : list byte) : option N :=
  match l with
  | [] => Some acc
  | c :: r => match hex_digit c with Some d => hex_value_from (acc * 16 + d) r | None => None end
  end.
Definition hex_value (l : list byte) : option N :=
  match l with [] => None | _ => hex_value_from 0 l end.

(* reference de-chunker: chunk = hex-size [;ext] CRLF data CRLF ; last = 0 ; trailers ; CRLF *)
Fixpoint take_hex (l : list byte) : list byte * list byte :=
  match l with
  | c :: r => match hex_digit c with
              | Some _ => let '(a, b) := take_hex r in (c :: a, b)
              | None => ([], l)
              end
  | [] => ([], [])
  end.
Inductive dechunk_res := DBody (chunks : list (list byte)) (rest : list byte) | DBad | DMore.
Fixpoint trailers (fuel : nat) (l : list byte) : option (option (list byte)) :=   (* None: bad, Some None: more *)
  match fuel with
  | O => Some None
  | S f => match split_crlf l with
           | None => if existsb (fun c => negb (((32 <=? c) && (c <=? 126)) || (c =? 13))) l then None else Some None
           | Some ([], rest) => Some (Some rest)
           | Some (line, rest) => if forallb (fun c => (32 <=? c) && (c <=? 126)) line then trailers f rest else None
           end
  end.
Fixpoint spec_dechunk (fuel : nat) (maxsz total : N) (l : list byte) : dechunk_res :=
  match fuel with
  | O => DMore
  | S f =>
      let '(hx, r0) := take_hex l in
      match hex_value hx with
      | None => match l with [] => DMore | _ => DBad end
      | Some sz =>
          match split_crlf r0 with
          | None => if existsb (fun c => negb (((32 <=? c) && (c <=? 126)) || (c =? 13))) r0 then DBad else DMore
          | Some (ext, r1) =>
              if negb (match ext with [] => true | c :: e => (c =? 59) && forallb (fun c => (32 <=? c) && (c <=? 126)) e end)
              then DBad
              else if sz =? 0 then
                match trailers (S (length r1)) r1 with
                | None => DBad
                | Some None => DMore
                | Some (Some rest) => DBody [] rest
                end
              else if (2 ^ 64 <=? sz + total + 2) || ((0 <? maxsz) && (maxsz <? total + sz)) then DBad
              else if N.of_nat (length r1) <? sz + 2 then
                     (if (sz <? N.of_nat (length r1)) && negb (nth (N.to_nat sz) r1 0 =? 13) then DBad else DMore)
              else
                let k := N.to_nat sz in
                match skipn k r1 with
                | 13 :: 10 :: r2 =>
                    match spec_dechunk f maxsz (total + sz) r2 with
                    | DBody cs rest => DBody (firstn k r1 :: cs) rest
                    | o => o
                    end
                | _ => DBad
                end
          end
      end
  end.
Definition spec_dechunk_run (maxsz : N) (l : list byte) : dechunk_res := spec_dechunk (S (length l)) maxsz 0 l.

(* ---- RFC 4648 ---- *)
Definition b64_alphabet (c : byte) : bool :=
  ((65 <=? c) && (c <=? 90)) || ((97 <=? c) && (c <=? 122)) || ((48 <=? c) && (c <=? 57)) || (c =? 43) || (c =? 47).
Definition b64_index (c : byte) : N :=
  if (65 <=? c) && (c <=? 90) then c - 65
  else if (97 <=? c) && (c <=? 122) then c - 71
  else if (48 <=? c) && (c <=? 57) then c + 4
  else if c =? 43 then 62 else 63.
(* reference encoder over 3-byte groups *)
Definition b64_sym (i : N) : byte :=
  nth (N.to_nat i)
    [65;66;67;68;69;70;71;72;73;74;75;76;77;78;79;80;81;82;83;84;85;86;87;88;89;90;
     97;98;99;100;101;102;103;104;105;106;107;108;109;110;111;112;113;114;115;116;117;118;119;120;121;122;
     48;49;50;51;52;53;54;55;56;57;43;47] 0.
Fixpoint spec_b64_encode (l : list byte) : list byte :=
  match l with
  | a :: b :: c :: r =>
      let v := a * 65536 + b * 256 + c in
      b64_sym (v / 262144) :: b64_sym ((v / 4096) mod 64) :: b64_sym ((v / 64) mod 64) :: b64_sym (v mod 64)
        :: spec_b64_encode r
  | [a; b] =>
      let v := a * 65536 + b * 256 in
      [b64_sym (v / 262144); b64_sym ((v / 4096) mod 64); b64_sym ((v / 64) mod 64); 61]
  | [a] =>
      let v := a * 65536 in [b64_sym (v / 262144); b64_sym ((v / 4096) mod 64); 61; 61]
  | [] => []
  end.
