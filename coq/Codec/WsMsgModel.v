(* WsMsgModel: executable model of the receive path (ws_read_cb,
   ws_read_frame_cb, ws_read_finish_msg / _str, ws_close, ws_send_control) and
   of the sender-side fragmentation (ws_str_send / ws_frame_prep_tx /
   ws_write_cb) of src/supplemental/websocket/websocket.c.  Definitions only.

   The receive path is driven by nni_http_read_full: 2 header bytes, then the
   rest of the header, then the payload; it is an instance of Codec/Staged.v.
   A receiver is assumed to be waiting (ws_str_recv posted), as in the
   harness: back-pressure (reading stops while a frame is queued and nobody
   receives) delays events but does not change them. *)
From Coq Require Import List Arith Lia Bool NArith.
From NngV Require Import Base.ListX Base.Bytes Codec.Staged Codec.WsFrameModel.
Import ListNotations.
Local Open Scope N_scope.

Record ws_cfg := mkCfg {
  c_server : bool;       (* ws->server: this end is the server *)
  c_isstream : bool;     (* ws->isstream (false = message mode) *)
  c_maxframe : N;        (* ws->maxframe, 0 = unlimited *)
  c_recvmax : N;         (* ws->recvmax, 0 = unlimited *)
  c_recv_text : bool;    (* ws->recv_text *)
  c_allocmax : N;        (* nni_alloc fails above this size *)
  c_ctl_counts : bool    (* the running recvmax test also counts control frames (ping/pong/close):
                            the text pinned at e917035; false = only data frames are counted *)
}.

(* What ws_handler / ws_dialer_dial copy from the listener / dialer into the
   connection.  The dialer copies maxframe, isstream and the text flags only:
   recvmax stays 0 (unlimited) and fragsize stays at the ws_init value, whatever
   NNG_OPT_RECVMAXSZ / NNG_OPT_WS_SENDMAXFRAME were set to ([fixed] = false is
   the code as it is). *)
Definition eff_recvmax (fixed server : bool) (recvmax : N) : N :=
  if server || fixed then recvmax else 0.
Definition eff_fragsize (fixed server : bool) (fragsize : N) : N :=
  if server || fixed then fragsize else WS_INIT_FRAGSIZE.

Inductive ws_event :=
| EDeliver (m : list byte)                (* a message (message mode) / received bytes (stream mode) *)
| ETx (op : N) (payload : list byte)      (* a control frame queued for sending *)
| EClose (code : N).                      (* ws_close(code): connection failed / closed *)

Inductive ws_stage :=
| SHead                                               (* ws_start_read: 2 bytes wanted *)
| SExt (h0 h1 : byte)                                 (* rest of the header wanted *)
| SPayload (h0 h1 : byte) (key : list byte) (len : N) (* payload wanted *)
| SHalt.                                              (* no read posted any more *)

Record ws_state := mkWs {
  w_stage : ws_stage;
  w_inmsg : bool;
  w_rxq : list (list byte)       (* payloads queued for the message being assembled *)
}.
Definition ws_init : ws_state := mkWs SHead false [].

Definition ws_want (s : ws_state) : N :=
  match w_stage s with
  | SHead => 2
  | SExt h0 h1 => hd_hlen h1 - 2
  | SPayload _ _ _ len => len
  | SHalt => 0
  end.

(* ws_close(ws, code) on a connection that has not sent a close yet: a close
   frame carrying the code is queued first; the decoder stops for good
   (rxframe stays set, ws->closed) *)
Definition ws_fail (s : ws_state) (code : N) : ws_state * list ws_event :=
  (mkWs SHalt (w_inmsg s) (w_rxq s), [ETx WS_CLOSE (be_enc 2 code); EClose code]).

Definition sum_len (q : list (list byte)) : N :=
  fold_right (fun f a => N.of_nat (length f) + a) 0 q.

(* ws_read_finish after a data frame was appended *)
Definition ws_read_finish (cfg : ws_cfg) (inmsg : bool) (rxq : list (list byte))
  : ws_state * list ws_event :=
  if c_isstream cfg then
    (* ws_read_finish_str: empty frames are dropped, the rest handed over *)
    (mkWs SHead inmsg [], map EDeliver (filter (fun f => negb (length f =? 0)%nat) rxq))
  else if inmsg then (mkWs SHead inmsg rxq, [])
  else match rxq with
       | [] => (mkWs SHead inmsg rxq, [])
       | _ => (mkWs SHead inmsg [], [EDeliver (concat rxq)])
       end.

(* ws_read_frame_cb on a complete, unmasked frame *)
Definition ws_frame_cb (cfg : ws_cfg) (s : ws_state) (op : N) (final : bool) (payload : list byte)
  : ws_state * list ws_event :=
  let plen := N.of_nat (length payload) in
  if op =? WS_CONT then
    if negb (w_inmsg s) then ws_fail s WS_CLOSE_PROTOCOL_ERR
    else ws_read_finish cfg (if final then false else w_inmsg s) (w_rxq s ++ [payload])
  else if (op =? WS_TEXT) && negb (c_recv_text cfg) then ws_fail s WS_CLOSE_UNSUPP_FORMAT
  else if (op =? WS_TEXT) || (op =? WS_BINARY) then
    if w_inmsg s then ws_fail s WS_CLOSE_PROTOCOL_ERR
    else ws_read_finish cfg (if final then w_inmsg s else true) (w_rxq s ++ [payload])
  else if op =? WS_PING then
    if 125 <? plen then ws_fail s WS_CLOSE_PROTOCOL_ERR
    else (mkWs SHead (w_inmsg s) (w_rxq s), [ETx WS_PONG payload])
  else if op =? WS_PONG then
    if 125 <? plen then ws_fail s WS_CLOSE_PROTOCOL_ERR
    else (mkWs SHead (w_inmsg s) (w_rxq s), [])
  else if op =? WS_CLOSE then
    (* peer_closed; we have not closed yet: answer with NORMAL_CLOSE *)
    ws_fail s WS_CLOSE_NORMAL_CLOSE
  else ws_fail s WS_CLOSE_PROTOCOL_ERR.

(* "For message mode, also check to make sure that the overall length of the
   message has not exceeded our recvmax": the frames queued plus this one *)
Definition recvmax_exceeded (cfg : ws_cfg) (s : ws_state) (op len : N) : bool :=
  negb (c_isstream cfg) && (0 <? c_recvmax cfg) && (c_ctl_counts cfg || (N.land op 8 =? 0)) &&
  (c_recvmax cfg <? len + sum_len (w_rxq s)).

(* the checks ws_read_cb makes once the header is complete, in code order *)
Definition ws_header_done (cfg : ws_cfg) (s : ws_state) (h0 h1 : byte) (ext : list byte)
  : ws_state * list ws_event :=
  let '(len, minimal) := hd_len h1 ext in
  if negb minimal then ws_fail s WS_CLOSE_PROTOCOL_ERR
  else if (c_maxframe cfg <? len) && (0 <? c_maxframe cfg) then ws_fail s WS_CLOSE_TOO_BIG
  else if recvmax_exceeded cfg s (hd_op h0) len then ws_fail s WS_CLOSE_TOO_BIG
  else if hd_masked h1 && negb (c_server cfg) then ws_fail s WS_CLOSE_PROTOCOL_ERR
  else if negb (hd_masked h1) && c_server cfg then ws_fail s WS_CLOSE_PROTOCOL_ERR
  else
    let key := if hd_masked h1 then hd_key h1 ext else [] in
    if len =? 0 then ws_frame_cb cfg s (hd_op h0) (hd_final h0) []
    else if (len <? 126) || (len <=? c_allocmax cfg)
         then (mkWs (SPayload h0 h1 key len) (w_inmsg s) (w_rxq s), [])
         else ws_fail s WS_CLOSE_INTERNAL.

(* one completion of the rxaio with exactly the bytes asked for *)
Definition ws_cb (cfg : ws_cfg) (s : ws_state) (data : list byte) : ws_state * list ws_event :=
  match w_stage s with
  | SHead =>
      match data with
      | [h0; h1] =>
          if hd_hlen h1 =? 2 then ws_header_done cfg s h0 h1 []
          else (mkWs (SExt h0 h1) (w_inmsg s) (w_rxq s), [])
      | _ => (s, [])
      end
  | SExt h0 h1 => ws_header_done cfg s h0 h1 data
  | SPayload h0 h1 key len =>
      let payload := if hd_masked h1 then mask_bytes key data else data in  (* ws_unmask_frame *)
      ws_frame_cb cfg s (hd_op h0) (hd_final h0) payload
  | SHalt => (s, [])
  end.

Definition ws_dstate := dstate ws_state.
Definition ws_dinit : ws_dstate := mkD ws_init [].
Definition ws_feed (cfg : ws_cfg) : ws_dstate -> list byte -> ws_dstate * list ws_event :=
  feed ws_state ws_event ws_want (ws_cb cfg).
Definition ws_feed_all (cfg : ws_cfg) := feed_all ws_state ws_event ws_want (ws_cb cfg).

(* ---- sender side: ws_str_send + ws_frame_prep_tx + ws_write_cb ---- *)
(* frames (op, final, payload) produced for one nng_stream_send.  [count] is
   nni_aio_count: bytes already written for this aio.  Stream mode stops after
   the first frame (the submitter sees a short count). *)
Fixpoint ws_fragment (fuel : nat) (isstream send_text : bool) (fragsize : N) (count : N)
    (data : list byte) : list (N * bool * list byte) :=
  match fuel with
  | O => []
  | S f =>
      let total := N.of_nat (length data) in
      let op := if count =? 0 then (if send_text then WS_TEXT else WS_BINARY) else WS_CONT in
      if (fragsize <? total) && (0 <? fragsize) then
        let k := N.to_nat fragsize in
        if isstream then [(op, true, firstn k data)]
        else (op, false, firstn k data) :: ws_fragment f isstream send_text fragsize (count + fragsize) (skipn k data)
      else [(op, true, data)]
  end.
Definition ws_send_frames (isstream send_text : bool) (fragsize : N) (data : list byte) :=
  ws_fragment (S (length data)) isstream send_text fragsize 0 data.

(* the bytes on the wire: one masking key per frame *)
Fixpoint ws_encode_frames (server : bool) (keys : list (list byte)) (frs : list (N * bool * list byte))
  : list byte :=
  match frs with
  | [] => []
  | (op, final, p) :: r =>
      ws_encode server (hd [] keys) op final p ++ ws_encode_frames server (tl keys) r
  end.
