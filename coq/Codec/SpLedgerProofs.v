(* SpLedgerProofs: with the release actions the source has, every way a
   connection can be dropped -- on every byte stream, every cutting, and by EOF
   or timeout at any point -- leaves its ledger empty; a live connection holds
   exactly [held]; without the nni_pipe_rele of the negotiation error path a
   refused handshake keeps its descriptor and its pipe. *)
From Coq Require Import List Arith Lia Bool NArith.
From NngV Require Import Base.ListX Base.Bytes Codec.Staged Codec.SpFrameModel Codec.SpConnModel Codec.SpConnProofs
  Codec.SpLedgerModel.
Import ListNotations.
Local Open Scope N_scope.

Definition LInv (sl : conn_state * list res) : Prop := snd sl = held (fst sl).
Definition good : lflags := mkLF true.

Lemma drop_release_held st o : st <> CClosed ->
  (o = ONego -> exists ng, st = CNego ng) ->
  drop_release good o (match o with ONego => held st | _ => drop_res RListNode (held st) end) = [].
Proof.
  intros HN HO. destruct st as [ng|d|]; [| |congruence].
  - destruct o; reflexivity.
  - destruct o; [destruct (HO eq_refl); discriminate| |]; cbn [held]; destruct (d_inner d); reflexivity.
Qed.

Lemma lconn_feed_inv cfg sl x : ConnInv cfg (fst sl) -> LInv sl ->
  exists sl', lconn_feed cfg good sl x = Some sl' /\ ConnInv cfg (fst sl') /\ LInv sl'.
Proof.
  destruct sl as [st l]. cbn [fst snd]. intros HC HL. unfold LInv in HL. cbn [fst snd] in HL. subst l.
  destruct (conn_total cfg [x] st HC) as (st' & ev & HF & HC').
  cbn [conn_feed_all] in HF. unfold lconn_feed.
  destruct (conn_feed cfg st x) as [[st1 e1]|] eqn:E; [|discriminate].
  assert (st1 = st') by (inversion HF; reflexivity). subst st1.
  destruct st as [ng|d|].
  - destruct st' as [ng'|d'|]; eexists; (split; [reflexivity|]); cbn [fst snd]; split; auto; unfold LInv; cbn [fst snd]; try reflexivity.
    destruct (drop_origin cfg (CNego ng) x) eqn:EO; reflexivity.
  - destruct st' as [ng'|d'|]; eexists; (split; [reflexivity|]); cbn [fst snd]; split; auto; unfold LInv; cbn [fst snd]; try reflexivity.
    cbn [drop_origin held]. destruct (d_inner d); reflexivity.
  - eexists. split; [reflexivity|]. cbn [fst snd]. split; [exact HC'|].
    cbn [conn_feed] in E. inversion E; subst. reflexivity.
Qed.

Theorem ledger_every_stream cfg : forall ps sl, ConnInv cfg (fst sl) -> LInv sl ->
  exists sl', lconn_feed_all cfg good sl ps = Some sl' /\ LInv sl' /\
              snd (lconn_eof good sl') = [].
Proof.
  induction ps as [|p ps IH]; intros sl HC HL.
  - exists sl. split; [reflexivity|]. split; [exact HL|].
    destruct sl as [st l]. unfold LInv in HL. cbn [fst snd] in HL. subst l. unfold lconn_eof. cbn [fst snd].
    destruct st as [ng|d|]; cbn [snd held]; try reflexivity. destruct (d_inner d); reflexivity.
  - cbn [lconn_feed_all]. destruct (lconn_feed_inv cfg sl p HC HL) as (sl1 & HF & HC1 & HL1). rewrite HF.
    apply IH; assumption.
Qed.

(* the statement asked for: once a connection has reached the dropped state its
   ledger is empty -- all byte streams, all cuttings; and whatever point it has
   reached, its going away (EOF, reset, timeout) empties the ledger *)
Corollary dropped_means_empty cfg ps :
  exists st l, lconn_feed_all cfg good (linit cfg) ps = Some (st, l) /\
    (st = CClosed -> l = []) /\ l = held st /\ snd (lconn_eof good (st, l)) = [].
Proof.
  destruct (ledger_every_stream cfg ps (linit cfg)) as ([st l] & HF & HL & HE).
  { apply conn_init_inv. } { reflexivity. }
  exists st, l. split; [exact HF|]. unfold LInv in HL. cbn [fst snd] in HL.
  split; [intros ->; exact HL|]. split; [exact HL|exact HE].
Qed.

(* without the release in the negotiation error path: a malformed handshake
   leaves the descriptor and the pipe behind *)
Example nego_leak_without_rele :
  let cfg := mkCC (mkRxCfg KTcp 0 1000) 80 81 PrPlain 1 in
  lconn_feed_all cfg (mkLF false) (linit cfg) [[78; 79; 84; 45; 83; 80; 33; 33]] = Some (CClosed, [RFd; RPipeRef]) /\
  lconn_feed_all cfg good (linit cfg) [[78; 79; 84; 45; 83; 80; 33; 33]] = Some (CClosed, []) /\
  snd (lconn_eof (mkLF false) (linit cfg)) = [RFd; RPipeRef].
Proof. repeat split; vm_compute; reflexivity. Qed.
