(* HttpLineModel: executable model of the HTTP/1.x head parser of
   src/supplemental/http/http_msg.c (http_scan_line, http_req_parse_line,
   http_res_parse_line, http_parse_header, nni_http_req_parse,
   nni_http_res_parse) together with the setters of http_conn.c they call and
   the "keep the unconsumed bytes, parse again when more arrive" loop of
   http_rd_buf.  Definitions only.

   Not modelled: the 8 KiB limit of http_rd_buf (heads are assumed to fit),
   allocation failures, and nni_url_canonify_uri beyond the identity domain
   (see [canon_simple]). *)
From Coq Require Import List Arith Lia Bool NArith.
From NngV Require Import Base.ListX Base.Bytes Codec.ChunkedModel.
Import ListNotations.
Local Open Scope N_scope.

Definition NNG_ENOTSUP : N := 9.

(* ---- http_scan_line ---- *)
Inductive scan_res := SAgain | SProto | SLine (line rest : list byte).

(* [acc]: the bytes of the line so far, reversed; [lc]: the previous byte *)
Fixpoint scan_from (lc : byte) (acc : list byte) (buf : list byte) : scan_res :=
  match buf with
  | [] => SAgain
  | c :: r =>
      if c =? 10 then SLine (rev (if lc =? 13 then tl acc else acc)) r
      else if ((c <? 32) && negb (c =? 13)) || (lc =? 13) then SProto
      else scan_from c (c :: acc) r
  end.
Definition http_scan_line (buf : list byte) : scan_res := scan_from 0 [] buf.

(* ---- small string functions ---- *)
Fixpoint split_at (d : byte) (l : list byte) : option (list byte * list byte) :=   (* strchr + cut *)
  match l with
  | [] => None
  | c :: r => if c =? d then Some ([], r)
              else match split_at d r with Some (a, b) => Some (c :: a, b) | None => None end
  end.
Definition is_blank (c : byte) : bool := (c =? 32) || (c =? 9).
Fixpoint ltrim (l : list byte) : list byte :=
  match l with c :: r => if is_blank c then ltrim r else l | [] => [] end.
(* trailing blanks removed, but never the first character (end > val) *)
Definition rtrim (l : list byte) : list byte :=
  match l with
  | [] => []
  | c :: r => c :: rev (ltrim (rev r))
  end.
Definition to_lower (c : byte) : byte := if (65 <=? c) && (c <=? 90) then c + 32 else c.
Fixpoint bytes_eqb (a b : list byte) : bool :=
  match a, b with
  | [], [] => true
  | x :: a', y :: b' => (x =? y) && bytes_eqb a' b'
  | _, _ => false
  end.
Definition caseeq (a b : list byte) : bool := bytes_eqb (map to_lower a) (map to_lower b).

(* ASCII literals *)
Definition s_HTTP11 : list byte := [72;84;84;80;47;49;46;49].
Definition s_HTTP2 : list byte := [72;84;84;80;47;50].
Definition s_HTTP3 : list byte := [72;84;84;80;47;51].
Definition s_HTTP10 : list byte := [72;84;84;80;47;49;46;48].
Definition s_HTTP09 : list byte := [72;84;84;80;47;48;46;57].
Definition http_versions : list (list byte) := [s_HTTP11; s_HTTP2; s_HTTP3; s_HTTP10; s_HTTP09].
Definition s_GET : list byte := [71;69;84].
Definition s_Host : list byte := [72;111;115;116].
Definition s_ContentType : list byte := [67;111;110;116;101;110;116;45;84;121;112;101].
Definition s_ContentLength : list byte := [67;111;110;116;101;110;116;45;76;101;110;103;116;104].

Record hconn := mkH {
  h_parsed : bool;                         (* req/res->data.parsed *)
  h_code : N;                              (* conn->code (0 = unset, reads as 200) *)
  h_meth : list byte;
  h_uri : list byte;                       (* [] reads as "/" *)
  h_vers : list byte;
  h_reason : option (list byte);
  h_hdrs : list (list byte * list byte);
  h_unk : bool                             (* model only: a URI outside [canon_simple] was met *)
}.
Definition hconn_init : hconn := mkH false 0 s_GET [] s_HTTP11 None [] false.   (* nni_http_conn_reset *)
Definition get_status (h : hconn) : N := if h_code h =? 0 then 200 else h_code h.

Definition set_parsed (h : hconn) (p : bool) : hconn :=
  mkH p (h_code h) (h_meth h) (h_uri h) (h_vers h) (h_reason h) (h_hdrs h) (h_unk h).
Definition set_code (h : hconn) (c : N) (r : option (list byte)) : hconn :=
  mkH (h_parsed h) c (h_meth h) (h_uri h) (h_vers h) r (h_hdrs h) (h_unk h).
Definition set_hdrs (h : hconn) (l : list (list byte * list byte)) : hconn :=
  mkH (h_parsed h) (h_code h) (h_meth h) (h_uri h) (h_vers h) (h_reason h) l (h_unk h).
Definition set_unk (h : hconn) : hconn :=
  mkH (h_parsed h) (h_code h) (h_meth h) (h_uri h) (h_vers h) (h_reason h) (h_hdrs h) true.

(* nni_http_set_version *)
Definition version_ok (v : list byte) : bool := existsb (bytes_eqb v) http_versions.

(* nni_http_add_header and the "known header" special cases.  [isreq]: the
   request list is being filled (conn->client is true while a request is
   parsed), which is when Host is special. *)
Definition del_header (key : list byte) (l : list (list byte * list byte)) :=
  filter (fun kv => negb (caseeq key (fst kv))) l.
Fixpoint add_generic (key val : list byte) (l : list (list byte * list byte)) :=
  match l with
  | [] => [(key, val)]
  | (k, v) :: r => if caseeq key k then (k, v ++ [44; 32] ++ val) :: r else (k, v) :: add_generic key val r
  end.
Definition add_header (isreq : bool) (h : hconn) (key val : list byte) : hconn :=
  if caseeq key s_ContentType then
    set_hdrs h (del_header s_ContentType (h_hdrs h) ++ [(s_ContentType, firstn 127 val)])
  else if caseeq key s_ContentLength then
    set_hdrs h (del_header s_ContentLength (h_hdrs h) ++ [(s_ContentLength, firstn 23 val)])
  else if isreq && caseeq key s_Host then
    set_hdrs h ((s_Host, firstn 259 val) :: del_header s_Host (h_hdrs h))
  else set_hdrs h (add_generic key val (h_hdrs h)).

(* http_parse_header: (conn, rv) *)
Definition parse_header (isreq : bool) (h : hconn) (line : list byte) : hconn * N :=
  match split_at 58 line with
  | None => (h, NNG_EPROTO)
  | Some (key, v) => (add_header isreq h key (rtrim (ltrim v)), 0)
  end.

(* nni_url_canonify_uri, restricted: on URIs made of unreserved characters and
   single slashes without dot segments (dots only after a plain character) it is the identity; a '%' not followed
   by two hex digits is an error; anything else is outside the model. *)
Definition is_hex (c : byte) : bool := is_digit c || is_upper_hex c || is_lower_hex c.
Definition uri_plain (c : byte) : bool :=
  is_alnum c || (c =? 95) || (c =? 126) || (c =? 45).
Fixpoint uri_simple (prev : byte) (l : list byte) : bool :=
  match l with
  | [] => true
  | c :: r => ((uri_plain c) || ((c =? 47) && negb (prev =? 47))
               || ((c =? 46) && uri_plain prev))      (* a dot inside a segment, after a plain character *)
              && uri_simple c r
  end.
Fixpoint bad_escape (l : list byte) : bool :=
  match l with
  | [] => false
  | c :: r => if c =? 37 then
                match r with
                | a :: b :: _ => if is_hex a && is_hex b then bad_escape r else true
                | _ => true
                end
              else bad_escape r
  end.
Inductive canon_res := CanonOk (u : list byte) | CanonErr | CanonUnknown.
Definition canon_simple (u : list byte) : canon_res :=
  if bad_escape u then CanonErr
  else if uri_simple 0 u then CanonOk u
  else CanonUnknown.

(* http_req_parse_line (always returns NNG_OK: failures are HTTP statuses) *)
Definition req_parse_line (h : hconn) (line : list byte) : hconn :=
  if 400 <=? get_status h then h
  else match split_at 32 line with
       | None => set_code h 400 None
       | Some (method, r1) =>
           match split_at 32 r1 with
           | None => set_code h 400 None
           | Some (uri, version) =>
               match canon_simple uri with
               | CanonErr => set_code h 400 None
               | CanonUnknown => set_unk h
               | CanonOk u =>
                   if negb (version_ok version) then set_code h 505 None
                   else mkH (h_parsed h) (h_code h) (firstn 31 method) u version (h_reason h) (h_hdrs h) (h_unk h)
               end
           end
       end.

(* atoi as glibc does it: optional sign, digits, saturating to long, then
   truncated to int.  Returns the int as an unsigned 32-bit pattern. *)
Fixpoint digits_val (l : list byte) (acc : N) : N :=
  match l with
  | c :: r => if is_digit c then digits_val r (acc * 10 + (c - 48)) else acc
  | [] => acc
  end.
Definition atoi32 (l : list byte) : N :=
  match l with
  | 45 :: r => let m := N.min (digits_val r 0) 9223372036854775808 in (18446744073709551616 - m) mod 4294967296
  | 43 :: r => N.min (digits_val r 0) 9223372036854775807 mod 4294967296
  | _ => N.min (digits_val l 0) 9223372036854775807 mod 4294967296
  end.

(* the status code.  [strict] = false: the text pinned at e917035 (atoi, then
   100..999); [strict] = true: after df9e40d (exactly three digits, the first
   1-9).  None = NNG_EPROTO. *)
Definition status_code (strict : bool) (codestr : list byte) : option N :=
  if strict then
    match codestr with
    | [a; b; c] => if (49 <=? a) && (a <=? 57) && is_digit b && is_digit c
                   then Some ((a - 48) * 100 + (b - 48) * 10 + (c - 48)) else None
    | _ => None
    end
  else let st := atoi32 codestr in if (st <? 100) || (999 <? st) then None else Some st.

(* http_res_parse_line: (conn, rv) *)
Definition res_parse_line (strict : bool) (h : hconn) (line : list byte) : hconn * N :=
  match split_at 32 line with
  | None => (h, NNG_EPROTO)
  | Some (version, r1) =>
      match split_at 32 r1 with
      | None => (h, NNG_EPROTO)
      | Some (codestr, reason) =>
          match status_code strict codestr with
          | None => (h, NNG_EPROTO)
          | Some st =>
              let h1 := set_code h st (Some reason) in
              if version_ok version
              then (mkH (h_parsed h1) (h_code h1) (h_meth h1) (h_uri h1) version (h_reason h1) (h_hdrs h1) (h_unk h1), 0)
              else (h1, NNG_ENOTSUP)
          end
      end
  end.

(* ---- the line loop shared by nni_http_req_parse and nni_http_res_parse ----
   [handle]: what is done with a non-empty line, (conn, rv); the loop goes on
   while rv = 0.  [on_end]: what happens to the parsed flag when the loop ends
   with an error (request: cleared whenever rv <> EAGAIN; response: kept).
   Result: (conn, rv, the bytes not consumed). *)
Section Loop.
  Variable handle : hconn -> list byte -> hconn * N.
  Variable on_end : hconn -> hconn.
  Fixpoint parse_loop (fuel : nat) (h : hconn) (buf : list byte) : hconn * N * list byte :=
    match fuel with
    | O => (h, NNG_EAGAIN, buf)
    | S f =>
        match http_scan_line buf with
        | SAgain => (h, NNG_EAGAIN, buf)
        | SProto => (on_end h, NNG_EPROTO, buf)
        | SLine line rest =>
            match line with
            | [] => (set_parsed h false, 0, rest)
            | _ => let '(h1, rv) := handle h line in
                   if rv =? 0 then parse_loop f h1 rest else (on_end h1, rv, rest)
            end
        end
    end.
End Loop.

(* nni_http_req_parse.  [keep] = false: the text pinned at e917035, where the
   result of http_parse_header is overwritten by the next http_scan_line (a
   header line without ':' is skipped silently); [keep] = true: after 8f01e0e
   the loop is left at the first line that fails. *)
Definition handle_req (keep : bool) (h : hconn) (line : list byte) : hconn * N :=
  if h_parsed h then let '(h1, rv) := parse_header true h line in (h1, if keep then rv else 0)
  else (req_parse_line (set_parsed h true) line, 0).
Definition req_parse (keep : bool) (h : hconn) (buf : list byte) : hconn * N * list byte :=
  parse_loop (handle_req keep) (fun h => set_parsed h false) (S (length buf)) h buf.

(* nni_http_res_parse *)
Definition handle_res (strict : bool) (h : hconn) (line : list byte) : hconn * N :=
  if h_parsed h then parse_header false h line
  else let '(h2, rv2) := res_parse_line strict h line in (if rv2 =? 0 then set_parsed h2 true else h2, rv2).
Definition res_parse (strict : bool) (h : hconn) (buf : list byte) : hconn * N * list byte :=
  parse_loop (handle_res strict) (fun h => h) (S (length buf)) h buf.

(* the two variants of the parser text: [fixed] selects both repairs *)
Definition head_parse (keep strict isreq : bool) : hconn -> list byte -> hconn * N * list byte :=
  if isreq then req_parse keep else res_parse strict.

(* ---- the connection as a stream decoder: http_rd_buf (HTTP_RD_REQ / _RES):
   the unconsumed bytes are kept and the parse is repeated when more arrive ---- *)
Inductive hevent := HDone (rv : N) (h : hconn).
Record hfeed := mkHF { hf_conn : hconn; hf_buf : list byte; hf_done : bool }.
Definition hfeed_init : hfeed := mkHF hconn_init [] false.

Definition http_feed (keep strict isreq : bool) (st : hfeed) (input : list byte) : hfeed * list hevent :=
  if hf_done st then (mkHF (hf_conn st) (hf_buf st ++ input) true, [])
  else
    let '(h1, rv, rest) := head_parse keep strict isreq (hf_conn st) (hf_buf st ++ input) in
    if rv =? NNG_EAGAIN then (mkHF h1 rest false, [])
    else (mkHF h1 rest true, [HDone rv h1]).
