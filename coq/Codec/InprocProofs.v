(* InprocProofs: the header pull-up is exact (every capacity / sharing case; the
   one exception -- an ignored allocation failure inside nni_msg_insert -- is
   exhibited), and the queue hands every message over at most once, in the
   order of the sends, pulled up, or drops it whole. *)
From Coq Require Import List Arith Lia Bool NArith Sorted.
From NngV Require Import Base.ListX Base.Bytes Msg.MsgModel Msg.MsgSpec Msg.MsgProofs Codec.InprocModel.
Import ListNotations.

(* ------------------------------------------------------------ pull-up *)
Lemma alloc_fail_cases sz f1 f2 : f1 || f2 = true -> msg_alloc sz f1 f2 = Some (ENOMEM, None).
Proof.
  intros H. unfold msg_alloc. destruct f1; [reflexivity|]. cbn [orb] in H. subst f2.
  destruct ((1024 <=? sz) && (N.land (N.of_nat sz) (N.of_nat sz - 1) =? 0)%N);
    unfold chunk_grow, ptr_inside, chunk0, ch_cap; cbn [ch_ptr ch_buf ch_len length Nat.leb]; reflexivity.
Qed.

Definition body_of (m : msg) : list byte := cabs (m_body m).

Theorem pull_up_spec chk m sh f1 f2 : Inv m ->
  exists r, ip_pull_up chk m sh f1 f2 = Some r /\
    match r with
    | Some m' => Inv m' /\ m_hdr m' = [] /\
        (body_of m' = m_hdr m ++ body_of m \/
         (chk = false /\ f2 = true /\ sh = false /\ (chunk_room (m_body m) <? length (m_hdr m)) = false /\ body_of m' = body_of m))
    | None => f1 || f2 = true
    end.
Proof.
  intros HI. pose proof HI as [HC HH]. unfold ip_pull_up.
  destruct ((chunk_room (m_body m) <? length (m_hdr m)) || sh) eqn:EB.
  - rewrite (msg_body_abs m HI). cbn [abs snd].
    pose proof (cabs_length _ HC) as LB.
    destruct (f1 || f2) eqn:EF.
    + rewrite (alloc_fail_cases _ f1 f2 EF). exists None. split; reflexivity.
    + apply orb_false_iff in EF. destruct EF; subst f1 f2.
      destruct (alloc_spec (msg_len m + length (m_hdr m))) as (m2 & HA & HI2 & Habs & _).
      rewrite HA. destruct HI2 as [HC2 HH2].
      pose proof HC2 as (off & Hp & Hlt & Hle). rewrite Hp.
      assert (L2: ch_len (m_body m2) = msg_len m + length (m_hdr m)).
      { rewrite <- (cabs_length _ HC2). unfold abs in Habs. inversion Habs as [[H0 H1]]. rewrite H1. apply zeros_length. }
      assert (LS: length (m_hdr m ++ cabs (m_body m)) = ch_len (m_body m2)).
      { rewrite app_length, LB, L2. unfold msg_len. lia. }
      unfold ch_cap in *.
      rewrite blit_Some by lia.
      eexists. split; [reflexivity|]. cbn beta iota.
      set (nb := firstn off (ch_buf (m_body m2)) ++ (m_hdr m ++ cabs (m_body m)) ++
                 skipn (off + length (m_hdr m ++ cabs (m_body m))) (ch_buf (m_body m2))).
      assert (Lnb: length nb = length (ch_buf (m_body m2))).
      { unfold nb. rewrite !app_length, firstn_length, skipn_length. rewrite app_length in LS. lia. }
      split; [|split; [reflexivity|left]].
      * split; [|cbn; lia]. exists off. unfold ch_cap. cbn [m_body ch_ptr ch_buf ch_len]. rewrite Lnb. auto.
      * unfold body_of, cabs, coff. cbn [m_body ch_ptr ch_buf ch_len]. rewrite <- LS.
        unfold nb. rewrite skipn_app_exact by (rewrite firstn_length; lia).
        apply firstn_app_exact. reflexivity.
  - apply orb_false_iff in EB. destruct EB as [ER ES]. subst sh.
    destruct (insert_total (m_body m) (m_hdr m) f2 HC) as [[rv c'] HIn]. rewrite HIn.
    destruct (insert_spec _ _ _ _ _ HC HIn) as [(-> & -> & ->)|(-> & HC' & Hab)].
    + destruct chk; cbn [andb negb N.eqb ENOMEM].
      * exists None. split; [reflexivity|]. apply orb_true_r.
      * eexists. split; [reflexivity|]. cbn beta iota.
        split; [split; [exact HC|cbn; lia]|]. split; [reflexivity|]. right. auto.
    + rewrite andb_false_r. eexists. split; [reflexivity|]. cbn beta iota.
      split; [split; [exact HC'|cbn; lia]|]. split; [reflexivity|]. left. exact Hab.
Qed.

(* no allocation fails: the result is exactly header ++ body, under every
   capacity / headroom / sharing case *)
Corollary pull_up_exact chk m sh : Inv m ->
  exists m', ip_pull_up chk m sh false false = Some (Some m') /\ Inv m' /\ abs m' = ([], m_hdr m ++ body_of m).
Proof.
  intros HI. destruct (pull_up_spec chk m sh false false HI) as (r & HR & HS).
  destruct r as [m'|]; [|discriminate].
  destruct HS as (HI' & HH & [HB|(_ & HF & _)]); [|discriminate].
  exists m'. split; [exact HR|]. split; [exact HI'|]. unfold abs. rewrite HH. f_equal. exact HB.
Qed.

(* nni_msg_insert can need an allocation although the room test passed (head
   room smaller than the header and less than 8 spare bytes): when that
   allocation fails the failure is ignored and the header is lost *)
Definition pullup_witness : msg :=
  mkMsg (repeat 7%N 40) (mkChunk (zeros 32 ++ repeat 9%N 20 ++ zeros 12) 20 (Some 32)).

Lemma pullup_witness_inv : Inv pullup_witness.
Proof. split; [exists 32; unfold ch_cap; cbn; repeat split; lia|cbn; unfold HDR_CAP; lia]. Qed.

Theorem pull_up_enomem_loses_header :
  exists m', ip_pull_up false pullup_witness false false true = Some (Some m') /\
             m_hdr m' = [] /\ body_of m' = repeat 9%N 20 /\ m_hdr pullup_witness = repeat 7%N 40.
Proof. eexists. split; [vm_compute; reflexivity|]. repeat split. Qed.

(* ------------------------------------------------------------ the queue *)
Definition seqs (ws : list wentry) : list nat := map w_seq ws.

(* invariant: queued sequence numbers strictly increase, are below q_next, and
   the queued messages are the ones sent under those numbers *)
Definition QInv (sent : list (msg * bool * bool)) (q : ip_queue) : Prop :=
  StronglySorted lt (seqs (q_writers q)) /\
  Forall (fun w => w_seq w < q_next q /\ nth_error sent (w_seq w) = Some (w_msg w, w_fail1 w, w_fail2 w)) (q_writers q) /\
  q_next q = length sent.

(* all sequence numbers of [o] are below every queued one *)
Definition below (o : list nat) (ws : list wentry) : Prop :=
  forall s w, In s o -> In w ws -> s < w_seq w.

Lemma fate_app a b : fate_seqs (a ++ b) = fate_seqs a ++ fate_seqs b.
Proof. unfold fate_seqs. apply flat_map_app. Qed.
Lemma handoffs_app a b : handoffs (a ++ b) = handoffs a ++ handoffs b.
Proof. unfold handoffs. apply flat_map_app. Qed.

Lemma sorted_app_lt (a b : list nat) :
  StronglySorted lt a -> StronglySorted lt b -> (forall x y, In x a -> In y b -> x < y) ->
  StronglySorted lt (a ++ b).
Proof.
  induction a as [|x a IH]; intros Ha Hb Hab; [exact Hb|].
  inversion Ha as [|? ? Ha' Hx]; subst. cbn [app]. constructor.
  - apply IH; auto. intros; apply Hab; [right|]; assumption.
  - apply Forall_app. split; [exact Hx|]. apply Forall_forall. intros y Hy. apply Hab; [left; reflexivity|exact Hy].
Qed.

Definition handoff_ok (chk : bool) (sent : list (msg * bool * bool)) (sm : nat * msg) : Prop :=
  exists m f1 f2, nth_error sent (fst sm) = Some (m, f1, f2) /\ Inv (snd sm) /\ m_hdr (snd sm) = [] /\
            (body_of (snd sm) = m_hdr m ++ body_of m \/ (chk = false /\ f2 = true /\ body_of (snd sm) = body_of m)).
Definition drop_ok (sent : list (msg * bool * bool)) (s : nat) : Prop :=
  exists m f1 f2, nth_error sent s = Some (m, f1, f2) /\ f1 || f2 = true.

Lemma drops_app a b : drops (a ++ b) = drops a ++ drops b.
Proof. unfold drops. apply flat_map_app. Qed.

(* the hand-off loop: what leaves the queue is a front segment of the writers,
   in order; each handed-off message is the pull-up of the queued one *)
Lemma run_loop_spec chk sent : forall fuel q, QInv sent q -> Forall (fun w => Inv (w_msg w)) (q_writers q) ->
  exists q' o, run_loop chk fuel q = Some (q', o) /\ QInv sent q' /\
    Forall (fun w => Inv (w_msg w)) (q_writers q') /\
    (exists n, fate_seqs o = seqs (firstn n (q_writers q)) /\ q_writers q' = skipn n (q_writers q)) /\
    q_next q' = q_next q /\ q_closed q' = q_closed q /\
    Forall (handoff_ok chk sent) (handoffs o) /\ Forall (drop_ok sent) (drops o).
Proof.
  induction fuel as [|fuel IH]; intros q HQ HM.
  - exists q, []. cbn [run_loop]. split; [reflexivity|]. split; [exact HQ|]. split; [exact HM|].
    split; [exists 0; split; reflexivity|]. split; [reflexivity|]. split; [reflexivity|]. split; constructor.
  - cbn [run_loop].
    destruct (q_readers q) as [|rd rds] eqn:ER.
    { exists q, []. split; [reflexivity|]. split; [exact HQ|]. split; [exact HM|].
      split; [exists 0; split; reflexivity|]. split; [reflexivity|]. split; [reflexivity|]. split; constructor. }
    destruct (q_writers q) as [|w ws] eqn:EW.
    { exists q, []. split; [reflexivity|]. split; [exact HQ|]. split; [rewrite EW; exact HM|].
      split; [exists 0; rewrite EW; split; reflexivity|]. split; [reflexivity|]. split; [reflexivity|]. split; constructor. }
    destruct HQ as (HS & HF & HN). rewrite EW in HS, HF.
    pose proof (Forall_inv HM) as HIw. pose proof (Forall_inv_tail HM) as HMt. cbv beta in HIw.
    pose proof (Forall_inv HF) as [Hw1 Hw2]. pose proof (Forall_inv_tail HF) as HFt.
    cbn [seqs map] in HS. inversion HS as [|? ? HSt HSx]; subst.
    destruct (pull_up_spec chk (w_msg w) (w_shared w) (w_fail1 w) (w_fail2 w) HIw) as (r & HR & HRS).
    rewrite HR.
    destruct r as [pu|].
    + destruct (IH (mkQ rds ws (q_closed q) (q_next q))) as (q' & o & HRun & HQ' & HM' & (n & Hn1 & Hn2) & HN' & HC' & HH & HD).
      { split; [exact HSt|]. split; [exact HFt|exact HN]. }
      { exact HMt. }
      rewrite HRun. eexists _, _. split; [reflexivity|]. split; [exact HQ'|]. split; [exact HM'|].
      split.
      { exists (S n). cbn [fate_seqs flat_map app firstn skipn seqs map]. cbn [q_writers] in Hn1, Hn2.
        split; [f_equal; exact Hn1|exact Hn2]. }
      split; [exact HN'|]. split; [exact HC'|].
      cbn [handoffs drops flat_map app]. split; [|exact HD]. constructor; [|exact HH].
      exists (w_msg w), (w_fail1 w), (w_fail2 w). cbn [fst snd]. destruct HRS as (HIp & HHp & HBp).
      split; [exact Hw2|]. split; [exact HIp|]. split; [exact HHp|].
      destruct HBp as [HB|(HCk & HF2 & _ & _ & HB)]; [left; exact HB|right; split; [assumption|split; assumption]].
    + destruct (IH (mkQ (rd :: rds) ws (q_closed q) (q_next q))) as (q' & o & HRun & HQ' & HM' & (n & Hn1 & Hn2) & HN' & HC' & HH & HD).
      { split; [exact HSt|]. split; [exact HFt|exact HN]. }
      { exact HMt. }
      rewrite HRun. eexists _, _. split; [reflexivity|]. split; [exact HQ'|]. split; [exact HM'|].
      split.
      { exists (S n). cbn [fate_seqs flat_map app firstn skipn seqs map]. cbn [q_writers] in Hn1, Hn2.
        split; [f_equal; exact Hn1|exact Hn2]. }
      split; [exact HN'|]. split; [exact HC'|]. cbn [handoffs drops flat_map app]. split; [exact HH|].
      constructor; [|exact HD]. exists (w_msg w), (w_fail1 w), (w_fail2 w). split; [exact Hw2|exact HRS].
Qed.

Lemma In_firstn_in {A} (l : list A) n x : In x (firstn n l) -> In x l.
Proof. revert n; induction l; intros n H; destruct n; cbn in *; try contradiction; destruct H; auto; right; eapply IHl; eauto. Qed.
Lemma In_skipn_in {A} (l : list A) n x : In x (skipn n l) -> In x l.
Proof. revert n; induction l; intros n H; destruct n; cbn in *; try contradiction; auto. right; eapply IHl; eauto. Qed.

Lemma sorted_firstn (l : list nat) n : StronglySorted lt l -> StronglySorted lt (firstn n l).
Proof.
  revert n; induction l as [|x l IH]; intros n H; [rewrite firstn_nil; constructor|].
  destruct n; [constructor|]. inversion H; subst. cbn [firstn]. constructor; [apply IH; assumption|].
  apply Forall_forall. intros y Hy. eapply Forall_forall; [eassumption|]. eapply In_firstn_in; eauto.
Qed.

Lemma sorted_split_lt (l : list nat) n x y : StronglySorted lt l -> In x (firstn n l) -> In y (skipn n l) -> x < y.
Proof.
  revert n; induction l as [|a l IH]; intros n HS Hx Hy; [rewrite firstn_nil in Hx; contradiction|].
  destruct n; [cbn in Hx; contradiction|]. inversion HS; subst. cbn [firstn skipn] in *.
  destruct Hx as [->|Hx]; [|eapply IH; eauto].
  eapply Forall_forall; [eassumption|]. eapply In_skipn_in; eauto.
Qed.

Lemma seqs_firstn ws n : seqs (firstn n ws) = firstn n (seqs ws).
Proof. unfold seqs. symmetry. apply firstn_map. Qed.
Lemma seqs_skipn ws n : seqs (skipn n ws) = skipn n (seqs ws).
Proof. unfold seqs. symmetry. apply skipn_map. Qed.

Lemma fate_fail_map {A} (f : A -> aioid) rv (l : list A) : fate_seqs (map (fun x => OFail (f x) rv) l) = [].
Proof. induction l as [|x l IH]; [reflexivity|]. cbn [map]. unfold fate_seqs in *. cbn [flat_map app]. exact IH. Qed.
Lemma handoffs_fail_map {A} (f : A -> aioid) rv (l : list A) : handoffs (map (fun x => OFail (f x) rv) l) = [].
Proof. induction l as [|x l IH]; [reflexivity|]. cbn [map]. unfold handoffs in *. cbn [flat_map app]. exact IH. Qed.

Lemma drops_fail_map {A} (f : A -> aioid) rv (l : list A) : drops (map (fun x => OFail (f x) rv) l) = [].
Proof. induction l as [|x l IH]; [reflexivity|]. cbn [map]. unfold drops in *. cbn [flat_map app]. exact IH. Qed.

(* one operation *)
Lemma step_spec chk sent q op : QInv sent q -> Forall (fun w => Inv (w_msg w)) (q_writers q) ->
  (forall a m sh f1 f2, op = ISend a m sh f1 f2 -> Inv m) ->
  let sent' := sent ++ sent_msgs [op] in
  exists q' o, ip_step chk q op = Some (q', o) /\ QInv sent' q' /\ Forall (fun w => Inv (w_msg w)) (q_writers q') /\
    StronglySorted lt (fate_seqs o) /\
    (forall s, In s (fate_seqs o) -> s < q_next q') /\
    (forall s w, In s (fate_seqs o) -> In w (q_writers q') -> s < w_seq w) /\
    (forall s, In s (fate_seqs o) -> (exists w, In w (q_writers q) /\ w_seq w = s) \/ s = q_next q) /\
    q_next q <= q_next q' /\ (forall w, In w (q_writers q') -> (In w (q_writers q) \/ w_seq w = q_next q)) /\
    Forall (handoff_ok chk sent') (handoffs o) /\ Forall (drop_ok sent') (drops o).
Proof.
  intros HQ HM HOp. cbv zeta.
  destruct op as [a m sh f1 f2|a|a rv|].
  - (* send *)
    cbn [ip_step sent_msgs]. unfold queue_run. cbn [q_closed q_writers].
    set (q0 := mkQ (q_readers q) (q_writers q ++ [mkWent a (q_next q) m sh f1 f2]) (q_closed q) (S (q_next q))).
    destruct HQ as (HS & HF & HN).
    assert (HQ0: QInv (sent ++ [(m, f1, f2)]) q0).
    { unfold QInv, q0. cbn [q_writers q_next]. split; [|split].
      - unfold seqs. rewrite map_app. apply sorted_app_lt; [exact HS|repeat constructor|].
        intros x y Hx Hy. cbn in Hy. destruct Hy as [<-|[]].
        apply in_map_iff in Hx. destruct Hx as (w & <- & Hw).
        apply (proj1 (Forall_forall _ _) HF w Hw).
      - apply Forall_app. split.
        + eapply Forall_impl; [|exact HF]. intros w [H1 H2]. split; [lia|].
          rewrite nth_error_app1 by (rewrite <- HN; exact H1). exact H2.
        + constructor; [|constructor]. cbn [w_seq w_msg]. split; [lia|].
          rewrite nth_error_app2 by lia. rewrite HN, Nat.sub_diag. reflexivity.
      - rewrite app_length. cbn. lia. }
    assert (HM0: Forall (fun w => Inv (w_msg w)) (q_writers q0)).
    { unfold q0. cbn [q_writers]. apply Forall_app. split; [exact HM|]. constructor; [|constructor].
      cbn. eapply HOp. reflexivity. }
    destruct (q_closed q) eqn:EC.
    + (* closed: everything fails, nothing is handed over *)
      subst q0. unfold run_closed. cbn [q_readers q_writers q_closed q_next].
      cbn [run_loop length]. eexists _, _. split; [reflexivity|].
      split; [split; [constructor|split; [constructor|cbn [q_next]; rewrite app_length; cbn; lia]]|].
      split; [constructor|].
      assert (FS: forall l1 l2, fate_seqs ((map (fun a0 => OFail a0 IP_ECLOSED) l1 ++
                 map (fun w => OFail (w_aio w) IP_ECLOSED) l2) ++ []) = []).
      { intros. rewrite app_nil_r, fate_app.
        rewrite (fate_fail_map (fun x => x)), (fate_fail_map w_aio). reflexivity. }
      assert (HS0: forall l1 l2, handoffs ((map (fun a0 => OFail a0 IP_ECLOSED) l1 ++
                 map (fun w => OFail (w_aio w) IP_ECLOSED) l2) ++ []) = []).
      { intros. rewrite app_nil_r, handoffs_app.
        rewrite (handoffs_fail_map (fun x => x)), (handoffs_fail_map w_aio). reflexivity. }
      assert (HD0: forall l1 l2, drops ((map (fun a0 => OFail a0 IP_ECLOSED) l1 ++
                 map (fun w => OFail (w_aio w) IP_ECLOSED) l2) ++ []) = []).
      { intros. rewrite app_nil_r, drops_app.
        rewrite (drops_fail_map (fun x => x)), (drops_fail_map w_aio). reflexivity. }
      rewrite FS, HS0, HD0. cbn [q_writers q_next].
      split; [constructor|]. split; [intros s []|]. split; [intros s w []|]. split; [intros s []|].
      split; [lia|]. split; [intros w []|split; constructor].
    + destruct (run_loop_spec chk (sent ++ [(m, f1, f2)]) (S (length (q_writers q0))) q0 HQ0 HM0)
        as (q' & o & HRun & HQ' & HM' & (n & Hn1 & Hn2) & HN' & HC' & HH & HDr).
      rewrite HRun. exists q', o. cbn [app]. split; [reflexivity|]. split; [exact HQ'|]. split; [exact HM'|].
      destruct HQ0 as (HS0 & HF0 & HN0).
      rewrite Hn1, seqs_firstn.
      split; [apply sorted_firstn; exact HS0|].
      split.
      { intros s Hs. rewrite HN'. apply In_firstn_in in Hs. apply in_map_iff in Hs. destruct Hs as (w & <- & Hw).
        apply (proj1 (Forall_forall _ _) HF0 w Hw). }
      split.
      { intros s w Hs Hw. rewrite Hn2 in Hw.
        apply (sorted_split_lt (seqs (q_writers q0)) n); [exact HS0|exact Hs|].
        rewrite <- seqs_skipn. unfold seqs. apply in_map. exact Hw. }
      split.
      { intros s Hs. apply In_firstn_in in Hs. apply in_map_iff in Hs. destruct Hs as (w & <- & Hw).
        unfold q0 in Hw. cbn [q_writers] in Hw. apply in_app_or in Hw. destruct Hw as [Hw|[<-|[]]].
        - left. exists w. auto.
        - right. reflexivity. }
      split; [rewrite HN'; unfold q0; cbn; lia|]. split.
      { intros w Hw. rewrite Hn2 in Hw. apply In_skipn_in in Hw. unfold q0 in Hw. cbn [q_writers] in Hw.
        apply in_app_or in Hw. destruct Hw as [Hw|[<-|[]]]; [left; exact Hw|right; reflexivity]. }
      split; [exact HH|exact HDr].
  - (* recv *)
    cbn [ip_step sent_msgs]. rewrite app_nil_r. unfold queue_run. cbn [q_closed q_writers].
    set (q0 := mkQ (q_readers q ++ [a]) (q_writers q) (q_closed q) (q_next q)).
    assert (HQ0: QInv sent q0) by exact HQ.
    destruct (q_closed q) eqn:EC.
    + subst q0. unfold run_closed. cbn [q_readers q_writers q_closed q_next run_loop length].
      destruct HQ as (HS & HF & HN).
      eexists _, _. split; [reflexivity|].
      split; [split; [constructor|split; [constructor|exact HN]]|]. split; [constructor|].
      assert (FS: forall l1 l2, fate_seqs ((map (fun a0 => OFail a0 IP_ECLOSED) l1 ++
                 map (fun w => OFail (w_aio w) IP_ECLOSED) l2) ++ []) = []).
      { intros. rewrite app_nil_r, fate_app.
        rewrite (fate_fail_map (fun x => x)), (fate_fail_map w_aio). reflexivity. }
      assert (HS0: forall l1 l2, handoffs ((map (fun a0 => OFail a0 IP_ECLOSED) l1 ++
                 map (fun w => OFail (w_aio w) IP_ECLOSED) l2) ++ []) = []).
      { intros. rewrite app_nil_r, handoffs_app.
        rewrite (handoffs_fail_map (fun x => x)), (handoffs_fail_map w_aio). reflexivity. }
      assert (HD0: forall l1 l2, drops ((map (fun a0 => OFail a0 IP_ECLOSED) l1 ++
                 map (fun w => OFail (w_aio w) IP_ECLOSED) l2) ++ []) = []).
      { intros. rewrite app_nil_r, drops_app.
        rewrite (drops_fail_map (fun x => x)), (drops_fail_map w_aio). reflexivity. }
      rewrite FS, HS0, HD0. cbn [q_writers q_next].
      split; [constructor|]. split; [intros s []|]. split; [intros s w []|]. split; [intros s []|].
      split; [lia|]. split; [intros w []|split; constructor].
    + destruct (run_loop_spec chk sent (S (length (q_writers q0))) q0 HQ0 HM)
        as (q' & o & HRun & HQ' & HM' & (n & Hn1 & Hn2) & HN' & HC' & HH & HDr).
      rewrite HRun. exists q', o. cbn [app]. split; [reflexivity|]. split; [exact HQ'|]. split; [exact HM'|].
      destruct HQ0 as (HS0 & HF0 & HN0).
      rewrite Hn1, seqs_firstn.
      split; [apply sorted_firstn; exact HS0|].
      split.
      { intros s Hs. rewrite HN'. apply In_firstn_in in Hs. apply in_map_iff in Hs. destruct Hs as (w & <- & Hw).
        apply (proj1 (Forall_forall _ _) HF0 w Hw). }
      split.
      { intros s w Hs Hw. rewrite Hn2 in Hw.
        apply (sorted_split_lt (seqs (q_writers q0)) n); [exact HS0|exact Hs|].
        rewrite <- seqs_skipn. unfold seqs. apply in_map. exact Hw. }
      split.
      { intros s Hs. apply In_firstn_in in Hs. apply in_map_iff in Hs. destruct Hs as (w & <- & Hw).
        left. exists w. auto. }
      split; [rewrite HN'; unfold q0; cbn; lia|]. split.
      { intros w Hw. rewrite Hn2 in Hw. apply In_skipn_in in Hw. left. exact Hw. }
      split; [exact HH|exact HDr].
  - (* cancel *)
    cbn [ip_step sent_msgs]. rewrite app_nil_r.
    destruct HQ as (HS & HF & HN).
    destruct (existsb (N.eqb a) (q_readers q) || existsb (fun w => N.eqb a (w_aio w)) (q_writers q)).
    + eexists _, _. split; [reflexivity|]. cbn [fate_seqs handoffs drops flat_map app q_writers q_next].
      split.
      { split; [|split; [|exact HN]].
        - unfold seqs. clear -HS. induction (q_writers q) as [|w ws IH]; [constructor|].
          cbn [seqs map] in HS. inversion HS; subst. cbn [filter].
          destruct (negb (a =? w_aio w)%N); [|apply IH; assumption].
          cbn [map]. constructor; [apply IH; assumption|].
          apply Forall_forall. intros y Hy. apply in_map_iff in Hy. destruct Hy as (w' & <- & Hw').
          apply filter_In in Hw'. destruct Hw' as [Hw' _].
          eapply Forall_forall; [eassumption|]. apply in_map. exact Hw'.
        - apply Forall_forall. intros w Hw. apply filter_In in Hw. destruct Hw as [Hw _].
          apply (proj1 (Forall_forall _ _) HF w Hw). }
      split.
      { apply Forall_forall. intros w Hw. apply filter_In in Hw. destruct Hw as [Hw _].
        apply (proj1 (Forall_forall _ _) HM w Hw). }
      split; [constructor|]. split; [intros s []|]. split; [intros s w []|]. split; [intros s []|].
      split; [lia|]. split; [|split; constructor].
      intros w Hw. apply filter_In in Hw. left. tauto.
    + exists q, []. split; [reflexivity|]. split; [split; [exact HS|split; [exact HF|exact HN]]|]. split; [exact HM|].
      cbn [fate_seqs handoffs drops flat_map]. split; [constructor|]. split; [intros s []|]. split; [intros s w []|].
      split; [intros s []|]. split; [lia|]. split; [auto|split; constructor].
  - (* close *)
    cbn [ip_step sent_msgs]. rewrite app_nil_r. unfold run_closed. cbn [q_readers q_writers q_closed q_next].
    destruct HQ as (HS & HF & HN).
    eexists _, _. split; [reflexivity|].
    split; [split; [constructor|split; [constructor|exact HN]]|]. split; [constructor|].
    assert (FS: forall l1 l2, fate_seqs (map (fun a0 => OFail a0 IP_ECLOSED) l1 ++
               map (fun w => OFail (w_aio w) IP_ECLOSED) l2) = []).
    { intros. rewrite fate_app.
      rewrite (fate_fail_map (fun x => x)), (fate_fail_map w_aio). reflexivity. }
    assert (HS0: forall l1 l2, handoffs (map (fun a0 => OFail a0 IP_ECLOSED) l1 ++
               map (fun w => OFail (w_aio w) IP_ECLOSED) l2) = []).
    { intros. rewrite handoffs_app.
      rewrite (handoffs_fail_map (fun x => x)), (handoffs_fail_map w_aio). reflexivity. }
    assert (HD0: forall l1 l2, drops (map (fun a0 => OFail a0 IP_ECLOSED) l1 ++
               map (fun w => OFail (w_aio w) IP_ECLOSED) l2) = []).
    { intros. rewrite drops_app.
      rewrite (drops_fail_map (fun x => x)), (drops_fail_map w_aio). reflexivity. }
    rewrite FS, HS0, HD0. cbn [q_writers q_next].
    split; [constructor|]. split; [intros s []|]. split; [intros s w []|]. split; [intros s []|].
    split; [lia|]. split; [intros w []|split; constructor].
Qed.

(* ---------------------------------------------------------- all histories *)
Definition sends_inv (ops : list ip_op) : Prop :=
  forall a m sh f1 f2, In (ISend a m sh f1 f2) ops -> Inv m.

Lemma sent_msgs_cons op r : sent_msgs (op :: r) = sent_msgs [op] ++ sent_msgs r.
Proof. destruct op; reflexivity. Qed.

Lemma handoff_ok_mono chk sent ext sm : handoff_ok chk sent sm -> handoff_ok chk (sent ++ ext) sm.
Proof.
  intros (m & f1 & f2 & H1 & H2). exists m, f1, f2. split; [|exact H2].
  rewrite nth_error_app1; [exact H1|]. apply nth_error_Some. congruence.
Qed.
Lemma drop_ok_mono sent ext s : drop_ok sent s -> drop_ok (sent ++ ext) s.
Proof.
  intros (m & f1 & f2 & H1 & H2). exists m, f1, f2. split; [|exact H2].
  rewrite nth_error_app1; [exact H1|]. apply nth_error_Some. congruence.
Qed.

Lemma run_spec chk : forall ops sent q, QInv sent q -> Forall (fun w => Inv (w_msg w)) (q_writers q) ->
  sends_inv ops ->
  exists q' outs, ip_run chk q ops = Some (q', outs) /\
    StronglySorted lt (fate_seqs outs) /\
    (forall s, In s (fate_seqs outs) -> (exists w, In w (q_writers q) /\ w_seq w = s) \/ q_next q <= s) /\
    Forall (handoff_ok chk (sent ++ sent_msgs ops)) (handoffs outs) /\
    Forall (drop_ok (sent ++ sent_msgs ops)) (drops outs).
Proof.
  induction ops as [|op ops IH]; intros sent q HQ HM HS.
  - exists q, []. cbn [ip_run fate_seqs handoffs drops flat_map]. split; [reflexivity|].
    split; [constructor|]. split; [intros s []|split; constructor].
  - cbn [ip_run].
    destruct (step_spec chk sent q op HQ HM) as (q1 & o1 & HStep & HQ1 & HM1 & HSo & HLt & HBel & HOrig & HNx & HW1 & HH1 & HD1).
    { intros a m sh f1 f2 ->. eapply HS. left. reflexivity. }
    rewrite HStep.
    destruct (IH (sent ++ sent_msgs [op]) q1 HQ1 HM1) as (q2 & o2 & HRun & HSo2 & HOrig2 & HH2 & HD2).
    { intros a m sh f1 f2 Hin. eapply HS. right. exact Hin. }
    rewrite HRun. exists q2, (o1 ++ o2). split; [reflexivity|].
    rewrite fate_app, handoffs_app, drops_app, sent_msgs_cons, app_assoc.
    split; [|split; [|split]].
    + apply sorted_app_lt; [exact HSo|exact HSo2|].
      intros x y Hx Hy. destruct (HOrig2 y Hy) as [(w & Hw & <-)|Hge].
      * apply HBel; assumption.
      * specialize (HLt x Hx). lia.
    + intros s Hs. apply in_app_or in Hs. destruct Hs as [Hs|Hs].
      * destruct (HOrig s Hs) as [H|H]; [left; exact H|right; lia].
      * destruct (HOrig2 s Hs) as [(w & Hw & <-)|Hge]; [|right; lia].
        destruct (HW1 w Hw) as [H|H]; [left; exists w; auto|right; lia].
    + apply Forall_app. split; [|exact HH2].
      eapply Forall_impl; [|exact HH1]. intros sm. apply handoff_ok_mono.
    + apply Forall_app. split; [|exact HD2].
      eapply Forall_impl; [|exact HD1]. intros sm. apply drop_ok_mono.
Qed.

Lemma sorted_lt_nodup (l : list nat) : StronglySorted lt l -> NoDup l.
Proof.
  induction 1 as [|x l HS IH HF]; constructor; [|exact IH].
  intros Hin. pose proof (proj1 (Forall_forall _ _) HF x Hin). lia.
Qed.

(* Every history of sends, receives, cancellations and closes of one queue,
   under every allocation oracle: the run never steps outside an array or a
   buffer; the messages that leave through the hand-off do so in the order of
   their sends, each at most once (delivered or dropped, never both); a dropped
   message had an allocation fail; a delivered message is the one sent under
   that number with an empty header and its body = header ++ body -- or, only
   where the chunk allocation failed (inside nni_msg_insert, whose result is
   ignored), the body alone (pull_up_enomem_loses_header). *)
Theorem fifo_once chk ops : sends_inv ops ->
  exists q outs, ip_run chk ip_init ops = Some (q, outs) /\
    StronglySorted lt (fate_seqs outs) /\ NoDup (fate_seqs outs) /\
    Forall (handoff_ok chk (sent_msgs ops)) (handoffs outs) /\ Forall (drop_ok (sent_msgs ops)) (drops outs).
Proof.
  intros HS.
  destruct (run_spec chk ops [] ip_init) as (q & outs & HR & HSo & _ & HH & HD); auto.
  - split; [constructor|]. split; [constructor|reflexivity].
  - constructor.
  - exists q, outs. split; [exact HR|]. split; [exact HSo|]. split; [apply sorted_lt_nodup; exact HSo|].
    split; [exact HH|exact HD].
Qed.

(* without allocation failures nothing is dropped and every hand-off is exact *)
Definition no_alloc_failure (ops : list ip_op) : Prop :=
  forall a m sh f1 f2, In (ISend a m sh f1 f2) ops -> f1 = false /\ f2 = false.

Lemma sent_flags ops s m f1 f2 : no_alloc_failure ops -> nth_error (sent_msgs ops) s = Some (m, f1, f2) ->
  f1 = false /\ f2 = false.
Proof.
  revert s; induction ops as [|op ops IH]; intros s HN H; [destruct s; discriminate|].
  assert (HN': no_alloc_failure ops) by (intros a' m' sh' g1 g2 Hin; eapply HN; right; exact Hin).
  destruct op as [a m0 sh g1 g2| | |]; cbn [sent_msgs] in H; try (eapply IH; eassumption).
  destruct s as [|s]; [|eapply IH; eassumption]. cbn in H. inversion H; subst.
  eapply HN. left. reflexivity.
Qed.

Theorem fifo_exact_no_failure chk ops : sends_inv ops -> no_alloc_failure ops ->
  exists q outs, ip_run chk ip_init ops = Some (q, outs) /\
    StronglySorted lt (map fst (handoffs outs)) /\ drops outs = [] /\
    Forall (fun sm => exists m f1 f2, nth_error (sent_msgs ops) (fst sm) = Some (m, f1, f2) /\
                      abs (snd sm) = ([], m_hdr m ++ body_of m)) (handoffs outs).
Proof.
  intros HS HN. destruct (fifo_once chk ops HS) as (q & outs & HR & HSo & _ & HH & HD).
  exists q, outs. split; [exact HR|].
  assert (D0: drops outs = []).
  { destruct (drops outs) as [|s r]; [reflexivity|]. exfalso.
    pose proof (Forall_inv HD) as (m & f1 & f2 & H1 & H2).
    destruct (sent_flags _ _ _ _ _ HN H1); subst. discriminate. }
  split; [|split; [exact D0|]].
  - assert (E: fate_seqs outs = map fst (handoffs outs)).
    { clear -D0. induction outs as [|x outs IH]; [reflexivity|].
      unfold fate_seqs, handoffs, drops in *. cbn [flat_map] in *.
      destruct x; cbn [app map fst] in *; try (apply IH; exact D0); [f_equal; apply IH; exact D0|discriminate]. }
    rewrite <- E. exact HSo.
  - eapply Forall_impl; [|exact HH]. intros sm (m & f1 & f2 & H1 & HI & HHd & HB).
    exists m, f1, f2. split; [exact H1|]. unfold abs. rewrite HHd. f_equal.
    destruct HB as [HB|(_ & HF2 & _)]; [exact HB|].
    destruct (sent_flags _ _ _ _ _ HN H1); subst. discriminate.
Qed.

(* the repaired pull-up: every message that leaves the queue is delivered with
   header ++ body or dropped whole (and then an allocation had failed) *)
Theorem fifo_whole_or_nothing ops : sends_inv ops ->
  exists q outs, ip_run true ip_init ops = Some (q, outs) /\
    StronglySorted lt (fate_seqs outs) /\ NoDup (fate_seqs outs) /\
    Forall (fun sm => exists m f1 f2, nth_error (sent_msgs ops) (fst sm) = Some (m, f1, f2) /\
                      abs (snd sm) = ([], m_hdr m ++ body_of m)) (handoffs outs) /\
    Forall (drop_ok (sent_msgs ops)) (drops outs).
Proof.
  intros HS. destruct (fifo_once true ops HS) as (q & outs & HR & HSo & HND & HH & HD).
  exists q, outs. split; [exact HR|]. split; [exact HSo|]. split; [exact HND|]. split; [|exact HD].
  eapply Forall_impl; [|exact HH]. intros sm (m & f1 & f2 & H1 & HI & HHd & HB).
  exists m, f1, f2. split; [exact H1|]. unfold abs. rewrite HHd. f_equal.
  destruct HB as [HB|(HF & _)]; [exact HB|discriminate].
Qed.
