(* B64Proofs: the base64 model against RFC 4648 (C16): nni_base64_encode
   computes the RFC encoding and nni_base64_decode inverts it, for byte strings
   of every length (induction on the list in groups of three). *)
From Coq Require Import List Arith Lia Bool NArith ZArith.
From NngV Require Import Base.ListX Base.Bytes Codec.B64Model Codec.CodecSpec.
Import ListNotations.
Local Open Scope N_scope.
Ltac Zify.zify_post_hook ::= Z.to_euclidean_division_equations.

Lemma forall_below (n : nat) (P : N -> bool) :
  forallb P (map N.of_nat (seq 0 n)) = true -> forall b, b < N.of_nat n -> P b = true.
Proof.
  intros H b Hb. rewrite forallb_forall in H. apply H.
  apply in_map_iff. exists (N.to_nat b). split; [apply N2Nat.id|].
  apply in_seq. lia.
Qed.

(* ---- masks and shifts as arithmetic ---- *)
Lemma lor_low n k a : a < 2 ^ n -> N.lor (k * 2 ^ n) a = k * 2 ^ n + a.
Proof.
  intros H. rewrite <- N.shiftl_mul_pow2.
  assert (Z: N.land (N.shiftl k n) a = 0).
  { apply N.bits_inj_0. intros m. rewrite N.land_spec.
    destruct (N.ltb_spec m n) as [L|L].
    - rewrite N.shiftl_spec_low by exact L. reflexivity.
    - replace (N.testbit a m) with false; [apply andb_false_r|]. symmetry.
      destruct (N.eq_dec a 0) as [->|NZ]; [apply N.bits_0|].
      apply N.bits_above_log2. apply N.lt_le_trans with n; [|exact L].
      apply N.log2_lt_pow2; [lia|exact H]. }
  rewrite N.add_nocarry_lxor by exact Z. symmetry. apply N.lxor_lor. exact Z.
Qed.

Lemma enc_acc v a : a < 256 -> N.lor (N.shiftl v 8 mod U32) a = 256 * (v mod 16777216) + a.
Proof.
  intros H. rewrite N.shiftl_mul_pow2. unfold U32. change (2 ^ 8) with 256.
  change 4294967296 with (16777216 * 256). rewrite N.mul_mod_distr_r by lia.
  change 256 with (2 ^ 8) at 1. rewrite lor_low by exact H. change (2 ^ 8) with 256. lia.
Qed.

Lemma dec_acc v i : i < 64 -> N.lor (N.shiftl v 6 mod U32) i = 64 * (v mod 67108864) + i.
Proof.
  intros H. rewrite N.shiftl_mul_pow2. unfold U32. change (2 ^ 6) with 64.
  change 4294967296 with (67108864 * 64). rewrite N.mul_mod_distr_r by lia.
  change 64 with (2 ^ 6) at 1. rewrite lor_low by exact H. change (2 ^ 6) with 64. lia.
Qed.

Lemma idx6 v n : N.land (N.shiftr v n) 63 = (v / 2 ^ n) mod 64.
Proof. rewrite N.shiftr_div_pow2. change 63 with (N.ones 6). rewrite N.land_ones. reflexivity. Qed.
Lemma idx8 v n : N.land (N.shiftr v n) 255 = (v / 2 ^ n) mod 256.
Proof. rewrite N.shiftr_div_pow2. change 255 with (N.ones 8). rewrite N.land_ones. reflexivity. Qed.
Lemma low6 v : N.land v 63 = v mod 64.
Proof. change 63 with (N.ones 6). apply N.land_ones. Qed.

(* ---- the alphabet ---- *)
Lemma sym_props : forall i, i < 64 ->
  b64_char i = b64_sym i /\ is_space (b64_sym i) = false /\ (b64_sym i =? 61) = false /\
  (128 <=? b64_sym i) = false /\ b64_val (b64_sym i) = i /\ (i =? 255) = false /\ b64_alphabet (b64_sym i) = true.
Proof.
  intros i H.
  assert (Q: forallb (fun i => (b64_char i =? b64_sym i) && negb (is_space (b64_sym i)) && negb (b64_sym i =? 61) &&
                               negb (128 <=? b64_sym i) && (b64_val (b64_sym i) =? i) && negb (i =? 255) &&
                               b64_alphabet (b64_sym i))
               (map N.of_nat (seq 0 64)) = true) by (vm_compute; reflexivity).
  pose proof (forall_below 64 _ Q i H) as P. cbv beta in P.
  repeat (apply andb_true_iff in P; destruct P as [P ?]).
  repeat match goal with
         | X : negb _ = true |- _ => apply negb_true_iff in X
         | X : (_ =? _) = true |- _ => apply N.eqb_eq in X
         end.
  repeat split; assumption.
Qed.

(* ---- encoder ---- *)
Definition enc_finish (r : list byte * N * N) : list byte :=
  let '(o, v, rem) := r in
  let o1 := if rem =? 0 then o else o ++ [b64_char (N.land (N.shiftl v (6 - rem) mod U32) 63)] in
  o1 ++ repeat 61 (pad_count (length o1)).

Lemma b64_encode_all_finish l : b64_encode_all l = enc_finish (enc_loop l 0 0).
Proof. unfold b64_encode_all, enc_finish. destruct (enc_loop l 0 0) as [[o v] rem]. reflexivity. Qed.

Lemma pad_count_4 n : pad_count (4 + n) = pad_count n.
Proof.
  unfold pad_count. replace (Nat.modulo (4 + n) 4) with (Nat.modulo n 4); [reflexivity|].
  rewrite Nat.add_comm. replace (n + 4)%nat with (n + 1 * 4)%nat by lia. rewrite Nat.mod_add by lia. reflexivity.
Qed.

Lemma enc_finish_4 s1 s2 s3 s4 o v rem :
  enc_finish (s1 :: s2 :: s3 :: s4 :: o, v, rem) = s1 :: s2 :: s3 :: s4 :: enc_finish (o, v, rem).
Proof.
  unfold enc_finish. destruct (rem =? 0); cbn [app length]; rewrite ?app_length;
    change (S (S (S (S ?n)))) with (4 + n)%nat; rewrite pad_count_4; reflexivity.
Qed.

Lemma list_ind3 (P : list byte -> Prop) :
  P [] -> (forall a, P [a]) -> (forall a b, P [a; b]) ->
  (forall a b c r, P r -> P (a :: b :: c :: r)) -> forall l, P l.
Proof.
  intros H0 H1 H2 H3.
  assert (K: forall n l, (length l <= n)%nat -> P l).
  { induction n as [|n IH]; intros l Hl.
    - destruct l; [exact H0|cbn in Hl; lia].
    - destruct l as [|a [|b [|c r]]]; auto. apply H3. apply IH. cbn in Hl. lia. }
  intros l. exact (K (length l) l (le_n _)).
Qed.

Lemma sym_eq x y : x = y -> x < 64 -> b64_char x = b64_sym y.
Proof. intros -> H. apply sym_props. exact H. Qed.

Lemma emit8 v : enc_emit v 8 = ([b64_char (N.land (N.shiftr v 2) 63)], 2).
Proof. reflexivity. Qed.
Lemma emit10 v : enc_emit v 10 = ([b64_char (N.land (N.shiftr v 4) 63)], 4).
Proof. reflexivity. Qed.
Lemma emit12 v : enc_emit v 12 = ([b64_char (N.land (N.shiftr v 6) 63); b64_char (N.land (N.shiftr v 0) 63)], 0).
Proof. reflexivity. Qed.

Lemma enc_loop_cons ch r v rem :
  enc_loop (ch :: r) v rem =
    let v1 := N.lor (N.shiftl v 8 mod U32) ch in
    let '(o, rem1) := enc_emit v1 (rem + 8) in
    let '(o2, v2, rem2) := enc_loop r v1 rem1 in (o ++ o2, v2, rem2).
Proof. reflexivity. Qed.

Ltac arith_forms :=
  rewrite ?idx6, ?low6, ?N.shiftl_mul_pow2, ?N.shiftr_0_r; unfold U32;
  change (2 ^ 2) with 4; change (2 ^ 4) with 16; change (2 ^ 6) with 64.

Ltac enc_step H :=
  rewrite enc_loop_cons; cbv zeta; rewrite enc_acc by exact H.

Lemma enc_all_spec : forall l v, bytes_ok l -> enc_finish (enc_loop l v 0) = spec_b64_encode l.
Proof.
  induction l as [| a | a b | a b c r IH] using list_ind3; intros v Hb.
  - reflexivity.
  - inversion Hb as [|? ? Ha _]; subst.
    enc_step Ha. change (0 + 8) with 8. rewrite emit8. cbv beta iota. cbn [enc_loop app].
    unfold enc_finish. change (2 =? 0) with false. cbv iota. change (6 - 2) with 4.
    cbn [app length]. change (pad_count 2) with 2%nat. cbn [repeat app].
    unfold spec_b64_encode. arith_forms.
    f_equal; [|f_equal]; apply sym_eq; lia.
  - inversion Hb as [|? ? Ha Hb']; subst. inversion Hb' as [|? ? Hb2 _]; subst.
    enc_step Ha. change (0 + 8) with 8. rewrite emit8. cbv beta iota.
    enc_step Hb2. change (2 + 8) with 10. rewrite emit10. cbv beta iota. cbn [enc_loop app].
    unfold enc_finish. change (4 =? 0) with false. cbv iota. change (6 - 4) with 2.
    cbn [app length]. change (pad_count 3) with 1%nat. cbn [repeat app].
    unfold spec_b64_encode. arith_forms.
    f_equal; [|f_equal; [|f_equal]]; apply sym_eq; lia.
  - inversion Hb as [|? ? Ha Hb']; subst. inversion Hb' as [|? ? Hb2 Hb'']; subst.
    inversion Hb'' as [|? ? Hc Hr]; subst.
    enc_step Ha. change (0 + 8) with 8. rewrite emit8. cbv beta iota.
    enc_step Hb2. change (2 + 8) with 10. rewrite emit10. cbv beta iota.
    enc_step Hc. change (4 + 8) with 12. rewrite emit12. cbv beta iota.
    set (v1 := 256 * (v mod 16777216) + a). set (v2 := 256 * (v1 mod 16777216) + b).
    set (v3 := 256 * (v2 mod 16777216) + c).
    specialize (IH v3 Hr). destruct (enc_loop r v3 0) as [[o2 vv] rr].
    cbn [app]. rewrite enc_finish_4, IH.
    cbn [spec_b64_encode]. arith_forms.
    f_equal; [|f_equal; [|f_equal; [|f_equal]]]; apply sym_eq; subst v1 v2 v3; lia.
Qed.

Lemma b64_encode_is_rfc l : bytes_ok l -> b64_encode_all l = spec_b64_encode l.
Proof. intros H. rewrite b64_encode_all_finish. apply enc_all_spec. exact H. Qed.

(* ---- decoder ---- *)
Lemma dec_sym i r v rem : i < 64 ->
  dec_loop (b64_sym i :: r) v rem =
    if 8 <=? rem + 6
    then N.land (N.shiftr (64 * (v mod 67108864) + i) (rem + 6 - 8)) 255 :: dec_loop r (64 * (v mod 67108864) + i) (rem + 6 - 8)
    else dec_loop r (64 * (v mod 67108864) + i) (rem + 6).
Proof.
  intros H. destruct (sym_props i H) as (_ & A & B & C & D & E & _).
  cbn [dec_loop]. rewrite A, B, C, D, E. rewrite dec_acc by exact H. reflexivity.
Qed.

Lemma dec_pad r v rem : dec_loop (61 :: r) v rem = [].
Proof. reflexivity. Qed.

Ltac dec_forms :=
  rewrite ?idx8, ?N.shiftr_0_r; change (2 ^ 0) with 1; change (2 ^ 2) with 4; change (2 ^ 4) with 16.

Lemma dec_all_spec : forall l v, bytes_ok l -> dec_loop (spec_b64_encode l) v 0 = l.
Proof.
  induction l as [| a | a b | a b c r IH] using list_ind3; intros v Hb.
  - reflexivity.
  - inversion Hb as [|? ? Ha _]; subst. cbn [spec_b64_encode].
    rewrite dec_sym by lia. change (8 <=? 0 + 6) with false. cbv iota. change (0 + 6) with 6.
    rewrite dec_sym by lia. change (8 <=? 6 + 6) with true. cbv iota. change (6 + 6 - 8) with 4.
    rewrite dec_pad. dec_forms. f_equal. lia.
  - inversion Hb as [|? ? Ha Hb']; subst. inversion Hb' as [|? ? Hb2 _]; subst. cbn [spec_b64_encode].
    rewrite dec_sym by lia. change (8 <=? 0 + 6) with false. cbv iota. change (0 + 6) with 6.
    rewrite dec_sym by lia. change (8 <=? 6 + 6) with true. cbv iota. change (6 + 6 - 8) with 4.
    rewrite dec_sym by lia. change (8 <=? 4 + 6) with true. cbv iota. change (4 + 6 - 8) with 2.
    rewrite dec_pad. dec_forms. f_equal; [|f_equal]; lia.
  - inversion Hb as [|? ? Ha Hb']; subst. inversion Hb' as [|? ? Hb2 Hb'']; subst.
    inversion Hb'' as [|? ? Hc Hr]; subst. cbn [spec_b64_encode].
    rewrite dec_sym by lia. change (8 <=? 0 + 6) with false. cbv iota. change (0 + 6) with 6.
    rewrite dec_sym by lia. change (8 <=? 6 + 6) with true. cbv iota. change (6 + 6 - 8) with 4.
    rewrite dec_sym by lia. change (8 <=? 4 + 6) with true. cbv iota. change (4 + 6 - 8) with 2.
    rewrite dec_sym by lia. change (8 <=? 2 + 6) with true. cbv iota. change (2 + 6 - 8) with 0.
    rewrite IH by exact Hr. dec_forms. f_equal; [|f_equal; [|f_equal]]; lia.
Qed.

Theorem b64_roundtrip l : bytes_ok l ->
  b64_encode_all l = spec_b64_encode l /\ b64_decode_all (b64_encode_all l) = l.
Proof.
  intros H. split; [apply b64_encode_is_rfc; exact H|].
  rewrite b64_encode_is_rfc by exact H. apply dec_all_spec. exact H.
Qed.

(* every character emitted is of the alphabet or the pad character *)
Lemma spec_alphabet : forall l, bytes_ok l ->
  forallb (fun c => b64_alphabet c || (c =? 61)) (spec_b64_encode l) = true.
Proof.
  assert (S: forall i, i < 64 -> b64_alphabet (b64_sym i) || (b64_sym i =? 61) = true).
  { intros i H. destruct (sym_props i H) as (_ & _ & _ & _ & _ & _ & A). rewrite A. reflexivity. }
  induction l as [| a | a b | a b c r IH] using list_ind3; intros Hb.
  - reflexivity.
  - inversion Hb as [|? ? Ha _]; subst. cbn [spec_b64_encode forallb]. rewrite !S by lia. reflexivity.
  - inversion Hb as [|? ? Ha Hb']; subst. inversion Hb' as [|? ? Hb2 _]; subst.
    cbn [spec_b64_encode forallb]. rewrite !S by lia. reflexivity.
  - inversion Hb as [|? ? Ha Hb']; subst. inversion Hb' as [|? ? Hb2 Hb'']; subst.
    inversion Hb'' as [|? ? Hc Hr]; subst.
    cbn [spec_b64_encode forallb]. rewrite !S by lia. rewrite IH by exact Hr. reflexivity.
Qed.

(* RFC 4648 section 10 test vectors, and the Sec-WebSocket-Accept sized case (20 bytes -> 28 characters) *)
Lemma b64_rfc_vectors :
  b64_encode_all [102] = [90;103;61;61] /\ b64_encode_all [102;111] = [90;109;56;61] /\
  b64_encode_all [102;111;111] = [90;109;57;118] /\
  b64_encode_all [102;111;111;98;97;114] = [90;109;57;118;89;109;70;121] /\
  b64_decode_all [90;109;57;118;89;109;70;121] = [102;111;111;98;97;114] /\
  length (b64_encode_all (repeat 255 20)) = 28%nat.
Proof. vm_compute. repeat split. Qed.
