(* B64Proofs: base64 model against RFC 4648 (C16).  Bounded sweeps lifted to
   universal statements; the statement for all lengths is not proved. *)
From Coq Require Import List Arith Lia Bool NArith.
From NngV Require Import Base.ListX Base.Bytes Codec.B64Model Codec.CodecSpec Codec.WsProofs.
Import ListNotations.
Local Open Scope N_scope.

Definition all_bytes : list N := map N.of_nat (seq 0 256).
Definition list_eqb (a b : list N) : bool :=
  (length a =? length b)%nat && forallb (fun p => fst p =? snd p) (combine a b).
Lemma list_eqb_eq : forall a b, list_eqb a b = true -> a = b.
Proof.
  induction a as [|x a IH]; destruct b as [|y b]; unfold list_eqb; cbn; intros H; try discriminate; auto.
  apply andb_true_iff in H. destruct H as [L H]. apply andb_true_iff in H. destruct H as [E H].
  apply N.eqb_eq in E. subst. f_equal. apply IH. unfold list_eqb. rewrite L, H. reflexivity.
Qed.

Definition ok1 (l : list N) : bool :=
  list_eqb (b64_encode_all l) (spec_b64_encode l) && list_eqb (b64_decode_all (b64_encode_all l)) l
  && forallb (fun c => b64_alphabet c || (c =? 61)) (b64_encode_all l).

Lemma sweep_len1 : forallb (fun a => ok1 [a]) all_bytes = true.
Proof. vm_compute. reflexivity. Qed.
Lemma sweep_len2 : forallb (fun a => forallb (fun b => ok1 [a; b]) all_bytes) all_bytes = true.
Proof. vm_compute. reflexivity. Qed.

Lemma b64_short l : bytes_ok l -> (length l <= 2)%nat ->
  b64_encode_all l = spec_b64_encode l /\ b64_decode_all (b64_encode_all l) = l /\
  forallb (fun c => b64_alphabet c || (c =? 61)) (b64_encode_all l) = true.
Proof.
  intros Hb Hl.
  assert (K: ok1 l = true).
  { destruct l as [|a [|b [|c l]]]; [reflexivity| | |cbn in Hl; lia].
    - inversion Hb; subst. exact (forall_below 256 _ sweep_len1 a H1).
    - inversion Hb as [|? ? Ha Hb']; subst. inversion Hb' as [|? ? Hb2 _]; subst.
      pose proof (forall_below 256 _ sweep_len2 a Ha) as P. cbv beta in P.
      exact (forall_below 256 _ P b Hb2). }
  unfold ok1 in K. apply andb_true_iff in K. destruct K as [K K3]. apply andb_true_iff in K. destruct K as [K1 K2].
  repeat split; auto using list_eqb_eq.
Qed.

(* RFC 4648 section 10 test vectors, and the Sec-WebSocket-Accept sized case (20 bytes -> 28 characters) *)
Lemma b64_rfc_vectors :
  b64_encode_all [102] = [90;103;61;61] /\ b64_encode_all [102;111] = [90;109;56;61] /\
  b64_encode_all [102;111;111] = [90;109;57;118] /\
  b64_encode_all [102;111;111;98;97;114] = [90;109;57;118;89;109;70;121] /\
  b64_decode_all [90;109;57;118;89;109;70;121] = [102;111;111;98;97;114] /\
  length (b64_encode_all (repeat 255 20)) = 28%nat.
Proof. vm_compute. repeat split. Qed.
