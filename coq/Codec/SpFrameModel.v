(* SpFrameModel: executable model of the framing of the stream transports
   src/sp/transport/tcp/tcp.c, ipc/ipc.c, socket/sockfd.c.  Definitions only.

     sender      *_pipe_send_start: 8-byte big-endian length (ipc: one type
                 octet 1, then the length), header bytes, body bytes as an iov
                 of up to three entries; *_pipe_send_cb is IovModel.send_cb.
     receiver    *_pipe_recv_start / *_pipe_recv_cb as the code runs them: a
                 one-entry iov into rxlen (rx_head) or into the body of the
                 message being filled, partial reads resumed by
                 nni_aio_iov_advance, the length validity and RECVMAXSZ tests
                 before the allocation, zero-length bodies.
     negotiation *_pipe_start / *_pipe_nego_cb: the 8 bytes
                 00 'S' 'P' 00 pp pp 00 00 in both directions, gottxhead /
                 gotrxhead resume logic, the check of the received header.
     abstract    the receiver as an instance of Codec/Staged.v ("read exactly k
                 bytes, then call back"); SpFrameProofs shows that the
                 receiver as coded refines it.

   sockfd.c frames exactly like tcp.c (kind KTcp).  A receiver is assumed to be
   posted on the pipe whenever a message completes (the protocols re-post their
   receive from the callback); back-pressure delays events, it does not change
   them.  Sizes are N (size_t / uint64_t; no wrap is reachable below 2^64, the
   tests on the 64-bit length are modelled as written). *)
From Coq Require Import List Arith Lia Bool NArith.
From NngV Require Import Base.ListX Base.Bytes Codec.Staged Codec.IovModel.
Import ListNotations.
Local Open Scope N_scope.

Inductive sp_kind := KTcp | KIpc.
Definition head_len (k : sp_kind) : N := match k with KTcp => 8 | KIpc => 9 end.
Definition is_ipc (k : sp_kind) : bool := match k with KIpc => true | KTcp => false end.

Definition MAX_STREAM_MSGSZ : N := 1152921504606846975.   (* NNI_MAX_STREAM_MSGSZ = 0x0fffffffffffffff *)
Definition SIZE_MAX : N := 18446744073709551615.
Definition RECVMAXSZ_DEFAULT : N := 1073741824.           (* NNG_RECVMAXSZ_DEFAULT = 1U << 30 *)
Definition NNG_ENOMEM : N := 2.
Definition NNG_EPROTO : N := 13.
Definition NNG_EMSGSIZE : N := 17.
Definition NNG_ECLOSED : N := 7.
Definition NNG_ECONNSHUT : N := 31.

(* nni_msg_size_valid *)
Definition msg_size_valid (size : N) : bool := (size <=? MAX_STREAM_MSGSZ) && (size <=? SIZE_MAX).

(* ------------------------------------------------------------------ sender *)
Record sp_msg := mkSp { sp_hdr : list byte; sp_body : list byte }.
Definition sp_wire (m : sp_msg) : list byte := sp_hdr m ++ sp_body m.

(* p->txlen after NNI_PUT64 (ipc: tx_head[0] = 1; NNI_PUT64(tx_head + 1, len)) *)
Definition tx_head (k : sp_kind) (len : N) : list byte :=
  match k with KTcp => be_enc 8 len | KIpc => 1 :: be_enc 8 len end.

Definition frame (k : sp_kind) (m : sp_msg) : list byte :=
  tx_head k (N.of_nat (length (sp_hdr m)) + N.of_nat (length (sp_body m))) ++ sp_hdr m ++ sp_body m.

(* *_pipe_send_start: the arena is txlen ++ header ++ body; iov[0] = txlen,
   then the header and the body when they are not empty *)
Definition send_start (k : sp_kind) (m : sp_msg) : list byte * list iov :=
  let hl := N.of_nat (length (sp_hdr m)) in
  let bl := N.of_nat (length (sp_body m)) in
  let h := tx_head k (bl + hl) in
  (h ++ sp_hdr m ++ sp_body m,
   [mkIov (Some 0) (head_len k)]
     ++ (if 0 <? hl then [mkIov (Some (head_len k)) hl] else [])
     ++ (if 0 <? bl then [mkIov (Some (head_len k + hl)) bl] else [])).

(* send one message: set the iov on the (zeroed) txaio, then the send loop *)
Definition send_msg (k : sp_kind) (m : sp_msg) (ks : list N) : option (list byte * aiov * bool) :=
  let '(mem, v) := send_start k m in
  match set_iov aiov0 v with
  | Some (0, a) => send_loop mem a ks
  | _ => None
  end.

(* ---------------------------------------------------------------- receiver *)
(* a receive buffer of w_cap bytes of which the first |w_data| have been
   written; only sequential writes occur (None otherwise) *)
Record wbuf := mkW { w_cap : N; w_data : list byte }.
Definition wbuf_write (b : wbuf) (off : N) (d : list byte) : option wbuf :=
  if (off =? N.of_nat (length (w_data b))) && (off + N.of_nat (length d) <=? w_cap b)
  then Some (mkW (w_cap b) (w_data b ++ d)) else None.
Definition wbuf_contents (b : wbuf) : list byte :=
  w_data b ++ zeros (N.to_nat (w_cap b - N.of_nat (length (w_data b)))).

Record rx_cfg := mkRxCfg {
  r_kind : sp_kind;
  r_rcvmax : N;          (* p->rcvmax, 0 = unlimited *)
  r_allocmax : N         (* nni_msg_alloc fails above this size *)
}.

Record rx_state := mkRx {
  rx_head : list byte;         (* p->rxlen / p->rx_head *)
  rx_msg : option wbuf;        (* p->rxmsg (its body), None = NULL *)
  rx_aio : aiov;               (* the iov of p->rxaio *)
  rx_posted : bool             (* a stream receive is outstanding (false after recv_error) *)
}.

Inductive rx_event :=
| RAlloc (n : N)               (* nni_msg_alloc(&p->rxmsg, n) is attempted *)
| RDeliver (m : list byte)     (* the user aio completes with this message body *)
| RError (rv : N).             (* recv_error: the user aio fails, nothing is read any more *)

(* *_pipe_recv_start: schedule a read of the header *)
Definition rx_recv_start (k : sp_kind) (st : rx_state) : option rx_state :=
  match set_iov (rx_aio st) [mkIov (Some 0) (head_len k)] with
  | Some (0, a) => Some (mkRx (rx_head st) None a true)
  | _ => None
  end.
Definition rx_init (k : sp_kind) : option rx_state :=
  rx_recv_start k (mkRx (zeros (N.to_nat (head_len k))) None aiov0 false).

(* the decisions taken once the length header is complete, in code order *)
Definition head_decide (cfg : rx_cfg) (head : list byte) : list rx_event * option N :=
  if is_ipc (r_kind cfg) && negb (nth 0 head 0 =? 1) then ([RError NNG_EPROTO], None)
  else
    let len := be_dec (firstn 8 (skipn (if is_ipc (r_kind cfg) then 1 else 0) head)) in
    if negb (msg_size_valid len) then ([RError NNG_EMSGSIZE], None)
    else if (r_rcvmax cfg <? len) && (0 <? r_rcvmax cfg) then ([RError NNG_EMSGSIZE], None)
    else if r_allocmax cfg <? len then ([RAlloc len; RError NNG_ENOMEM], None)
    else ([RAlloc len], Some len).

(* a completion of rxaio with an error (EOF = NNG_ECONNSHUT, reset, timeout ..) *)
Definition rx_fail (st : rx_state) (rv : N) : rx_state * list rx_event :=
  if rx_posted st then (mkRx (rx_head st) None (rx_aio st) false, [RError rv]) else (st, []).

(* a completion of rxaio with [data] read (1 <= |data| <= iov count: readv
   stores at most what was asked for).  None = out of bounds / assertion. *)
Definition rx_cb (cfg : rx_cfg) (st : rx_state) (data : list byte) : option (rx_state * list rx_event) :=
  if negb (rx_posted st) then Some (st, []) else
  let n := N.of_nat (length data) in
  match iov_count (rx_aio st), arr_get (a_iov (rx_aio st)) 0 with
  | Some c, Some e0 =>
      if (n =? 0) || (c <? n) || negb (a_nio (rx_aio st) =? 1)%nat then None else
      match iv_ptr e0 with
      | None => None
      | Some p =>
          let stored : option (list byte * option wbuf) :=
            match rx_msg st with
            | None => option_map (fun h => (h, None)) (blit (rx_head st) (N.to_nat p) data)
            | Some w => option_map (fun w' => (rx_head st, Some w')) (wbuf_write w p data)
            end in
          match stored with
          | None => None
          | Some (head, msg) =>
              match iov_advance (rx_aio st) n with
              | None => None
              | Some (a1, _) =>
                  match iov_count a1 with
                  | None => None
                  | Some c1 =>
                      if 0 <? c1 then Some (mkRx head msg a1 true, [])   (* partial read: resubmit *)
                      else
                        let deliver (w : wbuf) (pre : list rx_event) :=
                          match rx_recv_start (r_kind cfg) (mkRx head None a1 true) with
                          | None => None
                          | Some st' => Some (st', pre ++ [RDeliver (wbuf_contents w)])
                          end in
                        match msg with
                        | Some w => deliver w []
                        | None =>
                            match head_decide cfg head with
                            | (ev, None) => Some (mkRx head None a1 false, ev)
                            | (ev, Some len) =>
                                if len =? 0 then deliver (mkW 0 []) ev
                                else match set_iov a1 [mkIov (Some 0) len] with
                                     | Some (0, a2) => Some (mkRx head (Some (mkW len [])) a2 true, ev)
                                     | _ => None
                                     end
                            end
                        end
                  end
              end
          end
      end
  | _, _ => None
  end.

(* a piece of the stream of any size arrives: the kernel keeps what was not
   asked for, every readv returns min(asked, available) *)
Fixpoint rx_feed_fuel (fuel : nat) (cfg : rx_cfg) (st : rx_state) (data : list byte)
  : option (rx_state * list rx_event) :=
  match fuel with
  | O => Some (st, [])
  | S f =>
      if negb (rx_posted st) then Some (st, []) else
      match data with
      | [] => Some (st, [])
      | _ :: _ =>
          match iov_count (rx_aio st) with
          | None => None
          | Some c =>
              let k := N.to_nat (N.min c (N.of_nat (length data))) in
              match rx_cb cfg st (firstn k data) with
              | None => None
              | Some (st1, e1) =>
                  match rx_feed_fuel f cfg st1 (skipn k data) with
                  | None => None
                  | Some (st2, e2) => Some (st2, e1 ++ e2)
                  end
              end
          end
      end
  end.
Definition rx_feed (cfg : rx_cfg) (st : rx_state) (data : list byte) :=
  rx_feed_fuel (S (length data)) cfg st data.

Fixpoint rx_feed_all (cfg : rx_cfg) (st : rx_state) (pieces : list (list byte))
  : option (rx_state * list rx_event) :=
  match pieces with
  | [] => Some (st, [])
  | p :: r => match rx_feed cfg st p with
              | None => None
              | Some (st1, e1) => match rx_feed_all cfg st1 r with
                                  | None => None
                                  | Some (st2, e2) => Some (st2, e1 ++ e2)
                                  end
              end
  end.

(* one completion per piece (each piece is what one readv returned) *)
Fixpoint rx_steps (cfg : rx_cfg) (st : rx_state) (pieces : list (list byte))
  : option (rx_state * list rx_event) :=
  match pieces with
  | [] => Some (st, [])
  | p :: r => match rx_cb cfg st p with
              | None => None
              | Some (st1, e1) => match rx_steps cfg st1 r with
                                  | None => None
                                  | Some (st2, e2) => Some (st2, e1 ++ e2)
                                  end
              end
  end.

Definition deliveries (e : list rx_event) : list (list byte) :=
  flat_map (fun x => match x with RDeliver m => [m] | _ => [] end) e.

(* ------------------------------------------ the receiver as a staged decoder *)
Inductive sp_phase := PHead | PBody (len : N) | PDead.

Definition sp_want (k : sp_kind) (ph : sp_phase) : N :=
  match ph with PHead => head_len k | PBody len => len | PDead => 0 end.

Definition sp_cb (cfg : rx_cfg) (ph : sp_phase) (data : list byte) : sp_phase * list rx_event :=
  match ph with
  | PHead =>
      match head_decide cfg data with
      | (ev, None) => (PDead, ev)
      | (ev, Some len) => if len =? 0 then (PHead, ev ++ [RDeliver []]) else (PBody len, ev)
      end
  | PBody _ => (PHead, [RDeliver data])
  | PDead => (PDead, [])
  end.

Definition sp_dstate := dstate sp_phase.
Definition sp_dinit : sp_dstate := mkD PHead [].
Definition sp_feed (cfg : rx_cfg) : sp_dstate -> list byte -> sp_dstate * list rx_event :=
  feed sp_phase rx_event (sp_want (r_kind cfg)) (sp_cb cfg).
Definition sp_feed_all (cfg : rx_cfg) :=
  feed_all sp_phase rx_event (sp_want (r_kind cfg)) (sp_cb cfg).

(* ------------------------------------------------------------- negotiation *)
Definition NEGO_LEN : N := 8.
(* 00 'S' 'P' 00 <proto, 16 bits big endian> 00 00 *)
Definition sp_header (proto : N) : list byte := [0; 83; 80; 0] ++ be_enc 2 proto ++ [0; 0].

Record nego_state := mkNego {
  ng_txhead : list byte;     (* p->txlen / tx_head *)
  ng_rxhead : list byte;     (* p->rxlen / rx_head *)
  ng_gottx : N;
  ng_gotrx : N;
  ng_done : bool             (* the pipe left the negotiation (ready or failed) *)
}.

Inductive nego_out :=
| NSend (bytes : list byte)    (* nng_stream_send of these bytes is posted *)
| NRecv (n : N)                (* nng_stream_recv of n bytes is posted *)
| NReady (peer : N)            (* moved to waitpipes with p->peer = peer *)
| NFail (rv : N).              (* connection closed, pipe released *)

(* *_pipe_start *)
Definition nego_start (k : sp_kind) (proto : N) : nego_state * list nego_out :=
  let pad := zeros (N.to_nat (head_len k - NEGO_LEN)) in
  (mkNego (sp_header proto ++ pad) (zeros (N.to_nat (head_len k))) 0 0 false, [NSend (sp_header proto)]).

(* the test of the received header; None = a read outside rxlen *)
Definition nego_check (h : list byte) : option bool :=
  match nth_error h 0, nth_error h 1, nth_error h 2, nth_error h 3, nth_error h 6, nth_error h 7 with
  | Some b0, Some b1, Some b2, Some b3, Some b6, Some b7 =>
      Some ((b0 =? 0) && (b1 =? 83) && (b2 =? 80) && (b3 =? 0) && (b6 =? 0) && (b7 =? 0))
  | _, _, _, _, _, _ => None
  end.

(* a completion of negoaio with an error: ECLOSED is reported as ECONNSHUT *)
Definition nego_fail (st : nego_state) (rv : N) : nego_state * list nego_out :=
  if ng_done st then (st, [])
  else (mkNego (ng_txhead st) (ng_rxhead st) (ng_gottx st) (ng_gotrx st) true,
        [NFail (if rv =? NNG_ECLOSED then NNG_ECONNSHUT else rv)]).

(* a completion of negoaio with result 0 and [count] bytes transferred; [data]
   are the bytes a receive stored at rxlen[gotrxhead] (empty for a send) *)
Definition nego_cb (st : nego_state) (count : N) (data : list byte) : option (nego_state * list nego_out) :=
  if ng_done st then Some (st, []) else
  let sending := ng_gottx st <? NEGO_LEN in
  let asked := if sending then NEGO_LEN - ng_gottx st else NEGO_LEN - ng_gotrx st in
  if asked <? count then None else
  let rxh : option (list byte) :=
    if sending then (if (length data =? 0)%nat then Some (ng_rxhead st) else None)
    else if N.of_nat (length data) =? count then blit (ng_rxhead st) (N.to_nat (ng_gotrx st)) data else None in
  match rxh with
  | None => None
  | Some rxhead =>
      let gottx := if sending then ng_gottx st + count else ng_gottx st in
      let gotrx := if sending then ng_gotrx st
                   else if ng_gotrx st <? NEGO_LEN then ng_gotrx st + count else ng_gotrx st in
      let st' := mkNego (ng_txhead st) rxhead gottx gotrx false in
      if gottx <? NEGO_LEN then
        match sub (ng_txhead st) (N.to_nat gottx) (N.to_nat (NEGO_LEN - gottx)) with
        | None => None
        | Some b => Some (st', [NSend b])
        end
      else if gotrx <? NEGO_LEN then Some (st', [NRecv (NEGO_LEN - gotrx)])
      else
        match nego_check rxhead, sub rxhead 4 2 with
        | Some true, Some pp => Some (mkNego (ng_txhead st) rxhead gottx gotrx true, [NReady (be_dec pp)])
        | Some false, Some _ => Some (mkNego (ng_txhead st) rxhead gottx gotrx true, [NFail NNG_EPROTO])
        | _, _ => None
        end
  end.

(* the send side under every sequence of accepted counts: the stream takes the
   first min(k, asked) bytes of what was posted.  Result: bytes handed to the
   stream and the state. *)
Fixpoint nego_tx_run (st : nego_state) (posted : list byte) (ks : list N)
  : option (list byte * nego_state * list nego_out) :=
  match ks with
  | [] => Some ([], st, [])
  | k :: r =>
      if ng_done st || negb (ng_gottx st <? NEGO_LEN) then Some ([], st, [])
      else
        let n := N.min k (N.of_nat (length posted)) in
        match nego_cb st n [] with
        | None => None
        | Some (st1, [NSend b]) =>
            match nego_tx_run st1 b r with
            | None => None
            | Some (w, st2, o) => Some (firstn (N.to_nat n) posted ++ w, st2, o)
            end
        | Some (st1, o) => Some (firstn (N.to_nat n) posted, st1, o)
        end
  end.

(* the receive side on a piece of the stream of any size (the send side being
   complete): one readv of min(asked, available); what was not asked for stays
   in the kernel and is returned *)
Definition nego_rx_feed (st : nego_state) (data : list byte)
  : option (nego_state * list nego_out * list byte) :=
  if ng_done st || (ng_gottx st <? NEGO_LEN) then Some (st, [], data)
  else match data with
       | [] => Some (st, [], [])
       | _ :: _ =>
           let k := N.to_nat (N.min (NEGO_LEN - ng_gotrx st) (N.of_nat (length data))) in
           match nego_cb st (N.of_nat k) (firstn k data) with
           | None => None
           | Some (st', o) => Some (st', o, skipn k data)
           end
       end.

Fixpoint nego_rx_all (st : nego_state) (pieces : list (list byte))
  : option (nego_state * list nego_out * list byte) :=
  match pieces with
  | [] => Some (st, [], [])
  | p :: r =>
      match nego_rx_feed st p with
      | None => None
      | Some (st1, o1, rest) =>
          if ng_done st1 then Some (st1, o1, rest ++ concat r)
          else match nego_rx_all st1 r with
               | None => None
               | Some (st2, o2, rest2) => Some (st2, o1 ++ o2, rest2)
               end
      end
  end.

(* the state after the 8 header bytes have been handed to the stream *)
Definition nego_sent (k : sp_kind) (proto : N) : nego_state :=
  let '(st, _) := nego_start k proto in
  mkNego (ng_txhead st) (ng_rxhead st) NEGO_LEN 0 false.

(* pipe_start of every protocol: if (nni_pipe_peer(p) != <peer id>) reject *)
Definition peer_accept (expected peer : N) : bool := peer =? expected.
