(* SpLedgerModel: what one connection of a stream transport holds, and what
   each way of dropping it releases (C11: after enough hostile connections the
   listener must still be able to accept -- nothing may stay behind).

   Resources of a connection (tcp.c / ipc.c / sockfd.c with core/pipe.c):
     RFd       the stream (descriptor), freed by *_pipe_fini
     RPipeRef  the reference nni_pipe_alloc_listener/dialer returns to the
               transport; it is handed to the core with the accept, or dropped
               by the transport's own error path
     RListNode membership in ep->negopipes / waitpipes
     RRxMsg    p->rxmsg while a body is being filled
   *_pipe_fini (which frees the stream, rxmsg and the pipe itself) runs when the
   last reference is gone.  Drops and who releases:
     ONego    *_pipe_nego_cb error path (bad header, EOF, reset, timeout):
              list remove, stream close, nni_pipe_close, nni_pipe_rele
              -- [lf_nego_err_rele] says whether that nni_pipe_rele is there
              (generated constant C11_NEGO_ERR_RELEASES)
     OStart   the protocol's pipe_start rejects the peer: the core closes the
              pipe and drops the reference it was given
     OFrames  receive error / protocol closes the pipe: same, by the reaper
   Definitions only; the ledger is driven by SpConnModel.conn_feed. *)
From Coq Require Import List Arith Lia Bool NArith.
From NngV Require Import Base.ListX Base.Bytes Codec.Staged Codec.SpFrameModel Codec.SpConnModel.
Import ListNotations.
Local Open Scope N_scope.

Inductive res := RFd | RPipeRef | RListNode | RRxMsg.
Definition res_eqb (a b : res) : bool :=
  match a, b with RFd, RFd | RPipeRef, RPipeRef | RListNode, RListNode | RRxMsg, RRxMsg => true | _, _ => false end.
Definition drop_res (r : res) (l : list res) : list res := filter (fun x => negb (res_eqb r x)) l.

Record lflags := mkLF { lf_nego_err_rele : bool }.

Definition held (st : conn_state) : list res :=
  match st with
  | CNego _ => [RFd; RPipeRef; RListNode]
  | CFrames d => [RFd; RPipeRef] ++ (match d_inner d with PBody _ => [RRxMsg] | _ => [] end)
  | CClosed => []
  end.

Inductive origin := ONego | OStart | OFrames.

(* *_pipe_fini once no reference is left *)
Definition fini_if_unreferenced (l : list res) : list res :=
  if existsb (res_eqb RPipeRef) l then l else drop_res RRxMsg (drop_res RFd l).

Definition drop_release (fl : lflags) (o : origin) (l : list res) : list res :=
  match o with
  | ONego =>
      let l1 := drop_res RListNode l in
      fini_if_unreferenced (if lf_nego_err_rele fl then drop_res RPipeRef l1 else l1)
  | OStart | OFrames =>
      fini_if_unreferenced (drop_res RPipeRef (drop_res RListNode l))
  end.

(* where does the drop of this step happen? *)
Definition drop_origin (cfg : conn_cfg) (st : conn_state) (x : list byte) : origin :=
  match st with
  | CNego ng =>
      match nego_rx_feed ng x with
      | Some (ng', outs, _) =>
          if ng_done ng' then
            if existsb (fun o => match o with NReady _ => true | _ => false end) outs then
              (if existsb (fun o => match o with NReady p => peer_accept (cc_expect cfg) p | _ => false end) outs
               then OFrames else OStart)
            else ONego
          else ONego
      | None => ONego
      end
  | _ => OFrames
  end.

Definition lconn_feed (cfg : conn_cfg) (fl : lflags) (sl : conn_state * list res) (x : list byte)
  : option (conn_state * list res) :=
  let '(st, l) := sl in
  match conn_feed cfg st x with
  | None => None
  | Some (st', _) =>
      match st, st' with
      | CClosed, _ => Some (st', l)
      | _, CClosed =>
          (* an accepted connection that dies in the same step held what a frames-phase connection holds *)
          let l0 := match drop_origin cfg st x with ONego => l | _ => drop_res RListNode l end in
          Some (CClosed, drop_release fl (drop_origin cfg st x) l0)
      | _, _ => Some (st', held st')
      end
  end.

Fixpoint lconn_feed_all (cfg : conn_cfg) (fl : lflags) (sl : conn_state * list res) (ps : list (list byte))
  : option (conn_state * list res) :=
  match ps with
  | [] => Some sl
  | p :: r => match lconn_feed cfg fl sl p with None => None | Some sl' => lconn_feed_all cfg fl sl' r end
  end.

(* the peer goes away / the negotiation timer fires *)
Definition lconn_eof (fl : lflags) (sl : conn_state * list res) : conn_state * list res :=
  match fst sl with
  | CClosed => sl
  | CNego _ => (CClosed, drop_release fl ONego (snd sl))
  | CFrames _ => (CClosed, drop_release fl OFrames (snd sl))
  end.

Definition linit (cfg : conn_cfg) : conn_state * list res := (conn_init cfg, held (conn_init cfg)).
