(* SpHeaderProofs: raw protocol headers travel in front of the body and are
   recovered by the receiving protocol's re-parse (the hop loop of
   rep0_pipe_recv_cb / xrep0_pipe_recv_cb, Proto/ReqRepBacktrace.v). *)
From Coq Require Import List Arith Lia Bool NArith.
From NngV Require Import Proto.Common Proto.ReqRepBacktrace.
Import ListNotations.

(* a backtrace: 4-byte words, the last one (the request id) and only the last
   one with the high bit of its first byte set *)
Inductive backtrace : list N -> Prop :=
| bt_last : forall w, length w = 4 -> high_bit w = true -> backtrace w
| bt_hop : forall w r, length w = 4 -> high_bit w = false -> backtrace r -> backtrace (w ++ r).

Lemma backtrace_len hdr : backtrace hdr -> 4 <= length hdr.
Proof. induction 1; [lia|rewrite app_length; lia]. Qed.

Lemma bt_loop_reparse : forall hdr, backtrace hdr -> forall n h0 body,
  length h0 + length hdr <= BT_HEADER_MAX -> length hdr <= 4 * n ->
  bt_loop n h0 (hdr ++ body) = BtDeliver (mkPmsg (h0 ++ hdr) body).
Proof.
  induction 1 as [w HL HB|w r HL HB HR IH]; intros n h0 body Hmax Hn.
  - destruct n as [|n]; [lia|]. cbn [bt_loop].
    assert (E1: (length (w ++ body) <? 4) = false) by (apply Nat.ltb_ge; rewrite app_length; lia).
    rewrite E1.
    assert (E2: (BT_HEADER_MAX <? length h0 + 4) = false) by (apply Nat.ltb_ge; lia). rewrite E2.
    assert (F: firstn 4 (w ++ body) = w) by (rewrite firstn_app, firstn_all2, <- HL, Nat.sub_diag by lia; cbn; apply app_nil_r).
    assert (S: skipn 4 (w ++ body) = body) by (rewrite skipn_app, skipn_all2, <- HL, Nat.sub_diag by lia; reflexivity).
    rewrite F, S, HB. reflexivity.
  - destruct n as [|n]; [rewrite app_length in Hn; lia|]. cbn [bt_loop].
    rewrite app_length in Hmax, Hn. pose proof (backtrace_len r HR) as L4.
    assert (E1: (length ((w ++ r) ++ body) <? 4) = false) by (apply Nat.ltb_ge; rewrite !app_length; lia).
    rewrite E1.
    assert (E2: (BT_HEADER_MAX <? length h0 + 4) = false) by (apply Nat.ltb_ge; lia). rewrite E2.
    rewrite <- app_assoc.
    assert (F: firstn 4 (w ++ r ++ body) = w) by (rewrite firstn_app, firstn_all2, <- HL, Nat.sub_diag by lia; cbn; apply app_nil_r).
    assert (S: skipn 4 (w ++ r ++ body) = r ++ body) by (rewrite skipn_app, skipn_all2, <- HL, Nat.sub_diag by lia; reflexivity).
    rewrite F, S, HB. rewrite IH by (rewrite ?app_length; lia). now rewrite <- app_assoc.
Qed.

(* what the transport delivers for a message (header, body) is header ++ body;
   the cooked / raw REP receive recovers the header from it *)
Theorem reparse_recovers_header hdr body ttl p : backtrace hdr -> length hdr <= 4 * ttl ->
  (length hdr <= BT_HEADER_MAX -> rep_recv ttl (hdr ++ body) = BtDeliver (mkPmsg hdr body)) /\
  (4 + length hdr <= BT_HEADER_MAX -> xrep_recv p ttl (hdr ++ body) = BtDeliver (mkPmsg (be32 p ++ hdr) body)).
Proof.
  intros HB HT. split; intros HM.
  - unfold rep_recv. rewrite (bt_loop_reparse hdr HB ttl [] body); auto.
  - unfold xrep_recv. rewrite (bt_loop_reparse hdr HB ttl (be32 p) body); auto.
Qed.

Example backtrace_nonvacuous : backtrace ([0; 0; 0; 7] ++ [0; 0; 1; 2] ++ [128; 0; 0; 1])%N.
Proof. apply bt_hop; [reflexivity|reflexivity|]. apply bt_hop; [reflexivity|reflexivity|]. apply bt_last; reflexivity. Qed.
