(* HttpProofs: lemmas for C16 (in progress) *)
From Coq Require Import List.
