(* HttpProofs: lemmas about the HTTP head parser model (C16). *)
From Coq Require Import List Arith Lia Bool NArith.
From NngV Require Import Base.ListX Base.Bytes Codec.ChunkedModel Codec.HttpLineModel.
Import ListNotations.
Local Open Scope N_scope.

(* ---- http_scan_line is restartable: more bytes never change a decision already taken ---- *)
Lemma scan_from_app_line : forall l lc acc m line rest,
  scan_from lc acc l = SLine line rest -> scan_from lc acc (l ++ m) = SLine line (rest ++ m).
Proof.
  induction l as [|c l IH]; intros lc acc m line rest H; cbn [scan_from app] in *; [discriminate|].
  destruct (c =? 10); [inversion H; subst; reflexivity|].
  destruct (((c <? 32) && negb (c =? 13)) || (lc =? 13)); [discriminate|].
  apply IH. exact H.
Qed.

Lemma scan_from_app_proto : forall l lc acc m,
  scan_from lc acc l = SProto -> scan_from lc acc (l ++ m) = SProto.
Proof.
  induction l as [|c l IH]; intros lc acc m H; cbn [scan_from app] in *; [discriminate|].
  destruct (c =? 10); [discriminate|].
  destruct (((c <? 32) && negb (c =? 13)) || (lc =? 13)); [reflexivity|].
  apply IH. exact H.
Qed.

(* an incomplete line: the scan of the longer buffer is the scan of the rest
   continued from the state reached (last byte, bytes so far) *)
Fixpoint scan_state (lc : byte) (acc : list byte) (l : list byte) : byte * list byte :=
  match l with [] => (lc, acc) | c :: r => scan_state c (c :: acc) r end.
Lemma scan_from_app_again : forall l lc acc m,
  scan_from lc acc l = SAgain ->
  scan_from lc acc (l ++ m) = scan_from (fst (scan_state lc acc l)) (snd (scan_state lc acc l)) m.
Proof.
  induction l as [|c l IH]; intros lc acc m H; cbn [scan_from app scan_state fst snd] in *; [reflexivity|].
  destruct (c =? 10); [discriminate|].
  destruct (((c <? 32) && negb (c =? 13)) || (lc =? 13)); [discriminate|].
  apply IH. exact H.
Qed.

(* consequently a line is found in a ++ b exactly where it is found when a
   arrives first and the scan is repeated from the start of the line *)
Lemma scan_line_split a b :
  http_scan_line (a ++ b) =
    match http_scan_line a with
    | SLine line rest => SLine line (rest ++ b)
    | SProto => SProto
    | SAgain => http_scan_line (a ++ b)
    end.
Proof.
  unfold http_scan_line. destruct (scan_from 0 [] a) eqn:E.
  - reflexivity.
  - apply scan_from_app_proto. exact E.
  - apply scan_from_app_line. exact E.
Qed.

(* a bare CR, or a control character, is rejected wherever the buffer is cut *)
Lemma scan_bare_cr : forall pre lc acc c rest,
  scan_from lc acc pre = SAgain -> fst (scan_state lc acc pre) = 13 -> c <> 10 ->
  scan_from lc acc (pre ++ c :: rest) = SProto.
Proof.
  intros pre lc acc c rest H L C. rewrite scan_from_app_again by exact H. cbn [scan_from].
  replace (c =? 10) with false by (symmetry; apply N.eqb_neq; exact C).
  rewrite L. cbn [N.eqb Pos.eqb]. rewrite orb_true_r. reflexivity.
Qed.

Lemma scan_control_char : forall pre lc acc c rest,
  scan_from lc acc pre = SAgain -> c < 32 -> c <> 10 -> c <> 13 ->
  scan_from lc acc (pre ++ c :: rest) = SProto.
Proof.
  intros pre lc acc c rest H L C D. rewrite scan_from_app_again by exact H. cbn [scan_from].
  replace (c =? 10) with false by (symmetry; apply N.eqb_neq; exact C).
  replace (c <? 32) with true by (symmetry; apply N.ltb_lt; exact L).
  replace (c =? 13) with false by (symmetry; apply N.eqb_neq; exact D). reflexivity.
Qed.

(* ---- malformed start lines ---- *)
Lemma split_at_none d l : ~ In d l -> split_at d l = None.
Proof.
  induction l as [|c l IH]; intros H; cbn [split_at]; [reflexivity|].
  destruct (c =? d) eqn:E; [apply N.eqb_eq in E; subst; exfalso; apply H; left; reflexivity|].
  rewrite IH; [reflexivity|]. intros X. apply H. right. exact X.
Qed.

Lemma split_at_some d l a b : split_at d l = Some (a, b) -> l = a ++ d :: b /\ ~ In d a.
Proof.
  revert a b. induction l as [|c l IH]; intros a b H; cbn [split_at] in H; [discriminate|].
  destruct (c =? d) eqn:E.
  - apply N.eqb_eq in E. inversion H; subst. split; [reflexivity|intros []].
  - destruct (split_at d l) as [[a' b']|]; [|discriminate]. inversion H; subst.
    destruct (IH a' b eq_refl) as [-> N]. split; [reflexivity|].
    intros [X|X]; [subst; rewrite N.eqb_refl in E; discriminate|exact (N X)].
Qed.

(* fewer than two spaces: 400, nothing else changes *)
Lemma req_line_no_space h line : get_status h < 400 -> ~ In 32 line ->
  req_parse_line h line = (set_code h 400 None, false).
Proof.
  intros S H. unfold req_parse_line.
  replace (400 <=? get_status h) with false by (symmetry; apply N.leb_gt; exact S).
  rewrite split_at_none by exact H. reflexivity.
Qed.

Lemma req_line_one_space h a b : get_status h < 400 -> ~ In 32 a -> ~ In 32 b ->
  req_parse_line h (a ++ 32 :: b) = (set_code h 400 None, false).
Proof.
  intros S Ha Hb. unfold req_parse_line.
  replace (400 <=? get_status h) with false by (symmetry; apply N.leb_gt; exact S).
  assert (E: split_at 32 (a ++ 32 :: b) = Some (a, b)).
  { clear S Hb. induction a as [|c a IH]; cbn [app split_at].
    - reflexivity.
    - destruct (c =? 32) eqn:E; [apply N.eqb_eq in E; subst; exfalso; apply Ha; left; reflexivity|].
      rewrite IH; [reflexivity|]. intros X. apply Ha. right. exact X. }
  rewrite E, split_at_none by exact Hb. reflexivity.
Qed.

(* unsupported version with a URI of the modelled domain: 505 *)
Lemma req_line_bad_version h m u v rest :
  get_status h < 400 -> split_at 32 (m ++ 32 :: rest) = Some (m, rest) -> split_at 32 rest = Some (u, v) ->
  canon_simple u = CanonOk u -> version_ok v = false ->
  req_parse_line h (m ++ 32 :: rest) = (set_code h 505 None, false).
Proof.
  intros S E1 E2 C V. unfold req_parse_line.
  replace (400 <=? get_status h) with false by (symmetry; apply N.leb_gt; exact S).
  rewrite E1, E2, C, V. reflexivity.
Qed.

(* status line: without two spaces, or with a code outside 100..999: EPROTO and no change *)
Lemma res_line_no_space h line : ~ In 32 line -> res_parse_line h line = (h, NNG_EPROTO).
Proof. intros H. unfold res_parse_line. rewrite split_at_none by exact H. reflexivity. Qed.

Lemma res_line_bad_code h v c r line :
  split_at 32 line = Some (v, c ++ 32 :: r) -> split_at 32 (c ++ 32 :: r) = Some (c, r) ->
  (atoi32 c <? 100) || (999 <? atoi32 c) = true -> res_parse_line h line = (h, NNG_EPROTO).
Proof. intros E1 E2 A. unfold res_parse_line. rewrite E1, E2, A. reflexivity. Qed.

(* a header line without a colon *)
Lemma header_no_colon isreq h line : ~ In 58 line -> parse_header isreq h line = (h, NNG_EPROTO).
Proof. intros H. unfold parse_header. rewrite split_at_none by exact H. reflexivity. Qed.

(* ... which a response parser reports and a request parser drops (the code as it is) *)
Definition req_nocolon_witness : list byte :=
  [71;69;84;32;47;32;72;84;84;80;47;49;46;49;13;10; 66;97;100;13;10; 13;10].   (* "GET / HTTP/1.1\r\nBad\r\n\r\n" *)
Lemma req_header_nocolon_accepted :
  let '(h, rv, used, unk) := req_parse hconn_init req_nocolon_witness in
  rv = 0 /\ get_status h = 200 /\ h_hdrs h = [] /\ used = length req_nocolon_witness.
Proof. vm_compute. repeat split. Qed.

Definition res_nocolon_witness : list byte :=
  [72;84;84;80;47;49;46;49;32;50;48;48;32;79;75;13;10; 66;97;100;13;10; 13;10].  (* "HTTP/1.1 200 OK\r\nBad\r\n\r\n" *)
Lemma res_header_nocolon_rejected :
  let '(h, rv, used) := res_parse hconn_init res_nocolon_witness in rv = NNG_EPROTO.
Proof. vm_compute. reflexivity. Qed.

(* the status code is read with atoi: "200x" is taken for 200 (the code as it is) *)
Definition res_200x_witness : list byte :=
  [72;84;84;80;47;49;46;49;32;50;48;48;120;32;79;75;13;10;13;10].               (* "HTTP/1.1 200x OK\r\n\r\n" *)
Lemma res_status_200x_accepted :
  let '(h, rv, used) := res_parse hconn_init res_200x_witness in rv = 0 /\ get_status h = 200.
Proof. vm_compute. split; reflexivity. Qed.
