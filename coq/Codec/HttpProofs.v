(* HttpProofs: lemmas about the HTTP head parser model (C16). *)
From Coq Require Import List Arith Lia Bool NArith.
From NngV Require Import Base.ListX Base.Bytes Codec.ChunkedModel Codec.HttpLineModel.
Import ListNotations.
Local Open Scope N_scope.

(* ---- http_scan_line is restartable: more bytes never change a decision already taken ---- *)
Lemma scan_from_app_line : forall l lc acc m line rest,
  scan_from lc acc l = SLine line rest -> scan_from lc acc (l ++ m) = SLine line (rest ++ m).
Proof.
  induction l as [|c l IH]; intros lc acc m line rest H; cbn [scan_from app] in *; [discriminate|].
  destruct (c =? 10); [inversion H; subst; reflexivity|].
  destruct (((c <? 32) && negb (c =? 13)) || (lc =? 13)); [discriminate|].
  apply IH. exact H.
Qed.

Lemma scan_from_app_proto : forall l lc acc m,
  scan_from lc acc l = SProto -> scan_from lc acc (l ++ m) = SProto.
Proof.
  induction l as [|c l IH]; intros lc acc m H; cbn [scan_from app] in *; [discriminate|].
  destruct (c =? 10); [discriminate|].
  destruct (((c <? 32) && negb (c =? 13)) || (lc =? 13)); [reflexivity|].
  apply IH. exact H.
Qed.

(* an incomplete line: the scan of the longer buffer is the scan of the rest
   continued from the state reached (last byte, bytes so far) *)
Fixpoint scan_state (lc : byte) (acc : list byte) (l : list byte) : byte * list byte :=
  match l with [] => (lc, acc) | c :: r => scan_state c (c :: acc) r end.
Lemma scan_from_app_again : forall l lc acc m,
  scan_from lc acc l = SAgain ->
  scan_from lc acc (l ++ m) = scan_from (fst (scan_state lc acc l)) (snd (scan_state lc acc l)) m.
Proof.
  induction l as [|c l IH]; intros lc acc m H; cbn [scan_from app scan_state fst snd] in *; [reflexivity|].
  destruct (c =? 10); [discriminate|].
  destruct (((c <? 32) && negb (c =? 13)) || (lc =? 13)); [discriminate|].
  apply IH. exact H.
Qed.

(* consequently a line is found in a ++ b exactly where it is found when a
   arrives first and the scan is repeated from the start of the line *)
Lemma scan_line_split a b :
  http_scan_line (a ++ b) =
    match http_scan_line a with
    | SLine line rest => SLine line (rest ++ b)
    | SProto => SProto
    | SAgain => http_scan_line (a ++ b)
    end.
Proof.
  unfold http_scan_line. destruct (scan_from 0 [] a) eqn:E.
  - reflexivity.
  - apply scan_from_app_proto. exact E.
  - apply scan_from_app_line. exact E.
Qed.

(* a bare CR, or a control character, is rejected wherever the buffer is cut *)
Lemma scan_bare_cr : forall pre lc acc c rest,
  scan_from lc acc pre = SAgain -> fst (scan_state lc acc pre) = 13 -> c <> 10 ->
  scan_from lc acc (pre ++ c :: rest) = SProto.
Proof.
  intros pre lc acc c rest H L C. rewrite scan_from_app_again by exact H. cbn [scan_from].
  replace (c =? 10) with false by (symmetry; apply N.eqb_neq; exact C).
  rewrite L. cbn [N.eqb Pos.eqb]. rewrite orb_true_r. reflexivity.
Qed.

Lemma scan_control_char : forall pre lc acc c rest,
  scan_from lc acc pre = SAgain -> c < 32 -> c <> 10 -> c <> 13 ->
  scan_from lc acc (pre ++ c :: rest) = SProto.
Proof.
  intros pre lc acc c rest H L C D. rewrite scan_from_app_again by exact H. cbn [scan_from].
  replace (c =? 10) with false by (symmetry; apply N.eqb_neq; exact C).
  replace (c <? 32) with true by (symmetry; apply N.ltb_lt; exact L).
  replace (c =? 13) with false by (symmetry; apply N.eqb_neq; exact D). reflexivity.
Qed.

(* ---- the line loop over a concatenation ---- *)
Lemma scan_from_shorter : forall l lc acc line rest,
  scan_from lc acc l = SLine line rest -> (length rest < length l)%nat.
Proof.
  induction l as [|c l IH]; intros lc acc line rest H; cbn [scan_from] in H; [discriminate|].
  destruct (c =? 10); [inversion H; subst; cbn; lia|].
  destruct (((c <? 32) && negb (c =? 13)) || (lc =? 13)); [discriminate|].
  specialize (IH _ _ _ _ H). cbn [length]. lia.
Qed.

Section LoopProofs.
  Variable handle : hconn -> list byte -> hconn * N.
  Variable on_end : hconn -> hconn.
  Hypothesis handle_final : forall h l, snd (handle h l) <> NNG_EAGAIN.
  Notation loop := (parse_loop handle on_end).

  Lemma loop_fuel : forall f1 f2 h buf, (length buf < f1)%nat -> (length buf < f2)%nat ->
    loop f1 h buf = loop f2 h buf.
  Proof.
    induction f1 as [|f1 IH]; intros f2 h buf H1 H2; [lia|]. destruct f2 as [|f2]; [lia|].
    cbn [parse_loop].
    destruct (http_scan_line buf) as [| |line rest] eqn:E; try reflexivity.
    destruct line as [|x line]; [reflexivity|].
    destruct (handle h (x :: line)) as [h1 rv]. destruct (rv =? 0); [|reflexivity].
    pose proof (scan_from_shorter _ _ _ _ _ E). apply IH; lia.
  Qed.

  Lemma loop_app : forall f h buf more, (length buf < f)%nat ->
    loop (S (length (buf ++ more))) h (buf ++ more) =
      let '(h1, rv, r) := loop f h buf in
      if rv =? NNG_EAGAIN then loop (S (length (r ++ more))) h1 (r ++ more) else (h1, rv, r ++ more).
  Proof.
    induction f as [|f IH]; intros h buf more Hf; [lia|].
    cbn [parse_loop]. rewrite scan_line_split.
    destruct (http_scan_line buf) as [| |line rest] eqn:E.
    - (* incomplete line: the whole buffer is scanned again *)
      cbn [N.eqb Pos.eqb NNG_EAGAIN]. cbn [parse_loop]. reflexivity.
    - reflexivity.
    - destruct line as [|x line]; [reflexivity|].
      pose proof (handle_final h (x :: line)) as HF.
      destruct (handle h (x :: line)) as [h1 rv]. cbn [snd] in HF.
      destruct (rv =? 0) eqn:Z.
      + pose proof (scan_from_shorter _ _ _ _ _ E) as L.
        rewrite (loop_fuel (length (buf ++ more)) (S (length (rest ++ more))) h1 (rest ++ more)).
        * apply IH. lia.
        * rewrite !app_length. lia.
        * lia.
      + replace (rv =? NNG_EAGAIN) with false by (symmetry; apply N.eqb_neq; exact HF). reflexivity.
  Qed.
End LoopProofs.

Lemma parse_header_final isreq h l : snd (parse_header isreq h l) <> NNG_EAGAIN.
Proof. unfold parse_header. destruct (split_at 58 l) as [[k v]|]; cbn; discriminate. Qed.

Lemma handle_req_final keep h l : snd (handle_req keep h l) <> NNG_EAGAIN.
Proof.
  unfold handle_req. destruct (h_parsed h); [|cbn; discriminate].
  pose proof (parse_header_final true h l) as P. destruct (parse_header true h l) as [h1 rv]. cbn [snd] in *.
  destruct keep; [exact P|discriminate].
Qed.

Lemma res_parse_line_final strict h l : snd (res_parse_line strict h l) <> NNG_EAGAIN.
Proof.
  unfold res_parse_line. destruct (split_at 32 l) as [[v r]|]; [|cbn; discriminate].
  destruct (split_at 32 r) as [[c re]|]; [|cbn; discriminate].
  destruct (status_code strict c); [|cbn; discriminate].
  destruct (version_ok v); cbn; discriminate.
Qed.

Lemma handle_res_final strict h l : snd (handle_res strict h l) <> NNG_EAGAIN.
Proof.
  unfold handle_res. destruct (h_parsed h); [apply parse_header_final|].
  pose proof (res_parse_line_final strict h l) as P. destruct (res_parse_line strict h l) as [h2 rv2].
  cbn [snd] in *. exact P.
Qed.

Lemma head_parse_app keep strict isreq h buf more :
  head_parse keep strict isreq h (buf ++ more) =
    let '(h1, rv, r) := head_parse keep strict isreq h buf in
    if rv =? NNG_EAGAIN then head_parse keep strict isreq h1 (r ++ more) else (h1, rv, r ++ more).
Proof.
  unfold head_parse, req_parse, res_parse. destruct isreq.
  - apply loop_app; [apply handle_req_final|lia].
  - apply loop_app; [apply handle_res_final|lia].
Qed.

(* restartability of the head parser as a stream decoder (DESIGN appendix A.3) *)
Lemma http_feed_app keep strict isreq st a b :
  http_feed keep strict isreq st (a ++ b) =
    let '(s1, e1) := http_feed keep strict isreq st a in
    let '(s2, e2) := http_feed keep strict isreq s1 b in (s2, e1 ++ e2).
Proof.
  unfold http_feed at 1 2. destruct (hf_done st) eqn:D.
  - unfold http_feed. cbn [hf_done hf_conn hf_buf]. rewrite app_assoc. reflexivity.
  - rewrite app_assoc, head_parse_app.
    destruct (head_parse keep strict isreq (hf_conn st) (hf_buf st ++ a)) as [[h1 rv] r].
    destruct (rv =? NNG_EAGAIN) eqn:E.
    + unfold http_feed. cbn [hf_done hf_conn hf_buf].
      destruct (head_parse keep strict isreq h1 (r ++ b)) as [[h2 rv2] r2].
      rewrite ?E. destruct (rv2 =? NNG_EAGAIN); reflexivity.
    + unfold http_feed. cbn [hf_done hf_conn hf_buf]. rewrite ?E, app_nil_r. reflexivity.
Qed.

Fixpoint http_feed_all keep strict isreq (st : hfeed) (pieces : list (list byte)) : hfeed * list hevent :=
  match pieces with
  | [] => (st, [])
  | p :: rest => let '(s1, e1) := http_feed keep strict isreq st p in
                 let '(s2, e2) := http_feed_all keep strict isreq s1 rest in (s2, e1 ++ e2)
  end.

Lemma http_feed_all_concat keep strict isreq : forall rest p st,
  http_feed_all keep strict isreq st (p :: rest) = http_feed keep strict isreq st (concat (p :: rest)).
Proof.
  induction rest as [|q rest IH]; intros p st.
  - cbn [http_feed_all concat]. rewrite app_nil_r.
    destruct (http_feed keep strict isreq st p) as [s1 e1]. rewrite app_nil_r. reflexivity.
  - cbn [concat]. rewrite http_feed_app.
    change (http_feed_all keep strict isreq st (p :: q :: rest)) with
      (let '(s1, e1) := http_feed keep strict isreq st p in
       let '(s2, e2) := http_feed_all keep strict isreq s1 (q :: rest) in (s2, e1 ++ e2)).
    destruct (http_feed keep strict isreq st p) as [s1 e1]. rewrite IH. cbn [concat]. reflexivity.
Qed.

(* ---- malformed start lines ---- *)
Lemma split_at_none d l : ~ In d l -> split_at d l = None.
Proof.
  induction l as [|c l IH]; intros H; cbn [split_at]; [reflexivity|].
  destruct (c =? d) eqn:E; [apply N.eqb_eq in E; subst; exfalso; apply H; left; reflexivity|].
  rewrite IH; [reflexivity|]. intros X. apply H. right. exact X.
Qed.

Lemma split_at_some d l a b : split_at d l = Some (a, b) -> l = a ++ d :: b /\ ~ In d a.
Proof.
  revert a b. induction l as [|c l IH]; intros a b H; cbn [split_at] in H; [discriminate|].
  destruct (c =? d) eqn:E.
  - apply N.eqb_eq in E. inversion H; subst. split; [reflexivity|intros []].
  - destruct (split_at d l) as [[a' b']|]; [|discriminate]. inversion H; subst.
    destruct (IH a' b eq_refl) as [-> N]. split; [reflexivity|].
    intros [X|X]; [subst; rewrite N.eqb_refl in E; discriminate|exact (N X)].
Qed.

(* fewer than two spaces: 400, nothing else changes *)
Lemma req_line_no_space h line : get_status h < 400 -> ~ In 32 line ->
  req_parse_line h line = set_code h 400 None.
Proof.
  intros S H. unfold req_parse_line.
  replace (400 <=? get_status h) with false by (symmetry; apply N.leb_gt; exact S).
  rewrite split_at_none by exact H. reflexivity.
Qed.

Lemma split_at_app d a b : ~ In d a -> split_at d (a ++ d :: b) = Some (a, b).
Proof.
  induction a as [|c a IH]; intros Ha; cbn [app split_at].
  - rewrite N.eqb_refl. reflexivity.
  - destruct (c =? d) eqn:E; [apply N.eqb_eq in E; subst; exfalso; apply Ha; left; reflexivity|].
    rewrite IH; [reflexivity|]. intros X. apply Ha. right. exact X.
Qed.

Lemma req_line_one_space h a b : get_status h < 400 -> ~ In 32 a -> ~ In 32 b ->
  req_parse_line h (a ++ 32 :: b) = set_code h 400 None.
Proof.
  intros S Ha Hb. unfold req_parse_line.
  replace (400 <=? get_status h) with false by (symmetry; apply N.leb_gt; exact S).
  rewrite split_at_app by exact Ha. rewrite split_at_none by exact Hb. reflexivity.
Qed.

(* unsupported version with a URI of the modelled domain: 505 *)
Lemma req_line_bad_version h m u v :
  get_status h < 400 -> ~ In 32 m -> ~ In 32 u ->
  canon_simple u = CanonOk u -> version_ok v = false ->
  req_parse_line h (m ++ 32 :: u ++ 32 :: v) = set_code h 505 None.
Proof.
  intros S Hm Hu C V. unfold req_parse_line.
  replace (400 <=? get_status h) with false by (symmetry; apply N.leb_gt; exact S).
  rewrite split_at_app by exact Hm. rewrite split_at_app by exact Hu. rewrite C, V. reflexivity.
Qed.

(* a failed request line is never delivered as a valid request: the status stays >= 400 through the headers *)
Lemma add_header_code isreq h k v : h_code (add_header isreq h k v) = h_code h.
Proof. unfold add_header. repeat match goal with |- context [if ?c then _ else _] => destruct c end; reflexivity. Qed.
Lemma parse_header_code isreq h l : h_code (fst (parse_header isreq h l)) = h_code h.
Proof. unfold parse_header. destruct (split_at 58 l) as [[k v]|]; cbn [fst]; [apply add_header_code|reflexivity]. Qed.

(* status line: without two spaces, or with a bad code: EPROTO and no change *)
Lemma res_line_no_space strict h line : ~ In 32 line -> res_parse_line strict h line = (h, NNG_EPROTO).
Proof. intros H. unfold res_parse_line. rewrite split_at_none by exact H. reflexivity. Qed.

Lemma res_line_bad_code strict h v c r : ~ In 32 v -> ~ In 32 c ->
  status_code strict c = None -> res_parse_line strict h (v ++ 32 :: c ++ 32 :: r) = (h, NNG_EPROTO).
Proof.
  intros Hv Hc A. unfold res_parse_line. rewrite split_at_app by exact Hv. rewrite split_at_app by exact Hc.
  rewrite A. reflexivity.
Qed.

(* the repaired text: an accepted status line is  version SP 3DIGIT SP reason, first digit 1-9 *)
Lemma res_line_strict_shape h line h' : res_parse_line true h line = (h', 0) ->
  exists v a b c reason, line = v ++ 32 :: [a; b; c] ++ 32 :: reason /\ version_ok v = true /\
    49 <= a <= 57 /\ 48 <= b <= 57 /\ 48 <= c <= 57 /\
    h_code h' = (a - 48) * 100 + (b - 48) * 10 + (c - 48) /\ 100 <= h_code h' <= 999.
Proof.
  unfold res_parse_line. destruct (split_at 32 line) as [[v r1]|] eqn:E1; [|discriminate].
  destruct (split_at 32 r1) as [[cs reason]|] eqn:E2; [|discriminate].
  destruct (status_code true cs) as [st|] eqn:SC; [|discriminate].
  destruct (version_ok v) eqn:V; [|discriminate].
  intros H. inversion H; subst h'; clear H. cbn [h_code set_code].
  unfold status_code in SC. destruct cs as [|a [|b [|c [|d cs]]]]; try discriminate.
  destruct ((49 <=? a) && (a <=? 57) && is_digit b && is_digit c) eqn:G; [|discriminate].
  inversion SC; subst st; clear SC.
  apply andb_true_iff in G. destruct G as [G Gc]. apply andb_true_iff in G. destruct G as [G Gb].
  apply andb_true_iff in G. destruct G as [Ga1 Ga2].
  unfold is_digit in Gb, Gc. apply andb_true_iff in Gb, Gc. destruct Gb as [Gb1 Gb2]. destruct Gc as [Gc1 Gc2].
  apply N.leb_le in Ga1, Ga2, Gb1, Gb2, Gc1, Gc2.
  destruct (split_at_some _ _ _ _ E1) as [-> _]. destruct (split_at_some _ _ _ _ E2) as [-> _].
  exists v, a, b, c, reason. repeat split; auto; lia.
Qed.

(* a header line without a colon *)
Lemma header_no_colon isreq h line : ~ In 58 line -> parse_header isreq h line = (h, NNG_EPROTO).
Proof. intros H. unfold parse_header. rewrite split_at_none by exact H. reflexivity. Qed.

(* the repaired request parser: such a line ends the parse with EPROTO, wherever it stands *)
Lemma req_nocolon_stops f h buf line rest :
  http_scan_line buf = SLine line rest -> line <> [] -> h_parsed h = true -> ~ In 58 line ->
  parse_loop (handle_req true) (fun h => set_parsed h false) (S f) h buf = (set_parsed h false, NNG_EPROTO, rest).
Proof.
  intros E Hl Hp Hc. cbn [parse_loop]. rewrite E. destruct line as [|x line]; [congruence|].
  unfold handle_req. rewrite Hp, header_no_colon by exact Hc. reflexivity.
Qed.

(* the text pinned at e917035 dropped it silently *)
Definition req_nocolon_witness : list byte :=
  [71;69;84;32;47;32;72;84;84;80;47;49;46;49;13;10; 66;97;100;13;10; 13;10].   (* "GET / HTTP/1.1\r\nBad\r\n\r\n" *)
Lemma req_header_nocolon_pinned :
  let '(h, rv, rest) := req_parse false hconn_init req_nocolon_witness in
  rv = 0 /\ get_status h = 200 /\ h_hdrs h = [] /\ rest = [].
Proof. vm_compute. repeat split. Qed.
Lemma req_header_nocolon_fixed :
  let '(h, rv, rest) := req_parse true hconn_init req_nocolon_witness in rv = NNG_EPROTO /\ rest = [13; 10].
Proof. vm_compute. repeat split. Qed.

Definition res_nocolon_witness : list byte :=
  [72;84;84;80;47;49;46;49;32;50;48;48;32;79;75;13;10; 66;97;100;13;10; 13;10].  (* "HTTP/1.1 200 OK\r\nBad\r\n\r\n" *)
Lemma res_header_nocolon_rejected strict :
  let '(h, rv, rest) := res_parse strict hconn_init res_nocolon_witness in rv = NNG_EPROTO.
Proof. destruct strict; vm_compute; reflexivity. Qed.

(* the status code read with atoi: "200x" was taken for 200 *)
Definition res_200x_witness : list byte :=
  [72;84;84;80;47;49;46;49;32;50;48;48;120;32;79;75;13;10;13;10].               (* "HTTP/1.1 200x OK\r\n\r\n" *)
Lemma res_status_200x_pinned :
  let '(h, rv, rest) := res_parse false hconn_init res_200x_witness in rv = 0 /\ get_status h = 200.
Proof. vm_compute. split; reflexivity. Qed.
Lemma res_status_200x_fixed :
  let '(h, rv, rest) := res_parse true hconn_init res_200x_witness in rv = NNG_EPROTO.
Proof. vm_compute. reflexivity. Qed.
