(* B64Model: executable model of src/supplemental/websocket/base64.c
   (nni_base64_encode / nni_base64_decode), with the 32-bit accumulator and the
   output-capacity tests.  Definitions only.
   Input bytes >= 0x80 of nni_base64_decode index the table with a negative
   number in the C (plain char is signed here; UBSan reports it); the model
   treats them as invalid characters (end of input), and the harness does
   not generate them. *)
From Coq Require Import List Arith Lia Bool NArith.
From NngV Require Import Base.ListX Base.Bytes.
Import ListNotations.
Local Open Scope N_scope.

Definition U32 : N := 4294967296.

(* encode[]: "A-Za-z0-9+/" *)
Definition b64_char (i : N) : byte :=
  if i <? 26 then 65 + i
  else if i <? 52 then 97 + (i - 26)
  else if i <? 62 then 48 + (i - 52)
  else if i =? 62 then 43
  else 47.

(* decode[]: 0xFF = not a base64 character ('=' is tested before the lookup;
   its table entry is 0x3E) *)
Definition b64_val (c : byte) : N :=
  if (65 <=? c) && (c <=? 90) then c - 65
  else if (97 <=? c) && (c <=? 122) then c - 97 + 26
  else if (48 <=? c) && (c <=? 57) then c - 48 + 52
  else if c =? 43 then 62
  else if c =? 47 then 63
  else if c =? 61 then 62
  else 255.

Definition is_space (c : byte) : bool := (c =? 32) || ((9 <=? c) && (c <=? 13)).

(* while (rem >= 6) { rem -= 6; out[io++] = encode[(v >> rem) & 63]; }  --
   rem is 8, 10, 12 or 14 here: one or two rounds *)
Definition enc_emit (v rem : N) : list byte * N :=
  if 12 <=? rem then
    ([b64_char (N.land (N.shiftr v (rem - 6)) 63); b64_char (N.land (N.shiftr v (rem - 12)) 63)], rem - 12)
  else if 6 <=? rem then ([b64_char (N.land (N.shiftr v (rem - 6)) 63)], rem - 6)
  else ([], rem).

Fixpoint enc_loop (l : list byte) (v rem : N) : list byte * N * N :=
  match l with
  | [] => ([], v, rem)
  | ch :: r =>
      let v1 := N.lor (N.shiftl v 8 mod U32) ch in
      let '(o, rem1) := enc_emit v1 (rem + 8) in
      let '(o2, v2, rem2) := enc_loop r v1 rem1 in
      (o ++ o2, v2, rem2)
  end.

(* pad to a multiple of four *)
Definition pad_count (n : nat) : nat := Nat.modulo (4 - Nat.modulo n 4) 4.

Definition b64_encode_all (l : list byte) : list byte :=
  let '(o, v, rem) := enc_loop l 0 0 in
  let o1 := if rem =? 0 then o
            else o ++ [b64_char (N.land (N.shiftl v (6 - rem) mod U32) 63)] in
  o1 ++ repeat 61 (pad_count (length o1)).

(* nni_base64_encode: (size_t)-1 when the output and its NUL do not fit *)
Definition b64_encode (l : list byte) (cap : N) : option (list byte) :=
  let o := b64_encode_all l in
  if N.of_nat (length o) <? cap then Some o else None.

Fixpoint dec_loop (l : list byte) (v rem : N) : list byte :=
  match l with
  | [] => []
  | c :: r =>
      if is_space c then dec_loop r v rem
      else if c =? 61 then []
      else if 128 <=? c then []
      else
        let ch := b64_val c in
        if ch =? 255 then []
        else
          let v1 := N.lor (N.shiftl v 6 mod U32) ch in
          let rem1 := rem + 6 in
          if 8 <=? rem1 then N.land (N.shiftr v1 (rem1 - 8)) 255 :: dec_loop r v1 (rem1 - 8)
          else dec_loop r v1 rem1
  end.
Definition b64_decode_all (l : list byte) : list byte := dec_loop l 0 0.

(* nni_base64_decode: (size_t)-1 when the output does not fit *)
Definition b64_decode (l : list byte) (cap : N) : option (list byte) :=
  let o := b64_decode_all l in
  if N.of_nat (length o) <=? cap then Some o else None.
