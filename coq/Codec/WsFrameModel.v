(* WsFrameModel: executable model of the frame layer of
   src/supplemental/websocket/websocket.c -- ws_frame_prep_tx (header
   encoding 7 / 7+16 / 7+64 bits), ws_msg_init_control, ws_mask_frame /
   ws_unmask_frame / ws_apply_mask (bytewise, and the 16/8/4/1 stride loop),
   and the header part of ws_read_cb.  Definitions only. *)
From Coq Require Import List Arith Lia Bool NArith.
From NngV Require Import Base.ListX Base.Bytes.
Import ListNotations.
Local Open Scope N_scope.

(* enum ws_type *)
Definition WS_CONT : N := 0.
Definition WS_TEXT : N := 1.
Definition WS_BINARY : N := 2.
Definition WS_CLOSE : N := 8.
Definition WS_PING : N := 9.
Definition WS_PONG : N := 10.
(* enum ws_reason *)
Definition WS_CLOSE_NORMAL_CLOSE : N := 1000.
Definition WS_CLOSE_PROTOCOL_ERR : N := 1002.
Definition WS_CLOSE_UNSUPP_FORMAT : N := 1003.
Definition WS_CLOSE_TOO_BIG : N := 1009.
Definition WS_CLOSE_INTERNAL : N := 1011.
(* defaults of the listener / dialer objects *)
Definition DEF_RECVMAX : N := 1048576.
Definition DEF_MAXRXFRAME : N := 1048576.
Definition DEF_MAXTXFRAME : N := 65536.
Definition WS_INIT_FRAGSIZE : N := 1048576.   (* ws_init: ws->fragsize = 1 << 20 *)

(* ---- masking ---- *)
(* buf[i] ^= mask[i % 4], the index counted from [i]; the counter is kept
   reduced modulo 4 (it is a unary number in the extracted code) *)
Fixpoint mask_from (i : nat) (key : list byte) (l : list byte) : list byte :=
  match l with
  | [] => []
  | b :: r => N.lxor b (nth (Nat.modulo i 4) key 0) :: mask_from (Nat.modulo (S i) 4) key r
  end.
Definition mask_bytes (key l : list byte) : list byte := mask_from 0 key l.

(* ws_apply_mask as written: whole 16-byte words (SSE2/NEON), then 8-byte
   words, then 4-byte words, each xored with the key repeated; then the
   tail bytes with mask[i], i counted from 0 *)
Definition xor_word (w : nat) (key : list byte) (l : list byte) : list byte :=
  mask_from 0 key (firstn w l).
Fixpoint stride (fuel w : nat) (key l : list byte) : list byte * list byte :=
  match fuel with
  | O => ([], l)
  | S f => if (w <=? length l)%nat
           then let '(d, r) := stride f w key (skipn w l) in (xor_word w key l ++ d, r)
           else ([], l)
  end.
Definition mask_strided (key l : list byte) : list byte :=
  let '(d16, r16) := stride (length l) 16 key l in
  let '(d8, r8) := stride (length r16) 8 key r16 in
  let '(d4, r4) := stride (length r8) 4 key r8 in
  d16 ++ d8 ++ d4 ++ mask_from 0 key r4.

(* ---- header encoding (ws_frame_prep_tx / ws_msg_init_control) ---- *)
Definition ws_hdr (op : N) (final : bool) (len : N) : list byte :=
  let b0 := if final then N.lor op 128 else op in
  if len <? 126 then [b0; N.land len 127]
  else if len <? 65536 then b0 :: 126 :: be_enc 2 (N.land len 65535)
  else b0 :: 127 :: be_enc 8 len.

(* ws_mask_frame: head[1] |= 0x80, the key appended to the header *)
Definition set_mask_bit (h : list byte) : list byte :=
  match h with
  | b0 :: b1 :: ext => b0 :: N.lor b1 128 :: ext
  | _ => h
  end.

(* the bytes of one frame on the wire.  [server]: the sender is a server (no
   mask); otherwise masked with [key] *)
Definition ws_encode (server : bool) (key : list byte) (op : N) (final : bool) (payload : list byte)
  : list byte :=
  let h := ws_hdr op final (N.of_nat (length payload)) in
  if server then h ++ payload
  else set_mask_bit h ++ firstn 4 key ++ mask_bytes key payload.

(* ws_msg_init_control: EINVAL (no frame) above 125 bytes *)
Definition ws_encode_control (server : bool) (key : list byte) (op : N) (payload : list byte)
  : option (list byte) :=
  if 125 <? N.of_nat (length payload) then None
  else Some (ws_encode server key op true payload).

(* ---- header decoding (first part of ws_read_cb) ---- *)
Definition hd_op (h0 : byte) : N := N.land h0 127.          (* head[0] & 0x7f: RSV bits included *)
Definition hd_final (h0 : byte) : bool := negb (N.land h0 128 =? 0).
Definition hd_masked (h1 : byte) : bool := negb (N.land h1 128 =? 0).
Definition hd_len7 (h1 : byte) : N := N.land h1 127.
(* frame->hlen *)
Definition hd_hlen (h1 : byte) : N :=
  2 + (if hd_masked h1 then 4 else 0)
    + (if hd_len7 h1 =? 127 then 8 else if hd_len7 h1 =? 126 then 2 else 0).

(* the payload length announced by a complete header, and whether its
   encoding is the minimal one (the two ws_close(PROTOCOL_ERR) tests) *)
Definition hd_len (h1 : byte) (ext : list byte) : N * bool :=
  let l7 := hd_len7 h1 in
  if l7 =? 127 then let v := be_dec (firstn 8 ext) in (v, negb (v <? 65536))
  else if l7 =? 126 then let v := be_dec (firstn 2 ext) in (v, negb (v <? 126))
  else (l7, true).
(* memcpy(frame->mask, frame->head + frame->hlen - 4, 4) *)
Definition hd_key (h1 : byte) (ext : list byte) : list byte :=
  skipn (length ext - 4) ext.
