(* ChunkedProofs: lemmas about the chunked-transfer decoder model (C16). *)
From Coq Require Import List Arith Lia Bool NArith ZArith.
From NngV Require Import Base.ListX Base.Bytes Codec.ChunkedModel Codec.CodecSpec.
Import ListNotations.
Local Open Scope N_scope.

Ltac Zify.zify_post_hook ::= Z.div_mod_to_equations.

Ltac split_ifs :=
  repeat match goal with
         | |- context [if ?c then _ else _] => destruct c eqn:?
         end.

(* ---- return codes: never EAGAIN from a single step ---- *)
Definition rv_final (rv : N) : Prop := rv = 0 \/ rv = NNG_ENOMEM \/ rv = NNG_EPROTO \/ rv = NNG_EMSGSIZE.

Lemma ingest_char_rv cl c : rv_final (snd (ingest_char cl c)).
Proof.
  unfold rv_final, ingest_char, ingest_len, ingest_ext, ingest_newline, ingest_trailer, ingest_trailercr.
  destruct (cl_state cl); split_ifs; cbn [snd]; auto.
Qed.

Lemma ingest_data_rv cl buf : rv_final (snd (fst (ingest_data cl buf))).
Proof.
  unfold rv_final, ingest_data. destruct (rev (cl_chunks cl)); split_ifs; cbn [fst snd]; auto.
Qed.

Lemma cstep_rv cl c : rv_final (snd (fst (cstep cl c))).
Proof.
  unfold cstep. destruct (is_data cl).
  - pose proof (ingest_data_rv cl [c]) as H. destruct (ingest_data cl [c]) as [[a b] d]. exact H.
  - pose proof (ingest_char_rv cl c) as H. destruct (ingest_char cl c) as [a b]. exact H.
Qed.

Lemma rv_final_not_eagain rv : rv_final rv -> (rv =? NNG_EAGAIN) = false.
Proof. intros [-> | [-> | [-> | ->]]]; reflexivity. Qed.

(* ---- the parse loop over a concatenation ---- *)
Lemma chunks_loop_app : forall a cl b used,
  chunks_loop cl (a ++ b) used =
    let '(cl1, rv, u1) := chunks_loop cl a used in
    if rv =? NNG_EAGAIN then chunks_loop cl1 b u1 else (cl1, rv, u1).
Proof.
  induction a as [|c a IH]; intros cl b used.
  - cbn [app chunks_loop]. destruct (is_done cl) eqn:D.
    + destruct b; cbn [chunks_loop]; rewrite D; reflexivity.
    + cbn. reflexivity.
  - cbn [app chunks_loop]. destruct (is_done cl) eqn:D; [reflexivity|].
    pose proof (cstep_rv cl c) as R.
    destruct (cstep cl c) as [[cl' rv] counted]. cbn [fst snd] in R.
    destruct (rv =? 0) eqn:Z.
    + apply IH.
    + rewrite (rv_final_not_eagain rv R). reflexivity.
Qed.

Lemma chunks_loop_shift : forall buf cl used,
  chunks_loop cl buf used = let '(c, r, n) := chunks_loop cl buf 0%nat in (c, r, (used + n)%nat).
Proof.
  induction buf as [|c buf IH]; intros cl used; cbn [chunks_loop].
  - destruct (is_done cl); rewrite Nat.add_0_r; reflexivity.
  - destruct (is_done cl); [rewrite Nat.add_0_r; reflexivity|].
    destruct (cstep cl c) as [[cl' rv] counted].
    destruct (rv =? 0).
    + rewrite (IH cl' (S used)), (IH cl' 1%nat).
      destruct (chunks_loop cl' buf 0) as [[c0 r0] n0]. f_equal. lia.
    + destruct counted; f_equal; lia.
Qed.

Lemma chunks_loop_used : forall buf cl used c r n,
  chunks_loop cl buf used = (c, r, n) ->
  (used <= n <= used + length buf)%nat /\ (r = NNG_EAGAIN -> n = (used + length buf)%nat /\ is_done c = false).
Proof.
  induction buf as [|x buf IH]; intros cl used c r n H; cbn [chunks_loop] in H.
  - destruct (is_done cl) eqn:D; inversion H; subst; cbn [length]; split; try lia.
    + discriminate.
    + intros _. split; [lia|exact D].
  - destruct (is_done cl) eqn:D.
    { inversion H; subst. cbn [length]. split; [lia|discriminate]. }
    pose proof (cstep_rv cl x) as R.
    destruct (cstep cl x) as [[cl' rv] counted]. cbn [fst snd] in R.
    destruct (rv =? 0) eqn:Z.
    + destruct (IH _ _ _ _ _ H) as [A B]. cbn [length]. split; [lia|].
      intros E. destruct (B E). split; [lia|assumption].
    + inversion H; subst. cbn [length]. split; [destruct counted; lia|].
      intros E. rewrite E in R. destruct R as [R|[R|[R|R]]]; discriminate.
Qed.

(* restartability of the stream decoder (DESIGN appendix A.3) *)
Lemma chunk_feed_app st a b :
  chunk_feed st (a ++ b) =
    let '(s1, e1) := chunk_feed st a in let '(s2, e2) := chunk_feed s1 b in (s2, e1 ++ e2).
Proof.
  unfold chunk_feed at 1 2. destruct (f_status st) eqn:S.
  - unfold chunks_parse. rewrite chunks_loop_app.
    destruct (chunks_loop (f_cl st) a 0) as [[cl1 rv] u1] eqn:LA.
    destruct (chunks_loop_used _ _ _ _ _ _ LA) as [Hu He].
    destruct (rv =? NNG_EAGAIN) eqn:E.
    + apply N.eqb_eq in E. destruct (He E) as [Hn _]. cbn [Nat.add] in Hn.
      unfold chunk_feed. cbn [f_status f_cl]. unfold chunks_parse.
      rewrite (chunks_loop_shift b cl1 u1).
      destruct (chunks_loop cl1 b 0) as [[c2 r2] n2].
      destruct (r2 =? NNG_EAGAIN); [reflexivity|].
      destruct (r2 =? 0); [|reflexivity].
      rewrite Hn. rewrite skipn_app_ge by lia. replace (length a + n2 - length a)%nat with n2 by lia. reflexivity.
    + destruct (rv =? 0) eqn:Z.
      * unfold chunk_feed. cbn [f_status f_cl f_left]. rewrite ?E, ?Z.
        rewrite skipn_app. replace (u1 - length a)%nat with 0%nat by lia. cbn [skipn]. rewrite app_nil_r. reflexivity.
      * unfold chunk_feed. cbn [f_status]. rewrite ?E, ?Z. reflexivity.
  - unfold chunk_feed. cbn [f_status f_cl f_left]. rewrite app_assoc. reflexivity.
  - unfold chunk_feed. rewrite S. reflexivity.
Qed.

(* ---- chunk size: hex value, no wrap ---- *)
Lemma hex_digit_classes c d : hex_digit c = Some d ->
  (is_digit c = true /\ d = c - 48) \/ (is_digit c = false /\ is_upper_hex c = true /\ d = c - 65 + 10) \/
  (is_digit c = false /\ is_upper_hex c = false /\ is_lower_hex c = true /\ d = c - 97 + 10).
Proof.
  unfold hex_digit, is_digit, is_upper_hex, is_lower_hex.
  destruct ((48 <=? c) && (c <=? 57)) eqn:A.
  - intros H; inversion H. left. auto.
  - destruct ((65 <=? c) && (c <=? 70)) eqn:B.
    + intros H; inversion H. right; left. repeat split; auto.
      apply andb_true_iff in B. destruct B as [B1 B2]. apply N.leb_le in B1. lia.
    + destruct ((97 <=? c) && (c <=? 102)) eqn:C; [|discriminate].
      intros H; inversion H. right; right. repeat split; auto.
      apply andb_true_iff in C. destruct C as [C1 C2]. apply N.leb_le in C1. lia.
Qed.

Lemma ingest_len_digit cl c d : hex_digit c = Some d -> d < 16 ->
  if SIZE_MAX <? cl_size cl * 16 + d
  then ingest_len cl c = (cl, NNG_EMSGSIZE)
  else exists cl', ingest_len cl c = (cl', 0) /\ cl_size cl' = cl_size cl * 16 + d /\
                   cl_total cl' = cl_total cl /\ cl_maxsz cl' = cl_maxsz cl /\ cl_state cl' = cl_state cl.
Proof.
  intros H Hd.
  assert (K: ingest_len cl c =
             if (SIZE_MAX - d) / 16 <? cl_size cl then (cl, NNG_EMSGSIZE)
             else (mkChunks (cl_chunks cl) (cl_maxsz cl) (cl_total cl)
                     ((cl_size cl * 16 + d) mod (SIZE_MAX + 1)) (cl_line cl) (cl_state cl) (cl_allocmax cl), 0)).
  { unfold ingest_len. destruct (hex_digit_classes c d H) as [(A & ->) | [(A & B & ->) | (A & B & C & ->)]];
      rewrite ?A, ?B, ?C; reflexivity. }
  rewrite K. unfold SIZE_MAX in *.
  destruct (18446744073709551615 <? cl_size cl * 16 + d) eqn:E.
  - apply N.ltb_lt in E.
    replace ((18446744073709551615 - d) / 16 <? cl_size cl) with true; [reflexivity|].
    symmetry. apply N.ltb_lt.
    lia.
  - apply N.ltb_ge in E.
    replace ((18446744073709551615 - d) / 16 <? cl_size cl) with false.
    + eexists. split; [reflexivity|]. cbn. repeat split. apply N.mod_small. lia.
    + symmetry. apply N.ltb_ge. lia.
Qed.

(* a new chunk is letin only within the limits, and the total does not wrap *)
Lemma ingest_newline_limits cl cl' : ingest_newline cl 10 = (cl', 0) -> cl_size cl <> 0 ->
  cl_total cl' = cl_total cl + cl_size cl /\ cl_total cl + cl_size cl <= SIZE_MAX /\ cl_size cl + 2 <= SIZE_MAX /\
  (0 < cl_maxsz cl -> cl_total cl' <= cl_maxsz cl) /\ cl_maxsz cl' = cl_maxsz cl /\ cl_state cl' = CS_DATA.
Proof.
  unfold ingest_newline. cbn [N.eqb Pos.eqb negb]. intros H Hz.
  replace (cl_size cl =? 0) with false in H by (symmetry; apply N.eqb_neq; exact Hz).
  destruct ((SIZE_MAX - 2 <? cl_size cl) || (SIZE_MAX - cl_total cl <? cl_size cl) ||
            ((0 <? cl_maxsz cl) && ((cl_maxsz cl <? cl_total cl) || (cl_maxsz cl - cl_total cl <? cl_size cl)))) eqn:G;
    [discriminate|].
  destruct (cl_allocmax cl <? cl_size cl + 2); [discriminate|].
  inversion H; subst; clear H. cbn [cl_total cl_maxsz cl_state].
  apply orb_false_iff in G. destruct G as [G G3]. apply orb_false_iff in G. destruct G as [G1 G2].
  apply N.ltb_ge in G1, G2. unfold SIZE_MAX in *.
  assert (W: cl_total cl + cl_size cl <= 18446744073709551615) by lia.
  rewrite N.mod_small by lia.
  repeat split; try lia.
  intros Hm. apply N.ltb_lt in Hm. rewrite Hm in G3. cbn [andb] in G3.
  apply orb_false_iff in G3. destruct G3 as [G4 G5]. apply N.ltb_ge in G4, G5. lia.
Qed.

(* the total of the letin chunks never exceeds the configured maximum *)
Definition total_ok (cl : chunks) : Prop := cl_maxsz cl = 0 \/ cl_total cl <= cl_maxsz cl.

Lemma ingest_char_total cl c cl' rv : ingest_char cl c = (cl', rv) -> total_ok cl ->
  total_ok cl' /\ cl_maxsz cl' = cl_maxsz cl.
Proof.
  unfold total_ok. intros H T.
  destruct (cl_state cl) eqn:S; unfold ingest_char in H; rewrite S in H.
  all: try (inversion H; subst; auto; fail).
  - unfold ingest_len in H. revert H. split_ifs; intros H; inversion H; subst; cbn; auto.
  - unfold ingest_len in H. revert H. split_ifs; intros H; inversion H; subst; cbn; auto.
  - unfold ingest_ext in H. revert H. split_ifs; intros H; inversion H; subst; cbn; auto.
  - destruct (negb (c =? 10)) eqn:C.
    + unfold ingest_newline in H. rewrite C in H. inversion H; subst; auto.
    + apply negb_false_iff, N.eqb_eq in C. subst c.
      destruct (cl_size cl =? 0) eqn:Z.
      * unfold ingest_newline in H. cbn [N.eqb Pos.eqb negb] in H. rewrite Z in H. inversion H; subst; cbn; auto.
      * destruct (rv =? 0) eqn:R.
        -- apply N.eqb_eq in R. subst rv. apply N.eqb_neq in Z.
           destruct (ingest_newline_limits cl cl' H Z) as (A & B & C & D & E & F).
           rewrite E. split; [|reflexivity].
           destruct (N.eq_dec (cl_maxsz cl) 0); [left; assumption|right; apply D; lia].
        -- unfold ingest_newline in H. cbn [N.eqb Pos.eqb negb] in H. rewrite Z in H.
           revert H. split_ifs; intros H; inversion H; subst; auto. discriminate.
  - unfold ingest_trailer in H. revert H. split_ifs; intros H; inversion H; subst; cbn; auto.
  - unfold ingest_trailercr in H. revert H. split_ifs; intros H; inversion H; subst; cbn; auto.
Qed.

Lemma ingest_data_total cl buf cl' rv k : ingest_data cl buf = (cl', rv, k) -> total_ok cl ->
  total_ok cl' /\ cl_maxsz cl' = cl_maxsz cl.
Proof.
  unfold total_ok, ingest_data. destruct (rev (cl_chunks cl)).
  - intros H; inversion H; subst; auto.
  - split_ifs; intros H; inversion H; subst; cbn; auto.
Qed.

Lemma chunks_loop_total : forall buf cl used c r n,
  chunks_loop cl buf used = (c, r, n) -> total_ok cl -> total_ok c.
Proof.
  induction buf as [|x buf IH]; intros cl used c r n H T; cbn [chunks_loop] in H.
  - destruct (is_done cl); inversion H; subst; exact T.
  - destruct (is_done cl); [inversion H; subst; exact T|].
    unfold cstep in H. destruct (is_data cl).
    + destruct (ingest_data cl [x]) as [[cl' rv] k] eqn:D.
      destruct (ingest_data_total _ _ _ _ _ D T) as [T' _].
      destruct (rv =? 0); [eapply IH; eauto|inversion H; subst; exact T'].
    + destruct (ingest_char cl x) as [cl' rv] eqn:D.
      destruct (ingest_char_total _ _ _ _ D T) as [T' _].
      destruct (rv =? 0); [eapply IH; eauto|inversion H; subst; exact T'].
Qed.
