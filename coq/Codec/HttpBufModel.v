(* HttpBufModel: executable model of the read-buffer policy of http_rd_buf /
   http_rd_cb (src/supplemental/http/http_conn.c) for the flavors HTTP_RD_REQ
   and HTTP_RD_RES: a buffer of bufsz bytes; each physical read appends at most
   bufsz - rd_put bytes at rd_put; the head parser runs on [rd_get, rd_put) and
   consumes the complete lines; on NNG_EAGAIN the rest is pulled up to the front
   (http_buf_pull_up) and, if it then fills the whole buffer -- one line that
   does not fit --, a request is marked 431 / 414 and the buffer replaced by
   the placeholder "NNG-DISCARD: X", a response fails with NNG_EMSGSIZE.
   Definitions only. *)
From Coq Require Import List Arith Lia Bool NArith.
From NngV Require Import Base.ListX Base.Bytes Codec.ChunkedModel Codec.HttpLineModel.
Import ListNotations.
Local Open Scope N_scope.

Definition DISCARD_HDR : list byte := [78;78;71;45;68;73;83;67;65;82;68;58;32;88].   (* "NNG-DISCARD: X" *)
Definition STATUS_HEADERS_TOO_LARGE : N := 431.
Definition STATUS_URI_TOO_LONG : N := 414.

(* rd_data = buf[rd_get .. rd_put) *)
Record rdconn := mkRD { rd_conn : hconn; rd_get : nat; rd_data : list byte; rd_done : bool }.
Definition rd_put (r : rdconn) : nat := (rd_get r + length (rd_data r))%nat.
Definition rd_init : rdconn := mkRD hconn_init 0 [] false.

(* One completion of the physical read with [chunk] stored at rd_put
   (http_rd_cb: rd_put += cnt), then http_rd_start -> http_rd_buf.
   [pull_first] = true is the code as it is: pull up, then test for a full
   buffer; false is the order "test, then pull up" (the test then fires
   whenever a read reaches the end of the buffer). *)
Definition rd_step (pull_first keep strict isreq : bool) (bufsz : nat) (r : rdconn) (chunk : list byte)
  : rdconn * list hevent :=
  let data := rd_data r ++ chunk in
  let '(h1, rv, rest) := head_parse keep strict isreq (rd_conn r) data in
  let n := (length data - length rest)%nat in
  (* rd_get += n; if (rd_get == rd_put) rd_get = rd_put = 0 *)
  let get1 := match rest with [] => 0%nat | _ => (rd_get r + n)%nat end in
  if rv =? NNG_EAGAIN then
    let full := if pull_first then (length rest =? bufsz)%nat else (get1 + length rest =? bufsz)%nat in
    if isreq then
      if full then
        (mkRD (set_code h1 (if h_parsed h1 then STATUS_HEADERS_TOO_LARGE else STATUS_URI_TOO_LONG) None)
              0 DISCARD_HDR false, [])
      else (mkRD h1 0 rest false, [])
    else
      (* HTTP_RD_RES: pull up; no room left: NNG_EMSGSIZE *)
      if (length rest =? bufsz)%nat then (mkRD h1 0 rest true, [HDone NNG_EMSGSIZE h1])
      else (mkRD h1 0 rest false, [])
  else (mkRD h1 get1 rest true, [HDone rv h1]).

(* the bytes of one TCP segment: as many reads as needed, each limited by the room left *)
Fixpoint rd_feed_piece (fuel : nat) (pull_first keep strict isreq : bool) (bufsz : nat) (r : rdconn)
    (piece : list byte) : rdconn * list hevent :=
  match fuel with
  | O => (r, [])
  | S f =>
      if rd_done r then (r, [])
      else match piece with
           | [] => (r, [])
           | _ =>
               let k := Nat.min (bufsz - rd_put r) (length piece) in
               let '(r1, e1) := rd_step pull_first keep strict isreq bufsz r (firstn k piece) in
               let '(r2, e2) := rd_feed_piece f pull_first keep strict isreq bufsz r1 (skipn k piece) in
               (r2, e1 ++ e2)
           end
  end.

Fixpoint rd_feed_all (pull_first keep strict isreq : bool) (bufsz : nat) (r : rdconn)
    (pieces : list (list byte)) : rdconn * list hevent :=
  match pieces with
  | [] => (r, [])
  | p :: rest =>
      let '(r1, e1) := rd_feed_piece (S (length p)) pull_first keep strict isreq bufsz r p in
      let '(r2, e2) := rd_feed_all pull_first keep strict isreq bufsz r1 rest in
      (r2, e1 ++ e2)
  end.

(* no stretch of [bound] bytes without a line feed: every line, with its terminator, fits the buffer *)
Definition lines_fit (bound : nat) (s : list byte) : Prop :=
  forall a m b, s = a ++ m ++ b -> ~ In 10 m -> (length m < bound)%nat.
