(* IovProofs: nni_aio_iov_advance / nni_aio_iov_count against their list
   specification, and the send loop (every sequence of accepted counts hands
   exactly the denoted bytes to the stream). *)
From Coq Require Import List Arith Lia Bool NArith.
From NngV Require Import Base.ListX Codec.IovModel.
Import ListNotations.
Local Open Scope N_scope.

Definition WF (a : aiov) : Prop := length (a_iov a) = MAX_IOV /\ (a_nio a <= MAX_IOV)%nat.

Fixpoint total (l : list iov) : N :=
  match l with [] => 0 | e :: r => iv_len e + total r end.

(* the specification of nni_aio_iov_advance on the live part of the vector *)
Fixpoint drop_iov (n : N) (l : list iov) : list iov :=
  match l with
  | [] => []
  | e :: r =>
      if n =? 0 then l
      else if n <? iv_len e then mkIov (option_map (N.add n) (iv_ptr e)) (iv_len e - n) :: r
      else drop_iov (n - iv_len e) r
  end.

Lemma drop_iov_0 l : drop_iov 0 l = l.
Proof. destruct l; reflexivity. Qed.

(* ---- array primitives ---- *)
Lemma arr_set_spec : forall l i v, (i < length l)%nat ->
  arr_set l i v = Some (firstn i l ++ v :: skipn (S i) l).
Proof.
  induction l as [|x l IH]; intros i v H; simpl in H; [lia|].
  destruct i as [|i]; [reflexivity|].
  cbn [arr_set]. rewrite IH by lia. reflexivity.
Qed.

Lemma arr_set_None : forall l i v, (length l <= i)%nat -> arr_set l i v = None.
Proof.
  induction l as [|x l IH]; intros i v H; [destruct i; reflexivity|].
  simpl in H. destruct i as [|i]; [lia|]. cbn [arr_set]. rewrite IH by lia. reflexivity.
Qed.

Lemma set_len (l : list iov) i v : (i < length l)%nat ->
  length (firstn i l ++ v :: skipn (S i) l) = length l.
Proof.
  intros H. rewrite app_length, firstn_length. cbn [length]. rewrite skipn_length. lia.
Qed.

Lemma arr_get_spec (l : list iov) i d : (i < length l)%nat -> arr_get l i = Some (nth i l d).
Proof. intros H. unfold arr_get. apply nth_error_nth'. exact H. Qed.

Lemma nth_skipn' {A} (l : list A) a i d : nth i (skipn a l) d = nth (a + i) l d.
Proof.
  revert l; induction a as [|a IH]; intros l; [reflexivity|].
  destruct l as [|x l]; [destruct i; reflexivity|]. simpl. apply IH.
Qed.

Lemma skipn_S_nth {A} (l : list A) i d : (i < length l)%nat -> skipn i l = nth i l d :: skipn (S i) l.
Proof.
  revert l; induction i as [|i IH]; intros l H; destruct l as [|x l]; simpl in H; try lia; [reflexivity|].
  simpl. apply IH. lia.
Qed.

(* the shift-down loop moves entries i+1 .. i+k one place down *)
Lemma shift_down_spec : forall k l i, (k = 0 \/ i + k < length l)%nat ->
  shift_down l i k = Some (firstn i l ++ firstn k (skipn (S i) l) ++ skipn (i + k) l).
Proof.
  induction k as [|k IH]; intros l i H.
  - cbn [shift_down firstn app]. rewrite Nat.add_0_r, firstn_skipn. reflexivity.
  - assert (Hl: (i + S k < length l)%nat) by lia.
    cbn [shift_down].
    rewrite (arr_get_spec l (S i) iov_null) by lia.
    rewrite arr_set_spec by lia.
    set (l' := firstn i l ++ nth (S i) l iov_null :: skipn (S i) l).
    assert (Ll: length l' = length l) by (apply set_len; lia).
    rewrite IH by (right; lia).
    f_equal.
    assert (F: firstn (S i) l' = firstn i l ++ [nth (S i) l iov_null]).
    { unfold l'. rewrite firstn_app, firstn_length, Nat.min_l by lia.
      rewrite firstn_all2 by (rewrite firstn_length; lia).
      replace (S i - i)%nat with 1%nat by lia. reflexivity. }
    assert (S1: skipn (S i) l' = skipn (S i) l).
    { unfold l'. rewrite skipn_app, firstn_length, Nat.min_l by lia.
      rewrite skipn_all2 by (rewrite firstn_length; lia).
      replace (S i - i)%nat with 1%nat by lia. reflexivity. }
    rewrite F.
    assert (S2: skipn (S (S i)) l' = skipn (S (S i)) l).
    { replace (S (S i)) with (1 + S i)%nat by lia. rewrite <- !skipn_skipn'. now rewrite S1. }
    rewrite S2.
    assert (S3: skipn (S i + k) l' = skipn (i + S k) l).
    { replace (S i + k)%nat with (k + S i)%nat by lia. replace (i + S k)%nat with (k + S i)%nat by lia.
      rewrite <- !skipn_skipn'. now rewrite S1. }
    rewrite S3.
    rewrite <- app_assoc. f_equal. cbn [app].
    rewrite (skipn_S_nth l (S i) iov_null) by lia. cbn [firstn]. reflexivity.
Qed.

(* ---- count ---- *)
Lemma count_from_spec : forall n l i, (i + n <= length l)%nat ->
  count_from l i n = Some (total (firstn n (skipn i l))).
Proof.
  induction n as [|n IH]; intros l i H; [reflexivity|].
  cbn [count_from]. rewrite (arr_get_spec l i iov_null) by lia.
  rewrite IH by lia.
  rewrite (skipn_S_nth l i iov_null) by lia. cbn [firstn total]. reflexivity.
Qed.

Lemma iov_count_spec a : WF a -> iov_count a = Some (total (live a)).
Proof.
  intros [HL HN]. unfold iov_count, live. rewrite count_from_spec by (simpl; lia). reflexivity.
Qed.

(* ---- advance ---- *)
Lemma live_cons a : WF a -> (0 < a_nio a)%nat ->
  exists e r, live a = e :: r /\ arr_get (a_iov a) 0 = Some e /\ r = firstn (a_nio a - 1) (skipn 1 (a_iov a)).
Proof.
  intros [HL HN] H0. unfold live, MAX_IOV in *.
  destruct (a_iov a) as [|e l] eqn:E; [simpl in HL; lia|].
  destruct (a_nio a) as [|k]; [lia|].
  exists e, (firstn k l). replace (S k - 1)%nat with k by lia. cbn [firstn skipn]. repeat split; reflexivity.
Qed.

Lemma advance_loop_spec : forall fuel a n res,
  WF a -> (a_nio a < fuel)%nat -> n <= total (live a) ->
  exists a' r, advance_loop fuel a n res = Some (a', r) /\ WF a' /\
               live a' = drop_iov n (live a) /\ (a_nio a' <= a_nio a)%nat.
Proof.
  induction fuel as [|fuel IH]; intros a n res HW Hf Hn; [lia|].
  cbn [advance_loop].
  destruct (n =? 0) eqn:E0.
  { apply N.eqb_eq in E0. subst n. exists a, res. rewrite drop_iov_0. auto. }
  apply N.eqb_neq in E0.
  destruct (a_nio a =? 0)%nat eqn:En.
  { apply Nat.eqb_eq in En. unfold live in Hn. rewrite En in Hn. cbn in Hn. lia. }
  apply Nat.eqb_neq in En.
  destruct (live_cons a HW ltac:(lia)) as (e0 & r & HLv & HG & Hr).
  rewrite HG. rewrite HLv in Hn. cbn [total] in Hn.
  destruct HW as [HL HN].
  cbn [drop_iov]. rewrite HLv. cbn [drop_iov].
  assert (E0': (n =? 0) = false) by (apply N.eqb_neq; exact E0). rewrite E0'.
  destruct (n <? iv_len e0) eqn:Elt.
  - (* partial use of the first entry *)
    rewrite arr_set_spec by (rewrite HL; unfold MAX_IOV; lia).
    eexists _, _. split; [reflexivity|]. split; [|split].
    + split; cbn [a_iov a_nio]; [rewrite set_len; [exact HL|rewrite HL; unfold MAX_IOV; lia]|exact HN].
    + unfold live. cbn [a_iov a_nio firstn app].
      destruct (a_nio a) as [|k]; [lia|]. cbn [firstn]. f_equal.
      rewrite Hr. replace (S k - 1)%nat with k by lia. reflexivity.
    + cbn [a_nio]. lia.
  - apply N.ltb_ge in Elt.
    set (k := (a_nio a - 1)%nat).
    rewrite shift_down_spec by (rewrite HL; unfold MAX_IOV in *; lia).
    cbn [firstn app Nat.add].
    set (l1 := firstn k (skipn 1 (a_iov a)) ++ skipn k (a_iov a)).
    assert (L1: length l1 = length (a_iov a)).
    { unfold l1. rewrite app_length, firstn_length, !skipn_length, HL. unfold MAX_IOV in *. lia. }
    rewrite arr_set_spec by (rewrite L1, HL; unfold MAX_IOV in *; lia).
    set (l2 := firstn k l1 ++ iov_null :: skipn (S k) l1).
    assert (HW2: WF (mkAiov l2 k)).
    { split; cbn [a_iov a_nio]; [unfold l2; rewrite set_len; [lia|]|]; unfold MAX_IOV in *; lia. }
    assert (HLv2: live (mkAiov l2 k) = r).
    { unfold live. cbn [a_iov a_nio]. unfold l2.
      rewrite firstn_app, firstn_firstn, Nat.min_id, firstn_length.
      replace (k - Nat.min k (length l1))%nat with 0%nat by lia. cbn [firstn]. rewrite app_nil_r.
      unfold l1. rewrite firstn_app, firstn_firstn, Nat.min_id, firstn_length, skipn_length.
      replace (k - Nat.min k (length (a_iov a) - 1))%nat with 0%nat by (rewrite HL; unfold MAX_IOV in *; lia).
      cbn [firstn]. rewrite app_nil_r. symmetry. exact Hr. }
    destruct (IH (mkAiov l2 k) (n - iv_len e0) (res - iv_len e0) HW2) as (a' & r' & HA & HW' & HLv' & Hle).
    { cbn [a_nio]. lia. }
    { rewrite HLv2. lia. }
    exists a', r'. split; [exact HA|]. split; [exact HW'|]. split.
    + rewrite HLv', HLv2. reflexivity.
    + cbn [a_nio] in Hle. lia.
Qed.

Theorem iov_advance_spec a n : WF a -> n <= total (live a) ->
  exists a' r, iov_advance a n = Some (a', r) /\ WF a' /\ live a' = drop_iov n (live a) /\
               (a_nio a' <= a_nio a)%nat.
Proof. intros HW Hn. unfold iov_advance. apply advance_loop_spec; auto. Qed.

Lemma total_drop : forall l n, n <= total l -> total (drop_iov n l) = total l - n.
Proof.
  induction l as [|e r IH]; intros n H; cbn [total drop_iov] in *; [lia|].
  destruct (n =? 0) eqn:E0; [apply N.eqb_eq in E0; subst; cbn [total]; lia|].
  destruct (n <? iv_len e) eqn:E1.
  - apply N.ltb_lt in E1. cbn [total iv_len]. lia.
  - apply N.ltb_ge in E1. rewrite IH by lia. lia.
Qed.

(* ---- denotation ---- *)
Lemma deref_length mem e d : deref mem e = Some d -> N.of_nat (length d) = iv_len e.
Proof.
  unfold deref. destruct (iv_ptr e) as [p|].
  - intros H. apply sub_length in H. destruct H as [H _]. rewrite H. apply N2Nat.id.
  - destruct (iv_len e =? 0) eqn:E; [|discriminate]. apply N.eqb_eq in E. intros H; inversion H. simpl. lia.
Qed.

Lemma iov_bytes_length : forall mem l b, iov_bytes mem l = Some b -> N.of_nat (length b) = total l.
Proof.
  induction l as [|e r IH]; intros b H; cbn [iov_bytes total] in *.
  - inversion H. reflexivity.
  - destruct (deref mem e) as [d|] eqn:D; [|discriminate].
    destruct (iov_bytes mem r) as [b'|] eqn:B; [|discriminate].
    inversion H; subst. rewrite app_length, Nat2N.inj_add, (deref_length _ _ _ D), (IH _ eq_refl). reflexivity.
Qed.

Lemma deref_advance mem e d n : deref mem e = Some d -> n < iv_len e ->
  deref mem (mkIov (option_map (N.add n) (iv_ptr e)) (iv_len e - n)) = Some (skipn (N.to_nat n) d).
Proof.
  unfold deref. cbn [iv_ptr iv_len]. intros H Hn.
  destruct (iv_ptr e) as [p|]; cbn [option_map].
  - unfold sub in *.
    destruct (N.to_nat p + N.to_nat (iv_len e) <=? length mem)%nat eqn:E; [|discriminate].
    apply Nat.leb_le in E. inversion H; subst d; clear H.
    assert (E2: (N.to_nat (n + p) + N.to_nat (iv_len e - n) <=? length mem)%nat = true) by (apply Nat.leb_le; lia).
    rewrite E2. f_equal.
    replace (N.to_nat (n + p)) with (N.to_nat n + N.to_nat p)%nat by lia.
    rewrite <- skipn_skipn'.
    replace (N.to_nat (iv_len e)) with (N.to_nat n + N.to_nat (iv_len e - n))%nat by lia.
    rewrite skipn_firstn_comm'. reflexivity.
  - destruct (iv_len e =? 0) eqn:E; [apply N.eqb_eq in E; lia|discriminate].
Qed.

Lemma iov_bytes_drop : forall mem l b n, iov_bytes mem l = Some b -> n <= total l ->
  iov_bytes mem (drop_iov n l) = Some (skipn (N.to_nat n) b).
Proof.
  induction l as [|e r IH]; intros b n H Hn; cbn [iov_bytes total drop_iov] in *.
  - inversion H. now rewrite skipn_nil.
  - destruct (deref mem e) as [d|] eqn:D; [|discriminate].
    destruct (iov_bytes mem r) as [b'|] eqn:B; [|discriminate].
    inversion H; subst b; clear H.
    pose proof (deref_length _ _ _ D) as LD.
    destruct (n =? 0) eqn:E0.
    { apply N.eqb_eq in E0; subst n. cbn [iov_bytes N.to_nat skipn]. now rewrite D, B. }
    destruct (n <? iv_len e) eqn:E1.
    + apply N.ltb_lt in E1. cbn [iov_bytes]. rewrite (deref_advance _ _ _ _ D E1), B.
      f_equal. rewrite skipn_app. replace (N.to_nat n - length d)%nat with 0%nat by lia. reflexivity.
    + apply N.ltb_ge in E1. rewrite (IH b' (n - iv_len e) eq_refl) by lia.
      f_equal. rewrite skipn_app_ge by lia. f_equal. lia.
Qed.

(* ---- the send loop ---- *)
Definition prefix_of {A} (w b : list A) : Prop := w = firstn (length w) b.

Theorem send_loop_spec : forall ks mem a b, WF a -> iov_bytes mem (live a) = Some b ->
  exists w a' fin, send_loop mem a ks = Some (w, a', fin) /\ WF a' /\ (a_nio a' <= a_nio a)%nat /\
    prefix_of w b /\ iov_bytes mem (live a') = Some (skipn (length w) b) /\
    (fin = true -> w = b) /\
    (fin = false -> Forall (fun k => 0 < k) ks -> (length ks <= length w)%nat /\ (ks <> [] -> (length w < length b)%nat)).
Proof.
  induction ks as [|k ks IH]; intros mem a b HW HB.
  - exists [], a, false. cbn [send_loop length skipn].
    split; [reflexivity|]. split; [exact HW|]. split; [lia|]. split; [reflexivity|]. split; [exact HB|].
    split; [discriminate|]. intros _ _. split; [cbn; lia|]. intros H; congruence.
  - cbn [send_loop]. rewrite (iov_count_spec a HW), HB.
    pose proof (iov_bytes_length _ _ _ HB) as LB.
    set (n := N.min k (total (live a))).
    assert (Hn: n <= total (live a)) by (unfold n; lia).
    unfold send_cb.
    destruct (iov_advance_spec a n HW Hn) as (a1 & r1 & HA & HW1 & HL1 & Hle1).
    rewrite HA, (iov_count_spec a1 HW1), HL1, (total_drop _ _ Hn).
    pose proof (iov_bytes_drop _ _ _ _ HB Hn) as HB1. rewrite <- HL1 in HB1.
    assert (Lf: length (firstn (N.to_nat n) b) = N.to_nat n) by (rewrite firstn_length; lia).
    destruct (0 <? total (live a) - n) eqn:Ec.
    + apply N.ltb_lt in Ec.
      destruct (IH mem a1 _ HW1 HB1) as (w & a2 & fin & HS & HW2 & Hle2 & HP & HB2 & HF & HNF).
      rewrite HS. exists (firstn (N.to_nat n) b ++ w), a2, fin.
      split; [reflexivity|]. split; [exact HW2|]. split; [lia|].
      assert (Lw: (length w <= length b - N.to_nat n)%nat).
      { unfold prefix_of in HP. rewrite HP, firstn_length, skipn_length. lia. }
      split; [|split; [|split]].
      * unfold prefix_of in *. rewrite app_length, Lf, firstn_skipn_split. f_equal. exact HP.
      * rewrite HB2, app_length, Lf, skipn_skipn'. f_equal. f_equal. lia.
      * intros Hfin. rewrite (HF Hfin). apply firstn_skipn.
      * intros Hfin HPos. pose proof (Forall_inv HPos) as Hk. pose proof (Forall_inv_tail HPos) as HPos'.
        cbv beta in Hk. destruct (HNF Hfin HPos') as [H1 H2].
        rewrite app_length, Lf. cbn [length].
        assert (1 <= n) by (unfold n; lia).
        split; [lia|]. intros _.
        destruct ks as [|k2 ks2].
        { cbn [send_loop] in HS. inversion HS; subst w. cbn [length]. lia. }
        { assert (Hx: k2 :: ks2 <> []) by discriminate. specialize (H2 Hx). rewrite skipn_length in H2. lia. }
    + apply N.ltb_ge in Ec.
      exists (firstn (N.to_nat n) b), a1, true.
      split; [reflexivity|]. split; [exact HW1|]. split; [exact Hle1|].
      split; [|split; [|split]].
      * unfold prefix_of. rewrite Lf. reflexivity.
      * rewrite Lf. exact HB1.
      * intros _. apply firstn_all2. lia.
      * discriminate.
Qed.

(* termination: with positive counts the operation finishes within |b| completions *)
Corollary send_loop_finishes ks mem a b : WF a -> iov_bytes mem (live a) = Some b ->
  Forall (fun k => 0 < k) ks -> ks <> [] -> (length b <= length ks)%nat ->
  exists a', send_loop mem a ks = Some (b, a', true).
Proof.
  intros HW HB HP Hne Hl.
  destruct (send_loop_spec ks mem a b HW HB) as (w & a' & fin & HS & _ & _ & _ & _ & HF & HNF).
  destruct fin.
  - rewrite (HF eq_refl) in HS. eauto.
  - destruct (HNF eq_refl HP) as [H1 H2]. specialize (H2 Hne). lia.
Qed.

(* set_iov on the zeroed vector *)
Lemma copy_in_spec : forall src dst i, (i + length src <= length dst)%nat ->
  copy_in dst i src = Some (firstn i dst ++ src ++ skipn (i + length src) dst).
Proof.
  induction src as [|e r IH]; intros dst i H; cbn [copy_in length] in *.
  - rewrite Nat.add_0_r. cbn [app]. now rewrite firstn_skipn.
  - rewrite arr_set_spec by lia.
    set (d := firstn i dst ++ e :: skipn (S i) dst).
    assert (Ld: length d = length dst) by (apply set_len; lia).
    rewrite IH by lia. f_equal.
    assert (F: firstn (S i) d = firstn i dst ++ [e]).
    { unfold d. rewrite firstn_app, firstn_length, Nat.min_l by lia.
      rewrite firstn_all2 by (rewrite firstn_length; lia).
      replace (S i - i)%nat with 1%nat by lia. reflexivity. }
    rewrite F, <- app_assoc. f_equal. cbn [app]. f_equal. f_equal.
    unfold d. rewrite skipn_app, firstn_length, Nat.min_l by lia.
    rewrite skipn_all2 by (rewrite firstn_length; lia). cbn [app].
    replace (S i + length r - i)%nat with (S (length r)) by lia.
    change (skipn (S (length r)) (e :: skipn (S i) dst)) with (skipn (length r) (skipn (S i) dst)).
    rewrite skipn_skipn'. f_equal. lia.
Qed.

Theorem set_iov_spec a src : WF a -> (length src <= MAX_IOV)%nat ->
  exists a', set_iov a src = Some (0, a') /\ WF a' /\ live a' = src /\ a_nio a' = length src.
Proof.
  intros [HL HN] Hs. unfold set_iov.
  assert (E: (MAX_IOV <? length src)%nat = false) by (apply Nat.ltb_ge; exact Hs). rewrite E.
  rewrite copy_in_spec by (rewrite HL; simpl; lia). cbn [firstn app Nat.add].
  eexists. split; [reflexivity|]. split.
  - split; cbn [a_iov a_nio]; [|exact Hs]. rewrite app_length, skipn_length. lia.
  - split; [|reflexivity]. unfold live. cbn [a_iov a_nio]. apply firstn_app_exact. reflexivity.
Qed.

Lemma WF_aiov0 : WF aiov0.
Proof. split; [apply repeat_length|]. cbn. unfold MAX_IOV. lia. Qed.
