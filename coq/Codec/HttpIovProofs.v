(* HttpIovProofs: the physical read of a multi-element HTTP read gets exactly the
   elements the buffered bytes did not use up (repaired code); the pinned code hands
   it a different vector as soon as one element was used up and two remain. *)
From Coq Require Import List Arith NArith Bool Lia.
From NngV Require Import Codec.HttpIov.
Import ListNotations.

Lemma length_set_nth {A} i (x : A) l : length (set_nth i x l) = length l.
Proof. revert i; induction l as [|y r IH]; intros [|i]; cbn; auto. Qed.

Lemma nth_set_nth_eq {A} i (x d : A) l : i < length l -> nth i (set_nth i x l) d = x.
Proof. revert i; induction l as [|y r IH]; intros [|i] H; cbn in *; try lia; auto; try (apply IH; lia). Qed.

Lemma nth_set_nth_neq {A} i j (x d : A) l : i <> j -> nth j (set_nth i x l) d = nth j l d.
Proof.
  revert i j; induction l as [|y r IH]; intros [|i] [|j] H; cbn; auto; try lia; try (apply IH; lia).
Qed.

(* the ascending copy, k steps done *)
Lemma shift_fold_spec a off : 0 < off -> forall k, off + k <= length a ->
  let b := fold_left (shift_step off) (seq 0 k) a in
  length b = length a /\
  (forall i, i < k -> nth i b iov0 = nth (off + i) a iov0) /\
  (forall j, k <= j -> nth j b iov0 = nth j a iov0).
Proof.
  intros Hoff k. induction k as [|k IH]; intros Hk.
  - cbn. split; [reflexivity|]. split; [intros i Hi; lia|reflexivity].
  - rewrite seq_S, fold_left_app. cbn [fold_left plus].
    destruct IH as [L [A B]]; [lia|].
    set (b := fold_left (shift_step off) (seq 0 k) a) in *.
    unfold shift_step. split; [now rewrite length_set_nth|]. split.
    + intros i Hi. destruct (Nat.eq_dec i k) as [->|Hne].
      * rewrite nth_set_nth_eq by lia. apply B. lia.
      * rewrite nth_set_nth_neq by lia. apply A. lia.
    + intros j Hj. rewrite nth_set_nth_neq by lia. apply B. lia.
Qed.

Lemma shift_spec a off nio : off + nio <= length a ->
  length (shift a off nio) = length a /\
  forall i, i < nio -> nth i (shift a off nio) iov0 = nth (off + i) a iov0.
Proof.
  intros H. unfold shift. destruct (Nat.eqb_spec off 0) as [->|Hne].
  - split; [reflexivity|]. intros i _. reflexivity.
  - destruct (shift_fold_spec a off ltac:(lia) nio H) as [L [A _]]. split; assumption.
Qed.

Lemma nth_ext_iov (l1 l2 : list iove) : length l1 = length l2 ->
  (forall i, i < length l1 -> nth i l1 iov0 = nth i l2 iov0) -> l1 = l2.
Proof. intros L H. apply (nth_ext l1 l2 iov0 iov0); assumption. Qed.

Lemma nth_firstn_lt {A} (l : list A) n i d : i < n -> nth i (firstn n l) d = nth i l d.
Proof.
  revert n i; induction l as [|x r IH]; intros [|n] [|i] H; cbn; auto; try lia; try (apply IH; lia).
Qed.
Lemma nth_skipn_add {A} (l : list A) n i d : nth i (skipn n l) d = nth (n + i) l d.
Proof. revert l; induction n as [|n IH]; intros [|x r]; cbn; auto. destruct i; reflexivity. Qed.

(* repaired: the physical read, and the user aio, see the unconsumed elements *)
Lemma user_vector_spec a off : off <= length a -> user_vector a off = skipn off a.
Proof.
  intros H. unfold user_vector. set (nio := length a - off).
  destruct (shift_spec a off nio ltac:(unfold nio; lia)) as [L A].
  apply nth_ext_iov.
  - rewrite firstn_length, L, skipn_length. unfold nio. lia.
  - intros i Hi. rewrite firstn_length, L in Hi.
    rewrite nth_firstn_lt by lia. rewrite A by lia. now rewrite nth_skipn_add.
Qed.
Lemma rd_vector_fixed a off : off <= length a -> rd_vector true a off = skipn off a.
Proof. intros H. exact (user_vector_spec a off H). Qed.

(* pinned: one element used up, two left -- the second of them twice *)
Definition w_vec : list iove := [mkIov 0 0 4; mkIov 1 0 4; mkIov 2 0 4].
Lemma rd_vector_pinned_w :
  1 <= length w_vec /\ rd_vector false w_vec 1 = [mkIov 2 0 4; mkIov 2 0 4] /\ skipn 1 w_vec = [mkIov 1 0 4; mkIov 2 0 4].
Proof. vm_compute. repeat split; lia. Qed.

(* the byte-level picture of the two variants on one read: body ABCDEFGHIJKL, 6 bytes
   buffered, three elements of 4 *)
Definition w_body : list N := [65; 66; 67; 68; 69; 70; 71; 72; 73; 74; 75; 76]%N.
Lemma http_read_full_pinned_w :
  http_read_full false w_body 6 [4; 4; 4] = ([[65; 66; 67; 68]; [69; 70; 238; 238]; [75; 76; 73; 74]]%N, 12).
Proof. vm_compute. reflexivity. Qed.
Lemma http_read_full_fixed_w :
  http_read_full true w_body 6 [4; 4; 4] = ([[65; 66; 67; 68]; [69; 70; 71; 72]; [73; 74; 75; 76]]%N, 12) /\
  http_read_full true w_body 4 [4; 4; 4] = ([[65; 66; 67; 68]; [69; 70; 71; 72]; [73; 74; 75; 76]]%N, 12) /\
  http_read_full true w_body 5 [2; 3; 7] = ([[65; 66]; [67; 68; 69]; [70; 71; 72; 73; 74; 75; 76]]%N, 12).
Proof. vm_compute. repeat split. Qed.
