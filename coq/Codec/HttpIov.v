(* HttpIov: the io-vector bookkeeping of http_rd_buf / http_rd_cb (HTTP_RD_FULL and
   HTTP_RD_RAW, src/supplemental/http/http_conn.c) together with nni_aio_set_iov
   (src/core/aio.c).  Definitions only; proofs in HttpIovProofs.v.

   A read with an io vector of several elements is first served from the bytes the
   connection's read buffer holds (they arrived together with the head); the
   elements that are used up are dropped from the FRONT of the user aio's vector by
   `nni_aio_set_iov(aio, nio, iov)` with `iov' pointing INTO that same vector: the
   remaining elements are copied down, ascending.  The rest of the read is then a
   physical read straight into the user's buffers: `nni_aio_set_iov(&conn->rd_aio,
   nio, iov)`.  As pinned, `iov' is the pointer from before the copy (it now looks
   at elements off .. off+nio of the ALREADY SHIFTED vector); repaired (fix commit
   "multi-element HTTP reads"), the vector is fetched again (front of the array).

   An element is (user buffer number, offset, remaining length); user memory is a
   list of byte lists.  `fixed' selects the repaired code. *)
From Coq Require Import List Arith NArith Bool.
Import ListNotations.

Record iove := mkIov { io_buf : nat; io_off : nat; io_len : nat }.
Definition iov0 : iove := mkIov 0 0 0.

Fixpoint set_nth {A} (i : nat) (x : A) (l : list A) : list A :=
  match l, i with
  | [], _ => []
  | _ :: r, 0 => x :: r
  | y :: r, S j => y :: set_nth j x r
  end.

(* nni_aio_set_iov(aio, nio, &aio->a_iov[off]): for (i = 0; i < nio; i++) a_iov[i] = iov[i]
   -- skipped when iov == &a_iov[0] *)
Definition shift_step (off : nat) (a : list iove) (i : nat) : list iove := set_nth i (nth (off + i) a iov0) a.
Definition shift (a : list iove) (off nio : nat) : list iove :=
  if Nat.eqb off 0 then a else fold_left (shift_step off) (seq 0 nio) a.

(* the loop of http_rd_buf / http_rd_cb: cnt bytes are spread over the elements from
   index off on; returns the new off, the vector with the head element advanced, and
   the pieces (buffer, offset, length) that were filled, in order *)
Fixpoint consume (fuel : nat) (a : list iove) (off cnt : nat) : nat * list iove * list (nat * nat * nat) :=
  match fuel with
  | 0 => (off, a, [])
  | S f =>
      if (length a <=? off) || Nat.eqb cnt 0 then (off, a, [])
      else
        let e := nth off a iov0 in
        let n := Nat.min (io_len e) cnt in
        let e' := mkIov (io_buf e) (io_off e + n) (io_len e - n) in
        let a' := set_nth off e' a in
        let off' := if Nat.eqb (io_len e') 0 then S off else off in
        let '(o2, a2, w2) := consume f a' off' (cnt - n) in
        (o2, a2, (io_buf e, io_off e, n) :: w2)
  end.

(* the vector handed to the physical read *)
Definition rd_vector (fixed : bool) (a : list iove) (off : nat) : list iove :=
  let nio := length a - off in
  let a' := shift a off nio in
  if fixed then firstn nio a' else firstn nio (skipn off a').
(* the user aio's own vector after nni_aio_set_iov *)
Definition user_vector (a : list iove) (off : nat) : list iove :=
  firstn (length a - off) (shift a off (length a - off)).

(* ---- user memory ---- *)
Definition mem := list (list N).
Fixpoint blit (dst : list N) (off : nat) (src : list N) : list N :=
  match off, dst with
  | 0, _ => src ++ skipn (length src) dst
  | S o, x :: r => x :: blit r o src
  | S o, [] => []
  end.
Definition store (m : mem) (b off : nat) (d : list N) : mem := set_nth b (blit (nth b m []) off d) m.

Fixpoint store_pieces (m : mem) (ws : list (nat * nat * nat)) (data : list N) : mem :=
  match ws with
  | [] => m
  | (b, o, n) :: r => store_pieces (store m b o (firstn n data)) r (skipn n data)
  end.

(* one nng_http_read_all with element lengths `lens': c bytes of `body' are in the
   read buffer, the rest arrives in one physical read (scattered over rd_vector in
   order).  Result: the user buffers (initially 238 = 0xEE everywhere) and the count *)
Definition FILL : N := 238.
Definition http_read_full (fixed : bool) (body : list N) (c : nat) (lens : list nat) : mem * nat :=
  let a0 := map (fun il => mkIov (fst il) 0 (snd il)) (combine (seq 0 (length lens)) lens) in
  let m0 := map (fun n => repeat FILL n) lens in
  let c := Nat.min c (length body) in
  let '(off, a1, w1) := consume (S (length a0 + c)) a0 0 c in
  let m1 := store_pieces m0 w1 (firstn c body) in
  if length a1 <=? off then (m1, c) else
  let rd := rd_vector fixed a1 off in
  let rest := skipn c body in
  (* the kernel's scatter read: fills the elements of rd in order *)
  let '(_, _, w2) := consume (S (length rd + length rest)) rd 0 (length rest) in
  (store_pieces m1 w2 rest, c + fold_right (fun w s => snd w + s) 0 w2).
