(* SpFrameProofs: the stream transports' sender and receiver.
   - the vector built by *_pipe_send_start denotes exactly the frame, and every
     sequence of partial writes hands exactly the frame to the stream;
   - the receiver as coded (one-entry iov, partial reads, iov advance) refines
     the staged decoder sp_feed, for single completions and for pieces of any
     size; hence every segmentation gives the events of the unsegmented stream;
   - the staged decoder on a concatenation of frames delivers exactly the
     messages, and on a prefix of it a prefix of them. *)
From Coq Require Import List Arith Lia Bool NArith.
From NngV Require Import Base.ListX Base.Bytes Codec.Staged Codec.IovModel Codec.IovProofs Codec.SpFrameModel.
Import ListNotations.
Local Open Scope N_scope.

(* ------------------------------------------------------------------ sender *)
Lemma tx_head_length k len : N.of_nat (length (tx_head k len)) = head_len k.
Proof. destruct k; cbn [tx_head head_len length]; rewrite be_enc_length; reflexivity. Qed.

Lemma sub_app_mid {A} (a b c : list A) : sub (a ++ b ++ c) (length a) (length b) = Some b.
Proof.
  unfold sub. rewrite !app_length.
  assert (E: (length a + length b <=? length a + (length b + length c))%nat = true) by (apply Nat.leb_le; lia).
  rewrite E. f_equal. rewrite skipn_app_exact by reflexivity. apply firstn_app_exact. reflexivity.
Qed.

Lemma send_start_denotes k m : let '(mem, v) := send_start k m in
  iov_bytes mem v = Some (frame k m) /\ (length v <= 3)%nat /\ mem = frame k m.
Proof.
  unfold send_start, frame.
  set (hl := N.of_nat (length (sp_hdr m))). set (bl := N.of_nat (length (sp_body m))).
  replace (bl + hl) with (hl + bl) by lia.
  set (h := tx_head k (hl + bl)).
  pose proof (tx_head_length k (hl + bl)) as LH. fold h in LH.
  split; [|split; [|reflexivity]].
  - assert (D0: deref (h ++ sp_hdr m ++ sp_body m) (mkIov (Some 0) (head_len k)) = Some h).
    { unfold deref. cbn [iv_ptr iv_len]. rewrite <- LH, Nat2N.id.
      change (N.to_nat 0) with (length (@nil byte)).
      apply (sub_app_mid [] h (sp_hdr m ++ sp_body m)). }
    assert (D1: deref (h ++ sp_hdr m ++ sp_body m) (mkIov (Some (head_len k)) hl) = Some (sp_hdr m)).
    { unfold deref. cbn [iv_ptr iv_len]. rewrite <- LH. unfold hl. rewrite !Nat2N.id. apply sub_app_mid. }
    assert (D2: deref (h ++ sp_hdr m ++ sp_body m) (mkIov (Some (head_len k + hl)) bl) = Some (sp_body m)).
    { unfold deref. cbn [iv_ptr iv_len]. rewrite <- LH. unfold hl, bl. rewrite <- Nat2N.inj_add, !Nat2N.id.
      rewrite <- app_length. rewrite app_assoc.
      rewrite <- (app_nil_r (sp_body m)) at 1. apply sub_app_mid. }
    destruct (0 <? hl) eqn:E1; destruct (0 <? bl) eqn:E2; cbn [app iov_bytes];
      rewrite ?D0, ?D1, ?D2; f_equal.
    + now rewrite app_nil_r.
    + apply N.ltb_ge in E2. assert (sp_body m = []) by (destruct (sp_body m); [reflexivity|unfold bl in E2; cbn in E2; lia]).
      rewrite H. now rewrite !app_nil_r.
    + apply N.ltb_ge in E1. assert (sp_hdr m = []) by (destruct (sp_hdr m); [reflexivity|unfold hl in E1; cbn in E1; lia]).
      rewrite H. cbn [app]. now rewrite app_nil_r.
    + apply N.ltb_ge in E1. apply N.ltb_ge in E2.
      assert (sp_hdr m = []) by (destruct (sp_hdr m); [reflexivity|unfold hl in E1; cbn in E1; lia]).
      assert (sp_body m = []) by (destruct (sp_body m); [reflexivity|unfold bl in E2; cbn in E2; lia]).
      rewrite H, H0. reflexivity.
  - destruct (0 <? hl); destruct (0 <? bl); cbn; lia.
Qed.

(* every sequence of accepted byte counts: what reaches the stream is a prefix
   of the frame, the whole frame when the operation finishes; no array or
   buffer access is out of range (the result is not None); the vector keeps its
   NNI_AIO_MAX_IOV entries and never has more live entries than it started with *)
Theorem send_msg_spec k m ks :
  exists w a fin, send_msg k m ks = Some (w, a, fin) /\ WF a /\ (a_nio a <= 3)%nat /\
    prefix_of w (frame k m) /\ (fin = true -> w = frame k m) /\
    (fin = false -> Forall (fun x => 0 < x) ks ->
       (length ks <= length w)%nat /\ (ks <> [] -> (length w < length (frame k m))%nat)).
Proof.
  unfold send_msg. pose proof (send_start_denotes k m) as H.
  destruct (send_start k m) as [mem v]. destruct H as (HB & HL & _).
  destruct (set_iov_spec aiov0 v WF_aiov0) as (a0 & HS & HW & HLv & HN); [unfold MAX_IOV; lia|].
  rewrite HS. rewrite <- HLv in HB.
  destruct (send_loop_spec ks mem a0 _ HW HB) as (w & a' & fin & HR & HW' & Hle & HP & _ & HF & HNF).
  exists w, a', fin. split; [exact HR|]. split; [exact HW'|]. split; [lia|]. auto.
Qed.

Corollary send_msg_finishes k m ks : Forall (fun x => 0 < x) ks -> (length (frame k m) <= length ks)%nat ->
  exists a, send_msg k m ks = Some (frame k m, a, true).
Proof.
  intros HP HL.
  destruct (send_msg_spec k m ks) as (w & a & fin & HS & _ & _ & _ & HF & HNF).
  destruct fin.
  - rewrite (HF eq_refl) in HS. eauto.
  - destruct (HNF eq_refl HP) as [H1 H2].
    assert (Hne: ks <> []).
    { intros ->. unfold frame in HL. rewrite app_length in HL.
      pose proof (tx_head_length k (N.of_nat (length (sp_hdr m)) + N.of_nat (length (sp_body m)))).
      cbn [length] in HL. destruct k; cbn [head_len] in H; lia. }
    specialize (H2 Hne). lia.
Qed.

Lemma frame_not_nil k m : frame k m <> [].
Proof.
  intros HC. unfold frame in HC. apply app_eq_nil in HC. destruct HC as [HC _].
  apply (f_equal (@length _)) in HC.
  pose proof (tx_head_length k (N.of_nat (length (sp_hdr m)) + N.of_nat (length (sp_body m)))) as L.
  rewrite HC in L. cbn in L. destruct k; cbn in L; lia.
Qed.

(* ------------------------------------------------- staged decoder: basics *)
Section Sp.
  Variable cfg : rx_cfg.
  Let k := r_kind cfg.
  Let want := sp_want k.
  Let cb := sp_cb cfg.
  Let srun := run sp_phase rx_event want cb.

  Lemma run_nil f s : srun f s [] = (s, [], []).
  Proof.
    destruct f; [reflexivity|]. unfold srun. rewrite run_S.
    destruct (want s =? 0) eqn:E0; [reflexivity|].
    destruct (N.of_nat (length (@nil byte)) <? want s) eqn:E; [reflexivity|].
    apply N.ltb_ge in E. apply N.eqb_neq in E0. cbn [length N.of_nat] in E. lia.
  Qed.

  Lemma feed_dead acc x : sp_feed cfg (mkD PDead acc) x = (mkD PDead [], []).
  Proof. unfold sp_feed, feed. cbn [d_acc d_inner]. rewrite run_S. reflexivity. Qed.

  Lemma feed_short s acc x : want s <> 0 -> N.of_nat (length (acc ++ x)) < want s ->
    sp_feed cfg (mkD s acc) x = (mkD s (acc ++ x), []).
  Proof.
    intros H0 H1. unfold sp_feed, feed. cbn [d_acc d_inner]. rewrite run_S. fold k want.
    apply N.eqb_neq in H0. rewrite H0. apply N.ltb_lt in H1. rewrite H1. reflexivity.
  Qed.

  Lemma feed_exact s acc x : want s <> 0 -> N.of_nat (length (acc ++ x)) = want s ->
    sp_feed cfg (mkD s acc) x = (mkD (fst (cb s (acc ++ x))) [], snd (cb s (acc ++ x))).
  Proof.
    intros H0 H1. unfold sp_feed, feed. cbn [d_acc d_inner]. rewrite run_S. fold k want cb.
    apply N.eqb_neq in H0. rewrite H0.
    assert (E: (N.of_nat (length (acc ++ x)) <? want s) = false) by (apply N.ltb_ge; lia). rewrite E.
    cbv zeta. rewrite <- H1, Nat2N.id, firstn_all, skipn_all.
    destruct (cb s (acc ++ x)) as [s1 e1]. fold srun. rewrite run_nil. cbn [fst snd]. now rewrite app_nil_r.
  Qed.

  (* ---------------------------------------------------- refinement relation *)
  Definition hl : N := head_len k.

  Inductive R : rx_state -> sp_dstate -> Prop :=
  | R_dead : forall c acc, rx_posted c = false -> R c (mkD PDead acc)
  | R_head : forall c acc,
      rx_posted c = true -> rx_msg c = None -> WF (rx_aio c) -> a_nio (rx_aio c) = 1%nat ->
      length (rx_head c) = N.to_nat hl -> N.of_nat (length acc) < hl ->
      live (rx_aio c) = [mkIov (Some (N.of_nat (length acc))) (hl - N.of_nat (length acc))] ->
      firstn (length acc) (rx_head c) = acc ->
      R c (mkD PHead acc)
  | R_body : forall c len acc,
      rx_posted c = true -> rx_msg c = Some (mkW len acc) -> WF (rx_aio c) -> a_nio (rx_aio c) = 1%nat ->
      length (rx_head c) = N.to_nat hl -> N.of_nat (length acc) < len ->
      live (rx_aio c) = [mkIov (Some (N.of_nat (length acc))) (len - N.of_nat (length acc))] ->
      R c (mkD (PBody len) acc).

  Lemma hl_pos : 0 < hl.
  Proof. unfold hl. destruct k; cbn; lia. Qed.

  Lemma recv_start_R head a : WF a -> length head = N.to_nat hl ->
    exists st, rx_recv_start k (mkRx head None a true) = Some st /\ R st (mkD PHead []) /\ rx_head st = head.
  Proof.
    intros HW HL. unfold rx_recv_start. cbn [rx_aio rx_head].
    destruct (set_iov_spec a [mkIov (Some 0) (head_len k)] HW) as (a' & HS & HW' & HLv & HN);
      [cbn; unfold MAX_IOV; lia|].
    rewrite HS. eexists. split; [reflexivity|]. split; [|reflexivity].
    pose proof hl_pos.
    apply R_head; cbn [rx_posted rx_msg rx_aio rx_head length]; auto.
    rewrite HLv. unfold hl. now rewrite N.sub_0_r.
  Qed.

  Lemma rx_init_R : exists st, rx_init k = Some st /\ R st sp_dinit.
  Proof.
    unfold rx_init.
    destruct (recv_start_R (zeros (N.to_nat (head_len k))) aiov0 WF_aiov0) as (st & H1 & H2 & _).
    { apply zeros_length. }
    exists st. split; [|exact H2].
    unfold rx_recv_start in *. cbn [rx_aio rx_head] in *. exact H1.
  Qed.

  Lemma live_single a e : WF a -> a_nio a = 1%nat -> live a = [e] -> arr_get (a_iov a) 0 = Some e.
  Proof.
    intros [HL _] HN HLv. unfold live in HLv. rewrite HN in HLv.
    destruct (a_iov a) as [|x r]; [discriminate|]. cbn in HLv. inversion HLv. reflexivity.
  Qed.

  Lemma drop_single n p len : n <= len -> 0 < n ->
    drop_iov n [mkIov (Some p) len] = if n <? len then [mkIov (Some (n + p)) (len - n)] else [].
  Proof.
    intros H1 H2. cbn [drop_iov iv_len iv_ptr option_map].
    assert (E: (n =? 0) = false) by (apply N.eqb_neq; lia). rewrite E.
    destruct (n <? len); reflexivity.
  Qed.

  (* one completion with 1 <= |x| <= what was asked for *)
  Lemma step_refines c d x : R c d -> x <> [] ->
    N.of_nat (length x) <= want (d_inner d) - N.of_nat (length (d_acc d)) ->
    exists c' ev, rx_cb cfg c x = Some (c', ev) /\ R c' (fst (sp_feed cfg d x)) /\ snd (sp_feed cfg d x) = ev.
  Proof.
    intros HR Hx Hle.
    assert (Hx0: (N.of_nat (length x) =? 0) = false).
    { apply N.eqb_neq. destruct x; [congruence|cbn; lia]. }
    assert (Hxp: 0 < N.of_nat (length x)) by (apply N.eqb_neq in Hx0; lia).
    destruct HR as [c acc HP | c acc HP HM HW HN HLh Hacc HLv Hfirst | c len acc HP HM HW HN HLh Hacc HLv].
    - (* dead *)
      exists c, []. unfold rx_cb. rewrite HP. cbn [negb]. rewrite feed_dead. cbn [fst snd].
      split; [reflexivity|]. split; [apply R_dead; exact HP|reflexivity].
    - (* reading the length header *)
      cbn [d_inner d_acc] in Hle. unfold want in Hle. cbn [sp_want] in Hle. fold hl in Hle.
      set (g := N.of_nat (length acc)) in *. set (n := N.of_nat (length x)) in *.
      unfold rx_cb. rewrite HP. cbn [negb].
      rewrite (iov_count_spec _ HW), HLv. cbn [total iv_len].
      rewrite (live_single _ _ HW HN HLv). fold n. rewrite Hx0, HN.
      assert (E1: (hl - g + 0 <? n) = false) by (apply N.ltb_ge; lia). rewrite E1.
      cbn [orb negb Nat.eqb iv_ptr]. rewrite HM.
      assert (HB: blit (rx_head c) (N.to_nat g) x =
                  Some (firstn (N.to_nat g) (rx_head c) ++ x ++ skipn (N.to_nat g + length x) (rx_head c))).
      { apply blit_Some. rewrite HLh. unfold g, n in *. lia. }
      rewrite HB. cbn [option_map].
      set (head' := firstn (N.to_nat g) (rx_head c) ++ x ++ skipn (N.to_nat g + length x) (rx_head c)).
      assert (Lh': length head' = N.to_nat hl).
      { unfold head'. rewrite !app_length, firstn_length, skipn_length, HLh. unfold g, n in *. lia. }
      assert (Fh': firstn (length (acc ++ x)) head' = acc ++ x).
      { unfold head'. unfold g. rewrite Nat2N.id, Hfirst, app_assoc. apply firstn_app_exact. reflexivity. }
      assert (Hn: n <= total (live (rx_aio c))) by (rewrite HLv; cbn [total iv_len]; lia).
      destruct (iov_advance_spec _ n HW Hn) as (a1 & r1 & HA & HW1 & HL1 & Hle1).
      rewrite HA, (iov_count_spec _ HW1), HL1, HLv.
      rewrite drop_single by lia.
      assert (Lax: N.of_nat (length (acc ++ x)) = g + n) by (rewrite app_length, Nat2N.inj_add; reflexivity).
      destruct (n <? hl - g) eqn:E2.
      + (* partial *)
        apply N.ltb_lt in E2. cbn [total iv_len].
        assert (E3: (0 <? hl - g - n + 0) = true) by (apply N.ltb_lt; lia). rewrite E3.
        rewrite feed_short by (unfold want; cbn [sp_want]; fold hl; pose proof hl_pos; lia).
        cbn [fst snd]. eexists _, _. split; [reflexivity|]. split; [|reflexivity].
        apply R_head; cbn [rx_posted rx_msg rx_aio rx_head]; auto.
        * assert (a_nio a1 = 1%nat); [|assumption].
          assert (L: length (live a1) = 1%nat) by (rewrite HL1, HLv, drop_single by lia;
            assert (X: (n <? hl - g) = true) by (apply N.ltb_lt; lia); rewrite X; reflexivity).
          unfold live in L. rewrite firstn_length in L. destruct HW1 as [W1 W2]. lia.
        * lia.
        * rewrite HL1, HLv, drop_single by lia.
          assert (X: (n <? hl - g) = true) by (apply N.ltb_lt; lia). rewrite X.
          rewrite Lax. f_equal. f_equal; [f_equal; lia|lia].
      + (* the header is complete *)
        apply N.ltb_ge in E2. assert (En: n = hl - g) by lia.
        cbn [total]. cbn [N.ltb N.compare].
        assert (Hfull: head' = acc ++ x).
        { rewrite <- Fh'. symmetry. apply firstn_all2. rewrite Lh'. lia. }
        rewrite feed_exact by (unfold want; cbn [sp_want]; fold hl; pose proof hl_pos; lia).
        unfold cb. cbn [sp_cb]. rewrite <- Hfull.
        destruct (head_decide cfg head') as [ev [len|]] eqn:HD.
        * destruct (len =? 0) eqn:E0.
          -- destruct (recv_start_R head' a1 HW1 Lh') as (st & HS & HRs & _).
             fold k. rewrite HS. cbn [fst snd]. eexists _, _. split; [reflexivity|].
             split; [exact HRs|]. unfold wbuf_contents. cbn. reflexivity.
          -- destruct (set_iov_spec a1 [mkIov (Some 0) len] HW1) as (a2 & HS & HW2 & HL2 & HN2);
               [cbn; unfold MAX_IOV; lia|].
             rewrite HS. cbn [fst snd]. eexists _, _. split; [reflexivity|]. split; [|reflexivity].
             apply N.eqb_neq in E0.
             apply R_body; cbn [rx_posted rx_msg rx_aio rx_head length]; auto; try lia.
             rewrite HL2. now rewrite N.sub_0_r.
        * cbn [fst snd]. eexists _, _. split; [reflexivity|]. split; [|reflexivity].
          apply R_dead. reflexivity.
    - (* reading the body *)
      cbn [d_inner d_acc] in Hle. unfold want in Hle. cbn [sp_want] in Hle.
      set (g := N.of_nat (length acc)) in *. set (n := N.of_nat (length x)) in *.
      unfold rx_cb. rewrite HP. cbn [negb].
      rewrite (iov_count_spec _ HW), HLv. cbn [total iv_len].
      rewrite (live_single _ _ HW HN HLv). fold n. rewrite Hx0, HN.
      assert (E1: (len - g + 0 <? n) = false) by (apply N.ltb_ge; lia). rewrite E1.
      cbn [orb negb Nat.eqb iv_ptr]. rewrite HM.
      unfold wbuf_write. cbn [w_data w_cap]. fold g n.
      rewrite N.eqb_refl.
      assert (E4: (g + n <=? len) = true) by (apply N.leb_le; lia). rewrite E4.
      cbn [andb option_map].
      assert (Hn: n <= total (live (rx_aio c))) by (rewrite HLv; cbn [total iv_len]; lia).
      destruct (iov_advance_spec _ n HW Hn) as (a1 & r1 & HA & HW1 & HL1 & Hle1).
      rewrite HA, (iov_count_spec _ HW1), HL1, HLv.
      rewrite drop_single by lia.
      assert (Lax: N.of_nat (length (acc ++ x)) = g + n) by (rewrite app_length, Nat2N.inj_add; reflexivity).
      destruct (n <? len - g) eqn:E2.
      + apply N.ltb_lt in E2. cbn [total iv_len].
        assert (E3: (0 <? len - g - n + 0) = true) by (apply N.ltb_lt; lia). rewrite E3.
        rewrite feed_short by (unfold want; cbn [sp_want]; lia).
        cbn [fst snd]. eexists _, _. split; [reflexivity|]. split; [|reflexivity].
        apply R_body; cbn [rx_posted rx_msg rx_aio rx_head]; auto.
        * assert (L: length (live a1) = 1%nat) by (rewrite HL1, HLv, drop_single by lia;
            assert (X: (n <? len - g) = true) by (apply N.ltb_lt; lia); rewrite X; reflexivity).
          unfold live in L. rewrite firstn_length in L. destruct HW1 as [W1 W2]. lia.
        * lia.
        * rewrite HL1, HLv, drop_single by lia.
          assert (X: (n <? len - g) = true) by (apply N.ltb_lt; lia). rewrite X.
          rewrite Lax. f_equal. f_equal; [f_equal; lia|lia].
      + apply N.ltb_ge in E2. assert (En: n = len - g) by lia.
        cbn [total]. cbn [N.ltb N.compare].
        rewrite feed_exact by (unfold want; cbn [sp_want]; lia).
        unfold cb. cbn [sp_cb fst snd].
        destruct (recv_start_R (rx_head c) a1 HW1 HLh) as (st & HS & HRs & _).
        fold k. rewrite HS. eexists _, _. split; [reflexivity|]. split; [exact HRs|].
        cbn [app]. unfold wbuf_contents. cbn [w_data w_cap].
        rewrite Lax. replace (len - (g + n)) with 0 by lia. cbn. now rewrite app_nil_r.
  Qed.

  (* what the staged decoder asks for next *)
  Definition asked (d : sp_dstate) : N := want (d_inner d) - N.of_nat (length (d_acc d)).

  Lemma R_count c d : R c d -> rx_posted c = true ->
    iov_count (rx_aio c) = Some (asked d) /\ 0 < asked d.
  Proof.
    intros HR HP. unfold asked.
    destruct HR as [c acc HP' | c acc _ HM HW HN HLh Hacc HLv Hfirst | c len acc _ HM HW HN HLh Hacc HLv];
      [congruence| |]; rewrite (iov_count_spec _ HW), HLv; cbn [total iv_len d_inner d_acc];
      unfold want; cbn [sp_want]; fold hl; split; try (f_equal; lia); lia.
  Qed.

  Lemma feed_nil c d : R c d -> sp_feed cfg d [] = (mkD (d_inner d) (if want (d_inner d) =? 0 then [] else d_acc d), []).
  Proof.
    intros HR.
    destruct HR as [c acc HP' | c acc _ HM HW HN HLh Hacc HLv Hfirst | c len acc _ HM HW HN HLh Hacc HLv].
    - rewrite feed_dead. reflexivity.
    - rewrite feed_short; cbn [d_inner d_acc]; unfold want; cbn [sp_want]; fold hl; rewrite ?app_nil_r; try lia.
      assert (E: (hl =? 0) = false) by (apply N.eqb_neq; pose proof hl_pos; lia). rewrite E. reflexivity.
    - rewrite feed_short; cbn [d_inner d_acc]; unfold want; cbn [sp_want]; rewrite ?app_nil_r; try lia.
      assert (E: (len =? 0) = false) by (apply N.eqb_neq; lia). rewrite E. reflexivity.
  Qed.

  (* a piece of any size *)
  Lemma feed_fuel_refines : forall fuel x c d, R c d -> (length x < fuel)%nat ->
    exists c' ev, rx_feed_fuel fuel cfg c x = Some (c', ev) /\ R c' (fst (sp_feed cfg d x)) /\
                  snd (sp_feed cfg d x) = ev.
  Proof.
    induction fuel as [|fuel IH]; intros x c d HR Hf; [lia|].
    cbn [rx_feed_fuel].
    destruct (rx_posted c) eqn:HP; cbn [negb].
    2:{ inversion HR; subst; try congruence. rewrite feed_dead. cbn [fst snd].
        exists c, []. split; [reflexivity|]. split; [apply R_dead; assumption|reflexivity]. }
    destruct x as [|b x].
    { exists c, []. split; [reflexivity|]. rewrite (feed_nil c d HR). cbn [fst snd]. split; [|reflexivity].
      destruct HR; cbn [d_inner d_acc]; unfold want; cbn [sp_want]; fold hl.
      - congruence.
      - assert (E: (hl =? 0) = false) by (apply N.eqb_neq; pose proof hl_pos; lia). rewrite E.
        apply R_head; auto.
      - assert (E: (len =? 0) = false) by (apply N.eqb_neq; lia). rewrite E. eapply R_body; eauto. }
    destruct (R_count c d HR HP) as [HC Hpos]. rewrite HC.
    set (xs := b :: x) in *.
    set (kk := N.to_nat (N.min (asked d) (N.of_nat (length xs)))).
    assert (Hk1: (1 <= kk)%nat) by (unfold kk, xs; cbn [length]; lia).
    assert (Hk2: (kk <= length xs)%nat) by (unfold kk; lia).
    assert (Hk3: N.of_nat kk <= asked d) by (unfold kk; lia).
    destruct (step_refines c d (firstn kk xs) HR) as (c1 & e1 & HS & HR1 & HE1).
    { intros E. apply (f_equal (@length _)) in E. rewrite firstn_length in E. cbn [length] in E. lia. }
    { rewrite firstn_length, Nat.min_l by lia. exact Hk3. }
    rewrite HS.
    destruct (IH (skipn kk xs) c1 _ HR1) as (c2 & e2 & HS2 & HR2 & HE2).
    { rewrite skipn_length. unfold xs in *. cbn [length] in *. lia. }
    rewrite HS2. exists c2, (e1 ++ e2). split; [reflexivity|].
    replace (sp_feed cfg d xs) with (sp_feed cfg d (firstn kk xs ++ skipn kk xs)) by (now rewrite firstn_skipn).
    unfold sp_feed in *. rewrite feed_app.
    destruct (feed sp_phase rx_event (sp_want (r_kind cfg)) (sp_cb cfg) d (firstn kk xs)) as [d1 ev1].
    cbn [fst snd] in *.
    destruct (feed sp_phase rx_event (sp_want (r_kind cfg)) (sp_cb cfg) d1 (skipn kk xs)) as [d2 ev2].
    cbn [fst snd] in *. subst. split; [exact HR2|reflexivity].
  Qed.

  Theorem rx_feed_refines c d x : R c d ->
    exists c' ev, rx_feed cfg c x = Some (c', ev) /\ R c' (fst (sp_feed cfg d x)) /\ snd (sp_feed cfg d x) = ev.
  Proof. intros HR. unfold rx_feed. apply feed_fuel_refines; [exact HR|lia]. Qed.

  Theorem rx_feed_all_refines : forall ps c d, R c d ->
    exists c' ev, rx_feed_all cfg c ps = Some (c', ev) /\ R c' (fst (sp_feed_all cfg d ps)) /\
                  snd (sp_feed_all cfg d ps) = ev.
  Proof.
    induction ps as [|p ps IH]; intros c d HR.
    - exists c, []. cbn [rx_feed_all]. unfold sp_feed_all. cbn [feed_all fst snd]. auto.
    - cbn [rx_feed_all].
      destruct (rx_feed_refines c d p HR) as (c1 & e1 & HS & HR1 & HE1). rewrite HS.
      destruct (IH c1 _ HR1) as (c2 & e2 & HS2 & HR2 & HE2). rewrite HS2.
      exists c2, (e1 ++ e2). split; [reflexivity|].
      unfold sp_feed_all, sp_feed in *. cbn [feed_all].
      destruct (feed sp_phase rx_event (sp_want (r_kind cfg)) (sp_cb cfg) d p) as [d1 ev1]. cbn [fst snd] in *.
      destruct (feed_all sp_phase rx_event (sp_want (r_kind cfg)) (sp_cb cfg) d1 ps) as [d2 ev2]. cbn [fst snd] in *.
      subst. auto.
  Qed.

  (* pieces each of which is one completion: non-empty and within what was asked *)
  Fixpoint fits (d : sp_dstate) (ps : list (list byte)) : Prop :=
    match ps with
    | [] => True
    | p :: r => p <> [] /\ N.of_nat (length p) <= asked d /\ fits (fst (sp_feed cfg d p)) r
    end.

  Theorem rx_steps_refines : forall ps c d, R c d -> fits d ps ->
    exists c' ev, rx_steps cfg c ps = Some (c', ev) /\ R c' (fst (sp_feed_all cfg d ps)) /\
                  snd (sp_feed_all cfg d ps) = ev.
  Proof.
    induction ps as [|p ps IH]; intros c d HR HF.
    - exists c, []. cbn [rx_steps]. unfold sp_feed_all. cbn [feed_all fst snd]. auto.
    - cbn [rx_steps]. destruct HF as (Hne & Hle & HF).
      destruct (step_refines c d p HR Hne Hle) as (c1 & e1 & HS & HR1 & HE1). rewrite HS.
      destruct (IH c1 _ HR1 HF) as (c2 & e2 & HS2 & HR2 & HE2). rewrite HS2.
      exists c2, (e1 ++ e2). split; [reflexivity|].
      unfold sp_feed_all, sp_feed in *. cbn [feed_all].
      destruct (feed sp_phase rx_event (sp_want (r_kind cfg)) (sp_cb cfg) d p) as [d1 ev1]. cbn [fst snd] in *.
      destruct (feed_all sp_phase rx_event (sp_want (r_kind cfg)) (sp_cb cfg) d1 ps) as [d2 ev2]. cbn [fst snd] in *.
      subst. auto.
  Qed.

  (* ------------------------------------------- frames through the decoder *)
  Definition letin (len : N) : Prop :=
    msg_size_valid len = true /\ (r_rcvmax cfg = 0 \/ len <= r_rcvmax cfg) /\ len <= r_allocmax cfg.
  Definition msg_letin (m : sp_msg) : Prop := letin (N.of_nat (length (sp_wire m))).

  Lemma head_decide_tx len : letin len -> head_decide cfg (tx_head k len) = ([RAlloc len], Some len).
  Proof.
    intros (HV & HR & HA). unfold head_decide. fold k.
    assert (L64: len < 2 ^ 64).
    { unfold msg_size_valid in HV. apply andb_true_iff in HV. destruct HV as [_ HV]. apply N.leb_le in HV.
      unfold SIZE_MAX in HV. change (2 ^ 64) with 18446744073709551616. lia. }
    assert (D: be_dec (firstn 8 (skipn (if is_ipc k then 1 else 0) (tx_head k len))) = len).
    { assert (X: firstn 8 (skipn (if is_ipc k then 1 else 0) (tx_head k len)) = be_enc 8 len).
      { destruct k; cbn [is_ipc tx_head skipn]; apply firstn_all2; rewrite be_enc_length; lia. }
      rewrite X. apply be_dec_enc_small. exact L64. }
    assert (T: is_ipc k && negb (nth 0 (tx_head k len) 0 =? 1) = false).
    { destruct k; cbn [is_ipc tx_head nth andb]; reflexivity. }
    rewrite T, D, HV. cbn [negb].
    assert (E1: (r_rcvmax cfg <? len) && (0 <? r_rcvmax cfg) = false).
    { destruct HR as [HR|HR]; [rewrite HR; cbn; apply andb_false_r|].
      assert (X: (r_rcvmax cfg <? len) = false) by (apply N.ltb_ge; exact HR). rewrite X. reflexivity. }
    rewrite E1.
    assert (E2: (r_allocmax cfg <? len) = false) by (apply N.ltb_ge; exact HA). rewrite E2. reflexivity.
  Qed.

  Lemma sp_feed_frame m rest : msg_letin m ->
    sp_feed cfg sp_dinit (frame k m ++ rest) =
      (fst (sp_feed cfg sp_dinit rest),
       [RAlloc (N.of_nat (length (sp_wire m))); RDeliver (sp_wire m)] ++ snd (sp_feed cfg sp_dinit rest)).
  Proof.
    intros HA. unfold msg_letin in HA. unfold frame, sp_wire in *.
    rewrite app_length, Nat2N.inj_add in HA.
    set (len := N.of_nat (length (sp_hdr m)) + N.of_nat (length (sp_body m))) in *.
    assert (LW: N.of_nat (length (sp_hdr m ++ sp_body m)) = len) by (rewrite app_length, Nat2N.inj_add; reflexivity).
    rewrite <- app_assoc.
    unfold sp_feed at 1. rewrite feed_app. fold (sp_feed cfg).
    pose proof (tx_head_length k len) as LH.
    assert (F1: sp_feed cfg sp_dinit (tx_head k len) =
                if len =? 0 then (mkD PHead [], [RAlloc len; RDeliver []]) else (mkD (PBody len) [], [RAlloc len])).
    { unfold sp_dinit. rewrite feed_exact; cbn [app]; unfold want; cbn [sp_want]; fold k;
        [|pose proof hl_pos; unfold hl in *; lia|exact LH].
      unfold cb. cbn [sp_cb]. rewrite (head_decide_tx len HA). destruct (len =? 0); reflexivity. }
    rewrite F1.
    destruct (len =? 0) eqn:E0.
    - apply N.eqb_eq in E0.
      assert (W: sp_hdr m ++ sp_body m = []) by (destruct (sp_hdr m ++ sp_body m); [reflexivity|cbn in LW; lia]).
      rewrite W. cbn [app length N.of_nat]. fold sp_dinit.
      destruct (sp_feed cfg sp_dinit rest) as [d2 e2]. cbn [fst snd]. rewrite E0. reflexivity.
    - apply N.eqb_neq in E0.
      unfold sp_feed at 1. rewrite feed_app. fold (sp_feed cfg).
      rewrite (feed_exact (PBody len) [] (sp_hdr m ++ sp_body m)); cbn [app]; unfold want; cbn [sp_want];
        [|lia|exact LW].
      unfold cb. cbn [sp_cb fst snd]. fold sp_dinit.
      destruct (sp_feed cfg sp_dinit rest) as [d2 e2]. cbn [fst snd]. rewrite LW. reflexivity.
  Qed.

  Definition frames (ms : list sp_msg) : list byte := concat (map (frame k) ms).
  Definition frame_events (ms : list sp_msg) : list rx_event :=
    flat_map (fun m => [RAlloc (N.of_nat (length (sp_wire m))); RDeliver (sp_wire m)]) ms.

  Lemma sp_feed_empty : sp_feed cfg sp_dinit [] = (sp_dinit, []).
  Proof.
    unfold sp_dinit. rewrite feed_short; cbn [app length]; unfold want; cbn [sp_want]; fold k hl;
      pose proof hl_pos; try lia. reflexivity.
  Qed.

  Theorem sp_feed_frames : forall ms, Forall msg_letin ms ->
    sp_feed cfg sp_dinit (frames ms) = (sp_dinit, frame_events ms).
  Proof.
    induction ms as [|m ms IH]; intros HA.
    - apply sp_feed_empty.
    - unfold frames in *. cbn [map concat frame_events flat_map].
      rewrite sp_feed_frame by (apply (Forall_inv HA)).
      rewrite IH by (apply (Forall_inv_tail HA)). reflexivity.
  Qed.

  Lemma deliveries_app a b : deliveries (a ++ b) = deliveries a ++ deliveries b.
  Proof. unfold deliveries. apply flat_map_app. Qed.

  Lemma deliveries_frame_events ms : deliveries (frame_events ms) = map sp_wire ms.
  Proof. induction ms as [|m ms IH]; [reflexivity|]. cbn [frame_events flat_map]. cbn. f_equal. exact IH. Qed.

  Definition no_error (e : list rx_event) : Prop := forall rv, ~ In (RError rv) e.

  Lemma no_error_frame_events ms : no_error (frame_events ms).
  Proof.
    intros rv H. unfold frame_events in H. apply in_flat_map in H. destruct H as (m & _ & H).
    cbn in H. destruct H as [H|[H|[]]]; discriminate.
  Qed.

  Lemma deliveries_prefix : forall e1 e2, exists j, deliveries e1 = firstn j (deliveries (e1 ++ e2)).
  Proof.
    intros e1 e2. exists (length (deliveries e1)). rewrite deliveries_app. symmetry. apply firstn_app_exact. reflexivity.
  Qed.

  (* ---- the receiver as coded, on every cutting of a stream of frames ---- *)
  Theorem rx_all_cuts ms ps st0 : rx_init k = Some st0 -> Forall msg_letin ms -> concat ps = frames ms ->
    exists st', rx_feed_all cfg st0 ps = Some (st', frame_events ms) /\ R st' sp_dinit.
  Proof.
    intros HI HA HC.
    destruct rx_init_R as (st & HI' & HR0). rewrite HI in HI'. assert (Est: st0 = st) by congruence. rewrite <- Est in HR0. clear Est HI'.
    destruct (rx_feed_all_refines ps st0 sp_dinit HR0) as (c' & ev & HS & HR & HE).
    destruct ps as [|p r].
    - cbn in HC. unfold sp_feed_all in *. cbn [feed_all fst snd] in *. subst ev.
      destruct ms as [|m ms]; [exists c'; split; [exact HS|exact HR]|].
      exfalso. unfold frames in HC. cbn [map concat] in HC. symmetry in HC. apply app_eq_nil in HC.
      destruct HC as [HC _]. exact (frame_not_nil _ _ HC).
    - unfold sp_feed_all in *. rewrite feed_all_concat in HR, HE. fold (sp_feed cfg) in HR, HE.
      rewrite HC, (sp_feed_frames ms HA) in HR, HE. cbn [fst snd] in *. subst ev.
      exists c'. split; [exact HS|exact HR].
  Qed.

  Theorem rx_all_cuts_prefix ms ps pre post st0 : rx_init k = Some st0 -> Forall msg_letin ms ->
    pre ++ post = frames ms -> concat ps = pre ->
    exists st' ev, rx_feed_all cfg st0 ps = Some (st', ev) /\
      (exists n, ev = firstn n (frame_events ms)) /\
      (exists j, deliveries ev = firstn j (map sp_wire ms)) /\ no_error ev.
  Proof.
    intros HI HA HPP HC.
    destruct rx_init_R as (st & HI' & HR0). rewrite HI in HI'. assert (Est: st0 = st) by congruence. rewrite <- Est in HR0. clear Est HI'.
    destruct (rx_feed_all_refines ps st0 sp_dinit HR0) as (c' & ev & HS & HR & HE).
    exists c', ev. split; [exact HS|].
    assert (HEv: ev = snd (sp_feed cfg sp_dinit pre)).
    { destruct ps as [|p r].
      - cbn in HC. subst pre. rewrite sp_feed_empty. unfold sp_feed_all in HE. cbn [feed_all snd] in *. now subst.
      - unfold sp_feed_all in HE. rewrite feed_all_concat in HE. fold (sp_feed cfg) in HE. rewrite HC in HE. now subst. }
    pose proof (sp_feed_frames ms HA) as HF. rewrite <- HPP in HF.
    unfold sp_feed in HF. rewrite feed_app in HF. fold (sp_feed cfg) in HF.
    destruct (sp_feed cfg sp_dinit pre) as [d1 e1]. cbn [snd] in HEv. subst e1.
    destruct (sp_feed cfg d1 post) as [d2 e2]. inversion HF as [[Hd He]].
    assert (Hn: ev = firstn (length ev) (ev ++ e2)) by (symmetry; apply firstn_app_exact; reflexivity).
    split; [exists (length ev); rewrite Hn at 1; rewrite He; reflexivity|]. split.
    - destruct (deliveries_prefix ev e2) as [j Hj]. exists j. rewrite Hj, He.
      rewrite deliveries_frame_events. reflexivity.
    - intros rv Hin. apply (no_error_frame_events ms rv). rewrite <- He. apply in_or_app. left. exact Hin.
  Qed.

  (* the same through single completions (each piece is what one readv returned) *)
  Theorem rx_steps_cuts ms ps st0 : rx_init k = Some st0 -> Forall msg_letin ms -> concat ps = frames ms ->
    fits sp_dinit ps ->
    exists st', rx_steps cfg st0 ps = Some (st', frame_events ms) /\ R st' sp_dinit.
  Proof.
    intros HI HA HC HF.
    destruct rx_init_R as (st & HI' & HR0). rewrite HI in HI'. assert (Est: st0 = st) by congruence. rewrite <- Est in HR0. clear Est HI'.
    destruct (rx_steps_refines ps st0 sp_dinit HR0 HF) as (c' & ev & HS & HR & HE).
    destruct ps as [|p r].
    - cbn in HC. unfold sp_feed_all in *. cbn [feed_all fst snd] in *. subst ev.
      destruct ms as [|m ms]; [exists c'; split; [exact HS|exact HR]|].
      exfalso. unfold frames in HC. cbn [map concat] in HC. symmetry in HC. apply app_eq_nil in HC.
      destruct HC as [HC _]. exact (frame_not_nil _ _ HC).
    - unfold sp_feed_all in *. rewrite feed_all_concat in HR, HE. fold (sp_feed cfg) in HR, HE.
      rewrite HC, (sp_feed_frames ms HA) in HR, HE. cbn [fst snd] in *. subst ev.
      exists c'. split; [exact HS|exact HR].
  Qed.
End Sp.
