(* SpNegoProofs: the SP negotiation header exchange of tcp.c / ipc.c / sockfd.c.
   - send side: under every sequence of accepted counts the bytes handed to the
     stream are exactly 00 'S' 'P' 00 pp pp 00 00, then the receive is posted;
   - receive side: under every cutting of the incoming bytes the verdict is a
     function of the first 8 bytes only, never more than 8 bytes are consumed,
     and the pipe becomes ready exactly for a well-formed header. *)
From Coq Require Import List Arith Lia Bool NArith.
From NngV Require Import Base.ListX Base.Bytes Codec.IovModel Codec.IovProofs Codec.SpFrameModel.
Import ListNotations.
Local Open Scope N_scope.

Lemma sp_header_length proto : length (sp_header proto) = 8%nat.
Proof. unfold sp_header. rewrite !app_length, be_enc_length. reflexivity. Qed.

Definition pad (k : sp_kind) : list byte := zeros (N.to_nat (head_len k - NEGO_LEN)).

(* ------------------------------------------------------------- send side *)
Definition TxInv (k : sp_kind) (proto : N) (st : nego_state) (posted : list byte) : Prop :=
  ng_done st = false /\ ng_gottx st < 8 /\ ng_gotrx st = 0 /\
  ng_txhead st = sp_header proto ++ pad k /\
  posted = skipn (N.to_nat (ng_gottx st)) (sp_header proto).

Lemma sub_header_tail proto k off : (off <= 8)%nat ->
  sub (sp_header proto ++ pad k) off (8 - off) = Some (skipn off (sp_header proto)).
Proof.
  intros H. pose proof (sp_header_length proto) as L.
  rewrite sub_Some by (rewrite app_length; lia). f_equal.
  rewrite skipn_app. replace (off - length (sp_header proto))%nat with 0%nat by lia. cbn [skipn].
  apply firstn_app_exact. rewrite skipn_length. lia.
Qed.

Lemma nego_tx_spec k proto : forall ks st posted, TxInv k proto st posted ->
  exists w st' o, nego_tx_run st posted ks = Some (w, st', o) /\
    prefix_of w posted /\ ng_gottx st' = ng_gottx st + N.of_nat (length w) /\ ng_gotrx st' = 0 /\
    ng_txhead st' = ng_txhead st /\
    ((o = [NRecv 8] /\ ng_gottx st' = 8 /\ ng_done st' = false) \/
     (o = [] /\ ng_gottx st' < 8 /\ ng_done st' = false /\
      (Forall (fun x => 0 < x) ks -> (length ks <= length w)%nat))).
Proof.
  induction ks as [|kk ks IH]; intros st posted (HD & HG & HR & HT & HP).
  - exists [], st, []. cbn [nego_tx_run length N.of_nat]. split; [reflexivity|]. split; [reflexivity|].
    split; [lia|]. split; [exact HR|]. split; [reflexivity|]. right.
    split; [reflexivity|]. split; [exact HG|]. split; [exact HD|]. intros _. cbn. lia.
  - cbn [nego_tx_run]. rewrite HD. cbn [orb].
    assert (E: (ng_gottx st <? NEGO_LEN) = true) by (apply N.ltb_lt; exact HG). rewrite E. cbn [negb].
    pose proof (sp_header_length proto) as LH.
    assert (LP: N.of_nat (length posted) = 8 - ng_gottx st) by (rewrite HP, skipn_length, LH; lia).
    set (n := N.min kk (N.of_nat (length posted))).
    assert (Hn: n <= 8 - ng_gottx st) by (unfold n; lia).
    unfold nego_cb. rewrite HD, E.
    assert (E1: (NEGO_LEN - ng_gottx st <? n) = false) by (apply N.ltb_ge; unfold NEGO_LEN; lia). rewrite E1.
    cbn [length Nat.eqb].
    destruct (ng_gottx st + n <? NEGO_LEN) eqn:E2.
    + apply N.ltb_lt in E2. unfold NEGO_LEN in E2.
      replace (N.to_nat (NEGO_LEN - (ng_gottx st + n))) with (8 - N.to_nat (ng_gottx st + n))%nat by (unfold NEGO_LEN; lia).
      rewrite HT, sub_header_tail by lia.
      set (st1 := mkNego (sp_header proto ++ pad k) (ng_rxhead st) (ng_gottx st + n) (ng_gotrx st) false).
      destruct (IH st1 (skipn (N.to_nat (ng_gottx st + n)) (sp_header proto))) as (w & st2 & o & HS & HPw & HG2 & HR2 & HT2 & HO).
      { unfold st1, TxInv. cbn [ng_done ng_gottx ng_gotrx ng_txhead]. repeat split; auto. }
      rewrite HS. exists (firstn (N.to_nat n) posted ++ w), st2, o.
      assert (Lf: length (firstn (N.to_nat n) posted) = N.to_nat n) by (rewrite firstn_length; lia).
      split; [reflexivity|]. split.
      { unfold prefix_of in *. rewrite app_length, Lf, firstn_skipn_split. f_equal.
        rewrite HP, skipn_skipn'. replace (N.to_nat n + N.to_nat (ng_gottx st))%nat with (N.to_nat (ng_gottx st + n)) by lia.
        exact HPw. }
      unfold st1 in HG2, HT2. cbn [ng_gottx ng_txhead] in HG2, HT2. split; [rewrite HG2, app_length, Lf; lia|].
      split; [exact HR2|]. split; [exact HT2|].
      destruct HO as [HO|(HO1 & HO2 & HO3 & HO4)]; [left; exact HO|right].
      split; [exact HO1|]. split; [exact HO2|]. split; [exact HO3|]. intros HPos.
      pose proof (Forall_inv HPos) as Hk. cbv beta in Hk. specialize (HO4 (Forall_inv_tail HPos)).
      rewrite app_length, Lf. cbn [length]. assert (1 <= n) by (unfold n; lia). lia.
    + apply N.ltb_ge in E2. unfold NEGO_LEN in E2. rewrite HR. cbn [N.ltb N.compare].
      assert (En: n = 8 - ng_gottx st) by lia.
      eexists _, _, _. split; [reflexivity|].
      assert (Lf: length (firstn (N.to_nat n) posted) = N.to_nat n) by (rewrite firstn_length; lia).
      split; [unfold prefix_of; rewrite Lf; reflexivity|].
      cbn [ng_gottx ng_gotrx ng_txhead ng_done]. split; [rewrite Lf; lia|]. split; [reflexivity|].
      split; [reflexivity|]. left. split; [reflexivity|]. split; [lia|reflexivity].
Qed.

Theorem nego_tx_exact k proto ks :
  exists w st o, nego_tx_run (fst (nego_start k proto)) (sp_header proto) ks = Some (w, st, o) /\
    prefix_of w (sp_header proto) /\ ng_gottx st = N.of_nat (length w) /\ ng_gotrx st = 0 /\
    ((o = [NRecv 8] /\ w = sp_header proto) \/ (o = [] /\ (length w < 8)%nat)) /\
    (Forall (fun x => 0 < x) ks -> (8 <= length ks)%nat -> w = sp_header proto /\ o = [NRecv 8]).
Proof.
  destruct (nego_tx_spec k proto ks (fst (nego_start k proto)) (sp_header proto))
    as (w & st & o & HS & HP & HG & HR & HT & HO).
  { unfold nego_start, TxInv. cbn [fst ng_done ng_gottx ng_gotrx ng_txhead N.to_nat skipn].
    repeat split; auto; lia. }
  exists w, st, o. cbn [nego_start fst ng_gottx] in HG.
  pose proof (sp_header_length proto) as LH.
  assert (Lw: (length w <= 8)%nat) by (unfold prefix_of in HP; rewrite HP, firstn_length; lia).
  assert (Full: length w = 8%nat -> w = sp_header proto).
  { intros E. unfold prefix_of in HP. rewrite HP, E. apply firstn_all2. lia. }
  split; [exact HS|]. split; [exact HP|]. split; [lia|]. split; [exact HR|]. split.
  - destruct HO as [(HO & HG8 & _)|(HO & HG8 & _)]; [left|right]; split; auto; [apply Full|]; lia.
  - intros HPos HL. destruct HO as [(HO & HG8 & _)|(HO & HG8 & _ & HO4)].
    + split; [apply Full; lia|exact HO].
    + specialize (HO4 HPos). lia.
Qed.

(* ---------------------------------------------------------- receive side *)
Definition nego_verdict (h8 : list byte) : nego_out :=
  match nego_check h8, sub h8 4 2 with
  | Some true, Some pp => NReady (be_dec pp)
  | _, _ => NFail NNG_EPROTO
  end.

Definition RxInv (k : sp_kind) (st : nego_state) (acc : list byte) : Prop :=
  ng_done st = false /\ ng_gottx st = 8 /\ ng_gotrx st = N.of_nat (length acc) /\ (length acc < 8)%nat /\
  length (ng_rxhead st) = N.to_nat (head_len k) /\ firstn (length acc) (ng_rxhead st) = acc.

Definition only_recv (o : list nego_out) : Prop :=
  Forall (fun x => match x with NRecv _ => True | _ => False end) o.

Lemma check_first8 (h8 tail : list byte) : length h8 = 8%nat ->
  nego_check (h8 ++ tail) = nego_check h8 /\ sub (h8 ++ tail) 4 2 = sub h8 4 2.
Proof.
  intros L. do 8 (destruct h8 as [|? h8]; [discriminate|]). destruct h8; [|discriminate].
  split; reflexivity.
Qed.

Lemma head_len_ge k : 8 <= head_len k.
Proof. destruct k; cbn; lia. Qed.

Lemma nego_rx_step k st acc x : RxInv k st acc -> x <> [] -> (length acc + length x <= 8)%nat ->
  exists st' o, nego_cb st (N.of_nat (length x)) x = Some (st', o) /\
    (((length acc + length x < 8)%nat /\ RxInv k st' (acc ++ x) /\ only_recv o) \/
     ((length acc + length x = 8)%nat /\ ng_done st' = true /\ o = [nego_verdict (acc ++ x)])).
Proof.
  intros (HD & HT & HR & HA & HL & HF) Hx Hle.
  pose proof (head_len_ge k) as HK.
  unfold nego_cb. rewrite HD, HT. change (8 <? NEGO_LEN) with false. cbv iota.
  assert (E1: (NEGO_LEN - ng_gotrx st <? N.of_nat (length x)) = false)
    by (apply N.ltb_ge; unfold NEGO_LEN; lia). rewrite E1.
  rewrite N.eqb_refl.
  rewrite blit_Some by (rewrite HL, HR, Nat2N.id; lia).
  rewrite HR, Nat2N.id.
  set (rx' := firstn (length acc) (ng_rxhead st) ++ x ++ skipn (length acc + length x) (ng_rxhead st)).
  assert (Lr: length rx' = N.to_nat (head_len k)).
  { unfold rx'. rewrite !app_length, firstn_length, skipn_length, HL. lia. }
  assert (Fr: firstn (length (acc ++ x)) rx' = acc ++ x).
  { unfold rx'. rewrite HF, app_assoc. apply firstn_app_exact. reflexivity. }
  assert (E2: (N.of_nat (length acc) <? NEGO_LEN) = true) by (apply N.ltb_lt; unfold NEGO_LEN; lia).
  rewrite E2.
  destruct (N.of_nat (length acc) + N.of_nat (length x) <? NEGO_LEN) eqn:E3.
  - apply N.ltb_lt in E3. unfold NEGO_LEN in E3.
    eexists _, _. split; [reflexivity|]. left. split; [lia|]. split.
    + unfold RxInv. cbn [ng_done ng_gottx ng_gotrx ng_rxhead]. rewrite app_length.
      repeat split; auto; try lia. rewrite <- app_length. exact Fr.
    + repeat constructor.
  - apply N.ltb_ge in E3. unfold NEGO_LEN in E3.
    assert (L8: length (acc ++ x) = 8%nat) by (rewrite app_length; lia).
    assert (Hsplit: rx' = (acc ++ x) ++ skipn 8 rx').
    { rewrite <- Fr at 1. rewrite L8. symmetry. apply firstn_skipn. }
    destruct (check_first8 (acc ++ x) (skipn 8 rx') L8) as [C1 C2].
    rewrite Hsplit, C1, C2. unfold nego_verdict.
    assert (exists b, nego_check (acc ++ x) = Some b) as [b Hb].
    { remember (acc ++ x) as h. do 8 (destruct h as [|? h]; [discriminate|]). eexists. reflexivity. }
    assert (exists pp, sub (acc ++ x) 4 2 = Some pp) as [pp Hpp].
    { eexists. apply sub_Some. lia. }
    rewrite Hb, Hpp. destruct b; eexists _, _; (split; [reflexivity|]); right; (split; [lia|]); split; reflexivity.
Qed.

Lemma nego_rx_all_spec k : forall cs st acc, RxInv k st acc ->
  let s := acc ++ concat cs in
  exists st' o rest, nego_rx_all st cs = Some (st', o, rest) /\
    ((length s < 8)%nat -> RxInv k st' s /\ rest = [] /\ only_recv o) /\
    ((8 <= length s)%nat -> ng_done st' = true /\ rest = skipn 8 s /\
        exists pre, only_recv pre /\ o = pre ++ [nego_verdict (firstn 8 s)]).
Proof.
  induction cs as [|p cs IH]; intros st acc HI; cbv zeta.
  - cbn [concat nego_rx_all]. rewrite app_nil_r. exists st, [], [].
    pose proof HI as (HD & HT & HR & HA & HL & HF).
    split; [reflexivity|]. split.
    + intros _. split; [exact HI|]. split; [reflexivity|constructor].
    + intros H. lia.
  - cbn [concat nego_rx_all]. unfold nego_rx_feed.
    pose proof HI as (HD & HT & HR & HA & HL & HF).
    rewrite HD, HT. cbn [orb]. change (8 <? NEGO_LEN) with false. cbv iota.
    destruct p as [|b p].
    + cbn [app]. rewrite HD.
      destruct (IH st acc HI) as (st' & o & rest & HS & H1 & H2). cbv zeta in *.
      rewrite HS. exists st', o, rest. cbn [app]. auto.
    + set (xs := b :: p) in *.
      set (kk := N.to_nat (N.min (NEGO_LEN - ng_gotrx st) (N.of_nat (length xs)))).
      assert (Hk1: (1 <= kk)%nat) by (unfold kk, xs, NEGO_LEN; cbn [length]; lia).
      assert (Hk2: (kk <= length xs)%nat) by (unfold kk; lia).
      assert (Hk3: (length acc + kk <= 8)%nat) by (unfold kk, NEGO_LEN; lia).
      assert (Lx: length (firstn kk xs) = kk) by (rewrite firstn_length; lia).
      destruct (nego_rx_step k st acc (firstn kk xs) HI) as (st1 & o1 & HS1 & HC).
      { intros E. apply (f_equal (@length _)) in E. rewrite Lx in E. cbn in E. lia. }
      { rewrite Lx. exact Hk3. }
      rewrite Lx in HS1. rewrite HS1.
      destruct HC as [(Hlt & HI1 & HO1)|(Heq & HD1 & HO1)].
      * (* still short: the whole piece was consumed *)
        rewrite Lx in Hlt.
        assert (kk = length xs) by (unfold kk, NEGO_LEN in *; lia).
        assert (Hall: firstn kk xs = xs) by (apply firstn_all2; lia).
        assert (Hnone: skipn kk xs = []) by (apply skipn_all2; lia).
        rewrite Hall in HI1.
        destruct HI1 as (HD1 & HI1').
        rewrite HD1.
        destruct (IH st1 (acc ++ xs)) as (st' & o & rest & HS & H1 & H2); [split; [exact HD1|exact HI1']|].
        cbv zeta in *. rewrite HS. exists st', (o1 ++ o), rest.
        rewrite <- app_assoc in H1, H2.
        split; [reflexivity|]. split.
        -- intros Hl. destruct (H1 Hl) as (A & B & C). split; [exact A|]. split; [exact B|].
           apply Forall_app. split; assumption.
        -- intros Hl. destruct (H2 Hl) as (A & B & pre & C & D). split; [exact A|]. split; [exact B|].
           exists (o1 ++ pre). split; [apply Forall_app; split; assumption|]. rewrite D. apply app_assoc.
      * rewrite Lx in Heq. rewrite HD1.
        exists st1, o1, (skipn kk xs ++ concat cs).
        split; [reflexivity|]. split.
        -- intros Hl. rewrite !app_length in Hl. lia.
        -- intros _. split; [exact HD1|].
           assert (S8: acc ++ xs ++ concat cs = (acc ++ firstn kk xs) ++ skipn kk xs ++ concat cs).
           { rewrite <- app_assoc. f_equal. rewrite app_assoc, firstn_skipn. reflexivity. }
           rewrite S8. split.
           ++ symmetry. apply skipn_app_exact. rewrite app_length, Lx. lia.
           ++ exists []. split; [constructor|]. cbn [app]. rewrite HO1. do 2 f_equal.
              symmetry. apply firstn_app_exact. rewrite app_length, Lx. lia.
Qed.

Lemma nego_sent_inv k proto : RxInv k (nego_sent k proto) [].
Proof.
  unfold nego_sent, nego_start, RxInv. cbn [ng_done ng_gottx ng_gotrx ng_rxhead length firstn N.of_nat].
  repeat split; auto; try lia. apply zeros_length.
Qed.

(* every cutting [cs] of the incoming bytes *)
Theorem nego_rx_exact k proto cs : let s := concat cs in
  exists st o rest, nego_rx_all (nego_sent k proto) cs = Some (st, o, rest) /\
    ((length s < 8)%nat -> ng_done st = false /\ rest = [] /\ only_recv o) /\
    ((8 <= length s)%nat -> ng_done st = true /\ rest = skipn 8 s /\
        exists pre, only_recv pre /\ o = pre ++ [nego_verdict (firstn 8 s)]).
Proof.
  cbv zeta. destruct (nego_rx_all_spec k cs _ [] (nego_sent_inv k proto)) as (st & o & rest & HS & H1 & H2).
  cbn [app] in *. exists st, o, rest. split; [exact HS|]. split; [|exact H2].
  intros Hl. destruct (H1 Hl) as ((A & _) & B & C). auto.
Qed.

(* the verdict: ready exactly for 00 'S' 'P' 00 pp pp 00 00 *)
Theorem nego_verdict_exact h8 : length h8 = 8%nat -> bytes_ok h8 ->
  (forall peer, nego_verdict h8 = NReady peer <-> (h8 = sp_header peer /\ peer < 65536)) /\
  ((forall peer, h8 <> sp_header peer \/ 65536 <= peer) -> nego_verdict h8 = NFail NNG_EPROTO).
Proof.
  intros L HB.
  destruct h8 as [|b0 h8]; [discriminate|]. destruct h8 as [|b1 h8]; [discriminate|].
  destruct h8 as [|b2 h8]; [discriminate|]. destruct h8 as [|b3 h8]; [discriminate|].
  destruct h8 as [|b4 h8]; [discriminate|]. destruct h8 as [|b5 h8]; [discriminate|].
  destruct h8 as [|b6 h8]; [discriminate|]. destruct h8 as [|b7 h8]; [discriminate|].
  destruct h8; [|discriminate]. clear L.
  assert (B4: b4 < 256) by (apply (proj1 (Forall_forall _ _) HB); cbn; tauto).
  assert (B5: b5 < 256) by (apply (proj1 (Forall_forall _ _) HB); cbn; tauto).
  assert (DEC: be_dec [b4; b5] = b4 * 256 + b5) by (unfold be_dec; cbn [rev app le_dec]; lia).
  assert (ENC: be_enc 2 (b4 * 256 + b5) = [b4; b5]).
  { rewrite <- DEC. apply (be_enc_dec [b4; b5]). repeat constructor; assumption. }
  assert (V: nego_verdict [b0; b1; b2; b3; b4; b5; b6; b7] =
             if (b0 =? 0) && (b1 =? 83) && (b2 =? 80) && (b3 =? 0) && (b6 =? 0) && (b7 =? 0)
             then NReady (b4 * 256 + b5) else NFail NNG_EPROTO).
  { unfold nego_verdict. cbn [nego_check nth_error]. unfold sub. cbn [length Nat.add Nat.leb skipn firstn].
    destruct ((b0 =? 0) && (b1 =? 83) && (b2 =? 80) && (b3 =? 0) && (b6 =? 0) && (b7 =? 0)); [|reflexivity].
    f_equal. exact DEC. }
  assert (Iff: forall peer, nego_verdict [b0; b1; b2; b3; b4; b5; b6; b7] = NReady peer <->
                            [b0; b1; b2; b3; b4; b5; b6; b7] = sp_header peer /\ peer < 65536).
  { intros peer. rewrite V. split.
    - destruct ((b0 =? 0) && (b1 =? 83) && (b2 =? 80) && (b3 =? 0) && (b6 =? 0) && (b7 =? 0)) eqn:E; [|discriminate].
      intros H. inversion H; subst peer.
      repeat (apply andb_true_iff in E; destruct E as [E ?]).
      repeat match goal with H : (_ =? _) = true |- _ => apply N.eqb_eq in H end. subst.
      split; [|lia]. unfold sp_header. rewrite ENC. reflexivity.
    - intros [H Hp]. unfold sp_header in H.
      assert (L2: length (be_enc 2 peer) = 2%nat) by apply be_enc_length.
      destruct (be_enc 2 peer) as [|e0 [|e1 [|? ?]]] eqn:EE; try discriminate.
      cbn [app] in H. inversion H; subst. cbn [N.eqb andb Pos.eqb].
      f_equal. rewrite <- DEC, <- EE. apply be_dec_enc_small. exact Hp. }
  split; [exact Iff|].
  intros Hno.
  destruct (nego_verdict [b0; b1; b2; b3; b4; b5; b6; b7]) eqn:EV; try (rewrite V in EV;
    destruct ((b0 =? 0) && (b1 =? 83) && (b2 =? 80) && (b3 =? 0) && (b6 =? 0) && (b7 =? 0)); discriminate).
  - destruct (proj1 (Iff peer) eq_refl) as [X1 X2]. destruct (Hno peer) as [H|H]; [contradiction|lia].
  - rewrite V in EV. destruct ((b0 =? 0) && (b1 =? 83) && (b2 =? 80) && (b3 =? 0) && (b6 =? 0) && (b7 =? 0)); [discriminate|exact V].
Qed.

(* a pipe is started by the protocol only if the peer id is the expected one:
   the only 8 bytes that get a connection past the negotiation *and* the
   protocol's pipe_start are sp_header expected *)
Corollary nego_accepts_only_expected h8 expected : length h8 = 8%nat -> bytes_ok h8 -> expected < 65536 ->
  ((exists peer, nego_verdict h8 = NReady peer /\ peer_accept expected peer = true) <-> h8 = sp_header expected).
Proof.
  intros L HB HE. destruct (nego_verdict_exact h8 L HB) as [Iff _]. split.
  - intros (peer & HV & HA). apply Iff in HV. destruct HV as [HV _].
    unfold peer_accept in HA. apply N.eqb_eq in HA. now subst.
  - intros H. exists expected. split; [apply Iff; auto|]. unfold peer_accept. apply N.eqb_refl.
Qed.
