(* Staged: the generic "read exactly k bytes, then call back" stream decoder
   (DESIGN appendix A.3).  nni_http_read_full delivers a callback only when the
   requested number of bytes has arrived, however the stream was cut; a
   decoder driven that way is a machine [want : St -> N] (0 = no read posted:
   the decoder has stopped) and [cb : St -> list byte -> St * list Ev].
   [feed] runs it over an arbitrary piece of the stream, keeping the bytes of
   an incomplete stage.  The restartability theorem [feed_app] is proved once
   here, for every such machine. *)
From Coq Require Import List Arith Lia Bool NArith.
From NngV Require Import Base.ListX.
Import ListNotations.

Section Staged.
  Variables St Ev : Type.
  Variable want : St -> N.
  Variable cb : St -> list byte -> St * list Ev.

  Record dstate := mkD { d_inner : St; d_acc : list byte }.

  (* fuel: one unit per completed stage; every stage consumes >= 1 byte *)
  Fixpoint run (fuel : nat) (s : St) (buf : list byte) : St * list byte * list Ev :=
    match fuel with
    | O => (s, buf, [])
    | S f =>
        let w := want s in
        if (w =? 0)%N then (s, [], [])                    (* stopped: input is never read *)
        else if (N.of_nat (length buf) <? w)%N then (s, buf, [])
        else
          let k := N.to_nat w in
          let '(s1, e1) := cb s (firstn k buf) in
          let '(s2, r, e2) := run f s1 (skipn k buf) in
          (s2, r, e1 ++ e2)
    end.

  Definition feed (d : dstate) (input : list byte) : dstate * list Ev :=
    let buf := d_acc d ++ input in
    let '(s, r, e) := run (S (length buf)) (d_inner d) buf in
    (mkD s r, e).

  (* ---- proofs ---- *)

  Lemma run_fuel_enough : forall f1 f2 s buf,
    length buf < f1 -> length buf < f2 -> run f1 s buf = run f2 s buf.
  Proof.
    induction f1 as [|f1 IH]; intros f2 s buf H1 H2; [lia|].
    destruct f2 as [|f2]; [lia|].
    cbn [run].
    destruct (want s =? 0)%N eqn:E0; [reflexivity|].
    destruct (N.of_nat (length buf) <? want s)%N eqn:E1; [reflexivity|].
    apply N.eqb_neq in E0. apply N.ltb_ge in E1.
    destruct (cb s (firstn (N.to_nat (want s)) buf)) as [s1 e1].
    assert (L: length (skipn (N.to_nat (want s)) buf) < length buf).
    { rewrite skipn_length. lia. }
    rewrite (IH f2 s1 (skipn (N.to_nat (want s)) buf)) by lia. reflexivity.
  Qed.

  Lemma run_S : forall f s buf,
    run (S f) s buf =
      if (want s =? 0)%N then (s, [], [])
      else if (N.of_nat (length buf) <? want s)%N then (s, buf, [])
      else
        let k := N.to_nat (want s) in
        let '(s1, e1) := cb s (firstn k buf) in
        let '(s2, r, e2) := run f s1 (skipn k buf) in
        (s2, r, e1 ++ e2).
  Proof. reflexivity. Qed.

  Lemma run_app : forall f s x y,
    length x < f ->
    run (S (length (x ++ y))) s (x ++ y) =
      let '(s1, r1, e1) := run f s x in
      let '(s2, r2, e2) := run (S (length (r1 ++ y))) s1 (r1 ++ y) in
      (s2, r2, e1 ++ e2).
  Proof.
    induction f as [|f IH]; intros s x y Hf; [lia|].
    rewrite (run_S f s x).
    destruct (want s =? 0)%N eqn:E0.
    - (* stopped *)
      rewrite run_S, E0. cbn [app length]. rewrite run_S, E0. reflexivity.
    - destruct (N.of_nat (length x) <? want s)%N eqn:E1.
      + (* x alone is not enough: nothing consumed *)
        destruct (run (S (length (x ++ y))) s (x ++ y)) as [[s2 r2] e2] eqn:R.
        reflexivity.
      + rewrite run_S, E0.
        apply N.eqb_neq in E0. apply N.ltb_ge in E1.
        cbv zeta.
        set (k := N.to_nat (want s)) in *.
        assert (Hk: k <= length x) by (unfold k; lia).
        assert (Hk0: 0 < k) by (unfold k; lia).
        assert (E2: (N.of_nat (length (x ++ y)) <? want s)%N = false).
        { apply N.ltb_ge. rewrite app_length. lia. }
        rewrite E2.
        rewrite (firstn_app_le x y k Hk).
        destruct (cb s (firstn k x)) as [s1 e1].
        assert (Es: skipn k (x ++ y) = skipn k x ++ y).
        { rewrite skipn_app. replace (k - length x) with 0 by lia. reflexivity. }
        rewrite Es.
        assert (L: length (skipn k x) < f) by (rewrite skipn_length; lia).
        rewrite (run_fuel_enough (length (x ++ y)) (S (length (skipn k x ++ y))) s1 (skipn k x ++ y)).
        2:{ rewrite !app_length, skipn_length. lia. }
        2:{ lia. }
        rewrite (IH s1 (skipn k x) y L).
        destruct (run f s1 (skipn k x)) as [[s2 r2] e2].
        destruct (run (S (length (r2 ++ y))) s2 (r2 ++ y)) as [[s3 r3] e3].
        rewrite app_assoc. reflexivity.
  Qed.

  Theorem feed_app : forall d a b,
    feed d (a ++ b) =
      let '(d1, e1) := feed d a in
      let '(d2, e2) := feed d1 b in
      (d2, e1 ++ e2).
  Proof.
    intros d a b. unfold feed. rewrite app_assoc.
    rewrite (run_app (S (length (d_acc d ++ a))) (d_inner d) (d_acc d ++ a) b) by lia.
    destruct (run (S (length (d_acc d ++ a))) (d_inner d) (d_acc d ++ a)) as [[s1 r1] e1].
    cbn [d_inner d_acc].
    destruct (run (S (length (r1 ++ b))) s1 (r1 ++ b)) as [[s2 r2] e2].
    reflexivity.
  Qed.

  (* feeding a stream piece by piece *)
  Fixpoint feed_all (d : dstate) (pieces : list (list byte)) : dstate * list Ev :=
    match pieces with
    | [] => (d, [])
    | p :: rest =>
        let '(d1, e1) := feed d p in
        let '(d2, e2) := feed_all d1 rest in
        (d2, e1 ++ e2)
    end.

  (* any way of cutting a (non-empty list of pieces of a) stream gives the
     state and the events of the uncut stream *)
  Theorem feed_all_concat : forall rest p d,
    feed_all d (p :: rest) = feed d (concat (p :: rest)).
  Proof.
    induction rest as [|q rest IH]; intros p d.
    - cbn [feed_all concat]. rewrite app_nil_r.
      destruct (feed d p) as [d1 e1]. rewrite app_nil_r. reflexivity.
    - cbn [concat]. rewrite feed_app.
      change (feed_all d (p :: q :: rest)) with
        (let '(d1, e1) := feed d p in let '(d2, e2) := feed_all d1 (q :: rest) in (d2, e1 ++ e2)).
      destruct (feed d p) as [d1 e1].
      rewrite IH. cbn [concat]. reflexivity.
  Qed.
End Staged.

Arguments mkD {St}.
Arguments d_inner {St}.
Arguments d_acc {St}.
