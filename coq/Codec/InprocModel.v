(* InprocModel: executable model of the message hand-off of
   src/sp/transport/inproc/inproc.c (inproc_queue_run, inproc_pipe_send,
   inproc_pipe_recv, inproc_queue_cancel, inproc_pipe_close) with the header
   pull-up of src/core/message.c nni_msg_pull_up.  Definitions only.

   One queue = one direction of a connection: the aios of the readers and of
   the writers (each writer aio carries a message).  Every operation below is
   one critical section of queue->lock.  A writer entry carries, besides its
   message, what decides the fate of the pull-up: whether the message is shared
   (refcnt != 1) and whether the allocations made for it fail (quantified over
   in the theorems: an allocation oracle).  [w_seq] is a ghost sequence number
   (order of the send operations) used to state the FIFO theorems. *)
From Coq Require Import List Arith Lia Bool NArith.
From NngV Require Import Base.ListX Base.Bytes Msg.MsgModel.
Import ListNotations.

Definition aioid := N.
Definition IP_ECLOSED : N := 7%N.

(* nni_msg_pull_up as written: duplicate when the body has no room for the
   header or the message is shared; otherwise insert the header in front of the
   body -- the return value of nni_msg_insert is ignored ("cannot fail") and the
   header is cleared.  [chk] = false is that text; [chk] = true is the repaired
   form, which returns NULL (message dropped whole by the caller) when the
   insert fails.  fail1: the nni_msg allocation fails; fail2: the chunk
   allocation fails. *)
Definition ip_pull_up (chk : bool) (m : msg) (shared fail1 fail2 : bool) : option (option msg) :=
  if (chunk_room (m_body m) <? length (m_hdr m)) || shared then
    match msg_body m with
    | None => None
    | Some b =>
        match msg_alloc (msg_len m + length (m_hdr m)) fail1 fail2 with
        | None => None
        | Some (_, None) => Some None
        | Some (_, Some m2) =>
            match ch_ptr (m_body m2) with
            | None => None
            | Some o =>
                match blit (ch_buf (m_body m2)) o (m_hdr m ++ b) with
                | None => None
                | Some nb => Some (Some (mkMsg [] (mkChunk nb (ch_len (m_body m2)) (Some o))))
                end
            end
        end
    end
  else
    match chunk_insert true (m_body m) (m_hdr m) fail2 with
    | None => None
    | Some (rv, c) => if chk && negb (rv =? 0)%N then Some None else Some (Some (mkMsg [] c))
    end.

Record wentry := mkWent {
  w_aio : aioid; w_seq : nat; w_msg : msg; w_shared : bool; w_fail1 : bool; w_fail2 : bool
}.

Record ip_queue := mkQ {
  q_readers : list aioid;
  q_writers : list wentry;
  q_closed : bool;
  q_next : nat               (* ghost: number of sends so far *)
}.
Definition ip_init : ip_queue := mkQ [] [] false 0.

Inductive ip_out :=
| OWrDone (a : aioid) (seq : nat) (count : nat)   (* writer aio completes: 0, len + header len *)
| OHandoff (seq : nat) (rd : aioid) (m : msg)     (* reader aio completes with the pulled-up message *)
| ODropped (seq : nat)                            (* pull-up failed: message freed *)
| OFail (a : aioid) (rv : N).                     (* aio completes with an error *)

(* inproc_queue_run_closed: readers first, then writers *)
Definition run_closed (q : ip_queue) : ip_queue * list ip_out :=
  (mkQ [] [] (q_closed q) (q_next q),
   map (fun a => OFail a IP_ECLOSED) (q_readers q) ++ map (fun w => OFail (w_aio w) IP_ECLOSED) (q_writers q)).

(* the for(;;) loop of inproc_queue_run; every iteration removes a writer *)
Fixpoint run_loop (chk : bool) (fuel : nat) (q : ip_queue) : option (ip_queue * list ip_out) :=
  match fuel with
  | O => Some (q, [])
  | S f =>
      match q_readers q, q_writers q with
      | rd :: rds, w :: ws =>
          let done := OWrDone (w_aio w) (w_seq w) (msg_len (w_msg w) + length (m_hdr (w_msg w))) in
          match ip_pull_up chk (w_msg w) (w_shared w) (w_fail1 w) (w_fail2 w) with
          | None => None
          | Some None =>
              (* nni_msg_free(msg); continue;  -- the reader stays *)
              match run_loop chk f (mkQ (rd :: rds) ws (q_closed q) (q_next q)) with
              | None => None
              | Some (q', o) => Some (q', done :: ODropped (w_seq w) :: o)
              end
          | Some (Some pu) =>
              match run_loop chk f (mkQ rds ws (q_closed q) (q_next q)) with
              | None => None
              | Some (q', o) => Some (q', done :: OHandoff (w_seq w) rd pu :: o)
              end
          end
      | _, _ => Some (q, [])
      end
  end.

Definition queue_run (chk : bool) (q : ip_queue) : option (ip_queue * list ip_out) :=
  let '(q1, o1) := if q_closed q then run_closed q else (q, []) in
  match run_loop chk (S (length (q_writers q1))) q1 with
  | None => None
  | Some (q2, o2) => Some (q2, o1 ++ o2)
  end.

Inductive ip_op :=
| ISend (a : aioid) (m : msg) (shared fail1 fail2 : bool)   (* inproc_pipe_send *)
| IRecv (a : aioid)                                         (* inproc_pipe_recv *)
| ICancel (a : aioid) (rv : N)                              (* inproc_queue_cancel (abort / timeout) *)
| IClose.                                                   (* inproc_pipe_close *)

Definition ip_step (chk : bool) (q : ip_queue) (o : ip_op) : option (ip_queue * list ip_out) :=
  match o with
  | ISend a m sh f1 f2 =>
      queue_run chk (mkQ (q_readers q) (q_writers q ++ [mkWent a (q_next q) m sh f1 f2]) (q_closed q) (S (q_next q)))
  | IRecv a => queue_run chk (mkQ (q_readers q ++ [a]) (q_writers q) (q_closed q) (q_next q))
  | ICancel a rv =>
      (* if (nni_aio_list_active(aio)) { remove; finish_error } *)
      if existsb (N.eqb a) (q_readers q) || existsb (fun w => N.eqb a (w_aio w)) (q_writers q) then
        Some (mkQ (filter (fun x => negb (N.eqb a x)) (q_readers q))
                  (filter (fun w => negb (N.eqb a (w_aio w))) (q_writers q)) (q_closed q) (q_next q),
              [OFail a rv])
      else Some (q, [])
  | IClose => Some (run_closed (mkQ (q_readers q) (q_writers q) true (q_next q)))
  end.

Fixpoint ip_run (chk : bool) (q : ip_queue) (ops : list ip_op) : option (ip_queue * list ip_out) :=
  match ops with
  | [] => Some (q, [])
  | o :: r => match ip_step chk q o with
              | None => None
              | Some (q1, o1) => match ip_run chk q1 r with
                                 | None => None
                                 | Some (q2, o2) => Some (q2, o1 ++ o2)
                                 end
              end
  end.

(* the messages sent (with the allocation oracle's answers for them), by sequence number *)
Fixpoint sent_msgs (ops : list ip_op) : list (msg * bool * bool) :=
  match ops with
  | [] => []
  | ISend _ m _ f1 f2 :: r => (m, f1, f2) :: sent_msgs r
  | _ :: r => sent_msgs r
  end.

(* sequence numbers of the messages that left the queue through the hand-off
   (delivered or dropped), in output order *)
Definition fate_seqs (o : list ip_out) : list nat :=
  flat_map (fun x => match x with OHandoff s _ _ => [s] | ODropped s => [s] | _ => [] end) o.
Definition handoffs (o : list ip_out) : list (nat * msg) :=
  flat_map (fun x => match x with OHandoff s _ m => [(s, m)] | _ => [] end) o.
Definition drops (o : list ip_out) : list nat :=
  flat_map (fun x => match x with ODropped s => [s] | _ => [] end) o.
