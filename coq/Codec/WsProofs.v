(* WsProofs: lemmas about the WebSocket models (C16). *)
From Coq Require Import List Arith Lia Bool NArith.
From NngV Require Import Base.ListX Base.Bytes Codec.Staged Codec.WsFrameModel Codec.WsMsgModel Codec.CodecSpec.
Import ListNotations.
Local Open Scope N_scope.

(* ---- a sweep over all byte values, lifted to a universal statement ---- *)
Lemma forall_below (n : nat) (P : N -> bool) :
  forallb P (map N.of_nat (seq 0 n)) = true -> forall b, b < N.of_nat n -> P b = true.
Proof.
  intros H b Hb. rewrite forallb_forall in H. apply H.
  apply in_map_iff. exists (N.to_nat b). split; [apply N2Nat.id|].
  apply in_seq. lia.
Qed.

(* ---- masking ---- *)
Lemma mask_from_involutive key : forall l i, mask_from i key (mask_from i key l) = l.
Proof.
  induction l as [|b l IH]; intros i; cbn [mask_from]; [reflexivity|].
  rewrite IH. f_equal. rewrite N.lxor_assoc, N.lxor_nilpotent, N.lxor_0_r. reflexivity.
Qed.
Lemma mask_involutive_lemma key l : mask_bytes key (mask_bytes key l) = l.
Proof. apply mask_from_involutive. Qed.

Lemma mask_from_length key : forall l i, length (mask_from i key l) = length l.
Proof. induction l; intros; cbn [mask_from length]; [reflexivity|]. now rewrite IHl. Qed.
Lemma mask_bytes_length key l : length (mask_bytes key l) = length l.
Proof. apply mask_from_length. Qed.

Lemma succ_mod4 i : Nat.modulo (S (Nat.modulo i 4)) 4 = Nat.modulo (S i) 4.
Proof.
  rewrite <- (Nat.add_1_l (Nat.modulo i 4)), <- (Nat.add_1_l i).
  rewrite Nat.add_mod_idemp_r by lia. reflexivity.
Qed.

Lemma mask_from_mod key : forall l i, mask_from (Nat.modulo i 4) key l = mask_from i key l.
Proof.
  destruct l as [|b l]; intros i; cbn [mask_from]; [reflexivity|].
  rewrite Nat.mod_mod by lia. rewrite succ_mod4. reflexivity.
Qed.

Lemma mask_from_congr key l i j : Nat.modulo i 4 = Nat.modulo j 4 -> mask_from i key l = mask_from j key l.
Proof. intros H. rewrite <- (mask_from_mod key l i), <- (mask_from_mod key l j), H. reflexivity. Qed.

Lemma mask_from_app key : forall a b i,
  mask_from i key (a ++ b) = mask_from i key a ++ mask_from (i + length a) key b.
Proof.
  induction a as [|x a IH]; intros b i; cbn [mask_from app length].
  - now rewrite Nat.add_0_r.
  - f_equal. rewrite IH. f_equal. apply mask_from_congr.
    rewrite Nat.add_mod_idemp_l by lia. f_equal. lia.
Qed.

Lemma mask_from_add4 key l i k : mask_from (i + 4 * k) key l = mask_from i key l.
Proof.
  apply mask_from_congr. rewrite Nat.mul_comm, Nat.mod_add by lia. reflexivity.
Qed.

(* the stride loop: whole words of [w] bytes, w a multiple of four *)
Lemma stride_spec key (w q : nat) : w = (4 * q)%nat -> (0 < q)%nat -> forall fuel l d r,
  stride fuel w key l = (d, r) -> d ++ mask_from 0 key r = mask_from 0 key l.
Proof.
  intros Hw Hq. induction fuel as [|f IH]; intros l d r H; cbn [stride] in H.
  - inversion H; subst. reflexivity.
  - destruct (w <=? length l)%nat eqn:E.
    + apply Nat.leb_le in E.
      destruct (stride f w key (skipn w l)) as [d1 r1] eqn:R. inversion H; subst d r; clear H.
      specialize (IH _ _ _ R). rewrite <- app_assoc, IH. unfold xor_word.
      rewrite <- (firstn_skipn w l) at 3. rewrite mask_from_app.
      rewrite firstn_length, Nat.min_l by exact E. cbn [Nat.add].
      rewrite Hw. rewrite <- (mask_from_add4 key (skipn (4 * q) l) 0 q). reflexivity.
    + inversion H; subst. reflexivity.
Qed.

Lemma mask_strided_eq key l : mask_strided key l = mask_bytes key l.
Proof.
  unfold mask_strided, mask_bytes.
  destruct (stride (length l) 16 key l) as [d16 r16] eqn:R16.
  destruct (stride (length r16) 8 key r16) as [d8 r8] eqn:R8.
  destruct (stride (length r8) 4 key r8) as [d4 r4] eqn:R4.
  pose proof (stride_spec key 16 4 eq_refl ltac:(lia) _ _ _ _ R16) as H16.
  pose proof (stride_spec key 8 2 eq_refl ltac:(lia) _ _ _ _ R8) as H8.
  pose proof (stride_spec key 4 1 eq_refl ltac:(lia) _ _ _ _ R4) as H4.
  rewrite <- H16, <- H8, <- H4. reflexivity.
Qed.

(* ---- bit facts by sweep ---- *)
Lemma op_bits : forall op, op < 128 ->
  N.land op 127 = op /\ N.land op 128 = 0 /\ N.land (N.lor op 128) 127 = op /\ N.land (N.lor op 128) 128 = 128.
Proof.
  intros op H.
  assert (Q: forallb (fun op => (N.land op 127 =? op) && (N.land op 128 =? 0) &&
     (N.land (N.lor op 128) 127 =? op) && (N.land (N.lor op 128) 128 =? 128)) (map N.of_nat (seq 0 128)) = true)
    by (vm_compute; reflexivity).
  pose proof (forall_below 128 _ Q op H) as P.
  cbv beta in P. rewrite !andb_true_iff, !N.eqb_eq in P. tauto.
Qed.

Lemma hd_op_final (op : N) (final : bool) : op < 128 ->
  let b0 := if final then N.lor op 128 else op in hd_op b0 = op /\ hd_final b0 = final.
Proof.
  intros H. destruct (op_bits op H) as (A & B & C & D). unfold hd_op, hd_final.
  destruct final; cbv zeta.
  - rewrite C, D. split; reflexivity.
  - rewrite A, B. split; reflexivity.
Qed.

Lemma land_65535 len : len < 65536 -> N.land len 65535 = len.
Proof. intros H. change 65535 with (N.ones 16). rewrite N.land_ones. apply N.mod_small. exact H. Qed.
Lemma land_127 len : len < 128 -> N.land len 127 = len.
Proof. intros H. change 127 with (N.ones 7). rewrite N.land_ones. apply N.mod_small. exact H. Qed.

Lemma b1_mask_bits : forall b1, b1 < 128 ->
  N.land (N.lor b1 128) 127 = N.land b1 127 /\ negb (N.land (N.lor b1 128) 128 =? 0) = true /\
  negb (N.land b1 128 =? 0) = false.
Proof.
  intros b H.
  assert (Q: forallb (fun b => (N.land (N.lor b 128) 127 =? N.land b 127) &&
     negb (N.land (N.lor b 128) 128 =? 0) && negb (negb (N.land b 128 =? 0))) (map N.of_nat (seq 0 128)) = true)
    by (vm_compute; reflexivity).
  pose proof (forall_below 128 _ Q b H) as P.
  cbv beta in P. apply andb_true_iff in P. destruct P as [P P3]. apply andb_true_iff in P. destruct P as [P1 P2].
  apply N.eqb_eq in P1. apply negb_true_iff in P3. auto.
Qed.

(* header of the sender = what the receiver reads back, for every length below 2^64 *)
Definition hdr_decodes (h : list byte) (op : N) (final masked : bool) (len : N) (key : list byte) : Prop :=
  exists h0 h1 ext,
    h = h0 :: h1 :: ext /\ hd_op h0 = op /\ hd_final h0 = final /\ hd_masked h1 = masked /\
    hd_len h1 ext = (len, true) /\ hd_hlen h1 = 2 + N.of_nat (length ext) /\
    (masked = true -> hd_key h1 ext = key).

Lemma ws_hdr_unmasked op final len : op < 128 -> len < 2 ^ 64 ->
  hdr_decodes (ws_hdr op final len) op final false len [].
Proof.
  intros Hop Hlen. unfold ws_hdr, hdr_decodes.
  destruct (hd_op_final op final Hop) as [Ho Hf]. cbv zeta in Ho, Hf.
  destruct (len <? 126) eqn:E1.
  - apply N.ltb_lt in E1. eexists _, _, []. split; [reflexivity|].
    rewrite (land_127 len) by lia.
    assert (L7: hd_len7 len = len) by (unfold hd_len7; apply land_127; lia).
    assert (M: hd_masked len = false).
    { destruct (b1_mask_bits len ltac:(lia)) as (_ & _ & M3). exact M3. }
    repeat split; auto; try discriminate.
    all: unfold hd_len, hd_hlen; rewrite ?M, ?L7;
      (destruct (len =? 127) eqn:A; [apply N.eqb_eq in A; lia|]);
      (destruct (len =? 126) eqn:B; [apply N.eqb_eq in B; lia|]); reflexivity.
  - apply N.ltb_ge in E1. destruct (len <? 65536) eqn:E2.
    + apply N.ltb_lt in E2. eexists _, 126, (be_enc 2 (N.land len 65535)). split; [reflexivity|].
      rewrite land_65535 by exact E2.
      repeat split; auto; try discriminate.
      all: try (rewrite be_enc_length; reflexivity).
      all: unfold hd_len; change (hd_len7 126) with 126; cbn [N.eqb Pos.eqb];
        rewrite firstn_all2 by (rewrite be_enc_length; lia);
        rewrite be_dec_enc_small by (simpl; lia);
        replace (len <? 126) with false by (symmetry; apply N.ltb_ge; lia); reflexivity.
    + apply N.ltb_ge in E2. eexists _, 127, (be_enc 8 len). split; [reflexivity|].
      repeat split; auto; try discriminate.
      all: try (rewrite be_enc_length; reflexivity).
      all: unfold hd_len; change (hd_len7 127) with 127; cbn [N.eqb Pos.eqb];
        rewrite firstn_all2 by (rewrite be_enc_length; lia);
        rewrite be_dec_enc_small by (simpl; lia);
        replace (len <? 65536) with false by (symmetry; apply N.ltb_ge; lia); reflexivity.
Qed.

Lemma ws_hdr_masked op final len key : op < 128 -> len < 2 ^ 64 -> length key = 4%nat ->
  hdr_decodes (set_mask_bit (ws_hdr op final len) ++ key) op final true len key.
Proof.
  intros Hop Hlen Hk.
  destruct (ws_hdr_unmasked op final len Hop Hlen) as (h0 & h1 & ext & Eh & Ho & Hf & Hm & Hl & Hh & _).
  rewrite Eh. cbn [set_mask_bit app].
  assert (B1: h1 < 128).
  { unfold ws_hdr in Eh. destruct (len <? 126) eqn:E1.
    - inversion Eh; subst. apply N.ltb_lt in E1. rewrite land_127; lia.
    - destruct (len <? 65536); inversion Eh; subst; lia. }
  destruct (b1_mask_bits h1 B1) as (M1 & M2 & M3).
  exists h0, (N.lor h1 128), (ext ++ key). split; [reflexivity|].
  assert (L7: hd_len7 (N.lor h1 128) = hd_len7 h1) by (unfold hd_len7; exact M1).
  assert (Lext: (length ext = 0 \/ length ext = 2 \/ length ext = 8)%nat /\
          (hd_len7 h1 =? 127) = (length ext =? 8)%nat /\ (hd_len7 h1 =? 126) = (length ext =? 2)%nat).
  { unfold ws_hdr in Eh. destruct (len <? 126) eqn:E1.
    - inversion Eh; subst. apply N.ltb_lt in E1. unfold hd_len7. rewrite land_127 by lia.
      rewrite land_127 by lia. cbn [length].
      destruct (len =? 127) eqn:A; [apply N.eqb_eq in A; lia|].
      destruct (len =? 126) eqn:B; [apply N.eqb_eq in B; lia|]. auto.
    - destruct (len <? 65536); inversion Eh; subst; rewrite be_enc_length; cbn; auto. }
  destruct Lext as (Lc & L127 & L126).
  repeat split; auto.
  - unfold hd_len in *. rewrite L7.
    destruct (hd_len7 h1 =? 127) eqn:A.
    + symmetry in L127. apply Nat.eqb_eq in L127.
      rewrite firstn_app_exact by (symmetry; exact L127).
      rewrite firstn_all2 in Hl by lia. exact Hl.
    + destruct (hd_len7 h1 =? 126) eqn:B.
      * symmetry in L126. apply Nat.eqb_eq in L126.
        rewrite firstn_app_exact by (symmetry; exact L126).
        rewrite firstn_all2 in Hl by lia. exact Hl.
      * exact Hl.
  - unfold hd_hlen in *. rewrite L7. unfold hd_masked in *. rewrite M2.
    rewrite M3 in Hh. rewrite app_length, Hk. lia.
  - intros _. unfold hd_key. rewrite app_length, Hk.
    replace (length ext + 4 - 4)%nat with (length ext) by lia.
    apply skipn_app_exact. reflexivity.
Qed.

(* ---- the decoder stops for good after a failure ---- *)
Lemma ws_fail_halt s code : w_stage (fst (ws_fail s code)) = SHalt.
Proof. reflexivity. Qed.

Lemma ws_run_halted cfg : forall fuel s buf, w_stage s = SHalt ->
  run ws_state ws_event ws_want (ws_cb cfg) fuel s buf = (s, match fuel with O => buf | _ => [] end, []).
Proof.
  intros fuel s buf H. destruct fuel; cbn [run]; [reflexivity|].
  unfold ws_want. rewrite H. reflexivity.
Qed.

Lemma ws_feed_halted cfg d input : w_stage (d_inner d) = SHalt ->
  ws_feed cfg d input = (mkD (d_inner d) [], []).
Proof.
  intros H. unfold ws_feed, feed. rewrite ws_run_halted by exact H. reflexivity.
Qed.

(* ---- exact stages ---- *)
Lemma run_exact cfg s x f :
  ws_want s = N.of_nat (length x) -> (0 < length x)%nat -> (1 < f)%nat ->
  run ws_state ws_event ws_want (ws_cb cfg) f s x =
    let '(s1, e1) := ws_cb cfg s x in (s1, [], e1).
Proof.
  intros Hw Hx Hf. destruct f as [|f]; [lia|]. rewrite run_S.
  replace (ws_want s =? 0) with false by (symmetry; apply N.eqb_neq; lia).
  replace (N.of_nat (length x) <? ws_want s) with false by (symmetry; apply N.ltb_ge; lia).
  cbv zeta. rewrite Hw, Nat2N.id, firstn_all, skipn_all.
  destruct (ws_cb cfg s x) as [s1 e1].
  destruct f as [|f]; [lia|]. rewrite run_S.
  destruct (ws_want s1 =? 0) eqn:E; [rewrite app_nil_r; reflexivity|].
  replace (N.of_nat (length (@nil byte)) <? ws_want s1) with true.
  - rewrite app_nil_r. reflexivity.
  - symmetry. apply N.ltb_lt. apply N.eqb_neq in E. simpl. lia.
Qed.

Lemma ws_feed_exact cfg s x :
  ws_want s = N.of_nat (length x) -> (0 < length x)%nat ->
  ws_feed cfg (mkD s []) x = let '(s1, e1) := ws_cb cfg s x in (mkD s1 [], e1).
Proof.
  intros Hw Hx. unfold ws_feed, feed. cbn [d_acc d_inner app].
  rewrite run_exact by (auto; lia). destruct (ws_cb cfg s x). reflexivity.
Qed.

Lemma ws_feed_app cfg d a b :
  ws_feed cfg d (a ++ b) =
    let '(d1, e1) := ws_feed cfg d a in let '(d2, e2) := ws_feed cfg d1 b in (d2, e1 ++ e2).
Proof. apply feed_app. Qed.

(* a complete header (2 bytes + rest) read in the SHead stage *)
Lemma ws_feed_header cfg s h0 h1 ext : w_stage s = SHead ->
  hd_hlen h1 = 2 + N.of_nat (length ext) ->
  ws_feed cfg (mkD s []) (h0 :: h1 :: ext) =
    let '(s1, e1) := ws_header_done cfg s h0 h1 ext in (mkD s1 [], e1).
Proof.
  intros Hs Hh. destruct ext as [|x ext].
  - rewrite ws_feed_exact; [|unfold ws_want; rewrite Hs; reflexivity|simpl; lia].
    unfold ws_cb. rewrite Hs. replace (hd_hlen h1 =? 2) with true by (symmetry; apply N.eqb_eq; simpl in Hh; lia).
    reflexivity.
  - change (h0 :: h1 :: x :: ext) with ([h0; h1] ++ (x :: ext)). rewrite ws_feed_app.
    rewrite ws_feed_exact; [|unfold ws_want; rewrite Hs; reflexivity|simpl; lia].
    unfold ws_cb at 1. rewrite Hs.
    replace (hd_hlen h1 =? 2) with false by (symmetry; apply N.eqb_neq; cbn [length] in Hh; lia).
    rewrite ws_feed_exact; [| unfold ws_want; cbn [w_stage]; lia | simpl; lia].
    unfold ws_cb. cbn [w_stage].
    assert (E: ws_header_done cfg (mkWs (SExt h0 h1) (w_inmsg s) (w_rxq s)) h0 h1 (x :: ext) =
               ws_header_done cfg s h0 h1 (x :: ext)).
    { unfold ws_header_done, ws_fail, ws_frame_cb, ws_fail. cbn [w_inmsg w_rxq]. reflexivity. }
    rewrite E. destruct (ws_header_done cfg s h0 h1 (x :: ext)). reflexivity.
Qed.

(* ---- rule enforcement: each check fails the connection with the code computed ---- *)
Definition is_fail (r : ws_state * list ws_event) (s : ws_state) (code : N) : Prop := r = ws_fail s code.

Lemma reject_nonminimal cfg s h0 h1 ext :
  snd (hd_len h1 ext) = false -> is_fail (ws_header_done cfg s h0 h1 ext) s WS_CLOSE_PROTOCOL_ERR.
Proof. unfold is_fail, ws_header_done. destruct (hd_len h1 ext) as [len m]. cbn [snd]. intros ->. reflexivity. Qed.

Lemma reject_maxframe cfg s h0 h1 ext len :
  hd_len h1 ext = (len, true) -> 0 < c_maxframe cfg -> c_maxframe cfg < len ->
  is_fail (ws_header_done cfg s h0 h1 ext) s WS_CLOSE_TOO_BIG.
Proof.
  unfold is_fail, ws_header_done. intros -> H0 H1. cbn [negb].
  apply N.ltb_lt in H0, H1. rewrite H0, H1. reflexivity.
Qed.

Lemma reject_recvmax cfg s h0 h1 ext len :
  hd_len h1 ext = (len, true) -> (c_maxframe cfg <? len) && (0 <? c_maxframe cfg) = false ->
  c_isstream cfg = false -> 0 < c_recvmax cfg -> c_ctl_counts cfg || (N.land (hd_op h0) 8 =? 0) = true ->
  c_recvmax cfg < len + sum_len (w_rxq s) ->
  is_fail (ws_header_done cfg s h0 h1 ext) s WS_CLOSE_TOO_BIG.
Proof.
  unfold is_fail, ws_header_done, recvmax_exceeded. intros -> H0 Hs H1 Hc H2. cbn [negb]. rewrite H0, Hs, Hc.
  apply N.ltb_lt in H1, H2. rewrite H1, H2. reflexivity.
Qed.

Lemma reject_mask cfg s h0 h1 ext len :
  hd_len h1 ext = (len, true) -> (c_maxframe cfg <? len) && (0 <? c_maxframe cfg) = false ->
  recvmax_exceeded cfg s (hd_op h0) len = false ->
  hd_masked h1 = negb (c_server cfg) ->
  is_fail (ws_header_done cfg s h0 h1 ext) s WS_CLOSE_PROTOCOL_ERR.
Proof.
  unfold is_fail, ws_header_done. intros -> H0 H1 Hm. cbn [negb]. rewrite H0, H1, Hm.
  destruct (c_server cfg); reflexivity.
Qed.

Definition known_op (op : N) : bool := existsb (N.eqb op) [WS_CONT; WS_TEXT; WS_BINARY; WS_CLOSE; WS_PING; WS_PONG].

Lemma reject_unknown_op cfg s op final payload :
  known_op op = false -> is_fail (ws_frame_cb cfg s op final payload) s WS_CLOSE_PROTOCOL_ERR.
Proof.
  unfold known_op, is_fail, ws_frame_cb. cbn [existsb]. rewrite !orb_false_iff.
  intros (A & B & C & D & E & F & _). rewrite A, B, C, D, E, F. reflexivity.
Qed.

(* reserved bits are part of the opcode the decoder sees *)
Lemma rsv_is_unknown_op : forall h0, h0 < 256 -> negb (N.land h0 112 =? 0) = true -> known_op (hd_op h0) = false.
Proof.
  intros h0 H.
  assert (Q: forallb (fun h0 => implb (negb (N.land h0 112 =? 0)) (negb (known_op (hd_op h0))))
               (map N.of_nat (seq 0 256)) = true) by (vm_compute; reflexivity).
  pose proof (forall_below 256 _ Q h0 H) as P. cbv beta in P.
  intros R. rewrite R in P. cbn [implb] in P. apply negb_true_iff in P. exact P.
Qed.

Lemma reject_cont_without_start cfg s final payload :
  w_inmsg s = false -> is_fail (ws_frame_cb cfg s WS_CONT final payload) s WS_CLOSE_PROTOCOL_ERR.
Proof. unfold is_fail, ws_frame_cb. intros ->. reflexivity. Qed.

Lemma reject_data_in_message cfg s final payload :
  w_inmsg s = true -> is_fail (ws_frame_cb cfg s WS_BINARY final payload) s WS_CLOSE_PROTOCOL_ERR.
Proof. unfold is_fail, ws_frame_cb. intros ->. reflexivity. Qed.

Lemma reject_text cfg s final payload :
  c_recv_text cfg = false -> is_fail (ws_frame_cb cfg s WS_TEXT final payload) s WS_CLOSE_UNSUPP_FORMAT.
Proof. unfold is_fail, ws_frame_cb. intros ->. reflexivity. Qed.

Lemma reject_big_control cfg s op final payload :
  op = WS_PING \/ op = WS_PONG -> 125 < N.of_nat (length payload) ->
  is_fail (ws_frame_cb cfg s op final payload) s WS_CLOSE_PROTOCOL_ERR.
Proof.
  unfold is_fail, ws_frame_cb. intros [-> | ->] H; apply N.ltb_lt in H; cbn; rewrite H; reflexivity.
Qed.

(* a failure is a CloseConn event (with a close frame carrying the code), delivers nothing, and halts *)
Lemma ws_fail_shape s code :
  snd (ws_fail s code) = [ETx WS_CLOSE (be_enc 2 code); EClose code] /\ w_stage (fst (ws_fail s code)) = SHalt.
Proof. split; reflexivity. Qed.

Lemma ws_no_delivery_after_halt cfg : forall pieces d,
  w_stage (d_inner d) = SHalt -> snd (ws_feed_all cfg d pieces) = [].
Proof.
  induction pieces as [|p ps IH]; intros d H; [reflexivity|].
  unfold ws_feed_all in *. cbn [feed_all].
  change (feed ws_state ws_event ws_want (ws_cb cfg) d p) with (ws_feed cfg d p).
  rewrite ws_feed_halted by exact H.
  specialize (IH (mkD (d_inner d) []) H).
  destruct (feed_all ws_state ws_event ws_want (ws_cb cfg) (mkD (d_inner d) []) ps) as [d2 e2].
  cbn [snd] in *. exact IH.
Qed.

(* ---- sender side: the fragments of a message carry exactly its bytes ---- *)
Definition fr_payload (f : N * bool * list byte) : list byte := snd f.
Definition fr_final (f : N * bool * list byte) : bool := snd (fst f).
Definition fr_op (f : N * bool * list byte) : N := fst (fst f).

Lemma ws_fragment_concat send_text fragsize : forall fuel count data,
  (length data < fuel)%nat ->
  concat (map fr_payload (ws_fragment fuel false send_text fragsize count data)) = data.
Proof.
  induction fuel as [|f IH]; intros count data Hf; [lia|].
  cbn [ws_fragment].
  destruct ((fragsize <? N.of_nat (length data)) && (0 <? fragsize)) eqn:E.
  - apply andb_true_iff in E. destruct E as [E1 E2]. apply N.ltb_lt in E1, E2.
    cbn [map concat fr_payload snd]. rewrite IH.
    + apply firstn_skipn.
    + rewrite skipn_length. lia.
  - cbn [map concat fr_payload snd]. apply app_nil_r.
Qed.

(* shape: every fragment but the last is non-final and has exactly fragsize
   bytes; the first carries the data opcode, the others CONT *)
Lemma ws_fragment_shape send_text fragsize : forall fuel count data,
  (length data < fuel)%nat -> 0 < fragsize ->
  let frs := ws_fragment fuel false send_text fragsize count data in
  frs <> [] /\ fr_final (last frs (0, true, [])) = true /\
  Forall (fun f => fr_final f = false -> N.of_nat (length (fr_payload f)) = fragsize) frs /\
  Forall (fun f => N.of_nat (length (fr_payload f)) <= fragsize) frs /\
  fr_op (hd (0, true, []) frs) = (if count =? 0 then (if send_text then WS_TEXT else WS_BINARY) else WS_CONT) /\
  Forall (fun f => fr_op f = WS_CONT) (tl frs).
Proof.
  induction fuel as [|f IH]; intros count data Hf Hp; [lia|].
  cbn [ws_fragment]. cbv zeta.
  destruct ((fragsize <? N.of_nat (length data)) && (0 <? fragsize)) eqn:E.
  - apply andb_true_iff in E. destruct E as [E1 E2]. apply N.ltb_lt in E1, E2.
    assert (L: (length (skipn (N.to_nat fragsize) data) < f)%nat) by (rewrite skipn_length; lia).
    destruct (IH (count + fragsize) (skipn (N.to_nat fragsize) data) L Hp) as (A & B & C & D & F & G).
    cbv zeta in *.
    set (rest := ws_fragment f false send_text fragsize (count + fragsize) (skipn (N.to_nat fragsize) data)) in *.
    assert (FL: N.of_nat (length (firstn (N.to_nat fragsize) data)) = fragsize).
    { rewrite firstn_length, Nat.min_l by lia. apply N2Nat.id. }
    refine (conj _ (conj _ (conj _ (conj _ (conj _ _))))).
    + discriminate.
    + destruct rest as [|r0 rest']; [congruence|]. exact B.
    + constructor; [intros _; exact FL|exact C].
    + constructor; [cbn [fr_payload snd]; lia|exact D].
    + reflexivity.
    + cbn [tl]. destruct rest as [|r0 rest']; [constructor|].
      constructor.
      * cbn [hd] in F. replace (count + fragsize =? 0) with false in F by (symmetry; apply N.eqb_neq; lia). exact F.
      * exact G.
  - refine (conj _ (conj _ (conj _ (conj _ (conj _ _))))).
    + discriminate.
    + reflexivity.
    + constructor; [discriminate|constructor].
    + constructor; [|constructor]. cbn [fr_payload snd].
      apply andb_false_iff in E. destruct E as [E|E]; [apply N.ltb_ge in E; exact E|apply N.ltb_ge in E; lia].
    + reflexivity.
    + constructor.
Qed.

(* ---- a whole encoded frame through the decoder ---- *)
Lemma ws_frame_cb_stage cfg s st op final payload :
  ws_frame_cb cfg (mkWs st (w_inmsg s) (w_rxq s)) op final payload = ws_frame_cb cfg s op final payload.
Proof. reflexivity. Qed.

Lemma ws_feed_nil cfg s : ws_feed cfg (mkD s []) [] = (mkD s [], []).
Proof.
  unfold ws_feed, feed. cbn [d_acc d_inner app length]. rewrite run_S.
  destruct (ws_want s =? 0) eqn:E; [reflexivity|].
  replace (N.of_nat (length (@nil byte)) <? ws_want s) with true; [reflexivity|].
  symmetry. apply N.ltb_lt. apply N.eqb_neq in E. simpl. lia.
Qed.

Definition frame_letin (cfg : ws_cfg) (s : ws_state) (op len : N) : Prop :=
  (c_maxframe cfg <? len) && (0 <? c_maxframe cfg) = false /\
  recvmax_exceeded cfg s op len = false /\
  (len <? 126) || (len <=? c_allocmax cfg) = true.

Lemma ws_header_done_ok cfg s h0 h1 ext len key :
  hd_len h1 ext = (len, true) -> frame_letin cfg s (hd_op h0) len -> hd_masked h1 = c_server cfg ->
  (hd_masked h1 = true -> hd_key h1 ext = key) ->
  ws_header_done cfg s h0 h1 ext =
    if len =? 0 then ws_frame_cb cfg s (hd_op h0) (hd_final h0) []
    else (mkWs (SPayload h0 h1 (if hd_masked h1 then key else []) len) (w_inmsg s) (w_rxq s), []).
Proof.
  intros Hl (A & B & C) Hm Hk. unfold ws_header_done. rewrite Hl. cbn [negb]. rewrite A, B, Hm.
  destruct (c_server cfg) eqn:S; cbn [negb andb].
  - rewrite Hk by (rewrite Hm; reflexivity). rewrite C. reflexivity.
  - rewrite C. reflexivity.
Qed.

Lemma ws_feed_frame cfg s key op final payload :
  w_stage s = SHead -> op < 128 -> length key = 4%nat ->
  N.of_nat (length payload) < 2 ^ 64 ->
  frame_letin cfg s op (N.of_nat (length payload)) ->
  ws_feed cfg (mkD s []) (ws_encode (negb (c_server cfg)) key op final payload) =
    let '(s1, e1) := ws_frame_cb cfg s op final payload in (mkD s1 [], e1).
Proof.
  intros Hs Hop Hk Hlen Hadm. set (len := N.of_nat (length payload)) in *.
  unfold ws_encode. fold len.
  assert (HD: exists h0 h1 ext data,
     (if negb (c_server cfg) then ws_hdr op final len ++ payload
      else set_mask_bit (ws_hdr op final len) ++ firstn 4 key ++ mask_bytes key payload) = (h0 :: h1 :: ext) ++ data /\
     hd_op h0 = op /\ hd_final h0 = final /\ hd_masked h1 = c_server cfg /\ hd_len h1 ext = (len, true) /\
     hd_hlen h1 = 2 + N.of_nat (length ext) /\ (hd_masked h1 = true -> hd_key h1 ext = key) /\
     length data = length payload /\ (if hd_masked h1 then mask_bytes key data else data) = payload).
  { destruct (c_server cfg); cbn [negb].
    - destruct (ws_hdr_masked op final len key Hop Hlen Hk) as (h0 & h1 & ext & E & A & B & C & D & F & G).
      exists h0, h1, ext, (mask_bytes key payload).
      rewrite firstn_all2 by lia. rewrite app_assoc, E. rewrite C.
      repeat split; auto; try apply mask_bytes_length; try apply mask_involutive_lemma.
    - destruct (ws_hdr_unmasked op final len Hop Hlen) as (h0 & h1 & ext & E & A & B & C & D & F & G).
      exists h0, h1, ext, payload. rewrite E, C. repeat split; auto; try (intros; discriminate). }
  destruct HD as (h0 & h1 & ext & data & E & A & B & C & D & F & G & Ld & Ud).
  rewrite E, ws_feed_app, (ws_feed_header cfg s h0 h1 ext Hs F).
  rewrite <- A in Hadm. rewrite (ws_header_done_ok cfg s h0 h1 ext len key D Hadm C G).
  rewrite A, B.
  destruct (len =? 0) eqn:Z.
  - apply N.eqb_eq in Z.
    assert (Hp: payload = []) by (destruct payload; [reflexivity|unfold len in Z; simpl in Z; lia]).
    assert (Hd: data = []) by (destruct data; [reflexivity|rewrite Hp in Ld; simpl in Ld; lia]).
    clear Ud. rewrite Hp, Hd. destruct (ws_frame_cb cfg s op final []) as [s1 e1].
    rewrite ws_feed_nil, app_nil_r. reflexivity.
  - apply N.eqb_neq in Z.
    rewrite ws_feed_exact.
    + unfold ws_cb. cbn [w_stage].
      assert (U2: (if hd_masked h1 then mask_bytes (if hd_masked h1 then key else []) data else data) = payload).
      { destruct (hd_masked h1); exact Ud. }
      rewrite U2, ws_frame_cb_stage, A, B.
      destruct (ws_frame_cb cfg s op final payload). reflexivity.
    + unfold ws_want. cbn [w_stage]. rewrite Ld. reflexivity.
    + rewrite Ld. unfold len in Z. lia.
Qed.

(* ---- the encoder always chooses the shortest length form, and masks iff it is a client ---- *)
Definition minimal_form (l7 len : N) : Prop :=
  (l7 = len /\ len < 126) \/ (l7 = 126 /\ 126 <= len < 65536) \/ (l7 = 127 /\ 65536 <= len).

Lemma ws_hdr_minimal op final len : len < 2 ^ 64 ->
  exists h0 h1 ext, ws_hdr op final len = h0 :: h1 :: ext /\ h1 < 128 /\ minimal_form (hd_len7 h1) len /\
    length ext = (if len <? 126 then 0%nat else if len <? 65536 then 2%nat else 8%nat).
Proof.
  intros H. unfold ws_hdr, minimal_form.
  destruct (len <? 126) eqn:E1.
  - apply N.ltb_lt in E1. eexists _, _, []. split; [reflexivity|]. rewrite land_127 by lia.
    unfold hd_len7. rewrite land_127 by lia. split; [lia|]. split; [left; split; [reflexivity|exact E1]|reflexivity].
  - apply N.ltb_ge in E1. destruct (len <? 65536) eqn:E2.
    + apply N.ltb_lt in E2. eexists _, 126, _. split; [reflexivity|]. rewrite be_enc_length.
      split; [lia|]. split; [|reflexivity]. right; left. split; [reflexivity|lia].
    + apply N.ltb_ge in E2. eexists _, 127, _. split; [reflexivity|]. rewrite be_enc_length.
      split; [lia|]. split; [|reflexivity]. right; right. split; [reflexivity|lia].
Qed.

Lemma ws_encode_minimal_lemma server key op final payload :
  N.of_nat (length payload) < 2 ^ 64 ->
  exists h0 h1 rest, ws_encode server key op final payload = h0 :: h1 :: rest /\
    hd_masked h1 = negb server /\ minimal_form (hd_len7 h1) (N.of_nat (length payload)).
Proof.
  intros H. destruct (ws_hdr_minimal op final _ H) as (h0 & h1 & ext & E & B & M & _).
  destruct (b1_mask_bits h1 B) as (M1 & M2 & M3).
  unfold ws_encode. rewrite E. destruct server; cbn [negb set_mask_bit app].
  - exists h0, h1, (ext ++ payload). repeat split; auto.
  - exists h0, (N.lor h1 128), (ext ++ firstn 4 key ++ mask_bytes key payload).
    split; [reflexivity|]. split; [exact M2|]. unfold hd_len7 in *. rewrite M1. exact M.
Qed.

(* ---- reassembly at the level of complete frames (message mode) ---- *)
Definition is_small_control (f : N * bool * list byte) : bool :=
  ((fr_op f =? WS_PING) || (fr_op f =? WS_PONG)) && (N.of_nat (length (fr_payload f)) <=? 125).

Fixpoint ws_frames_run (cfg : ws_cfg) (s : ws_state) (frs : list (N * bool * list byte)) : ws_state * list ws_event :=
  match frs with
  | [] => (s, [])
  | f :: r =>
      match w_stage s with
      | SHalt => (s, [])
      | _ => let '(s1, e1) := ws_frame_cb cfg s (fr_op f) (fr_final f) (fr_payload f) in
             let '(s2, e2) := ws_frames_run cfg s1 r in (s2, e1 ++ e2)
      end
  end.
Definition deliveries (e : list ws_event) : list (list byte) :=
  flat_map (fun x => match x with EDeliver m => [m] | _ => [] end) e.

(* the continuation frames of one message with small control frames anywhere between them *)
Inductive msg_tail : list (N * bool * list byte) -> list (list byte) -> Prop :=
| MT_last p : msg_tail [(WS_CONT, true, p)] [p]
| MT_cont p frs ps : msg_tail frs ps -> msg_tail ((WS_CONT, false, p) :: frs) (p :: ps)
| MT_ctl f frs ps : is_small_control f = true -> msg_tail frs ps -> msg_tail (f :: frs) ps.

Lemma ws_tail_reassembles cfg : c_isstream cfg = false -> forall frs ps, msg_tail frs ps ->
  forall st q, st <> SHalt ->
  let '(s1, e1) := ws_frames_run cfg (mkWs st true q) frs in
  deliveries e1 = [concat (q ++ ps)] /\ w_inmsg s1 = false /\ w_rxq s1 = [] /\ w_stage s1 = SHead.
Proof.
  intros Hm frs ps H. induction H as [p | p frs ps H IH | f frs ps Hc H IH]; intros st q Hst.
  - cbn [ws_frames_run w_stage].
    assert (K: ws_frame_cb cfg (mkWs st true q) WS_CONT true p =
               (mkWs SHead false [], [EDeliver (concat (q ++ [p]))])).
    { unfold ws_frame_cb, ws_read_finish. cbn. rewrite Hm.
      destruct (q ++ [p]) eqn:E; [destruct q; discriminate|reflexivity]. }
    destruct st; try congruence; cbn [fr_op fr_final fr_payload fst snd]; rewrite K; cbn; auto.
  - cbn [ws_frames_run w_stage].
    assert (K: ws_frame_cb cfg (mkWs st true q) WS_CONT false p = (mkWs SHead true (q ++ [p]), [])).
    { unfold ws_frame_cb, ws_read_finish. cbn. rewrite Hm. reflexivity. }
    destruct st; try congruence; cbn [fr_op fr_final fr_payload fst snd]; rewrite K;
      specialize (IH SHead (q ++ [p]) ltac:(discriminate));
      destruct (ws_frames_run cfg (mkWs SHead true (q ++ [p])) frs) as [s2 e2];
      cbn [app]; rewrite <- app_assoc in IH; exact IH.
  - cbn [ws_frames_run w_stage].
    assert (K: exists e, ws_frame_cb cfg (mkWs st true q) (fr_op f) (fr_final f) (fr_payload f) = (mkWs SHead true q, e)
                         /\ deliveries e = []).
    { unfold is_small_control in Hc. apply andb_true_iff in Hc. destruct Hc as [Ho Hl].
      apply N.leb_le in Hl. unfold ws_frame_cb.
      apply orb_true_iff in Ho. destruct Ho as [Ho|Ho]; apply N.eqb_eq in Ho; rewrite Ho; cbn;
        replace (125 <? N.of_nat (length (fr_payload f))) with false by (symmetry; apply N.ltb_ge; lia);
        eexists; split; reflexivity. }
    destruct K as (e & K & Ke).
    destruct st; try congruence; rewrite K;
      specialize (IH SHead q ltac:(discriminate));
      destruct (ws_frames_run cfg (mkWs SHead true q) frs) as [s2 e2];
      unfold deliveries in *; rewrite flat_map_app, Ke; exact IH.
Qed.

(* a whole message: a first data frame, then the tail; or a single final frame *)
Lemma ws_message_reassembles cfg p frs ps : c_isstream cfg = false -> msg_tail frs ps ->
  let '(s1, e1) := ws_frames_run cfg ws_init ((WS_BINARY, false, p) :: frs) in
  deliveries e1 = [p ++ concat ps] /\ w_inmsg s1 = false /\ w_rxq s1 = [].
Proof.
  intros Hm H. unfold ws_init. cbn [ws_frames_run w_stage]. cbn [fr_op fr_final fr_payload fst snd].
  assert (K: ws_frame_cb cfg (mkWs SHead false []) WS_BINARY false p = (mkWs SHead true [p], [])).
  { unfold ws_frame_cb, ws_read_finish. cbn. rewrite Hm. reflexivity. }
  rewrite K.
  pose proof (ws_tail_reassembles cfg Hm frs ps H SHead [p] ltac:(discriminate)) as T.
  destruct (ws_frames_run cfg (mkWs SHead true [p]) frs) as [s2 e2].
  cbn [app]. destruct T as (A & B & C & _). rewrite A. cbn [concat app]. auto.
Qed.

(* ---- from complete frames down to bytes ---- *)
Lemma ws_read_finish_stage cfg inmsg rxq :
  w_stage (fst (ws_read_finish cfg inmsg rxq)) = SHead.
Proof.
  unfold ws_read_finish. destruct (c_isstream cfg); [reflexivity|].
  destruct inmsg; [reflexivity|]. destruct rxq; reflexivity.
Qed.

Lemma ws_frame_cb_stage_out cfg s op final payload :
  w_stage (fst (ws_frame_cb cfg s op final payload)) = SHead \/
  w_stage (fst (ws_frame_cb cfg s op final payload)) = SHalt.
Proof.
  unfold ws_frame_cb.
  repeat match goal with
         | |- context [if ?c then _ else _] => destruct c
         end; try (right; reflexivity); try (left; reflexivity); left; apply ws_read_finish_stage.
Qed.

(* the size limits hold for every frame of the run *)
Fixpoint letin_along (cfg : ws_cfg) (s : ws_state) (frs : list (N * bool * list byte)) : Prop :=
  match frs with
  | [] => True
  | f :: r =>
      match w_stage s with
      | SHalt => True
      | _ => frame_letin cfg s (fr_op f) (N.of_nat (length (fr_payload f))) /\
             letin_along cfg (fst (ws_frame_cb cfg s (fr_op f) (fr_final f) (fr_payload f))) r
      end
  end.

Definition frames_encodable (keys : list (list byte)) (frs : list (N * bool * list byte)) : Prop :=
  Forall (fun f => fr_op f < 128 /\ N.of_nat (length (fr_payload f)) < 2 ^ 64) frs /\
  (length frs <= length keys)%nat /\ Forall (fun k => length k = 4%nat) keys.

Lemma ws_frames_run_halted cfg s frs : w_stage s = SHalt -> ws_frames_run cfg s frs = (s, []).
Proof. intros H. destruct frs; cbn [ws_frames_run]; [reflexivity|]. rewrite H. reflexivity. Qed.

Lemma ws_feed_frames cfg : forall frs keys s,
  w_stage s = SHead -> frames_encodable keys frs -> letin_along cfg s frs ->
  ws_feed cfg (mkD s []) (ws_encode_frames (negb (c_server cfg)) keys frs) =
    let '(s1, e1) := ws_frames_run cfg s frs in (mkD s1 [], e1).
Proof.
  induction frs as [|f frs IH]; intros keys s Hs (Hf & Hk & Hk4) Ha.
  - cbn [ws_encode_frames ws_frames_run]. apply ws_feed_nil.
  - destruct f as [[op final] p]. cbn [ws_encode_frames ws_frames_run]. rewrite Hs.
    cbn [letin_along] in Ha. rewrite Hs in Ha. cbn [fr_op fr_final fr_payload fst snd] in *.
    destruct Ha as [Ha1 Ha2].
    inversion Hf as [|? ? [Hop Hlen] Hf']; subst. cbn [fr_op fr_payload fst snd] in *.
    destruct keys as [|k keys]; [cbn in Hk; lia|]. inversion Hk4 as [|? ? Hk0 Hk4']; subst.
    cbn [hd tl]. rewrite ws_feed_app.
    rewrite (ws_feed_frame cfg s k op final p Hs Hop Hk0 Hlen Ha1).
    destruct (ws_frame_cb_stage_out cfg s op final p) as [St|St];
      destruct (ws_frame_cb cfg s op final p) as [s1 e1]; cbn [fst] in *.
    + assert (FE: frames_encodable keys frs) by (repeat split; auto; cbn in Hk; lia).
      rewrite (IH keys s1 St FE Ha2).
      destruct (ws_frames_run cfg s1 frs) as [s2 e2]. reflexivity.
    + rewrite ws_feed_halted by exact St. rewrite ws_frames_run_halted by exact St.
      cbn [d_inner]. reflexivity.
Qed.

(* with no configured limits every frame is letin *)
Lemma letin_unlimited cfg : c_maxframe cfg = 0 -> c_recvmax cfg = 0 -> forall frs s,
  Forall (fun f => N.of_nat (length (fr_payload f)) <= c_allocmax cfg) frs -> letin_along cfg s frs.
Proof.
  intros M R. induction frs as [|f frs IH]; intros s H; cbn [letin_along]; [exact I|].
  inversion H; subst.
  assert (A: frame_letin cfg s (fr_op f) (N.of_nat (length (fr_payload f)))).
  { unfold frame_letin, recvmax_exceeded. rewrite M, R. change (0 <? 0) with false.
    rewrite !andb_false_r. cbn [andb]. split; [reflexivity|]. split; [reflexivity|].
    apply orb_true_iff. right. apply N.leb_le. assumption. }
  destruct (w_stage s); try exact I; (split; [exact A|apply IH; assumption]).
Qed.

(* ---- fragments of a send, run through the receive path of the peer ---- *)
Lemma ws_fragment_run cfg send_text fragsize : c_isstream cfg = false ->
  (send_text = true -> c_recv_text cfg = true) ->
  forall fuel count data q, (length data < fuel)%nat -> (count = 0 -> q = []) ->
  let '(s1, e1) := ws_frames_run cfg (mkWs SHead (negb (count =? 0)) q)
                     (ws_fragment fuel false send_text fragsize count data) in
  deliveries e1 = [concat q ++ data] /\ w_stage s1 = SHead /\ w_inmsg s1 = false /\ w_rxq s1 = [].
Proof.
  intros Hm Ht. induction fuel as [|f IH]; intros count data q Hf Hq; [lia|].
  cbn [ws_fragment].
  (* what the frame callback does with a data frame of this position *)
  assert (K: forall final p,
    ws_frame_cb cfg (mkWs SHead (negb (count =? 0)) q)
      (if count =? 0 then (if send_text then WS_TEXT else WS_BINARY) else WS_CONT) final p =
    ws_read_finish cfg (negb final) (q ++ [p])).
  { intros final p. unfold ws_frame_cb. cbn [w_inmsg w_rxq]. destruct (count =? 0) eqn:Z; cbn [negb].
    - destruct send_text.
      + rewrite (Ht eq_refl). cbn. destruct final; reflexivity.
      + cbn. destruct final; reflexivity.
    - cbn. destruct final; reflexivity. }
  destruct ((fragsize <? N.of_nat (length data)) && (0 <? fragsize)) eqn:E.
  - apply andb_true_iff in E. destruct E as [E1 E2]. apply N.ltb_lt in E1, E2.
    cbn [ws_frames_run w_stage fr_op fr_final fr_payload fst snd]. rewrite K.
    unfold ws_read_finish. rewrite Hm. cbn [negb].
    assert (L: (length (skipn (N.to_nat fragsize) data) < f)%nat) by (rewrite skipn_length; lia).
    specialize (IH (count + fragsize) (skipn (N.to_nat fragsize) data) (q ++ [firstn (N.to_nat fragsize) data]) L).
    replace (count + fragsize =? 0) with false in IH by (symmetry; apply N.eqb_neq; lia). cbn [negb] in IH.
    specialize (IH ltac:(intros; lia)).
    destruct (ws_frames_run cfg (mkWs SHead true (q ++ [firstn (N.to_nat fragsize) data]))
                (ws_fragment f false send_text fragsize (count + fragsize) (skipn (N.to_nat fragsize) data))) as [s2 e2].
    cbn [app]. destruct IH as (A & B). split; [|exact B].
    rewrite A. rewrite concat_app. cbn [concat]. rewrite app_nil_r, <- app_assoc, firstn_skipn. reflexivity.
  - cbn [ws_frames_run w_stage fr_op fr_final fr_payload fst snd]. rewrite K.
    unfold ws_read_finish. rewrite Hm. cbn [negb].
    destruct (q ++ [data]) eqn:Q; [destruct q; discriminate|]. rewrite <- Q.
    cbn. rewrite concat_app. cbn [concat]. rewrite !app_nil_r. auto.
Qed.

(* ---- whole well-formed frame sequences: several messages, control frames anywhere ---- *)
Lemma ws_frames_run_app cfg : forall a b s,
  ws_frames_run cfg s (a ++ b) =
    let '(s1, e1) := ws_frames_run cfg s a in let '(s2, e2) := ws_frames_run cfg s1 b in (s2, e1 ++ e2).
Proof.
  induction a as [|f a IH]; intros b s.
  - cbn [app ws_frames_run]. destruct (ws_frames_run cfg s b). reflexivity.
  - cbn [app ws_frames_run]. destruct (w_stage s) eqn:St;
      try (destruct (ws_frame_cb cfg s (fr_op f) (fr_final f) (fr_payload f)) as [s1 e1]; rewrite IH;
           destruct (ws_frames_run cfg s1 a) as [s2 e2]; destruct (ws_frames_run cfg s2 b) as [s3 e3];
           rewrite app_assoc; reflexivity).
    rewrite ws_frames_run_halted by exact St. reflexivity.
Qed.

Definition data_op (cfg : ws_cfg) (op : N) : Prop := op = WS_BINARY \/ (op = WS_TEXT /\ c_recv_text cfg = true).

Inductive msg_seq (cfg : ws_cfg) : list (N * bool * list byte) -> list (list byte) -> Prop :=
| MS_nil : msg_seq cfg [] []
| MS_ctl f frs ms : is_small_control f = true -> msg_seq cfg frs ms -> msg_seq cfg (f :: frs) ms
| MS_single op p frs ms : data_op cfg op -> msg_seq cfg frs ms -> msg_seq cfg ((op, true, p) :: frs) (p :: ms)
| MS_frag op p tail ps frs ms : data_op cfg op -> msg_tail tail ps -> msg_seq cfg frs ms ->
    msg_seq cfg ((op, false, p) :: tail ++ frs) ((p ++ concat ps) :: ms).

Lemma data_frame_cb cfg op final p : c_isstream cfg = false -> data_op cfg op ->
  ws_frame_cb cfg (mkWs SHead false []) op final p =
    if final then (mkWs SHead false [], [EDeliver p]) else (mkWs SHead true [p], []).
Proof.
  intros Hm [-> | [-> Ht]]; unfold ws_frame_cb, ws_read_finish; cbn; rewrite ?Ht, Hm; cbn;
    destruct final; cbn; rewrite ?app_nil_r; reflexivity.
Qed.

Lemma ws_sequence_reassembles cfg : c_isstream cfg = false -> forall frs ms, msg_seq cfg frs ms ->
  let '(s1, e1) := ws_frames_run cfg (mkWs SHead false []) frs in
  deliveries e1 = ms /\ s1 = mkWs SHead false [].
Proof.
  intros Hm frs ms H. induction H as [| f frs ms Hc H IH | op p frs ms Ho H IH | op p tail ps frs ms Ho Ht H IH].
  - cbn. auto.
  - cbn [ws_frames_run w_stage].
    assert (K: exists e, ws_frame_cb cfg (mkWs SHead false []) (fr_op f) (fr_final f) (fr_payload f) =
                         (mkWs SHead false [], e) /\ deliveries e = []).
    { unfold is_small_control in Hc. apply andb_true_iff in Hc. destruct Hc as [Ho Hl].
      apply N.leb_le in Hl. unfold ws_frame_cb.
      apply orb_true_iff in Ho. destruct Ho as [Ho|Ho]; apply N.eqb_eq in Ho; rewrite Ho; cbn;
        replace (125 <? N.of_nat (length (fr_payload f))) with false by (symmetry; apply N.ltb_ge; lia);
        eexists; split; reflexivity. }
    destruct K as (e & K & Ke). rewrite K.
    destruct (ws_frames_run cfg (mkWs SHead false []) frs) as [s2 e2].
    unfold deliveries in *. rewrite flat_map_app, Ke. exact IH.
  - cbn [ws_frames_run w_stage fr_op fr_final fr_payload fst snd]. rewrite (data_frame_cb cfg op true p Hm Ho).
    destruct (ws_frames_run cfg (mkWs SHead false []) frs) as [s2 e2].
    destruct IH as [A B]. unfold deliveries in *. cbn [app flat_map]. rewrite A. auto.
  - cbn [ws_frames_run w_stage fr_op fr_final fr_payload fst snd]. rewrite (data_frame_cb cfg op false p Hm Ho).
    rewrite ws_frames_run_app.
    pose proof (ws_tail_reassembles cfg Hm tail ps Ht SHead [p] ltac:(discriminate)) as T.
    destruct (ws_frames_run cfg (mkWs SHead true [p]) tail) as [s2 e2].
    destruct T as (A & B & C & D).
    assert (S2: s2 = mkWs SHead false []) by (destruct s2; cbn in *; subst; reflexivity).
    rewrite S2. destruct (ws_frames_run cfg (mkWs SHead false []) frs) as [s3 e3].
    destruct IH as [A3 B3]. cbn [app]. unfold deliveries in *. rewrite flat_map_app, A, A3. cbn. auto.
Qed.

(* ---- what the encoder emits satisfies the independent grammar (CodecSpec.wf_ws_frame) ---- *)
Lemma lor128_add : forall b, b < 128 -> N.lor b 128 = 128 + b.
Proof.
  intros b H.
  assert (Q: forallb (fun b => N.lor b 128 =? 128 + b) (map N.of_nat (seq 0 128)) = true) by (vm_compute; reflexivity).
  apply N.eqb_eq. exact (forall_below 128 _ Q b H).
Qed.

Lemma lxor_byte : forall a b, a < 256 -> b < 256 -> N.lxor a b < 256.
Proof.
  intros a b Ha Hb.
  assert (Q: forallb (fun a => forallb (fun b => N.lxor a b <? 256) (map N.of_nat (seq 0 256)))
               (map N.of_nat (seq 0 256)) = true) by (vm_compute; reflexivity).
  pose proof (forall_below 256 _ Q a Ha) as P. cbv beta in P.
  apply N.ltb_lt. exact (forall_below 256 _ P b Hb).
Qed.

Lemma nth_bytes_ok key i : bytes_ok key -> nth i key 0 < 256.
Proof.
  intros H. destruct (Nat.lt_ge_cases i (length key)) as [L|L].
  - unfold bytes_ok in H. rewrite Forall_forall in H. apply H. apply nth_In. exact L.
  - rewrite nth_overflow by exact L. lia.
Qed.

Lemma mask_from_ok key : bytes_ok key -> forall l i, bytes_ok l -> bytes_ok (mask_from i key l).
Proof.
  intros Hk. induction l as [|b l IH]; intros i H; cbn [mask_from]; [constructor|].
  inversion H; subst. constructor; [|apply IH; assumption].
  apply lxor_byte; [assumption|apply nth_bytes_ok; exact Hk].
Qed.

Lemma ws_hdr_shape op final len : op < 128 -> len < 2 ^ 63 ->
  exists len7 ext, ws_hdr op final len = [(if final then 1 else 0) * 128 + op; len7] ++ ext /\ len7 < 128 /\
    (len7 < 126 -> ext = [] /\ len = len7) /\
    (len7 = 126 -> length ext = 2%nat /\ be_dec ext = len /\ 126 <= len) /\
    (len7 = 127 -> length ext = 8%nat /\ be_dec ext = len /\ 65536 <= len) /\ bytes_ok ext.
Proof.
  intros Hop Hlen.
  assert (B0: (if final then N.lor op 128 else op) = (if final then 1 else 0) * 128 + op).
  { destruct final; [rewrite lor128_add by exact Hop; lia|lia]. }
  assert (H64: len < 2 ^ 64) by (eapply N.lt_trans; [exact Hlen|reflexivity]).
  unfold ws_hdr. rewrite B0.
  destruct (len <? 126) eqn:E1.
  - apply N.ltb_lt in E1. exists len, []. rewrite land_127 by lia.
    split; [reflexivity|]. split; [lia|]. split; [auto|]. split; [lia|]. split; [lia|constructor].
  - apply N.ltb_ge in E1. destruct (len <? 65536) eqn:E2.
    + apply N.ltb_lt in E2. exists 126, (be_enc 2 len). rewrite land_65535 by exact E2.
      split; [reflexivity|]. split; [lia|]. split; [lia|]. split.
      * intros _. rewrite be_enc_length, be_dec_enc_small by (simpl; lia). auto.
      * split; [lia|apply be_enc_ok].
    + apply N.ltb_ge in E2. exists 127, (be_enc 8 len).
      split; [reflexivity|]. split; [lia|]. split; [lia|]. split; [lia|]. split.
      * intros _. rewrite be_enc_length, be_dec_enc_small by (simpl; lia). auto.
      * apply be_enc_ok.
Qed.

Lemma ws_encode_wf (server : bool) (key : list byte) (op : N) (final : bool) (payload : list byte) :
  ws_known_op op -> (8 <= op -> final = true /\ N.of_nat (length payload) <= 125) ->
  N.of_nat (length payload) < 2 ^ 63 -> bytes_ok payload -> bytes_ok key -> length key = 4%nat ->
  wf_ws_frame server (ws_encode server key op final payload).
Proof.
  intros Hop Hctl Hlen Hp Hk Hk4.
  assert (Hop128: op < 128) by (unfold ws_known_op in Hop; cbn in Hop; intuition lia).
  destruct (ws_hdr_shape op final _ Hop128 Hlen) as (len7 & ext & E & L7 & S7 & S16 & S64 & Eok).
  unfold ws_encode. cbv zeta. rewrite E. unfold wf_ws_frame.
  exists (if final then 1 else 0), op, len7, ext.
  assert (Common: (if final then 1 else 0) < 2 /\ ws_known_op op /\ len7 < 128) by (destruct final; repeat split; auto; lia).
  assert (Ctl: 8 <= op -> (if final then 1 else 0) = 1 /\ len7 <= 125).
  { intros H8. destruct (Hctl H8) as [-> Hl]. split; [reflexivity|].
    destruct (N.lt_ge_cases len7 126) as [A|A]; [lia|].
    destruct (N.eq_dec len7 126) as [B|B]; [destruct (S16 B) as (_ & _ & C); lia|].
    assert (B7: len7 = 127) by lia. destruct (S64 B7) as (_ & _ & C). lia. }
  assert (B0ok: (if final then 1 else 0) * 128 + op < 256) by (destruct final; lia).
  destruct server.
  - exists [], payload. cbn [app].
    assert (Bok: bytes_ok (((if final then 1 else 0) * 128 + op) :: (0 + len7) :: ext ++ payload)).
    { unfold bytes_ok. constructor; [exact B0ok|]. constructor; [lia|].
      apply Forall_app. split; [exact Eok|exact Hp]. }
    split; [reflexivity|]. destruct Common as (A & B & C). repeat split; auto.
    all: try match goal with
      | H : _ < 126 |- _ => destruct (S7 H) as [? ?]
      | H : _ = 126 |- _ => destruct (S16 H) as (? & ? & ?)
      | H : _ = 127 |- _ => destruct (S64 H) as (? & ? & ?)
      | H : 8 <= _ |- _ => destruct (Ctl H) as [? ?]
      end; auto; try congruence; try lia.
  - exists key, (mask_bytes key payload). cbn [set_mask_bit app].
    rewrite lor128_add by exact L7. rewrite firstn_all2 by lia.
    assert (Bok: bytes_ok (((if final then 1 else 0) * 128 + op) :: (128 + len7) :: ext ++ key ++ mask_bytes key payload)).
    { unfold bytes_ok. constructor; [exact B0ok|]. constructor; [lia|].
      apply Forall_app. split; [exact Eok|]. apply Forall_app. split; [exact Hk|].
      apply mask_from_ok; assumption. }
    split; [reflexivity|]. rewrite mask_bytes_length.
    destruct Common as (A & B & C). repeat split; auto.
    all: try match goal with
      | H : _ < 126 |- _ => destruct (S7 H) as [? ?]
      | H : _ = 126 |- _ => destruct (S16 H) as (? & ? & ?)
      | H : _ = 127 |- _ => destruct (S64 H) as (? & ? & ?)
      | H : 8 <= _ |- _ => destruct (Ctl H) as [? ?]
      end; auto; try congruence; try lia.
Qed.


(* ---- the byte-level statements ---- *)
Lemma ws_reassembly_bytes cfg frs ms keys :
  c_isstream cfg = false -> msg_seq cfg frs ms -> frames_encodable keys frs -> letin_along cfg ws_init frs ->
  forall p rest, concat (p :: rest) = ws_encode_frames (negb (c_server cfg)) keys frs ->
  let '(d, e) := ws_feed_all cfg ws_dinit (p :: rest) in deliveries e = ms /\ d = ws_dinit.
Proof.
  intros Hm Hs He Ha p rest Hc.
  unfold ws_feed_all. rewrite (feed_all_concat ws_state ws_event ws_want (ws_cb cfg)), Hc.
  change (feed ws_state ws_event ws_want (ws_cb cfg)) with (ws_feed cfg).
  unfold ws_dinit. rewrite (ws_feed_frames cfg frs keys ws_init eq_refl He Ha).
  pose proof (ws_sequence_reassembles cfg Hm frs ms Hs) as R. unfold ws_init in *.
  destruct (ws_frames_run cfg (mkWs SHead false []) frs) as [s1 e1]. destruct R as [A B]. subst s1. auto.
Qed.

Lemma ws_fragment_encodable send_text fragsize : forall fuel count data,
  Forall (fun f => fr_op f < 128 /\ N.of_nat (length (fr_payload f)) <= N.of_nat (length data))
         (ws_fragment fuel false send_text fragsize count data).
Proof.
  assert (O: forall count, (if count =? 0 then if send_text then WS_TEXT else WS_BINARY else WS_CONT) < 128).
  { intros count. destruct (count =? 0); [destruct send_text|]; reflexivity. }
  induction fuel as [|f IH]; intros count data; cbn [ws_fragment]; [constructor|].
  destruct ((fragsize <? N.of_nat (length data)) && (0 <? fragsize)).
  - constructor.
    + cbn [fr_op fr_payload fst snd]. split; [apply O|]. rewrite firstn_length. lia.
    + eapply Forall_impl; [|apply IH]. cbv beta. intros fr [A B]. split; [exact A|].
      rewrite skipn_length in B. lia.
  - constructor; [|constructor]. cbn [fr_op fr_payload fst snd]. split; [apply O|lia].
Qed.

Lemma ws_fragmentation_bytes cfg send_text fragsize data keys :
  c_isstream cfg = false -> (send_text = true -> c_recv_text cfg = true) ->
  N.of_nat (length data) < 2 ^ 64 ->
  let frs := ws_send_frames false send_text fragsize data in
  (length frs <= length keys)%nat -> Forall (fun k => length k = 4%nat) keys ->
  letin_along cfg ws_init frs ->
  forall p rest, concat (p :: rest) = ws_encode_frames (negb (c_server cfg)) keys frs ->
  let '(d, e) := ws_feed_all cfg ws_dinit (p :: rest) in deliveries e = [data] /\ d = ws_dinit.
Proof.
  intros Hm Ht Hl frs Hk Hk4 Ha p rest Hc.
  assert (He: frames_encodable keys frs).
  { split; [|split; assumption]. unfold frs, ws_send_frames.
    eapply Forall_impl; [|apply ws_fragment_encodable]. cbv beta. intros f [A B]. split; [exact A|lia]. }
  unfold ws_feed_all. rewrite (feed_all_concat ws_state ws_event ws_want (ws_cb cfg)), Hc.
  change (feed ws_state ws_event ws_want (ws_cb cfg)) with (ws_feed cfg).
  unfold ws_dinit. rewrite (ws_feed_frames cfg frs keys ws_init eq_refl He Ha).
  pose proof (ws_fragment_run cfg send_text fragsize Hm Ht (S (length data)) 0 data [] (Nat.lt_succ_diag_r _) (fun _ => eq_refl)) as R.
  change (negb (0 =? 0)) with false in R. unfold frs, ws_send_frames, ws_init.
  destruct (ws_frames_run cfg (mkWs SHead false []) (ws_fragment (S (length data)) false send_text fragsize 0 data)) as [s1 e1].
  destruct R as (A & B & C & D). cbn [concat app] in A. split; [exact A|].
  destruct s1; cbn in *; subst; reflexivity.
Qed.
