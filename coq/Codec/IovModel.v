(* IovModel: executable model of the scatter/gather vector of an aio
   (src/core/aio.c: nni_aio_set_iov, nni_aio_iov_count, nni_aio_iov_advance)
   and of the transports' send loop "advance by n, resubmit while count > 0"
   (tcptran_pipe_send_cb / ipc_pipe_send_cb / sfd_tran_pipe_send_cb).
   Definitions only.

   a_iov is the fixed array of NNI_AIO_MAX_IOV entries; every array access goes
   through the checked primitives arr_get / arr_set (None = out of bounds or a
   failed NNI_ASSERT).  An iov_buf is an offset into one arena of bytes (None =
   NULL); lengths and offsets are N (size_t, the wrap of a sum of lengths is not
   represented). *)
From Coq Require Import List Arith Lia Bool NArith.
From NngV Require Import Base.ListX.
Import ListNotations.
Local Open Scope N_scope.

Definition MAX_IOV : nat := 8.          (* NNI_AIO_MAX_IOV; tied to Gen/Consts.v in Properties_C01 *)
Definition IOV_EINVAL : N := 3.

Record iov := mkIov { iv_ptr : option N; iv_len : N }.
Definition iov_null : iov := mkIov None 0.

Record aiov := mkAiov { a_iov : list iov; a_nio : nat }.
Definition aiov0 : aiov := mkAiov (repeat iov_null MAX_IOV) 0.   (* nni_aio_init: zeroed *)

Definition arr_get (l : list iov) (i : nat) : option iov := nth_error l i.
Fixpoint arr_set (l : list iov) (i : nat) (v : iov) : option (list iov) :=
  match l, i with
  | [], _ => None
  | _ :: r, O => Some (v :: r)
  | x :: r, S k => match arr_set r k v with Some r' => Some (x :: r') | None => None end
  end.

(* nni_aio_set_iov: for (i = 0; i < nio; i++) a_iov[i] = iov[i]; a_nio = nio *)
Fixpoint copy_in (dst : list iov) (i : nat) (src : list iov) : option (list iov) :=
  match src with
  | [] => Some dst
  | e :: r => match arr_set dst i e with Some d => copy_in d (S i) r | None => None end
  end.
Definition set_iov (a : aiov) (src : list iov) : option (N * aiov) :=
  if (MAX_IOV <? length src)%nat then Some (IOV_EINVAL, a)
  else match copy_in (a_iov a) 0 src with
       | Some d => Some (0, mkAiov d (length src))
       | None => None
       end.

(* nni_aio_iov_count: sum of a_iov[0 .. a_nio-1].iov_len *)
Fixpoint count_from (l : list iov) (i n : nat) : option N :=
  match n with
  | O => Some 0
  | S k => match arr_get l i, count_from l (S i) k with
           | Some e, Some c => Some (iv_len e + c)
           | _, _ => None
           end
  end.
Definition iov_count (a : aiov) : option N := count_from (a_iov a) 0 (a_nio a).

(* for (i = 0; i < a_nio; i++) a_iov[i] = a_iov[i + 1];   (a_nio already decremented) *)
Fixpoint shift_down (l : list iov) (i k : nat) : option (list iov) :=
  match k with
  | O => Some l
  | S k' => match arr_get l (S i) with
            | None => None
            | Some e => match arr_set l i e with
                        | None => None
                        | Some l' => shift_down l' (S i) k'
                        end
            end
  end.

(* nni_aio_iov_advance.  Every iteration that does not return decrements a_nio,
   so a_nio + 1 iterations suffice; running out of fuel coincides with the
   failed NNI_ASSERT(aio->a_nio != 0). *)
Fixpoint advance_loop (fuel : nat) (a : aiov) (n residual : N) : option (aiov * N) :=
  if n =? 0 then Some (a, residual) else
  match fuel with
  | O => None
  | S f =>
      if (a_nio a =? 0)%nat then None else
      match arr_get (a_iov a) 0 with
      | None => None
      | Some e0 =>
          if n <? iv_len e0 then
            match arr_set (a_iov a) 0 (mkIov (option_map (N.add n) (iv_ptr e0)) (iv_len e0 - n)) with
            | None => None
            | Some l => Some (mkAiov l (a_nio a), 0)
            end
          else
            let nio := (a_nio a - 1)%nat in
            match shift_down (a_iov a) 0 nio with
            | None => None
            | Some l1 =>
                match arr_set l1 nio iov_null with
                | None => None
                | Some l2 => advance_loop f (mkAiov l2 nio) (n - iv_len e0) (residual - iv_len e0)
                end
            end
      end
  end.
Definition iov_advance (a : aiov) (n : N) : option (aiov * N) := advance_loop (S (a_nio a)) a n n.

(* ---- what a vector denotes ---- *)
Definition live (a : aiov) : list iov := firstn (a_nio a) (a_iov a).

Definition deref (mem : list byte) (e : iov) : option (list byte) :=
  match iv_ptr e with
  | Some p => sub mem (N.to_nat p) (N.to_nat (iv_len e))
  | None => if iv_len e =? 0 then Some [] else None
  end.
Fixpoint iov_bytes (mem : list byte) (l : list iov) : option (list byte) :=
  match l with
  | [] => Some []
  | e :: r => match deref mem e, iov_bytes mem r with
              | Some d, Some b => Some (d ++ b)
              | _, _ => None
              end
  end.

(* ---- the send loop ----
   One completion of nng_stream_send on the txaio with [n] bytes accepted:
   n = nni_aio_count(txaio); nni_aio_iov_advance(txaio, n);
   if (nni_aio_iov_count(txaio) > 0) resubmit.   Result: the vector and
   "resubmitted". *)
Definition send_cb (a : aiov) (n : N) : option (aiov * bool) :=
  match iov_advance a n with
  | None => None
  | Some (a', _) => match iov_count a' with
                    | None => None
                    | Some c => Some (a', 0 <? c)
                    end
  end.

(* The stream underneath (posix *_dowrite: the non-empty entries go to
   sendmsg/writev) accepts the first min(k, count) bytes of what the vector
   denotes, for the successive k of [ks]; an exhausted [ks] leaves the
   operation pending.  Result: bytes handed to the stream, vector, finished. *)
Fixpoint send_loop (mem : list byte) (a : aiov) (ks : list N) : option (list byte * aiov * bool) :=
  match ks with
  | [] => Some ([], a, false)
  | k :: r =>
      match iov_count a, iov_bytes mem (live a) with
      | Some c, Some bytes =>
          let n := N.min k c in
          match send_cb a n with
          | None => None
          | Some (a', true) =>
              match send_loop mem a' r with
              | None => None
              | Some (w, a'', fin) => Some (firstn (N.to_nat n) bytes ++ w, a'', fin)
              end
          | Some (a', false) => Some (firstn (N.to_nat n) bytes, a', true)
          end
      | _, _ => None
      end
  end.
