(* WsBpModel: back-pressure in WebSocket message mode -- when does the
   connection read the next frame, and when is a message handed over
   (src/supplemental/websocket/websocket.c: ws_start_read, ws_read_frame_cb
   for data frames, ws_read_finish_msg, ws_str_recv).  Definitions only.

   Frame level: the byte-level decoding of a frame is Codec/WsMsgModel.v (C16),
   which assumes a receiver is waiting; here the receivers come and go.  The
   gate of ws_start_read acts between frames only, so arrivals are whole
   frames.  Data frames of well-formed sequences only (control frames never
   enter rxq; a rule violation closes the connection: C16).

   [gate] = true is the text of ws_start_read: "if nobody is waiting for recv
   and we already have a data frame, stop reading"; false is the variant "...
   and we are in the middle of a message" (reads ahead across message
   boundaries while nobody receives).  Which one the source has is the
   generated constant C01_WS_READ_GATE_RXQ. *)
From Coq Require Import List Arith Lia Bool NArith.
From NngV Require Import Base.ListX.
Import ListNotations.

Record dframe := mkFr { f_final : bool; f_payload : list byte }.

Record bp := mkBp {
  b_inmsg : bool;                 (* ws->inmsg *)
  b_rxq : list (list byte);       (* ws->rxq: payloads of the frames queued *)
  b_recvq : nat;                  (* number of receive aios waiting (ws->recvq) *)
  b_pending : list dframe         (* arrived on the connection, not read yet *)
}.
Definition bp_init : bp := mkBp false [] 0 [].

Inductive bp_ev := BArrive (fr : dframe) | BRecv.

Definition is_nil {A} (l : list A) : bool := match l with [] => true | _ => false end.

(* ws_read_finish_msg: a complete message queued and a receiver waiting *)
Definition bp_finish (s : bp) : bp * list (list byte) :=
  if b_inmsg s || is_nil (b_rxq s) || (b_recvq s =? 0) then (s, [])
  else (mkBp false [] (b_recvq s - 1) (b_pending s), [concat (b_rxq s)]).

(* ws_start_read: may the next frame be read? *)
Definition bp_may_read (gate : bool) (s : bp) : bool :=
  if gate then negb ((b_recvq s =? 0) && negb (is_nil (b_rxq s)))
  else negb ((b_recvq s =? 0) && b_inmsg s).

(* read frames while allowed: ws_read_frame_cb (BINARY: inmsg = !final; CONT:
   final clears inmsg), append to rxq, ws_read_finish, ws_start_read *)
Fixpoint bp_pump (gate : bool) (fuel : nat) (s : bp) : bp * list (list byte) :=
  match fuel with
  | O => (s, [])
  | S f =>
      if bp_may_read gate s then
        match b_pending s with
        | [] => (s, [])
        | fr :: r =>
            let s1 := mkBp (negb (f_final fr)) (b_rxq s ++ [f_payload fr]) (b_recvq s) r in
            let '(s2, d) := bp_finish s1 in
            let '(s3, d') := bp_pump gate f s2 in
            (s3, d ++ d')
        end
      else (s, [])
  end.

Definition bp_step (gate : bool) (s : bp) (e : bp_ev) : bp * list (list byte) :=
  match e with
  | BArrive fr =>
      let s1 := mkBp (b_inmsg s) (b_rxq s) (b_recvq s) (b_pending s ++ [fr]) in
      bp_pump gate (S (length (b_pending s1))) s1
  | BRecv =>
      (* ws_str_recv: append to recvq; the first waiter runs ws_read_finish; ws_start_read *)
      let s1 := mkBp (b_inmsg s) (b_rxq s) (S (b_recvq s)) (b_pending s) in
      let '(s2, d) := if b_recvq s =? 0 then bp_finish s1 else (s1, []) in
      let '(s3, d') := bp_pump gate (S (length (b_pending s2))) s2 in
      (s3, d ++ d')
  end.

Fixpoint bp_run (gate : bool) (s : bp) (evs : list bp_ev) : bp * list (list byte) :=
  match evs with
  | [] => (s, [])
  | e :: r => let '(s1, d) := bp_step gate s e in let '(s2, d') := bp_run gate s1 r in (s2, d ++ d')
  end.

(* the frames that have arrived, and the messages they spell: FIN-delimited groups *)
Definition arrived (evs : list bp_ev) : list dframe :=
  flat_map (fun e => match e with BArrive fr => [fr] | BRecv => [] end) evs.
Definition grp (st : list (list byte) * list byte) (fr : dframe) : list (list byte) * list byte :=
  if f_final fr then (fst st ++ [snd st ++ f_payload fr], []) else (fst st, snd st ++ f_payload fr).
Definition groups_from (st : list (list byte) * list byte) (frs : list dframe) := fold_left grp frs st.
Definition messages (frs : list dframe) : list (list byte) := fst (groups_from ([], []) frs).
