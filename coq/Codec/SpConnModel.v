(* SpConnModel: the receive path of one connection as a TOTAL function over
   ARBITRARY byte streams (C11), composed from
     - the SP negotiation (the nego_ functions of SpFrameModel), then the protocol's pipe_start
       test of the peer's protocol number,
     - the frame decoder (SpFrameModel.sp_feed: the staged form of the receiver,
       which the receiver as coded refines -- Properties_C01.rx_refines_staged),
     - the receiving protocol's header check (Proto/ReqRepBacktrace.v,
       Proto/SurveyBacktrace.v, Proto/PairModel.rx_decode);
   the classifier of src/sp/transport/udp/udp.c (udp_rx_cb / udp_recv_data /
   udp_recv_creq / udp_recv_cack / udp_recv_disc) as a function of the datagram;
   and the endpoint's bookkeeping of negotiating / waiting pipes and the one
   pending accept (tcptran_ep_match, *_pipe_nego_cb, *_ep_accept together with
   the re-arm rule of core/listener.c listener_accept_cb).  Definitions only. *)
From Coq Require Import List Arith Lia Bool NArith.
From NngV Require Import Base.ListX Base.Bytes Codec.Staged Codec.IovModel Codec.SpFrameModel
  Proto.Common Proto.ReqRepBacktrace Proto.SurveyBacktrace Proto.PairModel.
Import ListNotations.
Local Open Scope N_scope.

(* ------------------------------------------------- protocol header checks *)
Inductive proto_rx :=
| PrPlain                       (* pair0, pub/sub, push/pull, bus: the body is taken as it is *)
| PrRep (ttl : nat) | PrXRep (ttl : nat)
| PrReq | PrXReq
| PrSurveyor | PrXSurveyor
| PrResp (ttl : nat) | PrXResp (ttl : nat)
| PrPair1 (raw : bool) (ttl : nat).

Inductive proto_res :=
| AppDeliver (hdr body : list N)   (* handed to the protocol's receive queue / matching logic *)
| MsgDrop                          (* message freed, connection kept *)
| PipeClose.                       (* message freed, this connection closed *)

Definition proto_check (p : proto_rx) (pipe : N) (wire : list N) : proto_res :=
  match p with
  | PrPlain => AppDeliver [] wire
  | PrRep ttl =>
      match rep_recv ttl wire with
      | ReqRepBacktrace.BtDeliver m => AppDeliver (pm_hdr m) (pm_body m)
      | ReqRepBacktrace.BtDrop => MsgDrop | ReqRepBacktrace.BtClose => PipeClose end
  | PrXRep ttl =>
      match xrep_recv pipe ttl wire with
      | ReqRepBacktrace.BtDeliver m => AppDeliver (pm_hdr m) (pm_body m)
      | ReqRepBacktrace.BtDrop => MsgDrop | ReqRepBacktrace.BtClose => PipeClose end
  | PrXReq =>
      match xreq_recv wire with
      | ReqRepBacktrace.BtDeliver m => AppDeliver (pm_hdr m) (pm_body m)
      | ReqRepBacktrace.BtDrop => MsgDrop | ReqRepBacktrace.BtClose => PipeClose end
  | PrReq =>
      match req_recv wire with
      | Some (id, m) => AppDeliver (ReqRepBacktrace.be32 id) (pm_body m)   (* matched against the outstanding ids *)
      | None => PipeClose end
  | PrSurveyor =>
      match surv_recv wire with
      | Some (_, h, b) => AppDeliver h b
      | None => PipeClose end
  | PrXSurveyor =>
      match xsurv_recv wire with
      | SurveyBacktrace.BtDeliver h b => AppDeliver h b
      | SurveyBacktrace.BtDrop => MsgDrop | SurveyBacktrace.BtClose => PipeClose end
  | PrResp ttl =>
      match resp_recv ttl wire with
      | SurveyBacktrace.BtDeliver h b => AppDeliver h b
      | SurveyBacktrace.BtDrop => MsgDrop | SurveyBacktrace.BtClose => PipeClose end
  | PrXResp ttl =>
      match xresp_recv pipe ttl wire with
      | SurveyBacktrace.BtDeliver h b => AppDeliver h b
      | SurveyBacktrace.BtDrop => MsgDrop | SurveyBacktrace.BtClose => PipeClose end
  | PrPair1 raw ttl =>
      match rx_decode (K1 raw) ttl (mkPmsg [] wire) with
      | RxOk m => AppDeliver (pm_hdr m) (pm_body m)
      | RxDrop => MsgDrop
      | RxBad => PipeClose end
  end.

(* ------------------------------------------------------ one connection *)
Record conn_cfg := mkCC {
  cc_rx : rx_cfg;
  cc_self : N;            (* our protocol number (sent in the negotiation) *)
  cc_expect : N;          (* the protocol number pipe_start insists on *)
  cc_proto : proto_rx;
  cc_pipe : N             (* this pipe's id (pushed by the raw REP / RESPONDENT receive) *)
}.

Inductive conn_state :=
| CNego (ng : nego_state)
| CFrames (d : sp_dstate)
| CClosed.

Inductive conn_event :=
| CDeliver (hdr body : list N)
| CDropped
| CClose (rv : N).

(* hand the transport's events to the protocol, in order; stop at the first
   thing that closes the connection *)
Fixpoint conn_events (cfg : conn_cfg) (evs : list rx_event) : list conn_event * bool :=
  match evs with
  | [] => ([], false)
  | RAlloc _ :: r => conn_events cfg r
  | RError rv :: _ => ([CClose rv], true)
  | RDeliver m :: r =>
      match proto_check (cc_proto cfg) (cc_pipe cfg) m with
      | AppDeliver h b => let '(o, c) := conn_events cfg r in (CDeliver h b :: o, c)
      | MsgDrop => let '(o, c) := conn_events cfg r in (CDropped :: o, c)
      | PipeClose => ([CClose NNG_EPROTO], true)
      end
  end.

Definition conn_frames (cfg : conn_cfg) (d : sp_dstate) (x : list byte) : conn_state * list conn_event :=
  let '(d', evs) := sp_feed (cc_rx cfg) d x in
  let '(o, closed) := conn_events cfg evs in
  (if closed then CClosed else CFrames d', o).

Definition conn_init (cfg : conn_cfg) : conn_state := CNego (nego_sent (r_kind (cc_rx cfg)) (cc_self cfg)).

Definition conn_feed (cfg : conn_cfg) (st : conn_state) (x : list byte) : option (conn_state * list conn_event) :=
  match st with
  | CClosed => Some (CClosed, [])
  | CFrames d => Some (conn_frames cfg d x)
  | CNego ng =>
      match nego_rx_feed ng x with
      | None => None
      | Some (ng', outs, rest) =>
          if ng_done ng' then
            if existsb (fun o => match o with NReady p => peer_accept (cc_expect cfg) p | _ => false end) outs
            then Some (conn_frames cfg sp_dinit rest)
            else Some (CClosed, [CClose NNG_EPROTO])
          else Some (CNego ng', [])
      end
  end.

Fixpoint conn_feed_all (cfg : conn_cfg) (st : conn_state) (ps : list (list byte))
  : option (conn_state * list conn_event) :=
  match ps with
  | [] => Some (st, [])
  | p :: r => match conn_feed cfg st p with
              | None => None
              | Some (st1, e1) => match conn_feed_all cfg st1 r with
                                  | None => None
                                  | Some (st2, e2) => Some (st2, e1 ++ e2)
                                  end
              end
  end.

(* the peer goes away (EOF / reset / the 10 s negotiation timeout) *)
Definition conn_eof (st : conn_state) (rv : N) : conn_state * list conn_event :=
  match st with CClosed => (CClosed, []) | _ => (CClosed, [CClose rv]) end.

Definition conn_deliveries (e : list conn_event) : list (list N * list N) :=
  flat_map (fun x => match x with CDeliver h b => [(h, b)] | _ => [] end) e.

(* --------------------------------------------------------------- SP / UDP *)
Definition UDP_HDR : nat := 8.                 (* sizeof(udp_sp_msg) *)
Definition OPCODE_DATA : N := 0.  Definition OPCODE_CREQ : N := 1.  Definition OPCODE_CACK : N := 2.
Definition OPCODE_DISC : N := 3.  Definition OPCODE_MESH : N := 4.
Definition DISC_TYPE : N := 1.    Definition DISC_REFUSED : N := 3. Definition DISC_MSGSIZE : N := 4.
Definition DISC_NEGO : N := 5.    Definition DISC_PROTO : N := 7.   Definition DISC_NOBUF : N := 8.

Definition le16 (a b : byte) : N := a + 256 * b.

Record udp_pipe_info := mkUP { up_peer : N; up_rcvmax : N; up_closed : bool }.
Record udp_ep_info := mkUE {
  ue_dialer : bool; ue_closed : bool;
  ue_pipe : option udp_pipe_info;     (* udp_find_pipe(ep, sa) for the datagram's source address *)
  ue_full : bool                      (* max_peers != 0 && peer_count >= max_peers *)
}.

Inductive udp_action :=
| UIgnore                              (* nothing happens (too short, wrong version, no pipe, closed) *)
| UData (payload : list byte)          (* queued for the pipe: exactly us_length bytes *)
| UDisc (reason : N)                   (* a DISC is sent to the peer of the pipe / to the address *)
| UNewPipe (peer sndmax refresh : N)   (* CREQ accepted: pipe created, CACK sent *)
| URefresh (refresh : N)               (* CREQ of a known peer: CACK sent *)
| UCack (peer sndmax refresh : N)      (* CACK accepted *)
| UClosePipe.                          (* DISC received: the pipe is closed *)

(* udp_rx_cb on a datagram of [dgram] bytes (n = |dgram|) *)
Definition udp_classify (ep : udp_ep_info) (dgram : list byte) : udp_action :=
  match dgram with
  | ver :: op :: t0 :: t1 :: p0 :: p1 :: q0 :: q1 :: payload =>
      if negb (ver =? 1) then UIgnore else
      let n := N.of_nat (length payload) in
      let ty := le16 t0 t1 in let par0 := le16 p0 p1 in let par1 := le16 q0 q1 in
      if op =? OPCODE_DATA then
        match ue_pipe ep with
        | None => UIgnore
        | Some p =>
            if (n <? par0) || (up_rcvmax p <? par0) then UDisc DISC_MSGSIZE
            else UData (firstn (N.to_nat par0) payload)
        end
      else if op =? OPCODE_CREQ then
        if ue_closed ep then UIgnore
        else if ue_dialer ep then UDisc DISC_REFUSED
        else match ue_pipe ep with
             | Some p =>
                 if negb (up_peer p =? ty) then UDisc DISC_TYPE
                 else if par1 =? 0 then UDisc DISC_NEGO
                 else URefresh par1
             | None =>
                 if ue_full ep then UDisc DISC_NOBUF
                 else if par1 =? 0 then UDisc DISC_NEGO
                 else UNewPipe ty par0 par1
             end
      else if op =? OPCODE_CACK then
        match ue_pipe ep with
        | Some p =>
            if up_closed p then UIgnore
            else if negb (up_peer p =? ty) then UDisc DISC_TYPE
            else if par1 =? 0 then UDisc DISC_NEGO
            else UCack ty par0 par1
        | None => UIgnore
        end
      else if op =? OPCODE_DISC then
        match ue_pipe ep with Some _ => UClosePipe | None => UIgnore end
      else UDisc DISC_PROTO
  | _ => UIgnore            (* n is less than the header size *)
  end.

(* ------------------------------------------- endpoint (listener) bookkeeping *)
(* tcptran_ep / ipc_ep / sfd_tran_ep: the pipes still negotiating, the pipes
   ready to be handed over, and the (at most one) pending accept of the core.
   The core (listener_accept_cb) posts the next accept at once after a success
   and after ECONNRESET / ETIMEDOUT / EPEERAUTH, after a 100 ms pause for other
   errors (EPROTO, ECONNSHUT ..): that pause is the [EpAccept] event arriving
   later. *)
Record ep_state := mkEp {
  e_user : bool;               (* ep->useraio != NULL *)
  e_nego : list N;             (* negopipes *)
  e_wait : list N;             (* waitpipes *)
  e_closed : bool
}.
Inductive ep_op :=
| EpAccept                      (* *_ep_accept: the core posts its accept aio *)
| EpConn (p : N)                (* a connection arrived: pipe allocated, negotiation started *)
| EpNegoOk (p : N)              (* nego_cb: header good *)
| EpNegoFail (p : N) (rv : N)   (* nego_cb: error / bad header / timeout *)
| EpPipeGone (p : N)            (* pipe_stop of a pipe (closed while waiting) *)
| EpClose.                      (* *_ep_close *)
Inductive ep_out :=
| EpAccepted (p : N)            (* the accept aio completes with this pipe *)
| EpAcceptFail (rv : N)         (* the accept aio completes with an error *)
| EpPipeClosed (p : N).         (* nni_pipe_close(p) *)

Definition ep_match (s : ep_state) : ep_state * list ep_out :=
  match e_user s, e_wait s with
  | true, p :: r => (mkEp false (e_nego s) r (e_closed s), [EpAccepted p])
  | _, _ => (s, [])
  end.

Definition ep_step (s : ep_state) (o : ep_op) : ep_state * list ep_out :=
  match o with
  | EpAccept =>
      if e_closed s then (s, [EpAcceptFail NNG_ECLOSED])
      else if e_user s then (s, [EpAcceptFail 4])         (* NNG_EBUSY *)
      else ep_match (mkEp true (e_nego s) (e_wait s) false)
  | EpConn p => if e_closed s then (s, []) else (mkEp (e_user s) (e_nego s ++ [p]) (e_wait s) false, [])
  | EpNegoOk p =>
      if e_closed s then
        (mkEp false (remove_id p (e_nego s)) (e_wait s) true,
         (if e_user s then [EpAcceptFail NNG_ECONNSHUT] else []) ++ [EpPipeClosed p])
      else ep_match (mkEp (e_user s) (remove_id p (e_nego s)) (e_wait s ++ [p]) false)
  | EpNegoFail p rv =>
      (mkEp false (remove_id p (e_nego s)) (e_wait s) (e_closed s),
       (if e_user s then [EpAcceptFail (if rv =? NNG_ECLOSED then NNG_ECONNSHUT else rv)] else []) ++ [EpPipeClosed p])
  | EpPipeGone p => (mkEp (e_user s) (remove_id p (e_nego s)) (remove_id p (e_wait s)) (e_closed s), [])
  | EpClose =>
      (mkEp false (e_nego s) (e_wait s) true,
       (if e_user s then [EpAcceptFail NNG_ECLOSED] else []) ++ map EpPipeClosed (e_nego s) ++ map EpPipeClosed (e_wait s))
  end.

Definition ep_init : ep_state := mkEp false [] [] false.
Fixpoint ep_run (s : ep_state) (ops : list ep_op) : ep_state * list ep_out :=
  match ops with
  | [] => (s, [])
  | o :: r => let '(s1, o1) := ep_step s o in let '(s2, o2) := ep_run s1 r in (s2, o1 ++ o2)
  end.
