(* SpConnProofs: totality and limits of the receive paths over arbitrary
   byte streams (C11). *)
From Coq Require Import List Arith Lia Bool NArith.
From NngV Require Import Base.ListX Base.Bytes Codec.Staged Codec.IovModel Codec.IovProofs
  Codec.SpFrameModel Codec.SpFrameProofs Codec.SpNegoProofs Codec.SpHeaderProofs Codec.SpConnModel
  Proto.Common Proto.ReqRepBacktrace Proto.SurveyBacktrace Proto.PairModel.
Import ListNotations.
Local Open Scope N_scope.

(* ------------------------------------------- the frame decoder: limits *)
Section Limits.
  Variable cfg : rx_cfg.
  Let k := r_kind cfg.

  (* a length that passed the checks of head_decide *)
  Definition len_ok (len : N) : Prop :=
    msg_size_valid len = true /\ (0 < r_rcvmax cfg -> len <= r_rcvmax cfg).

  Definition ev_ok (e : rx_event) : Prop :=
    match e with
    | RAlloc n => len_ok n
    | RDeliver m => len_ok (N.of_nat (length m))
    | RError _ => True
    end.

  Definition phase_ok (ph : sp_phase) : Prop :=
    match ph with PBody len => len_ok len /\ len <> 0 | _ => True end.

  Lemma head_decide_ok head : let '(ev, r) := head_decide cfg head in
    Forall ev_ok ev /\ match r with Some len => len_ok len | None => True end.
  Proof.
    unfold head_decide.
    destruct (is_ipc (r_kind cfg) && negb (nth 0 head 0 =? 1)); [split; [repeat constructor|exact I]|].
    set (len := be_dec (firstn 8 (skipn (if is_ipc (r_kind cfg) then 1 else 0) head))).
    destruct (msg_size_valid len) eqn:EV; cbn [negb]; [|split; [repeat constructor|exact I]].
    destruct ((r_rcvmax cfg <? len) && (0 <? r_rcvmax cfg)) eqn:ER; [split; [repeat constructor|exact I]|].
    assert (HL: len_ok len).
    { split; [exact EV|]. intros Hpos. apply andb_false_iff in ER. destruct ER as [ER|ER].
      - apply N.ltb_ge in ER. exact ER.
      - apply N.ltb_ge in ER. lia. }
    destruct (r_allocmax cfg <? len).
    - split; [|exact I]. constructor; [exact HL|]. constructor; [exact I|constructor].
    - split; [|exact HL]. constructor; [exact HL|constructor].
  Qed.

  Lemma cb_ok ph data : phase_ok ph -> N.of_nat (length data) = sp_want k ph ->
    phase_ok (fst (sp_cb cfg ph data)) /\ Forall ev_ok (snd (sp_cb cfg ph data)).
  Proof.
    intros HP HL. destruct ph as [|len|]; cbn [sp_cb].
    - pose proof (head_decide_ok data) as H. destruct (head_decide cfg data) as [ev [len|]]; destruct H as [H1 H2].
      + destruct (len =? 0) eqn:E0; cbn [fst snd].
        * split; [exact I|]. apply Forall_app. split; [exact H1|]. constructor; [|constructor].
          cbn. split; [reflexivity|]. intros. lia.
        * apply N.eqb_neq in E0. split; [split; assumption|exact H1].
      + cbn [fst snd]. split; [exact I|exact H1].
    - cbn [fst snd]. split; [exact I|]. constructor; [|constructor].
      cbn [ev_ok]. cbn [sp_want] in HL. rewrite HL. exact (proj1 HP).
    - cbn [fst snd]. split; [exact I|constructor].
  Qed.

  Lemma run_ok : forall f ph buf, phase_ok ph ->
    let '(ph', _, e) := run sp_phase rx_event (sp_want k) (sp_cb cfg) f ph buf in
    phase_ok ph' /\ Forall ev_ok e.
  Proof.
    induction f as [|f IH]; intros ph buf HP; [cbn; split; [exact HP|constructor]|].
    rewrite run_S.
    destruct (sp_want k ph =? 0) eqn:E0; [split; [exact HP|constructor]|].
    destruct (N.of_nat (length buf) <? sp_want k ph) eqn:E1; [split; [exact HP|constructor]|].
    apply N.ltb_ge in E1. cbv zeta.
    destruct (cb_ok ph (firstn (N.to_nat (sp_want k ph)) buf) HP) as [H1 H2].
    { rewrite firstn_length. lia. }
    destruct (sp_cb cfg ph (firstn (N.to_nat (sp_want k ph)) buf)) as [s1 e1]. cbn [fst snd] in *.
    specialize (IH s1 (skipn (N.to_nat (sp_want k ph)) buf) H1).
    destruct (run sp_phase rx_event (sp_want k) (sp_cb cfg) f s1 (skipn (N.to_nat (sp_want k ph)) buf)) as [[s2 r] e2].
    destruct IH as [H3 H4]. split; [exact H3|]. apply Forall_app. split; assumption.
  Qed.

  (* every allocation the decoder asks for, and every message it delivers, is
     within NNI_MAX_STREAM_MSGSZ and within a non-zero RECVMAXSZ -- on every byte stream *)
  Theorem feed_events_ok d x : phase_ok (d_inner d) ->
    phase_ok (d_inner (fst (sp_feed cfg d x))) /\ Forall ev_ok (snd (sp_feed cfg d x)).
  Proof.
    intros HP. unfold sp_feed, feed. fold k.
    pose proof (run_ok (S (length (d_acc d ++ x))) (d_inner d) (d_acc d ++ x) HP) as H.
    destruct (run sp_phase rx_event (sp_want k) (sp_cb cfg) (S (length (d_acc d ++ x))) (d_inner d) (d_acc d ++ x))
      as [[s r] e]. cbn [fst snd d_inner]. exact H.
  Qed.

  (* a length field that is invalid, or above a non-zero RECVMAXSZ: the
     connection is closed with NNG_EMSGSIZE before anything is allocated; what
     follows on the stream is never looked at *)
  Theorem oversize_closes len rest :
    len < 2 ^ 64 ->
    msg_size_valid len = false \/ (0 < r_rcvmax cfg /\ r_rcvmax cfg < len) ->
    sp_feed cfg sp_dinit (tx_head k len ++ rest) = (mkD PDead [], [RError NNG_EMSGSIZE]).
  Proof.
    intros L64 HB. unfold sp_feed. rewrite feed_app. fold (sp_feed cfg).
    assert (HD: head_decide cfg (tx_head k len) = ([RError NNG_EMSGSIZE], None)).
    { unfold head_decide. fold k.
      assert (T: is_ipc k && negb (nth 0 (tx_head k len) 0 =? 1) = false) by (destruct k; reflexivity).
      rewrite T.
      assert (D: be_dec (firstn 8 (skipn (if is_ipc k then 1 else 0) (tx_head k len))) = len).
      { assert (X: firstn 8 (skipn (if is_ipc k then 1 else 0) (tx_head k len)) = be_enc 8 len).
        { destruct k; cbn [is_ipc tx_head skipn]; apply firstn_all2; rewrite be_enc_length; lia. }
        rewrite X. apply be_dec_enc_small. exact L64. }
      rewrite D. destruct HB as [HB|[H1 H2]].
      - rewrite HB. reflexivity.
      - destruct (msg_size_valid len); cbn [negb]; [|reflexivity].
        assert (X: (r_rcvmax cfg <? len) && (0 <? r_rcvmax cfg) = true).
        { apply andb_true_iff. split; apply N.ltb_lt; assumption. }
        rewrite X. reflexivity. }
    assert (F1: sp_feed cfg sp_dinit (tx_head k len) = (mkD PDead [], [RError NNG_EMSGSIZE])).
    { unfold sp_dinit. rewrite feed_exact; cbn [app]; unfold sp_want; fold k.
      - unfold sp_cb. rewrite HD. reflexivity.
      - destruct k; cbn; lia.
      - apply tx_head_length. }
    rewrite F1, feed_dead. reflexivity.
  Qed.

  (* ---- the receiver as coded: total on every stream, every cutting ---- *)
  Definition rx_outcome_ok (st : rx_state) : Prop :=
    rx_posted st = false \/ exists n, iov_count (rx_aio st) = Some n /\ 0 < n.

  Theorem rx_total_all : forall ps c d, R cfg c d -> phase_ok (d_inner d) ->
    exists c' ev, rx_feed_all cfg c ps = Some (c', ev) /\ Forall ev_ok ev /\ rx_outcome_ok c' /\
                  exists d', R cfg c' d' /\ phase_ok (d_inner d').
  Proof.
    induction ps as [|p ps IH]; intros c d HR HP.
    - exists c, []. split; [reflexivity|]. split; [constructor|]. split.
      + unfold rx_outcome_ok. destruct (rx_posted c) eqn:E; [right|left; reflexivity].
        destruct (R_count cfg c d HR E) as [H1 H2]. eauto.
      + eauto.
    - cbn [rx_feed_all].
      destruct (rx_feed_refines cfg c d p HR) as (c1 & e1 & HS & HR1 & HE1). rewrite HS.
      destruct (feed_events_ok d p HP) as [HP1 HF1].
      destruct (IH c1 _ HR1 HP1) as (c2 & e2 & HS2 & HF2 & HO & HD). rewrite HS2.
      exists c2, (e1 ++ e2). split; [reflexivity|]. split; [|split; assumption].
      apply Forall_app. split; [rewrite <- HE1; exact HF1|exact HF2].
  Qed.
End Limits.

(* ------------------------------------------------------- one connection *)
Definition ConnInv (cfg : conn_cfg) (st : conn_state) : Prop :=
  match st with
  | CNego ng => exists acc, RxInv (r_kind (cc_rx cfg)) ng acc
  | _ => True
  end.

Lemma nego_rx_feed_total k ng acc x : RxInv k ng acc ->
  exists ng' o rest, nego_rx_feed ng x = Some (ng', o, rest) /\
    ((ng_done ng' = false /\ rest = [] /\ RxInv k ng' (acc ++ x) /\ (length (acc ++ x) < 8)%nat /\ only_recv o) \/
     (ng_done ng' = true /\ (8 <= length (acc ++ x))%nat /\ rest = skipn (8 - length acc) x /\
      o = [nego_verdict (firstn 8 (acc ++ x))])).
Proof.
  intros HI. pose proof HI as (HD & HT & HR & HA & HL & HF).
  unfold nego_rx_feed. rewrite HD, HT. cbn [orb]. change (8 <? NEGO_LEN) with false. cbv iota.
  destruct x as [|b x].
  - exists ng, [], []. split; [reflexivity|]. left. rewrite app_nil_r. repeat split; auto. constructor.
  - set (xs := b :: x) in *.
    set (kk := N.to_nat (N.min (NEGO_LEN - ng_gotrx ng) (N.of_nat (length xs)))).
    assert (Hk1: (1 <= kk)%nat) by (unfold kk, xs, NEGO_LEN; cbn [length]; lia).
    assert (Hk2: (kk <= length xs)%nat) by (unfold kk; lia).
    assert (Hk3: (length acc + kk <= 8)%nat) by (unfold kk, NEGO_LEN; lia).
    assert (Lx: length (firstn kk xs) = kk) by (rewrite firstn_length; lia).
    destruct (nego_rx_step k ng acc (firstn kk xs) HI) as (st1 & o1 & HS1 & HC).
    { intros E. apply (f_equal (@length _)) in E. rewrite Lx in E. cbn in E. lia. }
    { rewrite Lx. exact Hk3. }
    rewrite Lx in HS1. rewrite HS1. exists st1, o1, (skipn kk xs). split; [reflexivity|].
    destruct HC as [(Hlt & HI1 & HO1)|(Heq & HD1 & HO1)].
    + rewrite Lx in Hlt.
      assert (kk = length xs) by (unfold kk, NEGO_LEN in *; lia).
      left. rewrite (firstn_all2 xs) in HI1 by lia.
      split; [apply HI1|]. split; [apply skipn_all2; lia|]. split; [exact HI1|].
      split; [rewrite app_length; lia|exact HO1].
    + rewrite Lx in Heq. right. split; [exact HD1|]. split; [rewrite app_length; lia|].
      split; [f_equal; lia|]. rewrite HO1. do 2 f_equal.
      rewrite firstn_app. replace (8 - length acc)%nat with kk by lia.
      rewrite (firstn_all2 acc) by lia. reflexivity.
Qed.

(* every byte stream, every cutting: the connection's receive path is defined
   (no out-of-range access) and stays within its invariant *)
Theorem conn_total cfg : forall ps st, ConnInv cfg st ->
  exists st' ev, conn_feed_all cfg st ps = Some (st', ev) /\ ConnInv cfg st'.
Proof.
  induction ps as [|p ps IH]; intros st HI.
  - exists st, []. split; [reflexivity|exact HI].
  - cbn [conn_feed_all].
    assert (H1: exists st1 e1, conn_feed cfg st p = Some (st1, e1) /\ ConnInv cfg st1).
    { destruct st as [ng|d|]; cbn [conn_feed].
      - destruct HI as [acc HI].
        destruct (nego_rx_feed_total _ ng acc p HI) as (ng' & o & rest & HS & HC). rewrite HS.
        destruct HC as [(HD & _ & HI' & _)|(HD & _)]; rewrite HD.
        + eexists _, _. split; [reflexivity|]. exists (acc ++ p). exact HI'.
        + destruct (existsb _ o).
          * destruct (conn_frames cfg sp_dinit rest) as [stf ef] eqn:EF.
            exists stf, ef. split; [reflexivity|]. unfold conn_frames in EF.
            destruct (sp_feed (cc_rx cfg) sp_dinit rest) as [d' evs]. destruct (conn_events cfg evs) as [o' c'].
            inversion EF; subst. destruct c'; exact I.
          * eexists _, _. split; [reflexivity|exact I].
      - destruct (conn_frames cfg d p) as [stf ef] eqn:EF.
        exists stf, ef. split; [reflexivity|]. unfold conn_frames in EF.
        destruct (sp_feed (cc_rx cfg) d p) as [d' evs]. destruct (conn_events cfg evs) as [o' c'].
        inversion EF; subst. destruct c'; exact I.
      - eexists _, _. split; [reflexivity|exact I]. }
    destruct H1 as (st1 & e1 & HS & HI1). rewrite HS.
    destruct (IH st1 HI1) as (st2 & e2 & HS2 & HI2). rewrite HS2. eauto.
Qed.

Lemma conn_init_inv cfg : ConnInv cfg (conn_init cfg).
Proof. exists []. apply nego_sent_inv. Qed.

Lemma conn_closed_absorbs cfg : forall ps, conn_feed_all cfg CClosed ps = Some (CClosed, []).
Proof. induction ps as [|p ps IH]; [reflexivity|]. cbn [conn_feed_all conn_feed]. rewrite IH. reflexivity. Qed.

(* the first 8 bytes decide: anything but 00 'S' 'P' 00 <expected protocol> 00 00
   closes the connection with NNG_EPROTO and delivers nothing -- whatever
   follows, however the bytes are cut *)
Lemma conn_nego_reject cfg : forall ps ng acc, RxInv (r_kind (cc_rx cfg)) ng acc ->
  let s := acc ++ concat ps in
  (8 <= length s)%nat -> bytes_ok (firstn 8 s) -> cc_expect cfg < 65536 ->
  firstn 8 s <> sp_header (cc_expect cfg) ->
  conn_feed_all cfg (CNego ng) ps = Some (CClosed, [CClose NNG_EPROTO]).
Proof.
  induction ps as [|p ps IH]; intros ng acc HI s HL HB HE HN; unfold s in *.
  - cbn [concat] in HL. rewrite app_nil_r in HL. destruct HI as (_ & _ & _ & HA & _). lia.
  - cbn [conn_feed_all conn_feed concat] in *.
    destruct (nego_rx_feed_total _ ng acc p HI) as (ng' & o & rest & HS & HC). rewrite HS.
    destruct HC as [(HD & Hrest & HI' & Hlt & _)|(HD & Hge & Hrest & HO)]; rewrite HD.
    + assert (E: conn_feed_all cfg (CNego ng') ps = Some (CClosed, [CClose NNG_EPROTO])).
      { apply (IH ng' (acc ++ p) HI'); try rewrite <- app_assoc; assumption. }
      rewrite E. reflexivity.
    + assert (F8: firstn 8 (acc ++ p ++ concat ps) = firstn 8 (acc ++ p)).
      { rewrite app_assoc. apply firstn_app_le. exact Hge. }
      rewrite F8 in HB, HN. rewrite HO. cbn [existsb orb].
      assert (L8: length (firstn 8 (acc ++ p)) = 8%nat) by (rewrite firstn_length; lia).
      pose proof (nego_accepts_only_expected _ (cc_expect cfg) L8 HB HE) as Iff.
      destruct (nego_verdict (firstn 8 (acc ++ p))) as [bs|nn|peer|rv] eqn:EV; cbv beta iota; rewrite ?orb_false_r;
        cbv beta iota; try (rewrite conn_closed_absorbs; reflexivity).
      destruct (peer_accept (cc_expect cfg) peer) eqn:EP; cbv beta iota; [|rewrite conn_closed_absorbs; reflexivity].
      exfalso. apply HN. apply Iff. exists peer. auto.
Qed.

Theorem conn_rejects_bad_header cfg ps : let s := concat ps in
  (8 <= length s)%nat -> bytes_ok (firstn 8 s) -> cc_expect cfg < 65536 ->
  firstn 8 s <> sp_header (cc_expect cfg) ->
  conn_feed_all cfg (conn_init cfg) ps = Some (CClosed, [CClose NNG_EPROTO]).
Proof.
  intros s HL HB HE HN.
  apply (conn_nego_reject cfg ps _ [] (nego_sent_inv (r_kind (cc_rx cfg)) (cc_self cfg))); assumption.
Qed.

(* fewer than 8 bytes: nothing happens until the peer goes away or the 10 s
   timer fires, then the connection is closed; nothing is ever delivered *)
Lemma conn_nego_short cfg : forall ps ng acc, RxInv (r_kind (cc_rx cfg)) ng acc ->
  (length (acc ++ concat ps) < 8)%nat ->
  exists ng', conn_feed_all cfg (CNego ng) ps = Some (CNego ng', []).
Proof.
  induction ps as [|p ps IH]; intros ng acc HI HL.
  - exists ng. reflexivity.
  - cbn [conn_feed_all conn_feed concat] in *.
    destruct (nego_rx_feed_total _ ng acc p HI) as (ng' & o & rest & HS & HC). rewrite HS.
    destruct HC as [(HD & Hrest & HI' & Hlt & _)|(HD & Hge & _)]; rewrite HD.
    + destruct (IH ng' (acc ++ p) HI') as [ng2 H2]; [rewrite <- app_assoc; exact HL|].
      rewrite H2. eauto.
    + rewrite app_assoc, app_length in HL. lia.
Qed.

Theorem conn_short_header cfg ps rv : (length (concat ps) < 8)%nat ->
  exists ng', conn_feed_all cfg (conn_init cfg) ps = Some (CNego ng', []) /\
              conn_eof (CNego ng') rv = (CClosed, [CClose rv]).
Proof.
  intros HL. destruct (conn_nego_short cfg ps _ [] (nego_sent_inv (r_kind (cc_rx cfg)) (cc_self cfg)) HL) as [ng' H].
  exists ng'. split; [exact H|reflexivity].
Qed.

(* what the protocol is handed comes from transport deliveries only, and the
   transport's deliveries obey the limits *)
Lemma conn_events_deliveries cfg : forall evs,
  (length (conn_deliveries (fst (conn_events cfg evs))) <= length (SpFrameModel.deliveries evs))%nat.
Proof.
  induction evs as [|e evs IH]; [cbn; lia|].
  destruct e as [n|m|rv]; cbn [conn_events SpFrameModel.deliveries flat_map app].
  - exact IH.
  - destruct (proto_check (cc_proto cfg) (cc_pipe cfg) m).
    + destruct (conn_events cfg evs) as [o c]. cbn [fst conn_deliveries flat_map app length] in *.
      unfold SpFrameModel.deliveries in IH. lia.
    + destruct (conn_events cfg evs) as [o c]. cbn [fst conn_deliveries flat_map app length] in *.
      unfold SpFrameModel.deliveries in IH. lia.
    + cbn. lia.
  - cbn. lia.
Qed.

(* -------------------------------------------- protocol header checks *)
(* converse of bt_loop_reparse: what the hop loop delivers is a backtrace *)
Lemma bt_loop_backtrace : forall n h0 body m, bt_loop n h0 body = ReqRepBacktrace.BtDeliver m ->
  exists w, backtrace w /\ pm_hdr m = h0 ++ w /\ body = w ++ pm_body m /\
            (length w <= 4 * n)%nat /\ (length (pm_hdr m) <= BT_HEADER_MAX)%nat.
Proof.
  induction n as [|n IH]; intros h0 body m H; [discriminate|].
  assert (HS: bt_loop (S n) h0 body =
    if (length body <? 4)%nat then ReqRepBacktrace.BtClose
    else if (BT_HEADER_MAX <? length h0 + 4)%nat then ReqRepBacktrace.BtDrop
    else if high_bit (firstn 4 body) then ReqRepBacktrace.BtDeliver (mkPmsg (h0 ++ firstn 4 body) (skipn 4 body))
         else bt_loop n (h0 ++ firstn 4 body) (skipn 4 body)) by reflexivity.
  rewrite HS in H. clear HS.
  destruct (length body <? 4)%nat eqn:E1; [discriminate|].
  destruct (BT_HEADER_MAX <? length h0 + 4)%nat eqn:E2; [discriminate|].
  apply Nat.ltb_ge in E1. apply Nat.ltb_ge in E2.
  assert (L4: length (firstn 4 body) = 4%nat) by (apply firstn_length_le; lia).
  destruct (high_bit (firstn 4 body)) eqn:EH.
  - assert (Hm: m = mkPmsg (h0 ++ firstn 4 body) (skipn 4 body)) by congruence.
    clear H. subst m. unfold pm_hdr, pm_body. exists (firstn 4 body).
    split; [apply bt_last; assumption|]. split; [reflexivity|]. split; [symmetry; apply firstn_skipn|].
    split; [lia|]. rewrite app_length, L4. exact E2.
  - apply IH in H. destruct H as (w & HB & HH & HBody & HL & HM).
    exists (firstn 4 body ++ w). split; [apply bt_hop; assumption|].
    split; [rewrite HH; now rewrite app_assoc|].
    split; [rewrite <- app_assoc, <- HBody; symmetry; apply firstn_skipn|].
    split; [rewrite app_length, L4; lia|exact HM].
Qed.

Theorem rep_delivers_only_backtraces ttl pipe wire h b :
  (proto_check (PrRep ttl) pipe wire = AppDeliver h b ->
     backtrace h /\ wire = h ++ b /\ (length h <= 4 * ttl)%nat /\ (length h <= BT_HEADER_MAX)%nat) /\
  (proto_check (PrXRep ttl) pipe wire = AppDeliver h b ->
     exists w, backtrace w /\ h = ReqRepBacktrace.be32 pipe ++ w /\ wire = w ++ b /\ (length w <= 4 * ttl)%nat /\
               (length h <= BT_HEADER_MAX)%nat).
Proof.
  split; intros H; cbn [proto_check] in H.
  - unfold rep_recv in H. destruct (bt_loop ttl [] wire) as [m| |] eqn:E; try discriminate.
    inversion H; subst h b. apply bt_loop_backtrace in E. destruct E as (w & HB & HH & HW & HL & HM).
    cbn [app] in HH. rewrite HH in *. auto.
  - unfold xrep_recv in H. destruct (bt_loop ttl (ReqRepBacktrace.be32 pipe) wire) as [m| |] eqn:E; try discriminate.
    inversion H; subst h b. apply bt_loop_backtrace in E. destruct E as (w & HB & HH & HW & HL & HM).
    exists w. auto.
Qed.

(* a message too short to carry the protocol's header word is never handed to
   the application and closes the connection: every protocol with a header *)
Definition proto_ttl (p : proto_rx) : nat :=
  match p with PrRep t | PrXRep t | PrResp t | PrXResp t => t | _ => 1%nat end.

Theorem short_header_closes p pipe wire : (length wire < 4)%nat -> p <> PrPlain -> (0 < proto_ttl p)%nat ->
  proto_check p pipe wire = PipeClose.
Proof.
  intros HL HP HT.
  assert (W: wire = [] \/ (exists a, wire = [a]) \/ (exists a b, wire = [a; b]) \/ (exists a b c, wire = [a; b; c])).
  { destruct wire as [|a [|b [|c [|d r]]]]; cbn in HL; try lia; eauto 8. }
  assert (LB: (length wire <? 4)%nat = true) by (apply Nat.ltb_lt; exact HL).
  destruct p as [|ttl|ttl| | | | |ttl|ttl|raw ttl]; cbn [proto_check]; try congruence.
  - unfold rep_recv. destruct ttl as [|ttl]; [cbn in HT; lia|]. cbn [bt_loop]. rewrite LB. reflexivity.
  - unfold xrep_recv. destruct ttl as [|ttl]; [cbn in HT; lia|]. cbn [bt_loop]. rewrite LB. reflexivity.
  - unfold req_recv. rewrite LB. reflexivity.
  - unfold xreq_recv. cbn [xreq_loop]. rewrite LB. reflexivity.
  - destruct W as [->|[[a ->]|[[a [b ->]]|[a [b [c ->]]]]]]; reflexivity.
  - destruct W as [->|[[a ->]|[[a [b ->]]|[a [b [c ->]]]]]]; reflexivity.
  - unfold resp_recv. destruct ttl as [|ttl]; [cbn in HT; lia|].
    destruct W as [->|[[a ->]|[[a [b ->]]|[a [b [c ->]]]]]]; reflexivity.
  - unfold xresp_recv. destruct ttl as [|ttl]; [cbn in HT; lia|].
    destruct W as [->|[[a ->]|[[a [b ->]]|[a [b [c ->]]]]]]; reflexivity.
  - destruct W as [->|[[a ->]|[[a [b ->]]|[a [b [c ->]]]]]]; reflexivity.
Qed.

(* PAIRv1: the hop word must be a byte and within the TTL *)
Theorem pair1_hop_rules raw ttl pipe wire h b :
  proto_check (PrPair1 raw ttl) pipe wire = AppDeliver h b ->
  exists v, (v <= 255)%N /\ (v <= N.of_nat ttl)%N /\ h = PairModel.be32 v /\ (length wire = 4 + length b)%nat.
Proof.
  cbn [proto_check]. unfold rx_decode. cbn [pm_body pm_hdr].
  destruct wire as [|a [|b0 [|c [|d rest]]]]; cbn [get32]; try discriminate.
  destruct (255 <? word32 a b0 c d) eqn:E1; [discriminate|].
  destruct (N.of_nat ttl <? word32 a b0 c d) eqn:E2; [discriminate|].
  intros H. inversion H; subst. apply N.ltb_ge in E1. apply N.ltb_ge in E2.
  exists (word32 a b0 c d). cbn [app length]. repeat split; auto.
Qed.

(* ------------------------------------------------------------------ UDP *)
Theorem udp_data_bounded ep dgram payload : udp_classify ep dgram = UData payload ->
  exists p hdr rest, ue_pipe ep = Some p /\ dgram = hdr ++ rest /\ length hdr = UDP_HDR /\
    N.of_nat (length payload) <= up_rcvmax p /\ (length payload <= length rest)%nat /\
    payload = firstn (length payload) rest /\ nth 0 hdr 0 = 1 /\ nth 1 hdr 0 = OPCODE_DATA.
Proof.
  unfold udp_classify.
  destruct dgram as [|ver [|op [|t0 [|t1 [|p0 [|p1 [|q0 [|q1 rest]]]]]]]]; try discriminate.
  destruct (ver =? 1) eqn:EV; cbn [negb]; [|discriminate]. apply N.eqb_eq in EV.
  destruct (op =? OPCODE_DATA) eqn:EO.
  - apply N.eqb_eq in EO. destruct (ue_pipe ep) as [p|]; [|discriminate].
    destruct ((N.of_nat (length rest) <? le16 p0 p1) || (up_rcvmax p <? le16 p0 p1)) eqn:EB; [discriminate|].
    apply orb_false_iff in EB. destruct EB as [E1 E2]. apply N.ltb_ge in E1. apply N.ltb_ge in E2.
    intros H. inversion H; subst payload.
    assert (L: length (firstn (N.to_nat (le16 p0 p1)) rest) = N.to_nat (le16 p0 p1)) by (rewrite firstn_length; lia).
    exists p, [ver; op; t0; t1; p0; p1; q0; q1], rest.
    rewrite L. repeat split; auto; try lia.
  - destruct (op =? OPCODE_CREQ).
    { destruct (ue_closed ep); [discriminate|]. destruct (ue_dialer ep); [discriminate|].
      destruct (ue_pipe ep) as [p|].
      - destruct (negb (up_peer p =? le16 t0 t1)); [discriminate|]. destruct (le16 q0 q1 =? 0); discriminate.
      - destruct (ue_full ep); [discriminate|]. destruct (le16 q0 q1 =? 0); discriminate. }
    destruct (op =? OPCODE_CACK).
    { destruct (ue_pipe ep) as [p|]; [|discriminate]. destruct (up_closed p); [discriminate|].
      destruct (negb (up_peer p =? le16 t0 t1)); [discriminate|]. destruct (le16 q0 q1 =? 0); discriminate. }
    destruct (op =? OPCODE_DISC); [destruct (ue_pipe ep); discriminate|discriminate].
Qed.

Theorem udp_ignores_garbage ep dgram :
  ((length dgram < UDP_HDR)%nat -> udp_classify ep dgram = UIgnore) /\
  (nth 0 dgram 0 <> 1 -> udp_classify ep dgram = UIgnore).
Proof.
  split.
  - unfold UDP_HDR. intros H.
    destruct dgram as [|ver [|op [|t0 [|t1 [|p0 [|p1 [|q0 [|q1 rest]]]]]]]]; try reflexivity. cbn in H. lia.
  - intros H. unfold udp_classify.
    destruct dgram as [|ver [|op [|t0 [|t1 [|p0 [|p1 [|q0 [|q1 rest]]]]]]]]; try reflexivity.
    cbn [nth] in H. apply N.eqb_neq in H. rewrite H. reflexivity.
Qed.

Theorem udp_unknown_opcode ep ver op t0 t1 p0 p1 q0 q1 rest : ver = 1 -> 4 <= op ->
  udp_classify ep (ver :: op :: t0 :: t1 :: p0 :: p1 :: q0 :: q1 :: rest) = UDisc DISC_PROTO.
Proof.
  intros -> H. unfold udp_classify. cbn [N.eqb negb Pos.eqb].
  assert (E0: (op =? OPCODE_DATA) = false) by (apply N.eqb_neq; unfold OPCODE_DATA; lia).
  assert (E1: (op =? OPCODE_CREQ) = false) by (apply N.eqb_neq; unfold OPCODE_CREQ; lia).
  assert (E2: (op =? OPCODE_CACK) = false) by (apply N.eqb_neq; unfold OPCODE_CACK; lia).
  assert (E3: (op =? OPCODE_DISC) = false) by (apply N.eqb_neq; unfold OPCODE_DISC; lia).
  rewrite E0, E1, E2, E3. reflexivity.
Qed.

(* ------------------------------------------------- endpoint bookkeeping *)
(* no pipe waits while an accept is pending; a closed endpoint has no pending accept *)
Definition EpInv (s : ep_state) : Prop :=
  (e_user s = true -> e_wait s = []) /\ (e_closed s = true -> e_user s = false).

Lemma remove_id_In a x l : In x (remove_id a l) -> In x l /\ x <> a.
Proof.
  unfold remove_id. intros H. apply filter_In in H. destruct H as [H1 H2]. split; [exact H1|].
  intros ->. rewrite N.eqb_refl in H2. discriminate.
Qed.

(* a failed negotiation of pipe p: p alone is closed, at most the one pending
   accept completes (with the error), every other pipe stays where it was *)
Theorem nego_fail_only_offender s p rv :
  let '(s', o) := ep_step s (EpNegoFail p rv) in
  e_wait s' = e_wait s /\ e_nego s' = remove_id p (e_nego s) /\ e_closed s' = e_closed s /\
  (forall q, In (EpPipeClosed q) o -> q = p) /\
  (forall q, ~ In (EpAccepted q) o) /\
  (length (filter (fun x => match x with EpAcceptFail _ => true | _ => false end) o) <= 1)%nat /\
  (forall q, q <> p -> In q (e_nego s) -> In q (e_nego s')).
Proof.
  cbn [ep_step]. cbn [e_wait e_nego e_closed]. split; [reflexivity|]. split; [reflexivity|]. split; [reflexivity|].
  split; [|split; [|split]].
  - intros q H. apply in_app_or in H. destruct H as [H|[H|[]]]; [destruct (e_user s); cbn in H; [destruct H as [H|[]]|]; try discriminate; contradiction|].
    inversion H. reflexivity.
  - intros q H. apply in_app_or in H. destruct H as [H|[H|[]]]; [destruct (e_user s); cbn in H; [destruct H as [H|[]]|]; try discriminate; contradiction|discriminate].
  - destruct (e_user s); cbn; lia.
  - intros q Hq Hin. unfold remove_id. apply filter_In. split; [exact Hin|].
    apply negb_true_iff. apply N.eqb_neq. exact Hq.
Qed.

Lemma ep_match_inv s : (e_closed s = true -> e_user s = false) -> EpInv (fst (ep_match s)).
Proof.
  intros HC. unfold ep_match.
  destruct (e_user s) eqn:EU; [|cbn [fst]; split; [rewrite EU; discriminate|intros _; exact EU]].
  destruct (e_wait s) as [|q r] eqn:EW; cbn [fst].
  - split; [intros _; exact EW|rewrite EU; exact HC].
  - split; cbn; [discriminate|reflexivity].
Qed.

Theorem ep_inv_step s o : EpInv s -> EpInv (fst (ep_step s o)).
Proof.
  intros (HU & HC).
  destruct o as [|p|p|p rv|p|]; cbn [ep_step].
  - destruct (e_closed s) eqn:EC; [cbn [fst]; split; [exact HU|rewrite EC; exact HC]|].
    destruct (e_user s) eqn:EU; [cbn [fst]; split; [rewrite EU; exact HU|rewrite EC; discriminate]|].
    apply ep_match_inv. cbn. discriminate.
  - destruct (e_closed s) eqn:EC; cbn [fst]; [split; [exact HU|rewrite EC; exact HC]|].
    split; cbn [e_user e_wait e_closed]; [exact HU|discriminate].
  - destruct (e_closed s) eqn:EC; cbn [fst].
    + split; cbn; [discriminate|reflexivity].
    + apply ep_match_inv. cbn. discriminate.
  - cbn [fst]. split; cbn; [discriminate|reflexivity].
  - cbn [fst]. split; cbn [e_user e_wait e_closed]; [|exact HC].
    intros H. rewrite (HU H). reflexivity.
  - cbn [fst]. split; cbn; [discriminate|reflexivity].
Qed.

Theorem ep_inv_run : forall ops s, EpInv s -> EpInv (fst (ep_run s ops)).
Proof.
  induction ops as [|o ops IH]; intros s HI; [exact HI|].
  cbn [ep_run]. pose proof (ep_inv_step s o HI) as H1.
  destruct (ep_step s o) as [s1 o1]. cbn [fst] in H1. specialize (IH s1 H1).
  destruct (ep_run s1 ops) as [s2 o2]. exact IH.
Qed.

Lemma ep_init_inv : EpInv ep_init.
Proof. split; cbn; [reflexivity|discriminate]. Qed.

(* whenever the core posts its accept and a negotiated pipe is waiting, the
   accept completes at once with the longest-waiting pipe: the listener is
   re-armed by every accept, whatever failed before *)
Theorem accept_takes_first_waiting s p r : e_closed s = false -> e_user s = false -> e_wait s = p :: r ->
  ep_step s EpAccept = (mkEp false (e_nego s) r false, [EpAccepted p]).
Proof. intros HC HU HW. cbn [ep_step]. rewrite HC, HU. unfold ep_match. cbn. rewrite HW. reflexivity. Qed.

(* a pipe is only ever accepted after its own negotiation succeeded *)
Lemma ep_accept_origin : forall ops s,
  (forall p, In (EpAccepted p) (snd (ep_run s ops)) -> In p (e_wait s) \/ In (EpNegoOk p) ops).
Proof.
  induction ops as [|o ops IH]; intros s p H; [cbn in H; contradiction|].
  cbn [ep_run] in H. destruct (ep_step s o) as [s1 o1] eqn:ES.
  specialize (IH s1 p). destruct (ep_run s1 ops) as [s2 o2]. cbn [snd] in *.
  apply in_app_or in H. destruct H as [H|H].
  - (* accepted by this very step *)
    destruct o as [|q|q|q rv|q|]; cbn [ep_step] in ES.
    + destruct (e_closed s); [inversion ES; subst; cbn in H; destruct H as [H|[]]; discriminate|].
      destruct (e_user s); [inversion ES; subst; cbn in H; destruct H as [H|[]]; discriminate|].
      unfold ep_match in ES. cbn [e_user e_wait] in ES. destruct (e_wait s) as [|w r] eqn:EW.
      * inversion ES; subst. contradiction.
      * inversion ES; subst. cbn in H. destruct H as [H|[]]. inversion H; subst. left. left. reflexivity.
    + destruct (e_closed s); inversion ES; subst; contradiction.
    + destruct (e_closed s).
      * inversion ES; subst. apply in_app_or in H. destruct H as [H|[H|[]]]; [destruct (e_user s); cbn in H; [destruct H as [H|[]]|]; try discriminate; contradiction|discriminate].
      * unfold ep_match in ES. cbn [e_user e_wait] in ES. destruct (e_user s).
        -- destruct (e_wait s ++ [q]) as [|w r] eqn:EW; inversion ES; subst; [contradiction|].
           cbn in H. destruct H as [H|[]]. inversion H; subst.
           destruct (e_wait s) as [|w0 r0]; cbn in EW; inversion EW; subst.
           ++ right. left. reflexivity.
           ++ left. left. reflexivity.
        -- inversion ES; subst. contradiction.
    + inversion ES; subst. apply in_app_or in H. destruct H as [H|[H|[]]]; [destruct (e_user s); cbn in H; [destruct H as [H|[]]|]; try discriminate; contradiction|discriminate].
    + inversion ES; subst. contradiction.
    + inversion ES; subst. apply in_app_or in H. destruct H as [H|H]; [destruct (e_user s); cbn in H; [destruct H as [H|[]]|]; try discriminate; contradiction|].
      apply in_app_or in H. destruct H as [H|H]; apply in_map_iff in H; destruct H as (x & Hx & _); discriminate.
  - destruct (IH H) as [Hw|Hn]; [|right; right; exact Hn].
    (* p waits in s1: it waited in s or was negotiated by this step *)
    destruct o as [|q|q|q rv|q|]; cbn [ep_step] in ES.
    + destruct (e_closed s); [inversion ES; subst; left; exact Hw|].
      destruct (e_user s); [inversion ES; subst; left; exact Hw|].
      unfold ep_match in ES. cbn [e_user e_wait] in ES. destruct (e_wait s) as [|w r] eqn:EW; inversion ES; subst; cbn [e_wait] in Hw.
      * contradiction.
      * left. right. exact Hw.
    + destruct (e_closed s); inversion ES; subst; left; exact Hw.
    + destruct (e_closed s).
      * inversion ES; subst. left. exact Hw.
      * unfold ep_match in ES. cbn [e_user e_wait] in ES. destruct (e_user s).
        -- destruct (e_wait s ++ [q]) as [|w r] eqn:EW; inversion ES; subst; cbn [e_wait] in Hw; [contradiction|].
           assert (Hin: In p (e_wait s ++ [q])) by (rewrite EW; right; exact Hw).
           apply in_app_or in Hin. destruct Hin as [Hin|[<-|[]]]; [left; exact Hin|right; left; reflexivity].
        -- inversion ES; subst. cbn [e_wait] in Hw. apply in_app_or in Hw.
           destruct Hw as [Hw|[<-|[]]]; [left; exact Hw|right; left; reflexivity].
    + inversion ES; subst. left. exact Hw.
    + inversion ES; subst. cbn [e_wait] in Hw. apply remove_id_In in Hw. left. tauto.
    + inversion ES; subst. left. exact Hw.
Qed.

Theorem ep_accepts_only_negotiated ops p :
  In (EpAccepted p) (snd (ep_run ep_init ops)) -> In (EpNegoOk p) ops.
Proof. intros H. destruct (ep_accept_origin ops ep_init p H) as [[]|H1]. exact H1. Qed.
