(* ChunkedModel: executable model of src/supplemental/http/http_chunk.c, the
   character-driven decoder of HTTP/1.1 chunked transfer encoding, with its
   size-overflow and maximum checks and the CRLF-after-data check.
   Definitions only.  size_t quantities are N, compared against SIZE_MAX. *)
From Coq Require Import List Arith Lia Bool NArith.
From NngV Require Import Base.ListX Base.Bytes.
Import ListNotations.
Local Open Scope N_scope.

Definition SIZE_MAX : N := 18446744073709551615.
Definition NNG_ENOMEM : N := 2.
Definition NNG_EAGAIN : N := 8.
Definition NNG_EPROTO : N := 13.
Definition NNG_EMSGSIZE : N := 17.

Inductive cstate := CS_INIT | CS_LEN | CS_EXT | CS_CR | CS_DATA | CS_TRLR | CS_TRLRCR | CS_DONE.

(* c_data: the bytes copied so far into the c_size + 2 bytes allocated
   (c_resid = c_size + 2 - length c_data) *)
Record chunk := mkChunk { c_size : N; c_data : list byte }.
Record chunks := mkChunks {
  cl_chunks : list chunk;
  cl_maxsz : N;
  cl_total : N;
  cl_size : N;
  cl_line : N;
  cl_state : cstate;
  cl_allocmax : N      (* nni_alloc fails above this size *)
}.
Definition chunks_init (maxsz allocmax : N) : chunks := mkChunks [] maxsz 0 0 0 CS_INIT allocmax.

Definition set_state (cl : chunks) (s : cstate) : chunks :=
  mkChunks (cl_chunks cl) (cl_maxsz cl) (cl_total cl) (cl_size cl) (cl_line cl) s (cl_allocmax cl).

(* <ctype.h> in the C locale *)
Definition is_digit (c : byte) : bool := (48 <=? c) && (c <=? 57).
Definition is_upper_hex (c : byte) : bool := (65 <=? c) && (c <=? 70).
Definition is_lower_hex (c : byte) : bool := (97 <=? c) && (c <=? 102).
Definition is_alnum (c : byte) : bool :=
  is_digit c || ((65 <=? c) && (c <=? 90)) || ((97 <=? c) && (c <=? 122)).
Definition is_print (c : byte) : bool := (32 <=? c) && (c <=? 126).

(* chunk_ingest_len *)
Definition ingest_len (cl : chunks) (c : byte) : chunks * N :=
  let add (digit : N) :=
    if (SIZE_MAX - digit) / 16 <? cl_size cl then (cl, NNG_EMSGSIZE)
    else (mkChunks (cl_chunks cl) (cl_maxsz cl) (cl_total cl)
            ((cl_size cl * 16 + digit) mod (SIZE_MAX + 1)) (cl_line cl) (cl_state cl) (cl_allocmax cl), 0) in
  if is_digit c then add (c - 48)
  else if is_upper_hex c then add (c - 65 + 10)
  else if is_lower_hex c then add (c - 97 + 10)
  else if c =? 59 then (set_state cl CS_EXT, 0)
  else if c =? 13 then (set_state cl CS_CR, 0)
  else (cl, NNG_EPROTO).

(* chunk_ingest_ext *)
Definition ingest_ext (cl : chunks) (c : byte) : chunks * N :=
  if c =? 13 then (set_state cl CS_CR, 0)
  else if negb (is_print c) then (cl, NNG_EPROTO)
  else (cl, 0).

(* chunk_ingest_newline *)
Definition ingest_newline (cl : chunks) (c : byte) : chunks * N :=
  if negb (c =? 10) then (cl, NNG_EPROTO)
  else if cl_size cl =? 0 then
    (mkChunks (cl_chunks cl) (cl_maxsz cl) (cl_total cl) (cl_size cl) 0 CS_TRLR (cl_allocmax cl), 0)
  else if (SIZE_MAX - 2 <? cl_size cl) || (SIZE_MAX - cl_total cl <? cl_size cl) ||
          ((0 <? cl_maxsz cl) && ((cl_maxsz cl <? cl_total cl) || (cl_maxsz cl - cl_total cl <? cl_size cl)))
       then (cl, NNG_EMSGSIZE)
  else if cl_allocmax cl <? cl_size cl + 2 then (cl, NNG_ENOMEM)
  else (mkChunks (cl_chunks cl ++ [mkChunk (cl_size cl) []]) (cl_maxsz cl)
          ((cl_total cl + cl_size cl) mod (SIZE_MAX + 1)) (cl_size cl) (cl_line cl) CS_DATA (cl_allocmax cl), 0).

(* chunk_ingest_trailer *)
Definition ingest_trailer (cl : chunks) (c : byte) : chunks * N :=
  if c =? 13 then (set_state cl CS_TRLRCR, 0)
  else if negb (is_print c) then (cl, NNG_EPROTO)
  else (mkChunks (cl_chunks cl) (cl_maxsz cl) (cl_total cl) (cl_size cl)
          ((cl_line cl + 1) mod (SIZE_MAX + 1)) (cl_state cl) (cl_allocmax cl), 0).

(* chunk_ingest_trailercr *)
Definition ingest_trailercr (cl : chunks) (c : byte) : chunks * N :=
  if negb (c =? 10) then (cl, NNG_EPROTO)
  else if cl_line cl =? 0 then (set_state cl CS_DONE, 0)
  else (mkChunks (cl_chunks cl) (cl_maxsz cl) (cl_total cl) (cl_size cl) 0 CS_TRLR (cl_allocmax cl), 0).

(* chunk_ingest_char *)
Definition ingest_char (cl : chunks) (c : byte) : chunks * N :=
  match cl_state cl with
  | CS_INIT => if negb (is_alnum c) then (cl, NNG_EPROTO) else ingest_len (set_state cl CS_LEN) c
  | CS_LEN => ingest_len cl c
  | CS_EXT => ingest_ext cl c
  | CS_CR => ingest_newline cl c
  | CS_TRLR => ingest_trailer cl c
  | CS_TRLRCR => ingest_trailercr cl c
  | CS_DATA | CS_DONE => (cl, NNG_EPROTO)
  end.

(* chunk_ingest_data: copy min(n, resid) bytes into the last chunk; when the
   chunk (and its two trailing bytes) is complete, those two must be CR LF.
   Returns the new state, rv, and the number of bytes taken. *)
Definition ingest_data (cl : chunks) (buf : list byte) : chunks * N * nat :=
  match rev (cl_chunks cl) with
  | [] => (cl, NNG_EPROTO, 0%nat)           (* NNI_ASSERT(chunk != NULL) *)
  | ch :: before =>
      let resid := c_size ch + 2 - N.of_nat (length (c_data ch)) in
      let n := N.of_nat (length buf) in
      if resid <=? n then
        let k := N.to_nat resid in
        let data := c_data ch ++ firstn k buf in
        let sz := N.to_nat (c_size ch) in
        if (nth sz data 0 =? 13) && (nth (S sz) data 0 =? 10) then
          (mkChunks (rev before ++ [mkChunk (c_size ch) data]) (cl_maxsz cl) (cl_total cl) 0 0 CS_INIT
             (cl_allocmax cl), 0, k)
        else
          (mkChunks (rev before ++ [mkChunk (c_size ch) data]) (cl_maxsz cl) (cl_total cl) (cl_size cl)
             (cl_line cl) (cl_state cl) (cl_allocmax cl), NNG_EPROTO, k)
      else
        (mkChunks (rev before ++ [mkChunk (c_size ch) (c_data ch ++ buf)]) (cl_maxsz cl) (cl_total cl)
           (cl_size cl) (cl_line cl) (cl_state cl) (cl_allocmax cl), 0, length buf)
  end.

Definition is_done (cl : chunks) : bool := match cl_state cl with CS_DONE => true | _ => false end.
Definition is_data (cl : chunks) : bool := match cl_state cl with CS_DATA => true | _ => false end.

(* one byte through the grinder.  In CS_DATA the C copies whole blocks; a block
   copy is the same as copying its bytes one at a time (ChunkedProofs:
   ingest_data_bytewise), and the model's loop takes them one at a time so that
   it is structurally recursive.  Returns (state, rv, whether the byte counts
   as consumed when rv is an error). *)
Definition cstep (cl : chunks) (c : byte) : chunks * N * bool :=
  if is_data cl then let '(cl', rv, _) := ingest_data cl [c] in (cl', rv, true)
  else let '(cl', rv) := ingest_char cl c in (cl', rv, false).

(* nni_http_chunks_parse: (state, rv, *lenp) *)
Fixpoint chunks_loop (cl : chunks) (buf : list byte) (used : nat) : chunks * N * nat :=
  if is_done cl then (cl, 0, used)
  else match buf with
       | [] => (cl, NNG_EAGAIN, used)
       | c :: rest =>
           let '(cl', rv, counted) := cstep cl c in
           if rv =? 0 then chunks_loop cl' rest (S used)
           else (cl', rv, if counted then S used else used)
       end.
Definition chunks_parse (cl : chunks) (buf : list byte) : chunks * N * nat := chunks_loop cl buf 0.

(* what nni_http_chunks_iter / _size / _data show *)
Definition chunk_payload (ch : chunk) : list byte := firstn (N.to_nat (c_size ch)) (c_data ch).
Definition chunks_body (cl : chunks) : list byte := concat (map chunk_payload (cl_chunks cl)).

(* ---- as a stream decoder (DESIGN appendix A.3) ---- *)
Inductive cevent := CDeliver (chunks_data : list (list byte)) | CFail (rv : N).
Inductive cstatus := CRun | CDoneS | CFailS (rv : N).
Record cfeed := mkCF { f_cl : chunks; f_status : cstatus; f_left : list byte }.
Definition cfeed_init (maxsz allocmax : N) : cfeed := mkCF (chunks_init maxsz allocmax) CRun [].

Definition chunk_feed (st : cfeed) (input : list byte) : cfeed * list cevent :=
  match f_status st with
  | CRun =>
      let '(cl', rv, used) := chunks_parse (f_cl st) input in
      if rv =? NNG_EAGAIN then (mkCF cl' CRun [], [])
      else if rv =? 0 then (mkCF cl' CDoneS (skipn used input), [CDeliver (map chunk_payload (cl_chunks cl'))])
      else (mkCF cl' (CFailS rv) [], [CFail rv])
  | CDoneS => (mkCF (f_cl st) CDoneS (f_left st ++ input), [])   (* bytes of whatever follows the body *)
  | CFailS _ => (st, [])                                          (* http_close *)
  end.
