(* CanonPure: the three passes of nni_url_canonify_uri as pure functions on
   the NUL-free text.  Definitions only.  These are proof devices: the
   in-place passes of CanonModel.v are shown (CanonRefine.v) to compute
   exactly these functions on the string held in the buffer, and the
   canonical-form and idempotence theorems (CanonProofs.v) are proved about
   them. *)
From Coq Require Import List Arith Lia Bool NArith.
From NngV Require Import Url.Utf8Model Url.CanonModel.
Import ListNotations.
Local Open Scope N_scope.

(* pass 1: None = NNG_EINVAL *)
Fixpoint p1 (s : list N) : option (list N) :=
  match s with
  | [] => Some []
  | c :: r =>
      if c =? 37 then
        match r with
        | h1 :: h2 :: r' =>
            if c_isxdigit h1 && c_isxdigit h2 then
              let v := wrap8 (wrap8 (url_hex_val h1 * 16) + url_hex_val h2) in
              match p1 r' with
              | None => None
              | Some t => Some (if safe_char v then v :: t else 37 :: c_toupper h1 :: c_toupper h2 :: t)
              end
            else None
        | _ => None
        end
      else match p1 r with None => None | Some t => Some (c :: t) end
  end.

(* pass 2.  [skip]: a '?' or '#' has been seen; [prev]: the previous input
   byte was a '/' that has been (or whose run has been) emitted *)
Fixpoint p2 (skip prev : bool) (s : list N) : list N :=
  match s with
  | [] => []
  | c :: r =>
      if (c =? 47) && negb skip then
        (if prev then p2 skip true r else 47 :: p2 skip true r)
      else c :: p2 (if is_qf c then true else skip) false r
  end.

(* pass 3.  [racc] = the output so far, reversed.
   pop = do { dst--; } while (dst && out[dst] != '/') *)
Fixpoint pop (racc : list N) : list N :=
  match racc with
  | [] => []
  | x :: r' => match r' with
               | [] => []
               | _ => if x =? 47 then r' else pop r'
               end
  end.

(* the byte at the head of the rest is a terminator (NUL = end of text) *)
Definition term_hd (l : list N) : bool := match l with [] => true | x :: _ => is_term x end.

Fixpoint p3 (skip : bool) (racc : list N) (s : list N) : list N :=
  match s with
  | [] => rev racc
  | c :: r =>
      if (c =? 47) && negb skip then
        match r with
        | 46 :: 46 :: r2 =>
            if term_hd r2 then p3 skip (pop racc) r2
            else p3 skip (47 :: racc) r
        | 46 :: r1 =>
            if term_hd r1 then p3 skip racc r1
            else p3 skip (47 :: racc) r
        | _ => p3 skip (47 :: racc) r
        end
      else p3 (if is_qf c then true else skip) (c :: racc) r
  end.

Definition canon_passes (s : list N) : option (list N) :=
  match p1 s with
  | None => None
  | Some s1 => Some (p3 false [] (p2 false false s1))
  end.

(* the whole function: None = NNG_EINVAL *)
Definition canon_pure (utf8_fixed : bool) (s : list N) : option (list N) :=
  match canon_passes s with
  | None => None
  | Some s3 =>
      match utf8_validate utf8_fixed (s3 ++ [0]) with
      | Some true => Some s3
      | _ => None
      end
  end.
