(* CanonModel: executable model of nni_url_canonify_uri (src/core/url.c) --
   the three in-place passes over a NUL-terminated buffer followed by the
   UTF-8 validation.  Definitions only.

   [b] is the memory from the pointer [out] to the end of its allocation;
   [src]/[dst] are the C's indices.  Every out[i] read is [brd b i], every
   out[i] = c is [bwr b i c]; both are [None] outside the allocation.  The
   passes are in place (dst <= src is *not* assumed, it is proved in
   CanonProofs.v): each write really changes the buffer later reads see.
   Loops carry fuel; running out of fuel is [None] as well (proved not to
   happen). *)
From Coq Require Import List Arith Lia Bool NArith.
From NngV Require Import Url.Utf8Model.
Import ListNotations.

Definition brd (b : list N) (i : nat) : option N := nth_error b i.
Definition bwr (b : list N) (i : nat) (c : N) : option (list N) :=
  if i <? length b then Some (firstn i b ++ c :: skipn (S i) b) else None.

Notation "x <- e ;; k" := (match e with Some x => k | None => None end)
  (at level 60, e at next level, right associativity).

Local Open Scope N_scope.

(* ctype in the "C" locale *)
Definition c_isdigit (c : N) : bool := (48 <=? c) && (c <=? 57).
Definition c_isxdigit (c : N) : bool :=
  c_isdigit c || ((65 <=? c) && (c <=? 70)) || ((97 <=? c) && (c <=? 102)).
Definition c_isupper (c : N) : bool := (65 <=? c) && (c <=? 90).
Definition c_islower (c : N) : bool := (97 <=? c) && (c <=? 122).
Definition c_toupper (c : N) : N := if c_islower c then c - 32 else c.
Definition c_tolower (c : N) : N := if c_isupper c then c + 32 else c.
Definition c_isspace (c : N) : bool := (c =? 32) || ((9 <=? c) && (c <=? 13)).

(* url_hex_val *)
Definition url_hex_val (c : N) : N :=
  if c_isdigit c then c - 48
  else if (65 <=? c) && (c <=? 70) then c - 65 + 10
  else if (97 <=? c) && (c <=? 102) then c - 97 + 10
  else 0.

Definition wrap8 (v : N) : N := v mod 256.

(* the "safe character" test of pass 1: A-Z a-z 0-9 . ~ _ - or >= 0x80 *)
Definition safe_char (c : N) : bool :=
  c_isupper c || c_islower c || c_isdigit c || (c =? 46) || (c =? 126) || (c =? 95) || (c =? 45) || (128 <=? c).

(* ---- pass 1: decode %xx of safe characters, upper-case the kept escapes.
   Result: None = out of bounds / fuel; Some None = NNG_EINVAL;
   Some (Some b') = finished. *)
Fixpoint pass1 (fuel : nat) (b : list N) (src dst : nat) : option (option (list N)) :=
  match fuel with
  | O => None
  | S f =>
      c <- brd b src ;;
      if c =? 0 then (b' <- bwr b dst 0 ;; Some (Some b'))
      else if c =? 37 then
        h1 <- brd b (src + 1) ;;
        if negb (c_isxdigit h1) then Some None else
        h2 <- brd b (src + 2) ;;
        if negb (c_isxdigit h2) then Some None else
        let v := wrap8 (wrap8 (url_hex_val h1 * 16) + url_hex_val h2) in
        if safe_char v then
          b1 <- bwr b dst v ;; pass1 f b1 (src + 3) (dst + 1)
        else
          b1 <- bwr b dst 37 ;;
          x1 <- brd b1 (src + 1) ;;
          b2 <- bwr b1 (dst + 1) (c_toupper x1) ;;
          x2 <- brd b2 (src + 2) ;;
          b3 <- bwr b2 (dst + 2) (c_toupper x2) ;;
          pass1 f b3 (src + 3) (dst + 3)
      else
        x <- brd b src ;;
        b1 <- bwr b dst x ;; pass1 f b1 (src + 1) (dst + 1)
  end.

(* ---- pass 2: collapse runs of '/' before the first '?' or '#' *)
Fixpoint skip_slashes (fuel : nat) (b : list N) (src : nat) : option nat :=
  match fuel with
  | O => None
  | S f => c <- brd b src ;; if c =? 47 then skip_slashes f b (S src) else Some src
  end.

Definition is_qf (c : N) : bool := (c =? 63) || (c =? 35).   (* '?' '#' *)

Fixpoint pass2 (fuel : nat) (b : list N) (src dst : nat) (skip : bool) : option (list N) :=
  match fuel with
  | O => None
  | S f =>
      c <- brd b src ;;
      if c =? 0 then bwr b dst 0
      else if (c =? 47) && negb skip then
        b1 <- bwr b dst 47 ;;
        src' <- skip_slashes (S (length b1)) b1 src ;;
        pass2 f b1 src' (dst + 1) skip
      else
        let skip' := if is_qf c then true else skip in
        b1 <- bwr b dst c ;; pass2 f b1 (src + 1) (dst + 1) skip'
  end.

(* ---- pass 3: remove "/." and "/.." segments before the first '?' or '#' *)

(* strncmp(out + i, lit, |lit|) == 0 for a literal without NUL: compares
   byte by byte and stops at the first difference (in particular at a NUL) *)
Fixpoint strncmp_lit (b : list N) (i : nat) (lit : list N) : option bool :=
  match lit with
  | [] => Some true
  | x :: lit' => c <- brd b i ;; if c =? x then strncmp_lit b (S i) lit' else Some false
  end.

(* out[k] == 0 || out[k] == '#' || out[k] == '?' || out[k] == '/' *)
Definition is_term (c : N) : bool := (c =? 0) || (c =? 35) || (c =? 63) || (c =? 47).

(* do { dst--; } while (dst && out[dst] != '/');   called with dst > 0 *)
Fixpoint popback (fuel : nat) (b : list N) (dst : nat) : option nat :=
  match fuel with
  | O => None
  | S f =>
      let d := (dst - 1)%nat in
      if (d =? 0)%nat then Some d
      else c <- brd b d ;; if c =? 47 then Some d else popback f b d
  end.

Fixpoint pass3 (fuel : nat) (b : list N) (src dst : nat) (skip : bool) : option (list N) :=
  match fuel with
  | O => None
  | S f =>
      c <- brd b src ;;
      if c =? 0 then bwr b dst 0
      else if (c =? 47) && negb skip then
        m2 <- strncmp_lit b src [47; 46; 46] ;;
        t2 <- (if m2 then (c3 <- brd b (src + 3) ;; Some (is_term c3)) else Some false) ;;
        if t2 then
          dst' <- (if (0 <? dst)%nat then popback (S (length b)) b dst else Some dst) ;;
          pass3 f b (src + 3) dst' skip
        else
          m1 <- strncmp_lit b src [47; 46] ;;
          t1 <- (if m1 then (c2 <- brd b (src + 2) ;; Some (is_term c2)) else Some false) ;;
          if t1 then pass3 f b (src + 2) dst skip
          else b1 <- bwr b dst 47 ;; pass3 f b1 (src + 1) (dst + 1) skip
      else
        let skip' := if is_qf c then true else skip in
        b1 <- bwr b dst c ;; pass3 f b1 (src + 1) (dst + 1) skip'
  end.

(* nni_url_canonify_uri(out).  [utf8_fixed] is the flag of Utf8Model.
   Result: None = out of bounds; Some (rv, b'): on rv <> 0 the buffer
   contents are unspecified (the callers discard them); the model returns
   the original. *)
Definition canonify (utf8_fixed : bool) (b : list N) : option (N * list N) :=
  r1 <- pass1 (S (length b)) b 0 0 ;;
  match r1 with
  | None => Some (NNG_EINVAL, b)
  | Some b1 =>
      b2 <- pass2 (S (length b1)) b1 0 0 false ;;
      b3 <- pass3 (S (length b2)) b2 0 0 false ;;
      ok <- utf8_validate utf8_fixed b3 ;;
      if ok then Some (NNG_OK, b3) else Some (NNG_EINVAL, b)
  end.
