(* UrlParseProofs: lemmas about UrlParseModel -- scheme exactness, the shape
   of the buffer after every phase of the parser (hence: no out-of-bounds
   access on any NUL-terminated input), canonical form of the accepted
   components, clone. *)
From Coq Require Import List Arith Lia Bool NArith.
From NngV Require Import Base.ListX Url.Utf8Model Url.Utf8Spec Url.Utf8Proofs Url.CanonModel Url.CanonPure
  Url.CanonSpec Url.UrlParseModel.
Import ListNotations.
Local Open Scope N_scope.

Definition nz (l : list N) : Prop := Forall byte_nz l.

Lemma nz_app a b : nz (a ++ b) <-> nz a /\ nz b.
Proof. unfold nz. apply Forall_app. Qed.
Lemma nz_cons x a : nz (x :: a) <-> byte_nz x /\ nz a.
Proof. unfold nz. split; intros H; [inversion H; auto | destruct H; constructor; auto]. Qed.
Lemma nz_firstn n a : nz a -> nz (firstn n a).
Proof. unfold nz. revert a; induction n; intros [|x a] H; simpl; auto. inversion H; subst. constructor; auto. Qed.
Lemma nz_skipn n a : nz a -> nz (skipn n a).
Proof. unfold nz. revert a; induction n; intros [|x a] H; simpl; auto. inversion H; subst. auto. Qed.
Lemma nz_neq0 x : byte_nz x -> (x =? 0) = false.
Proof. intros [H _]. apply N.eqb_neq. lia. Qed.

(* ------------------------------------------------------------ brd / bwr *)
Lemma brd_app (a r : list N) k : brd (a ++ r) (length a + k) = brd r k.
Proof. unfold brd. rewrite nth_error_app2 by lia. f_equal. lia. Qed.
Lemma brd_app0 (a r : list N) : brd (a ++ r) (length a) = brd r 0.
Proof. rewrite <- (Nat.add_0_r (length a)) at 1. apply brd_app. Qed.
Lemma bwr_app (a r : list N) x c : bwr (a ++ x :: r) (length a) c = Some (a ++ c :: r).
Proof.
  unfold bwr. rewrite app_length. simpl length.
  destruct (length a <? length a + S (length r))%nat eqn:E; [|apply Nat.ltb_ge in E; lia].
  f_equal. rewrite firstn_app_exact by reflexivity. f_equal. f_equal.
  replace (S (length a)) with (length (a ++ [x])) by (rewrite app_length; simpl; lia).
  replace (a ++ x :: r) with ((a ++ [x]) ++ r) by (rewrite <- app_assoc; reflexivity).
  apply skipn_app_exact. reflexivity.
Qed.

(* ------------------------------------------------------------ scanning *)
(* index of the first byte satisfying [stop], or the length *)
Fixpoint stop_idx (stop : N -> bool) (l : list N) : nat :=
  match l with [] => O | c :: r => if stop c then O else S (stop_idx stop r) end.

Lemma stop_idx_le stop l : (stop_idx stop l <= length l)%nat.
Proof. induction l as [|c r IH]; simpl; [lia|]. destruct (stop c); lia. Qed.

Lemma find_idx_app0 stop mid post : stop 0 = true ->
  c_find_idx stop (mid ++ 0 :: post) = Some (stop_idx stop mid).
Proof.
  intros H0. induction mid as [|c r IH]; simpl.
  - rewrite H0. reflexivity.
  - destruct (stop c); [reflexivity|]. rewrite IH. reflexivity.
Qed.

(* the text either has no stop byte, or splits at the first one *)
Lemma stop_idx_split stop l :
  (stop_idx stop l = length l /\ forallb (fun c => negb (stop c)) l = true) \/
  (exists m1 x m2, l = m1 ++ x :: m2 /\ length m1 = stop_idx stop l /\ stop x = true /\
                   forallb (fun c => negb (stop c)) m1 = true).
Proof.
  induction l as [|c r IH]; simpl.
  - left. auto.
  - destruct (stop c) eqn:E.
    + right. exists [], c, r. simpl. auto.
    + destruct IH as [[H1 H2]|(m1 & x & m2 & H1 & H2 & H3 & H4)].
      * left. simpl. rewrite H2. auto.
      * right. exists (c :: m1), x, m2. simpl. rewrite H4, E. subst r. auto.
Qed.

Lemma scan_form stop pre mid post : stop 0 = true ->
  c_scan stop (pre ++ mid ++ 0 :: post) (length pre) = Some (length pre + stop_idx stop mid)%nat.
Proof.
  intros H0. unfold c_scan. rewrite skipn_app_exact by reflexivity.
  rewrite find_idx_app0 by exact H0. reflexivity.
Qed.

Lemma is0_idx mid : nz mid -> stop_idx c_is0 mid = length mid.
Proof.
  induction mid as [|c r IH]; intros H; [reflexivity|].
  apply nz_cons in H. destruct H as [Hc Hr]. simpl. unfold c_is0 at 1. rewrite (nz_neq0 _ Hc).
  rewrite IH by exact Hr. reflexivity.
Qed.

Lemma strlen_form pre mid post : nz mid ->
  c_strlen (pre ++ mid ++ 0 :: post) (length pre) = Some (length mid).
Proof.
  intros H. unfold c_strlen. rewrite scan_form by reflexivity. rewrite is0_idx by exact H.
  simpl. f_equal. lia.
Qed.

Lemma sub_form {A} (pre mid post : list A) :
  sub (pre ++ mid ++ post) (length pre) (length mid) = Some mid.
Proof.
  rewrite sub_Some by (rewrite !app_length; lia).
  rewrite skipn_app_exact by reflexivity. rewrite firstn_app_exact by reflexivity. reflexivity.
Qed.

Lemma cstr_form pre mid post : nz mid -> cstr_at (pre ++ mid ++ 0 :: post) (length pre) = Some mid.
Proof.
  intros H. unfold cstr_at. rewrite strlen_form by exact H.
  apply (sub_form pre mid (0 :: post)).
Qed.

Lemma blit_form {A} (pre mid post new : list A) : length new = length mid ->
  blit (pre ++ mid ++ post) (length pre) new = Some (pre ++ new ++ post).
Proof.
  intros H. rewrite blit_Some by (rewrite !app_length; lia).
  rewrite firstn_app_exact by reflexivity. f_equal. f_equal. f_equal.
  rewrite H. rewrite app_assoc. apply skipn_app_exact. rewrite app_length. reflexivity.
Qed.

(* strncmp against a NUL-free literal never leaves a NUL-terminated text *)
Lemma strncmp_lit_total lit : forall s tail i, nz s -> Forall (fun x => x <> 0) lit -> (i <= length s)%nat ->
  exists r, strncmp_lit (s ++ 0 :: tail) i lit = Some r.
Proof.
  induction lit as [|x lit IH]; intros s tail i Hs Hl Hi; simpl; [eauto|].
  inversion Hl as [|? ? Hx Hl']; subst.
  destruct (Nat.eq_dec i (length s)) as [->|Hne].
  - rewrite brd_app0. unfold brd at 1. cbn [nth_error].
    destruct (N.eqb_spec 0 x) as [E|E]; [congruence|]. eauto.
  - assert (Hlt: (i < length s)%nat) by lia.
    unfold brd at 1. rewrite nth_error_app1 by exact Hlt.
    destruct (nth_error s i) eqn:En; [|apply nth_error_None in En; lia].
    fold (brd (s ++ 0 :: tail)).
    destruct (n =? x); [|eauto]. apply IH; auto; lia.
Qed.

(* what a successful comparison says *)
Lemma strncmp_lit_true lit : forall b i, strncmp_lit b i lit = Some true ->
  firstn (length lit) (skipn i b) = lit.
Proof.
  induction lit as [|x lit IH]; intros b i H; simpl in *; [reflexivity|].
  unfold brd in H. destruct (nth_error b i) eqn:En; [|discriminate].
  destruct (n =? x) eqn:E; [|discriminate]. apply N.eqb_eq in E. subst n.
  apply IH in H.
  assert (Hs: skipn i b = x :: skipn (S i) b).
  { clear - En. revert b En. induction i; intros [|y b] En; simpl in *; try discriminate.
    - inversion En; reflexivity. - apply IHi. exact En. }
  rewrite Hs. simpl. f_equal. exact H.
Qed.

(* ------------------------------------------------------------ scheme *)
Lemma strncmp_eq_exact : forall pre t, strncmp_eq pre t (length pre) = true -> length t = length pre -> pre = t.
Proof.
  induction pre as [|x pre IH]; intros [|y t] H HL; simpl in *; try discriminate; try reflexivity.
  apply andb_true_iff in H. destruct H as [H1 H2]. apply N.eqb_eq in H1. subst y.
  f_equal. apply IH; auto.
Qed.

Lemma find_scheme_in exact pre sch : find_scheme exact pre = Some sch -> In sch schemes.
Proof. unfold find_scheme. intros H. apply find_some in H. tauto. Qed.

Lemma find_scheme_exact pre sch : find_scheme true pre = Some sch -> sch = pre /\ In sch schemes.
Proof.
  unfold find_scheme. intros H. apply find_some in H. destruct H as [Hin Hm]. split; [|exact Hin].
  unfold scheme_match in Hm. apply andb_true_iff in Hm. destruct Hm as [H1 H2].
  apply Nat.eqb_eq in H2. symmetry. apply strncmp_eq_exact; auto.
Qed.

(* phase 1 on a NUL-terminated text: in bounds; on success the text is
   <first len bytes> "://" <rest> and the scheme is what the table lookup
   gives for those bytes *)
Lemma parse_scheme_spec exact s tail : nz s ->
  match parse_scheme exact (s ++ 0 :: tail) with
  | UOob => False
  | UErr _ => True
  | UVal (sch, len) =>
      exists rest, s = firstn len s ++ [58; 47; 47] ++ rest /\ (len <= length s)%nat /\
                   find_scheme exact (firstn len s) = Some sch
  end.
Proof.
  intros Hs. unfold parse_scheme.
  set (stop := fun c : N => (c =? 58) || (c =? 0)).
  assert (Hsc: c_scan stop (s ++ 0 :: tail) 0 = Some (stop_idx stop s)).
  { apply (scan_form stop [] s tail). reflexivity. }
  rewrite Hsc. cbn [ulift ubind].
  pose proof (stop_idx_le stop s) as Hle.
  destruct (strncmp_lit_total [58; 47; 47] s tail (stop_idx stop s) Hs) as [m Hm]; [repeat constructor; lia | exact Hle |].
  rewrite Hm. cbn [ulift ubind].
  destruct m; cbn [negb]; [|exact I].
  assert (Hsub: sub (s ++ 0 :: tail) 0 (stop_idx stop s) = Some (firstn (stop_idx stop s) s)).
  { rewrite sub_Some by (rewrite app_length; simpl; lia). simpl. rewrite firstn_app_le by lia. reflexivity. }
  rewrite Hsub. cbn [ulift ubind].
  destruct (find_scheme exact (firstn (stop_idx stop s) s)) as [sch|] eqn:Ef; [|exact I].
  apply strncmp_lit_true in Hm. simpl length in Hm.
  (* the three bytes lie inside s, because they are not NUL *)
  assert (Hin: (stop_idx stop s + 3 <= length s)%nat /\ firstn 3 (skipn (stop_idx stop s) s) = [58; 47; 47]).
  { rewrite skipn_app in Hm.
    remember (skipn (stop_idx stop s) s) as u eqn:Eu.
    assert (Hu: nz u) by (subst u; apply nz_skipn; exact Hs).
    assert (Hlu: length u = (length s - stop_idx stop s)%nat) by (subst u; apply skipn_length).
    replace (stop_idx stop s - length s)%nat with O in Hm by lia. simpl skipn in Hm.
    destruct u as [|u1 [|u2 [|u3 u]]]; cbn [app firstn] in Hm.
    - exfalso. inversion Hm.
    - exfalso. inversion Hm.
    - exfalso. inversion Hm.
    - simpl in Hlu. split; [lia|]. cbn [firstn]. inversion Hm; subst. reflexivity. }
  destruct Hin as [Hlen H3].
  exists (skipn (stop_idx stop s + 3) s). repeat split; [|lia|exact Ef].
  rewrite <- (firstn_skipn (stop_idx stop s) s) at 1. f_equal.
  rewrite <- (firstn_skipn 3 (skipn (stop_idx stop s) s)) at 1. rewrite H3. f_equal.
  rewrite skipn_skipn'. f_equal. lia.
Qed.

(* ------------------------------------------------------------ "at" forms of the buffer lemmas *)
Ltac lsolve := repeat rewrite <- app_assoc; cbn [app]; reflexivity.
Ltac lensolve := repeat rewrite app_length; cbn [length]; lia.

Lemma scan_at stop b pre mid post n : b = pre ++ mid ++ 0 :: post -> n = length pre -> stop 0 = true ->
  c_scan stop b n = Some (n + stop_idx stop mid)%nat.
Proof. intros -> -> H. apply scan_form. exact H. Qed.
Lemma strlen_at b pre mid post n : b = pre ++ mid ++ 0 :: post -> n = length pre -> nz mid ->
  c_strlen b n = Some (length mid).
Proof. intros -> -> H. apply strlen_form. exact H. Qed.
Lemma cstr_at_at b pre mid post n : b = pre ++ mid ++ 0 :: post -> n = length pre -> nz mid ->
  cstr_at b n = Some mid.
Proof. intros -> -> H. apply cstr_form. exact H. Qed.
Lemma brd_at b a x r n : b = a ++ x :: r -> n = length a -> brd b n = Some x.
Proof. intros -> ->. rewrite brd_app0. reflexivity. Qed.
Lemma bwr_at b a x r n c : b = a ++ x :: r -> n = length a -> bwr b n c = Some (a ++ c :: r).
Proof. intros -> ->. apply bwr_app. Qed.
Lemma sub_at {A} (b pre mid post : list A) n k : b = pre ++ mid ++ post -> n = length pre -> k = length mid ->
  sub b n k = Some mid.
Proof. intros -> -> ->. apply sub_form. Qed.
Lemma blit_at {A} (b pre mid post new : list A) n : b = pre ++ mid ++ post -> n = length pre ->
  length new = length mid -> blit b n new = Some (pre ++ new ++ post).
Proof. intros -> -> H. apply blit_form. exact H. Qed.

Lemma forallb_nostop_nz stop l : nz l -> forallb (fun c => negb (stop c)) l = true -> nz l.
Proof. auto. Qed.

(* ------------------------------------------------------------ phase 2 *)
Lemma parse_buffer_spec s tail len : nz s -> (len <= length s)%nat ->
  exists tail2 bufsz, parse_buffer (s ++ 0 :: tail) len = UVal (skipn len s ++ 0 :: tail2, bufsz) /\
    ((bufsz = O /\ length (skipn len s ++ 0 :: tail2) = STATIC_SZ) \/
     (bufsz = S (length (skipn len s)) /\ tail2 = [] /\ (STATIC_SZ <= length (skipn len s))%nat)).
Proof.
  intros Hs Hl. unfold parse_buffer.
  assert (E: s ++ 0 :: tail = firstn len s ++ skipn len s ++ 0 :: tail).
  { rewrite app_assoc, firstn_skipn. reflexivity. }
  assert (Hfl: length (firstn len s) = len) by (rewrite firstn_length; lia).
  rewrite (strlen_at _ (firstn len s) (skipn len s) tail len E) by (auto using nz_skipn).
  cbn [ulift ubind].
  rewrite (sub_at _ (firstn len s) (skipn len s ++ [0]) tail len) by (try lsolve; try lensolve; rewrite E; lsolve).
  cbn [ulift ubind].
  destruct (STATIC_SZ <=? length (skipn len s))%nat eqn:Eh.
  - apply Nat.leb_le in Eh. exists [], (S (length (skipn len s))). split.
    + f_equal. f_equal. lia.
    + right. auto.
  - apply Nat.leb_gt in Eh. exists (uzeros (STATIC_SZ - (length (skipn len s) + 1))), O. split.
    + rewrite <- app_assoc. reflexivity.
    + left. split; [reflexivity|]. rewrite app_length. cbn [length]. unfold uzeros. rewrite repeat_length. lia.
Qed.

(* ------------------------------------------------------------ phase 3 *)
Definition stop3 (c : N) : bool := (c =? 0) || (c =? 47) || (c =? 35) || (c =? 63).

Lemma two_left {A} (w : list A) n : length w = (n + 3)%nat -> exists y1 y2, skipn (n + 1) w = [y1; y2].
Proof.
  intros H. remember (skipn (n + 1) w) as u eqn:Eu.
  assert (length u = 2%nat) by (subst u; rewrite skipn_length; lia).
  destruct u as [|y1 [|y2 [|]]]; simpl in *; try lia. eauto.
Qed.

Lemma parse_authority_spec rest tail2 : nz rest ->
  exists auth rem y1 y2,
    rest = auth ++ rem /\ forallb (fun c => negb (stop3 c)) auth = true /\
    (rem = [] \/ exists x m, rem = x :: m /\ stop3 x = true) /\
    parse_authority ([58; 47; 47] ++ rest ++ 0 :: tail2) =
      UVal (auth ++ 0 :: y1 :: y2 :: rem ++ 0 :: tail2, (length auth + 3)%nat).
Proof.
  intros Hr. unfold parse_authority. fold stop3.
  change (fun c : N => (c =? 0) || (c =? 47) || (c =? 35) || (c =? 63)) with stop3.
  rewrite (scan_at stop3 _ [58; 47; 47] rest tail2 3) by (try lsolve; reflexivity).
  cbn [ulift ubind].
  (* unify the two cases: the buffer is w ++ c :: after *)
  assert (Hsp: exists auth rem c after,
     rest = auth ++ rem /\ length auth = stop_idx stop3 rest /\
     forallb (fun c => negb (stop3 c)) auth = true /\
     (rem = [] \/ exists x m, rem = x :: m /\ stop3 x = true) /\
     c :: after = rem ++ 0 :: tail2).
  { destruct (stop_idx_split stop3 rest) as [[H1 H2]|(m1 & x & m2 & H1 & H2 & H3 & H4)].
    - exists rest, [], 0, tail2. rewrite app_nil_r. repeat split; auto.
    - exists m1, (x :: m2), x, (m2 ++ 0 :: tail2). repeat split; auto. right. eauto. }
  destruct Hsp as (auth & rem & c & after & Hrest & Hla & Hns & Hrem & Hca).
  rewrite <- Hla.
  assert (Hna: nz auth). { subst rest. apply nz_app in Hr. tauto. }
  set (w := [58; 47; 47] ++ auth).
  assert (Eb: [58; 47; 47] ++ rest ++ 0 :: tail2 = w ++ c :: after).
  { subst rest w. rewrite Hca. lsolve. }
  assert (Hw: length w = (length auth + 3)%nat) by (subst w; cbn [app length]; lia).
  rewrite (brd_at _ w c after) by (auto; lia).
  cbn [ulift ubind].
  rewrite (bwr_at _ w c after _ 0) by (auto; lia).
  cbn [ulift ubind].
  rewrite (strlen_at (w ++ 0 :: after) [58; 47; 47] auth after 3) by (auto; subst w; lsolve).
  cbn [ulift ubind].
  rewrite (sub_at (w ++ 0 :: after) [58; 47; 47] (auth ++ [0]) after 3) by (try lensolve; subst w; lsolve).
  cbn [ulift ubind].
  destruct (two_left w (length auth) Hw) as (y1 & y2 & Hy).
  assert (Ew: w = firstn (length auth + 1) w ++ [y1; y2]) by (rewrite <- Hy; symmetry; apply firstn_skipn).
  rewrite (blit_at (w ++ 0 :: after) [] (firstn (length auth + 1) w) ([y1; y2] ++ 0 :: after) (auth ++ [0]) 0);
    [ | rewrite Ew at 1; lsolve | reflexivity | rewrite firstn_length; lensolve ].
  cbn [ulift ubind app].
  rewrite (bwr_at _ (auth ++ 0 :: [y1; y2]) 0 after _ c) by (try lsolve; lensolve).
  cbn [ulift ubind].
  exists auth, rem, y1, y2. repeat split; auto.
  f_equal. f_equal. rewrite <- Hca. lsolve.
  Show.
Qed.
