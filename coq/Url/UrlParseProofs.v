(* UrlParseProofs: lemmas about UrlParseModel -- scheme exactness, the shape
   of the buffer after every phase of the parser (hence: no out-of-bounds
   access on any NUL-terminated input), canonical form of the accepted
   components, clone. *)
From Coq Require Import List Arith Lia Bool NArith.
From NngV Require Import Base.ListX Url.Utf8Model Url.Utf8Spec Url.Utf8Proofs Url.CanonModel Url.CanonPure Url.CanonRefine
  Url.CanonSpec Url.CanonProofs Url.UrlParseModel.
Import ListNotations.
Local Open Scope N_scope.

Definition nz (l : list N) : Prop := Forall byte_nz l.

Lemma nz_app a b : nz (a ++ b) <-> nz a /\ nz b.
Proof. unfold nz. apply Forall_app. Qed.
Lemma nz_cons x a : nz (x :: a) <-> byte_nz x /\ nz a.
Proof. unfold nz. split; intros H; [inversion H; auto | destruct H; constructor; auto]. Qed.
Lemma nz_firstn n a : nz a -> nz (firstn n a).
Proof. unfold nz. revert a; induction n; intros [|x a] H; simpl; auto. inversion H; subst. constructor; auto. Qed.
Lemma nz_skipn n a : nz a -> nz (skipn n a).
Proof. unfold nz. revert a; induction n; intros [|x a] H; simpl; auto. inversion H; subst. auto. Qed.
Lemma nz_neq0 x : byte_nz x -> (x =? 0) = false.
Proof. intros [H _]. apply N.eqb_neq. lia. Qed.

(* ------------------------------------------------------------ brd / bwr *)
Lemma brd_app (a r : list N) k : brd (a ++ r) (length a + k) = brd r k.
Proof. unfold brd. rewrite nth_error_app2 by lia. f_equal. lia. Qed.
Lemma brd_app0 (a r : list N) : brd (a ++ r) (length a) = brd r 0.
Proof. rewrite <- (Nat.add_0_r (length a)) at 1. apply brd_app. Qed.
Lemma bwr_app (a r : list N) x c : bwr (a ++ x :: r) (length a) c = Some (a ++ c :: r).
Proof.
  unfold bwr. rewrite app_length. simpl length.
  destruct (length a <? length a + S (length r))%nat eqn:E; [|apply Nat.ltb_ge in E; lia].
  f_equal. rewrite firstn_app_exact by reflexivity. f_equal. f_equal.
  replace (S (length a)) with (length (a ++ [x])) by (rewrite app_length; simpl; lia).
  replace (a ++ x :: r) with ((a ++ [x]) ++ r) by (rewrite <- app_assoc; reflexivity).
  apply skipn_app_exact. reflexivity.
Qed.

(* ------------------------------------------------------------ scanning *)
(* index of the first byte satisfying [stop], or the length *)
Fixpoint stop_idx (stop : N -> bool) (l : list N) : nat :=
  match l with [] => O | c :: r => if stop c then O else S (stop_idx stop r) end.

Lemma stop_idx_le stop l : (stop_idx stop l <= length l)%nat.
Proof. induction l as [|c r IH]; simpl; [lia|]. destruct (stop c); lia. Qed.

Lemma find_idx_app0 stop mid post : stop 0 = true ->
  c_find_idx stop (mid ++ 0 :: post) = Some (stop_idx stop mid).
Proof.
  intros H0. induction mid as [|c r IH]; simpl.
  - rewrite H0. reflexivity.
  - destruct (stop c); [reflexivity|]. rewrite IH. reflexivity.
Qed.

(* the text either has no stop byte, or splits at the first one *)
Lemma stop_idx_split stop l :
  (stop_idx stop l = length l /\ forallb (fun c => negb (stop c)) l = true) \/
  (exists m1 x m2, l = m1 ++ x :: m2 /\ length m1 = stop_idx stop l /\ stop x = true /\
                   forallb (fun c => negb (stop c)) m1 = true).
Proof.
  induction l as [|c r IH]; simpl.
  - left. auto.
  - destruct (stop c) eqn:E.
    + right. exists [], c, r. simpl. auto.
    + destruct IH as [[H1 H2]|(m1 & x & m2 & H1 & H2 & H3 & H4)].
      * left. simpl. rewrite H2. auto.
      * right. exists (c :: m1), x, m2. simpl. rewrite H4, E. subst r. auto.
Qed.

Lemma scan_form stop pre mid post : stop 0 = true ->
  c_scan stop (pre ++ mid ++ 0 :: post) (length pre) = Some (length pre + stop_idx stop mid)%nat.
Proof.
  intros H0. unfold c_scan. rewrite skipn_app_exact by reflexivity.
  rewrite find_idx_app0 by exact H0. reflexivity.
Qed.

Lemma is0_idx mid : nz mid -> stop_idx c_is0 mid = length mid.
Proof.
  induction mid as [|c r IH]; intros H; [reflexivity|].
  apply nz_cons in H. destruct H as [Hc Hr]. simpl. unfold c_is0 at 1. rewrite (nz_neq0 _ Hc).
  rewrite IH by exact Hr. reflexivity.
Qed.

Lemma strlen_form pre mid post : nz mid ->
  c_strlen (pre ++ mid ++ 0 :: post) (length pre) = Some (length mid).
Proof.
  intros H. unfold c_strlen. rewrite scan_form by reflexivity. rewrite is0_idx by exact H.
  simpl. f_equal. lia.
Qed.

Lemma sub_form {A} (pre mid post : list A) :
  sub (pre ++ mid ++ post) (length pre) (length mid) = Some mid.
Proof.
  rewrite sub_Some by (rewrite !app_length; lia).
  rewrite skipn_app_exact by reflexivity. rewrite firstn_app_exact by reflexivity. reflexivity.
Qed.

Lemma cstr_form pre mid post : nz mid -> cstr_at (pre ++ mid ++ 0 :: post) (length pre) = Some mid.
Proof.
  intros H. unfold cstr_at. rewrite strlen_form by exact H.
  apply (sub_form pre mid (0 :: post)).
Qed.

Lemma blit_form {A} (pre mid post new : list A) : length new = length mid ->
  blit (pre ++ mid ++ post) (length pre) new = Some (pre ++ new ++ post).
Proof.
  intros H. rewrite blit_Some by (rewrite !app_length; lia).
  rewrite firstn_app_exact by reflexivity. f_equal. f_equal. f_equal.
  rewrite H. rewrite app_assoc. apply skipn_app_exact. rewrite app_length. reflexivity.
Qed.

(* strncmp against a NUL-free literal never leaves a NUL-terminated text *)
Lemma strncmp_lit_total lit : forall s tail i, nz s -> Forall (fun x => x <> 0) lit -> (i <= length s)%nat ->
  exists r, strncmp_lit (s ++ 0 :: tail) i lit = Some r.
Proof.
  induction lit as [|x lit IH]; intros s tail i Hs Hl Hi; simpl; [eauto|].
  inversion Hl as [|? ? Hx Hl']; subst.
  destruct (Nat.eq_dec i (length s)) as [->|Hne].
  - rewrite brd_app0. unfold brd at 1. cbn [nth_error].
    destruct (N.eqb_spec 0 x) as [E|E]; [congruence|]. eauto.
  - assert (Hlt: (i < length s)%nat) by lia.
    unfold brd at 1. rewrite nth_error_app1 by exact Hlt.
    destruct (nth_error s i) eqn:En; [|apply nth_error_None in En; lia].
    fold (brd (s ++ 0 :: tail)).
    destruct (n =? x); [|eauto]. apply IH; auto; lia.
Qed.

(* what a successful comparison says *)
Lemma strncmp_lit_true lit : forall b i, strncmp_lit b i lit = Some true ->
  firstn (length lit) (skipn i b) = lit.
Proof.
  induction lit as [|x lit IH]; intros b i H; simpl in *; [reflexivity|].
  unfold brd in H. destruct (nth_error b i) eqn:En; [|discriminate].
  destruct (n =? x) eqn:E; [|discriminate]. apply N.eqb_eq in E. subst n.
  apply IH in H.
  assert (Hs: skipn i b = x :: skipn (S i) b).
  { clear - En. revert b En. induction i; intros [|y b] En; simpl in *; try discriminate.
    - inversion En; reflexivity. - apply IHi. exact En. }
  rewrite Hs. simpl. f_equal. exact H.
Qed.

(* ------------------------------------------------------------ scheme *)
Lemma strncmp_eq_exact : forall pre t, strncmp_eq pre t (length pre) = true -> length t = length pre -> pre = t.
Proof.
  induction pre as [|x pre IH]; intros [|y t] H HL; simpl in *; try discriminate; try reflexivity.
  apply andb_true_iff in H. destruct H as [H1 H2]. apply N.eqb_eq in H1. subst y.
  f_equal. apply IH; auto.
Qed.

Lemma find_scheme_in exact pre sch : find_scheme exact pre = Some sch -> In sch schemes.
Proof. unfold find_scheme. intros H. apply find_some in H. tauto. Qed.

Lemma find_scheme_exact pre sch : find_scheme true pre = Some sch -> sch = pre /\ In sch schemes.
Proof.
  unfold find_scheme. intros H. apply find_some in H. destruct H as [Hin Hm]. split; [|exact Hin].
  unfold scheme_match in Hm. apply andb_true_iff in Hm. destruct Hm as [H1 H2].
  apply Nat.eqb_eq in H2. symmetry. apply strncmp_eq_exact; auto.
Qed.

(* phase 1 on a NUL-terminated text: in bounds; on success the text is
   <first len bytes> "://" <rest> and the scheme is what the table lookup
   gives for those bytes *)
Lemma parse_scheme_spec exact s tail : nz s ->
  match parse_scheme exact (s ++ 0 :: tail) with
  | UOob => False
  | UErr _ => True
  | UVal (sch, len) =>
      exists rest, s = firstn len s ++ [58; 47; 47] ++ rest /\ (len <= length s)%nat /\
                   find_scheme exact (firstn len s) = Some sch
  end.
Proof.
  intros Hs. unfold parse_scheme.
  set (stop := fun c : N => (c =? 58) || (c =? 0)).
  assert (Hsc: c_scan stop (s ++ 0 :: tail) 0 = Some (stop_idx stop s)).
  { apply (scan_form stop [] s tail). reflexivity. }
  rewrite Hsc. cbn [ulift ubind].
  pose proof (stop_idx_le stop s) as Hle.
  destruct (strncmp_lit_total [58; 47; 47] s tail (stop_idx stop s) Hs) as [m Hm]; [repeat constructor; lia | exact Hle |].
  rewrite Hm. cbn [ulift ubind].
  destruct m; cbn [negb]; [|exact I].
  assert (Hsub: sub (s ++ 0 :: tail) 0 (stop_idx stop s) = Some (firstn (stop_idx stop s) s)).
  { rewrite sub_Some by (rewrite app_length; simpl; lia). simpl. rewrite firstn_app_le by lia. reflexivity. }
  rewrite Hsub. cbn [ulift ubind].
  destruct (find_scheme exact (firstn (stop_idx stop s) s)) as [sch|] eqn:Ef; [|exact I].
  apply strncmp_lit_true in Hm. simpl length in Hm.
  (* the three bytes lie inside s, because they are not NUL *)
  assert (Hin: (stop_idx stop s + 3 <= length s)%nat /\ firstn 3 (skipn (stop_idx stop s) s) = [58; 47; 47]).
  { rewrite skipn_app in Hm.
    remember (skipn (stop_idx stop s) s) as u eqn:Eu.
    assert (Hu: nz u) by (subst u; apply nz_skipn; exact Hs).
    assert (Hlu: length u = (length s - stop_idx stop s)%nat) by (subst u; apply skipn_length).
    replace (stop_idx stop s - length s)%nat with O in Hm by lia. simpl skipn in Hm.
    destruct u as [|u1 [|u2 [|u3 u]]]; cbn [app firstn] in Hm.
    - exfalso. inversion Hm.
    - exfalso. inversion Hm.
    - exfalso. inversion Hm.
    - simpl in Hlu. split; [lia|]. cbn [firstn]. inversion Hm; subst. reflexivity. }
  destruct Hin as [Hlen H3].
  exists (skipn (stop_idx stop s + 3) s). repeat split; [|lia|exact Ef].
  rewrite <- (firstn_skipn (stop_idx stop s) s) at 1. f_equal.
  rewrite <- (firstn_skipn 3 (skipn (stop_idx stop s) s)) at 1. rewrite H3. f_equal.
  rewrite skipn_skipn'. f_equal. lia.
Qed.

(* ------------------------------------------------------------ "at" forms of the buffer lemmas *)
Ltac lnorm := repeat first [rewrite <- app_assoc | progress cbn [app]].
Ltac lsolve := lnorm; reflexivity.
Ltac lensolve := repeat first [rewrite app_length | progress cbn [length]]; lia.
Ltac fin := lnorm; repeat first [rewrite app_length | progress cbn [length]]; repeat (f_equal; try lia); try reflexivity.

Lemma scan_at stop b pre mid post n : b = pre ++ mid ++ 0 :: post -> n = length pre -> stop 0 = true ->
  c_scan stop b n = Some (n + stop_idx stop mid)%nat.
Proof. intros -> -> H. apply scan_form. exact H. Qed.
Lemma strlen_at b pre mid post n : b = pre ++ mid ++ 0 :: post -> n = length pre -> nz mid ->
  c_strlen b n = Some (length mid).
Proof. intros -> -> H. apply strlen_form. exact H. Qed.
Lemma cstr_at_at b pre mid post n : b = pre ++ mid ++ 0 :: post -> n = length pre -> nz mid ->
  cstr_at b n = Some mid.
Proof. intros -> -> H. apply cstr_form. exact H. Qed.
Lemma brd_at b a x r n : b = a ++ x :: r -> n = length a -> brd b n = Some x.
Proof. intros -> ->. rewrite brd_app0. reflexivity. Qed.
Lemma bwr_at b a x r n c : b = a ++ x :: r -> n = length a -> bwr b n c = Some (a ++ c :: r).
Proof. intros -> ->. apply bwr_app. Qed.
Lemma sub_at {A} (b pre mid post : list A) n k : b = pre ++ mid ++ post -> n = length pre -> k = length mid ->
  sub b n k = Some mid.
Proof. intros -> -> ->. apply sub_form. Qed.
Lemma blit_at {A} (b pre mid post new : list A) n : b = pre ++ mid ++ post -> n = length pre ->
  length new = length mid -> blit b n new = Some (pre ++ new ++ post).
Proof. intros -> -> H. apply blit_form. exact H. Qed.

Lemma forallb_nostop_nz stop l : nz l -> forallb (fun c => negb (stop c)) l = true -> nz l.
Proof. auto. Qed.

(* ------------------------------------------------------------ phase 2 *)
Lemma parse_buffer_spec s tail len : nz s -> (len <= length s)%nat ->
  exists tail2 bufsz, parse_buffer (s ++ 0 :: tail) len = UVal (skipn len s ++ 0 :: tail2, bufsz) /\
    ((bufsz = O /\ length (skipn len s ++ 0 :: tail2) = STATIC_SZ) \/
     (bufsz = S (length (skipn len s)) /\ tail2 = [] /\ (STATIC_SZ <= length (skipn len s))%nat)).
Proof.
  intros Hs Hl. unfold parse_buffer.
  assert (E: s ++ 0 :: tail = firstn len s ++ skipn len s ++ 0 :: tail).
  { rewrite app_assoc, firstn_skipn. reflexivity. }
  assert (Hfl: length (firstn len s) = len) by (rewrite firstn_length; lia).
  rewrite (strlen_at _ (firstn len s) (skipn len s) tail len E) by (auto using nz_skipn).
  cbn [ulift ubind].
  rewrite (sub_at _ (firstn len s) (skipn len s ++ [0]) tail len) by (try lsolve; try lensolve; rewrite E; lsolve).
  cbn [ulift ubind].
  destruct (STATIC_SZ <=? length (skipn len s))%nat eqn:Eh.
  - apply Nat.leb_le in Eh. exists [], (S (length (skipn len s))). split.
    + f_equal. f_equal. lia.
    + right. auto.
  - apply Nat.leb_gt in Eh. exists (uzeros (STATIC_SZ - (length (skipn len s) + 1))), O. split.
    + rewrite <- app_assoc. reflexivity.
    + left. split; [reflexivity|]. rewrite app_length. cbn [length]. unfold uzeros. rewrite repeat_length. lia.
Qed.

(* ------------------------------------------------------------ phase 3 *)
Definition stop3 (c : N) : bool := (c =? 0) || (c =? 47) || (c =? 35) || (c =? 63).

Lemma two_left {A} (w : list A) n : length w = (n + 3)%nat -> exists y1 y2, skipn (n + 1) w = [y1; y2].
Proof.
  intros H. remember (skipn (n + 1) w) as u eqn:Eu.
  assert (length u = 2%nat) by (subst u; rewrite skipn_length; lia).
  destruct u as [|y1 [|y2 [|]]]; simpl in *; try lia. eauto.
Qed.

Lemma parse_authority_spec rest tail2 : nz rest ->
  exists auth rem y1 y2,
    rest = auth ++ rem /\ forallb (fun c => negb (stop3 c)) auth = true /\
    (rem = [] \/ exists x m, rem = x :: m /\ stop3 x = true) /\
    parse_authority ([58; 47; 47] ++ rest ++ 0 :: tail2) =
      UVal (auth ++ 0 :: y1 :: y2 :: rem ++ 0 :: tail2, (length auth + 3)%nat).
Proof.
  intros Hr. unfold parse_authority. fold stop3.
  change (fun c : N => (c =? 0) || (c =? 47) || (c =? 35) || (c =? 63)) with stop3.
  rewrite (scan_at stop3 _ [58; 47; 47] rest tail2 3) by (try lsolve; reflexivity).
  cbn [ulift ubind].
  (* unify the two cases: the buffer is w ++ c :: after *)
  assert (Hsp: exists auth rem c after,
     rest = auth ++ rem /\ length auth = stop_idx stop3 rest /\
     forallb (fun c => negb (stop3 c)) auth = true /\
     (rem = [] \/ exists x m, rem = x :: m /\ stop3 x = true) /\
     c :: after = rem ++ 0 :: tail2).
  { destruct (stop_idx_split stop3 rest) as [[H1 H2]|(m1 & x & m2 & H1 & H2 & H3 & H4)].
    - exists rest, [], 0, tail2. rewrite app_nil_r. repeat split; auto.
    - exists m1, (x :: m2), x, (m2 ++ 0 :: tail2). repeat split; auto. right. eauto. }
  destruct Hsp as (auth & rem & c & after & Hrest & Hla & Hns & Hrem & Hca).
  rewrite <- Hla.
  assert (Hna: nz auth). { subst rest. apply nz_app in Hr. tauto. }
  set (w := [58; 47; 47] ++ auth).
  assert (Eb: [58; 47; 47] ++ rest ++ 0 :: tail2 = w ++ c :: after).
  { subst rest w. rewrite Hca. lsolve. }
  assert (Hw: length w = (length auth + 3)%nat) by (subst w; cbn [app length]; lia).
  rewrite (brd_at _ w c after) by (auto; lia).
  cbn [ulift ubind].
  rewrite (bwr_at _ w c after _ 0) by (auto; lia).
  cbn [ulift ubind].
  rewrite (strlen_at (w ++ 0 :: after) [58; 47; 47] auth after 3) by (auto; subst w; lsolve).
  cbn [ulift ubind].
  rewrite (sub_at (w ++ 0 :: after) [58; 47; 47] (auth ++ [0]) after 3) by (try lensolve; subst w; lsolve).
  cbn [ulift ubind].
  destruct (two_left w (length auth) Hw) as (y1 & y2 & Hy).
  assert (Ew: w = firstn (length auth + 1) w ++ [y1; y2]) by (rewrite <- Hy; symmetry; apply firstn_skipn).
  rewrite (blit_at (w ++ 0 :: after) [] (firstn (length auth + 1) w) ([y1; y2] ++ 0 :: after) (auth ++ [0]) 0);
    [ | rewrite Ew at 1; lsolve | reflexivity | rewrite firstn_length; lensolve ].
  cbn [ulift ubind app].
  rewrite (bwr_at _ (auth ++ 0 :: [y1; y2]) 0 after _ c) by (try lsolve; lensolve).
  cbn [ulift ubind].
  exists auth, rem, y1, y2. repeat split; auto.
  f_equal. f_equal; [rewrite <- Hca; lsolve | lia].
Qed.

(* ------------------------------------------------------------ phase 4 *)
Definition stop_at (c : N) : bool := (c =? 64) || (c =? 0).

Lemma stop_at_nz x : byte_nz x -> stop_at x = true -> x = 64.
Proof. intros Hx H. unfold stop_at in H. rewrite (nz_neq0 _ Hx), orb_false_r in H. apply N.eqb_eq. exact H. Qed.

(* strchr on a NUL-terminated text at the end of [pre] *)
Lemma strchr_form pre mid post : nz mid ->
  (stop_idx stop_at mid = length mid /\ forallb (fun c => negb (stop_at c)) mid = true /\
   c_strchr (pre ++ mid ++ 0 :: post) (length pre) 64 = Some None) \/
  (exists m1 m2, mid = m1 ++ 64 :: m2 /\ forallb (fun c => negb (stop_at c)) m1 = true /\
   c_strchr (pre ++ mid ++ 0 :: post) (length pre) 64 = Some (Some (length pre + length m1)%nat)).
Proof.
  intros Hm. unfold c_strchr. change (fun c : N => (c =? 64) || (c =? 0)) with stop_at.
  rewrite scan_form by reflexivity.
  destruct (stop_idx_split stop_at mid) as [[H1 H2]|(m1 & x & m2 & H1 & H2 & H3 & H4)].
  - left. repeat split; auto. rewrite H1.
    rewrite (brd_at _ (pre ++ mid) 0 post) by (try lsolve; lensolve). reflexivity.
  - right. assert (x = 64). { apply stop_at_nz; auto. subst mid. apply nz_app in Hm. destruct Hm as [_ Hm]. apply nz_cons in Hm. tauto. }
    subst x. exists m1, m2. repeat split; auto. rewrite <- H2.
    rewrite (brd_at _ (pre ++ m1) 64 (m2 ++ 0 :: post)) by (try lensolve; subst mid; lsolve). reflexivity.
Qed.

Lemma parse_userinfo_spec auth T : nz auth ->
  match parse_userinfo (auth ++ 0 :: T) with
  | UOob => False
  | UErr _ => True
  | UVal (b', ui, h) =>
      exists pre hp, b' = pre ++ hp ++ 0 :: T /\ h = length pre /\ nz hp /\
        (length pre + length hp = length auth)%nat /\
        ((pre = [] /\ hp = auth /\ ui = None) \/
         (exists u, pre = u ++ [0] /\ auth = u ++ 64 :: hp /\ ui = Some O))
  end.
Proof.
  intros Ha. unfold parse_userinfo.
  destruct (strchr_form [] auth T Ha) as [(H1 & H2 & H3)|(m1 & m2 & H1 & H2 & H3)];
    cbn [app length] in H3; rewrite H3; cbn [ulift ubind].
  - exists [], auth. repeat split; auto.
  - subst auth. apply nz_app in Ha. destruct Ha as [Hm1 Hm2]. apply nz_cons in Hm2. destruct Hm2 as [_ Hm2].
    cbn [Nat.add].
    rewrite (bwr_at _ m1 64 (m2 ++ 0 :: T) _ 0) by (try reflexivity; lsolve).
    cbn [ulift ubind].
    destruct (strchr_form (m1 ++ [0]) m2 T Hm2) as [(G1 & G2 & G3)|(n1 & n2 & G1 & G2 & G3)].
    + replace (length m1 + 1)%nat with (length (m1 ++ [0])) by lensolve.
      replace (m1 ++ 0 :: m2 ++ 0 :: T) with ((m1 ++ [0]) ++ m2 ++ 0 :: T) by lsolve.
      rewrite G3. cbn [ulift ubind].
      exists (m1 ++ [0]), m2. repeat split; auto; try lensolve.
      right. exists m1. auto.
    + replace (length m1 + 1)%nat with (length (m1 ++ [0])) by lensolve.
      replace (m1 ++ 0 :: m2 ++ 0 :: T) with ((m1 ++ [0]) ++ m2 ++ 0 :: T) by lsolve.
      rewrite G3. cbn [ulift ubind]. exact I.
Qed.

(* ------------------------------------------------------------ phase 5 *)
Lemma tolower_nz x : byte_nz x -> byte_nz (c_tolower x).
Proof.
  intros [H1 H2]. unfold c_tolower, c_isupper, byte_nz.
  destruct ((65 <=? x) && (x <=? 90)) eqn:E; [|lia].
  apply andb_true_iff in E. destruct E as [E1 E2]. apply N.leb_le in E1, E2. lia.
Qed.

Lemma lower_host_spec pre hp T : nz hp ->
  lower_host (pre ++ hp ++ 0 :: T) (length pre) = UVal (pre ++ map c_tolower hp ++ 0 :: T) /\
  nz (map c_tolower hp).
Proof.
  intros Hh. unfold lower_host. rewrite strlen_form by exact Hh. cbn [ulift ubind].
  rewrite (sub_form pre hp (0 :: T)). cbn [ulift ubind].
  rewrite (blit_form pre hp (0 :: T)) by apply map_length. cbn [ulift ubind]. split; [reflexivity|].
  unfold nz in *. apply Forall_map. eapply Forall_impl; [|exact Hh]. intros a. apply tolower_nz.
Qed.

(* ------------------------------------------------------------ reading C strings behind a prefix *)
Lemma scan_app stop (X T : list N) k : c_scan stop (X ++ T) (length X + k) = option_map (Nat.add (length X)) (c_scan stop T k).
Proof.
  unfold c_scan. rewrite skipn_app. rewrite skipn_all2 by lia. cbn [app].
  replace (length X + k - length X)%nat with k by lia.
  destruct (c_find_idx stop (skipn k T)); cbn [option_map]; [f_equal; lia | reflexivity].
Qed.

Lemma cstr_at_app (X T : list N) k : cstr_at (X ++ T) (length X + k) = cstr_at T k.
Proof.
  unfold cstr_at, c_strlen. rewrite scan_app.
  destruct (c_scan c_is0 T k) as [j|] eqn:E; cbn [option_map]; [|reflexivity].
  replace (length X + j - (length X + k))%nat with (j - k)%nat by lia.
  unfold sub. rewrite app_length.
  assert (Hj: (k <= j)%nat).
  { unfold c_scan in E. destruct (c_find_idx c_is0 (skipn k T)); cbn in E; [|discriminate]. inversion E. lia. }
  destruct (k + (j - k) <=? length T)%nat eqn:E1.
  - apply Nat.leb_le in E1. destruct (length X + k + (j - k) <=? length X + length T)%nat eqn:E2;
      [|apply Nat.leb_gt in E2; lia].
    f_equal. f_equal. rewrite skipn_app. rewrite skipn_all2 by lia. cbn [app]. f_equal. lia.
  - apply Nat.leb_gt in E1. destruct (length X + k + (j - k) <=? length X + length T)%nat eqn:E2;
      [apply Nat.leb_le in E2; lia|reflexivity].
Qed.

Lemma opt_cstr_app (X T : list N) o :
  opt_cstr (X ++ T) (option_map (Nat.add (length X)) o) = opt_cstr T o.
Proof. destruct o as [k|]; cbn [option_map opt_cstr]; [rewrite cstr_at_app|]; reflexivity. Qed.

(* ------------------------------------------------------------ phase 7 *)
Definition stopqf (c : N) : bool := (c =? 0) || (c =? 63) || (c =? 35).
Definition stophash (c : N) : bool := (c =? 0) || (c =? 35).

Lemma path_part_nostop l : forallb (fun c => negb (stopqf c)) l = true -> forall r, path_part (l ++ r) = l ++ path_part r.
Proof.
  induction l as [|c l IH]; intros H r; [reflexivity|].
  cbn [forallb] in H. apply andb_true_iff in H. destruct H as [H1 H2].
  cbn [app path_part]. unfold stopqf in H1.
  destruct ((c =? 63) || (c =? 35)) eqn:E.
  - exfalso. rewrite <- orb_assoc, E, orb_true_r in H1. discriminate.
  - rewrite IH by exact H2. reflexivity.
Qed.

Definition qf_text (qs fs : option (list N)) : list N :=
  match qs with Some s => 63 :: s | None => [] end ++ match fs with Some s => 35 :: s | None => [] end.

Lemma parse_qf_spec P out T : nz out ->
  exists tl7 qk fk qs fs,
    parse_qf (P ++ out ++ 0 :: T) (length P) =
      UVal (P ++ tl7, option_map (Nat.add (length P)) qk, option_map (Nat.add (length P)) fk) /\
    cstr_at tl7 0 = Some (path_part out) /\
    opt_cstr tl7 qk = Some qs /\ opt_cstr tl7 fk = Some fs /\
    out = path_part out ++ qf_text qs fs /\ length tl7 = length (out ++ 0 :: T).
Proof.
  intros Ho. unfold parse_qf.
  change (fun c : N => (c =? 0) || (c =? 63) || (c =? 35)) with stopqf.
  change (fun c : N => (c =? 0) || (c =? 35)) with stophash.
  rewrite scan_form by reflexivity. cbn [ulift ubind].
  destruct (stop_idx_split stopqf out) as [[H1 H2]|(pa & x & m2 & H1 & H2 & H3 & H4)].
  - (* no query, no fragment *)
    rewrite H1. rewrite (brd_at _ (P ++ out) 0 T) by (try lsolve; lensolve). cbn [ulift ubind].
    change (0 =? 63) with false. change (0 =? 35) with false. cbn iota.
    exists (out ++ 0 :: T), None, None, None, None. cbn [option_map opt_cstr qf_text app].
    assert (Hp: path_part out = out).
    { rewrite <- (app_nil_r out) at 1. rewrite path_part_nostop by exact H2. cbn [path_part]. apply app_nil_r. }
    rewrite Hp, app_nil_r. repeat split; auto.
    apply (cstr_at_at _ [] out T); auto.
  - subst out. apply nz_app in Ho. destruct Ho as [Hpa Hx]. apply nz_cons in Hx. destruct Hx as [Hx Hm2].
    assert (Hp: path_part (pa ++ x :: m2) = pa).
    { rewrite path_part_nostop by exact H4. cbn [path_part].
      unfold stopqf in H3. rewrite (nz_neq0 _ Hx) in H3. cbn [orb] in H3. rewrite H3. apply app_nil_r. }
    rewrite Hp. rewrite <- H2.
    rewrite (brd_at _ (P ++ pa) x (m2 ++ 0 :: T)) by (try lsolve; lensolve). cbn [ulift ubind].
    destruct (x =? 63) eqn:E63.
    + apply N.eqb_eq in E63. subst x.
      rewrite (bwr_at _ (P ++ pa) 63 (m2 ++ 0 :: T) _ 0) by (try lsolve; lensolve). cbn [ulift ubind].
      rewrite (scan_at stophash _ (P ++ pa ++ [0]) m2 T) by (try lsolve; try lensolve; reflexivity).
      cbn [ulift ubind].
      destruct (stop_idx_split stophash m2) as [[G1 G2]|(qa & y & fr & G1 & G2 & G3 & G4)].
      * rewrite G1. rewrite (brd_at _ (P ++ pa ++ 0 :: m2) 0 T) by (try lsolve; lensolve). cbn [ulift ubind].
        change (0 =? 35) with false. cbn iota.
        exists (pa ++ 0 :: m2 ++ 0 :: T), (Some (S (length pa))), None, (Some m2), None.
        cbn [option_map opt_cstr qf_text].
        repeat split.
        -- fin.
        -- apply (cstr_at_at _ [] pa (m2 ++ 0 :: T)); auto.
        -- rewrite (cstr_at_at _ (pa ++ [0]) m2 T) by (auto; try lsolve; lensolve). reflexivity.
        -- unfold qf_text; cbn [app]; try rewrite app_nil_r; reflexivity.
        -- lensolve.
      * subst m2. apply nz_app in Hm2. destruct Hm2 as [Hqa Hy]. apply nz_cons in Hy. destruct Hy as [Hy Hfr].
        assert (y = 35). { unfold stophash in G3. rewrite (nz_neq0 _ Hy) in G3. apply N.eqb_eq. exact G3. }
        subst y. rewrite <- G2.
        rewrite (brd_at _ (P ++ pa ++ 0 :: qa) 35 (fr ++ 0 :: T)) by (try lsolve; lensolve). cbn [ulift ubind].
        change (35 =? 35) with true. cbn iota.
        rewrite (bwr_at _ (P ++ pa ++ 0 :: qa) 35 (fr ++ 0 :: T) _ 0) by (try lsolve; lensolve). cbn [ulift ubind].
        exists (pa ++ 0 :: qa ++ 0 :: fr ++ 0 :: T), (Some (S (length pa))), (Some (S (length pa) + S (length qa))%nat),
               (Some qa), (Some fr).
        cbn [option_map opt_cstr qf_text].
        repeat split.
        -- fin.
        -- apply (cstr_at_at _ [] pa (qa ++ 0 :: fr ++ 0 :: T)); auto.
        -- rewrite (cstr_at_at _ (pa ++ [0]) qa (fr ++ 0 :: T)) by (auto; try lsolve; lensolve). reflexivity.
        -- rewrite (cstr_at_at _ (pa ++ 0 :: qa ++ [0]) fr T) by (auto; try lsolve; lensolve). reflexivity.
        -- lensolve.
    + assert (x = 35).
      { unfold stopqf in H3. rewrite (nz_neq0 _ Hx), E63 in H3. apply N.eqb_eq. exact H3. }
      subst x. change (35 =? 35) with true. cbn iota.
      rewrite (bwr_at _ (P ++ pa) 35 (m2 ++ 0 :: T) _ 0) by (try lsolve; lensolve). cbn [ulift ubind].
      exists (pa ++ 0 :: m2 ++ 0 :: T), None, (Some (S (length pa))), None, (Some m2).
      cbn [option_map opt_cstr qf_text].
      repeat split.
      * fin.
      * apply (cstr_at_at _ [] pa (m2 ++ 0 :: T)); auto.
      * rewrite (cstr_at_at _ (pa ++ [0]) m2 T) by (auto; try lsolve; lensolve). reflexivity.
      * lensolve.
Qed.

(* ------------------------------------------------------------ phase 8 *)
Definition stopcolon (c : N) : bool := (c =? 58) || (c =? 0).

Lemma stop_nz_eq x k : byte_nz x -> ((x =? k) || (x =? 0)) = true -> x = k.
Proof. intros Hx H. rewrite (nz_neq0 _ Hx), orb_false_r in H. apply N.eqb_eq. exact H. Qed.

(* the tail of phase 8, after the host name [ho] has been delimited: the
   buffer is A ++ ho ++ 0 :: R with h' = |A|; [c] is the delimiter that was
   found (':' or NUL) and, if ':', R = pt ++ 0 :: T holds the port text *)
Lemma hostport_tail resolver sch A ho R (c : N) b2 p2 :
  nz ho ->
  b2 = A ++ ho ++ 0 :: R ->
  (c = 58 -> exists G pt T, nz pt /\ R = G ++ pt ++ 0 :: T /\ p2 = (length A + length ho + 1 + length G)%nat) ->
  match (hl <~! c_strlen b2 (length A) ;;
         if (HOST_MAX <=? hl)%nat then UErr NNG_EINVAL else
         if c =? 58 then
           c1 <~! brd b2 p2 ;;
           if c1 =? 0 then UErr NNG_EINVAL else
           name <~! cstr_at b2 p2 ;;
           match get_port resolver name with
           | None => UErr NNG_EINVAL
           | Some port => UVal (b2, length A, port)
           end
         else UVal (b2, length A, default_port sch)) with
  | UOob => False
  | UErr _ => True
  | UVal (b', h', port) => b' = b2 /\ h' = length A /\ (length ho < HOST_MAX)%nat
  end.
Proof.
  intros Hho -> HR.
  rewrite (strlen_at _ A ho R) by auto. cbn [ulift ubind].
  destruct (HOST_MAX <=? length ho)%nat eqn:E; [exact I|]. apply Nat.leb_gt in E.
  destruct (N.eqb_spec c 58) as [Ec|Ec]; [|auto].
  destruct (HR Ec) as (G & pt & T & Hpt & -> & ->).
  destruct pt as [|a1 ar].
  - rewrite (brd_at _ (A ++ ho ++ 0 :: G) 0 T) by (try lsolve; lensolve). cbn [ulift ubind]. exact I.
  - rewrite (brd_at _ (A ++ ho ++ 0 :: G) a1 (ar ++ 0 :: T)) by (try lsolve; lensolve). cbn [ulift ubind].
    apply nz_cons in Hpt. destruct Hpt as [Ha1 Har]. rewrite (nz_neq0 _ Ha1).
    rewrite (cstr_at_at _ (A ++ ho ++ 0 :: G) (a1 :: ar) T) by (try lsolve; try lensolve; apply nz_cons; auto).
    cbn [ulift ubind]. destruct (get_port resolver (a1 :: ar)); auto.
Qed.

(* finishing step shared by all branches *)
Lemma hostport_finish (t : ures (list N * nat * N)) b2 A ho R pre X2 T hp :
  match t with
  | UOob => False
  | UErr _ => True
  | UVal (b', h', port) => b' = b2 /\ h' = length A /\ (length ho < HOST_MAX)%nat
  end ->
  nz ho -> b2 = A ++ ho ++ 0 :: R -> b2 = pre ++ X2 ++ T -> length X2 = (length hp + 1)%nat ->
  (exists a c, hp = a ++ ho ++ c) ->
  match t with
  | UOob => False
  | UErr _ => True
  | UVal (b', h', port) =>
      exists X2 host, b' = pre ++ X2 ++ T /\ length X2 = (length hp + 1)%nat /\
        cstr_at b' h' = Some host /\ (length host < HOST_MAX)%nat /\
        (exists a c, hp = a ++ host ++ c)
  end.
Proof.
  destruct t as [|rv|[[b' h'] port]]; auto.
  intros (-> & -> & Hl) Hho E1 E2 HL Hsub.
  exists X2, ho. repeat split; auto.
  rewrite E1. apply (cstr_at_at _ A ho R); auto.
Qed.

Lemma parse_hostport_spec bf resolver sch pre hp T : nz hp ->
  match parse_hostport bf resolver sch (pre ++ hp ++ 0 :: T) (length pre) with
  | UOob => False
  | UErr _ => True
  | UVal (b', h', port) =>
      exists X2 host, b' = pre ++ X2 ++ T /\ length X2 = (length hp + 1)%nat /\
        cstr_at b' h' = Some host /\ (length host < HOST_MAX)%nat /\
        (exists a c, hp = a ++ host ++ c)
  end.
Proof.
  intros Hhp. unfold parse_hostport.
  set (stopbrk := stop_bracket bf).
  change (fun c : N => (c =? 58) || (c =? 0)) with stopcolon.
  assert (Hc0: exists c0 r0, hp ++ 0 :: T = c0 :: r0 /\ (c0 = 91 -> exists hr, hp = 91 :: hr)).
  { destruct hp as [|c0 hr]; [exists 0, T | exists c0, (hr ++ 0 :: T)]; split; auto; try discriminate.
    intros ->. eauto. }
  destruct Hc0 as (c0 & r0 & Er0 & H91).
  rewrite (brd_at _ pre c0 r0) by (try reflexivity; rewrite <- Er0; reflexivity). cbn [ulift ubind].
  destruct (N.eqb_spec c0 91) as [E91|E91].
  - (* bracketed literal *)
    destruct (H91 E91) as (hr & ->). clear H91 Er0 r0 E91 c0.
    apply nz_cons in Hhp. destruct Hhp as [_ Hhr].
    rewrite (scan_at stopbrk _ (pre ++ [91]) hr T) by (try lsolve; try lensolve; subst stopbrk; unfold stop_bracket; reflexivity).
    cbn [ulift ubind].
    destruct (stop_idx_split stopbrk hr) as [[H1 H2]|(ho & x & af & H1 & H2 & H3 & H4)].
    + rewrite H1. rewrite (brd_at _ (pre ++ 91 :: hr) 0 T) by (try lsolve; lensolve). cbn [ulift ubind].
      change (0 =? 0) with true. cbn [orb]. cbn iota. cbn [ubind]. exact I.
    + subst hr. apply nz_app in Hhr. destruct Hhr as [Hho Hx]. apply nz_cons in Hx. destruct Hx as [Hx Haf].
      rewrite <- H2.
      rewrite (brd_at _ (pre ++ 91 :: ho) x (af ++ 0 :: T)) by (try lsolve; lensolve). cbn [ulift ubind].
      assert (Hx93: x = 93 \/ (bf = true /\ x = 91)).
      { subst stopbrk. unfold stop_bracket in H3. rewrite (nz_neq0 _ Hx), orb_false_r in H3.
        apply orb_true_iff in H3. destruct H3 as [H3|H3]; [left; apply N.eqb_eq; exact H3|].
        apply andb_true_iff in H3. destruct H3 as [H3a H3b]. right. split; [exact H3a|apply N.eqb_eq; exact H3b]. }
      destruct Hx93 as [->|[-> ->]];
        [|change (91 =? 0) with false; change (91 =? 91) with true; cbn [orb andb]; cbn iota; cbn [ubind]; exact I].
      change (93 =? 0) with false. change (93 =? 91) with false. rewrite andb_false_r. cbn [orb]. cbn iota.
      rewrite (bwr_at _ (pre ++ 91 :: ho) 93 (af ++ 0 :: T) _ 0) by (try lsolve; lensolve). cbn [ulift ubind].
      destruct af as [|a0 ar].
      * (* nothing after the bracket *)
        rewrite (brd_at _ (pre ++ 91 :: ho ++ [0]) 0 T) by (try lsolve; lensolve). cbn [ulift ubind].
        change (0 =? 58) with false. change (0 =? 0) with true. cbn [negb andb]. cbn [ubind].
        rewrite (brd_at _ (pre ++ 91 :: ho ++ [0]) 0 T) by (try lsolve; lensolve). cbn [ulift ubind].
        change (0 =? 58) with false. cbn iota. cbn [ubind].
        replace (S (length pre)) with (length (pre ++ [91])) by lensolve.
        lnorm. set (b2 := pre ++ 91 :: ho ++ 0 :: 0 :: T).
        apply (hostport_finish _ b2 (pre ++ [91]) ho (0 :: T) pre (91 :: ho ++ 0 :: [0]) T);
          [ apply (hostport_tail resolver sch (pre ++ [91]) ho (0 :: T) 0 b2 O);
              [auto | subst b2; lsolve | intros; discriminate]
          | auto | subst b2; lsolve | subst b2; lsolve | lensolve | exists [91], [93]; lsolve ].
      * apply nz_cons in Haf. destruct Haf as [Ha0 Har].
        rewrite (brd_at _ (pre ++ 91 :: ho ++ [0]) a0 (ar ++ 0 :: T)) by (try lsolve; lensolve). cbn [ulift ubind].
        rewrite (nz_neq0 _ Ha0). cbn [negb andb].
        destruct (N.eqb_spec a0 58) as [E58|E58]; cbn [negb andb]; [|exact I].
        subst a0. cbn [ubind].
        rewrite (brd_at _ (pre ++ 91 :: ho ++ [0]) 58 (ar ++ 0 :: T)) by (try lsolve; lensolve). cbn [ulift ubind].
        change (58 =? 58) with true. cbn iota.
        rewrite (bwr_at _ (pre ++ 91 :: ho ++ [0]) 58 (ar ++ 0 :: T) _ 0) by (try lsolve; lensolve). cbn [ulift ubind].
        replace (S (length pre)) with (length (pre ++ [91])) by lensolve.
        lnorm. set (b2 := pre ++ 91 :: ho ++ 0 :: 0 :: ar ++ 0 :: T).
        apply (hostport_finish _ b2 (pre ++ [91]) ho (0 :: ar ++ 0 :: T) pre (91 :: ho ++ 0 :: 0 :: ar ++ [0]) T);
          [ apply (hostport_tail resolver sch (pre ++ [91]) ho (0 :: ar ++ 0 :: T) 58 b2);
              [auto | subst b2; lsolve | intros _; exists [0], ar, T; repeat split; auto; lensolve]
          | auto | subst b2; lsolve | subst b2; lsolve | lensolve | exists [91], (93 :: 58 :: ar); lsolve ].
  - (* plain host *)
    clear H91.
    rewrite (scan_at stopcolon _ pre hp T) by (try lsolve; reflexivity). cbn [ulift ubind].
    destruct (stop_idx_split stopcolon hp) as [[H1 H2]|(ho & x & pt & H1 & H2 & H3 & H4)].
    + rewrite H1. rewrite (brd_at _ (pre ++ hp) 0 T) by (try lsolve; lensolve). cbn [ulift ubind].
      change (0 =? 58) with false. cbn iota. cbn [ubind].
      lnorm. set (b2 := pre ++ hp ++ 0 :: T).
      apply (hostport_finish _ b2 pre hp T pre (hp ++ [0]) T);
        [ apply (hostport_tail resolver sch pre hp T 0 b2 O); [auto | reflexivity | intros; discriminate]
        | auto | reflexivity | subst b2; lsolve | lensolve | exists [], []; rewrite app_nil_r; reflexivity ].
    + subst hp. apply nz_app in Hhp. destruct Hhp as [Hho Hx]. apply nz_cons in Hx. destruct Hx as [Hx Hpt].
      assert (x = 58) by (apply stop_nz_eq; auto). subst x. rewrite <- H2.
      rewrite (brd_at _ (pre ++ ho) 58 (pt ++ 0 :: T)) by (try lsolve; lensolve). cbn [ulift ubind].
      change (58 =? 58) with true. cbn iota.
      rewrite (bwr_at _ (pre ++ ho) 58 (pt ++ 0 :: T) _ 0) by (try lsolve; lensolve). cbn [ulift ubind].
      lnorm. set (b2 := pre ++ ho ++ 0 :: pt ++ 0 :: T).
      apply (hostport_finish _ b2 pre ho (pt ++ 0 :: T) pre (ho ++ 0 :: pt ++ [0]) T);
        [ apply (hostport_tail resolver sch pre ho (pt ++ 0 :: T) 58 b2);
            [auto | reflexivity | intros _; exists [], pt, T; repeat split; auto; lensolve]
        | auto | reflexivity | subst b2; lsolve | lensolve | exists [], (58 :: pt); lsolve ].
Qed.

(* ------------------------------------------------------------ phase 6 *)
Lemma canon_pure_nz fx s out : nz s -> canon_pure fx s = Some out -> nz out.
Proof.
  unfold canon_pure, canon_passes. intros Hs.
  destruct (p1 s) as [s1|] eqn:E1; [|discriminate].
  destruct (utf8_validate fx (p3 false [] (p2 false false s1) ++ [0])) as [[|]|]; try discriminate.
  intros H; inversion H; subst. apply p3_nz; [constructor|]. apply p2_nz. eapply p1_nz; eauto.
Qed.

Lemma canon_at_spec fx P rem tail2 : nz rem ->
  match canon_pure fx rem with
  | Some out => exists tail', canon_at fx (P ++ rem ++ 0 :: tail2) (length P) = UVal (P ++ out ++ 0 :: tail') /\
                              length (out ++ 0 :: tail') = length (rem ++ 0 :: tail2) /\ nz out
  | None => canon_at fx (P ++ rem ++ 0 :: tail2) (length P) = UErr NNG_EINVAL
  end.
Proof.
  intros Hr. unfold canon_at.
  destruct (Nat.ltb (length (P ++ rem ++ 0 :: tail2)) (length P)) eqn:E.
  { apply Nat.ltb_lt in E. rewrite app_length in E. lia. }
  rewrite skipn_app_exact by reflexivity. rewrite firstn_app_exact by reflexivity.
  pose proof (canonify_refines fx rem tail2 Hr) as HC.
  destruct (canon_pure fx rem) as [out|] eqn:Ec.
  - destruct HC as (tail' & HC & HL). exists tail'. rewrite HC. cbn [ulift ubind].
    change (NNG_OK =? 0) with true. cbn [negb]. repeat split; auto. eapply canon_pure_nz; eauto.
  - rewrite HC. cbn [ulift ubind]. reflexivity.
Qed.

(* ------------------------------------------------------------ the parser as a whole *)
Definition buf_ok (u : nurl) : Prop :=
  (u_bufsz u = O /\ length (u_buf u) = STATIC_SZ) \/
  (u_bufsz u = length (u_buf u) /\ (STATIC_SZ < u_bufsz u)%nat).

(* everything the later theorems need to know about an accepted URL *)
Definition parse_post (fx : uflags) (s : list N) (u : nurl) : Prop :=
  exists len rest v,
    s = firstn len s ++ [58; 47; 47] ++ rest /\ (len <= length s)%nat /\
    find_scheme (fx_scheme fx) (firstn len s) = Some (u_scheme u) /\
    url_view u = Some v /\ v_scheme v = u_scheme u /\ buf_ok u /\
    (if is_path_only (u_scheme u) then
       v_path v = rest /\ v_hostname v = None /\ v_userinfo v = None /\ v_query v = None /\
       v_fragment v = None /\ v_port v = 0 /\ u_hostname u = None
     else
       exists auth rem out host hp,
         rest = auth ++ rem /\ forallb (fun c => negb (stop3 c)) auth = true /\
         (rem = [] \/ exists x m, rem = x :: m /\ stop3 x = true) /\
         canon_pure (fx_utf8 fx) rem = Some out /\ nz out /\
         v_path v = path_part out /\ out = path_part out ++ qf_text (v_query v) (v_fragment v) /\
         v_hostname v = Some host /\ (length host < HOST_MAX)%nat /\
         ((auth = hp /\ v_userinfo v = None) \/ (exists ui, auth = ui ++ 64 :: hp /\ v_userinfo v = Some ui)) /\
         (exists a c, map c_tolower hp = a ++ host ++ c)).

Lemma nostop3_nz auth : nz auth -> True. Proof. auto. Qed.

Theorem url_parse_spec fx resolver s tail : nz s ->
  match url_parse fx resolver (s ++ 0 :: tail) with
  | UOob => False
  | UErr _ => True
  | UVal u => parse_post fx s u
  end.
Proof.
  intros Hs. unfold url_parse.
  pose proof (parse_scheme_spec (fx_scheme fx) s tail Hs) as H1.
  destruct (parse_scheme (fx_scheme fx) (s ++ 0 :: tail)) as [|rv|[sch len]]; cbn [ubind]; auto.
  destruct H1 as (rest & Es & Hlen & Hfs).
  destruct (parse_buffer_spec s tail len Hs Hlen) as (tail2 & bufsz & Hpb & Hbsz).
  rewrite Hpb. cbn [ubind].
  assert (Esk: skipn len s = [58; 47; 47] ++ rest).
  { rewrite Es at 1. rewrite skipn_app_exact; [reflexivity|]. rewrite firstn_length. lia. }
  assert (Hrest: nz rest).
  { rewrite Es in Hs. apply nz_app in Hs. destruct Hs as [_ Hs]. apply nz_app in Hs. tauto. }
  rewrite Esk in *.
  assert (Hbuf: forall b : list N, length b = length (([58; 47; 47] ++ rest) ++ 0 :: tail2) ->
            (bufsz = O /\ length b = STATIC_SZ) \/ (bufsz = length b /\ (STATIC_SZ < bufsz)%nat)).
  { intros b Hb. rewrite Hb. rewrite app_length. cbn [length].
    destruct Hbsz as [[-> HL]|(-> & -> & HL)].
    - left. split; auto. rewrite app_length in HL. cbn [length] in HL. lia.
    - right. cbn [length]. split; lia. }
  destruct (is_path_only sch) eqn:Epo.
  - (* scheme://path *)
    exists len, rest. eexists. repeat split; eauto.
    + unfold url_view. cbn [u_buf u_userinfo u_hostname u_path u_query u_fragment u_scheme u_port opt_cstr].
      rewrite (cstr_at_at _ [58; 47; 47] rest tail2 3) by (auto; lsolve). reflexivity.
    + reflexivity.
    + unfold buf_ok. cbn [u_buf u_bufsz]. apply Hbuf. reflexivity.
    + cbn [u_scheme]. rewrite Epo. cbn [v_path v_hostname v_userinfo v_query v_fragment v_port u_hostname]. repeat split; reflexivity.
  - (* scheme://authority path ?query #fragment *)
    replace (([58; 47; 47] ++ rest) ++ 0 :: tail2) with ([58; 47; 47] ++ rest ++ 0 :: tail2) in * by lsolve.
    destruct (parse_authority_spec rest tail2 Hrest) as (auth & rem & y1 & y2 & Hr & Hns & Hrem & Hpa).
    rewrite Hpa. cbn [ubind].
    assert (Hauth: nz auth) by (subst rest; apply nz_app in Hrest; tauto).
    assert (Hnrem: nz rem) by (subst rest; apply nz_app in Hrest; tauto).
    set (T := y1 :: y2 :: rem ++ 0 :: tail2).
    pose proof (parse_userinfo_spec auth T Hauth) as H4.
    destruct (parse_userinfo (auth ++ 0 :: T)) as [|rv|[[b4 ui] h]]; cbn [ubind]; auto.
    destruct H4 as (pre & hp & -> & -> & Hhp & Hlen4 & Hui).
    destruct (lower_host_spec pre hp T Hhp) as [H5 Hhp'].
    rewrite H5. cbn [ubind].
    set (hp' := map c_tolower hp) in *.
    assert (Hlhp: length hp' = length hp) by apply map_length.
    set (P := pre ++ hp' ++ [0; y1; y2]).
    assert (EP: pre ++ hp' ++ 0 :: T = P ++ rem ++ 0 :: tail2) by (subst P T; lsolve).
    assert (LP: (length auth + 3)%nat = length P) by (subst P; repeat rewrite app_length; cbn [length]; lia).
    rewrite EP, LP.
    pose proof (canon_at_spec (fx_utf8 fx) P rem tail2 Hnrem) as H6.
    destruct (canon_pure (fx_utf8 fx) rem) as [out|] eqn:Ecp; [|rewrite H6; cbn [ubind]; exact I].
    destruct H6 as (tail' & H6 & HL6 & Hout). rewrite H6. cbn [ubind].
    destruct (parse_qf_spec P out tail' Hout) as (tl7 & qk & fk & qs & fs & H7 & Hpath & Hq & Hf & Eout & HL7).
    rewrite H7. cbn [ubind].
    assert (E7: P ++ tl7 = pre ++ hp' ++ 0 :: y1 :: y2 :: tl7) by (subst P; lsolve).
    rewrite E7.
    pose proof (parse_hostport_spec (fx_bracket fx) resolver sch pre hp' (y1 :: y2 :: tl7) Hhp') as H8.
    destruct (parse_hostport (fx_bracket fx) resolver sch (pre ++ hp' ++ 0 :: y1 :: y2 :: tl7) (length pre)) as [|rv|[[b8 h'] port]];
      cbn [ubind]; auto.
    destruct H8 as (X2 & host & -> & HX2 & Hhost & Hhl & Hsub).
    (* the accessors *)
    set (Q := pre ++ X2 ++ [y1; y2]).
    assert (EQ: pre ++ X2 ++ y1 :: y2 :: tl7 = Q ++ tl7) by (subst Q; lsolve).
    assert (LQ: length Q = length P) by (subst Q P; repeat rewrite app_length; cbn [length]; lia).
    assert (Hvui: exists vui, opt_cstr (Q ++ tl7) ui = Some vui /\
              ((auth = hp /\ vui = None) \/ (exists u0, auth = u0 ++ 64 :: hp /\ vui = Some u0))).
    { destruct Hui as [(-> & -> & ->)|(u0 & -> & -> & ->)].
      - exists None. split; [reflexivity|]. left; auto.
      - exists (Some u0). split; [|right; eauto]. cbn [opt_cstr].
        rewrite (cstr_at_at _ [] u0 (X2 ++ [y1; y2] ++ tl7) 0); auto; [subst Q; lsolve|].
        apply nz_app in Hauth. tauto. }
    destruct Hvui as (vui & Hvui & Hvui2).
    exists len, rest.
    exists (mkUview sch vui (Some host) port (path_part out) qs fs).
    repeat split; auto.
    + unfold url_view. cbn [u_buf u_userinfo u_hostname u_path u_query u_fragment u_scheme u_port].
      rewrite EQ. rewrite Hvui. cbn [opt_cstr]. rewrite <- EQ, Hhost, EQ.
      rewrite <- LQ. rewrite <- (Nat.add_0_r (length Q)) at 1. rewrite cstr_at_app, Hpath.
      rewrite !opt_cstr_app, Hq, Hf. reflexivity.
    + unfold buf_ok. cbn [u_buf u_bufsz]. apply Hbuf.
      rewrite HL6 in HL7. rewrite app_length in HL7. cbn [length] in HL7.
      rewrite Hr. lensolve.
    + cbn [u_scheme]. rewrite Epo.
      exists auth, rem, out, host, hp. cbn [v_path v_query v_fragment v_hostname v_userinfo].
      repeat split; auto.
Qed.

(* ------------------------------------------------------------ consequences *)
Theorem url_parse_total fx resolver s tail : nz s -> url_parse fx resolver (s ++ 0 :: tail) <> UOob.
Proof.
  intros Hs E. pose proof (url_parse_spec fx resolver s tail Hs) as H. rewrite E in H. exact H.
Qed.

(* with the exact lookup the text before "://" IS the table entry *)
Theorem url_parse_scheme_exact fx resolver s tail u : nz s -> fx_scheme fx = true ->
  url_parse fx resolver (s ++ 0 :: tail) = UVal u ->
  In (u_scheme u) schemes /\ exists rest, s = u_scheme u ++ [58; 47; 47] ++ rest.
Proof.
  intros Hs Hfx E. pose proof (url_parse_spec fx resolver s tail Hs) as H. rewrite E in H.
  destruct H as (len & rest & v & Es & _ & Hf & _).
  rewrite Hfx in Hf. apply find_scheme_exact in Hf. destruct Hf as [Hsch Hin].
  split; [exact Hin|]. exists rest. rewrite Hsch. exact Es.
Qed.

(* sub-lists of a lower-cased string are lower case *)
Lemma tolower_not_upper c : CanonSpec.sp_upper (c_tolower c) = false.
Proof.
  unfold c_tolower, c_isupper, CanonSpec.sp_upper.
  destruct ((65 <=? c) && (c <=? 90)) eqn:E.
  - apply andb_true_iff in E. destruct E as [E1 E2]. apply N.leb_le in E1, E2.
    apply andb_false_iff. right. apply N.leb_gt. lia.
  - exact E.
Qed.

Lemma host_lower_sub hp a host c : map c_tolower hp = a ++ host ++ c ->
  forallb (fun x => negb (CanonSpec.sp_upper x)) host = true.
Proof.
  intros E. apply forallb_forall. intros x Hx.
  assert (Hin: In x (map c_tolower hp)). { rewrite E. apply in_or_app. right. apply in_or_app. left. exact Hx. }
  apply in_map_iff in Hin. destruct Hin as (y & <- & _). rewrite tolower_not_upper. reflexivity.
Qed.

(* ------------------------------------------------------------ clone *)
Lemma sub_all {A} (b : list A) : sub b 0 (length b) = Some b.
Proof. rewrite sub_Some by lia. simpl. rewrite firstn_all. reflexivity. Qed.

Lemma blit_all (d : list N) : blit (uzeros (length d)) 0 d = Some d.
Proof.
  unfold uzeros. rewrite blit_Some by (rewrite repeat_length; lia). simpl.
  rewrite skipn_all2 by (rewrite repeat_length; lia). apply f_equal. apply app_nil_r.
Qed.

(* the repaired clone returns a URL with the same storage contents and the
   same component offsets -- in the model: the same value *)
Theorem url_clone_equal u : buf_ok u -> url_clone true true u = UVal (0, Some u).
Proof.
  intros [[Hz HL]|[Hz HL]]; unfold url_clone; destruct u as [sch ui h port path q f buf bufsz];
    cbn [u_bufsz u_buf u_scheme u_userinfo u_hostname u_port u_path u_query u_fragment] in *.
  - subst bufsz. cbn [Nat.eqb negb]. rewrite <- HL. rewrite sub_all. cbn [ulift ubind].
    rewrite blit_all. cbn [ulift ubind]. unfold clone_host. destruct h; reflexivity.
  - subst bufsz. destruct (length buf =? 0)%nat eqn:E; [apply Nat.eqb_eq in E; unfold STATIC_SZ in HL; lia|].
    cbn [negb]. rewrite sub_all. cbn [ulift ubind]. rewrite blit_all. cbn [ulift ubind].
    unfold clone_host. destruct h; reflexivity.
Qed.

(* ------------------------------------------------------------ the pinned tree's defects *)
Definition no_resolver (_ : list N) : option N := None.
Definition http_ := [104; 116; 116; 112].

(* "ht://h/" is accepted as http *)
Lemma scheme_prefix_witness :
  exists u, url_parse fx_pinned no_resolver ([104; 116; 58; 47; 47; 104; 47] ++ [0]) = UVal u /\
            u_scheme u = http_ /\ firstn 2 (u_scheme u) = [104; 116] /\ length (u_scheme u) = 4%nat.
Proof. vm_compute. eexists. repeat split. Qed.

(* "://h/" too *)
Lemma scheme_empty_witness :
  exists u, url_parse fx_pinned no_resolver ([58; 47; 47; 104; 47] ++ [0]) = UVal u /\ u_scheme u = http_.
Proof. vm_compute. eexists. repeat split. Qed.

Definition long_url : list N := [104; 116; 116; 112; 58; 47; 47; 104; 47] ++ repeat 97 130.

(* the clone of a URL longer than the inline buffer fails with rv 1 *)
Lemma clone_long_witness :
  exists u, url_parse fx_pinned no_resolver (long_url ++ [0]) = UVal u /\ buf_ok u /\
            url_clone false false u = UVal (1, None) /\ url_clone true true u = UVal (0, Some u).
Proof.
  vm_compute. eexists. split; [reflexivity|]. split; [right; split; [reflexivity|]|split; reflexivity].
  unfold STATIC_SZ. cbn [u_bufsz]. lia.
Qed.

(* the clone of ipc://a has a host-name pointer although the original has none *)
Lemma clone_null_host_witness :
  exists u c, url_parse fx_pinned no_resolver ([105; 112; 99; 58; 47; 47; 97] ++ [0]) = UVal u /\
              u_hostname u = None /\ url_clone false false u = UVal (0, Some c) /\
              is_wild (u_buf c) (u_hostname c) = true /\ url_view c = None.
Proof. vm_compute. eexists. eexists. repeat split. Qed.

(* ------------------------------------------------------------ the path component *)
Lemma uhex_not_qf h : uhex h = true -> (h =? 63) || (h =? 35) = false.
Proof.
  unfold uhex, sp_digit. intros H. apply orb_true_iff in H.
  destruct H as [H|H]; apply andb_true_iff in H; destruct H as [H1 H2]; apply N.leb_le in H1, H2;
    apply orb_false_iff; split; apply N.eqb_neq; lia.
Qed.

Lemma escapes_canonical_path_part : forall l, escapes_canonical l = true -> escapes_canonical (path_part l) = true.
Proof.
  induction l as [|c r IH]; intros H; [reflexivity|].
  cbn [path_part]. destruct ((c =? 63) || (c =? 35)) eqn:Eq; [reflexivity|].
  cbn [escapes_canonical] in *. apply andb_true_iff in H. destruct H as [H1 H2].
  rewrite (IH H2), andb_true_r.
  destruct (c =? 37); [|reflexivity].
  destruct r as [|h1 [|h2 r']]; try discriminate.
  apply andb_true_iff in H1. destruct H1 as [H1 H3]. apply andb_true_iff in H1. destruct H1 as [Hh1 Hh2].
  cbn [path_part]. rewrite (uhex_not_qf _ Hh1), (uhex_not_qf _ Hh2). rewrite Hh1, Hh2, H3. reflexivity.
Qed.

Lemma hi_not_qf b : 128 <= b -> (b =? 63) || (b =? 35) = false.
Proof. intros H. apply orb_false_iff; split; apply N.eqb_neq; lia. Qed.

Lemma wf_utf8_path_part : forall l, wf_utf8 l -> wf_utf8 (path_part l).
Proof.
  induction 1; cbn [path_part];
    repeat match goal with
    | H : in_range _ _ ?b |- context [(?b =? 63) || (?b =? 35)] =>
        rewrite (hi_not_qf b) by (unfold in_range in H; lia)
    | H : tail_byte ?b |- context [(?b =? 63) || (?b =? 35)] =>
        rewrite (hi_not_qf b) by (unfold tail_byte, in_range in H; lia)
    end; cbn [N.eqb Pos.eqb orb]; try (constructor; assumption).
  all: destruct ((b =? 63) || (b =? 35)); constructor; assumption.
Qed.

(* ------------------------------------------------------------ canonical components of an accepted URL *)
Theorem url_parse_canonical fx resolver s tail u v : nz s ->
  url_parse fx resolver (s ++ 0 :: tail) = UVal u -> is_path_only (u_scheme u) = false ->
  url_view u = Some v ->
  escapes_canonical (v_path v) = true /\ no_double_slash (v_path v) = true /\
  no_dot_segments (v_path v) = true /\
  (exists host, v_hostname v = Some host /\ forallb (fun x => negb (sp_upper x)) host = true /\
                (length host < HOST_MAX)%nat) /\
  (fx_utf8 fx = true -> wf_utf8 (v_path v)).
Proof.
  intros Hs E Hpo Hv. pose proof (url_parse_spec fx resolver s tail Hs) as H. rewrite E in H.
  destruct H as (len & rest & v' & Es & _ & Hf & Hv' & _ & _ & Hrest).
  rewrite Hv in Hv'. inversion Hv'; subst v'. clear Hv'.
  rewrite Hpo in Hrest.
  destruct Hrest as (auth & rem & out & host & hp & Hr & Hns & Hrem & Hcp & Hout & Hpath & Eout & Hhost & Hhl & Hui & a & c & Hsub).
  destruct (canon_pure_canonical _ _ _ Hcp) as (C1 & C2 & C3).
  rewrite Hpath. repeat split; auto.
  - apply escapes_canonical_path_part. exact C1.
  - exists host. repeat split; auto. eapply host_lower_sub; eauto.
  - intros Hu. rewrite Hu in Hcp. apply wf_utf8_path_part.
    assert (Hnrem: nz rem).
    { rewrite Es in Hs. apply nz_app in Hs. destruct Hs as [_ Hs]. apply nz_app in Hs. destruct Hs as [_ Hs].
      rewrite Hr in Hs. apply nz_app in Hs. tauto. }
    eapply canon_pure_utf8; eauto.
Qed.

(* re-canonicalising the stored path?query#fragment text gives it back: the
   core of the sprintf/parse round trip *)
Theorem url_parse_text_stable fx resolver s tail u v : nz s ->
  url_parse fx resolver (s ++ 0 :: tail) = UVal u -> is_path_only (u_scheme u) = false ->
  url_view u = Some v ->
  let text := v_path v ++ qf_text (v_query v) (v_fragment v) in
  canon_pure (fx_utf8 fx) text = Some text /\ path_part text = v_path v.
Proof.
  intros Hs E Hpo Hv. pose proof (url_parse_spec fx resolver s tail Hs) as H. rewrite E in H.
  destruct H as (len & rest & v' & Es & _ & Hf & Hv' & _ & _ & Hrest).
  rewrite Hv in Hv'. inversion Hv'; subst v'. clear Hv'.
  rewrite Hpo in Hrest.
  destruct Hrest as (auth & rem & out & host & hp & Hr & Hns & Hrem & Hcp & Hout & Hpath & Eout & _).
  cbn zeta. rewrite Hpath, <- Eout. split; [|reflexivity].
  eapply canon_pure_idempotent; eauto.
Qed.

(* "tcp://[[x]" is accepted with the host "[x"; nng_url_sprintf prints it as
   "tcp://[x:0", which the parser rejects: the round trip fails.  With the
   repaired bracket scan the input is rejected. *)
Definition bracket_url : list N := [116; 99; 112; 58; 47; 47; 91; 91; 120; 93].
Definition fx_bracket_pinned : uflags := mkUflags true true true true false.
Definition reparse (fx : uflags) (raw : list N) : ures nurl :=
  match url_parse fx no_resolver raw with
  | UVal u => match url_sprintf u with
              | Some out => url_parse fx no_resolver (out ++ [0])
              | None => UOob
              end
  | _ => UOob
  end.
Lemma bracket_host_witness :
  (exists u, url_parse fx_bracket_pinned no_resolver (bracket_url ++ [0]) = UVal u) /\
  reparse fx_bracket_pinned (bracket_url ++ [0]) = UErr NNG_EINVAL /\
  url_parse fx_repaired no_resolver (bracket_url ++ [0]) = UErr NNG_EINVAL.
Proof. vm_compute. split; [eexists; reflexivity | split; reflexivity]. Qed.
