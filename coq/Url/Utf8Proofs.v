(* Utf8Proofs: proofs about the model of url_utf8_validate (Utf8Model.v)
   against the RFC 3629 grammar (Utf8Spec.v).

   Main results
     wf_utf8b_iff                    boolean grammar = inductive grammar
     utf8_validate_total             no out-of-bounds read, fuel suffices (both variants)
     utf8_validate_tail_irrelevant   bytes behind the NUL do not matter (both variants)
     utf8_validate_fixed_iff_wf      repaired validator accepts exactly well-formed UTF-8
     utf8_validate_pinned_refuted    the pinned validator accepts malformed input
   Everything is closed under the global context. *)
From Coq Require Import List Arith Lia Bool NArith.
From NngV Require Import Url.Utf8Model Url.Utf8Spec.
Import ListNotations.
Local Open Scope N_scope.

Definition byte_nz (b : N) : Prop := 0 < b /\ b < 256.

(* ------------------------------------------------------------------ *)
(* tactics                                                             *)

(* boolean comparison hypotheses -> Prop (no case split) *)
Ltac b2p :=
  repeat match goal with
  | H : _ && _ = true |- _ => apply andb_true_iff in H; destruct H
  | H : (_ <=? _) = true |- _ => apply N.leb_le in H
  | H : (_ <=? _) = false |- _ => apply N.leb_gt in H
  | H : (_ <? _) = true |- _ => apply N.ltb_lt in H
  | H : (_ <? _) = false |- _ => apply N.ltb_ge in H
  | H : (_ =? _) = true |- _ => apply N.eqb_eq in H
  | H : (_ =? _) = false |- _ => apply N.eqb_neq in H
  end.

(* same, and split a false conjunction *)
Ltac b2pf :=
  repeat first
  [ progress b2p
  | match goal with
    | H : _ && _ = false |- _ => apply andb_false_iff in H; destruct H
    end ].

Lemma rng_true lo hi b : lo <= b /\ b <= hi -> rng lo hi b = true.
Proof.
  intros [H1 H2]. unfold rng.
  rewrite (proj2 (N.leb_le lo b) H1), (proj2 (N.leb_le b hi) H2). reflexivity.
Qed.

Lemma rng_false lo hi b : b < lo \/ hi < b -> rng lo hi b = false.
Proof.
  intros [H|H]; unfold rng.
  - rewrite (proj2 (N.leb_gt lo b) H). reflexivity.
  - rewrite (proj2 (N.leb_gt b hi) H). apply andb_false_r.
Qed.

Lemma tl_true b : 128 <= b /\ b <= 191 -> tl_b b = true.
Proof. apply rng_true. Qed.

Lemma tl_false b : b < 128 \/ 191 < b -> tl_b b = false.
Proof. apply rng_false. Qed.

(* decide one boolean test of the goal by lia *)
Ltac tst1 :=
  match goal with
  | |- context [N.ltb ?a ?b] =>
      first [ rewrite (proj2 (N.ltb_lt a b)) by lia | rewrite (proj2 (N.ltb_ge a b)) by lia ]
  | |- context [N.leb ?a ?b] =>
      first [ rewrite (proj2 (N.leb_le a b)) by lia | rewrite (proj2 (N.leb_gt a b)) by lia ]
  | |- context [N.eqb ?a ?b] =>
      first [ rewrite (proj2 (N.eqb_eq a b)) by lia | rewrite (proj2 (N.eqb_neq a b)) by lia ]
  | |- context [rng ?lo ?hi ?b] =>
      first [ rewrite (rng_true lo hi b) by lia | rewrite (rng_false lo hi b) by lia ]
  | |- context [tl_b ?b] =>
      first [ rewrite (tl_true b) by lia | rewrite (tl_false b) by lia ]
  end.
Ltac tst := repeat first [ tst1 | progress cbn [andb negb] ].

(* ------------------------------------------------------------------ *)
(* byte sweeps: bit operations on a byte as ranges / subtraction       *)

Definition bytes256 : list N := map N.of_nat (seq 0 256).

Lemma byte_sweep (P : N -> bool) :
  forallb P bytes256 = true -> forall b, b < 256 -> P b = true.
Proof.
  intros H b Hb. rewrite forallb_forall in H. apply H.
  unfold bytes256. rewrite <- (N2Nat.id b). apply in_map. apply in_seq.
  assert (N.to_nat b < N.to_nat 256)%nat.
  { apply Nat.compare_lt_iff. rewrite <- N2Nat.inj_compare. exact Hb. }
  change (N.to_nat 256) with 256%nat in *. lia.
Qed.

Lemma sweep_eqb (f g : N -> bool) :
  forallb (fun b => Bool.eqb (f b) (g b)) bytes256 = true ->
  forall b, b < 256 -> f b = g b.
Proof. intros H b Hb. apply eqb_prop. exact (byte_sweep _ H b Hb). Qed.

Lemma sweep_rng (lo hi : N) (f g : N -> N) :
  forallb (fun b => implb ((lo <=? b) && (b <? hi)) (f b =? g b)) bytes256 = true ->
  forall b, b < 256 -> lo <= b -> b < hi -> f b = g b.
Proof.
  intros H b Hb Hl Hh. pose proof (byte_sweep _ H b Hb) as E. cbv beta in E.
  rewrite (proj2 (N.leb_le lo b) Hl), (proj2 (N.ltb_lt b hi) Hh) in E.
  cbn [andb implb] in E. apply N.eqb_eq. exact E.
Qed.

Lemma T128 b : b < 256 -> (N.land b 128 =? 0) = (b <? 128).
Proof.
  revert b. apply (sweep_eqb (fun b => N.land b 128 =? 0) (fun b => b <? 128)).
  vm_compute. reflexivity.
Qed.

Lemma T224 b : b < 256 -> (N.land b 224 =? 192) = (192 <=? b) && (b <? 224).
Proof.
  revert b. apply (sweep_eqb (fun b => N.land b 224 =? 192) (fun b => (192 <=? b) && (b <? 224))).
  vm_compute. reflexivity.
Qed.

Lemma T240 b : b < 256 -> (N.land b 240 =? 224) = (224 <=? b) && (b <? 240).
Proof.
  revert b. apply (sweep_eqb (fun b => N.land b 240 =? 224) (fun b => (224 <=? b) && (b <? 240))).
  vm_compute. reflexivity.
Qed.

Lemma T248 b : b < 256 -> (N.land b 248 =? 240) = (240 <=? b) && (b <? 248).
Proof.
  revert b. apply (sweep_eqb (fun b => N.land b 248 =? 240) (fun b => (240 <=? b) && (b <? 248))).
  vm_compute. reflexivity.
Qed.

Lemma T192 b : b < 256 -> (N.land b 192 =? 128) = (128 <=? b) && (b <? 192).
Proof.
  revert b. apply (sweep_eqb (fun b => N.land b 192 =? 128) (fun b => (128 <=? b) && (b <? 192))).
  vm_compute. reflexivity.
Qed.

Lemma V31 b : 192 <= b -> b < 224 -> N.land b 31 = b - 192.
Proof.
  intros. apply (sweep_rng 192 224 (fun b => N.land b 31) (fun b => b - 192)); try assumption.
  - vm_compute. reflexivity.
  - lia.
Qed.

Lemma V15 b : 224 <= b -> b < 240 -> N.land b 15 = b - 224.
Proof.
  intros. apply (sweep_rng 224 240 (fun b => N.land b 15) (fun b => b - 224)); try assumption.
  - vm_compute. reflexivity.
  - lia.
Qed.

Lemma V7 b : 240 <= b -> b < 248 -> N.land b 7 = b - 240.
Proof.
  intros. apply (sweep_rng 240 248 (fun b => N.land b 7) (fun b => b - 240)); try assumption.
  - vm_compute. reflexivity.
  - lia.
Qed.

Lemma V63 b : 128 <= b -> b < 192 -> N.land b 63 = b - 128.
Proof.
  intros. apply (sweep_rng 128 192 (fun b => N.land b 63) (fun b => b - 128)); try assumption.
  - vm_compute. reflexivity.
  - lia.
Qed.

Lemma u32_small v : v < 4294967296 -> u32 v = v.
Proof. intros. unfold u32. apply N.mod_small. assumption. Qed.

(* ------------------------------------------------------------------ *)
(* one unfolding of the outer loop                                     *)

Definition hdr_of (b : N) : option (N * N * nat) :=
  if N.land b 224 =? 192 then Some (N.land b 31, 128, 1%nat)
  else if N.land b 240 =? 224 then Some (N.land b 15, 2048, 2%nat)
  else if N.land b 248 =? 240 then Some (N.land b 7, 65536, 3%nat)
  else None.

Definition after_cont (fixed : bool) (f : nat) (minv : N)
           (c : option (option (list N * N))) : option bool :=
  match c with
  | None => None
  | Some None => Some false
  | Some (Some (s2, v2)) =>
      if v2 <? minv then Some false
      else if (55296 <=? v2) && (v2 <=? 57343) then Some false
      else if 1114111 <? v2 then Some false
      else utf8_loop fixed f s2
  end.

Lemma loop_eq fixed f b s' :
  utf8_loop fixed (S f) (b :: s') =
  if b =? 0 then Some true
  else if N.land b 128 =? 0 then utf8_loop fixed f s'
  else match hdr_of b with
       | None => Some false
       | Some (v, minv, nb) => after_cont fixed f minv (utf8_cont fixed s' nb v)
       end.
Proof. reflexivity. Qed.

Lemma hdr_bad b : b < 256 -> (128 <= b /\ b < 192) \/ 248 <= b -> hdr_of b = None.
Proof.
  intros Hb H. unfold hdr_of. rewrite T224, T240, T248 by assumption.
  destruct H as [H|H]; tst; reflexivity.
Qed.

Lemma hdr_2 b : 192 <= b /\ b < 224 -> hdr_of b = Some (b - 192, 128, 1%nat).
Proof.
  intros H. unfold hdr_of. rewrite T224 by lia. tst. rewrite V31 by lia. reflexivity.
Qed.

Lemma hdr_3 b : 224 <= b /\ b < 240 -> hdr_of b = Some (b - 224, 2048, 2%nat).
Proof.
  intros H. unfold hdr_of. rewrite T224, T240 by lia. tst. rewrite V15 by lia. reflexivity.
Qed.

Lemma hdr_4 b : 240 <= b /\ b < 248 -> hdr_of b = Some (b - 240, 65536, 3%nat).
Proof.
  intros H. unfold hdr_of. rewrite T224, T240, T248 by lia. tst. rewrite V7 by lia. reflexivity.
Qed.

Lemma cont_0 fixed s v : utf8_cont fixed s 0 v = Some (Some (s, v)).
Proof. destruct s; reflexivity. Qed.

(* the NUL is not a continuation byte *)
Lemma cont_nul fixed s k v : utf8_cont fixed (0 :: s) (S k) v = Some None.
Proof. reflexivity. Qed.

(* one continuation byte, repaired order *)
Lemma cont_true_cons t s k v :
  t < 256 -> v < 67108864 ->
  utf8_cont true (t :: s) (S k) v =
  if (128 <=? t) && (t <? 192) then utf8_cont true s k (v * 64 + (t - 128)) else Some None.
Proof.
  intros Ht Hv. cbn [utf8_cont]. rewrite T192 by assumption.
  destruct ((128 <=? t) && (t <? 192)) eqn:E; cbn [negb]; [|reflexivity].
  b2p. rewrite V63 by lia.
  rewrite (u32_small (v * 64)) by lia. rewrite u32_small by lia. reflexivity.
Qed.

(* ------------------------------------------------------------------ *)
(* both variants: total, and independent of what follows the NUL       *)

Lemma cont_tail fixed nb : forall l v, Forall byte_nz l ->
  (forall tail, utf8_cont fixed (l ++ 0 :: tail) nb v = Some None) \/
  (exists l2 v2, (length l2 <= length l)%nat /\ Forall byte_nz l2 /\
     forall tail, utf8_cont fixed (l ++ 0 :: tail) nb v = Some (Some (l2 ++ 0 :: tail, v2))).
Proof.
  induction nb as [|k IH]; intros l v HF.
  - right. exists l, v. split; [lia|]. split; [assumption|]. intros; apply cont_0.
  - destruct l as [|b l1].
    + left. intros. reflexivity.
    + inversion HF as [|? ? Hb HF1]; subst.
      destruct (negb (N.land b 192 =? 128)) eqn:E.
      * left. intros. cbn [app utf8_cont]. rewrite E. reflexivity.
      * destruct fixed.
        -- destruct (IH l1 (u32 (u32 (v * 64) + N.land b 63)) HF1)
             as [Hn | (l2 & v2 & Hl & HF2 & Hc)].
           ++ left. intros. cbn [app utf8_cont]. rewrite E. apply Hn.
           ++ right. exists l2, v2. split; [simpl; lia|]. split; [assumption|].
              intros. cbn [app utf8_cont]. rewrite E. apply Hc.
        -- pose (b' := match l1 with [] => 0 | x :: _ => x end).
           destruct (IH l1 (u32 (u32 (v * 64) + N.land b' 63)) HF1)
             as [Hn | (l2 & v2 & Hl & HF2 & Hc)].
           ++ left. intros. cbn [app utf8_cont]. rewrite E.
              destruct l1; exact (Hn tail).
           ++ right. exists l2, v2. split; [simpl; lia|]. split; [assumption|].
              intros. cbn [app utf8_cont]. rewrite E.
              destruct l1; exact (Hc tail).
Qed.

Lemma loop_tail_gen fixed : forall f1 f2 l tail1 tail2,
  (length l < f1)%nat -> (length l < f2)%nat -> Forall byte_nz l ->
  exists r, utf8_loop fixed f1 (l ++ 0 :: tail1) = Some r /\
            utf8_loop fixed f2 (l ++ 0 :: tail2) = Some r.
Proof.
  induction f1 as [|f1 IH]; intros f2 l t1 t2 H1 H2 HF; [lia|].
  destruct f2 as [|f2]; [lia|].
  destruct l as [|b l1].
  - exists true. split; reflexivity.
  - inversion HF as [|? ? Hb HF1]; subst. cbn [app]. rewrite !loop_eq.
    simpl in H1, H2.
    destruct (b =? 0). { exists true; split; reflexivity. }
    destruct (N.land b 128 =? 0). { apply IH; [lia|lia|assumption]. }
    destruct (hdr_of b) as [[[v minv] nb]|]. 2:{ exists false; split; reflexivity. }
    destruct (cont_tail fixed nb l1 v HF1) as [Hn | (l2 & v2 & Hl & HF2 & Hc)].
    + rewrite (Hn t1), (Hn t2). exists false. split; reflexivity.
    + rewrite (Hc t1), (Hc t2). unfold after_cont.
      destruct (v2 <? minv). { exists false; split; reflexivity. }
      destruct ((55296 <=? v2) && (v2 <=? 57343)). { exists false; split; reflexivity. }
      destruct (1114111 <? v2). { exists false; split; reflexivity. }
      apply IH; [lia|lia|assumption].
Qed.

(* never reads beyond the terminating NUL, never runs out of fuel: both variants *)
Theorem utf8_validate_total : forall fixed l tail, Forall byte_nz l ->
  exists r, utf8_validate fixed (l ++ 0 :: tail) = Some r.
Proof.
  intros fixed l tail HF. unfold utf8_validate.
  destruct (loop_tail_gen fixed (S (length (l ++ 0 :: tail))) (S (length l)) l tail tail)
    as (r & H1 & _); try assumption.
  - rewrite app_length. simpl. lia.
  - lia.
  - exists r. exact H1.
Qed.

(* what lies behind the NUL is irrelevant *)
Theorem utf8_validate_tail_irrelevant : forall fixed l tail, Forall byte_nz l ->
  utf8_validate fixed (l ++ 0 :: tail) = utf8_validate fixed (l ++ [0]).
Proof.
  intros fixed l tail HF. unfold utf8_validate.
  destruct (loop_tail_gen fixed (S (length (l ++ 0 :: tail))) (S (length (l ++ [0]))) l tail [])
    as (r & H1 & H2); try assumption.
  - rewrite app_length. simpl. lia.
  - rewrite app_length. simpl. lia.
  - rewrite H1, H2. reflexivity.
Qed.

(* ------------------------------------------------------------------ *)
(* boolean grammar = inductive grammar                                 *)

Lemma wfb_cons b r :
  wf_utf8b (b :: r) =
  if b <=? 127 then wf_utf8b r
  else match r with
  | [] => false
  | t1 :: r1 =>
      if rng 194 223 b then tl_b t1 && wf_utf8b r1
      else match r1 with
      | [] => false
      | t2 :: r2 =>
          if b =? 224 then rng 160 191 t1 && tl_b t2 && wf_utf8b r2
          else if rng 225 236 b then tl_b t1 && tl_b t2 && wf_utf8b r2
          else if b =? 237 then rng 128 159 t1 && tl_b t2 && wf_utf8b r2
          else if rng 238 239 b then tl_b t1 && tl_b t2 && wf_utf8b r2
          else match r2 with
          | [] => false
          | t3 :: r3 =>
              if b =? 240 then rng 144 191 t1 && tl_b t2 && tl_b t3 && wf_utf8b r3
              else if rng 241 243 b then tl_b t1 && tl_b t2 && tl_b t3 && wf_utf8b r3
              else if b =? 244 then rng 128 143 t1 && tl_b t2 && tl_b t3 && wf_utf8b r3
              else false
          end
      end
  end.
Proof. reflexivity. Qed.

Lemma wfb_complete l : wf_utf8 l -> wf_utf8b l = true.
Proof.
  induction 1; [reflexivity | ..];
    rewrite wfb_cons; unfold tail_byte, in_range in *; tst; assumption.
Qed.

Ltac wfb_leaf IH c :=
  unfold tl_b, rng in *; b2p; subst;
  apply c; unfold tail_byte, in_range; try lia;
  apply IH; [simpl in *; lia | assumption].

Lemma wfb_sound : forall n l, (length l <= n)%nat -> wf_utf8b l = true -> wf_utf8 l.
Proof.
  induction n as [|n IH]; intros l Hlen H.
  - destruct l; [constructor | simpl in Hlen; lia].
  - destruct l as [|b r]; [constructor|]. simpl in Hlen. rewrite wfb_cons in H.
    destruct (b <=? 127) eqn:E0; cbv beta iota in H.
    { b2p. apply wf_1; [lia | apply IH; [lia | assumption]]. }
    destruct r as [|t1 r1]; cbv beta iota in H; [discriminate|].
    destruct (rng 194 223 b) eqn:E1; cbv beta iota in H.
    { clear E0. wfb_leaf IH wf_2. }
    destruct r1 as [|t2 r2]; cbv beta iota in H; [discriminate|].
    destruct (b =? 224) eqn:E2; cbv beta iota in H.
    { clear E0 E1. wfb_leaf IH wf_3a. }
    destruct (rng 225 236 b) eqn:E3; cbv beta iota in H.
    { clear E0 E1 E2. wfb_leaf IH wf_3b. }
    destruct (b =? 237) eqn:E4; cbv beta iota in H.
    { clear E0 E1 E2 E3. wfb_leaf IH wf_3c. }
    destruct (rng 238 239 b) eqn:E5; cbv beta iota in H.
    { clear E0 E1 E2 E3 E4. wfb_leaf IH wf_3d. }
    destruct r2 as [|t3 r3]; cbv beta iota in H; [discriminate|].
    destruct (b =? 240) eqn:E6; cbv beta iota in H.
    { clear E0 E1 E2 E3 E4 E5. wfb_leaf IH wf_4a. }
    destruct (rng 241 243 b) eqn:E7; cbv beta iota in H.
    { clear E0 E1 E2 E3 E4 E5 E6. wfb_leaf IH wf_4b. }
    destruct (b =? 244) eqn:E8; cbv beta iota in H.
    { clear E0 E1 E2 E3 E4 E5 E6 E7. wfb_leaf IH wf_4c. }
    discriminate.
Qed.

(* the boolean grammar is the inductive grammar *)
Theorem wf_utf8b_iff : forall l, wf_utf8b l = true <-> wf_utf8 l.
Proof.
  intros l. split.
  - apply (wfb_sound (length l)). lia.
  - apply wfb_complete.
Qed.

(* ------------------------------------------------------------------ *)
(* the repaired validator                                              *)

Ltac mb hdr :=
  unfold tail_byte, in_range in *; tst; rewrite T128 by lia; tst;
  rewrite hdr by lia; unfold after_cont;
  rewrite !cont_true_cons by lia; tst; rewrite cont_0; tst;
  match goal with
  | IH : forall (f : nat) (tail : list N), _ -> _, Hlen : (_ < _)%nat |- _ =>
      apply IH; simpl in Hlen; lia
  end.

Lemma fixed_complete l : wf_utf8 l ->
  forall f tail, (length l < f)%nat -> utf8_loop true f (l ++ 0 :: tail) = Some true.
Proof.
  induction 1; intros f tail Hlen;
    (destruct f as [|f]; [simpl in Hlen; lia|]); cbn [app]; rewrite loop_eq.
  - reflexivity.
  - destruct (N.eq_dec b 0) as [->|Hnz]; [reflexivity|].
    tst. rewrite T128 by lia. tst. apply IHwf_utf8. simpl in Hlen. lia.
  - mb hdr_2.
  - mb hdr_3.
  - mb hdr_3.
  - mb hdr_3.
  - mb hdr_3.
  - mb hdr_4.
  - mb hdr_4.
  - mb hdr_4.
Qed.

Ltac killifs H :=
  repeat (cbv beta iota in H;
          match type of H with
          | (if ?c then Some false else _) = Some true =>
              destruct c eqn:?; [cbv beta iota in H; discriminate H|]
          end).

(* peel one continuation byte off hypothesis H *)
Ltac peel H HF t l' HF' :=
  match type of HF with
  | Forall _ ?l =>
      destruct l as [|t l'];
      [cbn [app] in H; rewrite cont_nul in H; cbv beta iota in H; discriminate H|];
      inversion HF as [|? ? [? ?] HF']; subst;
      cbn [app] in H; rewrite cont_true_cons in H by lia;
      let E := fresh "E" in
      destruct ((128 <=? t) && (t <? 192)) eqn:E;
      [|cbv beta iota in H; discriminate H];
      cbv beta iota in H; b2p
  end.

Lemma fixed_sound : forall f l tail,
  (length l < f)%nat -> Forall byte_nz l ->
  utf8_loop true f (l ++ 0 :: tail) = Some true -> wf_utf8 l.
Proof.
  induction f as [|f IH]; intros l tail Hlen HF H; [lia|].
  destruct l as [|b l1]; [constructor|].
  inversion HF as [|? ? [Hb0 Hb] HF1]; subst.
  cbn [app] in H. rewrite loop_eq in H. simpl in Hlen.
  rewrite (proj2 (N.eqb_neq b 0)) in H by lia.
  rewrite T128 in H by assumption.
  destruct (b <? 128) eqn:E; cbv beta iota in H; b2p.
  - apply wf_1; [lia|]. apply (IH l1 tail); [lia|assumption|assumption].
  - assert (C : (b < 192 \/ 248 <= b) \/ (192 <= b /\ b < 224) \/
                (224 <= b /\ b < 240) \/ (240 <= b /\ b < 248)) by lia.
    destruct C as [C|[C|[C|C]]].
    + rewrite hdr_bad in H by lia. discriminate.
    + rewrite hdr_2 in H by lia. unfold after_cont in H.
      peel H HF1 t1 l2 HF2.
      rewrite cont_0 in H. killifs H. b2pf;
        (apply wf_2; unfold tail_byte, in_range; [lia|lia|];
         apply (IH l2 tail); [simpl in *; lia|assumption|assumption]).
    + rewrite hdr_3 in H by lia. unfold after_cont in H.
      peel H HF1 t1 l2 HF2.
      peel H HF2 t2 l3 HF3.
      rewrite cont_0 in H. killifs H. b2pf;
        (assert (D : b = 224 \/ (225 <= b /\ b <= 236) \/ b = 237 \/ (238 <= b /\ b <= 239)) by lia;
         destruct D as [D|[D|[D|D]]];
         [subst b; apply wf_3a | apply wf_3b | subst b; apply wf_3c | apply wf_3d];
         unfold tail_byte, in_range; try lia;
         (apply (IH l3 tail); [simpl in *; lia|assumption|assumption])).
    + rewrite hdr_4 in H by lia. unfold after_cont in H.
      peel H HF1 t1 l2 HF2.
      peel H HF2 t2 l3 HF3.
      peel H HF3 t3 l4 HF4.
      rewrite cont_0 in H. killifs H. b2pf;
        (assert (D : b = 240 \/ (241 <= b /\ b <= 243) \/ b = 244) by lia;
         destruct D as [D|[D|D]];
         [subst b; apply wf_4a | apply wf_4b | subst b; apply wf_4c];
         unfold tail_byte, in_range; try lia;
         (apply (IH l4 tail); [simpl in *; lia|assumption|assumption])).
Qed.

(* the repaired validator accepts exactly well-formed UTF-8 *)
Theorem utf8_validate_fixed_iff_wf : forall l tail, Forall byte_nz l ->
  (utf8_validate true (l ++ 0 :: tail) = Some true <-> wf_utf8 l).
Proof.
  intros l tail HF. unfold utf8_validate. split.
  - apply fixed_sound; [|assumption]. rewrite app_length. simpl. lia.
  - intros W. apply fixed_complete; [assumption|]. rewrite app_length. simpl. lia.
Qed.

(* the hypotheses are satisfiable: U+20AC, then 'a' *)
Example utf8_fixed_accepts_euro :
  Forall byte_nz [226; 130; 172; 97] /\
  utf8_validate true ([226; 130; 172; 97] ++ [0]) = Some true.
Proof. split; [repeat constructor | vm_compute; reflexivity]. Qed.

(* ------------------------------------------------------------------ *)
(* the pinned validator                                                *)

(* E0 9F BF: an overlong encoding (of U+07FF) *)
Lemma utf8_pinned_accepts_overlong :
  Forall byte_nz [224; 159; 191] /\
  utf8_validate false ([224; 159; 191] ++ [0]) = Some true /\
  ~ wf_utf8 [224; 159; 191].
Proof.
  split; [repeat constructor|]. split; [vm_compute; reflexivity|].
  rewrite <- wf_utf8b_iff. vm_compute. discriminate.
Qed.

(* ED A0 80 'x': a surrogate (U+D800) *)
Lemma utf8_pinned_accepts_surrogate :
  Forall byte_nz [237; 160; 128; 120] /\
  utf8_validate false ([237; 160; 128; 120] ++ [0]) = Some true /\
  ~ wf_utf8 [237; 160; 128; 120].
Proof.
  split; [repeat constructor|]. split; [vm_compute; reflexivity|].
  rewrite <- wf_utf8b_iff. vm_compute. discriminate.
Qed.

(* the repaired validator rejects both *)
Example utf8_fixed_rejects_witnesses :
  utf8_validate true ([224; 159; 191] ++ [0]) = Some false /\
  utf8_validate true ([237; 160; 128; 120] ++ [0]) = Some false.
Proof. split; vm_compute; reflexivity. Qed.

(* the pinned validator accepts an overlong form and a surrogate *)
Theorem utf8_validate_pinned_refuted :
  exists l, Forall byte_nz l /\ utf8_validate false (l ++ [0]) = Some true /\ ~ wf_utf8 l.
Proof. exists [224; 159; 191]. exact utf8_pinned_accepts_overlong. Qed.
