(* UrlSpec: what C19 demands of an accepted URL, independent of the parser.
   Definitions only.  The scheme table is the generated one (Gen/Consts.v,
   read from nni_schemes[] of the current source on every run). *)
From Coq Require Import List Arith Lia Bool NArith.
From NngV Require Import Gen.Consts Url.Utf8Spec Url.CanonSpec.
Import ListNotations.
Local Open Scope N_scope.

Fixpoint bytes_eqb (a b : list N) : bool :=
  match a, b with
  | [], [] => true
  | x :: a', y :: b' => (x =? y) && bytes_eqb a' b'
  | _, _ => false
  end.

Definition known_scheme (s : list N) : Prop := In s URL_SCHEMES.
Definition known_schemeb (s : list N) : bool := existsb (bytes_eqb s) URL_SCHEMES.
Definition path_only_scheme (s : list N) : bool := existsb (bytes_eqb s) URL_PATH_ONLY_SCHEMES.

Definition host_lower (h : list N) : bool := forallb (fun c => negb (sp_upper c)) h.

(* the text before the first ':' *)
Fixpoint scheme_text (raw : list N) : list N :=
  match raw with
  | [] => []
  | c :: r => if c =? 58 then [] else c :: scheme_text r
  end.

(* raw = scheme_text raw ++ "://" ++ after_scheme raw, when that holds *)
Definition after_scheme (raw : list N) : option (list N) :=
  match skipn (length (scheme_text raw)) raw with
  | 58 :: 47 :: 47 :: r => Some r
  | _ => None
  end.

(* the authority: up to the first '/', '?' or '#' *)
Fixpoint authority_of (rest : list N) : list N :=
  match rest with
  | [] => []
  | c :: r => if (c =? 47) || (c =? 63) || (c =? 35) then [] else c :: authority_of r
  end.

Definition count_byte (x : N) (l : list N) : nat := length (filter (fun c => c =? x) l).

(* a decimal port as strtol reads it: optional white space, optional sign,
   at least one digit, nothing else; value 0..65535 ("-0" is 0) *)
Definition sp_space (c : N) : bool := (c =? 32) || ((9 <=? c) && (c <=? 13)).
Fixpoint digits_value (acc : N) (l : list N) : option N :=
  match l with
  | [] => Some acc
  | c :: r => if sp_digit c then digits_value (acc * 10 + (c - 48)) r else None
  end.
Fixpoint port_numeric (s : list N) : option N :=
  match s with
  | [] => None
  | c :: r =>
      if sp_space c then port_numeric r
      else
        let '(neg, ds) := if c =? 45 then (true, r) else if c =? 43 then (false, r) else (false, s) in
        match ds with
        | [] => None
        | _ => match digits_value 0 ds with
               | Some v => if neg then (if v =? 0 then Some 0 else None)
                           else if v <=? 65535 then Some v else None
               | None => None
               end
        end
  end.

(* everything the property says about one accepted (non path-only) URL, as a
   boolean over the input text and the components the accessors return;
   [resolver_knows] tells whether the service data base maps the port text to
   the reported port *)
Definition path_ok (path : list N) : bool :=
  escapes_valid path && wf_utf8b (pct_decode path) && escapes_canonical path
  && no_double_slash path && no_dot_segments path.
