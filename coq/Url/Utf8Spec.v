(* Utf8Spec: well-formed UTF-8 exactly as the grammar of RFC 3629 section 4,
   written independently of the validator (ranges of bytes, no arithmetic on
   code points):

     UTF8-octets = *( UTF8-char )
     UTF8-char   = UTF8-1 / UTF8-2 / UTF8-3 / UTF8-4
     UTF8-1      = %x00-7F
     UTF8-2      = %xC2-DF UTF8-tail
     UTF8-3      = %xE0 %xA0-BF UTF8-tail / %xE1-EC 2( UTF8-tail ) /
                   %xED %x80-9F UTF8-tail / %xEE-EF 2( UTF8-tail )
     UTF8-4      = %xF0 %x90-BF 2( UTF8-tail ) / %xF1-F3 3( UTF8-tail ) /
                   %xF4 %x80-8F 2( UTF8-tail )
     UTF8-tail   = %x80-BF

   This excludes overlong forms (C0, C1, E0 80-9F, F0 80-8F), surrogates
   (ED A0-BF), code points above U+10FFFF (F4 90-BF, F5-FF), stray
   continuation bytes and truncated sequences.  Definitions only. *)
From Coq Require Import List Arith Lia Bool NArith.
Import ListNotations.
Local Open Scope N_scope.

Definition in_range (lo hi b : N) : Prop := lo <= b /\ b <= hi.
Definition tail_byte (b : N) : Prop := in_range 128 191 b.

Inductive wf_utf8 : list N -> Prop :=
| wf_nil : wf_utf8 []
| wf_1 : forall b r, b <= 127 -> wf_utf8 r -> wf_utf8 (b :: r)
| wf_2 : forall b t1 r, in_range 194 223 b -> tail_byte t1 -> wf_utf8 r -> wf_utf8 (b :: t1 :: r)
| wf_3a : forall t1 t2 r, in_range 160 191 t1 -> tail_byte t2 -> wf_utf8 r -> wf_utf8 (224 :: t1 :: t2 :: r)
| wf_3b : forall b t1 t2 r, in_range 225 236 b -> tail_byte t1 -> tail_byte t2 -> wf_utf8 r ->
                            wf_utf8 (b :: t1 :: t2 :: r)
| wf_3c : forall t1 t2 r, in_range 128 159 t1 -> tail_byte t2 -> wf_utf8 r -> wf_utf8 (237 :: t1 :: t2 :: r)
| wf_3d : forall b t1 t2 r, in_range 238 239 b -> tail_byte t1 -> tail_byte t2 -> wf_utf8 r ->
                            wf_utf8 (b :: t1 :: t2 :: r)
| wf_4a : forall t1 t2 t3 r, in_range 144 191 t1 -> tail_byte t2 -> tail_byte t3 -> wf_utf8 r ->
                             wf_utf8 (240 :: t1 :: t2 :: t3 :: r)
| wf_4b : forall b t1 t2 t3 r, in_range 241 243 b -> tail_byte t1 -> tail_byte t2 -> tail_byte t3 ->
                               wf_utf8 r -> wf_utf8 (b :: t1 :: t2 :: t3 :: r)
| wf_4c : forall t1 t2 t3 r, in_range 128 143 t1 -> tail_byte t2 -> tail_byte t3 -> wf_utf8 r ->
                             wf_utf8 (244 :: t1 :: t2 :: t3 :: r).

(* the same grammar as a boolean function (this is what the check evaluates
   on the implementation's output); [wf_utf8b_iff] in Utf8Proofs.v shows the
   two agree. *)
Definition rng (lo hi b : N) : bool := (lo <=? b) && (b <=? hi).
Definition tl_b (b : N) : bool := rng 128 191 b.

Fixpoint wf_utf8b (l : list N) : bool :=
  match l with
  | [] => true
  | b :: r =>
      if b <=? 127 then wf_utf8b r
      else match r with
      | [] => false
      | t1 :: r1 =>
          if rng 194 223 b then tl_b t1 && wf_utf8b r1
          else match r1 with
          | [] => false
          | t2 :: r2 =>
              if b =? 224 then rng 160 191 t1 && tl_b t2 && wf_utf8b r2
              else if rng 225 236 b then tl_b t1 && tl_b t2 && wf_utf8b r2
              else if b =? 237 then rng 128 159 t1 && tl_b t2 && wf_utf8b r2
              else if rng 238 239 b then tl_b t1 && tl_b t2 && wf_utf8b r2
              else match r2 with
              | [] => false
              | t3 :: r3 =>
                  if b =? 240 then rng 144 191 t1 && tl_b t2 && tl_b t3 && wf_utf8b r3
                  else if rng 241 243 b then tl_b t1 && tl_b t2 && tl_b t3 && wf_utf8b r3
                  else if b =? 244 then rng 128 143 t1 && tl_b t2 && tl_b t3 && wf_utf8b r3
                  else false
              end
          end
      end
  end.
