(* CanonProofs: canonical form and idempotence of the three passes of
   nni_url_canonify_uri, proved about the pure functions of CanonPure.v
   against the independent predicates of CanonSpec.v. *)
From Coq Require Import List Arith Lia Bool NArith.
From NngV Require Import Url.Utf8Model Url.Utf8Spec Url.Utf8Proofs Url.CanonModel Url.CanonPure Url.CanonSpec.
Import ListNotations.
Local Open Scope N_scope.

(* P1: every '%' is followed by two upper-case hex digits whose value is not a
   "safe" character (not unreserved and not >= 0x80) *)
Fixpoint P1 (l : list N) : bool :=
  match l with
  | [] => true
  | c :: r =>
      (if c =? 37 then
         match r with
         | h1 :: h2 :: _ => uhex h1 && uhex h2 && negb (safe_char (uhex_val h1 * 16 + uhex_val h2))
         | _ => false
         end
       else true) && P1 r
  end.
Definition P2 (l : list N) : bool := no_double_slash (path_part l).
Definition P3 (l : list N) : bool := no_dot_segments (path_part l).

(* ------------------------------------------------------------------ *)
(* byte-level facts                                                    *)

(* turn every comparison of the goal into a Prop and finish with lia *)
Ltac cmp_split :=
  repeat match goal with
  | |- context [N.leb ?a ?b] => destruct (N.leb_spec a b)
  | |- context [N.eqb ?a ?b] => destruct (N.eqb_spec a b)
  end.
Ltac bytes_tac := cmp_split; cbn; try reflexivity; try discriminate; try lia.

Lemma cp_xd_upper h : c_isxdigit h = true -> uhex (c_toupper h) = true.
Proof.
  unfold c_isxdigit, c_isdigit, uhex, sp_digit, c_toupper, c_islower.
  destruct ((97 <=? h) && (h <=? 122)) eqn:E; revert E; bytes_tac.
Qed.

Lemma cp_xd_val h : c_isxdigit h = true -> uhex_val (c_toupper h) = url_hex_val h.
Proof.
  unfold c_isxdigit, c_isdigit, uhex_val, url_hex_val, sp_digit, c_isdigit, c_toupper, c_islower.
  destruct ((97 <=? h) && (h <=? 122)) eqn:E; revert E; bytes_tac.
Qed.

Lemma cp_xd_lt h : c_isxdigit h = true -> url_hex_val h < 16.
Proof.
  unfold c_isxdigit, c_isdigit, url_hex_val, c_isdigit. bytes_tac.
Qed.

Lemma cp_uhex_xd h : uhex h = true -> c_isxdigit h = true.
Proof. unfold c_isxdigit, c_isdigit, uhex, sp_digit. bytes_tac. Qed.

Lemma cp_uhex_up h : uhex h = true -> c_toupper h = h.
Proof. unfold c_toupper, c_islower, uhex, sp_digit. bytes_tac. Qed.

Lemma cp_uhex_ne h : uhex h = true -> (h =? 37) = false.
Proof. unfold uhex, sp_digit. bytes_tac. Qed.

Lemma cp_uhex_ne47 h : uhex h = true -> (h =? 47) = false.
Proof. unfold uhex, sp_digit. bytes_tac. Qed.

Lemma cp_hexv h1 h2 : c_isxdigit h1 = true -> c_isxdigit h2 = true ->
  wrap8 (wrap8 (url_hex_val h1 * 16) + url_hex_val h2)
  = uhex_val (c_toupper h1) * 16 + uhex_val (c_toupper h2).
Proof.
  intros X1 X2. rewrite (cp_xd_val _ X1), (cp_xd_val _ X2).
  pose proof (cp_xd_lt _ X1). pose proof (cp_xd_lt _ X2).
  unfold wrap8. rewrite (N.mod_small (url_hex_val h1 * 16)) by lia.
  apply N.mod_small. lia.
Qed.

Lemma cp_safe_ne37 v : safe_char v = true -> (v =? 37) = false.
Proof.
  intros H. destruct (N.eqb_spec v 37) as [->|]; [vm_compute in H; discriminate|reflexivity].
Qed.

Lemma cp_unres_safe v : unreserved v = true -> safe_char v = true.
Proof.
  unfold unreserved, safe_char.
  change (sp_upper v) with (c_isupper v). change (sp_lower v) with (c_islower v).
  change (sp_digit v) with (c_isdigit v).
  destruct (c_isupper v), (c_islower v), (c_isdigit v), (v =? 45), (v =? 46), (v =? 95), (v =? 126);
    cbn; intros H; try reflexivity; discriminate.
Qed.

(* ------------------------------------------------------------------ *)
(* pass 1                                                              *)

Lemma P1_cons_ne x l : (x =? 37) = false -> P1 (x :: l) = P1 l.
Proof. intros H. cbn [P1]. rewrite H. reflexivity. Qed.

Lemma P1_cons_esc h1 h2 l :
  P1 (37 :: h1 :: h2 :: l)
  = uhex h1 && uhex h2 && negb (safe_char (uhex_val h1 * 16 + uhex_val h2)) && P1 l.
Proof.
  change (P1 (37 :: h1 :: h2 :: l))
    with ((uhex h1 && uhex h2 && negb (safe_char (uhex_val h1 * 16 + uhex_val h2)))
          && P1 (h1 :: h2 :: l)).
  destruct (uhex h1) eqn:U1; [|reflexivity].
  destruct (uhex h2) eqn:U2; [|reflexivity].
  rewrite (P1_cons_ne h1) by (apply cp_uhex_ne; assumption).
  rewrite (P1_cons_ne h2) by (apply cp_uhex_ne; assumption).
  reflexivity.
Qed.

Lemma p1_establishes_n : forall n s t, (length s <= n)%nat -> p1 s = Some t -> P1 t = true.
Proof.
  induction n as [|n IH]; intros s t L H.
  - destruct s; [|simpl in L; lia]. cbn in H. injection H as <-. reflexivity.
  - destruct s as [|c r]. { cbn in H. injection H as <-. reflexivity. }
    cbn [p1] in H. destruct (c =? 37) eqn:Ec.
    + destruct r as [|h1 [|h2 r']]; try discriminate.
      destruct (c_isxdigit h1) eqn:X1; [|discriminate].
      destruct (c_isxdigit h2) eqn:X2; [|discriminate].
      cbn [andb] in H.
      destruct (p1 r') as [t0|] eqn:Hr; [|discriminate].
      assert (P1 t0 = true) as Pt0 by (apply (IH r' t0); [simpl in L; lia|assumption]).
      rewrite (cp_hexv _ _ X1 X2) in H.
      destruct (safe_char _) eqn:Es in H; injection H as <-.
      * rewrite P1_cons_ne by (apply cp_safe_ne37; assumption). assumption.
      * rewrite P1_cons_esc, Es, Pt0, (cp_xd_upper _ X1), (cp_xd_upper _ X2). reflexivity.
    + destruct (p1 r) as [t0|] eqn:Hr; [|discriminate]. injection H as <-.
      rewrite P1_cons_ne by assumption. apply (IH r t0); [simpl in L; lia|assumption].
Qed.

Theorem p1_establishes : forall s t, p1 s = Some t -> P1 t = true.
Proof. intros s t. apply (p1_establishes_n (length s)). lia. Qed.

Theorem P1_escapes_canonical : forall t, P1 t = true -> escapes_canonical t = true.
Proof.
  induction t as [|c r IH]; intros H; [reflexivity|].
  cbn [P1] in H. apply andb_prop in H. destruct H as [Ha Hr].
  cbn [escapes_canonical]. rewrite (IH Hr), andb_true_r.
  destruct (c =? 37); [|reflexivity].
  destruct r as [|h1 [|h2 r']]; try discriminate.
  apply andb_prop in Ha. destruct Ha as [Hu Hs]. rewrite Hu. cbn [andb].
  destruct (unreserved _) eqn:Eu; [|reflexivity].
  rewrite (cp_unres_safe _ Eu) in Hs. discriminate.
Qed.

Lemma p1_fixpoint_n : forall n t, (length t <= n)%nat -> P1 t = true -> p1 t = Some t.
Proof.
  induction n as [|n IH]; intros t L H.
  - destruct t; [reflexivity|simpl in L; lia].
  - destruct t as [|c r]; [reflexivity|].
    destruct (c =? 37) eqn:Ec.
    + apply N.eqb_eq in Ec. subst c.
      destruct r as [|h1 [|h2 r']]; try (cbn in H; discriminate).
      rewrite P1_cons_esc in H.
      apply andb_prop in H. destruct H as [H Hr].
      apply andb_prop in H. destruct H as [H Hs].
      apply andb_prop in H. destruct H as [U1 U2].
      apply negb_true_iff in Hs.
      cbn [p1]. rewrite N.eqb_refl.
      pose proof (cp_uhex_xd _ U1) as X1. pose proof (cp_uhex_xd _ U2) as X2.
      rewrite X1, X2. cbn [andb].
      rewrite (IH r') by (try assumption; simpl in L; lia).
      rewrite (cp_hexv _ _ X1 X2), (cp_uhex_up _ U1), (cp_uhex_up _ U2), Hs.
      reflexivity.
    + rewrite P1_cons_ne in H by assumption.
      cbn [p1]. rewrite Ec. rewrite (IH r) by (try assumption; simpl in L; lia). reflexivity.
Qed.

Theorem p1_fixpoint : forall t, P1 t = true -> p1 t = Some t.
Proof. intros t. apply (p1_fixpoint_n (length t)). lia. Qed.

(* ------------------------------------------------------------------ *)
(* pass 2                                                              *)

Definition starts47 (l : list N) : bool := match l with d :: _ => d =? 47 | [] => false end.

Lemma nds2_cons c r : no_double_slash (c :: r) = negb ((c =? 47) && starts47 r) && no_double_slash r.
Proof. reflexivity. Qed.

Lemma pp_cons c r : path_part (c :: r) = if is_qf c then [] else c :: path_part r.
Proof. reflexivity. Qed.

Lemma p2_skip : forall s prev, p2 true prev s = s.
Proof.
  induction s as [|c r IH]; intros prev; [reflexivity|].
  cbn [p2 negb]. rewrite andb_false_r. destruct (is_qf c); rewrite IH; reflexivity.
Qed.

Lemma qf_47 c : (c =? 47) = true -> is_qf c = false.
Proof. intros H. apply N.eqb_eq in H. subst c. reflexivity. Qed.

Lemma p2_establishes_gen : forall s prev,
  no_double_slash (path_part (p2 false prev s)) = true /\
  (prev = true -> starts47 (path_part (p2 false prev s)) = false).
Proof.
  induction s as [|c r IH]; intros prev.
  - split; reflexivity.
  - cbn [p2 negb]. rewrite andb_true_r. destruct (c =? 47) eqn:Ec.
    + destruct (IH true) as [I1 I2]. destruct prev.
      * split; [assumption|]. intros _. apply I2. reflexivity.
      * split; [|discriminate]. rewrite pp_cons. cbn [is_qf N.eqb Pos.eqb orb].
        rewrite nds2_cons, I1, (I2 eq_refl). reflexivity.
    + rewrite pp_cons. destruct (is_qf c) eqn:Eq.
      * split; reflexivity.
      * destruct (IH false) as [I1 _]. split.
        -- rewrite nds2_cons, Ec, I1. reflexivity.
        -- intros _. cbn [starts47]. assumption.
Qed.

Theorem p2_establishes : forall s, P2 (p2 false false s) = true.
Proof. intros s. apply (p2_establishes_gen s false). Qed.

Lemma p2_fixpoint_gen : forall t prev,
  no_double_slash (path_part t) = true ->
  (prev = true -> starts47 (path_part t) = false) ->
  p2 false prev t = t.
Proof.
  induction t as [|c r IH]; intros prev H1 H2; [reflexivity|].
  cbn [p2 negb]. rewrite andb_true_r. rewrite pp_cons in H1, H2.
  destruct (c =? 47) eqn:Ec.
  - rewrite (qf_47 _ Ec) in H1, H2. rewrite nds2_cons, Ec in H1. cbn [andb] in H1.
    apply andb_prop in H1. destruct H1 as [Ha Hb]. apply negb_true_iff in Ha.
    destruct prev.
    + specialize (H2 eq_refl). cbn [starts47] in H2. congruence.
    + apply N.eqb_eq in Ec. subst c. f_equal. apply IH; [assumption|]. intros _. assumption.
  - destruct (is_qf c) eqn:Eq.
    + rewrite p2_skip. reflexivity.
    + rewrite nds2_cons, Ec in H1. cbn [andb negb] in H1. f_equal. apply IH; [assumption|discriminate].
Qed.

Theorem p2_fixpoint : forall t, P2 t = true -> p2 false false t = t.
Proof. intros t H. apply p2_fixpoint_gen; [exact H|discriminate]. Qed.

(* ------------------------------------------------------------------ *)
(* pass 3: the step function without literal patterns                  *)

Ltac pos_split x :=
  destruct x as [|x]; [try reflexivity|];
  do 6 (try (destruct x as [x|x|]; try reflexivity)).

Definition dd (r : list N) : bool :=
  match r with x :: y :: r2 => (x =? 46) && (y =? 46) && term_hd r2 | _ => false end.
Definition d1 (r : list N) : bool :=
  match r with x :: r1 => (x =? 46) && term_hd r1 | _ => false end.

Lemma p3_slash_ne x r1 racc : x <> 46 ->
  p3 false racc (47 :: x :: r1) = p3 false (47 :: racc) (x :: r1).
Proof. intros H. pos_split x. elim H; reflexivity. Qed.

Lemma p3_slash_d_ne y r2 racc : y <> 46 ->
  p3 false racc (47 :: 46 :: y :: r2)
  = if is_term y then p3 false racc (y :: r2) else p3 false (47 :: racc) (46 :: y :: r2).
Proof. intros H. pos_split y. elim H; reflexivity. Qed.

Lemma p3_slash racc r :
  p3 false racc (47 :: r)
  = if dd r then p3 false (pop racc) (skipn 2 r)
    else if d1 r then p3 false racc (skipn 1 r)
    else p3 false (47 :: racc) r.
Proof.
  destruct r as [|x r1]; [reflexivity|].
  destruct (N.eqb_spec x 46) as [->|Hx].
  2:{ rewrite (p3_slash_ne _ _ _ Hx). unfold dd, d1.
      rewrite (proj2 (N.eqb_neq x 46) Hx). destruct r1; reflexivity. }
  destruct r1 as [|y r2]; [reflexivity|].
  destruct (N.eqb_spec y 46) as [->|Hy].
  - unfold dd, d1. cbn [N.eqb Pos.eqb andb term_hd is_term orb skipn].
    change (p3 false racc (47 :: 46 :: 46 :: r2))
      with (if term_hd r2 then p3 false (pop racc) r2 else p3 false (47 :: racc) (46 :: 46 :: r2)).
    destruct (term_hd r2); reflexivity.
  - rewrite (p3_slash_d_ne _ _ _ Hy). unfold dd, d1.
    rewrite (proj2 (N.eqb_neq y 46) Hy). cbn [N.eqb Pos.eqb andb term_hd skipn].
    reflexivity.
Qed.

Lemma p3_other c r racc : (c =? 47) = false ->
  p3 false racc (c :: r) = p3 (is_qf c) (c :: racc) r.
Proof. intros H. cbn [p3]. rewrite H. cbn [andb]. destruct (is_qf c); reflexivity. Qed.

Lemma p3_true : forall s racc, p3 true racc s = rev racc ++ s.
Proof.
  induction s as [|c r IH]; intros racc.
  - cbn. rewrite app_nil_r. reflexivity.
  - cbn [p3 negb]. rewrite andb_false_r. destruct (is_qf c); rewrite IH; cbn [rev];
      rewrite <- app_assoc; reflexivity.
Qed.

Lemma pop_form : forall racc, pop racc = [] \/ exists seg, racc = seg ++ 47 :: pop racc.
Proof.
  induction racc as [|x r' IH]; [left; reflexivity|].
  destruct r' as [|y r'']; [left; reflexivity|].
  change (pop (x :: y :: r'')) with (if x =? 47 then y :: r'' else pop (y :: r'')).
  destruct (N.eqb_spec x 47) as [->|Hx].
  - right. exists []. reflexivity.
  - destruct IH as [IH|[seg IH]]; [left; assumption|].
    right. exists (x :: seg). cbn [app]. f_equal. exact IH.
Qed.

(* ------------------------------------------------------------------ *)
(* dot segments with the terminator set of pass 3 ('/' or NUL inside the
   path part), as boolean tests without literal patterns *)

Definition tz (x : N) : bool := (x =? 47) || (x =? 0).
Definition seg_end0 (l : list N) : bool := match l with [] => true | z :: _ => tz z end.
Definition ds0 (l : list N) : bool :=
  match l with
  | [] => false
  | x :: l1 => (x =? 46) && (seg_end0 l1 ||
                 match l1 with [] => false | y :: l2 => (y =? 46) && seg_end0 l2 end)
  end.
Fixpoint nds0 (l : list N) : bool :=
  match l with
  | [] => true
  | c :: r => negb ((c =? 47) && ds0 r) && nds0 r
  end.
Definition P3z (l : list N) : bool := nds0 (path_part l).

(* the spec's test in the same shape *)
Definition seg_end (l : list N) : bool := match l with [] => true | z :: _ => z =? 47 end.
Definition dsb (l : list N) : bool :=
  match l with
  | [] => false
  | x :: l1 => (x =? 46) && (seg_end l1 ||
                 match l1 with [] => false | y :: l2 => (y =? 46) && seg_end l2 end)
  end.

Lemma ds_ne1 x l : x <> 46 -> dotseg_at (x :: l) = false.
Proof. intros H. pos_split x. elim H; reflexivity. Qed.
Lemma ds_ne2 y l : y <> 46 -> y <> 47 -> dotseg_at (46 :: y :: l) = false.
Proof.
  intros H1 H2. pos_split y; try (elim H1; reflexivity); try (elim H2; reflexivity).
Qed.
Lemma ds_ne3 z l : z <> 47 -> dotseg_at (46 :: 46 :: z :: l) = false.
Proof. intros H. pos_split z. elim H; reflexivity. Qed.

Lemma dotseg_at_dsb l : dotseg_at l = dsb l.
Proof.
  destruct l as [|x l1]; [reflexivity|].
  destruct (N.eqb_spec x 46) as [->|Hx].
  2:{ rewrite (ds_ne1 _ _ Hx). unfold dsb. rewrite (proj2 (N.eqb_neq x 46) Hx). reflexivity. }
  destruct l1 as [|y l2]; [reflexivity|].
  destruct (N.eqb_spec y 47) as [->|Hy47]; [reflexivity|].
  destruct (N.eqb_spec y 46) as [->|Hy46].
  - destruct l2 as [|z l3]; [reflexivity|].
    destruct (N.eqb_spec z 47) as [->|Hz]; [reflexivity|].
    rewrite (ds_ne3 _ _ Hz). unfold dsb, seg_end.
    rewrite (proj2 (N.eqb_neq z 47) Hz). reflexivity.
  - rewrite (ds_ne2 _ _ Hy46 Hy47). unfold dsb, seg_end.
    rewrite (proj2 (N.eqb_neq y 47) Hy47), (proj2 (N.eqb_neq y 46) Hy46). reflexivity.
Qed.

Lemma seg_end_0 l : seg_end l = true -> seg_end0 l = true.
Proof. destruct l as [|z l]; [reflexivity|]. unfold seg_end, seg_end0, tz. intros ->. reflexivity. Qed.

Lemma dsb_ds0 l : dsb l = true -> ds0 l = true.
Proof.
  destruct l as [|x l1]; [discriminate|]. unfold dsb, ds0.
  destruct (x =? 46); [|discriminate]. cbn [andb].
  intros H. apply orb_prop in H. destruct H as [H|H].
  - rewrite (seg_end_0 _ H). reflexivity.
  - destruct l1 as [|y l2]; [discriminate|]. apply andb_prop in H. destruct H as [H1 H2].
    rewrite H1, (seg_end_0 _ H2). apply orb_true_r.
Qed.

Lemma nds0_nds : forall l, nds0 l = true -> no_dot_segments l = true.
Proof.
  induction l as [|c r IH]; intros H; [reflexivity|].
  cbn [nds0] in H. apply andb_prop in H. destruct H as [Ha Hb].
  cbn [no_dot_segments]. rewrite (IH Hb), andb_true_r.
  destruct (c =? 47); [|reflexivity]. cbn [andb] in *.
  destruct (dotseg_at r) eqn:E; [|reflexivity].
  rewrite dotseg_at_dsb in E. rewrite (dsb_ds0 _ E) in Ha. discriminate.
Qed.

Theorem P3z_P3 : forall t, P3z t = true -> P3 t = true.
Proof. intros t. apply nds0_nds. Qed.

(* without NUL bytes the two tests coincide *)
Definition nz0 (l : list N) : Prop := Forall (fun b => b <> 0) l.

Lemma seg_end0_nz l : nz0 l -> seg_end0 l = seg_end l.
Proof.
  intros H. destruct l as [|z l]; [reflexivity|]. inversion H; subst.
  unfold seg_end0, seg_end, tz. rewrite (proj2 (N.eqb_neq z 0)) by assumption. apply orb_false_r.
Qed.

Lemma ds0_nz l : nz0 l -> ds0 l = dsb l.
Proof.
  intros H. destruct l as [|x l1]; [reflexivity|]. inversion H as [|? ? _ H1]; subst.
  unfold ds0, dsb. rewrite (seg_end0_nz _ H1).
  destruct l1 as [|y l2]; [reflexivity|]. inversion H1 as [|? ? _ H2]; subst.
  rewrite (seg_end0_nz _ H2). reflexivity.
Qed.

Lemma nds_nds0 : forall l, nz0 l -> no_dot_segments l = true -> nds0 l = true.
Proof.
  induction l as [|c r IH]; intros Z H; [reflexivity|]. inversion Z; subst.
  cbn [no_dot_segments] in H. apply andb_prop in H. destruct H as [Ha Hb].
  cbn [nds0]. rewrite (IH H3 Hb), andb_true_r.
  rewrite ds0_nz by assumption. rewrite <- dotseg_at_dsb. assumption.
Qed.

Lemma nz0_pp : forall l, nz0 l -> nz0 (path_part l).
Proof.
  induction l as [|c r IH]; intros H; [constructor|]. inversion H as [|? ? Hc Hr]; subst.
  rewrite pp_cons. destruct (is_qf c); [constructor|].
  constructor; [assumption|apply IH; assumption].
Qed.

Lemma P3_P3z t : nz0 t -> P3 t = true -> P3z t = true.
Proof. intros Z H. apply nds_nds0; [apply nz0_pp; assumption|exact H]. Qed.

(* ------------------------------------------------------------------ *)
(* splitting at a terminator                                           *)

Lemma tz_ne46 t : tz t = true -> (t =? 46) = false.
Proof. unfold tz. bytes_tac. Qed.

Lemma ds0_app_t a t b : tz t = true -> ds0 (a ++ t :: b) = ds0 a.
Proof.
  intros T. destruct a as [|x [|y [|z a]]]; cbn [app ds0 seg_end0].
  - rewrite (tz_ne46 _ T). reflexivity.
  - rewrite T. reflexivity.
  - rewrite T. reflexivity.
  - reflexivity.
Qed.

Lemma nds0_app_t : forall a t b, tz t = true -> nds0 (a ++ t :: b) = nds0 a && nds0 (t :: b).
Proof.
  induction a as [|c a IH]; intros t b T; [reflexivity|].
  cbn [app]. change (nds0 (c :: a ++ t :: b)) with (negb ((c =? 47) && ds0 (a ++ t :: b)) && nds0 (a ++ t :: b)).
  rewrite (ds0_app_t _ _ _ T), (IH _ _ T). cbn [nds0]. rewrite andb_assoc. reflexivity.
Qed.

Lemma nds0_no47 : forall w, Forall (fun x => (x =? 47) = false) w -> nds0 w = true.
Proof.
  induction w as [|c w IH]; intros H; [reflexivity|]. inversion H; subst.
  cbn [nds0]. rewrite H2, (IH H3). reflexivity.
Qed.

(* the first segment of the rest: up to the next terminator of pass 3 *)
Fixpoint seg1 (s : list N) : list N :=
  match s with
  | [] => []
  | x :: r => if is_term x then [] else x :: seg1 r
  end.

Lemma term_split x : is_term x = tz x || is_qf x.
Proof. unfold is_term, tz, is_qf. destruct (x =? 0), (x =? 35), (x =? 63), (x =? 47); reflexivity. Qed.

Lemma term_ne46 x : is_term x = true -> (x =? 46) = false.
Proof. unfold is_term. bytes_tac. Qed.

Lemma seg1_no47 : forall s, Forall (fun x => (x =? 47) = false) (seg1 s).
Proof.
  induction s as [|x r IH]; [constructor|]. cbn [seg1]. destruct (is_term x) eqn:E; [constructor|].
  constructor; [|assumption]. unfold is_term in E. destruct (x =? 47); [|reflexivity].
  rewrite !orb_true_r in E. discriminate.
Qed.

Lemma seg1_term r : term_hd r = true -> seg1 r = [].
Proof. destruct r as [|x r]; [reflexivity|]. cbn [term_hd seg1]. intros ->. reflexivity. Qed.

Lemma seg_end0_seg1 r : seg_end0 (seg1 r) = term_hd r.
Proof.
  destruct r as [|y r]; [reflexivity|]. cbn [seg1 term_hd].
  destruct (is_term y) eqn:E; [reflexivity|]. cbn [seg_end0].
  rewrite term_split in E. apply orb_false_elim in E. tauto.
Qed.

Lemma ds0_seg1 r : ds0 (seg1 r) = dd r || d1 r.
Proof.
  destruct r as [|x r1]; [reflexivity|]. cbn [seg1]. unfold dd, d1.
  destruct (is_term x) eqn:Ex.
  - rewrite (term_ne46 _ Ex). destruct r1; reflexivity.
  - cbn [ds0]. rewrite seg_end0_seg1. destruct r1 as [|y r2].
    + cbn. destruct (x =? 46); reflexivity.
    + cbn [seg1 term_hd]. destruct (is_term y) eqn:Ey.
      * rewrite (term_ne46 _ Ey). destruct (x =? 46); reflexivity.
      * rewrite seg_end0_seg1. destruct (x =? 46), (y =? 46), (term_hd r2); reflexivity.
Qed.

Lemma pp_seg1 : forall r, path_part r = seg1 r \/
  exists t b, tz t = true /\ path_part r = seg1 r ++ t :: b.
Proof.
  induction r as [|x r IH]; [left; reflexivity|].
  rewrite pp_cons. cbn [seg1]. rewrite term_split.
  destruct (is_qf x) eqn:Eq.
  - rewrite orb_true_r. left; reflexivity.
  - rewrite orb_false_r. destruct (tz x) eqn:Et.
    + right. exists x, (path_part r). split; [assumption|reflexivity].
    + destruct IH as [IH|(t & b & T & IH)].
      * left. rewrite IH. reflexivity.
      * right. exists t, b. split; [assumption|]. rewrite IH. reflexivity.
Qed.

Lemma ds0_pp r : ds0 (path_part r) = dd r || d1 r.
Proof.
  rewrite <- ds0_seg1. destruct (pp_seg1 r) as [E|(t & b & T & E)]; rewrite E; [reflexivity|].
  apply ds0_app_t. assumption.
Qed.

(* ------------------------------------------------------------------ *)
(* pass 3 establishes P3z (hence P3) and is the identity on P3z         *)

Definition nq (c : N) : Prop := is_qf c = false.

Lemma pp_app_nq : forall a b, Forall nq a -> path_part (a ++ b) = a ++ path_part b.
Proof.
  induction a as [|c a IH]; intros b H; [reflexivity|]. inversion H; subst.
  cbn [app]. rewrite pp_cons. unfold nq in H2. rewrite H2, (IH _ H3). reflexivity.
Qed.

Lemma pop_nq racc : Forall nq racc -> Forall nq (pop racc).
Proof.
  intros H. destruct (pop_form racc) as [E|[seg E]]; [rewrite E; constructor|].
  rewrite E in H. apply Forall_app in H. destruct H as [_ H]. inversion H; assumption.
Qed.

Lemma dd_shape r : dd r = true -> exists r2, r = 46 :: 46 :: r2 /\ term_hd r2 = true.
Proof.
  destruct r as [|x [|y r2]]; try discriminate. unfold dd. intros H.
  apply andb_prop in H. destruct H as [H H3]. apply andb_prop in H. destruct H as [H1 H2].
  apply N.eqb_eq in H1, H2. subst. exists r2. split; [reflexivity|assumption].
Qed.

Lemma d1_shape r : d1 r = true -> exists r1, r = 46 :: r1 /\ term_hd r1 = true.
Proof.
  destruct r as [|x r1]; try discriminate. unfold d1. intros H.
  apply andb_prop in H. destruct H as [H1 H2]. apply N.eqb_eq in H1. subst.
  exists r1. split; [reflexivity|assumption].
Qed.

Lemma p3_establishes_n : forall n s racc, (length s <= n)%nat ->
  Forall nq racc -> nds0 (rev racc ++ seg1 s) = true ->
  nds0 (path_part (p3 false racc s)) = true.
Proof.
  induction n as [|n IH]; intros s racc L Q J.
  - destruct s; [|simpl in L; lia]. cbn [p3]. cbn [seg1] in J. rewrite app_nil_r in J.
    rewrite <- (app_nil_r (rev racc)), pp_app_nq by (apply Forall_rev; assumption).
    cbn. rewrite app_nil_r. assumption.
  - destruct s as [|c r].
    { cbn [p3]. cbn [seg1] in J. rewrite app_nil_r in J.
      rewrite <- (app_nil_r (rev racc)), pp_app_nq by (apply Forall_rev; assumption).
      cbn. rewrite app_nil_r. assumption. }
    simpl in L. destruct (c =? 47) eqn:Ec.
    + apply N.eqb_eq in Ec. subst c. cbn [seg1 is_term N.eqb Pos.eqb orb] in J.
      rewrite app_nil_r in J. rewrite p3_slash.
      destruct (dd r) eqn:Edd; [|destruct (d1 r) eqn:Ed1].
      * destruct (dd_shape _ Edd) as (r2 & -> & T). cbn [skipn].
        apply IH; [simpl in L; lia|apply pop_nq; assumption|].
        rewrite (seg1_term _ T), app_nil_r.
        destruct (pop_form racc) as [E|[seg E]]; [rewrite E; reflexivity|].
        rewrite E in J at 1. rewrite rev_app_distr in J. cbn [rev] in J.
        rewrite <- app_assoc in J. cbn [app] in J.
        rewrite nds0_app_t in J by reflexivity. apply andb_prop in J. tauto.
      * destruct (d1_shape _ Ed1) as (r1 & -> & T). cbn [skipn].
        apply IH; [simpl in L; lia|assumption|].
        rewrite (seg1_term _ T), app_nil_r. assumption.
      * apply IH; [lia|constructor; [reflexivity|assumption]|].
        cbn [rev]. rewrite <- app_assoc. cbn [app].
        rewrite nds0_app_t by reflexivity. rewrite J. cbn [nds0 N.eqb Pos.eqb andb].
        rewrite ds0_seg1, Edd, Ed1. cbn [orb negb andb].
        apply nds0_no47. apply seg1_no47.
    + rewrite p3_other by assumption. destruct (is_qf c) eqn:Eq.
      * rewrite p3_true. cbn [rev]. rewrite <- app_assoc. cbn [app].
        rewrite pp_app_nq by (apply Forall_rev; assumption).
        rewrite pp_cons, Eq, app_nil_r.
        cbn [seg1] in J. rewrite term_split, Eq, orb_true_r, app_nil_r in J. assumption.
      * apply IH; [lia|constructor; assumption|].
        cbn [rev]. rewrite <- app_assoc. cbn [app].
        cbn [seg1] in J. rewrite term_split, Eq, orb_false_r in J.
        destruct (tz c) eqn:Et; [|assumption].
        rewrite app_nil_r in J. rewrite nds0_app_t by assumption. rewrite J.
        cbn [nds0 andb]. rewrite Ec. cbn [andb negb].
        apply nds0_no47. apply seg1_no47.
Qed.

Theorem p3_establishes_z : forall s, P3z (p3 false [] s) = true.
Proof.
  intros s. apply (p3_establishes_n (length s)); [lia|constructor|].
  cbn [rev app]. apply nds0_no47. apply seg1_no47.
Qed.

Theorem p3_establishes : forall s, P3 (p3 false [] s) = true.
Proof. intros s. apply P3z_P3. apply p3_establishes_z. Qed.

Lemma p3_fixpoint_gen : forall t racc, P3z t = true -> p3 false racc t = rev racc ++ t.
Proof.
  induction t as [|c r IH]; intros racc H.
  - cbn. rewrite app_nil_r. reflexivity.
  - unfold P3z in H. rewrite pp_cons in H. destruct (c =? 47) eqn:Ec.
    + rewrite (qf_47 _ Ec) in H. cbn [nds0] in H. rewrite Ec, ds0_pp in H. cbn [andb] in H.
      apply andb_prop in H. destruct H as [Ha Hb]. apply negb_true_iff in Ha.
      apply orb_false_elim in Ha. destruct Ha as [Edd Ed1].
      apply N.eqb_eq in Ec. subst c.
      rewrite p3_slash, Edd, Ed1. rewrite (IH _ Hb). cbn [rev]. rewrite <- app_assoc. reflexivity.
    + rewrite p3_other by assumption. destruct (is_qf c) eqn:Eq.
      * rewrite p3_true. cbn [rev]. rewrite <- app_assoc. reflexivity.
      * cbn [nds0] in H. apply andb_prop in H. destruct H as [_ Hb].
        rewrite (IH _ Hb). cbn [rev]. rewrite <- app_assoc. reflexivity.
Qed.

Lemma byte_nz_nz0 l : Forall byte_nz l -> nz0 l.
Proof.
  intros H. unfold nz0. eapply Forall_impl; [|exact H].
  intros b [Hb _]. lia.
Qed.

(* [Forall byte_nz t] is needed: for t = "/..\000" the spec sees no dot
   segment (the segment is "..\000") while pass 3 treats the NUL as a
   terminator and pops. *)
Theorem p3_fixpoint : forall t, Forall byte_nz t -> P3 t = true -> p3 false [] t = t.
Proof.
  intros t Z H. apply (p3_fixpoint_gen t []). apply P3_P3z; [apply byte_nz_nz0; assumption|exact H].
Qed.

Example p3_fixpoint_needs_nz :
  P3 [47; 46; 46; 0] = true /\ p3 false [] [47; 46; 46; 0] <> [47; 46; 46; 0].
Proof. split; [reflexivity|discriminate]. Qed.

(* ------------------------------------------------------------------ *)
(* later passes preserve earlier predicates                            *)

Lemma P1_app_r : forall u v, P1 (u ++ v) = true -> P1 v = true.
Proof.
  induction u as [|c u IH]; intros v H; [exact H|].
  cbn [app P1] in H. apply andb_prop in H. destruct H as [_ H]. apply IH; assumption.
Qed.

(* deleting a block that starts with a byte that is not an upper-case hex
   digit cannot break an escape *)
Lemma P1_del : forall a x d b, uhex x = false ->
  P1 (a ++ x :: d ++ b) = true -> P1 (a ++ b) = true.
Proof.
  induction a as [|c a IH]; intros x d b U H.
  - cbn [app] in *. apply (P1_app_r (x :: d)). exact H.
  - cbn [app] in H. cbn [P1] in H. apply andb_prop in H. destruct H as [Ha Hb].
    cbn [app P1]. rewrite (IH _ _ _ U Hb), andb_true_r.
    destruct (c =? 37); [|reflexivity].
    destruct a as [|h1 [|h2 a]].
    + cbn [app] in Ha. destruct (d ++ b); [discriminate|]. rewrite U in Ha. discriminate.
    + cbn [app] in Ha. rewrite U, andb_false_r in Ha. discriminate.
    + exact Ha.
Qed.

Lemma P1_del1 a x b : uhex x = false -> P1 (a ++ x :: b) = true -> P1 (a ++ b) = true.
Proof. intros U H. apply (P1_del a x [] b U). exact H. Qed.

Lemma p2_preserves_P1_gen : forall s a skip prev,
  P1 (a ++ s) = true -> P1 (a ++ p2 skip prev s) = true.
Proof.
  induction s as [|c r IH]; intros a skip prev H; [exact H|].
  cbn [p2]. destruct ((c =? 47) && negb skip) eqn:E.
  - apply andb_prop in E. destruct E as [Ec _]. apply N.eqb_eq in Ec. subst c.
    destruct prev.
    + apply IH. apply (P1_del1 a 47); [reflexivity|exact H].
    + change (a ++ 47 :: p2 skip true r) with (a ++ [47] ++ p2 skip true r).
      rewrite app_assoc. apply IH. rewrite <- app_assoc. exact H.
  - change (a ++ c :: p2 (if is_qf c then true else skip) false r)
      with (a ++ [c] ++ p2 (if is_qf c then true else skip) false r).
    rewrite app_assoc. apply IH. rewrite <- app_assoc. exact H.
Qed.

Theorem p2_preserves_P1 : forall s, P1 s = true -> P1 (p2 false false s) = true.
Proof. intros s H. apply (p2_preserves_P1_gen s [] false false). exact H. Qed.

Lemma p3_preserves_P1_n : forall n s racc, (length s <= n)%nat ->
  P1 (rev racc ++ s) = true -> P1 (p3 false racc s) = true.
Proof.
  induction n as [|n IH]; intros s racc L H.
  - destruct s; [|simpl in L; lia]. cbn [p3]. rewrite app_nil_r in H. exact H.
  - destruct s as [|c r]. { cbn [p3]. rewrite app_nil_r in H. exact H. }
    simpl in L. destruct (c =? 47) eqn:Ec.
    + apply N.eqb_eq in Ec. subst c. rewrite p3_slash.
      destruct (dd r) eqn:Edd; [|destruct (d1 r) eqn:Ed1].
      * destruct (dd_shape _ Edd) as (r2 & -> & T). cbn [skipn].
        apply IH; [simpl in L; lia|].
        destruct (pop_form racc) as [E|[seg E]].
        { rewrite E. cbn [rev app]. apply (P1_app_r (rev racc ++ [47; 46; 46])).
          rewrite <- app_assoc. exact H. }
        rewrite E in H at 1. rewrite rev_app_distr in H. cbn [rev] in H.
        rewrite <- !app_assoc in H. cbn [app] in H.
        apply (P1_del (rev (pop racc)) 47 (rev seg ++ [47; 46; 46]) r2); [reflexivity|].
        rewrite <- app_assoc. exact H.
      * destruct (d1_shape _ Ed1) as (r1 & -> & T). cbn [skipn].
        apply IH; [simpl in L; lia|].
        apply (P1_del (rev racc) 47 [46] r1); [reflexivity|exact H].
      * apply IH; [lia|]. cbn [rev]. rewrite <- app_assoc. exact H.
    + rewrite p3_other by assumption. destruct (is_qf c).
      * rewrite p3_true. cbn [rev]. rewrite <- app_assoc. exact H.
      * apply IH; [lia|]. cbn [rev]. rewrite <- app_assoc. exact H.
Qed.

Theorem p3_preserves_P1 : forall s, P1 s = true -> P1 (p3 false [] s) = true.
Proof. intros s H. apply (p3_preserves_P1_n (length s)); [lia|exact H]. Qed.

Lemma nds2_app_r : forall u v, no_double_slash (u ++ v) = true -> no_double_slash v = true.
Proof.
  induction u as [|c u IH]; intros v H; [exact H|].
  cbn [app] in H. rewrite nds2_cons in H. apply andb_prop in H. destruct H as [_ H]. apply IH; assumption.
Qed.

(* deleting a block that starts with '/' cannot create "//" *)
Lemma nds2_del : forall a d b,
  no_double_slash (a ++ 47 :: d ++ b) = true -> no_double_slash (a ++ b) = true.
Proof.
  induction a as [|c a IH]; intros d b H.
  - cbn [app] in *. apply (nds2_app_r (47 :: d)). exact H.
  - cbn [app] in H. rewrite nds2_cons in H. apply andb_prop in H. destruct H as [Ha Hb].
    cbn [app]. rewrite nds2_cons, (IH _ _ Hb), andb_true_r.
    destruct a as [|y a]; [|exact Ha].
    cbn [app starts47] in Ha. cbn [N.eqb Pos.eqb] in Ha. rewrite andb_true_r in Ha.
    apply negb_true_iff in Ha. rewrite Ha. reflexivity.
Qed.

Lemma p3_preserves_P2_n : forall n s racc, (length s <= n)%nat ->
  Forall nq racc -> no_double_slash (rev racc ++ path_part s) = true ->
  no_double_slash (path_part (p3 false racc s)) = true.
Proof.
  induction n as [|n IH]; intros s racc L Q H.
  - destruct s; [|simpl in L; lia]. cbn [p3]. cbn [path_part] in H.
    rewrite <- (app_nil_r (rev racc)), pp_app_nq by (apply Forall_rev; assumption). exact H.
  - destruct s as [|c r].
    { cbn [p3]. cbn [path_part] in H.
      rewrite <- (app_nil_r (rev racc)), pp_app_nq by (apply Forall_rev; assumption). exact H. }
    simpl in L. destruct (c =? 47) eqn:Ec.
    + apply N.eqb_eq in Ec. subst c. rewrite p3_slash.
      destruct (dd r) eqn:Edd; [|destruct (d1 r) eqn:Ed1].
      * destruct (dd_shape _ Edd) as (r2 & -> & T). cbn [skipn].
        apply IH; [simpl in L; lia|apply pop_nq; assumption|].
        change (path_part (47 :: 46 :: 46 :: r2)) with ([47; 46; 46] ++ path_part r2) in H.
        destruct (pop_form racc) as [E|[seg E]].
        { rewrite E. cbn [rev app]. apply (nds2_app_r (rev racc ++ [47; 46; 46])).
          rewrite <- app_assoc. exact H. }
        rewrite E in H at 1. rewrite rev_app_distr in H. cbn [rev] in H.
        rewrite <- !app_assoc in H. cbn [app] in H.
        apply (nds2_del (rev (pop racc)) (rev seg ++ [47; 46; 46]) (path_part r2)).
        rewrite <- app_assoc. exact H.
      * destruct (d1_shape _ Ed1) as (r1 & -> & T). cbn [skipn].
        apply IH; [simpl in L; lia|assumption|].
        change (path_part (47 :: 46 :: r1)) with (47 :: [46] ++ path_part r1) in H.
        apply (nds2_del (rev racc) [46] (path_part r1)). exact H.
      * apply IH; [lia|constructor; [reflexivity|assumption]|].
        cbn [rev]. rewrite <- app_assoc. exact H.
    + rewrite p3_other by assumption. rewrite pp_cons in H. destruct (is_qf c) eqn:Eq.
      * rewrite p3_true. cbn [rev]. rewrite <- app_assoc. cbn [app].
        rewrite pp_app_nq by (apply Forall_rev; assumption).
        rewrite pp_cons, Eq. exact H.
      * apply IH; [lia|constructor; assumption|]. cbn [rev]. rewrite <- app_assoc. exact H.
Qed.

Theorem p3_preserves_P2 : forall s, P2 s = true -> P2 (p3 false [] s) = true.
Proof. intros s H. apply (p3_preserves_P2_n (length s)); [lia|constructor|exact H]. Qed.

(* ------------------------------------------------------------------ *)
(* the passes keep bytes in 1..255                                     *)

Lemma cp_toupper_nz h : byte_nz h -> byte_nz (c_toupper h).
Proof.
  unfold byte_nz, c_toupper, c_islower. intros [H1 H2].
  destruct ((97 <=? h) && (h <=? 122)) eqn:E; [|lia].
  apply andb_prop in E. destruct E as [E1 E2]. apply N.leb_le in E1. lia.
Qed.

Lemma cp_safe_nz v : safe_char (wrap8 v) = true -> byte_nz (wrap8 v).
Proof.
  intros H. unfold byte_nz. split.
  - destruct (N.eq_dec (wrap8 v) 0) as [E|E]; [rewrite E in H; vm_compute in H; discriminate|lia].
  - unfold wrap8. apply N.mod_lt. lia.
Qed.

Lemma cp_p1_nz_n : forall n s t, (length s <= n)%nat ->
  Forall byte_nz s -> p1 s = Some t -> Forall byte_nz t.
Proof.
  induction n as [|n IH]; intros s t L Z H.
  - destruct s; [|simpl in L; lia]. cbn in H. injection H as <-. constructor.
  - destruct s as [|c r]. { cbn in H. injection H as <-. constructor. }
    inversion Z as [|? ? Zc Zr]; subst.
    cbn [p1] in H. destruct (c =? 37) eqn:Ec.
    + destruct r as [|h1 [|h2 r']]; try discriminate.
      destruct (c_isxdigit h1 && c_isxdigit h2); [|discriminate].
      destruct (p1 r') as [t0|] eqn:Hr; [|discriminate].
      inversion Zr as [|? ? Z1 Zr1]; subst. inversion Zr1 as [|? ? Z2 Zr2]; subst.
      assert (Forall byte_nz t0) as Zt0 by (apply (IH r' t0); [simpl in L; lia|assumption|assumption]).
      destruct (safe_char _) eqn:Es in H; injection H as <-.
      * constructor; [apply cp_safe_nz; assumption|assumption].
      * constructor; [unfold byte_nz; lia|].
        constructor; [apply cp_toupper_nz; assumption|].
        constructor; [apply cp_toupper_nz; assumption|assumption].
    + destruct (p1 r) as [t0|] eqn:Hr; [|discriminate]. injection H as <-.
      constructor; [assumption|]. apply (IH r t0); [simpl in L; lia|assumption|assumption].
Qed.

Lemma cp_p1_nz : forall s t, Forall byte_nz s -> p1 s = Some t -> Forall byte_nz t.
Proof. intros s t. apply (cp_p1_nz_n (length s)). lia. Qed.

Lemma cp_p2_nz : forall s skip prev, Forall byte_nz s -> Forall byte_nz (p2 skip prev s).
Proof.
  induction s as [|c r IH]; intros skip prev Z; [constructor|].
  inversion Z as [|? ? Zc Zr]; subst. cbn [p2].
  destruct ((c =? 47) && negb skip) eqn:E.
  - apply andb_prop in E. destruct E as [Ec _]. apply N.eqb_eq in Ec. subst c.
    destruct prev; [apply IH; assumption|constructor; [assumption|apply IH; assumption]].
  - constructor; [assumption|apply IH; assumption].
Qed.

Lemma cp_pop_nz racc : Forall byte_nz racc -> Forall byte_nz (pop racc).
Proof.
  intros H. destruct (pop_form racc) as [E|[seg E]]; [rewrite E; constructor|].
  rewrite E in H. apply Forall_app in H. destruct H as [_ H]. inversion H; assumption.
Qed.

Lemma cp_p3_nz_n : forall n s racc, (length s <= n)%nat ->
  Forall byte_nz racc -> Forall byte_nz s -> Forall byte_nz (p3 false racc s).
Proof.
  induction n as [|n IH]; intros s racc L Q Z.
  - destruct s; [|simpl in L; lia]. cbn [p3]. apply Forall_rev. assumption.
  - destruct s as [|c r]. { cbn [p3]. apply Forall_rev. assumption. }
    inversion Z as [|? ? Zc Zr]; subst.
    simpl in L. destruct (c =? 47) eqn:Ec.
    + apply N.eqb_eq in Ec. subst c. rewrite p3_slash.
      destruct (dd r) eqn:Edd; [|destruct (d1 r) eqn:Ed1].
      * destruct (dd_shape _ Edd) as (r2 & -> & T). cbn [skipn].
        inversion Zr as [|? ? Z1 Zr1]; subst. inversion Zr1 as [|? ? Z2 Zr2]; subst.
        apply IH; [simpl in L; lia|apply cp_pop_nz; assumption|assumption].
      * destruct (d1_shape _ Ed1) as (r1 & -> & T). cbn [skipn].
        inversion Zr as [|? ? Z1 Zr1]; subst.
        apply IH; [simpl in L; lia|assumption|assumption].
      * apply IH; [lia|constructor; assumption|assumption].
    + rewrite p3_other by assumption. destruct (is_qf c).
      * rewrite p3_true. apply Forall_app. split; [|assumption].
        apply Forall_rev. constructor; assumption.
      * apply IH; [lia|constructor; assumption|assumption].
Qed.

Lemma cp_p3_nz : forall s, Forall byte_nz s -> Forall byte_nz (p3 false [] s).
Proof. intros s Z. apply (cp_p3_nz_n (length s)); [lia|constructor|assumption]. Qed.

Lemma cp_canon_passes_nz : forall s t, Forall byte_nz s -> canon_passes s = Some t -> Forall byte_nz t.
Proof.
  intros s t Z H. unfold canon_passes in H. destruct (p1 s) as [s1|] eqn:E1; [|discriminate].
  injection H as <-. apply cp_p3_nz. apply cp_p2_nz. apply (cp_p1_nz s); assumption.
Qed.

(* ------------------------------------------------------------------ *)
(* composition                                                         *)

Lemma canon_passes_canonical_z : forall s t, canon_passes s = Some t ->
  P1 t = true /\ P2 t = true /\ P3z t = true.
Proof.
  intros s t H. unfold canon_passes in H. destruct (p1 s) as [s1|] eqn:E1; [|discriminate].
  injection H as <-. split; [|split].
  - apply p3_preserves_P1. apply p2_preserves_P1. apply (p1_establishes s). assumption.
  - apply p3_preserves_P2. apply p2_establishes.
  - apply p3_establishes_z.
Qed.

Theorem canon_passes_canonical : forall s t, canon_passes s = Some t ->
  P1 t = true /\ P2 t = true /\ P3 t = true.
Proof.
  intros s t H. destruct (canon_passes_canonical_z s t H) as (H1 & H2 & H3).
  split; [assumption|split; [assumption|apply P3z_P3; assumption]].
Qed.

Theorem canon_passes_idempotent : forall s t, canon_passes s = Some t -> canon_passes t = Some t.
Proof.
  intros s t H. destruct (canon_passes_canonical_z s t H) as (H1 & H2 & H3).
  unfold canon_passes. rewrite (p1_fixpoint _ H1), (p2_fixpoint _ H2).
  rewrite (p3_fixpoint_gen t [] H3). reflexivity.
Qed.

Lemma canon_pure_inv : forall fx s t, canon_pure fx s = Some t ->
  canon_passes s = Some t /\ utf8_validate fx (t ++ [0]) = Some true.
Proof.
  intros fx s t H. unfold canon_pure in H.
  destruct (canon_passes s) as [s3|] eqn:E; [|discriminate].
  destruct (utf8_validate fx (s3 ++ [0])) as [[|]|] eqn:V; try discriminate.
  injection H as <-. split; [reflexivity|assumption].
Qed.

Theorem canon_pure_canonical : forall fx s t, canon_pure fx s = Some t ->
  escapes_canonical t = true /\ no_double_slash (path_part t) = true /\
  no_dot_segments (path_part t) = true.
Proof.
  intros fx s t H. destruct (canon_pure_inv _ _ _ H) as [Hp _].
  destruct (canon_passes_canonical s t Hp) as (H1 & H2 & H3).
  split; [apply P1_escapes_canonical; assumption|split; assumption].
Qed.

Theorem canon_pure_idempotent : forall fx s t, canon_pure fx s = Some t -> canon_pure fx t = Some t.
Proof.
  intros fx s t H. destruct (canon_pure_inv _ _ _ H) as [Hp Hv].
  unfold canon_pure. rewrite (canon_passes_idempotent s t Hp), Hv. reflexivity.
Qed.

Theorem canon_pure_utf8 : forall s t, Forall byte_nz s -> canon_pure true s = Some t -> wf_utf8 t.
Proof.
  intros s t Z H. destruct (canon_pure_inv _ _ _ H) as [Hp Hv].
  apply (utf8_validate_fixed_iff_wf t []); [|exact Hv].
  apply (cp_canon_passes_nz s); assumption.
Qed.

(* the hypotheses are satisfiable: "/a/./b/../%7e%2f//c?x//y" *)
Example canon_pure_nonvacuous :
  canon_pure true [47;97;47;46;47;98;47;46;46;47;37;55;101;37;50;102;47;47;99;63;120;47;47;121]
  = Some [47;97;47;126;37;50;70;47;99;63;120;47;47;121].
Proof. vm_compute. reflexivity. Qed.
