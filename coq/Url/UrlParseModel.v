(* UrlParseModel: executable model of nng_url_parse / nni_url_parse_inline_inner,
   nni_url_default_port, nni_get_port_by_name (numeric part; the service
   data base is an oracle), nng_url_sprintf and nng_url_clone /
   nni_url_clone_inline of src/core/url.c.  Definitions only.

   The URL's storage (u_static[128] or the nni_strdup'ed block) is a byte
   list [u_buf]; the component pointers are offsets into it (None = NULL).
   Every access is checked: out of the allocation = [UOob].

   Three known defects of the pinned tree are kept, each behind a flag
   (false = as pinned, true = repaired):
     fx_scheme : the scheme is looked up with strncmp(s, table[i], len), i.e.
                 the text before "://" only has to be a *prefix* of an entry;
     fx_utf8   : url_utf8_validate accumulates the wrong byte (Utf8Model);
     fx_clone  : nni_url_clone_inline allocates dst->u_bufsz (0) bytes;
     fx_clone_null : nni_url_clone_inline rebases u_hostname without testing it
                 for NULL (it is NULL for ipc/inproc/unix/abstract/socket URLs):
                 the clone's u_hostname is a wild pointer;
     fx_bracket : inside "[" ... "]" any byte is accepted, in particular a second
                 '[' ("tcp://[[x]" gives the host "[x", which nng_url_sprintf prints
                 as "tcp://[x:0", which is rejected): repaired = a '[' inside the
                 brackets is NNG_EINVAL.
   Allocation failure itself (nni_strdup unchecked) belongs to C20 and is
   not represented here. *)
From Coq Require Import List Arith Lia Bool NArith.
From NngV Require Import Base.ListX Url.Utf8Model Url.CanonModel.
Import ListNotations.

Record uflags := mkUflags { fx_scheme : bool; fx_utf8 : bool; fx_clone : bool; fx_clone_null : bool; fx_bracket : bool }.
Definition fx_pinned : uflags := mkUflags false false false false false.
Definition fx_repaired : uflags := mkUflags true true true true true.

(* the tables, as byte strings (ASCII codes); tied to the generated ones by
   url_consts_match in Props/Properties_C19.v *)
Local Open Scope N_scope.
Definition STATIC_SZ : nat := 128.     (* sizeof(url->u_static) *)
Definition HOST_MAX : nat := 256.

Definition schemes : list (list N) :=
  [ [104; 116; 116; 112];
    [104; 116; 116; 112; 115];
    [116; 99; 112];
    [116; 99; 112; 52];
    [116; 99; 112; 54];
    [116; 108; 115; 43; 116; 99; 112];
    [116; 108; 115; 43; 116; 99; 112; 52];
    [116; 108; 115; 43; 116; 99; 112; 54];
    [115; 111; 99; 107; 101; 116];
    [105; 110; 112; 114; 111; 99];
    [105; 112; 99];
    [117; 110; 105; 120];
    [97; 98; 115; 116; 114; 97; 99; 116];
    [119; 115];
    [119; 115; 52];
    [119; 115; 54];
    [119; 115; 115];
    [119; 115; 115; 52];
    [119; 115; 115; 54];
    [117; 100; 112];
    [117; 100; 112; 52];
    [117; 100; 112; 54];
    [100; 116; 108; 115];
    [100; 116; 108; 115; 52];
    [100; 116; 108; 115; 54];
    [102; 105; 108; 101];
    [109; 97; 105; 108; 116; 111];
    [103; 111; 112; 104; 101; 114];
    [102; 116; 112];
    [115; 115; 104];
    [103; 105; 116];
    [116; 101; 108; 110; 101; 116];
    [105; 114; 99];
    [105; 109; 97; 112];
    [105; 109; 97; 112; 115] ].
(* = http https tcp tcp4 tcp6 tls+tcp tls+tcp4 tls+tcp6 socket inproc ipc unix abstract ws ws4 ws6 wss wss4 wss6 udp udp4 udp6 dtls dtls4 dtls6 file mailto gopher ftp ssh git telnet irc imap imaps *)

Definition default_ports : list (list N * N) :=
  [ ([103; 105; 116], 9418);
    ([103; 111; 112; 104; 101; 114], 70);
    ([104; 116; 116; 112], 80);
    ([104; 116; 116; 112; 115], 443);
    ([115; 115; 104], 22);
    ([116; 101; 108; 110; 101; 116], 23);
    ([119; 115], 80);
    ([119; 115; 52], 80);
    ([119; 115; 54], 80);
    ([119; 115; 115], 443);
    ([119; 115; 115; 52], 443);
    ([119; 115; 115; 54], 443) ].
(* = git:9418 gopher:70 http:80 https:443 ssh:22 telnet:23 ws:80 ws4:80 ws6:80 wss:443 wss4:443 wss6:443 *)

Definition path_only_schemes : list (list N) :=
  [ [105; 112; 99]; [117; 110; 105; 120]; [97; 98; 115; 116; 114; 97; 99; 116]; [105; 110; 112; 114; 111; 99]; [115; 111; 99; 107; 101; 116] ].
(* = ipc unix abstract inproc socket *)
Local Close Scope N_scope.

(* ---------------------------------------------------------------- results *)
Inductive ures (A : Type) : Type :=
| UOob                 (* out-of-bounds access / NULL dereference: must never happen *)
| UErr (rv : N)        (* the function returns this error code *)
| UVal (a : A).
Arguments UOob {A}. Arguments UErr {A} rv. Arguments UVal {A} a.

Definition ubind {A B} (r : ures A) (k : A -> ures B) : ures B :=
  match r with UOob => UOob | UErr rv => UErr rv | UVal a => k a end.
Definition ulift {A} (o : option A) : ures A := match o with None => UOob | Some a => UVal a end.
Notation "x <~ e ;; k" := (ubind e (fun x => k)) (at level 60, e at next level, right associativity).
Notation "x <~! e ;; k" := (ubind (ulift e) (fun x => k)) (at level 60, e at next level, right associativity).

Local Open Scope N_scope.

(* ---------------------------------------------------------------- C strings *)
Definition bytes_eq (a b : list N) : bool :=
  (length a =? length b)%nat && forallb (fun p => fst p =? snd p) (combine a b).

(* first index k of [l] with stop l[k]; None = ran off the end *)
Fixpoint c_find_idx (stop : N -> bool) (l : list N) : option nat :=
  match l with
  | [] => None
  | c :: r => if stop c then Some O else option_map S (c_find_idx stop r)
  end.
(* for (i = from; !stop(b[i]); i++) ;   -- reads b[from], b[from+1], ... *)
Definition c_scan (stop : N -> bool) (b : list N) (from : nat) : option nat :=
  option_map (Nat.add from) (c_find_idx stop (skipn from b)).

Definition c_is0 (c : N) : bool := c =? 0.
Definition c_strlen (b : list N) (from : nat) : option nat :=
  option_map (fun j => (j - from)%nat) (c_scan c_is0 b from).
(* c_strchr(b + from, ch) for ch <> 0: Some (Some j) = found at j, Some None = NULL *)
Definition c_strchr (b : list N) (from : nat) (ch : N) : option (option nat) :=
  j <- c_scan (fun c => (c =? ch) || (c =? 0)) b from ;;
  c <- brd b j ;;
  Some (if c =? ch then Some j else None).
(* the NUL-terminated string at an offset *)
Definition cstr_at (b : list N) (off : nat) : option (list N) :=
  n <- c_strlen b off ;; sub b off n.

(* ---------------------------------------------------------------- scheme *)
(* strncmp(a, t, n) == 0 where [a] = the first n bytes of the input (they
   contain neither NUL nor ':') and [t] a table entry (NUL = end of list) *)
Fixpoint strncmp_eq (a t : list N) (n : nat) : bool :=
  match n with
  | O => true
  | S k => match a, t with
           | x :: a', y :: t' => (x =? y) && strncmp_eq a' t' k
           | [], [] => true
           | _, _ => false
           end
  end.

Definition scheme_match (exact : bool) (pre t : list N) : bool :=
  strncmp_eq pre t (length pre) && (if exact then (length t =? length pre)%nat else true).

Definition find_scheme (exact : bool) (pre : list N) : option (list N) :=
  find (scheme_match exact pre) schemes.

Definition is_path_only (sch : list N) : bool := existsb (bytes_eq sch) path_only_schemes.

(* nni_url_default_port *)
Fixpoint default_port_in (tbl : list (list N * N)) (scheme : list N) : N :=
  match tbl with
  | [] => 0
  | (s, port) :: r =>
      if strncmp_eq s scheme (length s) then
        match skipn (length s) scheme with
        | [] => port
        | [c] => if (c =? 52) || (c =? 54) then port else default_port_in r scheme
        | _ => default_port_in r scheme
        end
      else default_port_in r scheme
  end.
Definition default_port (scheme : list N) : N := default_port_in default_ports scheme.

(* ---------------------------------------------------------------- port *)
Fixpoint c_dropwhile (f : N -> bool) (l : list N) : list N :=
  match l with [] => [] | c :: r => if f c then c_dropwhile f r else l end.
Fixpoint c_takewhile (f : N -> bool) (l : list N) : list N :=
  match l with [] => [] | c :: r => if f c then c :: c_takewhile f r else [] end.
Definition dec_value (digs : list N) : N := fold_left (fun acc d => acc * 10 + (d - 48)) digs 0.

(* nni_get_port_by_name(name): strtol(name, &end, 10) then
   [end points at the NUL and 0 <= port <= 0xffff], else getservbyname (the oracle).
   strtol: leading c_isspace, optional sign, digits; no digits => end = name.
   (strtol saturates at LONG_MAX/LONG_MIN; every saturated value is outside
   0..65535 like the exact one, so the exact value is used.) *)
Definition get_port (resolver : list N -> option N) (name : list N) : option N :=
  let s1 := c_dropwhile c_isspace name in
  let '(neg, s2) := match s1 with
                    | 45 :: r => (true, r)
                    | 43 :: r => (false, r)
                    | _ => (false, s1)
                    end in
  let digs := c_takewhile c_isdigit s2 in
  let rest := c_dropwhile c_isdigit s2 in
  let numeric : option N :=
      match digs with
      | [] => match name with [] => Some 0 | _ => None end
      | _ => match rest with
             | [] => let v := dec_value digs in
                     if neg then (if v =? 0 then Some 0 else None)
                     else (if v <=? 65535 then Some v else None)
             | _ => None
             end
      end in
  match numeric with
  | Some v => Some v
  | None => resolver name
  end.

(* ---------------------------------------------------------------- the URL *)
Record nurl := mkNurl {
  u_scheme : list N;            (* points into the scheme table *)
  u_userinfo : option nat;      (* offsets into u_buf; None = NULL *)
  u_hostname : option nat;
  u_port : N;
  u_path : nat;
  u_query : option nat;
  u_fragment : option nat;
  u_buf : list N;               (* the memory at u_buffer *)
  u_bufsz : nat                 (* 0 = u_buffer is u_static *)
}.

Definition uzeros (n : nat) : list N := repeat 0 n.

(* phase 1: scheme c_scan, "://", table lookup.  Returns (table entry, len). *)
Definition parse_scheme (exact : bool) (raw : list N) : ures (list N * nat) :=
  len <~! c_scan (fun c => (c =? 58) || (c =? 0)) raw 0 ;;
  m <~! strncmp_lit raw len [58; 47; 47] ;;
  if negb m then UErr NNG_EINVAL else
  pre <~! sub raw 0 len ;;
  match find_scheme exact pre with
  | None => UErr NNG_ENOTSUP
  | Some sch => UVal (sch, len)
  end.

(* phase 2: copy everything from "://" on into u_static or a heap block *)
Definition parse_buffer (raw : list N) (len : nat) : ures (list N * nat) :=
  slen <~! c_strlen raw len ;;
  d <~! sub raw len (slen + 1) ;;
  if (STATIC_SZ <=? slen)%nat then UVal (d, (slen + 1)%nat)
  else UVal (d ++ uzeros (STATIC_SZ - (slen + 1)), O).

(* phase 3: find the end of the authority, move it to the start of the buffer.
   Returns the buffer and p (= u_path). *)
Definition parse_authority (buf : list N) : ures (list N * nat) :=
  p <~! c_scan (fun c => (c =? 0) || (c =? 47) || (c =? 35) || (c =? 63)) buf 3 ;;
  c <~! brd buf p ;;
  b1 <~! bwr buf p 0 ;;
  n <~! c_strlen b1 3 ;;
  d <~! sub b1 3 (n + 1) ;;
  b2 <~! blit b1 0 d ;;             (* memmove(u_buffer, s, c_strlen(s) + 1) *)
  b3 <~! bwr b2 p c ;;
  UVal (b3, p).

(* phase 4: userinfo.  Returns buffer, u_userinfo, u_hostname *)
Definition parse_userinfo (b : list N) : ures (list N * option nat * nat) :=
  at1 <~! c_strchr b 0 64 ;;
  match at1 with
  | None => UVal (b, None, O)
  | Some a =>
      b1 <~! bwr b a 0 ;;
      at2 <~! c_strchr b1 (a + 1) 64 ;;
      match at2 with
      | Some _ => UErr NNG_EINVAL
      | None => UVal (b1, Some O, (a + 1)%nat)
      end
  end.

(* phase 5: for (i = 0; host[i]; i++) host[i] = c_tolower(host[i]) *)
Definition lower_host (b : list N) (h : nat) : ures (list N) :=
  n <~! c_strlen b h ;;
  d <~! sub b h n ;;
  b' <~! blit b h (map c_tolower d) ;;
  UVal b'.

(* phase 6: nni_url_canonify_uri(p) -- the memory from p on *)
Definition canon_at (utf8_fixed : bool) (b : list N) (p : nat) : ures (list N) :=
  if (length b <? p)%nat then UOob else
  r <~! canonify utf8_fixed (skipn p b) ;;
  let '(rv, area) := r in
  if negb (rv =? 0) then UErr rv else UVal (firstn p b ++ area).

(* phase 7: query and fragment.  Returns buffer, u_query, u_fragment *)
Definition parse_qf (b : list N) (p : nat) : ures (list N * option nat * option nat) :=
  p1 <~! c_scan (fun c => (c =? 0) || (c =? 63) || (c =? 35)) b p ;;
  c <~! brd b p1 ;;
  if c =? 63 then
    b1 <~! bwr b p1 0 ;;
    let q := S p1 in
    p2 <~! c_scan (fun c => (c =? 0) || (c =? 35)) b1 q ;;
    c2 <~! brd b1 p2 ;;
    if c2 =? 35 then (b2 <~! bwr b1 p2 0 ;; UVal (b2, Some q, Some (S p2)))
    else UVal (b1, Some q, None)
  else if c =? 35 then
    b1 <~! bwr b p1 0 ;; UVal (b1, None, Some (S p1))
  else UVal (b, None, None).

(* phase 8: IPv6 brackets, port.  Returns buffer, u_hostname, u_port *)
Definition stop_bracket (brk_fixed : bool) (c : N) : bool := (c =? 93) || (c =? 0) || (brk_fixed && (c =? 91)).

Definition parse_hostport (brk_fixed : bool) (resolver : list N -> option N) (sch : list N) (b : list N) (h : nat)
  : ures (list N * nat * N) :=
  c0 <~! brd b h ;;
  st <~ (if c0 =? 91 then
           j <~! c_scan (stop_bracket brk_fixed) b (S h) ;;
           cj <~! brd b j ;;
           if (cj =? 0) || (brk_fixed && (cj =? 91)) then UErr NNG_EINVAL else
           b1 <~! bwr b j 0 ;;
           c' <~! brd b1 (S j) ;;
           if negb (c' =? 58) && negb (c' =? 0) then UErr NNG_EINVAL
           else UVal (b1, S h, S j)
         else
           j <~! c_scan (fun c => (c =? 58) || (c =? 0)) b h ;;
           UVal (b, h, j)) ;;
  let '(b1, h', p) := st in
  c <~! brd b1 p ;;
  st2 <~ (if c =? 58 then (b2 <~! bwr b1 p 0 ;; UVal (b2, S p)) else UVal (b1, p)) ;;
  let '(b2, p2) := st2 in
  hl <~! c_strlen b2 h' ;;
  if (HOST_MAX <=? hl)%nat then UErr NNG_EINVAL else
  if c =? 58 then
    c1 <~! brd b2 p2 ;;
    if c1 =? 0 then UErr NNG_EINVAL else
    name <~! cstr_at b2 p2 ;;
    match get_port resolver name with
    | None => UErr NNG_EINVAL
    | Some port => UVal (b2, h', port)
    end
  else UVal (b2, h', default_port sch).

(* nni_url_parse_inline_inner on a zeroed nng_url; [raw] is the memory at the
   argument pointer (the string, its NUL, and whatever follows) *)
Definition url_parse (fx : uflags) (resolver : list N -> option N) (raw : list N) : ures nurl :=
  sl <~ parse_scheme (fx_scheme fx) raw ;;
  let '(sch, len) := sl in
  bb <~ parse_buffer raw len ;;
  let '(buf, bufsz) := bb in
  if is_path_only sch then UVal (mkNurl sch None None 0 3 None None buf bufsz) else
  ap <~ parse_authority buf ;;
  let '(b3, p) := ap in
  ui <~ parse_userinfo b3 ;;
  let '(b4, userinfo, h) := ui in
  b5 <~ lower_host b4 h ;;
  b6 <~ canon_at (fx_utf8 fx) b5 p ;;
  qf <~ parse_qf b6 p ;;
  let '(b7, query, fragment) := qf in
  hp <~ parse_hostport (fx_bracket fx) resolver sch b7 h ;;
  let '(b8, h', port) := hp in
  UVal (mkNurl sch userinfo (Some h') port p query fragment b8 bufsz).

(* ---------------------------------------------------------------- accessors *)
Definition opt_cstr (b : list N) (o : option nat) : option (option (list N)) :=
  match o with None => Some None | Some off => s <- cstr_at b off ;; Some (Some s) end.

(* what the accessor functions return: scheme, userinfo, hostname, port, path, query, fragment *)
Record uview := mkUview {
  v_scheme : list N; v_userinfo : option (list N); v_hostname : option (list N); v_port : N;
  v_path : list N; v_query : option (list N); v_fragment : option (list N) }.

Definition url_view (u : nurl) : option uview :=
  ui <- opt_cstr (u_buf u) (u_userinfo u) ;;
  h <- opt_cstr (u_buf u) (u_hostname u) ;;
  p <- cstr_at (u_buf u) (u_path u) ;;
  q <- opt_cstr (u_buf u) (u_query u) ;;
  f <- opt_cstr (u_buf u) (u_fragment u) ;;
  Some (mkUview (u_scheme u) ui h (u_port u) p q f).

(* ---------------------------------------------------------------- sprintf *)
Fixpoint dec_digits (fuel : nat) (v : N) (acc : list N) : list N :=
  match fuel with
  | O => acc
  | S f => let acc' := (48 + v mod 10) :: acc in
           if v / 10 =? 0 then acc' else dec_digits f (v / 10) acc'
  end.
Definition dec_string (v : N) : list N := dec_digits 20 v [].

(* the string nng_url_sprintf produces (its return value is the length) *)
Definition url_sprintf (u : nurl) : option (list N) :=
  path <- cstr_at (u_buf u) (u_path u) ;;
  if is_path_only (u_scheme u) then Some (u_scheme u ++ [58; 47; 47] ++ path) else
  hoff <- u_hostname u ;;
  host <- cstr_at (u_buf u) hoff ;;
  let do_port := negb (negb (u_port u =? 0) && (u_port u =? default_port (u_scheme u))) in
  let br := existsb (fun c => c =? 58) host in
  (* char portstr[8]; snprintf(portstr, 8, ":%u", port) *)
  let portstr := if do_port then firstn 7 (58 :: dec_string (u_port u)) else [] in
  q <- opt_cstr (u_buf u) (u_query u) ;;
  f <- opt_cstr (u_buf u) (u_fragment u) ;;
  Some (u_scheme u ++ [58; 47; 47] ++ (if br then [91] else []) ++ host ++ (if br then [93] else [])
        ++ portstr ++ path
        ++ match q with Some s => 63 :: s | None => [] end
        ++ match f with Some s => 35 :: s | None => [] end).

(* ---------------------------------------------------------------- clone *)
(* dst->u_hostname = dst->u_buffer + (src->u_hostname - src->u_buffer) with
   src->u_hostname == NULL: an address unrelated to the new block.  It is
   represented by an offset outside the allocation, so that every access
   through it is Oob. *)
Definition wild_offset (buf : list N) : nat := S (length buf).
Definition is_wild (buf : list N) (o : option nat) : bool :=
  match o with Some off => (length buf <? off)%nat | None => false end.

Definition clone_host (null_fixed : bool) (nb : list N) (h : option nat) : option nat :=
  match h with
  | Some off => Some off
  | None => if null_fixed then None else Some (wild_offset nb)
  end.

(* nng_url_clone: dst is a zeroed struct; returns (rv, clone).  The C returns
   (rv = (clone_inline(...) != NNG_OK)), i.e. 1 on any failure. *)
Definition url_clone (fixed null_fixed : bool) (s : nurl) : ures (N * option nurl) :=
  if negb (u_bufsz s =? 0)%nat then
    let allocsz := if fixed then u_bufsz s else O (* dst->u_bufsz of the zeroed dst *) in
    if (allocsz =? 0)%nat then UVal (1, None)       (* nni_alloc(0) == NULL *)
    else
      d <~! sub (u_buf s) 0 (u_bufsz s) ;;
      nb <~! blit (uzeros allocsz) 0 d ;;          (* memcpy(dst->u_buffer, src->u_buffer, src->u_bufsz) *)
      UVal (0, Some (mkNurl (u_scheme s) (u_userinfo s) (clone_host null_fixed nb (u_hostname s)) (u_port s)
                            (u_path s) (u_query s) (u_fragment s) nb (u_bufsz s)))
  else
    d <~! sub (u_buf s) 0 STATIC_SZ ;;
    nb <~! blit (uzeros STATIC_SZ) 0 d ;;          (* memcpy(dst->u_static, src->u_static, 128) *)
    UVal (0, Some (mkNurl (u_scheme s) (u_userinfo s) (clone_host null_fixed nb (u_hostname s)) (u_port s)
                          (u_path s) (u_query s) (u_fragment s) nb O)).
