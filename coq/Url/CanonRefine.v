(* CanonRefine: the in-place passes of CanonModel.v (checked reads/writes on
   a NUL-terminated buffer, explicit src/dst indices, fuel) compute exactly
   the pure passes of CanonPure.v on the text held in the buffer; they never
   leave the buffer and never run out of fuel.  Lemmas only; closed under the global context.

   Method: the loop state is described by [St b src dst acc R]:
     firstn dst b = acc   (the output written so far),
     skipn src b  = R     (the unread input, its NUL and the tail),
     dst <= src.
   A write at an index < src changes neither [skipn src b] nor the bytes at
   indices other than the written one, and appends to [firstn dst b]. *)
From Coq Require Import List Arith Lia Bool NArith.
From NngV Require Import Url.Utf8Model Url.Utf8Proofs Url.CanonModel Url.CanonPure.
Import ListNotations.
Local Open Scope N_scope.

(* ------------------------------------------------------------------ *)
(* list helpers                                                        *)

Lemma nth_error_skipn_cr {A} (l : list A) n k :
  nth_error (skipn n l) k = nth_error l (n + k).
Proof.
  revert l; induction n as [|n IH]; intros l; [reflexivity|].
  destruct l as [|x l]; [destruct k; reflexivity|]. simpl. apply IH.
Qed.

Lemma nth_error_firstn_cr {A} (l : list A) n k :
  (k < n)%nat -> nth_error (firstn n l) k = nth_error l k.
Proof.
  revert l k; induction n as [|n IH]; intros l k H; [lia|].
  destruct l as [|x l]; [reflexivity|]. destruct k as [|k]; [reflexivity|].
  simpl. apply IH. lia.
Qed.

Lemma skipn_S_tl_cr {A} (l : list A) n x R : skipn n l = x :: R -> skipn (S n) l = R.
Proof.
  revert l; induction n as [|n IH]; intros l H.
  - simpl in H. subst l. reflexivity.
  - destruct l as [|y l]; [discriminate|]. simpl in H. simpl. apply IH. exact H.
Qed.

Lemma skipn_add_cr {A} (l : list A) n k : skipn (n + k) l = skipn k (skipn n l).
Proof.
  revert l; induction n as [|n IH]; intros l; [reflexivity|].
  destruct l as [|x l]; [simpl; now rewrite skipn_nil|]. simpl. apply IH.
Qed.

Lemma skipn_len_cr {A} (l : list A) n R : skipn n l = R -> (length R <= length l)%nat.
Proof. intros <-. rewrite skipn_length. lia. Qed.

Lemma firstn_prefix_cr {A} (b : list A) n p q :
  firstn n b = p ++ q -> (length p <= n)%nat -> firstn (length p) b = p.
Proof.
  intros H Hle.
  assert (E : firstn (length p) b = firstn (length p) (firstn n b)).
  { rewrite firstn_firstn. f_equal. lia. }
  rewrite E, H, firstn_app, Nat.sub_diag. cbn [firstn]. rewrite app_nil_r.
  apply firstn_all.
Qed.

Lemma nz_R (r : list N) tail : r ++ 0 :: tail <> [].
Proof. destruct r; discriminate. Qed.

(* ------------------------------------------------------------------ *)
(* checked reads and writes                                            *)

Lemma bwr_spec b i c : (i < length b)%nat ->
  exists b', bwr b i c = Some b' /\ length b' = length b /\
    firstn (S i) b' = firstn i b ++ [c] /\
    (forall n, (i < n)%nat -> skipn n b' = skipn n b) /\
    brd b' i = Some c /\
    (forall j, j <> i -> brd b' j = brd b j).
Proof.
  intros Hi. unfold bwr. destruct (i <? length b)%nat eqn:E; [|apply Nat.ltb_ge in E; lia].
  eexists; split; [reflexivity|].
  assert (L1 : length (firstn i b) = i) by (rewrite firstn_length; lia).
  assert (L2 : length (firstn i b ++ [c]) = S i) by (rewrite app_length, L1; simpl; lia).
  assert (EQ : firstn i b ++ c :: skipn (S i) b = (firstn i b ++ [c]) ++ skipn (S i) b)
    by (rewrite <- app_assoc; reflexivity).
  split; [|split; [|split; [|split]]].
  - rewrite app_length, L1. cbn [length]. rewrite skipn_length. lia.
  - rewrite EQ. rewrite firstn_app, L2, Nat.sub_diag. simpl (firstn 0 _).
    rewrite app_nil_r. apply firstn_all2. lia.
  - intros n Hn. rewrite EQ. rewrite skipn_app, L2. rewrite skipn_all2 by lia. simpl app.
    replace n with (S i + (n - S i))%nat at 2 by lia. rewrite skipn_add_cr. reflexivity.
  - unfold brd. rewrite nth_error_app2 by lia. rewrite L1, Nat.sub_diag. reflexivity.
  - intros j Hj. unfold brd. destruct (Nat.lt_ge_cases j i).
    + rewrite nth_error_app1 by lia. apply nth_error_firstn_cr; lia.
    + rewrite EQ. rewrite nth_error_app2 by lia. rewrite L2. rewrite nth_error_skipn_cr.
      f_equal. lia.
Qed.

(* ------------------------------------------------------------------ *)
(* the loop state                                                      *)

Definition St (b : list N) (src dst : nat) (acc R : list N) : Prop :=
  firstn dst b = acc /\ length acc = dst /\ (dst <= src)%nat /\ skipn src b = R.

Lemma St_read k b src dst acc R : St b src dst acc R -> brd b (src + k) = nth_error R k.
Proof. intros (_ & _ & _ & H). unfold brd. rewrite <- H. symmetry. apply nth_error_skipn_cr. Qed.

Lemma St_read0 b src dst acc R : St b src dst acc R -> brd b src = nth_error R 0.
Proof. intros H. rewrite <- (St_read 0 _ _ _ _ _ H). f_equal. lia. Qed.

Lemma St_adv k b src dst acc R : St b src dst acc R -> St b (src + k) dst acc (skipn k R).
Proof.
  intros (H1 & H2 & H3 & H4). repeat split; try assumption; try lia.
  rewrite skipn_add_cr. rewrite H4. reflexivity.
Qed.

Lemma St_src_lt b src dst acc R : St b src dst acc R -> R <> [] -> (src < length b)%nat.
Proof.
  intros (_ & _ & _ & H) HR. destruct (Nat.lt_ge_cases src (length b)); [assumption|].
  rewrite skipn_all2 in H by lia. congruence.
Qed.

Lemma St_write c b src dst acc R :
  St b src dst acc R -> (dst < src)%nat -> R <> [] ->
  exists b', bwr b dst c = Some b' /\ length b' = length b /\
             St b' src (dst + 1) (acc ++ [c]) R /\
             brd b' dst = Some c /\
             (forall j, j <> dst -> brd b' j = brd b j).
Proof.
  intros HS Hlt HR. pose proof (St_src_lt _ _ _ _ _ HS HR) as Hsl.
  destruct HS as (H1 & H2 & H3 & H4).
  destruct (bwr_spec b dst c) as (b' & Hw & Hlen & Hf & Hs & Hd & Hp); [lia|].
  exists b'. split; [exact Hw|]. split; [exact Hlen|]. split; [|split; assumption].
  repeat split.
  - rewrite Nat.add_1_r, Hf, H1. reflexivity.
  - rewrite app_length, H2. reflexivity.
  - lia.
  - rewrite Hs by lia. exact H4.
Qed.

(* out[dst] = 0 at the end of a pass *)
Lemma St_finish b src dst acc R :
  St b src dst acc R -> R <> [] ->
  exists tail', bwr b dst 0 = Some (acc ++ 0 :: tail') /\
                length (acc ++ 0 :: tail') = length b.
Proof.
  intros HS HR. pose proof (St_src_lt _ _ _ _ _ HS HR) as Hsl.
  destruct HS as (H1 & H2 & H3 & H4).
  destruct (bwr_spec b dst 0) as (b' & Hw & Hlen & Hf & _); [lia|].
  assert (E : b' = acc ++ 0 :: skipn (S dst) b').
  { rewrite <- (firstn_skipn (S dst) b') at 1. rewrite Hf, H1, <- app_assoc. reflexivity. }
  exists (skipn (S dst) b'). rewrite <- E. split; assumption.
Qed.

(* ------------------------------------------------------------------ *)
(* pass 1                                                              *)

Lemma nz_eqb0 c : byte_nz c -> (c =? 0) = false.
Proof. intros [H _]. apply N.eqb_neq. lia. Qed.

Lemma isx0 : c_isxdigit 0 = false.
Proof. reflexivity. Qed.

Lemma pass1_gen : forall fuel rest b src dst acc tail,
  St b src dst acc (rest ++ 0 :: tail) -> Forall byte_nz rest -> (length rest < fuel)%nat ->
  match p1 rest with
  | Some t => exists tail', pass1 fuel b src dst = Some (Some (acc ++ t ++ 0 :: tail')) /\
                            length (acc ++ t ++ 0 :: tail') = length b
  | None => pass1 fuel b src dst = Some None
  end.
Proof.
  induction fuel as [|f IH]; intros rest b src dst acc tail HS HF HL; [lia|].
  destruct rest as [|c r].
  - cbn [p1 pass1]. rewrite (St_read0 _ _ _ _ _ HS). cbn [nth_error app].
    rewrite N.eqb_refl.
    destruct (St_finish _ _ _ _ _ HS (nz_R [] tail)) as (tail' & Hw & Hlen).
    rewrite Hw. exists tail'. split; [reflexivity|exact Hlen].
  - inversion HF as [|? ? Hc HF']; subst.
    cbn [pass1]. rewrite (St_read0 _ _ _ _ _ HS). cbn [nth_error app].
    rewrite (nz_eqb0 _ Hc). cbn [p1].
    destruct (c =? 37) eqn:E37.
    + (* an escape *)
      rewrite (St_read 1 _ _ _ _ _ HS).
      destruct r as [|h1 r]; cbn [nth_error app].
      { rewrite isx0. reflexivity. }
      destruct (c_isxdigit h1) eqn:X1; cbn [negb andb].
      2:{ destruct r as [|h2 r]; reflexivity. }
      rewrite (St_read 2 _ _ _ _ _ HS).
      destruct r as [|h2 r]; cbn [nth_error app].
      { rewrite isx0. reflexivity. }
      destruct (c_isxdigit h2) eqn:X2; cbn [negb].
      2:{ reflexivity. }
      cbv zeta.
      set (v := wrap8 (wrap8 (url_hex_val h1 * 16) + url_hex_val h2)).
      assert (HS3 : St b (src + 3) dst acc (r ++ 0 :: tail)) by exact (St_adv 3 _ _ _ _ _ HS).
      inversion HF' as [|? ? Hh1 HF'']; subst. inversion HF'' as [|? ? Hh2 HF3]; subst.
      cbn [length] in HL.
      destruct (safe_char v) eqn:SV.
      * destruct (St_write v _ _ _ _ _ HS3) as (b1 & Hw1 & Hl1 & HS1 & _ & _);
          [destruct HS as (_ & _ & ? & _); lia | apply nz_R |].
        rewrite Hw1.
        pose proof (IH r b1 (src + 3)%nat (dst + 1)%nat (acc ++ [v]) tail HS1 HF3 ltac:(lia)) as H.
        destruct (p1 r) as [t|]; [|exact H].
        destruct H as (tail' & Hp & Hlen). exists tail'.
        rewrite <- app_assoc in Hp, Hlen. cbn [app] in Hp, Hlen |- *.
        split; [exact Hp|]. rewrite Hlen. exact Hl1.
      * destruct (St_write 37 _ _ _ _ _ HS3) as (b1 & Hw1 & Hl1 & HS1 & _ & Hp1);
          [destruct HS as (_ & _ & ? & _); lia | apply nz_R |].
        rewrite Hw1.
        assert (Hds : (dst <= src)%nat) by (destruct HS as (_ & _ & ? & _); assumption).
        rewrite Hp1 by lia. rewrite (St_read 1 _ _ _ _ _ HS). cbn [nth_error app].
        destruct (St_write (c_toupper h1) _ _ _ _ _ HS1) as (b2 & Hw2 & Hl2 & HS2 & _ & Hp2);
          [lia | apply nz_R |].
        rewrite Hw2.
        rewrite Hp2 by lia. rewrite Hp1 by lia. rewrite (St_read 2 _ _ _ _ _ HS). cbn [nth_error app].
        replace (dst + 1 + 1)%nat with (dst + 2)%nat in HS2 by lia.
        destruct (St_write (c_toupper h2) _ _ _ _ _ HS2) as (b3 & Hw3 & Hl3 & HS3' & _ & _);
          [lia | apply nz_R |].
        rewrite Hw3.
        replace (dst + 2 + 1)%nat with (dst + 3)%nat in HS3' by lia.
        pose proof (IH r b3 (src + 3)%nat (dst + 3)%nat _ tail HS3' HF3 ltac:(lia)) as H.
        destruct (p1 r) as [t|]; [|exact H].
        destruct H as (tail' & Hp & Hlen). exists tail'.
        rewrite <- !app_assoc in Hp, Hlen. cbn [app] in Hp, Hlen |- *.
        split; [exact Hp|]. rewrite Hlen. lia.
    + (* an ordinary byte *)
      assert (HS1 : St b (src + 1) dst acc (r ++ 0 :: tail)) by exact (St_adv 1 _ _ _ _ _ HS).
      cbn [length] in HL.
      destruct (St_write c _ _ _ _ _ HS1) as (b1 & Hw1 & Hl1 & HS1' & _ & _);
        [destruct HS as (_ & _ & ? & _); lia | apply nz_R |].
      rewrite Hw1.
      pose proof (IH r b1 (src + 1)%nat (dst + 1)%nat (acc ++ [c]) tail HS1' HF' ltac:(lia)) as H.
      destruct (p1 r) as [t|]; [|exact H].
      destruct H as (tail' & Hp & Hlen). exists tail'.
      rewrite <- app_assoc in Hp, Hlen. cbn [app] in Hp, Hlen |- *.
      split; [exact Hp|]. rewrite Hlen. exact Hl1.
Qed.

Lemma St_init s tail : St (s ++ 0 :: tail) 0 0 [] (s ++ 0 :: tail).
Proof. unfold St. split; [reflexivity|]. split; [reflexivity|]. split; [lia|reflexivity]. Qed.

Theorem pass1_refines : forall s tail, Forall byte_nz s ->
  let b := s ++ 0 :: tail in
  match p1 s with
  | Some t => exists tail', pass1 (S (length b)) b 0 0 = Some (Some (t ++ 0 :: tail')) /\
                            length (t ++ 0 :: tail') = length b
  | None => pass1 (S (length b)) b 0 0 = Some None
  end.
Proof.
  intros s tail HF b.
  assert (HL : (length s < S (length b))%nat).
  { unfold b. rewrite app_length. lia. }
  exact (pass1_gen (S (length b)) s b 0 0 [] tail (St_init s tail) HF HL).
Qed.

(* ------------------------------------------------------------------ *)
(* pass 2                                                              *)

Lemma brd_skipn0 b n R : skipn n b = R -> brd b n = nth_error R 0.
Proof.
  intros H. unfold brd. rewrite <- H, nth_error_skipn_cr. f_equal. lia.
Qed.

(* the inner while (out[src] == '/') src++ : it drops the run of '/' that
   [p2 _ true] drops *)
Lemma skip_slashes_spec : forall rest b n fuel tail,
  skipn n b = rest ++ 0 :: tail -> (length rest < fuel)%nat -> Forall byte_nz rest ->
  exists n' rest', skip_slashes fuel b n = Some n' /\ skipn n' b = rest' ++ 0 :: tail /\
    (n <= n')%nat /\ (length rest' <= length rest)%nat /\ Forall byte_nz rest' /\
    p2 false true rest = p2 false false rest'.
Proof.
  induction rest as [|c r IH]; intros b n fuel tail HS HL HF;
    (destruct fuel as [|f]; [lia|]); cbn [skip_slashes]; rewrite (brd_skipn0 _ _ _ HS);
    cbn [nth_error app].
  - exists n, []. change (0 =? 47) with false. cbv iota.
    repeat split; try assumption; try lia.
  - inversion HF as [|? ? Hc HF']; subst. cbn [length] in HL.
    destruct (c =? 47) eqn:E.
    + destruct (IH b (S n) f tail (skipn_S_tl_cr _ _ _ _ HS) ltac:(lia) HF')
        as (n' & rest' & H1 & H2 & H3 & H4 & H5 & H6).
      exists n', rest'. repeat split; try assumption; try lia.
      * cbn [length]. lia.
      * cbn [p2]. rewrite E. cbn [andb negb]. exact H6.
    + exists n, (c :: r). repeat split; try assumption; try lia.
      cbn [p2]. rewrite E. reflexivity.
Qed.

Lemma pass2_gen : forall fuel rest b src dst skip acc tail,
  St b src dst acc (rest ++ 0 :: tail) -> Forall byte_nz rest -> (length rest < fuel)%nat ->
  exists tail', pass2 fuel b src dst skip = Some (acc ++ p2 skip false rest ++ 0 :: tail') /\
                length (acc ++ p2 skip false rest ++ 0 :: tail') = length b.
Proof.
  induction fuel as [|f IH]; intros rest b src dst skip acc tail HS HF HL; [lia|].
  destruct rest as [|c r].
  - cbn [p2 pass2]. rewrite (St_read0 _ _ _ _ _ HS). cbn [nth_error app].
    rewrite N.eqb_refl.
    exact (St_finish _ _ _ _ _ HS (nz_R [] tail)).
  - inversion HF as [|? ? Hc HF']; subst. cbn [length] in HL.
    assert (Hds : (dst <= src)%nat) by (destruct HS as (_ & _ & ? & _); assumption).
    assert (HS1 : St b (src + 1) dst acc (r ++ 0 :: tail)) by exact (St_adv 1 _ _ _ _ _ HS).
    cbn [pass2]. rewrite (St_read0 _ _ _ _ _ HS). cbn [nth_error app].
    rewrite (nz_eqb0 _ Hc). cbn [p2].
    destruct ((c =? 47) && negb skip) eqn:E.
    + apply andb_true_iff in E. destruct E as [E47 Esk].
      apply negb_true_iff in Esk. subst skip. apply N.eqb_eq in E47. subst c.
      destruct (St_write 47 _ _ _ _ _ HS1) as (b1 & Hw1 & Hl1 & HS1' & Hd1 & Hp1);
        [lia | apply nz_R |].
      rewrite Hw1.
      assert (Hrd : brd b1 src = Some 47).
      { destruct (Nat.eq_dec src dst) as [->|Hne]; [exact Hd1|].
        rewrite Hp1 by exact Hne. rewrite (St_read0 _ _ _ _ _ HS). reflexivity. }
      cbn [skip_slashes]. rewrite Hrd. rewrite N.eqb_refl.
      destruct HS1' as (A1 & A2 & A3 & A4). rewrite Nat.add_1_r in A4.
      pose proof (skipn_len_cr _ _ _ A4) as Hlen4. rewrite app_length in Hlen4. cbn [length] in Hlen4.
      destruct (skip_slashes_spec r b1 (S src) (length b1) tail A4 ltac:(lia) HF')
        as (n' & rest' & H1 & H2 & H3 & H4 & H5 & H6).
      rewrite H1.
      assert (HS2 : St b1 n' (dst + 1) (acc ++ [47]) (rest' ++ 0 :: tail)).
      { repeat split; try assumption. lia. }
      destruct (IH rest' b1 n' (dst + 1)%nat false (acc ++ [47]) tail HS2 H5 ltac:(lia))
        as (tail' & Hp & Hlen).
      exists tail'. rewrite H6.
      rewrite <- app_assoc in Hp, Hlen. cbn [app] in Hp, Hlen |- *.
      split; [exact Hp|]. rewrite Hlen. exact Hl1.
    + destruct (St_write c _ _ _ _ _ HS1) as (b1 & Hw1 & Hl1 & HS1' & _ & _);
        [lia | apply nz_R |].
      rewrite Hw1.
      destruct (IH r b1 (src + 1)%nat (dst + 1)%nat (if is_qf c then true else skip)
                   (acc ++ [c]) tail HS1' HF' ltac:(lia)) as (tail' & Hp & Hlen).
      exists tail'.
      rewrite <- app_assoc in Hp, Hlen. cbn [app] in Hp, Hlen |- *.
      split; [exact Hp|]. rewrite Hlen. exact Hl1.
Qed.

Theorem pass2_refines : forall s tail, Forall byte_nz s ->
  let b := s ++ 0 :: tail in
  exists tail', pass2 (S (length b)) b 0 0 false = Some (p2 false false s ++ 0 :: tail') /\
                length (p2 false false s ++ 0 :: tail') = length b.
Proof.
  intros s tail HF b.
  assert (HL : (length s < S (length b))%nat).
  { unfold b. rewrite app_length. lia. }
  exact (pass2_gen (S (length b)) s b 0 0 false [] tail (St_init s tail) HF HL).
Qed.

(* ------------------------------------------------------------------ *)
(* pass 3                                                              *)

(* [p3] one step, with the literal patterns turned into tests *)
Lemma p3_cons skip racc c r :
  p3 skip racc (c :: r) =
  if (c =? 47) && negb skip then
    match r with
    | [] => p3 skip (47 :: racc) r
    | x :: r1 =>
        if x =? 46 then
          match r1 with
          | [] => p3 skip racc r1
          | y :: r2 =>
              if y =? 46
              then (if term_hd r2 then p3 skip (pop racc) r2 else p3 skip (47 :: racc) r)
              else (if term_hd r1 then p3 skip racc r1 else p3 skip (47 :: racc) r)
          end
        else p3 skip (47 :: racc) r
    end
  else p3 (if is_qf c then true else skip) (c :: racc) r.
Proof.
  destruct (c =? 47) eqn:E.
  2:{ cbn [p3]. rewrite E. reflexivity. }
  apply N.eqb_eq in E. subst c.
  destruct skip; [reflexivity|].
  destruct r as [|x r1]; [reflexivity|].
  destruct (x =? 46) eqn:Ex.
  - apply N.eqb_eq in Ex. subst x.
    destruct r1 as [|y r2]; [reflexivity|].
    destruct (y =? 46) eqn:Ey.
    + apply N.eqb_eq in Ey. subst y. reflexivity.
    + destruct y as [|p]; [reflexivity|].
      repeat (destruct p as [p|p|]; try reflexivity; try (cbn in Ey; discriminate Ey)).
  - destruct x as [|p]; [reflexivity|].
    repeat (destruct p as [p|p|]; try reflexivity; try (cbn in Ex; discriminate Ex)).
Qed.

Lemma pop_cons2 x y r : pop (x :: y :: r) = if x =? 47 then y :: r else pop (y :: r).
Proof. reflexivity. Qed.

Lemma pop_suffix : forall racc, exists pre, racc = pre ++ pop racc.
Proof.
  induction racc as [|x r IH]; [exists []; reflexivity|].
  destruct r as [|y r]; [exists [x]; reflexivity|].
  rewrite pop_cons2. destruct (x =? 47); [exists [x]; reflexivity|].
  destruct IH as (pre & IH). exists (x :: pre). cbn [app]. rewrite <- IH. reflexivity.
Qed.

Lemma pop_length racc : (length (pop racc) <= length racc)%nat.
Proof.
  destruct (pop_suffix racc) as (pre & H). rewrite H at 2. rewrite app_length. lia.
Qed.

(* do { dst--; } while (dst && out[dst] != '/') *)
Lemma popback_spec : forall racc b fuel,
  racc <> [] -> firstn (length racc) b = rev racc -> (length racc <= fuel)%nat ->
  popback fuel b (length racc) = Some (length (pop racc)).
Proof.
  induction racc as [|x r IH]; intros b fuel Hne Hf HL; [congruence|].
  destruct fuel as [|f]; [cbn [length] in HL; lia|].
  cbn [popback]. cbn [length]. rewrite Nat.sub_succ, Nat.sub_0_r.
  destruct r as [|y r]; [reflexivity|].
  change (length (y :: r) =? 0)%nat with false. cbv iota.
  set (r' := y :: r) in *.
  cbn [length rev] in Hf.
  assert (Hx : brd b (length r') = Some x).
  { unfold brd. rewrite <- (nth_error_firstn_cr b (S (length r'))) by lia.
    rewrite Hf. rewrite nth_error_app2 by (rewrite rev_length; lia).
    rewrite rev_length, Nat.sub_diag. reflexivity. }
  rewrite Hx. change (pop (x :: r')) with (if x =? 47 then r' else pop r').
  destruct (x =? 47); [reflexivity|].
  apply IH.
  - unfold r'. discriminate.
  - rewrite <- (rev_length r'). apply (firstn_prefix_cr b (S (length r')) _ [x]); [exact Hf|].
    rewrite rev_length. lia.
  - cbn [length] in HL. lia.
Qed.

Lemma popback_step b racc :
  firstn (length racc) b = rev racc ->
  exists d, (if (0 <? length racc)%nat then popback (S (length b)) b (length racc)
             else Some (length racc)) = Some d /\
            d = length (pop racc) /\ firstn d b = rev (pop racc).
Proof.
  intros Hf. exists (length (pop racc)).
  assert (Hle : (length racc <= length b)%nat).
  { pose proof (f_equal (@length N) Hf) as H. rewrite firstn_length, rev_length in H. lia. }
  split; [|split; [reflexivity|]].
  - destruct racc as [|x r]; [reflexivity|].
    change (0 <? length (x :: r))%nat with true. cbv iota.
    apply popback_spec; [discriminate|exact Hf|lia].
  - destruct (pop_suffix racc) as (pre & H). pose proof (pop_length racc) as Hpl.
    rewrite <- (rev_length (pop racc)).
    apply (firstn_prefix_cr b (length racc) _ (rev pre)).
    + rewrite Hf. rewrite H at 1. apply rev_app_distr.
    + rewrite rev_length. exact Hpl.
Qed.

(* strncmp against a literal reads the unread part only *)
Fixpoint sl (R lit : list N) {struct lit} : option bool :=
  match lit with
  | [] => Some true
  | x :: lit' =>
      match R with
      | [] => None
      | c :: R' => if c =? x then sl R' lit' else Some false
      end
  end.

Lemma strncmp_lit_sl : forall lit b i R, skipn i b = R -> strncmp_lit b i lit = sl R lit.
Proof.
  induction lit as [|x lit IH]; intros b i R H; [reflexivity|].
  cbn [strncmp_lit sl]. rewrite (brd_skipn0 _ _ _ H).
  destruct R as [|c R']; [reflexivity|]. cbn [nth_error].
  destruct (c =? x); [|reflexivity].
  apply IH. exact (skipn_S_tl_cr _ _ _ _ H).
Qed.

Lemma term_hd_read r tail :
  exists h, nth_error (r ++ 0 :: tail) 0 = Some h /\ is_term h = term_hd r.
Proof. destruct r as [|z r]; [exists 0|exists z]; split; reflexivity. Qed.

Lemma St_skipn b src dst acc R : St b src dst acc R -> skipn src b = R.
Proof. intros (_ & _ & _ & H). exact H. Qed.

Lemma pass3_gen : forall fuel rest b src dst skip racc tail,
  St b src dst (rev racc) (rest ++ 0 :: tail) -> Forall byte_nz rest -> (length rest < fuel)%nat ->
  exists tail', pass3 fuel b src dst skip = Some (p3 skip racc rest ++ 0 :: tail') /\
                length (p3 skip racc rest ++ 0 :: tail') = length b.
Proof.
  induction fuel as [|f IH]; intros rest b src dst skip racc tail HS HF HL; [lia|].
  destruct rest as [|c r].
  - cbn [p3 pass3]. rewrite (St_read0 _ _ _ _ _ HS). cbn [nth_error app].
    rewrite N.eqb_refl.
    exact (St_finish _ _ _ _ _ HS (nz_R [] tail)).
  - inversion HF as [|? ? Hc HF']; subst. cbn [length] in HL.
    assert (Hds : (dst <= src)%nat) by (destruct HS as (_ & _ & ? & _); assumption).
    assert (HS1 : St b (src + 1) dst (rev racc) (r ++ 0 :: tail)) by exact (St_adv 1 _ _ _ _ _ HS).
    (* the common "emit one byte" step *)
    assert (Hemit : forall x skip', exists tail',
       (match bwr b dst x with
        | Some b1 => pass3 f b1 (src + 1) (dst + 1) skip'
        | None => None
        end) = Some (p3 skip' (x :: racc) r ++ 0 :: tail') /\
       length (p3 skip' (x :: racc) r ++ 0 :: tail') = length b).
    { intros x skip'.
      destruct (St_write x _ _ _ _ _ HS1) as (b1 & Hw1 & Hl1 & HS1' & _ & _);
        [lia | apply nz_R |].
      rewrite Hw1.
      destruct (IH r b1 (src + 1)%nat (dst + 1)%nat skip' (x :: racc) tail HS1' HF' ltac:(lia))
        as (tail' & Hp & Hlen).
      exists tail'. split; [exact Hp|]. rewrite Hlen. exact Hl1. }
    cbn [pass3]. rewrite (St_read0 _ _ _ _ _ HS). cbn [nth_error app].
    rewrite (nz_eqb0 _ Hc). rewrite p3_cons.
    destruct ((c =? 47) && negb skip) eqn:E.
    2:{ apply Hemit. }
    apply andb_true_iff in E. destruct E as [E47 _].
    rewrite !(strncmp_lit_sl _ _ _ _ (St_skipn _ _ _ _ _ HS)). cbn [sl app]. rewrite !E47.
    destruct r as [|x r1].
    { cbn [app sl]. change (0 =? 46) with false. cbv iota. apply Hemit. }
    cbn [app sl].
    destruct (x =? 46) eqn:Ex.
    2:{ cbv iota. apply Hemit. }
    destruct r1 as [|y r2].
    { (* "/." at the end of the text *)
      cbn [app sl]. change (0 =? 46) with false. cbv iota.
      rewrite (St_read 2 _ _ _ _ _ HS). cbn [nth_error app].
      change (is_term 0) with true. cbv iota.
      apply (IH [] b (src + 2)%nat dst skip racc tail (St_adv 2 _ _ _ _ _ HS)); [constructor|].
      cbn [length]. lia. }
    cbn [app sl]. cbn [length] in HL.
    inversion HF' as [|? ? Hx HF'']; subst. inversion HF'' as [|? ? Hy HF3]; subst.
    destruct (y =? 46) eqn:Ey.
    + (* "/.." *)
      cbv iota. rewrite (St_read0 _ _ _ _ _ (St_adv 3 _ _ _ _ _ HS)). cbn [skipn app].
      destruct (term_hd_read r2 tail) as (h & Hh & Ht). rewrite Hh, Ht.
      destruct (term_hd r2) eqn:T; cbv iota.
      * assert (Hd : dst = length racc).
        { destruct HS as (_ & H & _). rewrite rev_length in H. symmetry. exact H. }
        subst dst.
        assert (Hfirst : firstn (length racc) b = rev racc) by (destruct HS as (H & _); exact H).
        destruct (popback_step b racc Hfirst) as (d & Hpb & Hd & Hfd).
        rewrite Hpb.
        pose proof (pop_length racc) as Hpl.
        assert (HS3 : St b (src + 3) d (rev (pop racc)) (r2 ++ 0 :: tail)).
        { split; [exact Hfd|]. split; [rewrite rev_length; symmetry; exact Hd|].
          split; [lia|]. exact (St_skipn _ _ _ _ _ (St_adv 3 _ _ _ _ _ HS)). }
        apply (IH r2 b (src + 3)%nat d skip (pop racc) tail HS3 HF3). lia.
      * rewrite (St_read 2 _ _ _ _ _ HS). cbn [nth_error app].
        apply N.eqb_eq in Ey. subst y. change (is_term 46) with false. cbv iota.
        apply Hemit.
    + (* "/." followed by something else than '.' *)
      cbv iota. rewrite (St_read 2 _ _ _ _ _ HS). cbn [nth_error app].
      change (term_hd (y :: r2)) with (is_term y).
      destruct (is_term y); cbv iota.
      * apply (IH (y :: r2) b (src + 2)%nat dst skip racc tail (St_adv 2 _ _ _ _ _ HS) HF'').
        cbn [length]. lia.
      * apply Hemit.
Qed.

Theorem pass3_refines : forall s tail, Forall byte_nz s ->
  let b := s ++ 0 :: tail in
  exists tail', pass3 (S (length b)) b 0 0 false = Some (p3 false [] s ++ 0 :: tail') /\
                length (p3 false [] s ++ 0 :: tail') = length b.
Proof.
  intros s tail HF b.
  assert (HL : (length s < S (length b))%nat).
  { unfold b. rewrite app_length. lia. }
  exact (pass3_gen (S (length b)) s b 0 0 false [] tail (St_init s tail) HF HL).
Qed.

(* ------------------------------------------------------------------ *)
(* outputs of the pure passes: NUL-free bytes, not longer than the input *)

Lemma safe_char_nz v : safe_char v = true -> v <> 0.
Proof. intros H E. subst v. discriminate H. Qed.

Lemma wrap8_lt v : wrap8 v < 256.
Proof. unfold wrap8. apply N.mod_lt. discriminate. Qed.

Lemma toupper_nz c : byte_nz c -> byte_nz (c_toupper c).
Proof.
  unfold byte_nz, c_toupper, c_islower. intros [H1 H2].
  destruct ((97 <=? c) && (c <=? 122)) eqn:E; [|lia].
  apply andb_true_iff in E. destruct E as [E1 E2]. apply N.leb_le in E1, E2. lia.
Qed.

Lemma nz47 : byte_nz 47.
Proof. unfold byte_nz. lia. Qed.

Lemma nz37 : byte_nz 37.
Proof. unfold byte_nz. lia. Qed.

Lemma p1_props : forall n s t, (length s <= n)%nat -> p1 s = Some t ->
  (Forall byte_nz s -> Forall byte_nz t) /\ (length t <= length s)%nat.
Proof.
  induction n as [|n IH]; intros s t HL H.
  - destruct s; [|cbn [length] in HL; lia]. cbn [p1] in H. inversion H; subst.
    split; [intros; constructor|lia].
  - destruct s as [|c r].
    { cbn [p1] in H. inversion H; subst. split; [intros; constructor|lia]. }
    cbn [p1] in H. cbn [length] in HL.
    destruct (c =? 37) eqn:E37.
    + destruct r as [|h1 [|h2 r']]; try discriminate.
      destruct (c_isxdigit h1 && c_isxdigit h2); [|discriminate].
      cbv zeta in H. destruct (p1 r') as [t'|] eqn:P; [|discriminate].
      cbn [length] in HL. destruct (IH r' t' ltac:(lia) P) as [IH1 IH2].
      inversion H; subst t; clear H.
      set (v := wrap8 (wrap8 (url_hex_val h1 * 16) + url_hex_val h2)).
      destruct (safe_char v) eqn:SV.
      * split; [|cbn [length]; lia].
        intros HF. inversion HF as [|? ? Hc HF1]; subst.
        inversion HF1 as [|? ? Hh1 HF2]; subst. inversion HF2 as [|? ? Hh2 HF3]; subst.
        constructor; [|apply IH1; exact HF3].
        split; [pose proof (safe_char_nz v SV); lia|apply wrap8_lt].
      * split; [|cbn [length]; lia].
        intros HF. inversion HF as [|? ? Hc HF1]; subst.
        inversion HF1 as [|? ? Hh1 HF2]; subst. inversion HF2 as [|? ? Hh2 HF3]; subst.
        constructor; [exact nz37|]. constructor; [apply toupper_nz; exact Hh1|].
        constructor; [apply toupper_nz; exact Hh2|]. apply IH1; exact HF3.
    + destruct (p1 r) as [t'|] eqn:P; [|discriminate].
      destruct (IH r t' ltac:(lia) P) as [IH1 IH2].
      inversion H; subst t; clear H.
      split; [|cbn [length]; lia].
      intros HF. inversion HF as [|? ? Hc HF1]; subst.
      constructor; [exact Hc|apply IH1; exact HF1].
Qed.

Lemma p1_nz : forall s t, Forall byte_nz s -> p1 s = Some t -> Forall byte_nz t.
Proof. intros s t HF H. exact (proj1 (p1_props (length s) s t (le_n _) H) HF). Qed.

Lemma p1_length : forall s t, p1 s = Some t -> (length t <= length s)%nat.
Proof. intros s t H. exact (proj2 (p1_props (length s) s t (le_n _) H)). Qed.

Lemma p2_nz : forall skip prev s, Forall byte_nz s -> Forall byte_nz (p2 skip prev s).
Proof.
  intros skip prev s; revert skip prev; induction s as [|c r IH]; intros skip prev HF;
    [constructor|].
  inversion HF; subst. cbn [p2].
  destruct ((c =? 47) && negb skip).
  - destruct prev; [apply IH; assumption|]. constructor; [exact nz47|apply IH; assumption].
  - constructor; [assumption|apply IH; assumption].
Qed.

Lemma p2_length : forall skip prev s, (length (p2 skip prev s) <= length s)%nat.
Proof.
  intros skip prev s; revert skip prev; induction s as [|c r IH]; intros skip prev; [apply le_n|].
  cbn [p2].
  destruct ((c =? 47) && negb skip).
  - destruct prev; cbn [length].
    + specialize (IH skip true). lia.
    + specialize (IH skip true). lia.
  - cbn [length]. specialize (IH (if is_qf c then true else skip) false). lia.
Qed.

Lemma pop_nz racc : Forall byte_nz racc -> Forall byte_nz (pop racc).
Proof.
  intros HF. destruct (pop_suffix racc) as (pre & H). rewrite H in HF.
  apply Forall_app in HF. tauto.
Qed.

Ltac solve_tail Hs := first [exact Hs | (apply Forall_inv_tail in Hs; solve_tail Hs)].

Lemma p3_props : forall n s skip racc, (length s <= n)%nat ->
  (Forall byte_nz racc -> Forall byte_nz s -> Forall byte_nz (p3 skip racc s)) /\
  (length (p3 skip racc s) <= length racc + length s)%nat.
Proof.
  induction n as [|n IH]; intros s skip racc HL.
  - destruct s; [|cbn [length] in HL; lia]. cbn [p3]. split.
    + intros H _. apply Forall_rev. exact H.
    + rewrite rev_length. lia.
  - destruct s as [|c r].
    { cbn [p3]. split.
      + intros H _. apply Forall_rev. exact H.
      + rewrite rev_length. lia. }
    rewrite p3_cons.
    assert (Hleaf : forall sk ra s',
      (length s' <= length r)%nat ->
      (length ra <= S (length racc))%nat ->
      (Forall byte_nz racc -> Forall byte_nz (c :: r) -> Forall byte_nz ra /\ Forall byte_nz s') ->
      (Forall byte_nz racc -> Forall byte_nz (c :: r) -> Forall byte_nz (p3 sk ra s')) /\
      (length (p3 sk ra s') <= length racc + length (c :: r))%nat).
    { intros sk ra s' A1 A2 A3. cbn [length] in HL.
      destruct (IH s' sk ra ltac:(lia)) as [L1 L2]. split.
      - intros Hra Hs. destruct (A3 Hra Hs) as [B1 B2]. apply L1; assumption.
      - cbn [length]. lia. }
    pose proof (pop_length racc) as Hpl.
    destruct ((c =? 47) && negb skip).
    2:{ apply Hleaf; [lia|cbn [length]; lia|].
        intros Hra Hs. split; [constructor; [exact (Forall_inv Hs)|exact Hra]|solve_tail Hs]. }
    destruct r as [|x r1].
    { apply Hleaf; [lia|cbn [length]; lia|].
      intros Hra Hs. split; [constructor; [exact nz47|exact Hra]|solve_tail Hs]. }
    destruct (x =? 46).
    2:{ apply Hleaf; [lia|cbn [length]; lia|].
        intros Hra Hs. split; [constructor; [exact nz47|exact Hra]|solve_tail Hs]. }
    destruct r1 as [|y r2].
    { apply Hleaf; [cbn [length]; lia|lia|].
      intros Hra Hs. split; [exact Hra|solve_tail Hs]. }
    destruct (y =? 46).
    + destruct (term_hd r2).
      * apply Hleaf; [cbn [length]; lia|lia|].
        intros Hra Hs. split; [apply pop_nz; exact Hra|solve_tail Hs].
      * apply Hleaf; [lia|cbn [length]; lia|].
        intros Hra Hs. split; [constructor; [exact nz47|exact Hra]|solve_tail Hs].
    + destruct (term_hd (y :: r2)).
      * apply Hleaf; [cbn [length]; lia|lia|].
        intros Hra Hs. split; [exact Hra|solve_tail Hs].
      * apply Hleaf; [lia|cbn [length]; lia|].
        intros Hra Hs. split; [constructor; [exact nz47|exact Hra]|solve_tail Hs].
Qed.

Lemma p3_nz : forall skip racc s,
  Forall byte_nz racc -> Forall byte_nz s -> Forall byte_nz (p3 skip racc s).
Proof. intros skip racc s. exact (proj1 (p3_props (length s) s skip racc (le_n _))). Qed.

Lemma p3_length : forall skip racc s, (length (p3 skip racc s) <= length racc + length s)%nat.
Proof. intros skip racc s. exact (proj2 (p3_props (length s) s skip racc (le_n _))). Qed.

(* ------------------------------------------------------------------ *)
(* the whole function                                                  *)

Theorem canonify_refines : forall fx s tail, Forall byte_nz s ->
  match canon_pure fx s with
  | Some out => exists tail', canonify fx (s ++ 0 :: tail) = Some (NNG_OK, out ++ 0 :: tail') /\
                              length (out ++ 0 :: tail') = length (s ++ 0 :: tail)
  | None => canonify fx (s ++ 0 :: tail) = Some (NNG_EINVAL, s ++ 0 :: tail)
  end.
Proof.
  intros fx s tail HF. unfold canon_pure, canon_passes, canonify.
  pose proof (pass1_refines s tail HF) as H1. cbv zeta in H1.
  destruct (p1 s) as [s1|] eqn:P1; cbv beta iota.
  2:{ rewrite H1. reflexivity. }
  destruct H1 as (t1 & H1 & L1). rewrite H1. cbv beta iota.
  pose proof (p1_nz _ _ HF P1) as HF1.
  pose proof (pass2_refines s1 t1 HF1) as H2. cbv zeta in H2.
  destruct H2 as (t2 & H2 & L2). rewrite H2. cbv beta iota.
  pose proof (p2_nz false false s1 HF1) as HF2.
  set (s2 := p2 false false s1) in *.
  pose proof (pass3_refines s2 t2 HF2) as H3. cbv zeta in H3.
  destruct H3 as (t3 & H3 & L3). rewrite H3. cbv beta iota.
  pose proof (p3_nz false [] s2 (Forall_nil _) HF2) as HF3.
  set (s3 := p3 false [] s2) in *.
  rewrite (utf8_validate_tail_irrelevant fx s3 t3 HF3).
  destruct (utf8_validate_total fx s3 [] HF3) as (r & Hr). rewrite Hr.
  destruct r; cbv beta iota.
  - exists t3. split; [reflexivity|]. rewrite L3, L2, L1. reflexivity.
  - reflexivity.
Qed.

Corollary canonify_total : forall fx s tail, Forall byte_nz s ->
  exists r, canonify fx (s ++ 0 :: tail) = Some r.
Proof.
  intros fx s tail HF. pose proof (canonify_refines fx s tail HF) as H.
  destruct (canon_pure fx s) as [out|].
  - destruct H as (tail' & H & _). eexists. exact H.
  - eexists. exact H.
Qed.
