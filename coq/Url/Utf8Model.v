(* Utf8Model: executable model of url_utf8_validate (src/core/url.c).
   Definitions only.

   The C walks one pointer [s] forward over a NUL-terminated buffer and only
   ever reads s[0]; the pointer is modelled as the *suffix* of the buffer that
   starts at s (so "s++" = tail, "s[0]" = head), and a read beyond the end of
   the buffer is [None] (out of bounds), never totalised.

   [fixed] selects, inside the continuation loop, the repaired order
       v <<= 6; v += s[0] & 0x3f; s++;
   versus the pinned tree's
       s++; v <<= 6; v += s[0] & 0x3f;
   which accumulates the byte *after* the continuation byte just checked
   (possibly the terminating NUL).  v is a uint32_t: the wrap is explicit. *)
From Coq Require Import List Arith Lia Bool NArith.
Import ListNotations.
Local Open Scope N_scope.

Definition NNG_EINVAL : N := 3.
Definition NNG_ENOMEM : N := 2.
Definition NNG_ENOTSUP : N := 9.
Definition NNG_OK : N := 0.

Definition u32 (v : N) : N := v mod 4294967296.

(* the continuation loop: for (i = 0; i < nb; i++) ...
   result: None = read out of bounds; Some None = NNG_EINVAL (not a continuation);
   Some (Some (s', v')) = loop finished *)
Fixpoint utf8_cont (fixed : bool) (s : list N) (nb : nat) (v : N) : option (option (list N * N)) :=
  match nb with
  | O => Some (Some (s, v))
  | S k =>
      match s with
      | [] => None
      | b :: s' =>
          if negb (N.land b 192 =? 128) then Some None
          else if fixed then utf8_cont fixed s' k (u32 (u32 (v * 64) + N.land b 63))
          else match s' with
               | [] => None
               | b' :: _ => utf8_cont fixed s' k (u32 (u32 (v * 64) + N.land b' 63))
               end
      end
  end.

(* the outer loop; fuel = an upper bound of the number of iterations (each
   iteration consumes at least one byte).  Some true = NNG_OK, Some false =
   NNG_EINVAL, None = out-of-bounds read or fuel exhausted. *)
Fixpoint utf8_loop (fixed : bool) (fuel : nat) (s : list N) : option bool :=
  match fuel with
  | O => None
  | S f =>
      match s with
      | [] => None
      | b :: s' =>
          if b =? 0 then Some true
          else if N.land b 128 =? 0 then utf8_loop fixed f s'
          else
            let hdr :=
              if N.land b 224 =? 192 then Some (N.land b 31, 128, 1%nat)
              else if N.land b 240 =? 224 then Some (N.land b 15, 2048, 2%nat)
              else if N.land b 248 =? 240 then Some (N.land b 7, 65536, 3%nat)
              else None in
            match hdr with
            | None => Some false
            | Some (v, minv, nb) =>
                match utf8_cont fixed s' nb v with
                | None => None
                | Some None => Some false
                | Some (Some (s2, v2)) =>
                    if v2 <? minv then Some false
                    else if (55296 <=? v2) && (v2 <=? 57343) then Some false
                    else if 1114111 <? v2 then Some false
                    else utf8_loop fixed f s2
                end
            end
      end
  end.

(* url_utf8_validate(buf): [buf] is the buffer from the pointer on *)
Definition utf8_validate (fixed : bool) (buf : list N) : option bool :=
  utf8_loop fixed (S (length buf)) buf.
