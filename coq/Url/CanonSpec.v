(* CanonSpec: canonical form of the path / query / fragment text, stated on
   byte strings independently of the canonicaliser.  Definitions only; all
   predicates are boolean so that the check can evaluate them on what the
   implementation returns. *)
From Coq Require Import List Arith Lia Bool NArith.
Import ListNotations.
Local Open Scope N_scope.

Definition sp_upper (c : N) : bool := (65 <=? c) && (c <=? 90).
Definition sp_lower (c : N) : bool := (97 <=? c) && (c <=? 122).
Definition sp_digit (c : N) : bool := (48 <=? c) && (c <=? 57).
(* RFC 3986 unreserved = ALPHA / DIGIT / "-" / "." / "_" / "~" *)
Definition unreserved (c : N) : bool :=
  sp_upper c || sp_lower c || sp_digit c || (c =? 45) || (c =? 46) || (c =? 95) || (c =? 126).
(* an upper-case hex digit and its value *)
Definition uhex (c : N) : bool := sp_digit c || ((65 <=? c) && (c <=? 70)).
Definition uhex_val (c : N) : N := if sp_digit c then c - 48 else c - 55.
(* any hex digit and its value *)
Definition anyhex (c : N) : bool := uhex c || ((97 <=? c) && (c <=? 102)).
Definition anyhex_val (c : N) : N := if sp_digit c then c - 48 else if c <=? 70 then c - 55 else c - 87.

(* every '%' is followed by two hex digits *)
Fixpoint escapes_valid (l : list N) : bool :=
  match l with
  | [] => true
  | c :: r =>
      (if c =? 37 then match r with h1 :: h2 :: _ => anyhex h1 && anyhex h2 | _ => false end else true)
      && escapes_valid r
  end.

(* every '%' is followed by two UPPER-case hex digits and does not escape an
   unreserved character ("unreserved escapes decoded") *)
Fixpoint escapes_canonical (l : list N) : bool :=
  match l with
  | [] => true
  | c :: r =>
      (if c =? 37 then
         match r with
         | h1 :: h2 :: _ => uhex h1 && uhex h2 && negb (unreserved (uhex_val h1 * 16 + uhex_val h2))
         | _ => false
         end
       else true) && escapes_canonical r
  end.

(* no "//" *)
Fixpoint no_double_slash (l : list N) : bool :=
  match l with
  | [] => true
  | c :: r => negb ((c =? 47) && match r with d :: _ => d =? 47 | [] => false end) && no_double_slash r
  end.

(* [l] is the text right after a '/': does it start with a "." or ".." segment? *)
Definition dotseg_at (l : list N) : bool :=
  match l with
  | [46] => true
  | 46 :: 47 :: _ => true
  | [46; 46] => true
  | 46 :: 46 :: 47 :: _ => true
  | _ => false
  end.
(* no "/." or "/.." segment *)
Fixpoint no_dot_segments (l : list N) : bool :=
  match l with
  | [] => true
  | c :: r => negb ((c =? 47) && dotseg_at r) && no_dot_segments r
  end.

(* percent-decoding (of a string with valid escapes) *)
Fixpoint pct_decode (l : list N) : list N :=
  match l with
  | [] => []
  | c :: r =>
      if c =? 37 then
        match r with
        | h1 :: h2 :: r' => (anyhex_val h1 * 16 + anyhex_val h2) :: pct_decode r'
        | _ => c :: pct_decode r
        end
      else c :: pct_decode r
  end.

(* the part of path?query#fragment before the first '?' or '#' *)
Fixpoint path_part (l : list N) : list N :=
  match l with
  | [] => []
  | c :: r => if (c =? 63) || (c =? 35) then [] else c :: path_part r
  end.
