(* XReqModel: src/sp/protocol/reqrep0/xreq.c (raw REQ) and the socket core's
   upper queues it uses (src/core/msgqueue.c at the level of its entry points).
   Definitions only.

   The msgq is a bounded FIFO plus two lists of waiting aios.  A waiting getter
   is identified by a tag of type G, a waiting putter by a tag of type T and its
   message.  Each entry point returns the hand-overs it caused, in order:
   EvGot g m = getter g completed with message m, EvPut t = putter t completed
   (its message was taken).  Faithful entry-point behaviour:
   nni_msgq_aio_put / _get call nni_aio_start first (a NONBLOCK caller gets
   NNG_EAGAIN whatever the queue holds), put runs only run_putq and get only
   run_getq, resize drops the oldest messages beyond cap+1 and runs neither
   queue.  The raw callbacks (getq_cb, putq_cb) take no protocol lock; at
   quiescence their effect is the one folded into the step that caused them. *)
From Coq Require Import List Arith NArith Bool ZArith.
From NngV Require Import Proto.Common Proto.ReqRepBacktrace Proto.ReqModel.
Import ListNotations.

Section Msgq.
  Variables G T : Type.
  Record mq := mkMq { mq_q : list pmsg; mq_cap : nat; mq_getq : list G; mq_putq : list (T * pmsg) }.
  Inductive mqev := EvGot (g : G) (m : pmsg) | EvPut (t : T).

  (* nni_msgq_run_putq *)
  Fixpoint mq_run_putq (fuel : nat) (q : mq) : mq * list mqev :=
    match fuel with
    | 0 => (q, [])
    | S f =>
        match mq_putq q with
        | [] => (q, [])
        | (t, m) :: pr =>
            match mq_getq q with
            | g :: gr =>
                let '(q', ev) := mq_run_putq f (mkMq (mq_q q) (mq_cap q) gr pr) in
                (q', EvGot g m :: EvPut t :: ev)
            | [] =>
                if length (mq_q q) <? mq_cap q then
                  let '(q', ev) := mq_run_putq f (mkMq (mq_q q ++ [m]) (mq_cap q) [] pr) in
                  (q', EvPut t :: ev)
                else (q, [])
            end
        end
    end.

  (* nni_msgq_run_getq *)
  Fixpoint mq_run_getq (fuel : nat) (q : mq) : mq * list mqev :=
    match fuel with
    | 0 => (q, [])
    | S f =>
        match mq_getq q with
        | [] => (q, [])
        | g :: gr =>
            match mq_q q with
            | m :: rest =>
                let '(q', ev) := mq_run_getq f (mkMq rest (mq_cap q) gr (mq_putq q)) in
                (q', EvGot g m :: ev)
            | [] =>
                match mq_putq q with
                | (t, m) :: pr =>
                    let '(q', ev) := mq_run_getq f (mkMq [] (mq_cap q) gr pr) in
                    (q', EvPut t :: EvGot g m :: ev)
                | [] => (q, [])
                end
            end
        end
    end.

  (* nni_msgq_aio_put / nni_msgq_aio_get after a successful nni_aio_start *)
  Definition mq_put (q : mq) (t : T) (m : pmsg) : mq * list mqev :=
    mq_run_putq (S (length (mq_putq q))) (mkMq (mq_q q) (mq_cap q) (mq_getq q) (mq_putq q ++ [(t, m)])).
  (* runput: nni_msgq_aio_get also runs the writer side afterwards (a reader that took a
     buffered message made room for blocked writers); pinned: it does not *)
  Definition mq_get (runput : bool) (q : mq) (g : G) : mq * list mqev :=
    let '(q1, e1) := mq_run_getq (S (length (mq_getq q))) (mkMq (mq_q q) (mq_cap q) (mq_getq q ++ [g]) (mq_putq q)) in
    if runput then let '(q2, e2) := mq_run_putq (S (length (mq_putq q1))) q1 in (q2, e1 ++ e2) else (q1, e1).

  (* nni_msgq_resize: the oldest messages beyond cap+1 are freed *)
  Definition mq_resize (q : mq) (cap : nat) : mq * list pmsg :=
    let excess := length (mq_q q) - (cap + 1) in
    (mkMq (skipn excess (mq_q q)) cap (mq_getq q) (mq_putq q), firstn excess (mq_q q)).

  (* would nni_msgq_aio_put / _get have to wait?  (the repaired entry points call
     nni_aio_start only then; the pinned ones always) *)
  Definition mq_put_waits (q : mq) : bool :=
    negb (is_nil (mq_putq q)) || (is_nil (mq_getq q) && (mq_cap q <=? length (mq_q q))).
  Definition mq_get_waits (q : mq) : bool :=
    negb (is_nil (mq_getq q)) || (is_nil (mq_q q) && is_nil (mq_putq q)).
  (* the repaired nni_msgq_resize re-runs both waiter queues *)
  Definition mq_rerun (q : mq) : mq * list mqev :=
    let '(q1, e1) := mq_run_putq (S (length (mq_putq q))) q in
    let '(q2, e2) := mq_run_getq (S (length (mq_getq q1))) q1 in
    (q2, e1 ++ e2).

  (* nni_msgq_run_notify *)
  Definition mq_sendable (q : mq) : bool := (length (mq_q q) <? mq_cap q) || negb (is_nil (mq_getq q)).
  Definition mq_recvable (q : mq) : bool := negb (is_nil (mq_q q)) || negb (is_nil (mq_putq q)).
End Msgq.
Arguments mkMq {G T}.  Arguments mq_q {G T}.  Arguments mq_cap {G T}.  Arguments mq_getq {G T}.
Arguments mq_putq {G T}.  Arguments EvGot {G T}.  Arguments EvPut {G T}.
Arguments mq_put {G T}.  Arguments mq_get {G T}.  Arguments mq_resize {G T}.
Arguments mq_sendable {G T}.  Arguments mq_recvable {G T}.
Arguments mq_put_waits {G T}.  Arguments mq_get_waits {G T}.  Arguments mq_rerun {G T}.

(* which repairs of msgqueue.c the source has (Gen/Consts.v) *)
Record mqfix := mkMqfix { mf_nb : bool; mf_resize : bool; mf_getput : bool }.
Definition nb_refused (mf : mqfix) (nb : bool) (waits : bool) : bool :=
  nb && (negb (mf_nb mf) || waits).

(* the upper read queue of a raw socket: getters are user aios, putters are the
   pipes' aio_putq (a pipe re-arms its receive only once its message was taken) *)
Definition urq := mq aioid pid.
Definition urq_out (ev : mqev aioid pid) : pout :=
  match ev with EvGot a m => Complete a E_OK (Some m) | EvPut p => TranRecv p end.
Definition urq_init : urq := mkMq [] 1 [] [].
(* nni_aio_close(&p->aio_putq): a blocked putter is aborted, putq_cb frees its message *)
Definition urq_pipe_close (q : urq) (p : pid) : urq * list pout :=
  (mkMq (mq_q q) (mq_cap q) (mq_getq q) (filter (fun x => negb (N.eqb (fst x) p)) (mq_putq q)),
   map (fun x => Free (snd x)) (filter (fun x => N.eqb (fst x) p) (mq_putq q))).
(* nni_msgq_close of the upper read queue (socket shutdown) *)
Definition urq_close (q : urq) : urq * list pout :=
  (mkMq [] (mq_cap q) [] [],
   map Free (mq_q q) ++ fail_aios E_CLOSED (mq_getq q) ++ map (fun x => Free (snd x)) (mq_putq q)).

Record xreq := mkXreq {
  xq_uwq : mq pid aioid;             (* upper write queue: getters = idle pipes, putters = user aios *)
  xq_urq : urq;
  xq_sending : list (pid * pmsg);
  xq_ttl : nat;
  xq_closed : bool }.

Definition xreq_init : xreq := mkXreq (mkMq [] 0 [] []) urq_init [] 8 false.

Definition uwq_out (ev : mqev pid aioid) : list pout :=
  match ev with EvGot p m => [TranSend p m] | EvPut a => [Complete a E_OK None] end.
Fixpoint uwq_sent (evs : list (mqev pid aioid)) : list (pid * pmsg) :=
  match evs with [] => [] | EvGot p m :: r => (p, m) :: uwq_sent r | _ :: r => uwq_sent r end.

Definition xreq_step (mf : mqfix) (s : xreq) (o : pop) : xreq * list pout :=
  match o with
  | PSend _ a nb m =>
      if nb_refused mf nb (mq_put_waits (xq_uwq s)) then (s, [Complete a E_AGAIN None])
      else
        let '(q, ev) := mq_put (xq_uwq s) a m in
        (mkXreq q (xq_urq s) (uwq_sent ev ++ xq_sending s) (xq_ttl s) (xq_closed s), flat_map uwq_out ev)
  | PRecv _ a nb =>
      if nb_refused mf nb (mq_get_waits (xq_urq s)) then (s, [Complete a E_AGAIN None])
      else
        let '(q, ev) := mq_get (mf_getput mf) (xq_urq s) a in
        (mkXreq (xq_uwq s) q (xq_sending s) (xq_ttl s) (xq_closed s), map urq_out ev)
  | PCancel a rv =>
      let uw := xq_uwq s in let ur := xq_urq s in
      if has_aio a (mq_putq uw) then
        (mkXreq (mkMq (mq_q uw) (mq_cap uw) (mq_getq uw) (remove_aio a (mq_putq uw))) ur (xq_sending s) (xq_ttl s) (xq_closed s),
         [Complete a rv None])
      else if has_id a (mq_getq ur) then
        (mkXreq uw (mkMq (mq_q ur) (mq_cap ur) (remove_id a (mq_getq ur)) (mq_putq ur)) (xq_sending s) (xq_ttl s) (xq_closed s),
         [Complete a rv None])
      else (s, [])
  | PPipeStart p peer =>
      if negb (N.eqb peer PROTO_REP) then (s, [Reject E_PROTO])
      else
        let '(q, ev) := mq_get (mf_getput mf) (xq_uwq s) p in
        (mkXreq q (xq_urq s) (uwq_sent ev ++ xq_sending s) (xq_ttl s) (xq_closed s), flat_map uwq_out ev ++ [TranRecv p])
  | PPipeClose p =>
      let uw := xq_uwq s in
      let '(ur, outs) := urq_pipe_close (xq_urq s) p in
      (mkXreq (mkMq (mq_q uw) (mq_cap uw) (remove_id p (mq_getq uw)) (mq_putq uw)) ur (xq_sending s) (xq_ttl s) (xq_closed s), outs)
  | PSendDone p rv =>
      let held := map snd (filter (fun x => N.eqb (fst x) p) (xq_sending s)) in
      let snd' := filter (fun x => negb (N.eqb (fst x) p)) (xq_sending s) in
      if negb (N.eqb rv 0) then (mkXreq (xq_uwq s) (xq_urq s) snd' (xq_ttl s) (xq_closed s), map Free held ++ [ClosePipe p])
      else
        let '(q, ev) := mq_get (mf_getput mf) (xq_uwq s) p in
        (mkXreq q (xq_urq s) (uwq_sent ev ++ snd') (xq_ttl s) (xq_closed s), flat_map uwq_out ev)
  | PRecvDone p rv m =>
      if negb (N.eqb rv 0) then (s, [ClosePipe p])
      else
        match xreq_recv (pm_body m) with
        | BtDeliver m' =>
            let '(q, ev) := mq_put (xq_urq s) p m' in
            (mkXreq (xq_uwq s) q (xq_sending s) (xq_ttl s) (xq_closed s), map urq_out ev)
        | _ => (s, [Free m; ClosePipe p])
        end
  | PSetOpt None (OSendBuf n) =>
      if (8192 <? N.of_nat n)%N then (s, [OptRv E_INVAL])
      else let '(q, fr) := mq_resize (xq_uwq s) n in
           let '(q', ev) := if mf_resize mf then mq_rerun q else (q, []) in
           (mkXreq q' (xq_urq s) (uwq_sent ev ++ xq_sending s) (xq_ttl s) (xq_closed s), map Free fr ++ flat_map uwq_out ev ++ [OptRv E_OK])
  | PSetOpt None (ORecvBuf n) =>
      if (8192 <? N.of_nat n)%N then (s, [OptRv E_INVAL])
      else let '(q, fr) := mq_resize (xq_urq s) n in
           let '(q', ev) := if mf_resize mf then mq_rerun q else (q, []) in
           (mkXreq (xq_uwq s) q' (xq_sending s) (xq_ttl s) (xq_closed s), map Free fr ++ map urq_out ev ++ [OptRv E_OK])
  | PSetOpt None (OMaxTtl n) =>
      if (n <? BT_TTL_MIN) || (BT_TTL_MAX <? n) then (s, [OptRv E_INVAL])
      else (mkXreq (xq_uwq s) (xq_urq s) (xq_sending s) n (xq_closed s), [OptRv E_OK])
  | PSetOpt _ _ => (s, [OptRv E_NOTSUP])
  | PCtxOpen _ => (s, [OptRv E_NOTSUP])            (* raw mode has no contexts *)
  | PSockClose =>
      (* nni_msgq_close of both upper queues *)
      let uw := xq_uwq s in
      let '(ur, o1) := urq_close (xq_urq s) in
      (mkXreq (mkMq [] (mq_cap uw) [] []) ur (xq_sending s) (xq_ttl s) true,
       o1 ++ map Free (mq_q uw) ++ fail_aios E_CLOSED (map fst (mq_putq uw)))
  | PCtxClose _ | PTick _ => (s, [])
  end.

Definition xreq_poll (s : xreq) : ppoll :=
  mkPoll (Some (mq_recvable (xq_urq s))) (Some (mq_sendable (xq_uwq s))).
