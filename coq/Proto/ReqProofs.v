(* ReqProofs: REQ (cooked) -- matching of replies (C04), retry / progress (C12),
   ownership ledger (C03 clause), non-blocking and poll-descriptor laws (C15). *)
From Coq Require Import List Arith NArith Bool ZArith Lia.
From NngV Require Import Proto.Common Proto.ReqRepBacktrace Proto.ReqModel Proto.ReqRepProofs.
Import ListNotations.

(* a reply with request id `id` can be taken by context k in state s: the id is
   registered for k, the request is on the wire (no send aio) and nothing is stashed *)
Definition matchable (s : req) (id : N) (k : N) (c : rctx) : Prop :=
  lookup id (rq_ids s) = Some k /\ ctx_get s k = Some c /\ cx_send c = None /\ cx_rep c = None.
Definition matchable_b (s : req) (id : N) : bool :=
  match lookup id (rq_ids s) with
  | Some k => match ctx_get s k with
              | Some c => match cx_send c, cx_rep c with None, None => true | _, _ => false end
              | None => false
              end
  | None => false
  end.
Lemma matchable_b_true s id : matchable_b s id = true <-> exists k c, matchable s id k c.
Proof.
  unfold matchable_b, matchable. split.
  - destruct (lookup id (rq_ids s)) as [k|] eqn:E1; [|discriminate].
    destruct (ctx_get s k) as [c|] eqn:E2; [|discriminate].
    destruct (cx_send c) eqn:E3; [discriminate|]. destruct (cx_rep c) eqn:E4; [discriminate|].
    intros _. exists k, c. auto.
  - intros [k [c [H1 [H2 [H3 H4]]]]]. now rewrite H1, H2, H3, H4.
Qed.

(* ------------------------------------------------------------------ *)
(* C04: what a transport receive completion can do                      *)
Lemma recvdone_cases fx s p m :
  req_stepL fx s (PRecvDone p 0 m) =
  match req_recv (pm_body m) with
  | None => (s, [Free m; ClosePipe p], [])
  | Some (id, m') =>
      if matchable_b s id then
        match lookup id (rq_ids s) with
        | Some k =>
            match ctx_get s k with
            | Some c =>
                let s0 := if fx_stash fx
                          then set_plist (set_retryq s (remove_id k (rq_retryq s))) (plist_del k (rq_plist s)) else s in
                let s1 := set_ids (set_sendq s0 (remove_id k (rq_sendq s0))) (assoc_del id (rq_ids s0)) (rq_cursor s0) in
                let o1 := match cx_req c with Some r => if retry_on fx c then [Free r] else [] | None => [] end in
                match cx_recv c with
                | Some ra =>
                    (ctx_put s1 k (mkRctx 0 None (cx_send c) None None (cx_retry c) (cx_sretry c) (cx_rtime c) (cx_creset c) false),
                     TranRecv p :: o1 ++ [Complete ra E_OK (Some m')], [])
                | None =>
                    let s2 := ctx_put s1 k (mkRctx 0 None (cx_send c) None (Some m') (cx_retry c) (cx_sretry c) (cx_rtime c) (cx_creset c) false) in
                    ((if N.eqb k 0 then set_readable s2 true else s2), TranRecv p :: o1, [])
                end
            | None => (s, [TranRecv p; Free m'], [])
            end
        | None => (s, [TranRecv p; Free m'], [])
        end
      else (s, [TranRecv p; Free m'], [])
  end.
Proof.
  unfold req_stepL, matchable_b. change (negb (0 =? 0)%N) with false. cbv iota.
  destruct (req_recv (pm_body m)) as [[id m']|]; [|reflexivity].
  destruct (lookup id (rq_ids s)) as [k|]; [|reflexivity].
  destruct (ctx_get s k) as [c|]; [|reflexivity].
  destruct (cx_send c); [reflexivity|]. destruct (cx_rep c); reflexivity.
Qed.

(* req_discard_is_silent: a reply that cannot be matched -- stale, duplicate,
   unknown id, id without the high bit, reply before the request is on the wire,
   reply for a context that already holds one -- changes nothing at all and
   emits only the re-armed receive and Free; a reply shorter than an id
   disconnects its sender (and changes nothing either). *)
Lemma req_discard_silent fx s p m :
  (req_recv (pm_body m) = None -> req_step fx s (PRecvDone p 0 m) = (s, [Free m; ClosePipe p])) /\
  (forall id m', req_recv (pm_body m) = Some (id, m') -> matchable_b s id = false ->
     req_step fx s (PRecvDone p 0 m) = (s, [TranRecv p; Free m'])).
Proof.
  unfold req_step. rewrite recvdone_cases. split.
  - intros ->. reflexivity.
  - intros id m' -> ->. reflexivity.
Qed.

(* req_reply_only_matching, one step: a transport completion hands a message to
   the application (or stashes it) only for the context registered under the
   arriving id, whose request is on the wire and which has no reply yet; the
   message is the wire message minus the id. *)
Lemma not_in_frees fx c a rv b :
  ~ In (Complete a rv b) (match cx_req c with Some r => if retry_on fx c then [Free r] else [] | None => [] end).
Proof. destruct (cx_req c); [destruct (retry_on fx c)|]; cbn; intuition discriminate. Qed.

Lemma req_recvdone_delivery fx s p rv m s' outs a b :
  req_step fx s (PRecvDone p rv m) = (s', outs) ->
  In (Complete a E_OK (Some b)) outs ->
  rv = 0%N /\ exists id k c, req_recv (pm_body m) = Some (id, b) /\ matchable s id k c /\ cx_recv c = Some a.
Proof.
  intros H Hin. destruct (N.eqb_spec rv 0) as [->|Hrv].
  2:{ unfold req_step, req_stepL in H. apply N.eqb_neq in Hrv. rewrite Hrv in H. cbn [negb] in H.
      inversion H; subst. cbn in Hin. destruct Hin as [E|[]]; discriminate. }
  split; [reflexivity|]. unfold req_step in H. rewrite recvdone_cases in H.
  destruct (req_recv (pm_body m)) as [[id m']|] eqn:ER.
  2:{ inversion H; subst. cbn in Hin. destruct Hin as [E|[E|[]]]; discriminate. }
  destruct (matchable_b s id) eqn:EM.
  2:{ inversion H; subst. cbn in Hin. destruct Hin as [E|[E|[]]]; discriminate. }
  apply matchable_b_true in EM. destruct EM as [k [c [H1 [H2 [H3 H4]]]]].
  rewrite H1, H2 in H. cbv zeta in H.
  destruct (cx_recv c) as [ra|] eqn:ERA.
  - inversion H; subst. cbn [In] in Hin. destruct Hin as [E|Hin]; [discriminate|].
    apply in_app_or in Hin. destruct Hin as [Hin|Hin].
    + exfalso. eapply not_in_frees; eauto.
    + cbn in Hin. destruct Hin as [E|[]]. inversion E; subst.
      exists id, k, c. unfold matchable. repeat split; auto.
  - inversion H; subst. cbn [In] in Hin. destruct Hin as [E|Hin]; [discriminate|].
    exfalso. eapply not_in_frees; eauto.
Qed.

(* the other way a reply reaches the application: a receive posted after the
   reply was stashed *)
Lemma req_recv_delivery s k c a nb s' outs b :
  req_ctx_recv s k c a nb = (s', outs) -> In (Complete a E_OK (Some b)) outs -> cx_rep c = Some b /\ cx_recv c = None.
Proof.
  unfold req_ctx_recv. intros H Hin.
  destruct (cx_recv c) eqn:E1; cbn [orb] in H.
  { destruct (cx_creset c); inversion H; subst; cbn in Hin; destruct Hin as [E|[]]; discriminate. }
  destruct (cx_req c) eqn:E2; destruct (cx_rep c) eqn:E3; cbn [orb andb] in H.
  - inversion H; subst. cbn in Hin. destruct Hin as [E|[]]. inversion E; subst. auto.
  - destruct nb; inversion H; subst; cbn in Hin; [destruct Hin as [E|[]]; discriminate|destruct Hin].
  - inversion H; subst. cbn in Hin. destruct Hin as [E|[]]. inversion E; subst. auto.
  - destruct (cx_creset c); inversion H; subst; cbn in Hin; destruct Hin as [E|[]]; discriminate.
Qed.

(* a stash is created only by a matching reply *)
Lemma req_recvdone_stash fx s p m s' k c' b :
  req_step fx s (PRecvDone p 0 m) = (s', []) \/ True ->
  forall outs, req_step fx s (PRecvDone p 0 m) = (s', outs) ->
  ctx_get s' k = Some c' -> cx_rep c' = Some b ->
  (exists c, ctx_get s k = Some c /\ cx_rep c = Some b) \/
  (exists id c, req_recv (pm_body m) = Some (id, b) /\ matchable s id k c /\ cx_recv c = None).
Proof.
  intros _ outs H Hg Hb. unfold req_step in H. rewrite recvdone_cases in H.
  destruct (req_recv (pm_body m)) as [[id m']|] eqn:ER.
  2:{ inversion H; subst. left. eauto. }
  destruct (matchable_b s id) eqn:EM.
  2:{ inversion H; subst. left. eauto. }
  apply matchable_b_true in EM. destruct EM as [k0 [c [H1 [H2 [H3 H4]]]]].
  rewrite H1, H2 in H. cbv zeta in H.
  assert (Hctx : forall st, ctx_get (set_ids (set_sendq (if fx_stash fx then set_plist (set_retryq s (remove_id k0 (rq_retryq s))) (plist_del k0 (rq_plist s)) else s) st)
                                     (assoc_del id (rq_ids (if fx_stash fx then set_plist (set_retryq s (remove_id k0 (rq_retryq s))) (plist_del k0 (rq_plist s)) else s)))
                                     (rq_cursor (if fx_stash fx then set_plist (set_retryq s (remove_id k0 (rq_retryq s))) (plist_del k0 (rq_plist s)) else s))) k = ctx_get s k).
  { intros st. unfold ctx_get. destruct (fx_stash fx); reflexivity. }
  destruct (N.eq_dec k k0) as [->|Hk].
  - destruct (cx_recv c) as [ra|] eqn:ERA.
    + inversion H; subst. unfold ctx_get, ctx_put in Hg. cbn [rq_ctxs set_ctxs] in Hg.
      rewrite lookup_assoc_set_same in Hg. inversion Hg; subst. cbn in Hb. discriminate.
    + inversion H; subst. right. exists id, c.
      assert (Hc' : c' = mkRctx 0 None (cx_send c) None (Some m') (cx_retry c) (cx_sretry c) (cx_rtime c) (cx_creset c) false).
      { destruct (k0 =? 0)%N; unfold ctx_get, ctx_put in Hg; cbn [rq_ctxs set_ctxs set_readable] in Hg;
          rewrite lookup_assoc_set_same in Hg; now inversion Hg. }
      subst c'. cbn in Hb. inversion Hb; subst. unfold matchable. repeat split; auto.
  - left. exists c'. split; [|exact Hb].
    destruct (cx_recv c) as [ra|] eqn:ERA; inversion H; subst.
    + unfold ctx_get, ctx_put in Hg. cbn [rq_ctxs set_ctxs] in Hg. rewrite lookup_assoc_set_other in Hg by exact Hk.
      rewrite <- Hg. symmetry. apply Hctx.
    + assert (Hg2 : ctx_get (ctx_put (set_ids (set_sendq (if fx_stash fx then set_plist (set_retryq s (remove_id k0 (rq_retryq s))) (plist_del k0 (rq_plist s)) else s)
                                  (remove_id k0 (rq_sendq (if fx_stash fx then set_plist (set_retryq s (remove_id k0 (rq_retryq s))) (plist_del k0 (rq_plist s)) else s))))
                                  (assoc_del id (rq_ids (if fx_stash fx then set_plist (set_retryq s (remove_id k0 (rq_retryq s))) (plist_del k0 (rq_plist s)) else s)))
                                  (rq_cursor (if fx_stash fx then set_plist (set_retryq s (remove_id k0 (rq_retryq s))) (plist_del k0 (rq_plist s)) else s)))
                                  k0 (mkRctx 0 None (cx_send c) None (Some m') (cx_retry c) (cx_sretry c) (cx_rtime c) (cx_creset c) false)) k = Some c').
      { destruct (k0 =? 0)%N; exact Hg. }
      unfold ctx_get, ctx_put in Hg2. cbn [rq_ctxs set_ctxs] in Hg2. rewrite lookup_assoc_set_other in Hg2 by exact Hk.
      rewrite <- Hg2. symmetry. apply Hctx.
Qed.

(* after a match the id is gone and the context holds no request: a second copy
   of the same reply (or any later one with that id) is discarded *)
Lemma req_match_consumes fx s p m s' outs id b k c :
  req_step fx s (PRecvDone p 0 m) = (s', outs) ->
  req_recv (pm_body m) = Some (id, b) -> matchable s id k c ->
  lookup id (rq_ids s') = None /\
  exists c', ctx_get s' k = Some c' /\ cx_rid c' = 0%N /\ cx_req c' = None /\ cx_recv c' = None /\
             (cx_recv c = None -> cx_rep c' = Some b) /\
             (forall a, cx_recv c = Some a -> In (Complete a E_OK (Some b)) outs /\ cx_rep c' = None).
Proof.
  intros H ER HM. unfold req_step in H. rewrite recvdone_cases, ER in H.
  assert (EM : matchable_b s id = true) by (apply matchable_b_true; eauto).
  rewrite EM in H. destruct HM as [H1 [H2 [H3 H4]]]. rewrite H1, H2 in H. cbv zeta in H.
  assert (Hids : forall st cur, rq_ids (set_ids st (assoc_del id (rq_ids st)) cur) = assoc_del id (rq_ids st)) by reflexivity.
  destruct (cx_recv c) as [ra|] eqn:ERA; inversion H; subst; clear H.
  - split.
    + unfold ctx_put. cbn [rq_ids set_ctxs set_ids]. apply lookup_assoc_del_same.
    + eexists. split; [unfold ctx_get, ctx_put; cbn [rq_ctxs set_ctxs]; apply lookup_assoc_set_same|].
      cbn [cx_rid cx_req cx_recv cx_rep]. split; [reflexivity|]. split; [reflexivity|]. split; [reflexivity|].
      split; [intros E; discriminate|]. intros a0 E. inversion E; subst. split; [|reflexivity].
      apply in_cons, in_or_app. right. left. reflexivity.
  - split.
    + destruct (k =? 0)%N; unfold ctx_put; cbn [rq_ids set_ctxs set_ids set_readable]; apply lookup_assoc_del_same.
    + eexists. split.
      * destruct (k =? 0)%N; unfold ctx_get, ctx_put; cbn [rq_ctxs set_ctxs set_readable]; apply lookup_assoc_set_same.
      * cbn [cx_rid cx_req cx_recv cx_rep]. split; [reflexivity|]. split; [reflexivity|]. split; [reflexivity|].
        split; [reflexivity|]. intros a0 E. discriminate.
Qed.

(* ------------------------------------------------------------------ *)
(* C04: state errors of req0_ctx_recv / req0_ctx_send                   *)
Lemma req_recv_before_send s k c a nb :
  cx_recv c = None -> cx_req c = None -> cx_rep c = None -> cx_creset c = false ->
  req_ctx_recv s k c a nb = (s, [Complete a E_STATE None]).
Proof. intros H1 H2 H3 H4. unfold req_ctx_recv. now rewrite H1, H2, H3, H4. Qed.

Lemma req_second_recv s k c a nb ra :
  cx_recv c = Some ra -> cx_creset c = false -> req_ctx_recv s k c a nb = (s, [Complete a E_STATE None]).
Proof. intros H1 H4. unfold req_ctx_recv. now rewrite H1, H4. Qed.

(* with the conn_reset mark (set by a pipe loss in no-retry mode) the same two
   situations report NNG_ECONNRESET once, and clear the mark *)
Lemma req_recv_connreset s k c a nb :
  (cx_recv c <> None \/ (cx_req c = None /\ cx_rep c = None)) -> cx_creset c = true ->
  exists s', req_ctx_recv s k c a nb = (s', [Complete a E_CONNRESET None]) /\
             exists c', ctx_get s' k = Some c' /\ cx_creset c' = false.
Proof.
  intros H1 H4. unfold req_ctx_recv. rewrite H4.
  assert (E : (match cx_recv c with Some _ => true | None => false end
               || (match cx_req c with None => true | Some _ => false end && match cx_rep c with None => true | Some _ => false end)) = true).
  { destruct H1 as [H1|[H1 H2]].
    - destruct (cx_recv c); [reflexivity|congruence].
    - rewrite H1, H2. apply orb_true_r. }
  rewrite E. eexists. split; [reflexivity|]. eexists. split.
  - unfold ctx_get, ctx_put. cbn [rq_ctxs set_ctxs]. apply lookup_assoc_set_same.
  - reflexivity.
Qed.

(* a new request cancels the old send / receive pair with NNG_ECANCELED *)
Lemma req_send_cancels_old fx s k c a nb m s' outs cl :
  rq_closed s = false -> req_ctx_send fx s k c a nb m = (s', outs, cl) ->
  (forall ra, cx_recv c = Some ra -> In (Complete ra E_CANCELED None) outs) /\
  (forall sa, cx_send c = Some sa -> In (Complete sa E_CANCELED None) outs).
Proof.
  intros Hc H. unfold req_ctx_send in H. rewrite Hc in H.
  set (o1 := match cx_recv c with Some ra => [Complete ra E_CANCELED None] | None => [] end) in *.
  destruct (match cx_send c with
            | Some sa => (set_sendq s (remove_id k (rq_sendq s)),
                          mkRctx (cx_rid c) None None None (cx_rep c) (cx_retry c) (cx_sretry c) (cx_rtime c) (cx_creset c) false,
                          [Complete sa E_CANCELED None])
            | None => (s, mkRctx (cx_rid c) None None (cx_req c) (cx_rep c) (cx_retry c) (cx_sretry c) (cx_rtime c) (cx_creset c) (cx_owned c), [])
            end) as [[s1 c1] o2] eqn:E2.
  destruct (ctx_reset fx s1 k c1) as [[s2 c2] o3] eqn:E3.
  assert (Ho : exists rest, outs = o1 ++ o2 ++ rest).
  { destruct (REQ_ID_MAX - REQ_ID_MIN <? N.of_nat (length (rq_ids s2)))%N; [inversion H; eauto|].
    destruct (id_alloc (S (length (rq_ids s2))) (rq_ids s2) (rq_cursor s2)) as [[id cur']|]; [|inversion H; eauto].
    destruct (is_nil (rq_ready s2) && nb); [inversion H; eauto|].
    cbv zeta in H.
    match type of H with context [if ?b then (set_timer _ _ _, _) else _] => destruct b end;
    match type of H with context [run_send_queue fx ?X] => destruct (run_send_queue fx X) as [[s7 o5] cl'] end;
    inversion H; subst; eauto. }
  destruct Ho as [rest ->]. split.
  - intros ra E. subst o1. rewrite E. apply in_or_app. left. left. reflexivity.
  - intros sa E. rewrite E in E2. inversion E2; subst. apply in_or_app. right. apply in_or_app. left. left. reflexivity.
Qed.

(* ------------------------------------------------------------------ *)
(* C12: req0_run_send_queue                                             *)
Lemma run_sendq_head fx f s k sq p rd c m :
  rq_sendq s = k :: sq -> rq_ready s = p :: rd -> ctx_get s k = Some c -> cx_req c = Some m ->
  exists s' outs cl, run_sendq fx (S f) s = (s', outs, cl) /\ In (TranSend p m) outs.
Proof.
  intros H1 H2 H3 H4. cbn [run_sendq]. rewrite H1, H2, H3, H4.
  match goal with |- context [run_sendq fx f ?X] => destruct (run_sendq fx f X) as [[s7 outs] cl] end.
  do 3 eexists. split; [reflexivity|]. apply in_or_app. right. left. reflexivity.
Qed.

Lemma req_sent_when_ready fx s k sq p rd c m :
  rq_sendq s = k :: sq -> rq_ready s = p :: rd -> ctx_get s k = Some c -> cx_req c = Some m ->
  exists s' outs cl, run_send_queue fx s = (s', outs, cl) /\ In (TranSend p m) outs.
Proof.
  intros H1 H2 H3 H4. unfold run_send_queue. rewrite H1. cbn [length]. eapply run_sendq_head; eauto.
Qed.

(* ------------------------------------------------------------------ *)
(* ids: nni_id_alloc on the requests map                                *)
Definition cursor_ok (cur : N) : Prop := (REQ_ID_MIN <= cur <= REQ_ID_MAX)%N.
Lemma id_next_ok cur : cursor_ok cur -> cursor_ok (id_next cur).
Proof.
  unfold cursor_ok, id_next, REQ_ID_MIN, REQ_ID_MAX. intros H.
  destruct (N.ltb_spec 4294967295 (cur + 1)); lia.
Qed.
Lemma id_alloc_fresh f ids cur id cur' :
  id_alloc f ids cur = Some (id, cur') -> cursor_ok cur ->
  lookup id ids = None /\ cursor_ok id /\ cursor_ok cur'.
Proof.
  revert cur. induction f as [|f IH]; intros cur H Hc; cbn [id_alloc] in H; [discriminate|].
  destruct (lookup cur ids) eqn:E.
  - apply IH in H; auto. now apply id_next_ok.
  - inversion H; subst. split; [exact E|]. split; [exact Hc|]. now apply id_next_ok.
Qed.

(* ------------------------------------------------------------------ *)
(* C12: what req0_run_send_queue does to a queued request               *)
Definition pending (s : req) (k : N) (m : pmsg) : Prop :=
  In k (rq_sendq s) /\ exists c, ctx_get s k = Some c /\ cx_req c = Some m.

Lemma ctx_get_put_same s k c : ctx_get (ctx_put s k c) k = Some c.
Proof. unfold ctx_get, ctx_put. cbn [rq_ctxs set_ctxs]. apply lookup_assoc_set_same. Qed.
Lemma ctx_get_put_other s k k' c : k' <> k -> ctx_get (ctx_put s k c) k' = ctx_get s k'.
Proof. intros H. unfold ctx_get, ctx_put. cbn [rq_ctxs set_ctxs]. now apply lookup_assoc_set_other. Qed.

Lemma run_sendq_pending fx f : forall s k m s' outs cl,
  pending s k m -> run_sendq fx f s = (s', outs, cl) ->
  pending s' k m \/ exists p, In (TranSend p m) outs.
Proof.
  induction f as [|f IH]; intros s k m s' outs cl Hp H; cbn [run_sendq] in H.
  - inversion H; subst. auto.
  - destruct (rq_sendq s) as [|k0 sq] eqn:ES.
    { inversion H; subst. left. exact Hp. }
    destruct (rq_ready s) as [|p rd] eqn:ER.
    { inversion H; subst. left. exact Hp. }
    destruct Hp as [Hin [c [Hg Hr]]]. rewrite ES in Hin.
    destruct (ctx_get s k0) as [c0|] eqn:EG0.
    2:{ destruct (N.eq_dec k0 k) as [->|Hne]; [congruence|].
        eapply IH; [|exact H]. split; [cbn [rq_sendq set_sendq]; destruct Hin; [congruence|auto]|].
        exists c. split; auto. }
    destruct (cx_req c0) as [m0|] eqn:ER0.
    2:{ destruct (N.eq_dec k0 k) as [->|Hne]; [congruence|].
        eapply IH; [|exact H]. split; [cbn [rq_sendq set_sendq]; destruct Hin; [congruence|auto]|].
        exists c. split; auto. }
    match type of H with context [run_sendq fx f ?X] => destruct (run_sendq fx f X) as [[s7 o7] cl7] eqn:E7 end.
    inversion H; subst; clear H.
    destruct (N.eq_dec k0 k) as [->|Hne].
    + right. exists p. apply in_or_app. right. left. rewrite Hg in EG0. inversion EG0; subst. congruence.
    + eapply IH in E7.
      * destruct E7 as [E7|[q E7]]; [left; exact E7|right; exists q; apply in_or_app; right; right; exact E7].
      * split.
        -- cbn [rq_sendq set_sending set_sendq ctx_put set_ctxs]. destruct Hin as [E|Hin]; [congruence|].
           destruct (retry_on fx c0); destruct (is_nil rd); cbn [rq_sendq set_sending set_sendq ctx_put set_ctxs set_writable set_pipes set_plist set_retryq]; exact Hin.
        -- exists c. split; [|exact Hr].
           unfold ctx_get. cbn [rq_ctxs set_sending ctx_put set_ctxs].
           rewrite lookup_assoc_set_other by congruence.
           destruct (retry_on fx c0); destruct (is_nil rd); cbn [rq_ctxs set_writable set_pipes set_plist set_retryq set_sendq]; exact Hg.
Qed.

Lemma run_send_queue_pending fx s k m s' outs cl :
  pending s k m -> run_send_queue fx s = (s', outs, cl) -> pending s' k m \/ exists p, In (TranSend p m) outs.
Proof. unfold run_send_queue. apply run_sendq_pending. Qed.

(* req0_retry_cb's scan: an expired context with a request ends on the send queue *)
Lemma retry_scan_keeps s now ks : forall sq k, In k sq -> In k (fst (retry_scan s now ks sq)).
Proof.
  induction ks as [|k0 ks IH]; intros sq k Hin; cbn [retry_scan]; [exact Hin|].
  destruct (ctx_get s k0) as [c0|]; [|auto].
  destruct ((now <? cx_rtime c0)%N || match cx_req c0 with None => true | Some _ => false end); [auto|].
  destruct (retry_scan s now ks (if has_id k0 sq then sq else sq ++ [k0])) as [sq' b] eqn:E. cbn [fst].
  replace sq' with (fst (retry_scan s now ks (if has_id k0 sq then sq else sq ++ [k0]))) by (rewrite E; reflexivity).
  apply IH. destruct (has_id k0 sq); [exact Hin|apply in_or_app; auto].
Qed.
Lemma retry_scan_queues s now ks : forall sq k c m,
  In k ks -> ctx_get s k = Some c -> cx_req c = Some m -> (cx_rtime c <= now)%N ->
  In k (fst (retry_scan s now ks sq)) /\ snd (retry_scan s now ks sq) = true.
Proof.
  induction ks as [|k0 ks IH]; intros sq k c m Hin Hg Hr Ht; [destruct Hin|].
  cbn [retry_scan]. destruct (N.eq_dec k0 k) as [->|Hne].
  - rewrite Hg, Hr. destruct (N.ltb_spec now (cx_rtime c)); [lia|]. cbn [orb].
    destruct (retry_scan s now ks (if has_id k sq then sq else sq ++ [k])) as [sq' b] eqn:E. cbn [fst snd]. split; [|reflexivity].
    replace sq' with (fst (retry_scan s now ks (if has_id k sq then sq else sq ++ [k]))) by (rewrite E; reflexivity).
    apply retry_scan_keeps. destruct (has_id k sq) eqn:EH; [now apply has_id_true|apply in_or_app; right; left; reflexivity].
  - destruct Hin as [E|Hin]; [congruence|].
    destruct (ctx_get s k0) as [c0|]; [|eapply IH; eauto].
    destruct ((now <? cx_rtime c0)%N || match cx_req c0 with None => true | Some _ => false end); [eapply IH; eauto|].
    destruct (retry_scan s now ks (if has_id k0 sq then sq else sq ++ [k0])) as [sq' b] eqn:E. cbn [fst snd].
    specialize (IH (if has_id k0 sq then sq else sq ++ [k0]) k c m Hin Hg Hr Ht). rewrite E in IH. cbn [fst snd] in IH. tauto.
Qed.

(* req_resend_on_tick: the retry timer fires (strictly after its deadline) with
   the clock at or past the context's retry time: the request is queued again,
   and transmitted at once if a pipe is ready *)
Lemma req_tick_resends fx s now d k c m s' outs :
  rq_closed s = false -> rq_active s = true -> rq_tickdl s = Some d -> (d < now)%N ->
  In k (rq_retryq s) -> ctx_get s k = Some c -> cx_req c = Some m -> (cx_rtime c <= now)%N ->
  req_step fx s (PTick now) = (s', outs) ->
  pending s' k m \/ exists p, In (TranSend p m) outs.
Proof.
  intros Hc Ha Hd Hlt Hin Hg Hr Ht H. unfold req_step, req_stepL in H.
  cbn [rq_closed rq_active rq_tickdl set_now] in H. rewrite Hc, Ha, Hd in H. cbn [orb negb] in H.
  destruct (N.ltb_spec d now); [|lia]. cbn [negb] in H.
  assert (Hg0 : ctx_get (set_now s now) k = Some c) by exact Hg.
  pose proof (retry_scan_queues (set_now s now) now (rq_retryq (set_now s now)) (rq_sendq (set_now s now)) k c m Hin Hg0 Hr Ht) as [Hq Hs].
  destruct (retry_scan (set_now s now) now (rq_retryq (set_now s now)) (rq_sendq (set_now s now))) as [sq resched] eqn:E.
  cbn [fst snd] in Hq, Hs. subst resched.
  match type of H with context [if is_nil ?L then _ else _] => destruct (is_nil L) end.
  - match type of H with context [run_send_queue fx ?X] => destruct (run_send_queue fx X) as [[s3 o2] cl] eqn:E3 end.
    inversion H; subst. eapply run_send_queue_pending in E3.
    + destruct E3 as [E3|[p E3]]; [left; exact E3|right; exists p; exact E3].
    + split; [exact Hq|]. exists c. split; [exact Hg|exact Hr].
  - match type of H with context [run_send_queue fx ?X] => destruct (run_send_queue fx X) as [[s3 o2] cl] eqn:E3 end.
    inversion H; subst. eapply run_send_queue_pending in E3.
    + destruct E3 as [E3|[p E3]]; [left; exact E3|right; exists p; apply in_or_app; right; exact E3].
    + split; [exact Hq|]. exists c. split; [exact Hg|exact Hr].
Qed.

(* a matching reply completes the pending receive *)
Lemma req_match_completes fx s p m id b k c a :
  req_recv (pm_body m) = Some (id, b) -> matchable s id k c -> cx_recv c = Some a ->
  exists s', exists outs, req_step fx s (PRecvDone p 0 m) = (s', outs) /\ In (Complete a E_OK (Some b)) outs.
Proof.
  intros ER HM HA. destruct (req_step fx s (PRecvDone p 0 m)) as [s' outs] eqn:E.
  exists s', outs. split; [reflexivity|].
  pose proof (req_match_consumes fx s p m s' outs id b k c E ER HM) as [_ [c' [_ [_ [_ [_ [_ H]]]]]]].
  apply (H a HA).
Qed.

(* bounded progress, one pipe at a time: with no ready pipe, a new pipe takes the
   head of the send queue; every other queued request moves up one place *)
Lemma req_pipe_start_progress fx s p k sq c m s' outs :
  rq_ready s = [] -> rq_sendq s = k :: sq -> ctx_get s k = Some c -> cx_req c = Some m ->
  req_step fx s (PPipeStart p PROTO_REP) = (s', outs) ->
  In (TranSend p m) outs.
Proof.
  intros Hr Hs Hg Hq H. unfold req_step, req_stepL in H. change (negb (PROTO_REP =? PROTO_REP)%N) with false in H. cbv iota in H.
  match type of H with context [run_send_queue fx ?X] =>
    destruct (req_sent_when_ready fx X k sq p [] c m) as [s2 [o2 [cl [E Hin]]]] end.
  - exact Hs.
  - cbn [rq_ready set_writable set_pipes]. now rewrite Hr.
  - exact Hg.
  - exact Hq.
  - rewrite E in H. inversion H; subst. apply in_or_app. left. exact Hin.
Qed.

(* ------------------------------------------------------------------ *)
(* C12: req0_pipe_close                                                 *)
(* the state in which req0_pipe_close starts walking the pipe's list *)
Definition pc_start (s : req) (p : pid) : req :=
  let s1 := set_pipes s (remove_id p (rq_ready s)) (remove_id p (rq_busy s)) (rq_pclosed s ++ [p]) in
  if is_nil (rq_ready s1) then set_writable s1 false else s1.
Lemma pc_start_plist s p : rq_plist (pc_start s p) = rq_plist s.
Proof. unfold pc_start. cbv zeta. match goal with |- context [if ?b then _ else _] => destruct b end; reflexivity. Qed.
Lemma pc_start_ctx s p k : ctx_get (pc_start s p) k = ctx_get s k.
Proof. unfold pc_start. cbv zeta. match goal with |- context [if ?b then _ else _] => destruct b end; reflexivity. Qed.
Lemma pc_start_sendq s p : rq_sendq (pc_start s p) = rq_sendq s.
Proof. unfold pc_start. cbv zeta. match goal with |- context [if ?b then _ else _] => destruct b end; reflexivity. Qed.
Lemma pc_start_now s p : rq_now (pc_start s p) = rq_now s.
Proof. unfold pc_start. cbv zeta. match goal with |- context [if ?b then _ else _] => destruct b end; reflexivity. Qed.

Lemma req_pipe_close_unfold fx s p : req_stepL fx s (PPipeClose p) = pipe_close_loop fx (length (rq_plist (pc_start s p))) (pc_start s p) p.
Proof. reflexivity. Qed.

(* retry enabled: the context last written to the lost pipe goes back to the
   send queue with its request intact (and out again at once if a pipe is ready) *)
Lemma req_pipe_loss_requeues fx s p k c m s' outs :
  rq_plist s = [(p, k)] -> ctx_get s k = Some c -> retry_on fx c = true -> cx_req c = Some m ->
  req_step fx s (PPipeClose p) = (s', outs) ->
  pending s' k m \/ exists q, In (TranSend q m) outs.
Proof.
  intros Hpl Hg Hrt Hrq H. unfold req_step in H. rewrite req_pipe_close_unfold, pc_start_plist, Hpl in H.
  cbn [length pipe_close_loop] in H. rewrite pc_start_plist, Hpl in H. cbn [first_on] in H. rewrite N.eqb_refl in H.
  assert (Hd : plist_del k [(p, k)] = []) by (unfold plist_del; cbn [filter snd]; now rewrite N.eqb_refl).
  rewrite Hd in H.
  assert (Hg0 : ctx_get (set_plist (pc_start s p) []) k = Some c) by (rewrite <- Hg; apply (pc_start_ctx s p k)).
  rewrite Hg0, Hrt in H. cbn [negb] in H. cbv iota in H.
  destruct (cx_req c) as [m0|] eqn:Erq; [|discriminate]. inversion Hrq; subst m0.
  match type of H with context [if has_id k ?X then _ else _] => destruct (has_id k X) eqn:EH end.
  - inversion H; subst. left. split.
    + apply has_id_true in EH. exact EH.
    + eexists. split; [apply ctx_get_put_same|]. reflexivity.
  - match type of H with context [run_send_queue fx ?X] => destruct (run_send_queue fx X) as [[s3 o3] cl3] eqn:E3 end.
    inversion H; subst. rewrite !app_nil_r. eapply run_send_queue_pending in E3.
    + destruct E3 as [E3|[q E3]]; [left; exact E3|right; exists q; exact E3].
    + split.
      * cbn [rq_sendq set_sendq]. apply in_or_app. right. left. reflexivity.
      * eexists. split; [unfold ctx_get; cbn [rq_ctxs set_sendq]; apply ctx_get_put_same|]. reflexivity.
Qed.

(* resending disabled: losing the connection completes the pending receive with
   NNG_ECONNRESET, or marks the context so that the next receive reports it; the
   request is gone either way (it is never queued again) *)
Lemma req_pipe_loss_noretry fx s p k c s' outs :
  rq_plist s = [(p, k)] -> ctx_get s k = Some c -> retry_on fx c = false ->
  req_step fx s (PPipeClose p) = (s', outs) ->
  ~ In k (rq_sendq s') /\
  exists c', ctx_get s' k = Some c' /\ cx_req c' = None /\ cx_recv c' = None /\
    (forall a, cx_recv c = Some a -> In (Complete a E_CONNRESET None) outs) /\
    (cx_recv c = None -> cx_creset c' = true).
Proof.
  intros Hpl Hg Hrt H. unfold req_step in H. rewrite req_pipe_close_unfold, pc_start_plist, Hpl in H.
  cbn [length pipe_close_loop] in H. rewrite pc_start_plist, Hpl in H. cbn [first_on] in H. rewrite N.eqb_refl in H.
  assert (Hd : plist_del k [(p, k)] = []) by (unfold plist_del; cbn [filter snd]; now rewrite N.eqb_refl).
  rewrite Hd in H.
  assert (Hg0 : ctx_get (set_plist (pc_start s p) []) k = Some c) by (rewrite <- Hg; apply (pc_start_ctx s p k)).
  rewrite Hg0, Hrt in H. cbn [negb] in H.
  assert (Hnot : forall st, ~ In k (remove_id k st)) by (intros st Hin; apply in_remove_id in Hin; tauto).
  destruct (cx_recv c) as [ra|] eqn:ERA.
  - unfold ctx_reset in H. cbv zeta in H.
    match type of H with context [if (cx_rid ?C =? 0)%N then ?A else ?B] => destruct (cx_rid C =? 0)%N end;
    match type of H with context [if ?b then set_readable _ false else _] => destruct b end;
    inversion H; subst; (split; [cbn [rq_sendq ctx_put set_ctxs set_readable set_ids set_plist set_sendq set_retryq]; apply Hnot|]);
    (eexists; split; [apply ctx_get_put_same|]); cbn [cx_req cx_recv cx_creset];
    (split; [reflexivity|]); (split; [reflexivity|]); (split; [intros a E; inversion E; subst; left; reflexivity|intros E; discriminate]).
  - unfold ctx_reset in H. cbv zeta in H.
    match type of H with context [if (cx_rid ?C =? 0)%N then ?A else ?B] => destruct (cx_rid C =? 0)%N end;
    match type of H with context [if ?b then set_readable _ false else _] => destruct b end;
    inversion H; subst; (split; [cbn [rq_sendq ctx_put set_ctxs set_readable set_ids set_plist set_sendq set_retryq]; apply Hnot|]);
    (eexists; split; [apply ctx_get_put_same|]); cbn [cx_req cx_recv cx_creset];
    (split; [reflexivity|]); (split; [exact ERA|]); (split; [intros a E; discriminate|intros E; reflexivity]).
Qed.

(* ------------------------------------------------------------------ *)
(* histories                                                            *)
Fixpoint req_run (fx : rfix) (s : req) (ops : list pop) : req * list (pop * req * list pout * list pmsg) :=
  match ops with
  | [] => (s, [])
  | o :: r => let '(s1, outs, cl) := req_stepL fx s o in
              let '(s2, tr) := req_run fx s1 r in (s2, (o, s, outs, cl) :: tr)
  end.

(* ------------------------------------------------------------------ *)
(* C03 clause: the reference ledger of request messages.
   The protocol's references to message x change by
     + 1  when a send is accepted (the caller's reference is taken over),
     + 1  per clone,
     + 1  when a failed transport send leaves the message on the pipe's aio,
     - 1  per Free, per hand-over to a transport (TranSend), and when a queued
          request goes back to its aio (cancel / supersede / close).
   The balance may never become negative (that is a double free or the use of
   a freed message) and once nothing refers to x any more it must be zero (else
   x has leaked). *)
Fixpoint bytes_eqb (a b : list N) : bool :=
  match a, b with
  | [], [] => true
  | x :: a', y :: b' => N.eqb x y && bytes_eqb a' b'
  | _, _ => false
  end.
Definition msg_eqb (a b : pmsg) : bool := bytes_eqb (pm_hdr a) (pm_hdr b) && bytes_eqb (pm_body a) (pm_body b).
Definition opt_msg_is (x : pmsg) (o : option pmsg) : bool := match o with Some m => msg_eqb x m | None => false end.
Fixpoint n_free (x : pmsg) (outs : list pout) : nat :=
  match outs with [] => 0 | Free m :: r => (if msg_eqb x m then 1 else 0) + n_free x r | _ :: r => n_free x r end.
Fixpoint n_tx (x : pmsg) (outs : list pout) : nat :=
  match outs with [] => 0 | TranSend _ m :: r => (if msg_eqb x m then 1 else 0) + n_tx x r | _ :: r => n_tx x r end.
Fixpoint n_msgs (x : pmsg) (l : list pmsg) : nat :=
  match l with [] => 0 | m :: r => (if msg_eqb x m then 1 else 0) + n_msgs x r end.
Fixpoint aio_failed (a : aioid) (outs : list pout) : bool :=
  match outs with
  | [] => false
  | Complete b rv _ :: r => (N.eqb a b && negb (N.eqb rv 0)) || aio_failed a r
  | _ :: r => aio_failed a r
  end.
(* queued requests (send aio still pending) that go back to their aio in this step *)
Definition n_returned (x : pmsg) (s : req) (outs : list pout) : nat :=
  length (filter (fun kc => match cx_send (snd kc) with
                            | Some sa => aio_failed sa outs && opt_msg_is x (cx_req (snd kc))
                            | None => false end) (rq_ctxs s)).
Definition n_accepted (x : pmsg) (o : pop) (s' : req) (outs : list pout) : nat :=
  match o with
  | PSend c a _ _ => if aio_failed a outs then 0
                     else match ctx_get s' (ckey c) with Some cx => if opt_msg_is x (cx_req cx) then 1 else 0 | None => 0 end
  | _ => 0
  end.
Definition n_regained (x : pmsg) (s : req) (o : pop) : nat :=
  match o with
  | PSendDone p rv => if N.eqb rv 0 then 0 else n_msgs x (map snd (filter (fun e => N.eqb (fst e) p) (rq_sending s)))
  | _ => 0
  end.
(* how many protocol-side pointers refer to x *)
Definition n_pointers (x : pmsg) (s : req) : nat :=
  length (filter (fun kc => opt_msg_is x (cx_req (snd kc))) (rq_ctxs s)).

Fixpoint ledger (fx : rfix) (x : pmsg) (s : req) (ops : list pop) (bal : Z) (ok : bool) : Z * bool * req :=
  match ops with
  | [] => (bal, ok, s)
  | o :: r =>
      let '(s', outs, cl) := req_stepL fx s o in
      let bal' := (bal + Z.of_nat (n_accepted x o s' outs + n_msgs x cl + n_regained x s o)
                   - Z.of_nat (n_free x outs + n_tx x outs + n_returned x s outs))%Z in
      ledger fx x s' r bal' (ok && (0 <=? bal')%Z)
  end.

Definition fx_pinned : rfix := mkFix false false false false.
Definition fx_repaired : rfix := mkFix true true true true.
Definition w_req : pmsg := mkPmsg [] [170%N; 1%N].
Definition w_wire : pmsg := req_send (REQ_ID_MIN + 1) w_req.           (* the request as stored / transmitted *)
Definition w_reply : pmsg := mkPmsg [] (be32 (REQ_ID_MIN + 1) ++ [187%N]).
(* resend disabled at send time (not cloned), enabled before the reply (freed as if cloned) *)
Definition w_uaf : list pop :=
  [PSetOpt None (OResendTime (-1)); PPipeStart 1%N PROTO_REP; PSend None 0%N false w_req; PSendDone 1%N 0%N;
   PSetOpt None (OResendTime 1000); PRecvDone 1%N 0%N w_reply].
(* resend enabled at send time (cloned), disabled before the reply (not freed) *)
Definition w_leak : list pop :=
  [PPipeStart 1%N PROTO_REP; PSend None 0%N false w_req; PSendDone 1%N 0%N;
   PSetOpt None (OResendTime (-1)); PRecvDone 1%N 0%N w_reply; PSockClose].
(* queued with resend 5 s, disabled before a pipe arrives (handed over un-cloned but
   still on the retry queue): the retry timer transmits the freed message again *)
Definition w_resend : list pop :=
  [PSetOpt None (OResendTime 5000); PSend None 0%N false w_req; PSetOpt None (OResendTime (-1));
   PPipeStart 1%N PROTO_REP; PSendDone 1%N 0%N; PTick 7000%N].

Lemma req_clone_policy_refuted_w :
  (let '(bal, ok, s) := ledger fx_pinned w_wire req_init w_uaf 0%Z true in ok = false) /\
  (let '(bal, ok, s) := ledger fx_pinned w_wire req_init w_leak 0%Z true in (0 < bal)%Z /\ n_pointers w_wire s = 0) /\
  (let '(bal, ok, s) := ledger fx_pinned w_wire req_init w_resend 0%Z true in ok = false).
Proof. vm_compute. repeat split; reflexivity. Qed.

Lemma req_clone_policy_repaired_w :
  (let '(bal, ok, s) := ledger fx_repaired w_wire req_init w_uaf 0%Z true in ok = true /\ bal = 0%Z /\ n_pointers w_wire s = 0) /\
  (let '(bal, ok, s) := ledger fx_repaired w_wire req_init w_leak 0%Z true in ok = true /\ bal = 0%Z /\ n_pointers w_wire s = 0) /\
  (let '(bal, ok, s) := ledger fx_repaired w_wire req_init w_resend 0%Z true in ok = true /\ bal = Z.of_nat (n_pointers w_wire s)).
Proof. vm_compute. repeat split; reflexivity. Qed.

(* ------------------------------------------------------------------ *)
(* C15 clauses for cooked REQ                                           *)
(* non-blocking receive: completes in the step; NNG_EAGAIN exactly when the
   blocking form would be queued (a request is outstanding, nothing stashed, no
   receive pending), and then nothing changes *)
Lemma req_nb_recv s k c a :
  exists rv mo s', req_ctx_recv s k c a true = (s', [Complete a rv mo]) /\
    (rv = E_AGAIN -> s' = s /\ mo = None /\ cx_recv c = None /\ cx_req c <> None /\ cx_rep c = None) /\
    (cx_recv c = None -> cx_req c <> None -> cx_rep c = None -> rv = E_AGAIN) /\
    (cx_recv c = None -> forall m, cx_rep c = Some m -> rv = E_OK /\ mo = Some m).
Proof.
  unfold req_ctx_recv.
  destruct (cx_recv c) eqn:E1; cbn [orb].
  { destruct (cx_creset c); do 3 eexists; (split; [reflexivity|]); repeat split; try discriminate; try congruence. }
  destruct (cx_req c) eqn:E2; destruct (cx_rep c) eqn:E3; cbn [orb andb].
  - do 3 eexists. split; [reflexivity|]. repeat split; try discriminate; try congruence.
  - do 3 eexists. split; [reflexivity|]. repeat split; try discriminate; try congruence.
  - do 3 eexists. split; [reflexivity|]. repeat split; try discriminate; try congruence.
  - destruct (cx_creset c); do 3 eexists; (split; [reflexivity|]); repeat split; try discriminate; try congruence.
Qed.

(* ... but a refused non-blocking send is not a no-op: it has already cancelled
   the previous request of the context (state machine reset, stashed reply freed) *)
Definition w_nbsend : list pop :=
  [PPipeStart 1%N PROTO_REP; PSend None 0%N false w_req; PSendDone 1%N 0%N; PRecvDone 1%N 0%N w_reply;
   PPipeClose 1%N; PSend None 9%N true w_req; PRecv None 9%N true].
Definition outs_of (tr : list (pop * req * list pout * list pmsg)) : list (list pout) := map (fun x => snd (fst x)) tr.
Lemma req_nb_send_state_refuted_w :
  forall fx, fx = fx_pinned \/ fx = fx_repaired ->
  nth 5 (outs_of (snd (req_run fx req_init w_nbsend))) [] = [Free (mkPmsg [] [187%N]); Complete 9%N E_AGAIN None] /\
  nth 6 (outs_of (snd (req_run fx req_init w_nbsend))) [] = [Complete 9%N E_STATE None].
Proof. intros fx [->| ->]; vm_compute; split; reflexivity. Qed.

(* the receive descriptor: raised while nothing can be received (pinned) *)
Definition w_rdpoll : list pop :=
  [PPipeStart 1%N PROTO_REP; PSend None 0%N false w_req; PSendDone 1%N 0%N; PRecvDone 1%N 0%N w_reply;
   PSend None 1%N false w_req].
Lemma req_poll_mirror_refuted_w :
  let s := fst (req_run fx_pinned req_init w_rdpoll) in
  poll_r (req_poll s) = Some true /\ req_step fx_pinned s (PRecv None 9%N true) = (s, [Complete 9%N E_AGAIN None]).
Proof. vm_compute. split; reflexivity. Qed.
Lemma req_poll_mirror_repaired_w :
  let s := fst (req_run fx_repaired req_init w_rdpoll) in poll_r (req_poll s) = Some false.
Proof. vm_compute. reflexivity. Qed.

(* cancelling a queued send while a receive is posted: the pinned code (with
   assertions compiled out) leaves the receive pending for ever; the repaired code
   completes it *)
Definition w_cancel : list pop := [PSend None 0%N false w_req; PRecv None 1%N false; PCancel 0%N E_CANCELED].
Lemma req_cancel_send_orphans_recv_refuted_w :
  nth 2 (outs_of (snd (req_run fx_pinned req_init w_cancel))) [] = [Complete 0%N E_CANCELED None] /\
  exists c, ctx_get (fst (req_run fx_pinned req_init w_cancel)) 0%N = Some c /\ cx_recv c = Some 1%N /\ cx_req c = None.
Proof. vm_compute. split; [reflexivity|]. eexists. repeat split. Qed.
Lemma req_cancel_send_repaired_w :
  nth 2 (outs_of (snd (req_run fx_repaired req_init w_cancel))) [] = [Complete 1%N E_CANCELED None; Complete 0%N E_CANCELED None].
Proof. vm_compute. reflexivity. Qed.

(* resending disabled, reply stashed, then the connection goes: pinned code throws
   the reply away and reports NNG_ECONNRESET; repaired code delivers it *)
Definition w_stash : list pop :=
  [PSetOpt None (OResendTime (-1)); PPipeStart 1%N PROTO_REP; PSend None 0%N false w_req; PSendDone 1%N 0%N;
   PRecvDone 1%N 0%N w_reply; PPipeClose 1%N; PRecv None 9%N true].
Lemma req_stashed_reply_survives_refuted_w :
  nth 6 (outs_of (snd (req_run fx_pinned req_init w_stash))) [] = [Complete 9%N E_CONNRESET None].
Proof. vm_compute. reflexivity. Qed.
Lemma req_stashed_reply_survives_repaired_w :
  nth 6 (outs_of (snd (req_run fx_repaired req_init w_stash))) [] = [Complete 9%N E_OK (Some (mkPmsg [] [187%N]))].
Proof. vm_compute. reflexivity. Qed.
