(* ReqProofs: REQ (cooked) -- matching of replies (C04), retry / progress (C12),
   ownership ledger (C03 clause), non-blocking and poll-descriptor laws (C15). *)
From Coq Require Import List Arith NArith Bool ZArith Lia.
From NngV Require Import Proto.Common Proto.ReqRepBacktrace Proto.ReqModel Proto.ReqRepProofs.
Import ListNotations.

(* a reply with request id `id` can be taken by context k in state s: the id is
   registered for k, the request is on the wire (no send aio) and nothing is stashed *)
Definition matchable (s : req) (id : N) (k : N) (c : rctx) : Prop :=
  lookup id (rq_ids s) = Some k /\ ctx_get s k = Some c /\ cx_send c = None /\ cx_rep c = None.
Definition matchable_b (s : req) (id : N) : bool :=
  match lookup id (rq_ids s) with
  | Some k => match ctx_get s k with
              | Some c => match cx_send c, cx_rep c with None, None => true | _, _ => false end
              | None => false
              end
  | None => false
  end.
Lemma matchable_b_true s id : matchable_b s id = true <-> exists k c, matchable s id k c.
Proof.
  unfold matchable_b, matchable. split.
  - destruct (lookup id (rq_ids s)) as [k|] eqn:E1; [|discriminate].
    destruct (ctx_get s k) as [c|] eqn:E2; [|discriminate].
    destruct (cx_send c) eqn:E3; [discriminate|]. destruct (cx_rep c) eqn:E4; [discriminate|].
    intros _. exists k, c. auto.
  - intros [k [c [H1 [H2 [H3 H4]]]]]. now rewrite H1, H2, H3, H4.
Qed.

(* ------------------------------------------------------------------ *)
(* C04: what a transport receive completion can do                      *)
Lemma recvdone_cases fx s p m :
  req_stepL fx s (PRecvDone p 0 m) =
  match req_recv (pm_body m) with
  | None => (s, [Free m; ClosePipe p], [])
  | Some (id, m') =>
      if matchable_b s id then
        match lookup id (rq_ids s) with
        | Some k =>
            match ctx_get s k with
            | Some c =>
                let s0 := if fx_stash fx
                          then set_plist (set_retryq s (remove_id k (rq_retryq s))) (plist_del k (rq_plist s)) else s in
                let s1 := set_ids (set_sendq s0 (remove_id k (rq_sendq s0))) (assoc_del id (rq_ids s0)) (rq_cursor s0) in
                let o1 := match cx_req c with Some r => if retry_on fx c then [Free r] else [] | None => [] end in
                match cx_recv c with
                | Some ra =>
                    (ctx_put s1 k (mkRctx 0 None (cx_send c) None None (cx_retry c) (cx_sretry c) (cx_rtime c) (cx_creset c) false),
                     TranRecv p :: o1 ++ [Complete ra E_OK (Some m')], [])
                | None =>
                    let s2 := ctx_put s1 k (mkRctx 0 None (cx_send c) None (Some m') (cx_retry c) (cx_sretry c) (cx_rtime c) (cx_creset c) false) in
                    ((if N.eqb k 0 then set_readable s2 true else s2), TranRecv p :: o1, [])
                end
            | None => (s, [TranRecv p; Free m'], [])
            end
        | None => (s, [TranRecv p; Free m'], [])
        end
      else (s, [TranRecv p; Free m'], [])
  end.
Proof.
  unfold req_stepL, matchable_b. change (negb (0 =? 0)%N) with false. cbv iota.
  destruct (req_recv (pm_body m)) as [[id m']|]; [|reflexivity].
  destruct (lookup id (rq_ids s)) as [k|]; [|reflexivity].
  destruct (ctx_get s k) as [c|]; [|reflexivity].
  destruct (cx_send c); [reflexivity|]. destruct (cx_rep c); reflexivity.
Qed.

(* req_discard_is_silent: a reply that cannot be matched -- stale, duplicate,
   unknown id, id without the high bit, reply before the request is on the wire,
   reply for a context that already holds one -- changes nothing at all and
   emits only the re-armed receive and Free; a reply shorter than an id
   disconnects its sender (and changes nothing either). *)
Lemma req_discard_silent fx s p m :
  (req_recv (pm_body m) = None -> req_step fx s (PRecvDone p 0 m) = (s, [Free m; ClosePipe p])) /\
  (forall id m', req_recv (pm_body m) = Some (id, m') -> matchable_b s id = false ->
     req_step fx s (PRecvDone p 0 m) = (s, [TranRecv p; Free m'])).
Proof.
  unfold req_step. rewrite recvdone_cases. split.
  - intros ->. reflexivity.
  - intros id m' -> ->. reflexivity.
Qed.

(* req_reply_only_matching, one step: a transport completion hands a message to
   the application (or stashes it) only for the context registered under the
   arriving id, whose request is on the wire and which has no reply yet; the
   message is the wire message minus the id. *)
Lemma not_in_frees fx c a rv b :
  ~ In (Complete a rv b) (match cx_req c with Some r => if retry_on fx c then [Free r] else [] | None => [] end).
Proof. destruct (cx_req c); [destruct (retry_on fx c)|]; cbn; intuition discriminate. Qed.

Lemma req_recvdone_delivery fx s p rv m s' outs a b :
  req_step fx s (PRecvDone p rv m) = (s', outs) ->
  In (Complete a E_OK (Some b)) outs ->
  rv = 0%N /\ exists id k c, req_recv (pm_body m) = Some (id, b) /\ matchable s id k c /\ cx_recv c = Some a.
Proof.
  intros H Hin. destruct (N.eqb_spec rv 0) as [->|Hrv].
  2:{ unfold req_step, req_stepL in H. apply N.eqb_neq in Hrv. rewrite Hrv in H. cbn [negb] in H.
      inversion H; subst. cbn in Hin. destruct Hin as [E|[]]; discriminate. }
  split; [reflexivity|]. unfold req_step in H. rewrite recvdone_cases in H.
  destruct (req_recv (pm_body m)) as [[id m']|] eqn:ER.
  2:{ inversion H; subst. cbn in Hin. destruct Hin as [E|[E|[]]]; discriminate. }
  destruct (matchable_b s id) eqn:EM.
  2:{ inversion H; subst. cbn in Hin. destruct Hin as [E|[E|[]]]; discriminate. }
  apply matchable_b_true in EM. destruct EM as [k [c [H1 [H2 [H3 H4]]]]].
  rewrite H1, H2 in H. cbv zeta in H.
  destruct (cx_recv c) as [ra|] eqn:ERA.
  - inversion H; subst. cbn [In] in Hin. destruct Hin as [E|Hin]; [discriminate|].
    apply in_app_or in Hin. destruct Hin as [Hin|Hin].
    + exfalso. eapply not_in_frees; eauto.
    + cbn in Hin. destruct Hin as [E|[]]. inversion E; subst.
      exists id, k, c. unfold matchable. repeat split; auto.
  - inversion H; subst. cbn [In] in Hin. destruct Hin as [E|Hin]; [discriminate|].
    exfalso. eapply not_in_frees; eauto.
Qed.

(* the other way a reply reaches the application: a receive posted after the
   reply was stashed *)
Lemma req_recv_delivery s k c a nb s' outs b :
  req_ctx_recv s k c a nb = (s', outs) -> In (Complete a E_OK (Some b)) outs -> cx_rep c = Some b /\ cx_recv c = None.
Proof.
  unfold req_ctx_recv. intros H Hin.
  destruct (cx_recv c) eqn:E1; cbn [orb] in H.
  { destruct (cx_creset c); inversion H; subst; cbn in Hin; destruct Hin as [E|[]]; discriminate. }
  destruct (cx_req c) eqn:E2; destruct (cx_rep c) eqn:E3; cbn [orb andb] in H.
  - inversion H; subst. cbn in Hin. destruct Hin as [E|[]]. inversion E; subst. auto.
  - destruct nb; inversion H; subst; cbn in Hin; [destruct Hin as [E|[]]; discriminate|destruct Hin].
  - inversion H; subst. cbn in Hin. destruct Hin as [E|[]]. inversion E; subst. auto.
  - destruct (cx_creset c); inversion H; subst; cbn in Hin; destruct Hin as [E|[]]; discriminate.
Qed.

(* a stash is created only by a matching reply *)
Lemma req_recvdone_stash fx s p m s' k c' b :
  req_step fx s (PRecvDone p 0 m) = (s', []) \/ True ->
  forall outs, req_step fx s (PRecvDone p 0 m) = (s', outs) ->
  ctx_get s' k = Some c' -> cx_rep c' = Some b ->
  (exists c, ctx_get s k = Some c /\ cx_rep c = Some b) \/
  (exists id c, req_recv (pm_body m) = Some (id, b) /\ matchable s id k c /\ cx_recv c = None).
Proof.
  intros _ outs H Hg Hb. unfold req_step in H. rewrite recvdone_cases in H.
  destruct (req_recv (pm_body m)) as [[id m']|] eqn:ER.
  2:{ inversion H; subst. left. eauto. }
  destruct (matchable_b s id) eqn:EM.
  2:{ inversion H; subst. left. eauto. }
  apply matchable_b_true in EM. destruct EM as [k0 [c [H1 [H2 [H3 H4]]]]].
  rewrite H1, H2 in H. cbv zeta in H.
  assert (Hctx : forall st, ctx_get (set_ids (set_sendq (if fx_stash fx then set_plist (set_retryq s (remove_id k0 (rq_retryq s))) (plist_del k0 (rq_plist s)) else s) st)
                                     (assoc_del id (rq_ids (if fx_stash fx then set_plist (set_retryq s (remove_id k0 (rq_retryq s))) (plist_del k0 (rq_plist s)) else s)))
                                     (rq_cursor (if fx_stash fx then set_plist (set_retryq s (remove_id k0 (rq_retryq s))) (plist_del k0 (rq_plist s)) else s))) k = ctx_get s k).
  { intros st. unfold ctx_get. destruct (fx_stash fx); reflexivity. }
  destruct (N.eq_dec k k0) as [->|Hk].
  - destruct (cx_recv c) as [ra|] eqn:ERA.
    + inversion H; subst. unfold ctx_get, ctx_put in Hg. cbn [rq_ctxs set_ctxs] in Hg.
      rewrite lookup_assoc_set_same in Hg. inversion Hg; subst. cbn in Hb. discriminate.
    + inversion H; subst. right. exists id, c.
      assert (Hc' : c' = mkRctx 0 None (cx_send c) None (Some m') (cx_retry c) (cx_sretry c) (cx_rtime c) (cx_creset c) false).
      { destruct (k0 =? 0)%N; unfold ctx_get, ctx_put in Hg; cbn [rq_ctxs set_ctxs set_readable] in Hg;
          rewrite lookup_assoc_set_same in Hg; now inversion Hg. }
      subst c'. cbn in Hb. inversion Hb; subst. unfold matchable. repeat split; auto.
  - left. exists c'. split; [|exact Hb].
    destruct (cx_recv c) as [ra|] eqn:ERA; inversion H; subst.
    + unfold ctx_get, ctx_put in Hg. cbn [rq_ctxs set_ctxs] in Hg. rewrite lookup_assoc_set_other in Hg by exact Hk.
      rewrite <- Hg. symmetry. apply Hctx.
    + assert (Hg2 : ctx_get (ctx_put (set_ids (set_sendq (if fx_stash fx then set_plist (set_retryq s (remove_id k0 (rq_retryq s))) (plist_del k0 (rq_plist s)) else s)
                                  (remove_id k0 (rq_sendq (if fx_stash fx then set_plist (set_retryq s (remove_id k0 (rq_retryq s))) (plist_del k0 (rq_plist s)) else s))))
                                  (assoc_del id (rq_ids (if fx_stash fx then set_plist (set_retryq s (remove_id k0 (rq_retryq s))) (plist_del k0 (rq_plist s)) else s)))
                                  (rq_cursor (if fx_stash fx then set_plist (set_retryq s (remove_id k0 (rq_retryq s))) (plist_del k0 (rq_plist s)) else s)))
                                  k0 (mkRctx 0 None (cx_send c) None (Some m') (cx_retry c) (cx_sretry c) (cx_rtime c) (cx_creset c) false)) k = Some c').
      { destruct (k0 =? 0)%N; exact Hg. }
      unfold ctx_get, ctx_put in Hg2. cbn [rq_ctxs set_ctxs] in Hg2. rewrite lookup_assoc_set_other in Hg2 by exact Hk.
      rewrite <- Hg2. symmetry. apply Hctx.
Qed.

(* after a match the id is gone and the context holds no request: a second copy
   of the same reply (or any later one with that id) is discarded *)
Lemma req_match_consumes fx s p m s' outs id b k c :
  req_step fx s (PRecvDone p 0 m) = (s', outs) ->
  req_recv (pm_body m) = Some (id, b) -> matchable s id k c ->
  lookup id (rq_ids s') = None /\
  exists c', ctx_get s' k = Some c' /\ cx_rid c' = 0%N /\ cx_req c' = None /\ cx_recv c' = None /\
             (cx_recv c = None -> cx_rep c' = Some b) /\
             (forall a, cx_recv c = Some a -> In (Complete a E_OK (Some b)) outs /\ cx_rep c' = None).
Proof.
  intros H ER HM. unfold req_step in H. rewrite recvdone_cases, ER in H.
  assert (EM : matchable_b s id = true) by (apply matchable_b_true; eauto).
  rewrite EM in H. destruct HM as [H1 [H2 [H3 H4]]]. rewrite H1, H2 in H. cbv zeta in H.
  assert (Hids : forall st cur, rq_ids (set_ids st (assoc_del id (rq_ids st)) cur) = assoc_del id (rq_ids st)) by reflexivity.
  destruct (cx_recv c) as [ra|] eqn:ERA; inversion H; subst; clear H.
  - split.
    + unfold ctx_put. cbn [rq_ids set_ctxs set_ids]. apply lookup_assoc_del_same.
    + eexists. split; [unfold ctx_get, ctx_put; cbn [rq_ctxs set_ctxs]; apply lookup_assoc_set_same|].
      cbn [cx_rid cx_req cx_recv cx_rep]. split; [reflexivity|]. split; [reflexivity|]. split; [reflexivity|].
      split; [intros E; discriminate|]. intros a0 E. inversion E; subst. split; [|reflexivity].
      apply in_cons, in_or_app. right. left. reflexivity.
  - split.
    + destruct (k =? 0)%N; unfold ctx_put; cbn [rq_ids set_ctxs set_ids set_readable]; apply lookup_assoc_del_same.
    + eexists. split.
      * destruct (k =? 0)%N; unfold ctx_get, ctx_put; cbn [rq_ctxs set_ctxs set_readable]; apply lookup_assoc_set_same.
      * cbn [cx_rid cx_req cx_recv cx_rep]. split; [reflexivity|]. split; [reflexivity|]. split; [reflexivity|].
        split; [reflexivity|]. intros a0 E. discriminate.
Qed.

(* ------------------------------------------------------------------ *)
(* C04: state errors of req0_ctx_recv / req0_ctx_send                   *)
Lemma req_recv_before_send s k c a nb :
  cx_recv c = None -> cx_req c = None -> cx_rep c = None -> cx_creset c = false ->
  req_ctx_recv s k c a nb = (s, [Complete a E_STATE None]).
Proof. intros H1 H2 H3 H4. unfold req_ctx_recv. now rewrite H1, H2, H3, H4. Qed.

Lemma req_second_recv s k c a nb ra :
  cx_recv c = Some ra -> cx_creset c = false -> req_ctx_recv s k c a nb = (s, [Complete a E_STATE None]).
Proof. intros H1 H4. unfold req_ctx_recv. now rewrite H1, H4. Qed.

(* with the conn_reset mark (set by a pipe loss in no-retry mode) the same two
   situations report NNG_ECONNRESET once, and clear the mark *)
Lemma req_recv_connreset s k c a nb :
  (cx_recv c <> None \/ (cx_req c = None /\ cx_rep c = None)) -> cx_creset c = true ->
  exists s', req_ctx_recv s k c a nb = (s', [Complete a E_CONNRESET None]) /\
             exists c', ctx_get s' k = Some c' /\ cx_creset c' = false.
Proof.
  intros H1 H4. unfold req_ctx_recv. rewrite H4.
  assert (E : (match cx_recv c with Some _ => true | None => false end
               || (match cx_req c with None => true | Some _ => false end && match cx_rep c with None => true | Some _ => false end)) = true).
  { destruct H1 as [H1|[H1 H2]].
    - destruct (cx_recv c); [reflexivity|congruence].
    - rewrite H1, H2. apply orb_true_r. }
  rewrite E. eexists. split; [reflexivity|]. eexists. split.
  - unfold ctx_get, ctx_put. cbn [rq_ctxs set_ctxs]. apply lookup_assoc_set_same.
  - reflexivity.
Qed.

(* a new request cancels the old send / receive pair with NNG_ECANCELED *)
Lemma req_send_cancels_old fx s k c a nb m s' outs cl :
  rq_closed s = false -> req_ctx_send fx s k c a nb m = (s', outs, cl) ->
  (forall ra, cx_recv c = Some ra -> In (Complete ra E_CANCELED None) outs) /\
  (forall sa, cx_send c = Some sa -> In (Complete sa E_CANCELED None) outs).
Proof.
  intros Hc H. unfold req_ctx_send in H. rewrite Hc in H.
  set (o1 := match cx_recv c with Some ra => [Complete ra E_CANCELED None] | None => [] end) in *.
  destruct (match cx_send c with
            | Some sa => (set_sendq s (remove_id k (rq_sendq s)),
                          mkRctx (cx_rid c) None None None (cx_rep c) (cx_retry c) (cx_sretry c) (cx_rtime c) (cx_creset c) false,
                          [Complete sa E_CANCELED None])
            | None => (s, mkRctx (cx_rid c) None None (cx_req c) (cx_rep c) (cx_retry c) (cx_sretry c) (cx_rtime c) (cx_creset c) (cx_owned c), [])
            end) as [[s1 c1] o2] eqn:E2.
  destruct (ctx_reset fx s1 k c1) as [[s2 c2] o3] eqn:E3.
  assert (Ho : exists rest, outs = o1 ++ o2 ++ rest).
  { destruct (REQ_ID_MAX - REQ_ID_MIN <? N.of_nat (length (rq_ids s2)))%N; [inversion H; eauto|].
    destruct (id_alloc (S (length (rq_ids s2))) (rq_ids s2) (rq_cursor s2)) as [[id cur']|]; [|inversion H; eauto].
    destruct (is_nil (rq_ready s2) && nb); [inversion H; eauto|].
    cbv zeta in H.
    match type of H with context [if ?b then (set_timer _ _ _, _) else _] => destruct b end;
    match type of H with context [run_send_queue fx ?X] => destruct (run_send_queue fx X) as [[s7 o5] cl'] end;
    inversion H; subst; eauto. }
  destruct Ho as [rest ->]. split.
  - intros ra E. subst o1. rewrite E. apply in_or_app. left. left. reflexivity.
  - intros sa E. rewrite E in E2. inversion E2; subst. apply in_or_app. right. apply in_or_app. left. left. reflexivity.
Qed.

(* ------------------------------------------------------------------ *)
(* C12: req0_run_send_queue                                             *)
Lemma run_sendq_head fx f s k sq p rd c m :
  rq_sendq s = k :: sq -> rq_ready s = p :: rd -> ctx_get s k = Some c -> cx_req c = Some m ->
  exists s' outs cl, run_sendq fx (S f) s = (s', outs, cl) /\ In (TranSend p m) outs.
Proof.
  intros H1 H2 H3 H4. cbn [run_sendq]. rewrite H1, H2, H3, H4.
  match goal with |- context [run_sendq fx f ?X] => destruct (run_sendq fx f X) as [[s7 outs] cl] end.
  do 3 eexists. split; [reflexivity|]. apply in_or_app. right. left. reflexivity.
Qed.

Lemma req_sent_when_ready fx s k sq p rd c m :
  rq_sendq s = k :: sq -> rq_ready s = p :: rd -> ctx_get s k = Some c -> cx_req c = Some m ->
  exists s' outs cl, run_send_queue fx s = (s', outs, cl) /\ In (TranSend p m) outs.
Proof.
  intros H1 H2 H3 H4. unfold run_send_queue. rewrite H1. cbn [length]. eapply run_sendq_head; eauto.
Qed.
