(* SubModel: src/sp/protocol/pubsub0/sub.c (cooked SUB, with contexts).  Definitions only.
   One step = one critical section of sub0_sock.lk (or an entry point that
   completes without it).  Every context's receive buffer (an nni_lmq) is used at
   the level of its specification, a bounded FIFO (Properties_C18.lmq_refines_fifo).

   [fixed] = the source clears the socket's recv pollable when sub0_ctx_unsubscribe
   purges the socket's own queue to empty (the pinned tree does not: DESIGN 8 / C15);
   tools/gen_consts_d/c05_pubsub.py detects which form the current source has. *)
From Coq Require Import List Arith NArith Bool.
From NngV Require Import Proto.Common.
Import ListNotations.

Definition PROTO_PUB : N := 32.   (* NNI_PROTO(2, 0) *)
Definition PROTO_SUB : N := 33.   (* NNI_PROTO(2, 1) *)
Definition SUB_DEFAULT_RECV_BUF : nat := 128.
Definition SUB_DEFAULT_PREFNEW : bool := true.
Definition SUB_RECVBUF_MIN : N := 1.
Definition SUB_RECVBUF_MAX : N := 8192.

Record sctx := mkSctx {
  sc_id : option ctxid;          (* None = the socket's own context (sock->master) *)
  sc_topics : list (list N);     (* ctx->topics, in subscription order *)
  sc_lmq : list pmsg; sc_cap : nat;
  sc_rq : list aioid;            (* ctx->recv_queue: waiting receivers, oldest first *)
  sc_prefnew : bool }.

Record sub := mkSub {
  sb_ctxs : list sctx;           (* sock->contexts: the master first, then in creation order *)
  sb_recvbuf : nat;              (* sock->recv_buf_len: inherited by new contexts *)
  sb_prefnew : bool;             (* sock->prefer_new:   inherited by new contexts *)
  sb_readable : bool }.          (* sock->readable (the recv pollable) *)

Definition master_init : sctx := mkSctx None [] [] SUB_DEFAULT_RECV_BUF [] SUB_DEFAULT_PREFNEW.
Definition sub_init : sub := mkSub [master_init] SUB_DEFAULT_RECV_BUF SUB_DEFAULT_PREFNEW false.

Definition set_lmq (c : sctx) (q : list pmsg) : sctx := mkSctx (sc_id c) (sc_topics c) q (sc_cap c) (sc_rq c) (sc_prefnew c).
Definition set_rq (c : sctx) (r : list aioid) : sctx := mkSctx (sc_id c) (sc_topics c) (sc_lmq c) (sc_cap c) r (sc_prefnew c).
Definition set_topics (c : sctx) (t : list (list N)) : sctx := mkSctx (sc_id c) t (sc_lmq c) (sc_cap c) (sc_rq c) (sc_prefnew c).

Definition cid_eqb (a b : option ctxid) : bool :=
  match a, b with None, None => true | Some x, Some y => N.eqb x y | _, _ => false end.
Definition is_master (c : sctx) : bool := cid_eqb (sc_id c) None.
Definition find_ctx (k : option ctxid) (cs : list sctx) : option sctx := find (fun c => cid_eqb (sc_id c) k) cs.
Definition upd_ctx (k : option ctxid) (f : sctx -> sctx) (cs : list sctx) : list sctx :=
  map (fun c => if cid_eqb (sc_id c) k then f c else c) cs.
Definition lmq_full (c : sctx) : bool := sc_cap c <=? length (sc_lmq c).
Definition lmq_empty (c : sctx) : bool := match sc_lmq c with [] => true | _ => false end.

(* ---- sub0_matches ---- *)
Fixpoint bytes_eqb (a b : list N) : bool :=       (* memcmp(a, b, n) == 0 for two buffers of the same length n *)
  match a, b with
  | [], [] => true
  | x :: a', y :: b' => N.eqb x y && bytes_eqb a' b'
  | _, _ => false
  end.
Definition topic_matches (t body : list N) : bool :=
  if length body <? length t then false                                 (* len < topic->len: continue *)
  else (length t =? 0) || bytes_eqb t (firstn (length t) body).          (* topic->len == 0 || memcmp(..) == 0 *)
Definition sub0_matches (topics : list (list N)) (body : list N) : bool :=
  existsb (fun t => topic_matches t body) topics.

(* ---- the body of the loop over contexts in sub0_recv_cb, for one context ----
   (the iterations are independent of each other; num_contexts only decides
   whether the delivered message is the original or a duplicate) *)
Definition ctx_accepts (c : sctx) (m : pmsg) : bool :=
  negb (lmq_full c && negb (sc_prefnew c)) && sub0_matches (sc_topics c) (pm_body m).
Definition ctx_after (c : sctx) (m : pmsg) : sctx :=
  if ctx_accepts c m then
    match sc_rq c with
    | _ :: rest => set_rq c rest                                  (* handed to the oldest waiting receiver *)
    | [] => if lmq_full c
            then match sc_lmq c with
                 | _ :: r => set_lmq c (r ++ [m])                 (* make space: the oldest goes *)
                 | [] => c                                        (* capacity 0: not reachable (range 1..8192) *)
                 end
            else set_lmq c (sc_lmq c ++ [m])
    end
  else c.
Definition ctx_compl (c : sctx) (m : pmsg) : list pout :=
  if ctx_accepts c m then match sc_rq c with a :: _ => [Complete a E_OK (Some m)] | [] => [] end else [].
Definition ctx_dropped (c : sctx) (m : pmsg) : list pmsg :=
  if ctx_accepts c m then
    match sc_rq c with
    | _ :: _ => []
    | [] => if lmq_full c then match sc_lmq c with old :: _ => [old] | [] => [m] end else []
    end
  else [].
Definition ctx_queued (c : sctx) (m : pmsg) : bool :=
  ctx_accepts c m && match sc_rq c with [] => true | _ => false end.

Definition naccept (cs : list sctx) (m : pmsg) : nat := length (filter (fun c => ctx_accepts c m) cs).

(* sub0_ctx_unsubscribe's requeue filter *)
Definition remove_topic (t : list N) (ts : list (list N)) : list (list N) :=
  (fix go (l : list (list N)) : list (list N) :=
     match l with
     | [] => []
     | x :: r => if (length x =? length t) && bytes_eqb x t then r else x :: go r
     end) ts.
Definition has_topic (t : list N) (ts : list (list N)) : bool :=
  existsb (fun x => (length x =? length t) && bytes_eqb x t) ts.

Definition sub_step (fixed : bool) (s : sub) (o : pop) : sub * list pout :=
  match o with
  | PPipeStart p peer =>
      if negb (N.eqb peer PROTO_PUB) then (s, [Reject E_PROTO]) else (s, [TranRecv p])
  | PPipeClose _ | PSendDone _ _ | PTick _ => (s, [])
  | PRecvDone p rv m =>
      if negb (N.eqb rv 0) then (s, [ClosePipe p])
      else
        let cs := sb_ctxs s in
        let raise := existsb (fun c => is_master c && ctx_queued c m) cs in
        (* num_contexts > 1: every taker gets a duplicate and the original is freed;
           one context: it gets the original, which is freed only if it did not take it *)
        let free_orig := if (1 <? length cs) || (naccept cs m =? 0) then [Free m] else [] in
        (mkSub (map (fun c => ctx_after c m) cs) (sb_recvbuf s) (sb_prefnew s) (raise || sb_readable s),
         map Free (flat_map (fun c => ctx_dropped c m) cs) ++ free_orig
           ++ flat_map (fun c => ctx_compl c m) cs ++ [TranRecv p])
  | PRecv k a nb =>
      match find_ctx k (sb_ctxs s) with
      | None => (s, [Complete a E_CLOSED None])                   (* nni_ctx_find fails *)
      | Some c =>
          match sc_lmq c with
          | [] => if nb then (s, [Complete a E_AGAIN None])        (* nni_aio_start refuses *)
                  else (mkSub (upd_ctx k (fun c => set_rq c (sc_rq c ++ [a])) (sb_ctxs s))
                              (sb_recvbuf s) (sb_prefnew s) (sb_readable s), [])
          | m :: rest =>
              let r := if (match rest with [] => true | _ => false end) && is_master c then false else sb_readable s in
              (mkSub (upd_ctx k (fun c => set_lmq c rest) (sb_ctxs s)) (sb_recvbuf s) (sb_prefnew s) r,
               [Complete a E_OK (Some m)])
          end
      end
  | PSend _ a _ _ => (s, [Complete a E_NOTSUP None])
  | PCancel a rv =>
      if existsb (fun c => has_id a (sc_rq c)) (sb_ctxs s)
      then (mkSub (map (fun c => set_rq c (remove_id a (sc_rq c))) (sb_ctxs s)) (sb_recvbuf s) (sb_prefnew s) (sb_readable s),
            [Complete a rv None])
      else (s, [])
  | PCtxOpen k =>
      (mkSub (sb_ctxs s ++ [mkSctx (Some k) [] [] (sb_recvbuf s) [] (sb_prefnew s)])
             (sb_recvbuf s) (sb_prefnew s) (sb_readable s), [])
  | PCtxClose k =>
      match find_ctx (Some k) (sb_ctxs s) with
      | None => (s, [])
      | Some c =>
          (mkSub (filter (fun c => negb (cid_eqb (sc_id c) (Some k))) (sb_ctxs s)) (sb_recvbuf s) (sb_prefnew s) (sb_readable s),
           fail_aios E_CLOSED (sc_rq c) ++ map Free (sc_lmq c))
      end
  | PSockClose =>
      (* sub0_sock_close, then sub0_sock_fini of the master context *)
      match find_ctx None (sb_ctxs s) with
      | None => (s, [])
      | Some c =>
          (mkSub (upd_ctx None (fun c => set_lmq (set_rq c []) []) (sb_ctxs s)) (sb_recvbuf s) (sb_prefnew s) false,
           fail_aios E_CLOSED (sc_rq c) ++ map Free (sc_lmq c))
      end
  | PSetOpt k op =>
      match find_ctx k (sb_ctxs s) with
      | None => (s, [OptRv E_CLOSED])
      | Some c =>
          match op with
          | ORecvBuf n =>
              if (N.of_nat n <? SUB_RECVBUF_MIN)%N || (SUB_RECVBUF_MAX <? N.of_nat n)%N then (s, [OptRv E_INVAL])
              else
                (mkSub (upd_ctx k (fun c => mkSctx (sc_id c) (sc_topics c) (firstn n (sc_lmq c)) n (sc_rq c) (sc_prefnew c)) (sb_ctxs s))
                       (if is_master c then n else sb_recvbuf s) (sb_prefnew s) (sb_readable s),
                 map Free (skipn n (sc_lmq c)) ++ [OptRv E_OK])
          | OPrefNew b =>
              (mkSub (upd_ctx k (fun c => mkSctx (sc_id c) (sc_topics c) (sc_lmq c) (sc_cap c) (sc_rq c) b) (sb_ctxs s))
                     (sb_recvbuf s) (if is_master c then b else sb_prefnew s) (sb_readable s), [OptRv E_OK])
          | OSub t =>
              if has_topic t (sc_topics c) then (s, [OptRv E_OK])           (* already have it *)
              else (mkSub (upd_ctx k (fun c => set_topics c (sc_topics c ++ [t])) (sb_ctxs s))
                          (sb_recvbuf s) (sb_prefnew s) (sb_readable s), [OptRv E_OK])
          | OUnsub t =>
              if negb (has_topic t (sc_topics c)) then (s, [OptRv E_NOENT])
              else
                let ts := remove_topic t (sc_topics c) in
                let keep := filter (fun m => sub0_matches ts (pm_body m)) (sc_lmq c) in
                let gone := filter (fun m => negb (sub0_matches ts (pm_body m))) (sc_lmq c) in
                let r := if fixed && is_master c && (match keep with [] => true | _ => false end) then false else sb_readable s in
                (mkSub (upd_ctx k (fun c => set_lmq (set_topics c ts) keep) (sb_ctxs s)) (sb_recvbuf s) (sb_prefnew s) r,
                 map Free gone ++ [OptRv E_OK])
          | OSendBuf n =>
              (* not a protocol option: the socket core resizes its (unused) upper write queue; contexts do not have it *)
              match k with
              | None => if (8192 <? N.of_nat n)%N then (s, [OptRv E_INVAL]) else (s, [OptRv E_OK])
              | Some _ => (s, [OptRv E_NOTSUP])
              end
          | _ => (s, [OptRv E_NOTSUP])
          end
      end
  end.

Definition sub_poll (s : sub) : ppoll := mkPoll (Some (sb_readable s)) None.
