(* SurveyCur: the C07 models instantiated with the repairs that the current
   source has (coq/Gen/Consts.v, regenerated from /repo on every run).  These are
   the functions the model daemon runs.  Definitions only. *)
From Coq Require Import List NArith Bool.
From NngV Require Import Gen.Consts Proto.Common Proto.SurveyModel Proto.RespondModel Proto.XSurveyModel Proto.XRespondModel.

Definition resp_fix_cur : resp_fix := mkRfix C07_RESP_NB_FIXED C07_RESP_WBUSY_FIXED C07_RESP_RCLOSE_FIXED C07_RESP_SBUSY_FIXED C07_RESP_WOTHER_FIXED C07_RESP_WSTALE_FIXED.
Definition surv_step_cur := surv_step C07_SURV_NBRECV_FIXED.
Definition resp_step_cur := resp_step resp_fix_cur.
Definition mq_fix_cur : mq_fix := mkMqfix3 C07_MSGQ_NB_FIXED C07_MSGQ_RESIZE_FIXED C07_MSGQ_GET_RUNS_PUTQ.
Definition xsurv_step_cur := xsurv_step mq_fix_cur.
Definition xresp_step_cur := xresp_step mq_fix_cur.
(* for the driver: which repairs are in force (printed in the evidence) *)
Definition c07_fix_flags : list bool :=
  (C07_SURV_NBRECV_FIXED :: C07_RESP_NB_FIXED :: C07_RESP_WBUSY_FIXED :: C07_RESP_RCLOSE_FIXED :: C07_MSGQ_NB_FIXED :: C07_MSGQ_RESIZE_FIXED :: C07_RESP_SBUSY_FIXED :: C07_RESP_WOTHER_FIXED :: C07_RESP_WSTALE_FIXED :: C07_MSGQ_GET_RUNS_PUTQ :: nil).
