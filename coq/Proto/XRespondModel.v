(* XRespondModel: src/sp/protocol/survey0/xrespond.c (raw RESPONDENT).  Definitions only.
   Same construction as XSurveyModel (one external event followed to quiescence;
   upper read queue at the msgq's specification level). *)
From Coq Require Import List Arith NArith Bool ZArith.
From NngV Require Import Proto.Common Proto.SurveyBacktrace Proto.SurveyModel Proto.XSurveyModel.
Import ListNotations.

Definition XRESP_SENDQ : nat := 2.       (* xresp0_pipe_init: nni_msgq_init(&p->sendq, 2) *)

Record xresp := mkXresp {
  xr_pipes : list (pid * xpipe);         (* every started pipe; the open ones are the id map s->pipes *)
  xr_urq : urq; xr_uwcap : nat; xr_ttl : nat }.
Definition xresp_init : xresp := mkXresp [] urq_init UWQ_DEFAULT TTL_DEFAULT.

Definition xresp_step (fx : mq_fix) (s : xresp) (o : pop) : xresp * list pout :=
  match o with
  | PPipeStart p peer =>
      if negb (N.eqb peer PROTO_SURVEYOR) then (s, [Reject E_PROTO])
      else (mkXresp (xr_pipes s ++ [(p, xpipe_init)]) (xr_urq s) (xr_uwcap s) (xr_ttl s), [TranRecv p])
  | PPipeClose p =>
      match kget p (xr_pipes s) with
      | None => (s, [])
      | Some x =>
          let (u', o1) := urq_drop_writer (xr_urq s) p in
          (mkXresp (kset p (mkXpipe [] (xp_busy x) (xp_held x) true) (xr_pipes s)) u' (xr_uwcap s) (xr_ttl s),
           map Free (xp_q x) ++ o1)
      end
  | PSendDone p rv =>
      match kget p (xr_pipes s) with
      | None => (s, [])
      | Some x => let (x', o1) := xpipe_sent p x rv in
                  (mkXresp (kset p x' (xr_pipes s)) (xr_urq s) (xr_uwcap s) (xr_ttl s), o1)
      end
  | PRecvDone p rv m =>
      if negb (N.eqb rv 0) then (s, [ClosePipe p]) else
      match xresp_recv p (xr_ttl s) (pm_body m) with
      | BtDrop => (s, [Free m; TranRecv p])
      | BtClose => (s, [Free m; ClosePipe p])
      | BtDeliver hdr body =>
          let msg := mkPmsg (pm_hdr m ++ hdr) body in
          match kget p (xr_pipes s) with
          | Some x => if xp_closed x then (s, [Free msg])
                      else let (u', o1) := urq_put (xr_urq s) p msg in
                           (mkXresp (xr_pipes s) u' (xr_uwcap s) (xr_ttl s), o1)
          | None => (s, [Free msg])
          end
      end
  | PSend _ a nb m =>
      if nb && negb (mf_nb fx) then (s, [Complete a E_AGAIN None])
      else
        (* xresp0_sock_getq_cb *)
        match xresp_send (pm_hdr m) with
        | None => (s, [Complete a E_OK None; Free m])
        | Some (id, hdr') =>
            let msg := mkPmsg hdr' (pm_body m) in
            match kget id (xr_pipes s) with
            | Some x =>
                if xp_closed x then (s, [Complete a E_OK None; Free msg])
                else let (x', o1) := xpipe_tryput XRESP_SENDQ id x msg in
                     (mkXresp (kset id x' (xr_pipes s)) (xr_urq s) (xr_uwcap s) (xr_ttl s), Complete a E_OK None :: o1)
            | None => (s, [Complete a E_OK None; Free msg])
            end
        end
  | PRecv _ a nb =>
      let (u', o1) := urq_user_recv fx (xr_urq s) a nb in
      (mkXresp (xr_pipes s) u' (xr_uwcap s) (xr_ttl s), o1)
  | PCancel a rv =>
      let (u', o1) := urq_cancel (xr_urq s) a rv in (mkXresp (xr_pipes s) u' (xr_uwcap s) (xr_ttl s), o1)
  | PSetOpt c op =>
      let '(t, u, w, o1) := raw_setopt fx (xr_ttl s) (xr_urq s) (xr_uwcap s) c op in (mkXresp (xr_pipes s) u w t, o1)
  | PSockClose =>
      let (u', o1) := urq_close (xr_urq s) in (mkXresp (xr_pipes s) u' (xr_uwcap s) (xr_ttl s), o1)
  | PCtxOpen _ => (s, [OptRv E_NOTSUP])
  | PCtxClose _ | PTick _ => (s, [])
  end.

Definition xresp_poll (s : xresp) : ppoll := mkPoll (Some (urq_recvable (xr_urq s))) (Some true).
