(* RepProofs: cooked REP -- a reply goes to the origin of the request the context
   most recently received, with its backtrace, once (C04); state errors;
   non-blocking and poll-descriptor laws (C15). *)
From Coq Require Import List Arith NArith Bool ZArith Lia.
From NngV Require Import Proto.Common Proto.ReqRepBacktrace Proto.ReqModel Proto.RepModel Proto.ReqRepProofs.
Import ListNotations.

Lemma rp_get_put_same s k c : rp_get (rp_put s k c) k = Some c.
Proof. unfold rp_get, rp_put. cbn [rp_ctxs rp_set_ctxs]. apply lookup_assoc_set_same. Qed.

Definition saio_pending (c : pctx) : bool := match rc_saio c with Some _ => true | None => false end.

(* a context that holds no request (nothing received since its last send) cannot send *)
Lemma rep_send_without_request pf s k c a nb m :
  rc_bt c = [] -> exists s', rep_ctx_send pf s k c a nb m = (s', [Complete a E_STATE None]).
Proof.
  intros H. unfold rep_ctx_send. destruct (pf_saio pf && _); [eexists; reflexivity|].
  rewrite H. cbn [is_nil]. eexists. reflexivity.
Qed.

(* whatever rep0_ctx_send hands to a transport goes to the pipe the context's
   current request came from, carries that request's backtrace as header and the
   caller's body; and the reply slot is consumed by it *)
Lemma rep_send_to_origin pf s k c a nb m s' outs p x :
  rep_ctx_send pf s k c a nb m = (s', outs) -> In (TranSend p x) outs ->
  p = rc_pipe c /\ x = rep_send (rc_bt c) m /\ rc_bt c <> [] /\
  exists c', rp_get s' k = Some c' /\ rc_bt c' = [] /\ rc_pipe c' = 0%N.
Proof.
  unfold rep_ctx_send. intros H Hin.
  destruct (pf_saio pf && _). { inversion H; subst. cbn in Hin. destruct Hin as [E|[]]; discriminate. }
  destruct (rc_bt c) as [|b bt] eqn:EB; cbn [is_nil] in H.
  { inversion H; subst. cbn in Hin. destruct Hin as [E|[]]; discriminate. }
  match type of H with context [if negb (has_id ?P ?L) then _ else _] => destruct (has_id P L) end; cbn [negb] in H.
  2:{ inversion H; subst. cbn in Hin. destruct Hin as [E|[E|[]]]; discriminate. }
  match type of H with context [if negb (has_id ?P ?L) then _ else _] => destruct (has_id P L) eqn:EBUSY end; cbn [negb] in H.
  - destruct nb.
    + inversion H; subst. cbn in Hin. destruct Hin as [E|[]]; discriminate.
    + inversion H; subst. destruct Hin.
  - inversion H; subst. cbn in Hin. destruct Hin as [E|[E|[]]]; [|discriminate]. inversion E; subst.
    split; [reflexivity|]. split; [reflexivity|]. split; [discriminate|].
    eexists. split.
    + cbv zeta. repeat match goal with |- context [if ?b then _ else _] => destruct b end;
        unfold rp_get; cbn [rp_ctxs rp_set_sending rp_set_pipes rp_set_writable]; apply rp_get_put_same.
    + split; reflexivity.
Qed.

(* the blocking form behind a busy pipe: the reply is queued on that pipe, built
   from the same origin and backtrace, and the slot is consumed as well *)
Lemma rep_send_queued pf s k c a m s' :
  rep_ctx_send pf s k c a false m = (s', []) ->
  rp_sendq s' = rp_sendq s ++ [(rc_pipe c, k)] /\
  exists c', rp_get s' k = Some c' /\ rc_saio c' = Some (a, rep_send (rc_bt c) m) /\ rc_bt c' = [] /\ rc_pipe c' = 0%N.
Proof.
  unfold rep_ctx_send. intros H.
  destruct (pf_saio pf && _); [discriminate|].
  destruct (rc_bt c) as [|b bt] eqn:EB; cbn [is_nil] in H; [discriminate|].
  match type of H with context [if negb (has_id ?P ?L) then _ else _] => destruct (has_id P L) end; cbn [negb] in H; [|discriminate].
  match type of H with context [if negb (has_id ?P ?L) then _ else _] => destruct (has_id P L) end; cbn [negb] in H; [|discriminate].
  inversion H; subst. split.
  - cbn [rp_sendq rp_set_sendq]. destruct (k =? 0)%N; reflexivity.
  - eexists. split; [unfold rp_get; cbn [rp_ctxs rp_set_sendq]; apply rp_get_put_same|]. repeat split.
Qed.

(* ... and rep0_pipe_send_cb transmits exactly the stored reply of the first
   context queued on that pipe, on that pipe *)
Lemma rep_senddone_transmits_queued pf s p k c a m :
  first_on p (rp_sendq s) = Some k -> rp_get s k = Some c -> rc_saio c = Some (a, m) ->
  exists s', rep_step pf s (PSendDone p 0) = (s', [TranSend p m; Complete a E_OK None]).
Proof.
  intros H1 H2 H3. unfold rep_step. change (negb (0 =? 0)%N) with false. cbv iota zeta.
  unfold rp_get in *. cbn [rp_ctxs rp_sendq rp_set_pipes rp_set_sending rp_pipes rp_busy rp_pclosed].
  rewrite H1, H2, H3. eexists. reflexivity.
Qed.

(* what a context remembers is exactly the request it received last *)
Lemma rep_recv_records pf s k c a nb p m rest :
  rp_holding s = (p, m) :: rest ->
  exists s', rep_ctx_recv pf s k c a nb = (s', [TranRecv p; Complete a E_OK (Some (rep_deliver m))]) /\
             exists c', rp_get s' k = Some c' /\ rc_pipe c' = p /\ rc_bt c' = pm_hdr m.
Proof.
  intros H. unfold rep_ctx_recv. rewrite H. eexists. split; [reflexivity|].
  unfold rep_take. eexists. split.
  - cbv zeta. repeat match goal with |- context [if ?b then _ else _] => destruct b end;
      unfold rp_get; cbn [rp_ctxs rp_set_writable]; apply rp_get_put_same.
  - split; reflexivity.
Qed.

(* second concurrent receive *)
Lemma rep_second_recv pf s k c a r :
  rp_holding s = [] -> rc_raio c = Some r -> rep_ctx_recv pf s k c a false = (s, [Complete a E_STATE None]).
Proof. intros H1 H2. unfold rep_ctx_recv. now rewrite H1, H2. Qed.

(* non-blocking receive: completes in the same step; EAGAIN exactly when no
   request is held, and then nothing changes *)
Lemma rep_nb_recv pf s k c a :
  (rp_holding s = [] -> rep_ctx_recv pf s k c a true = (s, [Complete a E_AGAIN None])) /\
  (forall p m rest, rp_holding s = (p, m) :: rest ->
     exists s', rep_ctx_recv pf s k c a true = (s', [TranRecv p; Complete a E_OK (Some (rep_deliver m))])).
Proof.
  split.
  - intros H. unfold rep_ctx_recv. now rewrite H.
  - intros p m rest H. unfold rep_ctx_recv. rewrite H. eexists. reflexivity.
Qed.

(* non-blocking send refused with EAGAIN: the pinned code has already consumed
   the reply slot (the retry fails with ESTATE); the repaired code keeps it *)
Definition w_rep_ops : list pop :=
  [PCtxOpen 0%N; PCtxOpen 1%N; PPipeStart 1%N PROTO_REQ;
   PRecvDone 1%N 0%N (mkPmsg [] (be32 2147483649 ++ [1%N]));
   PRecvDone 1%N 0%N (mkPmsg [] (be32 2147483650 ++ [2%N]));
   PRecv (Some 0%N) 9%N true; PRecv (Some 1%N) 9%N true;
   PSend (Some 0%N) 9%N true (mkPmsg [] [3%N]);
   PSend (Some 1%N) 9%N true (mkPmsg [] [4%N]);      (* pipe busy: EAGAIN *)
   PSendDone 1%N 0%N;
   PSend (Some 1%N) 9%N true (mkPmsg [] [4%N])].     (* the retry *)
Fixpoint rep_run (pf : pfix) (s : rep) (ops : list pop) : rep * list (list pout) :=
  match ops with
  | [] => (s, [])
  | o :: r => let '(s1, outs) := rep_step pf s o in let '(s2, tr) := rep_run pf s1 r in (s2, outs :: tr)
  end.
Definition pf_pinned : pfix := mkPfix false false false false.
Definition pf_repaired : pfix := mkPfix true true true true.

Lemma rep_nb_send_keeps_slot_refuted_w :
  nth 8 (snd (rep_run pf_pinned rep_init w_rep_ops)) [] = [Complete 9%N E_AGAIN None] /\
  nth 10 (snd (rep_run pf_pinned rep_init w_rep_ops)) [] = [Complete 9%N E_STATE None].
Proof. vm_compute. split; reflexivity. Qed.
Lemma rep_nb_send_keeps_slot_repaired_w :
  nth 8 (snd (rep_run pf_repaired rep_init w_rep_ops)) [] = [Complete 9%N E_AGAIN None] /\
  exists x, nth 10 (snd (rep_run pf_repaired rep_init w_rep_ops)) [] = [TranSend 1%N x; Complete 9%N E_OK None] /\
            pm_hdr x = be32 2147483650.
Proof. vm_compute. split; [reflexivity|]. eexists. split; reflexivity. Qed.
(* general form for the repaired code: a refused non-blocking send changes no context *)
Lemma rep_nb_send_refused_keeps pf s k c a m s' :
  pf_nbsend pf = true -> rp_get s k = Some c ->
  rep_ctx_send pf s k c a true m = (s', [Complete a E_AGAIN None]) ->
  rp_get s' k = Some c.
Proof.
  intros Hf Hg H. unfold rep_ctx_send in H.
  destruct (pf_saio pf && _); [inversion H|].
  destruct (rc_bt c) as [|b bt] eqn:EB; cbn [is_nil] in H; [inversion H|].
  match type of H with context [if negb (has_id ?P ?L) then _ else _] => destruct (has_id P L) end; cbn [negb] in H; [|inversion H].
  match type of H with context [if negb (has_id ?P ?L) then _ else _] => destruct (has_id P L) end; cbn [negb] in H; [|inversion H].
  rewrite Hf in H. inversion H; subst.
  destruct (k =? 0)%N; unfold rp_get; cbn [rp_ctxs rp_set_writable]; apply rp_get_put_same.
Qed.

(* poll descriptors.  Pinned: the receive descriptor stays raised when the only
   pipe holding a request closes; repaired: it is cleared *)
Definition w_rep_poll : list pop :=
  [PPipeStart 1%N PROTO_REQ; PRecvDone 1%N 0%N (mkPmsg [] (be32 2147483649 ++ [1%N])); PPipeClose 1%N].
Lemma rep_poll_mirror_refuted_w :
  let s := fst (rep_run pf_pinned rep_init w_rep_poll) in
  poll_r (rep_poll s) = Some true /\ fst (rep_step pf_pinned s (PRecv None 9%N true)) = s /\
  snd (rep_step pf_pinned s (PRecv None 9%N true)) = [Complete 9%N E_AGAIN None].
Proof. vm_compute. repeat split; reflexivity. Qed.
Lemma rep_poll_mirror_repaired_w :
  let s := fst (rep_run pf_repaired rep_init w_rep_poll) in poll_r (rep_poll s) = Some false.
Proof. vm_compute. reflexivity. Qed.

(* the receive half of the mirror as an invariant of the repaired code:
   readable <-> some pipe holds a parsed request <-> a non-blocking receive succeeds *)
Definition rep_rinv (s : rep) : Prop := rp_readable s = negb (is_nil (rp_holding s)).
Lemma rep_rinv_init : rep_rinv rep_init.
Proof. reflexivity. Qed.

(* the send descriptor and a busy reply pipe.  The socket holds a request from pipe 1;
   another context starts sending on pipe 1.  Pinned: the descriptor stays raised
   although a non-blocking reply is refused; repaired: it is cleared, and raised
   again when the pipe has sent *)
Definition w_rep_wbusy : list pop :=
  [PCtxOpen 0%N; PPipeStart 1%N PROTO_REQ;
   PRecvDone 1%N 0%N (mkPmsg [] (be32 2147483649 ++ [1%N])); PRecv (Some 0%N) 9%N true;
   PRecvDone 1%N 0%N (mkPmsg [] (be32 2147483650 ++ [2%N])); PRecv None 9%N true;
   PSend (Some 0%N) 9%N true (mkPmsg [] [3%N])].
Lemma rep_send_poll_mirror_refuted_w :
  let s := fst (rep_run (mkPfix true true true false) rep_init w_rep_wbusy) in
  poll_w (rep_poll s) = Some true /\
  snd (rep_step (mkPfix true true true false) s (PSend None 9%N true (mkPmsg [] [4%N]))) = [Complete 9%N E_AGAIN None].
Proof. vm_compute. split; reflexivity. Qed.
Lemma rep_send_poll_mirror_repaired_w :
  let s := fst (rep_run pf_repaired rep_init w_rep_wbusy) in
  poll_w (rep_poll s) = Some false /\
  poll_w (rep_poll (fst (rep_step pf_repaired s (PSendDone 1%N 0%N)))) = Some true.
Proof. vm_compute. split; reflexivity. Qed.

(* ------------------------------------------------------------------ *)
(* the receive descriptor mirrors `some pipe holds a parsed request' in every
   reachable state of the repaired code (pf_rclose), hence the non-blocking receive *)
Definition hr (s : rep) : list (pid * pmsg) * bool := (rp_holding s, rp_readable s).
Ltac brk := cbv zeta; repeat match goal with |- context [if ?b then _ else _] => destruct b end.

Lemma rep_ctx_send_hr pf s k c a nb m : hr (fst (rep_ctx_send pf s k c a nb m)) = hr s.
Proof. unfold rep_ctx_send. brk; reflexivity. Qed.
Lemma rep_take_hr pf s k c p m r : hr (rep_take pf s k c p m r) = hr s.
Proof. unfold rep_take. brk; reflexivity. Qed.
Lemma rep_ctx_close_hr s k c : hr (fst (rep_ctx_close s k c)) = hr s.
Proof. unfold rep_ctx_close. destruct (rc_saio c) as [[sa x]|]; destruct (rc_raio c); reflexivity. Qed.
Lemma close_sendq_hr ks : forall s, hr (fst (close_sendq s ks)) = hr s.
Proof.
  induction ks as [|k ks IH]; intros s; cbn [close_sendq]; [reflexivity|].
  destruct (rp_get s k) as [c|]; [|apply IH]. destruct (rc_saio c) as [[a m]|]; [|apply IH].
  match goal with |- context [close_sendq ?X ks] => specialize (IH X); destruct (close_sendq X ks) as [s1 outs] end.
  cbn [fst] in *. rewrite IH. reflexivity.
Qed.

Lemma assoc_del_nohit {A} p (l : list (N * A)) :
  filter (fun x => N.eqb (fst x) p) l = [] -> assoc_del p l = l.
Proof.
  unfold assoc_del. induction l as [|[k v] l IH]; cbn [filter fst]; [reflexivity|].
  destruct (N.eqb k p); cbn [negb]; [discriminate|]. intros H. now rewrite IH.
Qed.

Lemma rep_rinv_step pf s o : pf_rclose pf = true -> rep_rinv s -> rep_rinv (fst (rep_step pf s o)).
Proof.
  unfold rep_rinv. intros Hf Hi.
  assert (Hhr : forall s', hr s' = hr s -> rp_readable s' = negb (is_nil (rp_holding s'))).
  { intros s' E. unfold hr in E. inversion E as [[E1 E2]]. now rewrite E1, E2. }
  destruct o; cbn [rep_step].
  - (* PSend *) destruct (rp_get s (ckey c)); [apply Hhr, rep_ctx_send_hr|exact Hi].
  - (* PRecv *) destruct (rp_get s (ckey c)) as [cx|]; [|exact Hi]. unfold rep_ctx_recv.
    destruct (rp_holding s) as [|[p m] rest] eqn:EH.
    + destruct nb; [apply Hhr; reflexivity|]. destruct (rc_raio cx); [apply Hhr; reflexivity|]. cbn [fst]. apply Hhr. reflexivity.
    + cbn [fst]. cbv zeta.
      match goal with |- context [rep_take pf ?X _ _ _ _ _] => pose proof (rep_take_hr pf X (ckey c) cx p m (rc_raio cx)) as E end.
      unfold hr in E. inversion E as [[E1 E2]]. rewrite E1, E2.
      destruct rest; cbn [is_nil rp_holding rp_readable rp_set_holding rp_set_readable negb]; [reflexivity|].
      exact Hi.
  - (* PCancel *) destruct (find_pctx (saio_is a) (rp_ctxs s)) as [[k c]|]; [exact Hi|].
    destruct (find_pctx (fun c => opt_is a (rc_raio c)) (rp_ctxs s)) as [[k c]|]; exact Hi.
  - (* PPipeStart *) destruct (negb (peer =? PROTO_REQ)%N); exact Hi.
  - (* PPipeClose *)
    cbv zeta. rewrite Hf. cbn [andb].
    set (held := map snd (filter (fun x => N.eqb (fst x) p) (rp_holding s))).
    set (s0 := rp_set_holding (rp_set_pipes s (rp_pipes s) (rp_busy s) (rp_pclosed s ++ [p])) (assoc_del p (rp_holding s))).
    set (s1 := if negb (is_nil held) && is_nil (rp_holding s0) then rp_set_readable s0 false else s0).
    assert (H1 : rp_readable s1 = negb (is_nil (rp_holding s1))).
    { subst s1. destruct (is_nil held) eqn:EHeld; cbn [negb andb].
      - assert (EF : filter (fun x => N.eqb (fst x) p) (rp_holding s) = []).
        { subst held. destruct (filter _ (rp_holding s)); [reflexivity|discriminate]. }
        subst s0. cbn [rp_readable rp_holding rp_set_holding rp_set_pipes]. rewrite (assoc_del_nohit _ _ EF). exact Hi.
      - destruct (is_nil (rp_holding s0)) eqn:E0; cbn [rp_readable rp_set_readable rp_holding].
        + now rewrite E0.
        + rewrite E0. subst s0. cbn [rp_readable rp_set_holding rp_set_pipes]. rewrite Hi.
          destruct (rp_holding s); [subst held; discriminate|reflexivity]. }
    match goal with |- context [close_sendq ?X ?K] => pose proof (close_sendq_hr K X) as E; destruct (close_sendq X K) as [s2 outs] end.
    cbn [fst] in *. unfold hr in E. inversion E as [[E1 E2]]. cbn [rp_holding rp_readable rp_set_sendq] in E1, E2.
    destruct (p =? master_pipe s2)%N; cbn [rp_readable rp_holding rp_set_pipes rp_set_writable]; rewrite E1, E2; exact H1.
  - (* PSendDone *) cbv zeta. destruct (negb (rv =? 0)%N); [exact Hi|].
    match goal with |- context [first_on p ?L] => destruct (first_on p L) as [k|] end.
    + match goal with |- context [rp_get ?X k] => destruct (rp_get X k) as [c|] end; [|exact Hi].
      destruct (rc_saio c) as [[a m]|]; exact Hi.
    + brk; exact Hi.
  - (* PRecvDone *) destruct (negb (rv =? 0)%N); [exact Hi|].
    destruct (rep_recv (rp_ttl s) (pm_body m)) as [m'| |]; try exact Hi.
    destruct (has_id p (rp_pclosed s)); [exact Hi|].
    destruct (rp_recvq s) as [|k rest].
    + cbn [fst rp_readable rp_holding rp_set_readable rp_set_holding]. destruct (rp_holding s); reflexivity.
    + destruct (rp_get s k) as [c|]; [|exact Hi]. destruct (rc_raio c); [|exact Hi].
      cbn [fst]. apply Hhr. rewrite rep_take_hr. reflexivity.
  - (* PSetOpt *) destruct c; [exact Hi|]. destruct o; try exact Hi.
    + destruct (8192 <? N.of_nat n)%N; exact Hi.
    + destruct (8192 <? N.of_nat n)%N; exact Hi.
    + destruct ((n <? BT_TTL_MIN) || (BT_TTL_MAX <? n)); exact Hi.
  - (* PCtxOpen *) exact Hi.
  - (* PCtxClose *) destruct (rp_get s (c + 1)%N) as [cx|]; [|exact Hi].
    pose proof (rep_ctx_close_hr s (c + 1)%N cx) as E. destruct (rep_ctx_close s (c + 1)%N cx) as [s1 outs].
    cbn [fst] in *. unfold hr in E. inversion E as [[E1 E2]]. cbn [rp_readable rp_holding rp_set_ctxs]. now rewrite E1, E2.
  - (* PSockClose *) destruct (rp_get s 0%N) as [c|]; [|exact Hi]. apply Hhr, rep_ctx_close_hr.
  - (* PTick *) exact Hi.
Qed.

Lemma rep_rinv_run pf ops : forall s, pf_rclose pf = true -> rep_rinv s -> rep_rinv (fst (rep_run pf s ops)).
Proof.
  induction ops as [|o ops IH]; intros s Hf Hi; cbn [rep_run]; [exact Hi|].
  pose proof (rep_rinv_step pf s o Hf Hi) as H1. destruct (rep_step pf s o) as [s1 outs]. cbn [fst] in H1.
  specialize (IH s1 Hf H1). destruct (rep_run pf s1 ops) as [s2 tr]. exact IH.
Qed.

(* the mirror proper: in every state reached from rep_init by the repaired code, the
   receive descriptor is raised exactly when a non-blocking receive does not return
   NNG_EAGAIN (on any context), and then it delivers *)
Lemma rep_recv_poll_mirror pf ops k c a :
  pf_rclose pf = true ->
  let s := fst (rep_run pf rep_init ops) in
  (poll_r (rep_poll s) = Some true <->
     snd (rep_ctx_recv pf s k c a true) <> [Complete a E_AGAIN None]) /\
  (poll_r (rep_poll s) = Some true -> exists p m, snd (rep_ctx_recv pf s k c a true) = [TranRecv p; Complete a E_OK (Some (rep_deliver m))]).
Proof.
  intros Hf s. pose proof (rep_rinv_run pf ops rep_init Hf rep_rinv_init) as Hi. fold s in Hi. unfold rep_rinv in Hi.
  unfold rep_poll. cbn [poll_r]. rewrite Hi. unfold rep_ctx_recv.
  destruct (rp_holding s) as [|[p m] rest]; cbn [is_nil negb snd].
  - split; [split; [discriminate|intros H; exfalso; apply H; reflexivity]|discriminate].
  - split; [split; [intros _; discriminate|reflexivity]|]. intros _. exists p, m. reflexivity.
Qed.

(* ------------------------------------------------------------------ *)
(* rep0_ctx_send starts with nni_msg_header_clear: the header the application
   leaves on the reply plays no part -- the wire header is the saved backtrace *)
Lemma rep_send_clears_app_header bt h b : rep_send bt (mkPmsg h b) = mkPmsg bt b.
Proof. reflexivity. Qed.
Lemma rep_send_header_independent pf s c a nb h h' b :
  rep_step pf s (PSend c a nb (mkPmsg h b)) = rep_step pf s (PSend c a nb (mkPmsg h' b)).
Proof. unfold rep_step. destruct (rp_get s (ckey c)); reflexivity. Qed.
Lemma rep_reply_wire pf s k c a nb h b s' outs p x :
  rep_ctx_send pf s k c a nb (mkPmsg h b) = (s', outs) -> In (TranSend p x) outs ->
  p = rc_pipe c /\ pm_hdr x = rc_bt c /\ pm_body x = b /\ wire_of x = rc_bt c ++ b.
Proof.
  intros H Hin. destruct (rep_send_to_origin _ _ _ _ _ _ _ _ _ _ _ H Hin) as [H1 [H2 _]].
  subst x. split; [exact H1|]. repeat split.
Qed.
(* the queued path: what waits in ctx->saio is already backtrace ++ body *)
Lemma rep_reply_wire_queued pf s k c a h b s' :
  rep_ctx_send pf s k c a false (mkPmsg h b) = (s', []) ->
  exists c', rp_get s' k = Some c' /\ rc_saio c' = Some (a, mkPmsg (rc_bt c) b).
Proof.
  intros H. destruct (rep_send_queued _ _ _ _ _ _ _ H) as [_ [c' [H1 [H2 _]]]]. exists c'. split; [exact H1|exact H2].
Qed.
