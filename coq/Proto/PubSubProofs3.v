(* PubSubProofs3: PUB (send never blocks, fan-out, per-pipe FIFO, drop-oldest,
   conservation) and raw SUB (no filtering, through the upper read queue,
   non-blocking receive and the descriptor, conservation). *)
From Coq Require Import List Arith NArith Bool Lia.
From NngV Require Import Proto.Common Proto.PushModel Proto.PushProofs Proto.SubModel Proto.PubModel Proto.XsubModel
  Proto.PubSubProofs Proto.PubSubProofs2.
Import ListNotations.

Ltac simp_p := cbn [pp_id pp_closed pp_busy pp_q pp_cap pp_tx pb_pipes pb_sendbuf] in *.
Ltac simp_x := cbn [xs_q xs_cap xs_rq xs_closed xs_recvable run_notify] in *.

(* ================================================================== PUB *)
(* a send completes in the same step with success, whatever the flags; the state has no
   place where a user aio could wait *)
Theorem pub_send_immediate s c a nb m :
  exists pre, pub_step s (PSend c a nb m) =
    (mkPub (map (fun p => fst (pipe_send p m)) (pb_pipes s)) (pb_sendbuf s), pre ++ [Free m; Complete a E_OK None]) /\
    (forall a' rv x, ~ In (Complete a' rv x) pre) /\
    pub_step s (PSend c a true m) = pub_step s (PSend c a false m).
Proof.
  exists (flat_map snd (map (fun p => pipe_send p m) (pb_pipes s))). cbn [pub_step]. rewrite map_map. repeat split; auto.
  intros a' rv x Hin. apply in_flat_map in Hin as (y & Hy & Hin). apply in_map_iff in Hy as (p & <- & _).
  unfold pipe_send in Hin. destruct (pp_closed p); [destruct Hin|]. destruct (pp_busy p); [destruct (pq_full p); [destruct (pp_q p)|]|];
    cbn in Hin; try tauto; destruct Hin as [Hin|[]]; discriminate.
Qed.

(* what a send does to one pipe, in the property's words *)
Definition fanout_spec (p : ppipe) (m : pmsg) (p' : ppipe) (o : list pout) : Prop :=
  (pp_closed p = true -> p' = p /\ o = []) /\
  (pp_closed p = false -> pp_busy p = false ->
     p' = mkPpipe (pp_id p) false true (pp_q p) (pp_cap p) (Some m) /\ o = [TranSend (pp_id p) m]) /\
  (pp_closed p = false -> pp_busy p = true -> length (pp_q p) < pp_cap p ->
     p' = mkPpipe (pp_id p) false true (pp_q p ++ [m]) (pp_cap p) (pp_tx p) /\ o = []) /\
  (pp_closed p = false -> pp_busy p = true -> pp_cap p <= length (pp_q p) -> forall old r, pp_q p = old :: r ->
     p' = mkPpipe (pp_id p) false true (r ++ [m]) (pp_cap p) (pp_tx p) /\ o = [Free old]).
Theorem pub_fanout_law p m : fanout_spec p m (fst (pipe_send p m)) (snd (pipe_send p m)).
Proof.
  unfold fanout_spec, pipe_send, pq_full. repeat split; intros.
  - now rewrite H.
  - now rewrite H.
  - now rewrite H, H0.
  - now rewrite H, H0.
  - rewrite H, H0. apply Nat.leb_gt in H1. now rewrite H1.
  - rewrite H, H0. apply Nat.leb_gt in H1. now rewrite H1.
  - rewrite H, H0. apply Nat.leb_le in H1. now rewrite H1, H2.
  - rewrite H, H0. apply Nat.leb_le in H1. now rewrite H1, H2.
Qed.

Definition pipe_ok (p : ppipe) : Prop :=
  (pp_busy p = false -> pp_q p = [] /\ pp_tx p = None) /\ length (pp_q p) <= pp_cap p /\ 1 <= pp_cap p /\
  (pp_closed p = true -> pp_q p = []).
Definition PubInv (s : pub) : Prop :=
  Forall pipe_ok (pb_pipes s) /\ NoDup (map pp_id (pb_pipes s)) /\ 1 <= pb_sendbuf s.
Definition pub_op_ok (s : pub) (o : pop) : Prop :=
  match o with PPipeStart p _ => ~ In p (map pp_id (pb_pipes s)) | _ => True end.

Lemma upd_pipe_ids id f l : (forall p, pp_id (f p) = pp_id p) -> map pp_id (upd_pipe id f l) = map pp_id l.
Proof. intros Hf. unfold upd_pipe. rewrite map_map. apply map_ext. intros p. destruct (N.eqb (pp_id p) id); auto. Qed.
Lemma find_pipe_in id l p : NoDup (map pp_id l) -> In p l -> pp_id p = id -> find_pipe id l = Some p.
Proof.
  unfold find_pipe. induction l as [|x l IH]; cbn; intros ND Hin E; [destruct Hin|].
  inversion ND; subst. destruct Hin as [->|Hin].
  - now rewrite N.eqb_refl.
  - destruct (N.eqb_spec (pp_id x) (pp_id p)) as [F|F].
    + exfalso. apply H1. rewrite F. now apply in_map.
    + apply IH; auto.
Qed.
Lemma forall_upd_pipe id f l x : NoDup (map pp_id l) -> find_pipe id l = Some x ->
  Forall pipe_ok l -> (pipe_ok x -> pipe_ok (f x)) -> Forall pipe_ok (upd_pipe id f l).
Proof.
  intros ND F H Hf. apply Forall_forall. intros p' Hin. unfold upd_pipe in Hin. apply in_map_iff in Hin as (p & <- & Hin).
  pose proof (proj1 (Forall_forall _ _) H p Hin) as OK. destruct (N.eqb_spec (pp_id p) id) as [E|E]; auto.
  assert (p = x). { pose proof (find_pipe_in id l p ND Hin E). congruence. } subst. auto.
Qed.
Lemma pipe_send_ok p m : pipe_ok p -> pipe_ok (fst (pipe_send p m)).
Proof.
  intros (A & B & C & D). unfold pipe_send, pq_full. destruct (pp_closed p) eqn:CL.
  { cbn [fst]. unfold pipe_ok. rewrite CL. auto. }
  destruct (pp_busy p) eqn:BS.
  - destruct (pp_cap p <=? length (pp_q p)) eqn:L.
    + destruct (pp_q p) as [|old r] eqn:Q; cbn [fst]; unfold pipe_ok; simp_p.
      * rewrite Q, BS, CL. split; [discriminate|]. split; [cbn; lia|]. split; [lia|discriminate].
      * split; [discriminate|]. split; [|split; [lia|discriminate]]. cbn in B. rewrite app_length. cbn. lia.
    + apply Nat.leb_gt in L. cbn [fst]. unfold pipe_ok. simp_p.
      split; [discriminate|]. split; [|split; [lia|discriminate]]. rewrite app_length. cbn. lia.
  - cbn [fst]. unfold pipe_ok. simp_p. destruct (A eq_refl) as [Q _]. rewrite Q in *.
    split; [discriminate|]. split; [cbn; lia|]. split; [lia|discriminate].
Qed.
Lemma pipe_send_id p m : pp_id (fst (pipe_send p m)) = pp_id p.
Proof. unfold pipe_send. destruct (pp_closed p); auto. destruct (pp_busy p); auto. destruct (pq_full p); auto. destruct (pp_q p); auto. Qed.
Lemma find_pipe_some id l p : find_pipe id l = Some p -> In p l /\ pp_id p = id.
Proof. unfold find_pipe. intros H. apply find_some in H as [A B]. split; auto. now apply N.eqb_eq. Qed.

Theorem pub_step_inv s o s' outs : PubInv s -> pub_op_ok s o -> pub_step s o = (s', outs) -> PubInv s'.
Proof.
  intros (I1 & I2 & I3) Hok H. unfold PubInv.
  destruct o as [k a nb m|k a nb|a rv|p peer|p|p rv|p rv m|k op|k|k| |now]; cbn [pub_step pub_op_ok] in *;
    try (inversion H; subst; simp_p; auto; fail).
  - inversion H; subst; simp_p. repeat split; auto.
    + apply Forall_forall. intros p' Hin. rewrite map_map in Hin. apply in_map_iff in Hin as (p & <- & Hin). apply pipe_send_ok.
      eapply Forall_forall; eauto.
    + rewrite !map_map. erewrite map_ext; [exact I2|]. intros p. apply pipe_send_id.
  - destruct (negb _); inversion H; subst; simp_p; auto. repeat split; auto.
    + apply Forall_app. split; auto. constructor; [|constructor]. unfold pipe_ok. simp_p. repeat split; auto; try discriminate; cbn; lia.
    + rewrite map_app. cbn. clear - I2 Hok. induction (map pp_id (pb_pipes s)) as [|y l IH]; cbn.
      * constructor; [tauto|constructor].
      * inversion I2; subst. constructor.
        -- intros Hin. apply in_app_or in Hin as [Hin|[<-|[]]]; auto. apply Hok. now left.
        -- apply IH; auto. intros Hin. apply Hok. now right.
  - destruct (find_pipe p (pb_pipes s)) as [x|] eqn:F; inversion H; subst; simp_p; auto. repeat split; auto.
    + eapply forall_upd_pipe; eauto. intros (A & B & C & D). unfold pipe_ok. simp_p.
      split; [intros E; destruct (A E); auto|]. split; [cbn; lia|]. split; auto.
    + rewrite upd_pipe_ids; auto.
  - destruct (find_pipe p (pb_pipes s)) as [x|] eqn:F; [|inversion H; subst; auto].
    pose proof (find_pipe_some _ _ _ F) as [Fin _].
    pose proof (proj1 (Forall_forall _ _) I1 x Fin) as (A & B & C & D).
    destruct (negb (rv =? 0)%N).
    + inversion H; subst; simp_p. repeat split; auto.
      * eapply forall_upd_pipe; eauto. intros _. unfold pipe_ok. simp_p.
        split; [intros E; destruct (A E); auto|]. split; auto.
      * rewrite upd_pipe_ids; auto.
    + destruct (pp_closed x) eqn:CL.
      * inversion H; subst; simp_p. repeat split; auto.
        -- eapply forall_upd_pipe; eauto. intros _. unfold pipe_ok. simp_p.
           split; [intros E; destruct (A E); auto|]. split; auto.
        -- rewrite upd_pipe_ids; auto.
      * destruct (pp_q x) as [|m r] eqn:Q; inversion H; subst; simp_p.
        -- repeat split; auto.
           ++ eapply forall_upd_pipe; eauto. intros _. unfold pipe_ok. simp_p.
              split; [auto|]. split; [cbn; lia|]. split; [lia|auto].
           ++ rewrite upd_pipe_ids; auto.
        -- repeat split; auto.
           ++ eapply forall_upd_pipe; eauto. intros _. unfold pipe_ok. simp_p. try rewrite Q in *.
              split; [discriminate|]. split; [cbn in B; lia|]. split; [lia|discriminate].
           ++ rewrite upd_pipe_ids; auto.
  - destruct k; [inversion H; subst; auto|]. destruct op; try (inversion H; subst; auto; fail).
    + destruct (_ || _) eqn:R; inversion H; subst; simp_p; auto.
      apply orb_false_iff in R as [R1 R2]. apply N.ltb_ge in R1. unfold PUB_SENDBUF_MIN in R1.
      repeat split; auto; try lia.
      * apply Forall_forall. intros p' Hin. apply in_map_iff in Hin as (p & <- & Hin).
        pose proof (proj1 (Forall_forall _ _) I1 p Hin) as OK. destruct (pp_closed p) eqn:CL; [exact OK|]. destruct OK as (A & B & C & D).
        unfold pipe_ok. simp_p.
        split; [intros E; destruct (A E) as [Q T]; rewrite Q, firstn_nil; auto|].
        split; [rewrite firstn_length; lia|]. split; [lia|discriminate].
      * rewrite map_map. erewrite map_ext; [exact I2|]. intros p. destruct (pp_closed p); auto.
    + destruct (_ <? _)%N; inversion H; subst; auto.
Qed.

Lemma pub_init_inv : PubInv pub_init.
Proof. unfold PubInv, pub_init. simp_p. repeat split; try constructor. unfold PUB_DEFAULT_SENDBUF. lia. Qed.

(* ---- per-pipe FIFO: what a pipe's transport is handed, followed by what the pipe still
        queues, is a subsequence of what it queued followed by what the application sent ---- *)
Fixpoint txs_on (p : pid) (outs : list pout) : list pmsg :=
  match outs with
  | [] => []
  | TranSend q m :: r => if N.eqb q p then m :: txs_on p r else txs_on p r
  | _ :: r => txs_on p r
  end.
Lemma txs_on_app p a b : txs_on p (a ++ b) = txs_on p a ++ txs_on p b.
Proof. induction a as [|[] a IH]; cbn; rewrite ?IH; auto. destruct (_ =? _)%N; cbn; now rewrite ?IH. Qed.
Lemma txs_on_map_Free p l : txs_on p (map Free l) = [].
Proof. induction l; cbn; auto. Qed.
Definition q_of (p : pid) (s : pub) : list pmsg := match find_pipe p (pb_pipes s) with Some x => pp_q x | None => [] end.
Definition sent_by_app (o : pop) : list pmsg := match o with PSend _ _ _ m => [m] | _ => [] end.

Lemma txs_on_other p (l : list ppipe) (m : pmsg) :
  ~ In p (map pp_id l) -> txs_on p (flat_map snd (map (fun x => pipe_send x m) l)) = [].
Proof.
  induction l as [|x l IH]; cbn [map flat_map]; intros Hn; [reflexivity|]. rewrite txs_on_app, IH by (intros Hin; apply Hn; now right).
  rewrite app_nil_r. assert (E: pp_id x <> p) by (intros E; apply Hn; now left).
  unfold pipe_send. destruct (pp_closed x); [reflexivity|]. destruct (pp_busy x); [destruct (pq_full x); [destruct (pp_q x)|]|]; cbn; auto.
  destruct (N.eqb_spec (pp_id x) p); [contradiction|reflexivity].
Qed.

Lemma upd_pipe_absent id f l : ~ In id (map pp_id l) -> upd_pipe id f l = l.
Proof.
  unfold upd_pipe. induction l as [|w l IH]; cbn; intros Hn; [reflexivity|].
  destruct (N.eqb_spec (pp_id w) id) as [G|G]; [exfalso; apply Hn; left; auto|]. f_equal. apply IH. intros Hin. apply Hn. now right.
Qed.
Lemma find_upd_pipe p id f l x : NoDup (map pp_id l) -> find_pipe id l = Some x -> (forall y, pp_id (f y) = pp_id y) ->
  find_pipe p (upd_pipe id f l) = if N.eqb id p then Some (f x) else find_pipe p l.
Proof.
  intros ND F Hf. induction l as [|y l IH]; [discriminate|]. inversion ND; subst.
  unfold find_pipe in F. cbn [find] in F. destruct (N.eqb_spec (pp_id y) id) as [E|E].
  - inversion F; subst. change (upd_pipe (pp_id x) f (x :: l)) with ((if (pp_id x =? pp_id x)%N then f x else x) :: upd_pipe (pp_id x) f l).
    rewrite N.eqb_refl, upd_pipe_absent by auto. unfold find_pipe. cbn [find]. rewrite Hf. destruct (pp_id x =? p)%N; reflexivity.
  - change (upd_pipe id f (y :: l)) with ((if (pp_id y =? id)%N then f y else y) :: upd_pipe id f l).
    destruct (N.eqb_spec (pp_id y) id); [contradiction|]. unfold find_pipe at 1. cbn [find].
    destruct (N.eqb_spec (pp_id y) p) as [E2|E2].
    + destruct (N.eqb_spec id p); [congruence|]. unfold find_pipe. cbn [find]. destruct (N.eqb_spec (pp_id y) p); [reflexivity|contradiction].
    + fold (find_pipe p (upd_pipe id f l)). rewrite IH; auto. unfold find_pipe at 2. cbn [find].
      destruct (N.eqb_spec (pp_id y) p); [contradiction|reflexivity].
Qed.

Theorem pub_pipe_fifo_step s o s' outs p :
  PubInv s -> pub_step s o = (s', outs) -> (forall peer, o <> PPipeStart p peer) ->
  Sublist (txs_on p outs ++ q_of p s') (q_of p s ++ sent_by_app o).
Proof.
  intros (I1 & I2 & I3) H Hns. unfold q_of.
  assert (SAME: pb_pipes s' = pb_pipes s -> txs_on p outs = [] ->
                Sublist (txs_on p outs ++ match find_pipe p (pb_pipes s') with Some x => pp_q x | None => [] end)
                        (match find_pipe p (pb_pipes s) with Some x => pp_q x | None => [] end ++ sent_by_app o)).
  { intros E1 E2. rewrite E1, E2. cbn [app]. rewrite <- (app_nil_r (match find_pipe p (pb_pipes s) with Some x => pp_q x | None => [] end)) at 1.
    apply sl_app; [apply sl_refl|constructor]. }
  pose proof (fun id f l x => find_upd_pipe p id f l x) as UPD.
  destruct o as [k a nb m|k a nb|a rv|q peer|q|q rv|q rv m|k op|k|k| |now]; cbn [pub_step sent_by_app] in *;
    try (inversion H; subst; apply SAME; reflexivity).
  - (* PSend *)
    inversion H; subst; clear H. simp_p. rewrite txs_on_app. cbn [txs_on]. rewrite app_nil_r.
    clear SAME UPD Hns. revert I1 I2. generalize (pb_pipes s). intros l I1 I2. unfold find_pipe.
    induction l as [|x l IH]; cbn [map flat_map find fst snd]; [constructor|].
    inversion I1; subst. inversion I2; subst. rewrite pipe_send_id. rewrite txs_on_app.
    destruct (N.eqb_spec (pp_id x) p) as [E|E].
    + rewrite txs_on_other by (rewrite <- E; auto). rewrite app_nil_r. destruct H1 as (A & B & C & D).
      unfold pipe_send, pq_full. destruct (pp_closed x) eqn:CL; [cbn; rewrite (D eq_refl); constructor|].
      destruct (pp_busy x) eqn:BS.
      * destruct (pp_cap x <=? length (pp_q x)).
        -- destruct (pp_q x) as [|old r] eqn:Q; cbn [fst snd txs_on app]; simp_p; [rewrite Q; constructor|]. cbn. constructor. apply sl_refl.
        -- cbn [fst snd txs_on app]. simp_p. apply sl_refl.
      * cbn [fst snd txs_on]. rewrite E, N.eqb_refl. simp_p. destruct (A eq_refl) as [Q _]. rewrite Q. cbn. apply sl_refl.
    + assert (Z: txs_on p (snd (pipe_send x m)) = []).
      { unfold pipe_send. destruct (pp_closed x); [reflexivity|]. destruct (pp_busy x); [destruct (pq_full x); [destruct (pp_q x)|]|]; cbn; auto.
        destruct (N.eqb_spec (pp_id x) p); [contradiction|reflexivity]. }
      rewrite Z. cbn [app]. apply IH; auto.
  - destruct (negb _); inversion H; subst; [apply SAME; reflexivity|]. simp_p. cbn [txs_on app]. rewrite app_nil_r.
    assert (E: find_pipe p (pb_pipes s ++ [mkPpipe q false false [] (pb_sendbuf s) None]) = find_pipe p (pb_pipes s) \/
               (find_pipe p (pb_pipes s) = None /\ find_pipe p (pb_pipes s ++ [mkPpipe q false false [] (pb_sendbuf s) None]) = Some (mkPpipe q false false [] (pb_sendbuf s) None))).
    { unfold find_pipe. clear. induction (pb_pipes s) as [|x l IH]; cbn [app find pp_id].
      - destruct (q =? p)%N; auto.
      - destruct (pp_id x =? p)%N; auto. }
    destruct E as [E|[E1 E2]]; [rewrite E; apply sl_refl|rewrite E1, E2; constructor].
  - (* PPipeClose *)
    destruct (find_pipe q (pb_pipes s)) as [x|] eqn:F; inversion H; subst; [|apply SAME; reflexivity]. simp_p.
    rewrite txs_on_map_Free. cbn [app]. rewrite app_nil_r.
    rewrite (UPD q (fun x => mkPpipe (pp_id x) true (pp_busy x) [] (pp_cap x) (pp_tx x)) _ x I2 F) by auto.
    destruct (N.eqb_spec q p); [cbn; constructor|apply sl_refl].
  - (* PSendDone *)
    destruct (find_pipe q (pb_pipes s)) as [x|] eqn:F; [|inversion H; subst; apply SAME; reflexivity].
    destruct (negb (rv =? 0)%N).
    + inversion H; subst. simp_p. rewrite app_nil_r.
      rewrite (UPD q (fun x => mkPpipe (pp_id x) (pp_closed x) (pp_busy x) (pp_q x) (pp_cap x) None) _ x I2 F) by auto.
      assert (Z: txs_on p ((match pp_tx x with Some m => [Free m] | None => [] end) ++ [ClosePipe q]) = []) by (destruct (pp_tx x); reflexivity).
      rewrite Z. cbn [app]. destruct (N.eqb_spec q p) as [->|E]; [rewrite F|]; apply sl_refl.
    + destruct (pp_closed x).
      * inversion H; subst. simp_p. rewrite app_nil_r. cbn [txs_on app].
        rewrite (UPD q (fun x => mkPpipe (pp_id x) true (pp_busy x) (pp_q x) (pp_cap x) None) _ x I2 F) by auto.
        destruct (N.eqb_spec q p) as [->|E]; [rewrite F|]; apply sl_refl.
      * destruct (pp_q x) as [|m r] eqn:Q; inversion H; subst; simp_p; rewrite app_nil_r; cbn [txs_on].
        -- rewrite (UPD q (fun x => mkPpipe (pp_id x) false false [] (pp_cap x) None) _ x I2 F) by auto.
           destruct (N.eqb_spec q p) as [->|E]; [rewrite F, Q|]; cbn; try constructor. apply sl_refl.
        -- rewrite (UPD q (fun x => mkPpipe (pp_id x) false true r (pp_cap x) (Some m)) _ x I2 F) by auto.
           destruct (N.eqb_spec q p) as [->|E]; [rewrite F, Q|]; cbn; apply sl_refl.
  - (* PRecvDone *)
    inversion H; subst. apply SAME; auto. destruct (rv =? 0)%N; reflexivity.
  - (* PSetOpt *)
    destruct k; [inversion H; subst; apply SAME; reflexivity|]. destruct op; try (inversion H; subst; apply SAME; reflexivity).
    + destruct (_ || _); inversion H; subst; [apply SAME; reflexivity|]. simp_p. rewrite txs_on_app, txs_on_map_Free. cbn [txs_on app]. rewrite app_nil_r.
      unfold find_pipe. clear. induction (pb_pipes s) as [|x l IH]; cbn [map find]; [constructor|].
      destruct (pp_closed x) eqn:CL.
      * destruct (pp_id x =? p)%N; [apply sl_refl|exact IH].
      * simp_p. destruct (pp_id x =? p)%N; [simp_p; apply sl_firstn|exact IH].
    + destruct (_ <? _)%N; inversion H; subst; apply SAME; reflexivity.
Qed.

(* ---- conservation: owned + accepted (or received) + clones = owned' + taken by the transports + freed ---- *)
Definition pheld (p : ppipe) : list pmsg := pp_q p ++ match pp_tx p with Some m => [m] | None => [] end.
Definition pub_owned (s : pub) : list pmsg := flat_map pheld (pb_pipes s).
Definition nopen (s : pub) : nat := length (filter (fun p => negb (pp_closed p)) (pb_pipes s)).
Definition pub_in (s : pub) (o : pop) : list pmsg :=
  match o with
  | PSend _ _ _ m => m :: repeat m (nopen s)                 (* the caller's message and one nni_msg_clone per open pipe *)
  | PRecvDone _ rv m => if N.eqb rv 0 then [m] else []
  | _ => []
  end.
Definition pub_wire (s : pub) (o : pop) : list pmsg :=
  match o with
  | PSendDone p rv => if N.eqb rv 0 then match find_pipe p (pb_pipes s) with Some x => match pp_tx x with Some m => [m] | None => [] end | None => [] end else []
  | _ => []
  end.

Lemma pheld_upd id f l x y : NoDup (map pp_id l) -> find_pipe id l = Some x ->
  cnt y (flat_map pheld (upd_pipe id f l)) + cnt y (pheld x) = cnt y (flat_map pheld l) + cnt y (pheld (f x)).
Proof.
  unfold find_pipe, upd_pipe. induction l as [|z l IH]; cbn [map flat_map find]; intros ND F; [discriminate|].
  inversion ND; subst. destruct (N.eqb_spec (pp_id z) id) as [E|E].
  - inversion F; subst.
    assert (R: map (fun p => if (pp_id p =? pp_id x)%N then f p else p) l = l).
    { clear - H1. induction l as [|w l IH]; cbn; [reflexivity|].
      destruct (N.eqb_spec (pp_id w) (pp_id x)) as [G|G]; [exfalso; apply H1; left; auto|]. f_equal. apply IH. intros Hin. apply H1. now right. }
    rewrite R. cnt_simp. lia.
  - cnt_simp. specialize (IH H2 F). lia.
Qed.

Lemma pipe_send_cnt p m y : pipe_ok p ->
  cnt y (pheld p) + (if pp_closed p then 0 else cnt y [m]) = cnt y (pheld (fst (pipe_send p m))) + cnt y (freed (snd (pipe_send p m))).
Proof.
  intros (A & _). unfold pipe_send, pheld. destruct (pp_closed p); [cbn [fst snd freed]; cnt_simp; lia|].
  destruct (pp_busy p) eqn:BS.
  - destruct (pq_full p).
    + destruct (pp_q p) eqn:Q; cbn [fst snd freed]; simp_p; rewrite ?Q; cnt_simp; lia.
    + cbn [fst snd freed]. simp_p. cnt_simp. lia.
  - cbn [fst snd freed]. simp_p. destruct (A eq_refl) as [Q T]. rewrite Q, T. cnt_simp. lia.
Qed.

Lemma fanout_sum l m y : Forall pipe_ok l ->
  cnt y (flat_map pheld l) + length (filter (fun p => negb (pp_closed p)) l) * cnt y [m] =
  cnt y (flat_map pheld (map fst (map (fun p => pipe_send p m) l))) + cnt y (freed (flat_map snd (map (fun p => pipe_send p m) l))).
Proof.
  induction l as [|p l IH]; intros HF; cbn [flat_map map filter]; [reflexivity|]. inversion HF; subst.
  specialize (IH H2). pose proof (pipe_send_cnt p m y H1) as P. rewrite freed_app. cnt_simp.
  destruct (pp_closed p); cbn [negb length]; destruct (pmsg_eq_dec m y); lia.
Qed.

Theorem pub_conservation_step_law s o s' outs :
  PubInv s -> pub_step s o = (s', outs) ->
  forall y, cnt y (pub_owned s ++ pub_in s o) = cnt y (pub_owned s' ++ pub_wire s o ++ freed outs).
Proof.
  intros (I1 & I2 & I3) H y. unfold pub_owned.
  destruct o as [k a nb m|k a nb|a rv|q peer|q|q rv|q rv m|k op|k|k| |now]; cbn [pub_step pub_in pub_wire] in *;
    try (inversion H; subst; cbn [freed]; cnt_simp; lia).
  - (* PSend *)
    inversion H; subst; clear H. simp_p. rewrite freed_app. cbn [freed]. pose proof (fanout_sum (pb_pipes s) m y I1) as P.
    unfold nopen. cnt_simp. rewrite cnt_repeat. cnt_simp. destruct (pmsg_eq_dec m y); lia.
  - destruct (negb _); inversion H; subst; simp_p; cbn [freed]; [cnt_simp; lia|]. rewrite flat_map_app. cbn. cnt_simp. lia.
  - (* PPipeClose *)
    destruct (find_pipe q (pb_pipes s)) as [x|] eqn:F; inversion H; subst; simp_p; [|cbn [freed]; cnt_simp; lia].
    rewrite freed_map_Free. pose proof (pheld_upd q (fun x => mkPpipe (pp_id x) true (pp_busy x) [] (pp_cap x) (pp_tx x)) _ x y I2 F) as P.
    unfold pheld in P. fold pheld in P. simp_p. cnt_simp. lia.
  - (* PSendDone *)
    destruct (find_pipe q (pb_pipes s)) as [x|] eqn:F; [|inversion H; subst; destruct (rv =? 0)%N; cbn [freed]; cnt_simp; lia].
    destruct (N.eqb_spec rv 0) as [->|Hrv]; cbn [negb] in H.
    + destruct (pp_closed x).
      * inversion H; subst; simp_p. cbn [freed].
        pose proof (pheld_upd q (fun x => mkPpipe (pp_id x) true (pp_busy x) (pp_q x) (pp_cap x) None) _ x y I2 F) as P.
        unfold pheld in P. fold pheld in P. simp_p. destruct (pp_tx x); cnt_simp; lia.
      * destruct (pp_q x) as [|m r] eqn:Q; inversion H; subst; simp_p; cbn [freed].
        -- pose proof (pheld_upd q (fun x => mkPpipe (pp_id x) false false [] (pp_cap x) None) _ x y I2 F) as P.
           unfold pheld in P. fold pheld in P. simp_p. rewrite Q in P. destruct (pp_tx x); cnt_simp; lia.
        -- pose proof (pheld_upd q (fun x => mkPpipe (pp_id x) false true r (pp_cap x) (Some m)) _ x y I2 F) as P.
           unfold pheld in P. fold pheld in P. simp_p. rewrite Q in P. destruct (pp_tx x); cnt_simp; lia.
    + inversion H; subst; simp_p. rewrite freed_app. cbn [freed].
      pose proof (pheld_upd q (fun x => mkPpipe (pp_id x) (pp_closed x) (pp_busy x) (pp_q x) (pp_cap x) None) _ x y I2 F) as P.
      unfold pheld in P. fold pheld in P. simp_p. destruct (pp_tx x); cbn [freed]; cnt_simp; lia.
  - (* PRecvDone *)
    inversion H; subst. rewrite freed_app. destruct (rv =? 0)%N; cbn [freed]; cnt_simp; lia.
  - (* PSetOpt *)
    destruct k; [inversion H; subst; cbn [freed]; cnt_simp; lia|]. destruct op; try (inversion H; subst; cbn [freed]; cnt_simp; lia).
    + destruct (_ || _); inversion H; subst; simp_p; [cbn [freed]; cnt_simp; lia|].
      rewrite freed_app, freed_map_Free. cbn [freed]. cnt_simp. clear. induction (pb_pipes s) as [|x l IH]; cbn [map flat_map]; [reflexivity|].
      cnt_simp. destruct (pp_closed x); [cnt_simp; lia|]. unfold pheld at 1 3. simp_p. rewrite <- (firstn_skipn n (pp_q x)) at 1. cnt_simp. lia.
    + destruct (_ <? _)%N; inversion H; subst; cbn [freed]; cnt_simp; lia.
Qed.

(* ================================================================== raw SUB *)
Definition XInv (s : xsub) : Prop := xs_rq s <> [] -> xs_q s = [].
Lemma xsub_init_inv : XInv xsub_init. Proof. intros H. reflexivity. Qed.

Lemma run_getq_nil_q rq : run_getq [] rq = ([], rq, []).
Proof. destruct rq; reflexivity. Qed.
Lemma run_getq_nil_rq q : run_getq q [] = (q, [], []).
Proof. destruct q; reflexivity. Qed.
Lemma run_getq_one q a : run_getq q [a] = match q with m :: q' => (q', [], [Complete a E_OK (Some m)]) | [] => ([], [a], []) end.
Proof. destruct q as [|m q']; cbn; [reflexivity|]. now rewrite run_getq_nil_rq. Qed.

(* no filtering: what happens to an arriving message does not depend on its content *)
Theorem xsub_arrival_law mf rf s p m :
  xs_closed s = false ->
  (forall a r, xs_rq s = a :: r ->
     xsub_step mf rf s (PRecvDone p 0 m) = (run_notify (mkXsub (xs_q s) (xs_cap s) r false (xs_recvable s)), [Complete a E_OK (Some m); TranRecv p])) /\
  (xs_rq s = [] -> length (xs_q s) < xs_cap s ->
     xsub_step mf rf s (PRecvDone p 0 m) = (run_notify (mkXsub (xs_q s ++ [m]) (xs_cap s) [] false (xs_recvable s)), [TranRecv p])) /\
  (xs_rq s = [] -> xs_cap s <= length (xs_q s) ->
     xsub_step mf rf s (PRecvDone p 0 m) = (s, [Free m; TranRecv p])).
Proof.
  intros C. cbn [xsub_step N.eqb negb]. rewrite C. repeat split; intros.
  - now rewrite H.
  - rewrite H. apply Nat.ltb_lt in H0. now rewrite H0.
  - rewrite H. apply Nat.ltb_ge in H0. now rewrite H0.
Qed.

Theorem xsub_step_law mf rf s o s' outs :
  XInv s -> xsub_step mf rf s o = (s', outs) ->
  XInv s' /\
  Sublist (delivered outs ++ xs_q s') (xs_q s ++ arrived o) /\
  (forall x, cnt x (xs_q s ++ arrived o) = cnt x (xs_q s' ++ delivered outs ++ freed outs)).
Proof.
  intros I H. unfold XInv in *.
  assert (SAME: s' = s -> delivered outs = [] -> freed outs = arrived o ->
     (xs_rq s' <> [] -> xs_q s' = []) /\ Sublist (delivered outs ++ xs_q s') (xs_q s ++ arrived o) /\
     (forall x, cnt x (xs_q s ++ arrived o) = cnt x (xs_q s' ++ delivered outs ++ freed outs))).
  { intros -> E1 E2. rewrite E1, E2. cbn [app]. repeat split; auto.
    rewrite <- (app_nil_r (xs_q s)) at 1. apply sl_app; [apply sl_refl|constructor]. }
  destruct o as [k a nb m|k a nb|a rv|p peer|p|p rv|p rv m|k op|k|k| |now]; cbn [xsub_step arrived] in *;
    try (inversion H; subst; apply SAME; reflexivity).
  - (* PRecv *)
    destruct (nb && _) eqn:G; [inversion H; subst; apply SAME; reflexivity|].
    destruct (xs_rq s) as [|a0 r0] eqn:R.
    + cbn [app] in H. rewrite run_getq_one in H. destruct (xs_q s) as [|m q'] eqn:Q; inversion H; subst; simp_x.
      * repeat split; auto; try constructor.
      * cbn [delivered freed]. change (E_OK =? 0)%N with true. cbn iota. rewrite app_nil_r. repeat split; try congruence; [apply sl_refl|].
        intros x. cnt_simp. lia.
    + rewrite (I ltac:(congruence)) in *. rewrite run_getq_nil_q in H. inversion H; subst; simp_x. repeat split; auto; constructor.
  - (* PCancel *)
    destruct (has_id a (xs_rq s)); inversion H; subst; [|apply SAME; reflexivity]. simp_x. cbn [delivered freed].
    rewrite !app_nil_r. repeat split; try apply sl_refl; auto.
    intros Hne. apply I. intros E. rewrite E in Hne. apply Hne. reflexivity.
  - destruct (negb _); inversion H; subst; apply SAME; reflexivity.
  - (* PRecvDone *)
    destruct (N.eqb_spec rv 0) as [->|Hrv]; cbn [negb] in H.
    2:{ inversion H; subst. apply SAME; auto. }
    destruct (xs_closed s).
    { inversion H; subst. apply SAME; auto. }
    destruct (xs_rq s) as [|a r] eqn:R.
    + destruct (length (xs_q s) <? xs_cap s); inversion H; subst; simp_x; [|apply SAME; auto].
      cbn [delivered freed]. rewrite !app_nil_r. repeat split; auto; try apply sl_refl. intros Hne; congruence.
    + inversion H; subst; simp_x. cbn [delivered freed]. change (E_OK =? 0)%N with true. cbn iota.
      rewrite (I ltac:(congruence)). cbn. repeat split; auto; try apply sl_refl.
  - (* PSetOpt *)
    destruct k; [inversion H; subst; apply SAME; reflexivity|]. destruct op; try (inversion H; subst; apply SAME; reflexivity).
    + destruct (_ <? _)%N; inversion H; subst; apply SAME; reflexivity.
    + destruct (_ <? _)%N; [inversion H; subst; apply SAME; reflexivity|].
      set (ex := length (xs_q s) - (n + 1)) in *.
      assert (SK: Sublist (skipn ex (xs_q s)) (xs_q s)).
      { rewrite <- (firstn_skipn ex (xs_q s)) at 2. apply sl_app_skip. apply sl_refl. }
      destruct rf.
      * destruct (xs_rq s) as [|a r] eqn:R.
        -- rewrite run_getq_nil_rq in H. inversion H; subst; simp_x.
           rewrite !delivered_app, !freed_app, delivered_map_Free, freed_map_Free. cbn [delivered freed app]. rewrite !app_nil_r.
           split; [congruence|]. split; [exact SK|]. intros x. rewrite <- (firstn_skipn ex (xs_q s)) at 1. cnt_simp. lia.
        -- rewrite (I ltac:(congruence)) in *. subst ex. rewrite skipn_nil, firstn_nil, run_getq_nil_q in H.
           inversion H; subst; simp_x. cbn. repeat split; auto; constructor.
      * inversion H; subst; simp_x. rewrite !delivered_app, !freed_app, delivered_map_Free, freed_map_Free. cbn [delivered freed app]. rewrite !app_nil_r.
        split; [intros Hne; rewrite (I Hne); now rewrite skipn_nil|]. split; [exact SK|].
        intros x. rewrite <- (firstn_skipn ex (xs_q s)) at 1. cnt_simp. lia.
  - (* PSockClose *)
    inversion H; subst; simp_x. rewrite !delivered_app, !freed_app, delivered_map_Free, freed_map_Free, delivered_fail, freed_fail.
    cbn [app]. rewrite !app_nil_r. split; [auto|]. split; [constructor|]. intros x. cnt_simp. lia.
Qed.

(* non-blocking receive, repaired nni_msgq_aio_get: immediate; NNG_EAGAIN exactly when nothing is
   queued, i.e. exactly when the blocking form would have been left waiting *)
Theorem xsub_nb_fixed rf s k a s' outs :
  XInv s -> xsub_step true rf s (PRecv k a true) = (s', outs) ->
  exists rv x, outs = [Complete a rv x] /\ xs_rq s' = xs_rq s /\
    (rv = E_AGAIN <-> xs_q s = []) /\ (rv = E_AGAIN -> s' = s /\ x = None) /\
    (rv <> E_AGAIN -> rv = E_OK /\ exists m r, xs_q s = m :: r /\ x = Some m /\ xs_q s' = r) /\
    (xs_q s = [] <-> snd (xsub_step true rf s (PRecv k a false)) = []) /\
    (poll_r (xsub_poll s) = Some true <-> rv <> E_AGAIN).
Proof.
  intros I H. unfold XInv in I. cbn [xsub_step] in *. cbn [negb orb andb] in *.
  assert (P: poll_r (xsub_poll s) = Some (negb (match xs_q s with [] => true | _ => false end))) by reflexivity.
  rewrite P. clear P.
  destruct (xs_q s) as [|m r] eqn:Q.
  - rewrite orb_true_r in H. inversion H; subst. exists E_AGAIN, None.
    split; [reflexivity|]. split; [reflexivity|]. split; [tauto|]. split; [auto|].
    split; [intros X; exfalso; apply X; reflexivity|]. split.
    + rewrite run_getq_nil_q. cbn. tauto.
    + cbn. split; [discriminate|]. intros X. exfalso. apply X. reflexivity.
  - destruct (xs_rq s) as [|a0 r0] eqn:R; [|specialize (I ltac:(congruence)); discriminate].
    cbn [negb orb andb app] in *. rewrite run_getq_one in *. inversion H; subst; simp_x.
    exists E_OK, (Some m).
    split; [reflexivity|]. split; [reflexivity|]. split; [split; intros; discriminate|]. split; [intros; discriminate|].
    split; [intros _; split; [reflexivity|]; exists m, r; auto|]. split.
    + cbn. split; intros; discriminate.
    + cbn. split; [intros _; discriminate|reflexivity].
Qed.

(* the pinned nni_msgq_aio_get: a reachable state with a message queued and the descriptor raised in
   which the non-blocking receive answers NNG_EAGAIN although the blocking form completes at once *)
Definition xrefute_ops : list pop := [PPipeStart 1%N PROTO_PUB; PRecvDone 1%N 0%N (mkPmsg [] [1%N])].
Fixpoint xsub_run (mf rf : bool) (s : xsub) (ops : list pop) : xsub :=
  match ops with [] => s | o :: r => xsub_run mf rf (fst (xsub_step mf rf s o)) r end.
Theorem xsub_nb_pinned_witness :
  let s := xsub_run false false xsub_init xrefute_ops in
  poll_r (xsub_poll s) = Some true /\
  snd (xsub_step false false s (PRecv None 9%N true)) = [Complete 9%N E_AGAIN None] /\
  snd (xsub_step false false s (PRecv None 9%N false)) = [Complete 9%N E_OK (Some (mkPmsg [] [1%N]))].
Proof. vm_compute. repeat split; reflexivity. Qed.
Theorem xsub_nb_fixed_same_history :
  snd (xsub_step true true (xsub_run true true xsub_init xrefute_ops) (PRecv None 9%N true)) = [Complete 9%N E_OK (Some (mkPmsg [] [1%N]))].
Proof. vm_compute. reflexivity. Qed.

(* ================================================================== wrappers used by Properties_C05 *)
Theorem sub_mirror_pinned_refuted :
  exists ops, sub_ops_ok false sub_init ops /\ ~ RInv (fst (sub_run false sub_init ops)).
Proof. exists refute_ops. split; [cbn; tauto|]. vm_compute. discriminate. Qed.

Theorem sub_mirror_holds ops :
  sub_ops_ok true sub_init ops ->
  let s := fst (sub_run true sub_init ops) in
  forall a, poll_r (sub_poll s) = Some true <-> exists m, snd (sub_step true s (PRecv None a true)) = [Complete a E_OK (Some m)].
Proof.
  intros Hok s a. destruct (sub_run_inv true ops sub_init sub_init_inv Hok) as (_ & _ & R & _).
  specialize (R eq_refl (proj1 sub_init_rinv)). fold s in R. unfold RInv in R. cbn [sub_poll poll_r]. rewrite R.
  rewrite <- (master_nonempty_recv true s a). split; [intros E; inversion E; reflexivity|intros ->; reflexivity].
Qed.

Theorem sub_no_missed_wakeup fixed ops :
  sub_ops_ok fixed sub_init ops ->
  let s := fst (sub_run fixed sub_init ops) in
  forall a m, snd (sub_step fixed s (PRecv None a true)) = [Complete a E_OK (Some m)] -> poll_r (sub_poll s) = Some true.
Proof.
  intros Hok s a m E. destruct (sub_run_inv fixed ops sub_init sub_init_inv Hok) as (_ & R & _).
  specialize (R (proj2 sub_init_rinv)). fold s in R. cbn [sub_poll poll_r]. f_equal. apply R.
  apply (master_nonempty_recv fixed s a). eauto.
Qed.

Theorem sub_queue_invariant_run fixed ops :
  sub_ops_ok fixed sub_init ops ->
  let s := fst (sub_run fixed sub_init ops) in
  SInv s /\ forall c m, In c (sb_ctxs s) -> In m (sc_lmq c) -> subscribed c m.
Proof.
  intros Hok s. destruct (sub_run_inv fixed ops sub_init sub_init_inv Hok) as (I & _). fold s in I.
  split; auto. intros c m Hc Hm. eapply queued_matches; eauto.
Qed.

Theorem xsub_nb_pinned_refuted :
  exists s, XInv s /\ poll_r (xsub_poll s) = Some true /\
    snd (xsub_step false false s (PRecv None 9%N true)) = [Complete 9%N E_AGAIN None] /\
    snd (xsub_step false false s (PRecv None 9%N false)) <> [].
Proof.
  exists (xsub_run false false xsub_init xrefute_ops). split; [intros H; vm_compute in H; exfalso; apply H; reflexivity|].
  vm_compute. repeat split; auto. discriminate.
Qed.

Theorem pub_poll_mirror s c a m :
  poll_w (pub_poll s) = Some true /\ In (Complete a E_OK None) (snd (pub_step s (PSend c a true m))) /\
  ~ In (Complete a E_AGAIN None) (snd (pub_step s (PSend c a true m))).
Proof.
  destruct (pub_send_immediate s c a true m) as (pre & E & N & _). rewrite E. cbn [snd]. split; [reflexivity|]. split.
  - apply in_or_app. right. right. now left.
  - intros Hin. apply in_app_or in Hin as [Hin|[Hin|[Hin|[]]]]; try discriminate. eapply N; eauto.
Qed.

Fixpoint pub_run (s : pub) (ops : list pop) : pub * list (pop * pub * list pout) :=
  match ops with
  | [] => (s, [])
  | o :: r => let (s1, outs) := pub_step s o in let (s2, tr) := pub_run s1 r in (s2, (o, s, outs) :: tr)
  end.
Fixpoint pub_ops_ok (s : pub) (ops : list pop) : Prop :=
  match ops with [] => True | o :: r => pub_op_ok s o /\ pub_ops_ok (fst (pub_step s o)) r end.
Fixpoint ptr_in (tr : list (pop * pub * list pout)) : list pmsg :=
  match tr with [] => [] | (o, s, outs) :: r => pub_in s o ++ ptr_in r end.
Fixpoint ptr_out (tr : list (pop * pub * list pout)) : list pmsg :=
  match tr with [] => [] | (o, s, outs) :: r => pub_wire s o ++ freed outs ++ ptr_out r end.
Theorem pub_conservation_run ops : forall s, PubInv s -> pub_ops_ok s ops ->
  let (s', tr) := pub_run s ops in
  PubInv s' /\ forall y, cnt y (pub_owned s ++ ptr_in tr) = cnt y (pub_owned s' ++ ptr_out tr).
Proof.
  induction ops as [|o r IH]; intros s HI Hok; cbn [pub_run].
  - split; auto.
  - cbn [pub_ops_ok] in Hok. destruct Hok as [Ho Hr]. destruct (pub_step s o) as [s1 outs] eqn:S. cbn [fst] in Hr.
    pose proof (pub_step_inv _ _ _ _ HI Ho S) as HI1. pose proof (pub_conservation_step_law _ _ _ _ HI S) as L.
    specialize (IH s1 HI1 Hr). destruct (pub_run s1 r) as [s2 tr]. destruct IH as [A B]. split; auto.
    intros y. cbn [ptr_in ptr_out]. specialize (L y). specialize (B y). cnt_simp. lia.
Qed.
