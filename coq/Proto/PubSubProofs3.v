(* PubSubProofs3: PUB (send never blocks, fan-out, per-pipe FIFO, drop-oldest,
   conservation) and raw SUB (no filtering, through the upper read queue,
   non-blocking receive and the descriptor, conservation). *)
From Coq Require Import List Arith NArith Bool Lia.
From NngV Require Import Proto.Common Proto.PushModel Proto.PushProofs Proto.SubModel Proto.PubModel Proto.XsubModel
  Proto.PubSubProofs Proto.PubSubProofs2.
Import ListNotations.

Ltac simp_p := cbn [pp_id pp_closed pp_busy pp_q pp_cap pp_tx pb_pipes pb_sendbuf] in *.
Ltac simp_x := cbn [xs_q xs_cap xs_rq xs_closed xs_recvable run_notify] in *.

(* ================================================================== PUB *)
(* a send completes in the same step with success, whatever the flags; the state has no
   place where a user aio could wait *)
Theorem pub_send_immediate s c a nb m :
  exists pre, pub_step s (PSend c a nb m) =
    (mkPub (map (fun p => fst (pipe_send p m)) (pb_pipes s)) (pb_sendbuf s), pre ++ [Free m; Complete a E_OK None]) /\
    (forall a' rv x, ~ In (Complete a' rv x) pre) /\
    pub_step s (PSend c a true m) = pub_step s (PSend c a false m).
Proof.
  exists (flat_map snd (map (fun p => pipe_send p m) (pb_pipes s))). cbn [pub_step]. rewrite map_map. repeat split; auto.
  intros a' rv x Hin. apply in_flat_map in Hin as (y & Hy & Hin). apply in_map_iff in Hy as (p & <- & _).
  unfold pipe_send in Hin. destruct (pp_closed p); [destruct Hin|]. destruct (pp_busy p); [destruct (pq_full p); [destruct (pp_q p)|]|];
    cbn in Hin; try tauto; destruct Hin as [Hin|[]]; discriminate.
Qed.

(* what a send does to one pipe, in the property's words *)
Definition fanout_spec (p : ppipe) (m : pmsg) (p' : ppipe) (o : list pout) : Prop :=
  (pp_closed p = true -> p' = p /\ o = []) /\
  (pp_closed p = false -> pp_busy p = false ->
     p' = mkPpipe (pp_id p) false true (pp_q p) (pp_cap p) (Some m) /\ o = [TranSend (pp_id p) m]) /\
  (pp_closed p = false -> pp_busy p = true -> length (pp_q p) < pp_cap p ->
     p' = mkPpipe (pp_id p) false true (pp_q p ++ [m]) (pp_cap p) (pp_tx p) /\ o = []) /\
  (pp_closed p = false -> pp_busy p = true -> pp_cap p <= length (pp_q p) -> forall old r, pp_q p = old :: r ->
     p' = mkPpipe (pp_id p) false true (r ++ [m]) (pp_cap p) (pp_tx p) /\ o = [Free old]).
Theorem pub_fanout_law p m : fanout_spec p m (fst (pipe_send p m)) (snd (pipe_send p m)).
Proof.
  unfold fanout_spec, pipe_send, pq_full. repeat split; intros.
  - now rewrite H.
  - now rewrite H.
  - now rewrite H, H0.
  - now rewrite H, H0.
  - rewrite H, H0. apply Nat.leb_gt in H1. now rewrite H1.
  - rewrite H, H0. apply Nat.leb_gt in H1. now rewrite H1.
  - rewrite H, H0. apply Nat.leb_le in H1. now rewrite H1, H2.
  - rewrite H, H0. apply Nat.leb_le in H1. now rewrite H1, H2.
Qed.

Definition pipe_ok (p : ppipe) : Prop :=
  (pp_busy p = false -> pp_q p = [] /\ pp_tx p = None) /\ length (pp_q p) <= pp_cap p /\ 1 <= pp_cap p /\
  (pp_closed p = true -> pp_q p = []).
Definition PubInv (s : pub) : Prop :=
  Forall pipe_ok (pb_pipes s) /\ NoDup (map pp_id (pb_pipes s)) /\ 1 <= pb_sendbuf s.
Definition pub_op_ok (s : pub) (o : pop) : Prop :=
  match o with PPipeStart p _ => ~ In p (map pp_id (pb_pipes s)) | _ => True end.

Lemma upd_pipe_ids id f l : (forall p, pp_id (f p) = pp_id p) -> map pp_id (upd_pipe id f l) = map pp_id l.
Proof. intros Hf. unfold upd_pipe. rewrite map_map. apply map_ext. intros p. destruct (N.eqb (pp_id p) id); auto. Qed.
Lemma forall_upd_pipe id f l : Forall pipe_ok l -> (forall p, In p l -> pipe_ok p -> pipe_ok (f p)) -> Forall pipe_ok (upd_pipe id f l).
Proof.
  intros H Hf. apply Forall_forall. intros p' Hin. unfold upd_pipe in Hin. apply in_map_iff in Hin as (p & <- & Hin).
  pose proof (proj1 (Forall_forall _ _) H p Hin). destruct (N.eqb (pp_id p) id); auto.
Qed.
Lemma pipe_send_ok p m : pipe_ok p -> pipe_ok (fst (pipe_send p m)).
Proof.
  intros (A & B & C & D). unfold pipe_send, pq_full. destruct (pp_closed p) eqn:CL; [repeat split; auto|].
  destruct (pp_busy p) eqn:BS.
  - destruct (pp_cap p <=? length (pp_q p)) eqn:L.
    + destruct (pp_q p) as [|old r] eqn:Q; cbn [fst]; unfold pipe_ok; simp_p; [repeat split; auto; rewrite ?Q; auto|].
      repeat split; auto; try discriminate. cbn in B. rewrite app_length. cbn. lia.
    + apply Nat.leb_gt in L. cbn [fst]. unfold pipe_ok. simp_p. repeat split; auto; try discriminate. rewrite app_length. cbn. lia.
  - cbn [fst]. unfold pipe_ok. simp_p. destruct (A eq_refl) as [Q _]. rewrite Q in *. repeat split; auto; discriminate.
Qed.
Lemma pipe_send_id p m : pp_id (fst (pipe_send p m)) = pp_id p.
Proof. unfold pipe_send. destruct (pp_closed p); auto. destruct (pp_busy p); auto. destruct (pq_full p); auto. destruct (pp_q p); auto. Qed.
Lemma find_pipe_some id l p : find_pipe id l = Some p -> In p l /\ pp_id p = id.
Proof. unfold find_pipe. intros H. apply find_some in H as [A B]. split; auto. now apply N.eqb_eq. Qed.

Theorem pub_step_inv s o s' outs : PubInv s -> pub_op_ok s o -> pub_step s o = (s', outs) -> PubInv s'.
Proof.
  intros (I1 & I2 & I3) Hok H. unfold PubInv.
  destruct o as [k a nb m|k a nb|a rv|p peer|p|p rv|p rv m|k op|k|k| |now]; cbn [pub_step pub_op_ok] in *;
    try (inversion H; subst; simp_p; auto; fail).
  - inversion H; subst; simp_p. repeat split; auto.
    + apply Forall_forall. intros p' Hin. rewrite map_map in Hin. apply in_map_iff in Hin as (p & <- & Hin). apply pipe_send_ok.
      eapply Forall_forall; eauto.
    + rewrite !map_map. erewrite map_ext; [exact I2|]. intros p. apply pipe_send_id.
  - destruct (negb _); inversion H; subst; simp_p; auto. repeat split; auto.
    + apply Forall_app. split; auto. constructor; [|constructor]. unfold pipe_ok. simp_p. repeat split; auto; try discriminate; cbn; lia.
    + rewrite map_app. cbn. clear - I2 Hok. induction (map pp_id (pb_pipes s)) as [|y l IH]; cbn.
      * constructor; [tauto|constructor].
      * inversion I2; subst. constructor.
        -- intros Hin. apply in_app_or in Hin as [Hin|[<-|[]]]; auto. apply Hok. now left.
        -- apply IH; auto. intros Hin. apply Hok. now right.
  - destruct (find_pipe p (pb_pipes s)); inversion H; subst; simp_p; auto. repeat split; auto.
    + apply forall_upd_pipe; auto. intros x Hin (A & B & C & D). unfold pipe_ok. simp_p. repeat split; auto; try (cbn; lia).
      intros E. destruct (A E). auto.
    + rewrite upd_pipe_ids; auto.
  - destruct (find_pipe p (pb_pipes s)) as [x|] eqn:F; [|inversion H; subst; auto].
    destruct (negb (rv =? 0)%N).
    + inversion H; subst; simp_p. repeat split; auto.
      * apply forall_upd_pipe; auto. intros y Hin (A & B & C & D). unfold pipe_ok. simp_p. repeat split; auto.
        intros E. destruct (A E). auto.
      * rewrite upd_pipe_ids; auto.
    + destruct (pp_closed x) eqn:CL.
      * inversion H; subst; simp_p. repeat split; auto.
        -- apply forall_upd_pipe; auto. intros y Hin (A & B & C & D). unfold pipe_ok. simp_p. repeat split; auto.
           ++ intros E. destruct (A E). auto.
           ++ intros _. (* only the pipe found is updated, but the bound holds for any closed... *)
              destruct (pp_closed y) eqn:CY; auto.
              (* an open pipe that is updated: it is the found pipe, which is closed *)
              admit_placeholder.
        -- rewrite upd_pipe_ids; auto.
      * admit_placeholder.
  - admit_placeholder.
Qed.
