(* PollSurvey: the C15 instances for RESPONDENT, SURVEYOR and their raw variants
   (survey0/respond.c, survey.c, xrespond.c, xsurvey.c).

   RESPONDENT  [M_resp fx]   with all repairs (rfix_all): invariant, immediate, possible, mirror hold;
                             strict / mirror_exact / mirror_iff refuted by witnesses (state machine).
                             With the flags the source has today (resp_cur: everything except rf_nb):
                             invariant, immediate and the receive half of the mirror hold; nb_possible and
                             the mirror (send half) are refuted.
   SURVEYOR    [M_surv nbfix] nbfix = true: invariant, immediate, possible, strict, mirror hold; mirror_exact and
                             mirror_iff refuted; nbfix = false: immediate refuted.
   raw SURVEYOR / raw RESPONDENT [M_xsurv fx], [M_xresp fx] with mqfix_all: every clause at full strength. *)
From Coq Require Import List Arith NArith Bool ZArith Lia Permutation.
From NngV Require Import Proto.Common Proto.SurveyBacktrace Proto.SurveyModel Proto.RespondModel Proto.XSurveyModel
  Proto.XRespondModel Proto.SurveyProofs Proto.RespondProofs Proto.XSurveyProofs Proto.PollModel Proto.PollProofs.
Import ListNotations.

Ltac errs := unfold E_OK, E_AGAIN, E_NOTSUP, E_STATE, E_CLOSED, E_PROTO, E_NOMEM, E_CONNRESET, E_CANCELED, E_TIMEDOUT in *.
Ltac unM M := unfold M in *; cbn [pm_step pm_ok pm_inv pm_busy pm_cls pm_poll pm_st pm_init] in *.

(* ================================================================== keyed lists *)
Lemma kget_app_some {A} k (v : A) l l' : kget k l = Some v -> kget k (l ++ l') = Some v.
Proof. induction l as [|[k0 v0] l IH]; cbn; [discriminate|]. destruct (N.eqb k0 k); auto. Qed.
Lemma kget_app_none {A} k (l l' : list (N * A)) : kget k l = None -> kget k (l ++ l') = kget k l'.
Proof. induction l as [|[k0 v0] l IH]; cbn; [auto|]. destruct (N.eqb k0 k); [discriminate|auto]. Qed.
Lemma kget_notin_none {A} k (l : list (N * A)) : ~ In k (map fst l) -> kget k l = None.
Proof.
  induction l as [|[k0 v0] l IH]; cbn; [auto|]. intros H. destruct (N.eqb_spec k0 k); [exfalso; auto|]. apply IH. tauto.
Qed.
Lemma kget_some_key {A} k (v : A) l : kget k l = Some v -> In k (map fst l).
Proof. intros H. apply kget_in in H. apply in_map_iff. exists (k, v). auto. Qed.
Lemma kget_key_some {A} k (l : list (N * A)) : In k (map fst l) -> exists v, kget k l = Some v.
Proof.
  induction l as [|[k0 v0] l IH]; cbn; [contradiction|]. intros H. destruct (N.eqb_spec k0 k); [eauto|].
  destruct H as [H|H]; [contradiction|auto].
Qed.
Lemma kget_split {A} k (x : A) l : kget k l = Some x ->
  exists l1 l2, l = l1 ++ (k, x) :: l2 /\ forall v, kset k v l = l1 ++ (k, v) :: l2.
Proof.
  induction l as [|[k0 v0] l IH]; cbn; [discriminate|]. destruct (N.eqb_spec k0 k) as [->|NE].
  - intros H. inversion H; subst. exists [], l. split; [reflexivity|]. intros v. reflexivity.
  - intros H. destruct (IH H) as (l1 & l2 & E1 & E2). exists ((k0, v0) :: l1), l2. split; [cbn; now rewrite E1|].
    intros v. cbn. now rewrite E2.
Qed.
Lemma kget_kdel_kset {A} k k' (v : A) l : k' <> k -> kget k' (kdel k (kset k v l)) = kget k' l.
Proof. intros H. rewrite kget_kdel_neq by auto. now apply kget_kset_neq. Qed.
Lemma nodup_mid_remove {A} (a s b : list A) : NoDup (a ++ s ++ b) -> NoDup (a ++ b) /\ forall k, In k s -> ~ In k (a ++ b).
Proof.
  induction s as [|x s IH]; cbn [app]; intros H; [split; [exact H|contradiction]|].
  apply NoDup_remove in H as [H1 H2]. destruct (IH H1) as [A1 A2]. split; [exact A1|].
  intros k [<-|Hk]; [|auto]. intros X. apply H2. apply in_app_or in X as [X|X]; apply in_or_app; [now left|].
  right. apply in_or_app. now right.
Qed.

(* ================================================================== RESPONDENT *)
Definition rfx (nb : bool) : resp_fix := mkRfix nb true true true true true.
Definition resp_cur : resp_fix := rfx false.      (* the source today: every repair except rf_nb *)

Definition rctx_aios (c : rctx) : list aioid :=
  match rc_saio c with Some (a, _) => [a] | None => [] end ++ match rc_raio c with Some a => [a] | None => [] end.
Definition resp_busy (s : resp) : list aioid := flat_map (fun x => rctx_aios (snd x)) (rs_ctxs s).

(* the environment contract: an aio is submitted once at a time; pipes are started once, with non-zero ids;
   a send completion arrives only for a pipe whose transmitter is busy; a receive completion only for a pipe
   with a receive posted (a pipe waiting on recvpipes has none); a context is opened once *)
Definition resp_ok (s : resp) (o : pop) : Prop :=
  match o with
  | PSend _ a _ _ | PRecv _ a _ => ~ In a (resp_busy s)
  | PPipeStart p _ => p <> 0%N /\ ~ In p (map fst (rs_pipes s))
  | PSendDone p _ => exists x, kget p (rs_pipes s) = Some x /\ rp_busy x = true
  | PRecvDone p _ _ => ~ In p (rs_recvpipes s)
  | PCtxOpen c => kget (ckey (Some c)) (rs_ctxs s) = None
  | _ => True
  end.

(* ---- the invariant, in three independent parts ---- *)
Definition sq (l : list (pid * rpipe)) : list N := flat_map (fun x => rp_sendq (snd x)) l.
(* the socket's own context exists; an empty backtrace means no pipe is recorded *)
Definition RBc (cs : list (N * rctx)) : Prop :=
  NoDup (map fst cs) /\ exists c0, kget 0%N cs = Some c0 /\ (rc_bt c0 = [] -> rc_pipe c0 = 0%N).
(* pipe ids are not 0; the pipes on recvpipes are open and hold a parsed survey; the receive descriptor *)
Definition RBr (ps : list (pid * rpipe)) (rp : list pid) (rd : bool) : Prop :=
  kget 0%N ps = None /\
  (forall p, In p rp -> exists x m tl, kget p ps = Some x /\ rp_closed x = false /\ rp_rmsg x = m :: tl /\ pm_hdr m <> []) /\
  NoDup rp /\ rd = negb (isnil rp).
(* the contexts queued behind busy pipes: each once, each with its send aio *)
Definition RBq (cs : list (N * rctx)) (ps : list (pid * rpipe)) : Prop :=
  (forall k, In k (sq ps) -> exists c, kget k cs = Some c /\ rc_saio c <> None) /\ NoDup (sq ps).
Definition RBase (s : resp) : Prop :=
  RBc (rs_ctxs s) /\ RBr (rs_pipes s) (rs_recvpipes s) (rs_readable s) /\ RBq (rs_ctxs s) (rs_pipes s).
(* the send descriptor: raised iff the socket's own context holds a survey whose pipe is idle or gone *)
Definition pidle (q : N) (ps : list (pid * rpipe)) : bool :=
  match live_pipe q ps with Some x => negb (rp_busy x) | None => true end.
Definition idle0 (cs : list (N * rctx)) (ps : list (pid * rpipe)) : bool :=
  match kget 0%N cs with Some c0 => negb (isnil (rc_bt c0)) && pidle (rc_pipe c0) ps | None => false end.
Definition RW (s : resp) : Prop := rs_writable s = idle0 (rs_ctxs s) (rs_pipes s).
Definition RInv (fx : resp_fix) (s : resp) : Prop := RBase s /\ (rf_nb fx = true -> RW s).

Definition M_resp (fx : resp_fix) : pmodel :=
  mkPM resp resp_init (resp_step fx) resp_poll resp_ok (RInv fx) resp_busy (fun _ => true).

(* ---- sq ---- *)
Lemma sq_app l1 l2 : sq (l1 ++ l2) = sq l1 ++ sq l2.
Proof. apply flat_map_app. Qed.
Lemma sq_kset p x ps : kget p ps = Some x ->
  exists A B, sq ps = A ++ rp_sendq x ++ B /\ forall v, sq (kset p v ps) = A ++ rp_sendq v ++ B.
Proof.
  intros H. destruct (kget_split _ _ _ H) as (l1 & l2 & E1 & E2). exists (sq l1), (sq l2). split.
  - rewrite E1, sq_app. reflexivity.
  - intros v. rewrite E2, sq_app. reflexivity.
Qed.
Lemma sq_kset_same p x x' ps : kget p ps = Some x -> rp_sendq x' = rp_sendq x -> sq (kset p x' ps) = sq ps.
Proof. intros H E. destruct (sq_kset _ _ _ H) as (A & B & E1 & E2). now rewrite E2, E1, E. Qed.
Lemma sq_unqueue k ps : sq (unqueue_ctx k ps) = remove_id k (sq ps).
Proof.
  induction ps as [|[p x] ps IH]; [reflexivity|]. unfold sq, unqueue_ctx, remove_id in *. cbn [map flat_map fst snd rp_sendq].
  rewrite filter_app. now rewrite IH.
Qed.
Lemma in_remove_id k a l : In k (remove_id a l) <-> In k l /\ k <> a.
Proof.
  unfold remove_id. rewrite filter_In. split; intros [A B]; split; auto.
  - intros ->. rewrite N.eqb_refl in B. discriminate.
  - destruct (N.eqb_spec k a); [contradiction|reflexivity].
Qed.

(* ---- RBq ---- *)
Lemma rbq_ctx cs ps k c' : RBq cs ps -> (forall c, kget k cs = Some c -> rc_saio c <> None -> rc_saio c' <> None) -> RBq (kset k c' cs) ps.
Proof.
  intros [Q D] H. split; [|exact D]. intros k' Hk. destruct (Q k' Hk) as (c & G & S). destruct (N.eqb_spec k' k) as [->|NE].
  - exists c'. split; [apply kget_kset_eq|eauto].
  - exists c. split; [now rewrite kget_kset_neq|exact S].
Qed.
Lemma rbq_pipe_same cs ps p x x' : RBq cs ps -> kget p ps = Some x -> rp_sendq x' = rp_sendq x -> RBq cs (kset p x' ps).
Proof. intros H G E. unfold RBq. now rewrite (sq_kset_same _ _ _ _ G E). Qed.
Lemma rbq_app cs ps p : RBq cs ps -> RBq cs (ps ++ [(p, mkRpipe false false [] [] [])]).
Proof. intros H. unfold RBq. rewrite sq_app. cbn. now rewrite app_nil_r. Qed.
Lemma rbq_unqueue cs ps k c' : RBq cs ps -> RBq (kset k c' cs) (unqueue_ctx k ps).
Proof.
  intros [Q D]. split.
  - intros k' Hk. rewrite sq_unqueue in Hk. apply in_remove_id in Hk as [Hk NE]. destruct (Q k' Hk) as (c & G & S).
    exists c. split; [now rewrite kget_kset_neq|exact S].
  - rewrite sq_unqueue. now apply NoDup_filter.
Qed.
Lemma rbq_pop cs ps p x x' k rest c' : RBq cs ps -> kget p ps = Some x -> rp_sendq x = k :: rest -> rp_sendq x' = rest ->
  RBq (kset k c' cs) (kset p x' ps).
Proof.
  intros [Q D] G E E'. destruct (sq_kset _ _ _ G) as (A & B & E1 & E2). rewrite E1, E in D, Q. cbn [app] in D, Q.
  apply NoDup_remove in D as [D1 D2]. split; rewrite E2, E'; [|exact D1].
  intros k' Hk. assert (NE: k' <> k) by (intros ->; contradiction).
  destruct (Q k') as (c & Gc & S).
  { apply in_app_or in Hk as [Hk|Hk]; apply in_or_app; [now left|right; now right]. }
  exists c. split; [now rewrite kget_kset_neq|exact S].
Qed.
Lemma rbq_push cs ps p x x' k c' : RBq cs ps -> kget p ps = Some x -> rp_sendq x' = rp_sendq x ++ [k] -> ~ In k (sq ps) ->
  rc_saio c' <> None -> RBq (kset k c' cs) (kset p x' ps).
Proof.
  intros [Q D] G E' NI S'. destruct (sq_kset _ _ _ G) as (A & B & E1 & E2).
  assert (P: Permutation (k :: sq ps) (sq (kset p x' ps))).
  { rewrite E2, E', E1. rewrite <- app_assoc. cbn [app]. rewrite !app_assoc. apply Permutation_middle. }
  split.
  - intros k' Hk. apply (Permutation_in _ (Permutation_sym P)) in Hk. destruct (N.eqb_spec k' k) as [->|NE].
    + exists c'. split; [apply kget_kset_eq|exact S'].
    + destruct Hk as [Hk|Hk]; [congruence|]. destruct (Q k' Hk) as (c & Gc & S). exists c. split; [now rewrite kget_kset_neq|exact S].
  - apply (Permutation_NoDup P). constructor; auto.
Qed.
Lemma flush_sendq_other ks : forall cs k, ~ In k ks -> kget k (fst (flush_sendq ks cs)) = kget k cs.
Proof.
  induction ks as [|k0 ks IH]; intros cs k H; cbn [flush_sendq]; [reflexivity|].
  assert (k <> k0) by (intros ->; apply H; now left). assert (~ In k ks) by (intros X; apply H; now right).
  destruct (kget k0 cs) as [c|]; [|auto]. destruct (rc_saio c) as [[a m]|]; [|auto].
  specialize (IH (kset k0 (mkRctx (rc_pipe c) (rc_bt c) None (rc_raio c)) cs) k).
  destruct (flush_sendq ks _) as [cs' o]. cbn [fst] in *. rewrite IH by auto. now apply kget_kset_neq.
Qed.
Lemma rbq_close cs ps p x x' : RBq cs ps -> kget p ps = Some x -> rp_sendq x' = [] ->
  RBq (fst (flush_sendq (rp_sendq x) cs)) (kset p x' ps).
Proof.
  intros [Q D] G E'. destruct (sq_kset _ _ _ G) as (A & B & E1 & E2). rewrite E1 in D, Q.
  destruct (nodup_mid_remove _ _ _ D) as [D1 D2]. split; rewrite E2, E'; cbn [app]; [|exact D1].
  intros k' Hk. destruct (Q k') as (c & Gc & S).
  { apply in_app_or in Hk as [Hk|Hk]; apply in_or_app; [now left|right; apply in_or_app; now right]. }
  exists c. split; [|exact S]. rewrite flush_sendq_other; [exact Gc|]. intros X. exact (D2 _ X Hk).
Qed.
Lemma rbq_kdel cs ps k : RBq cs ps -> ~ In k (sq ps) -> RBq (kdel k cs) ps.
Proof.
  intros [Q D] NI. split; [|exact D]. intros k' Hk. destruct (Q k' Hk) as (c & G & S). exists c. split; [|exact S].
  rewrite kget_kdel_neq; [exact G|]. intros ->. contradiction.
Qed.
Lemma rbq_saio_none cs ps k c : RBq cs ps -> kget k cs = Some c -> rc_saio c = None -> ~ In k (sq ps).
Proof. intros [Q _] G S Hk. destruct (Q k Hk) as (c' & G' & S'). congruence. Qed.

(* ---- RBr ---- *)
Definition unq1 (k : N) (x : rpipe) : rpipe := mkRpipe (rp_busy x) (rp_closed x) (remove_id k (rp_sendq x)) (rp_held x) (rp_rmsg x).
Lemma kget_unqueue k q ps : kget q (unqueue_ctx k ps) = option_map (unq1 k) (kget q ps).
Proof.
  induction ps as [|[p x] ps IH]; [reflexivity|]. unfold unqueue_ctx in *. cbn [map kget fst snd].
  destruct (N.eqb p q); [reflexivity|exact IH].
Qed.
Lemma rbr_zero_ne ps rp rd p x : RBr ps rp rd -> kget p ps = Some x -> p <> 0%N.
Proof. intros [Z _] G ->. congruence. Qed.
Lemma rbr_pipe_same ps rp rd p x x' : RBr ps rp rd -> kget p ps = Some x -> rp_closed x' = rp_closed x -> rp_rmsg x' = rp_rmsg x ->
  RBr (kset p x' ps) rp rd.
Proof.
  intros HR G E1 E2. pose proof (rbr_zero_ne _ _ _ _ _ HR G) as NZ. destruct HR as (Z & R & D & E). split; [|split; [|split]]; auto.
  - rewrite kget_kset_neq; auto.
  - intros q Hq. destruct (R q Hq) as (y & m & tl & Gy & Cy & My & Hy). destruct (N.eqb_spec q p) as [->|NE].
    + exists x', m, tl. rewrite kget_kset_eq. assert (y = x) by congruence. subst y. rewrite E1, E2. auto.
    + exists y, m, tl. rewrite kget_kset_neq by auto. auto.
Qed.
Lemma rbr_app ps rp rd p : RBr ps rp rd -> p <> 0%N -> ~ In p (map fst ps) -> RBr (ps ++ [(p, mkRpipe false false [] [] [])]) rp rd.
Proof.
  intros (Z & R & D & E) NZ NI. split; [|split; [|split]]; auto.
  - rewrite kget_app_none by auto. cbn. destruct (N.eqb_spec p 0); [contradiction|reflexivity].
  - intros q Hq. destruct (R q Hq) as (y & m & tl & Gy & Cy). exists y, m, tl. split; [now apply kget_app_some|exact Cy].
Qed.
Lemma rbr_close ps rp rd p x x' : RBr ps rp rd -> kget p ps = Some x ->
  RBr (kset p x' ps) (remove_id p rp) (if has_id p rp && isnil (remove_id p rp) then false else rd).
Proof.
  intros HR G. pose proof (rbr_zero_ne _ _ _ _ _ HR G) as NZ. destruct HR as (Z & R & D & E). split; [|split; [|split]].
  - rewrite kget_kset_neq; auto.
  - intros q Hq. apply in_remove_id in Hq as [Hq NE]. destruct (R q Hq) as (y & m & tl & Gy & Cy). exists y, m, tl.
    rewrite kget_kset_neq by auto. auto.
  - now apply NoDup_filter.
  - destruct (has_id p rp) eqn:HI; cbn [andb].
    + destruct (remove_id p rp); cbn [isnil negb]; [reflexivity|]. rewrite E. apply has_id_in in HI. destruct rp; [contradiction|reflexivity].
    + assert (NI: ~ In p rp) by (intros X; apply has_id_in in X; congruence).
      assert (remove_id p rp = rp) as ->; [|exact E].
      clear -NI. induction rp as [|a rp IH]; [reflexivity|]. unfold remove_id in *. cbn [filter].
      destruct (N.eqb_spec a p); [exfalso; apply NI; now left|]. cbn [negb]. rewrite IH; [reflexivity|]. intros X. apply NI. now right.
Qed.
Lemma rbr_enqueue ps rp rd p x x' msg : RBr ps rp rd -> kget p ps = Some x -> ~ In p rp -> rp_closed x' = false ->
  rp_rmsg x' = [msg] -> pm_hdr msg <> [] -> RBr (kset p x' ps) (rp ++ [p]) true.
Proof.
  intros HR G NI C M H. pose proof (rbr_zero_ne _ _ _ _ _ HR G) as NZ. destruct HR as (Z & R & D & E). split; [|split; [|split]].
  - rewrite kget_kset_neq; auto.
  - intros q Hq. apply in_app_or in Hq as [Hq|[<-|[]]].
    + destruct (R q Hq) as (y & m & tl & Gy & Cy). exists y, m, tl. rewrite kget_kset_neq; [auto|]. intros ->. contradiction.
    + exists x', msg, []. rewrite kget_kset_eq. auto.
  - apply (Permutation_NoDup (Permutation_cons_append rp p)). constructor; auto.
  - destruct rp; reflexivity.
Qed.
Lemma rbr_dequeue ps p rest rd x x' : RBr ps (p :: rest) rd -> kget p ps = Some x ->
  RBr (kset p x' ps) rest (if isnil rest then false else rd).
Proof.
  intros HR G. pose proof (rbr_zero_ne _ _ _ _ _ HR G) as NZ. destruct HR as (Z & R & D & E). inversion D as [|? ? NI D']; subst.
  split; [|split; [|split]].
  - rewrite kget_kset_neq; auto.
  - intros q Hq. destruct (R q (or_intror Hq)) as (y & m & tl & Gy & Cy). exists y, m, tl. rewrite kget_kset_neq; [auto|]. intros ->. contradiction.
  - exact D'.
  - destruct rest; reflexivity.
Qed.
Lemma rbr_unqueue ps rp rd k : RBr ps rp rd -> RBr (unqueue_ctx k ps) rp rd.
Proof.
  intros (Z & R & D & E). split; [|split; [|split]]; auto.
  - rewrite kget_unqueue, Z. reflexivity.
  - intros q Hq. destruct (R q Hq) as (y & m & tl & Gy & Cy). exists (unq1 k y), m, tl. rewrite kget_unqueue, Gy. auto.
Qed.

(* ---- RBc ---- *)
Lemma rbc_kset cs k c' : RBc cs -> (k = 0%N -> rc_bt c' = [] -> rc_pipe c' = 0%N) -> RBc (kset k c' cs).
Proof.
  intros (ND & c0 & G & B) H. split; [now apply nodup_kset|]. destruct (N.eqb_spec k 0) as [->|NE].
  - exists c'. split; [apply kget_kset_eq|auto].
  - exists c0. split; [rewrite kget_kset_neq; auto|exact B].
Qed.
Lemma rbc_kset_same cs k c c' : RBc cs -> kget k cs = Some c -> rc_bt c' = rc_bt c -> rc_pipe c' = rc_pipe c -> RBc (kset k c' cs).
Proof.
  intros HC G E1 E2. apply rbc_kset; [exact HC|]. intros -> E. destruct HC as (_ & c0 & G0 & B). assert (c0 = c) by congruence. subst.
  rewrite E2. apply B. congruence.
Qed.
Lemma rbc_kdel cs k : RBc cs -> k <> 0%N -> RBc (kdel k cs).
Proof.
  intros (ND & c0 & G & B) NE. split; [now apply nodup_kdel|]. exists c0. split; [rewrite kget_kdel_neq; auto|exact B].
Qed.
Lemma flush_sendq_keeps ks : forall cs k,
  match kget k (fst (flush_sendq ks cs)) with
  | Some c' => exists c, kget k cs = Some c /\ rc_pipe c' = rc_pipe c /\ rc_bt c' = rc_bt c /\ rc_raio c' = rc_raio c /\
                         (rc_saio c' = rc_saio c \/ rc_saio c' = None)
  | None => kget k cs = None
  end /\ map fst (fst (flush_sendq ks cs)) = map fst cs.
Proof.
  induction ks as [|k0 ks IH]; intros cs k; cbn [flush_sendq fst].
  - split; [|reflexivity]. destruct (kget k cs) as [c|]; [|reflexivity]. exists c. repeat split; auto.
  - destruct (kget k0 cs) as [c0|] eqn:G0; [|apply IH]. destruct (rc_saio c0) as [[a m]|] eqn:S0; [|apply IH].
    specialize (IH (kset k0 (mkRctx (rc_pipe c0) (rc_bt c0) None (rc_raio c0)) cs) k).
    destruct (flush_sendq ks _) as [cs' o]. cbn [fst] in *. destruct IH as [IH1 IH2]. split.
    + destruct (kget k cs') as [c'|].
      * destruct IH1 as (c & Gc & E). destruct (N.eqb_spec k k0) as [->|NE].
        -- rewrite kget_kset_eq in Gc. inversion Gc; subst. cbn in E. exists c0. split; [exact G0|]. intuition.
        -- rewrite kget_kset_neq in Gc by auto. exists c. auto.
      * destruct (N.eqb_spec k k0) as [->|NE]; [rewrite kget_kset_eq in IH1; discriminate|]. now rewrite kget_kset_neq in IH1.
    + rewrite IH2. eapply keys_kset_present; eauto.
Qed.
Lemma rbc_flush cs ks : RBc cs -> RBc (fst (flush_sendq ks cs)).
Proof.
  intros (ND & c0 & G & B). destruct (flush_sendq_keeps ks cs 0%N) as [K1 K2]. split; [now rewrite K2|].
  destruct (kget 0%N (fst (flush_sendq ks cs))) as [c'|]; [|congruence].
  destruct K1 as (c & Gc & E1 & E2 & _). assert (c = c0) by congruence. subst. exists c'. split; [reflexivity|]. rewrite E1, E2. exact B.
Qed.

(* ---- pidle / idle0 ---- *)
Lemma live_pipe_some q ps x : live_pipe q ps = Some x -> kget q ps = Some x /\ rp_closed x = false.
Proof. unfold live_pipe. destruct (kget q ps) as [y|]; [|discriminate]. destruct (rp_closed y) eqn:C; [discriminate|]. intros H. inversion H; subst. auto. Qed.
Lemma pidle_kset_neq q p x ps : q <> p -> pidle q (kset p x ps) = pidle q ps.
Proof. intros H. unfold pidle, live_pipe. now rewrite kget_kset_neq. Qed.
Lemma pidle_kset_eq p x ps : pidle p (kset p x ps) = if rp_closed x then true else negb (rp_busy x).
Proof. unfold pidle, live_pipe. rewrite kget_kset_eq. destruct (rp_closed x); reflexivity. Qed.
Lemma pidle_kset_same q p x x' ps : kget p ps = Some x -> rp_busy x' = rp_busy x -> rp_closed x' = rp_closed x ->
  pidle q (kset p x' ps) = pidle q ps.
Proof.
  intros G E1 E2. destruct (N.eqb_spec q p) as [->|NE]; [|now apply pidle_kset_neq].
  rewrite pidle_kset_eq. unfold pidle, live_pipe. rewrite G, E1, E2. destruct (rp_closed x); reflexivity.
Qed.
Lemma pidle_app_fresh q p ps : ~ In p (map fst ps) -> pidle q (ps ++ [(p, mkRpipe false false [] [] [])]) = pidle q ps.
Proof.
  intros NI. unfold pidle, live_pipe. destruct (kget q ps) as [y|] eqn:G.
  - now rewrite (kget_app_some _ _ _ _ G).
  - rewrite kget_app_none by auto. cbn. destruct (N.eqb p q); reflexivity.
Qed.
Lemma pidle_unqueue q k ps : pidle q (unqueue_ctx k ps) = pidle q ps.
Proof. unfold pidle, live_pipe. rewrite kget_unqueue. destruct (kget q ps) as [y|]; cbn; [|reflexivity]. destruct (rp_closed y); reflexivity. Qed.
Lemma pidle_zero ps rp rd : RBr ps rp rd -> pidle 0%N ps = true.
Proof. intros [Z _]. unfold pidle, live_pipe. now rewrite Z. Qed.

Lemma idle0_ctx_other cs ps k c' : k <> 0%N -> idle0 (kset k c' cs) ps = idle0 cs ps.
Proof. intros H. unfold idle0. rewrite kget_kset_neq; auto. Qed.
Lemma idle0_ctx_zero cs ps c' : idle0 (kset 0%N c' cs) ps = negb (isnil (rc_bt c')) && pidle (rc_pipe c') ps.
Proof. unfold idle0. now rewrite kget_kset_eq. Qed.
Lemma idle0_ctx_same cs ps k c c' : kget k cs = Some c -> rc_bt c' = rc_bt c -> rc_pipe c' = rc_pipe c ->
  idle0 (kset k c' cs) ps = idle0 cs ps.
Proof.
  intros G E1 E2. destruct (N.eqb_spec k 0) as [->|NE]; [|now apply idle0_ctx_other].
  rewrite idle0_ctx_zero. unfold idle0. now rewrite G, E1, E2.
Qed.

(* ---- the base invariant is kept by every step ---- *)
Lemma wif_same (b : bool) s x :
  let s' := if b then rset_w s x else s in
  rs_ctxs s' = rs_ctxs s /\ rs_pipes s' = rs_pipes s /\ rs_recvpipes s' = rs_recvpipes s /\ rs_readable s' = rs_readable s.
Proof. destruct b; cbn; auto. Qed.
Lemma rbase_ext s s' : rs_ctxs s' = rs_ctxs s -> rs_pipes s' = rs_pipes s -> rs_recvpipes s' = rs_recvpipes s ->
  rs_readable s' = rs_readable s -> RBase s -> RBase s'.
Proof. unfold RBase. intros -> -> -> ->. auto. Qed.

Lemma resp_base_send nbf s c a nb m : RBase s -> RBase (fst (resp_step (rfx nbf) s (PSend c a nb m))).
Proof.
  intros HB. cbn [resp_step rfx rf_nb rf_sbusy rf_wother andb].
  destruct (kget (ckey c) (rs_ctxs s)) as [cx|] eqn:G; [|exact HB].
  set (s0 := if (ckey c =? 0)%N && negb nbf then rset_w s false else s).
  destruct (wif_same ((ckey c =? 0)%N && negb nbf) s false) as (C0 & P0 & R0 & D0). fold s0 in C0, P0, R0, D0.
  assert (B0: RBase s0) by (eapply rbase_ext; eauto).
  destruct (nb && negb nbf); [exact B0|].
  destruct (rc_bt cx) as [|b0 bt] eqn:BT; [exact B0|].
  destruct (rc_saio cx) as [sa|] eqn:SA; [exact B0|].
  rewrite P0.
  match goal with |- context[if ?b then rset_w s0 false else s0] =>
    set (s1 := if b then rset_w s0 false else s0); destruct (wif_same b s0 false) as (C1 & P1 & R1 & D1); fold s1 in C1, P1, R1, D1 end.
  rewrite C0 in C1. rewrite P0 in P1. rewrite R0 in R1. rewrite D0 in D1.
  destruct (nbf && nb && _); [exact B0|].
  destruct HB as (HC & HR & HQ).
  destruct (live_pipe (rc_pipe cx) (rs_pipes s)) as [x|] eqn:LP.
  - apply live_pipe_some in LP as [GP CL]. destruct (rp_busy x) eqn:BU; cbn [negb fst]; unfold RBase;
      cbn [rs_ctxs rs_pipes rs_recvpipes rs_readable rset_ctxs rset_pipes]; rewrite ?C1, ?P1, ?R1, ?D1.
    + split; [|split].
      * apply rbc_kset; auto.
      * eapply rbr_pipe_same; eauto.
      * eapply (rbq_push _ _ _ x _ _ _ HQ GP); [reflexivity|eapply rbq_saio_none; eauto|discriminate].
    + split; [|split].
      * apply rbc_kset; auto.
      * eapply rbr_pipe_same; eauto.
      * apply rbq_ctx; [eapply rbq_pipe_same; eauto|]. intros c1 G1. rewrite G in G1. inversion G1; subst. auto.
  - cbn [fst]. unfold RBase; cbn [rs_ctxs rs_pipes rs_recvpipes rs_readable rset_ctxs rset_pipes]; rewrite ?C1, ?P1, ?R1, ?D1.
    split; [|split]; auto.
    + apply rbc_kset; auto.
    + apply rbq_ctx; auto. intros c1 G1. rewrite G in G1. inversion G1; subst. auto.
Qed.
Ltac rbase_unfold := cbn [fst]; unfold RBase;
  cbn [rs_ctxs rs_pipes rs_recvpipes rs_readable rset_ctxs rset_pipes rset_recvq rset_recvpipes rset_w rset_r].

Lemma resp_base_recv fx s c a nb : RBase s -> RBase (fst (resp_step fx s (PRecv c a nb))).
Proof.
  intros HB. pose proof HB as (HC & HR & HQ). cbn [resp_step].
  destruct (kget (ckey c) (rs_ctxs s)) as [cx|] eqn:G; [|exact HB].
  destruct (rs_recvpipes s) as [|p rest] eqn:RP.
  - destruct nb; [exact HB|]. destruct (rc_raio cx); [exact HB|]. rbase_unfold. rewrite RP. split; [|split]; auto.
    + eapply rbc_kset_same; eauto.
    + apply rbq_ctx; auto. intros c1 G1. rewrite G in G1. inversion G1; subst. auto.
  - pose proof HR as (Z & R & D & E). destruct (R p (or_introl eq_refl)) as (x & m & tl & GP & CL & RM & HH).
    rewrite GP, RM. rbase_unfold. split; [|split].
    + apply rbc_kset; [exact HC|]. intros _ X. cbn [rc_bt] in X. contradiction.
    + eapply rbr_dequeue; eauto.
    + apply rbq_ctx; [eapply rbq_pipe_same; eauto|]. intros c1 G1. rewrite G in G1. inversion G1; subst. auto.
Qed.

Lemma find_saio_get a cs k c : NoDup (map fst cs) -> find_saio a cs = Some (k, c) -> kget k cs = Some c /\ exists w, rc_saio c = Some (a, w).
Proof.
  intros ND F. unfold find_saio in F. apply find_some in F as [I E]. split; [now apply in_kget|]. cbn [snd] in E.
  destruct (rc_saio c) as [[a' w]|]; [|discriminate]. apply N.eqb_eq in E. subst. eauto.
Qed.
Lemma find_raio_get a cs k c : NoDup (map fst cs) -> find_raio a cs = Some (k, c) -> kget k cs = Some c /\ rc_raio c = Some a.
Proof.
  intros ND F. unfold find_raio in F. apply find_some in F as [I E]. split; [now apply in_kget|]. cbn [snd] in E.
  destruct (rc_raio c) as [a'|]; [|discriminate]. apply N.eqb_eq in E. now subst.
Qed.
Lemma resp_base_cancel fx s a rv : RBase s -> RBase (fst (resp_step fx s (PCancel a rv))).
Proof.
  intros HB. pose proof HB as (HC & HR & HQ). pose proof HC as (ND & _). cbn [resp_step].
  destruct (find_saio a (rs_ctxs s)) as [[k cx]|] eqn:F.
  - destruct (find_saio_get _ _ _ _ ND F) as [G _]. rbase_unfold. split; [|split].
    + eapply rbc_kset_same; eauto.
    + now apply rbr_unqueue.
    + now apply rbq_unqueue.
  - destruct (find_raio a (rs_ctxs s)) as [[k cx]|] eqn:F2; [|exact HB].
    destruct (find_raio_get _ _ _ _ ND F2) as [G _]. rbase_unfold. split; [|split]; auto.
    + eapply rbc_kset_same; eauto.
    + apply rbq_ctx; auto. intros c1 G1. rewrite G in G1. inversion G1; subst. auto.
Qed.

Lemma resp_base_pipe_start fx s p peer : RBase s -> resp_ok s (PPipeStart p peer) -> RBase (fst (resp_step fx s (PPipeStart p peer))).
Proof.
  intros HB [NZ NI]. pose proof HB as (HC & HR & HQ). cbn [resp_step]. destruct (negb _); [exact HB|]. rbase_unfold.
  split; [|split]; auto; [now apply rbr_app|now apply rbq_app].
Qed.
Lemma resp_base_pipe_close nbf s p : RBase s -> RBase (fst (resp_step (rfx nbf) s (PPipeClose p))).
Proof.
  intros HB. pose proof HB as (HC & HR & HQ). cbn [resp_step rfx rf_rclose andb].
  destruct (kget p (rs_pipes s)) as [x|] eqn:GP; [|exact HB].
  destruct (flush_sendq (rp_sendq x) (rs_ctxs s)) as [cs' o1] eqn:FL. assert (E: cs' = fst (flush_sendq (rp_sendq x) (rs_ctxs s))) by now rewrite FL.
  rbase_unfold. subst cs'. split; [|split].
  - now apply rbc_flush.
  - eapply rbr_close; eauto.
  - eapply rbq_close; eauto.
Qed.
Lemma in_sendq_sq p x ps k : kget p ps = Some x -> In k (rp_sendq x) -> In k (sq ps).
Proof. intros G H. destruct (sq_kset _ _ _ G) as (A & B & E & _). rewrite E. apply in_or_app. right. apply in_or_app. now left. Qed.
Lemma resp_base_send_done fx s p rv : RBase s -> resp_ok s (PSendDone p rv) -> RBase (fst (resp_step fx s (PSendDone p rv))).
Proof.
  intros HB (x & GP & BU). pose proof HB as (HC & HR & HQ). cbn [resp_step]. rewrite GP.
  destruct (negb _).
  { rbase_unfold. split; [|split]; auto; [eapply rbr_pipe_same; eauto|eapply rbq_pipe_same; eauto]. }
  destruct (rp_sendq x) as [|k rest] eqn:SQ.
  - match goal with |- context[if ?b then rset_w ?s1 true else ?s1] => destruct (wif_same b s1 true) as (C1 & P1 & R1 & D1) end.
    cbn [fst]. eapply rbase_ext; eauto. rbase_unfold. split; [|split]; auto; [eapply rbr_pipe_same; eauto|eapply rbq_pipe_same; eauto].
  - destruct (proj1 HQ k) as (c & G & S); [eapply in_sendq_sq; eauto; rewrite SQ; now left|]. rewrite G.
    destruct (rc_saio c) as [[a m]|] eqn:SA; [|congruence]. rbase_unfold. split; [|split].
    + eapply rbc_kset_same; eauto.
    + eapply rbr_pipe_same; eauto.
    + eapply rbq_pop; eauto.
Qed.
Lemma resp_base_recv_done fx s p rv m : RBase s -> resp_ok s (PRecvDone p rv m) -> RBase (fst (resp_step fx s (PRecvDone p rv m))).
Proof.
  intros HB NI. pose proof HB as (HC & HR & HQ). cbn [resp_step]. cbn [resp_ok] in NI.
  destruct (negb _); [exact HB|]. destruct (resp_recv (rs_ttl s) (pm_body m)) as [hdr body| |] eqn:RR; try exact HB.
  destruct (live_pipe p (rs_pipes s)) as [x|] eqn:LP; [|exact HB]. apply live_pipe_some in LP as [GP CL].
  assert (HN: pm_hdr m ++ hdr <> []).
  { unfold resp_recv in RR. apply bt_move_deliver in RR as (_ & _ & L & _). destruct hdr; [cbn in L; lia|]. now destruct (pm_hdr m). }
  destruct (rs_recvq s) as [|k rest] eqn:RQ.
  - rbase_unfold. split; [|split]; auto.
    + eapply rbr_enqueue; eauto; [reflexivity|exact HN].
    + eapply rbq_pipe_same; eauto.
  - destruct (kget k (rs_ctxs s)) as [c|] eqn:G; [|exact HB]. destruct (rc_raio c) as [a|]; [|exact HB].
    rbase_unfold. split; [|split]; auto.
    + apply rbc_kset; [exact HC|]. intros _ X. cbn [rc_bt pm_hdr] in X. contradiction.
    + apply rbq_ctx; auto. intros c1 G1. rewrite G in G1. inversion G1; subst. auto.
Qed.
Lemma ckey_some_nz c : ckey (Some c) <> 0%N.
Proof. unfold ckey. lia. Qed.
Lemma resp_base_ctx_open fx s c : RBase s -> resp_ok s (PCtxOpen c) -> RBase (fst (resp_step fx s (PCtxOpen c))).
Proof.
  intros HB NG. pose proof HB as (HC & HR & HQ). cbn [resp_step]. cbn [resp_ok] in NG. rbase_unfold. split; [|split]; auto.
  - apply rbc_kset; auto.
  - apply rbq_ctx; auto. intros c1 G1. congruence.
Qed.
Lemma resp_base_ctx_close fx s c : RBase s -> RBase (fst (resp_step fx s (PCtxClose c))).
Proof.
  intros HB. pose proof HB as (HC & HR & HQ). cbn [resp_step].
  destruct (kget (ckey (Some c)) (rs_ctxs s)) as [cx|] eqn:G; [|exact HB]. unfold rctx_close.
  pose proof (ckey_some_nz c) as NZ. set (k := ckey (Some c)) in *.
  destruct (rc_saio cx) as [[a w]|] eqn:SA; destruct (rc_raio cx) as [a2|] eqn:RA; rbase_unfold.
  - split; [|split].
    + apply rbc_kdel; auto. eapply rbc_kset_same; eauto.
    + now apply rbr_unqueue.
    + apply rbq_kdel; [now apply rbq_unqueue|]. rewrite sq_unqueue. intros X. apply in_remove_id in X. tauto.
  - split; [|split].
    + apply rbc_kdel; auto. eapply rbc_kset_same; eauto.
    + now apply rbr_unqueue.
    + apply rbq_kdel; [now apply rbq_unqueue|]. rewrite sq_unqueue. intros X. apply in_remove_id in X. tauto.
  - split; [|split]; auto.
    + apply rbc_kdel; auto. eapply rbc_kset_same; eauto.
    + apply rbq_kdel; [|eapply rbq_saio_none; eauto]. apply rbq_ctx; auto. intros c1 G1. rewrite G in G1. inversion G1; subst. congruence.
  - split; [|split]; auto.
    + apply rbc_kdel; auto. eapply rbc_kset_same; eauto.
    + apply rbq_kdel; [|eapply rbq_saio_none; eauto]. apply rbq_ctx; auto. intros c1 G1. rewrite G in G1. inversion G1; subst. congruence.
Qed.
Lemma resp_base_setopt fx s c op : RBase s -> RBase (fst (resp_step fx s (PSetOpt c op))).
Proof.
  intros HB. cbn [resp_step]. destruct c; [destruct op; exact HB|]. destruct op; try exact HB.
  - destruct (_ <? _)%N; exact HB.
  - destruct (_ <? _)%N; exact HB.
  - destruct (_ && _); exact HB.
Qed.

Lemma resp_base_step nbf s o : RBase s -> resp_ok s o -> o <> PSockClose -> RBase (fst (resp_step (rfx nbf) s o)).
Proof.
  intros HB Hok NC. destruct o as [c a nb m|c a nb|a rv|p peer|p|p rv|p rv m|c op|c|c| |now].
  - now apply resp_base_send.
  - now apply resp_base_recv.
  - now apply resp_base_cancel.
  - now apply resp_base_pipe_start.
  - now apply resp_base_pipe_close.
  - now apply resp_base_send_done.
  - now apply resp_base_recv_done.
  - now apply resp_base_setopt.
  - now apply resp_base_ctx_open.
  - now apply resp_base_ctx_close.
  - congruence.
  - exact HB.
Qed.

(* ---- the send descriptor (all repairs) ---- *)
Lemma idle0_pipe_same cs ps q x x' : kget q ps = Some x -> rp_busy x' = rp_busy x -> rp_closed x' = rp_closed x ->
  idle0 cs (kset q x' ps) = idle0 cs ps.
Proof. intros G E1 E2. unfold idle0. destruct (kget 0%N cs); [|reflexivity]. now rewrite (pidle_kset_same _ _ _ _ _ G E1 E2). Qed.
Lemma idle0_pipe_other cs ps q x' : (forall c0, kget 0%N cs = Some c0 -> rc_pipe c0 <> q) -> idle0 cs (kset q x' ps) = idle0 cs ps.
Proof. intros H. unfold idle0. destruct (kget 0%N cs) as [c0|]; [|reflexivity]. rewrite pidle_kset_neq; auto. Qed.
Lemma idle0_pipe_main_busy cs ps q x' c0 : kget 0%N cs = Some c0 -> rc_pipe c0 = q -> rp_closed x' = false -> rp_busy x' = true ->
  idle0 cs (kset q x' ps) = false.
Proof. intros G E C B. unfold idle0. rewrite G, E, pidle_kset_eq, C, B. apply andb_false_r. Qed.
Lemma idle0_pipe_main_free cs ps q x' c0 : kget 0%N cs = Some c0 -> rc_pipe c0 = q -> rc_bt c0 <> [] ->
  (rp_closed x' = true \/ rp_busy x' = false) -> idle0 cs (kset q x' ps) = true.
Proof.
  intros G E B H. unfold idle0. rewrite G, E, pidle_kset_eq. destruct (rc_bt c0); [contradiction|]. cbn [isnil negb andb].
  destruct H as [-> | ->]; [reflexivity|]. now destruct (rp_closed x').
Qed.
Lemma idle0_unqueue cs ps k : idle0 cs (unqueue_ctx k ps) = idle0 cs ps.
Proof. unfold idle0. destruct (kget 0%N cs); [|reflexivity]. now rewrite pidle_unqueue. Qed.
Lemma idle0_app_fresh cs ps p : ~ In p (map fst ps) -> idle0 cs (ps ++ [(p, mkRpipe false false [] [] [])]) = idle0 cs ps.
Proof. intros H. unfold idle0. destruct (kget 0%N cs); [|reflexivity]. now rewrite pidle_app_fresh. Qed.
Lemma idle0_kdel cs ps k : k <> 0%N -> idle0 (kdel k cs) ps = idle0 cs ps.
Proof. intros H. unfold idle0. rewrite kget_kdel_neq; auto. Qed.
Lemma idle0_flush cs ps ks : idle0 (fst (flush_sendq ks cs)) ps = idle0 cs ps.
Proof.
  unfold idle0. destruct (flush_sendq_keeps ks cs 0%N) as [K _]. destruct (kget 0%N (fst (flush_sendq ks cs))) as [c'|].
  - destruct K as (c & -> & E1 & E2 & _). now rewrite E1, E2.
  - now rewrite K.
Qed.
Lemma main_pipe_get s c0 : kget 0%N (rs_ctxs s) = Some c0 -> main_pipe s = rc_pipe c0.
Proof. unfold main_pipe. now intros ->. Qed.
Ltac rw_unfold := cbn [fst]; unfold RW;
  cbn [rs_ctxs rs_pipes rs_writable rset_ctxs rset_pipes rset_recvq rset_recvpipes rset_w rset_r].

Lemma resp_w_send s c a nb m : RBase s -> RW s -> RW (fst (resp_step (rfx true) s (PSend c a nb m))).
Proof.
  intros (HC & HR & HQ) HW. destruct HC as (ND & c0 & G0 & B0). pose proof (main_pipe_get s c0 G0) as MP.
  cbn [resp_step rfx rf_nb rf_sbusy rf_wother andb negb]. rewrite !andb_false_r. cbv iota.
  destruct (kget (ckey c) (rs_ctxs s)) as [cx|] eqn:G; [|exact HW].
  destruct (rc_bt cx) as [|b0 bt] eqn:BT; [exact HW|].
  destruct (rc_saio cx) as [sa|] eqn:SA; [exact HW|].
  destruct (live_pipe (rc_pipe cx) (rs_pipes s)) as [x|] eqn:LP.
  - apply live_pipe_some in LP as [GP CL]. destruct (rp_busy x) eqn:BU; cbn [negb].
    + rewrite andb_false_r, orb_false_r. destruct nb; cbn [andb]; [exact HW|].
      destruct (N.eqb_spec (ckey c) 0) as [K|K]; rw_unfold.
      * rewrite K, idle0_ctx_zero. reflexivity.
      * rewrite idle0_ctx_other by auto. rewrite (idle0_pipe_same _ _ _ x); auto.
    + rewrite andb_false_r, andb_true_r. cbv iota.
      destruct (N.eqb_spec (ckey c) 0) as [K|K]; cbn [orb]; rw_unfold.
      * rewrite K, idle0_ctx_zero. reflexivity.
      * rewrite MP. destruct (N.eqb_spec (rc_pipe cx) (rc_pipe c0)) as [E|E]; rw_unfold; rewrite idle0_ctx_other by auto.
        -- symmetry. eapply idle0_pipe_main_busy; eauto.
        -- rewrite idle0_pipe_other; [exact HW|]. intros c1 G1. rewrite G0 in G1. inversion G1; subst. auto.
  - rewrite !andb_false_r, orb_false_r. cbv iota.
    destruct (N.eqb_spec (ckey c) 0) as [K|K]; rw_unfold.
    + rewrite K, idle0_ctx_zero. reflexivity.
    + rewrite idle0_ctx_other by auto. exact HW.
Qed.

Lemma resp_w_recv s c a nb : RBase s -> RW s -> RW (fst (resp_step (rfx true) s (PRecv c a nb))).
Proof.
  intros (HC & HR & HQ) HW. cbn [resp_step rfx rf_wbusy rf_wstale negb orb].
  destruct (kget (ckey c) (rs_ctxs s)) as [cx|] eqn:G; [|exact HW].
  destruct (rs_recvpipes s) as [|p rest] eqn:RP.
  - destruct nb; [exact HW|]. destruct (rc_raio cx); [exact HW|]. rw_unfold. rewrite (idle0_ctx_same _ _ _ cx); auto.
  - pose proof HR as (Z & R & D & E). destruct (R p (or_introl eq_refl)) as (x & m & tl & GP & CL & RM & HH).
    rewrite GP, RM. rw_unfold. destruct (N.eqb_spec (ckey c) 0) as [K|K].
    + rewrite K, idle0_ctx_zero. cbn [rc_bt rc_pipe]. rewrite pidle_kset_eq. cbn [rp_closed rp_busy]. rewrite CL.
      destruct (pm_hdr m); [contradiction|]. cbn [isnil negb andb]. destruct (rp_busy x); reflexivity.
    + rewrite idle0_ctx_other by auto. rewrite (idle0_pipe_same _ _ _ x); auto.
Qed.
Lemma resp_w_cancel s a rv : RBase s -> RW s -> RW (fst (resp_step (rfx true) s (PCancel a rv))).
Proof.
  intros (HC & HR & HQ) HW. pose proof HC as (ND & _). cbn [resp_step].
  destruct (find_saio a (rs_ctxs s)) as [[k cx]|] eqn:F.
  - destruct (find_saio_get _ _ _ _ ND F) as [G _]. rw_unfold. rewrite (idle0_ctx_same _ _ _ cx), idle0_unqueue; auto.
  - destruct (find_raio a (rs_ctxs s)) as [[k cx]|] eqn:F2; [|exact HW].
    destruct (find_raio_get _ _ _ _ ND F2) as [G _]. rw_unfold. rewrite (idle0_ctx_same _ _ _ cx); auto.
Qed.
Lemma resp_w_pipe_start s p peer : RW s -> resp_ok s (PPipeStart p peer) -> RW (fst (resp_step (rfx true) s (PPipeStart p peer))).
Proof. intros HW [NZ NI]. cbn [resp_step]. destruct (negb _); [exact HW|]. rw_unfold. now rewrite idle0_app_fresh. Qed.
Lemma resp_w_pipe_close s p : RBase s -> RW s -> RW (fst (resp_step (rfx true) s (PPipeClose p))).
Proof.
  intros (HC & HR & HQ) HW. destruct HC as (ND & c0 & G0 & B0). pose proof (main_pipe_get s c0 G0) as MP.
  cbn [resp_step]. destruct (kget p (rs_pipes s)) as [x|] eqn:GP; [|exact HW].
  destruct (flush_sendq (rp_sendq x) (rs_ctxs s)) as [cs' o1] eqn:FL. assert (E: cs' = fst (flush_sendq (rp_sendq x) (rs_ctxs s))) by now rewrite FL.
  rw_unfold. subst cs'. rewrite idle0_flush, MP. pose proof (rbr_zero_ne _ _ _ _ _ HR GP) as NZ.
  destruct (N.eqb_spec p (rc_pipe c0)) as [K|K].
  - symmetry. eapply idle0_pipe_main_free; eauto. intros X. apply B0 in X. congruence.
  - rewrite idle0_pipe_other; [exact HW|]. intros c1 G1. rewrite G0 in G1. inversion G1; subst. auto.
Qed.
Lemma resp_w_send_done s p rv : RBase s -> RW s -> resp_ok s (PSendDone p rv) -> RW (fst (resp_step (rfx true) s (PSendDone p rv))).
Proof.
  intros (HC & HR & HQ) HW (x & GP & BU). destruct HC as (ND & c0 & G0 & B0). pose proof (main_pipe_get s c0 G0) as MP.
  pose proof (rbr_zero_ne _ _ _ _ _ HR GP) as NZ. cbn [resp_step]. rewrite GP.
  destruct (negb _).
  { rw_unfold. rewrite (idle0_pipe_same _ _ _ x); auto. }
  destruct (rp_sendq x) as [|k rest] eqn:SQ.
  - rewrite MP. destruct (N.eqb_spec p (rc_pipe c0)) as [K|K]; rw_unfold.
    + symmetry. eapply idle0_pipe_main_free; eauto. intros X. apply B0 in X. congruence.
    + rewrite idle0_pipe_other; [exact HW|]. intros c1 G1. rewrite G0 in G1. inversion G1; subst. auto.
  - destruct (proj1 HQ k) as (cc & G & S); [eapply in_sendq_sq; eauto; rewrite SQ; now left|]. rewrite G.
    destruct (rc_saio cc) as [[a m]|] eqn:SA; [|congruence]. rw_unfold.
    rewrite (idle0_ctx_same _ _ _ cc), (idle0_pipe_same _ _ _ x); auto.
Qed.
Lemma resp_w_recv_done s p rv m : RBase s -> RW s -> RW (fst (resp_step (rfx true) s (PRecvDone p rv m))).
Proof.
  intros (HC & HR & HQ) HW. cbn [resp_step rfx rf_wstale].
  destruct (negb _); [exact HW|]. destruct (resp_recv (rs_ttl s) (pm_body m)) as [hdr body| |] eqn:RR; try exact HW.
  destruct (live_pipe p (rs_pipes s)) as [x|] eqn:LP; [|exact HW]. pose proof (live_pipe_some _ _ _ LP) as [GP CL].
  assert (HN: pm_hdr m ++ hdr <> []).
  { unfold resp_recv in RR. apply bt_move_deliver in RR as (_ & _ & L & _). destruct hdr; [cbn in L; lia|]. now destruct (pm_hdr m). }
  destruct (rs_recvq s) as [|k rest] eqn:RQ.
  - rw_unfold. rewrite (idle0_pipe_same _ _ _ x); auto.
  - destruct (kget k (rs_ctxs s)) as [cc|] eqn:G; [|exact HW]. destruct (rc_raio cc) as [a|]; [|exact HW].
    rw_unfold. destruct (N.eqb_spec k 0) as [K|K].
    + rewrite K, idle0_ctx_zero. cbn [rc_bt rc_pipe pm_hdr]. unfold pidle. rewrite LP.
      destruct (pm_hdr m ++ hdr); [contradiction|]. cbn [isnil negb andb]. destruct (rp_busy x); reflexivity.
    + rewrite idle0_ctx_other by auto. exact HW.
Qed.
Lemma resp_w_ctx_close s c : RBase s -> RW s -> RW (fst (resp_step (rfx true) s (PCtxClose c))).
Proof.
  intros (HC & HR & HQ) HW. cbn [resp_step].
  destruct (kget (ckey (Some c)) (rs_ctxs s)) as [cx|] eqn:G; [|exact HW]. unfold rctx_close.
  pose proof (ckey_some_nz c) as NZ. set (k := ckey (Some c)) in *.
  destruct (rc_saio cx) as [[a w]|] eqn:SA; destruct (rc_raio cx) as [a2|] eqn:RA; rw_unfold;
    rewrite idle0_kdel by auto; rewrite idle0_ctx_other by auto; rewrite ?idle0_unqueue; exact HW.
Qed.
Lemma resp_w_setopt s c op : RW s -> RW (fst (resp_step (rfx true) s (PSetOpt c op))).
Proof.
  intros HW. cbn [resp_step]. destruct c; [destruct op; exact HW|]. destruct op; try exact HW.
  - destruct (_ <? _)%N; exact HW.
  - destruct (_ <? _)%N; exact HW.
  - destruct (_ && _); exact HW.
Qed.
Lemma resp_w_step s o : RBase s -> RW s -> resp_ok s o -> o <> PSockClose -> RW (fst (resp_step (rfx true) s o)).
Proof.
  intros HB HW Hok NC. destruct o as [c a nb m|c a nb|a rv|p peer|p|p rv|p rv m|c op|c|c| |now].
  - now apply resp_w_send.
  - now apply resp_w_recv.
  - now apply resp_w_cancel.
  - now apply resp_w_pipe_start.
  - now apply resp_w_pipe_close.
  - now apply resp_w_send_done.
  - now apply resp_w_recv_done.
  - now apply resp_w_setopt.
  - cbn [resp_step]. rw_unfold. rewrite idle0_ctx_other; [exact HW|apply ckey_some_nz].
  - now apply resp_w_ctx_close.
  - congruence.
  - exact HW.
Qed.

Lemma resp_init_base : RBase resp_init.
Proof.
  split; [|split].
  - split; [cbn; constructor; [tauto|constructor]|]. exists rctx_init. split; reflexivity.
  - split; [reflexivity|]. split; [intros p []|]. split; [constructor|reflexivity].
  - split; [intros k []|constructor].
Qed.
Lemma resp_inv_init fx : pm_inv (M_resp fx) (pm_init (M_resp fx)).
Proof. split; [exact resp_init_base|]. intros _. reflexivity. Qed.
Lemma resp_inv_step nbf s o : pm_inv (M_resp (rfx nbf)) s -> pm_ok (M_resp (rfx nbf)) s o -> o <> PSockClose ->
  pm_inv (M_resp (rfx nbf)) (fst (pm_step (M_resp (rfx nbf)) s o)).
Proof.
  unM M_resp. intros [HB HW] Hok NC. split; [now apply resp_base_step|]. cbn [rfx rf_nb]. intros ->. apply resp_w_step; auto.
Qed.
Theorem resp_c15_inv : C15_inv (M_resp rfix_all).
Proof. apply reachable_inv; [apply resp_inv_init|exact (resp_inv_step true)]. Qed.
Theorem resp_c15_inv_cur : C15_inv (M_resp resp_cur).
Proof. apply reachable_inv; [apply resp_inv_init|exact (resp_inv_step false)]. Qed.

(* ---- the clauses, per state ---- *)
Definition cbusy (cs : list (N * rctx)) : list aioid := flat_map (fun x => rctx_aios (snd x)) cs.
Lemma cbusy_kset_in a k c' cs : In a (cbusy (kset k c' cs)) -> In a (rctx_aios c') \/ In a (cbusy cs).
Proof.
  unfold cbusy. induction cs as [|[k0 c0] cs IH]; cbn [kset flat_map snd].
  - rewrite app_nil_r. auto.
  - destruct (N.eqb k0 k); cbn [flat_map snd]; intros H; apply in_app_or in H as [H|H]; auto.
    + right. apply in_or_app. auto.
    + right. apply in_or_app. auto.
    + destruct (IH H); auto. right. apply in_or_app. auto.
Qed.
Lemma cbusy_get a k c cs : kget k cs = Some c -> In a (rctx_aios c) -> In a (cbusy cs).
Proof. intros G H. apply kget_in in G. unfold cbusy. apply in_flat_map. exists (k, c). auto. Qed.
Lemma cbusy_kset_new a k c' cs : In a (rctx_aios c') -> In a (cbusy (kset k c' cs)).
Proof. intros H. eapply cbusy_get; [apply kget_kset_eq|exact H]. Qed.
Lemma cbusy_kset_sub a k cx c' cs : kget k cs = Some cx -> (forall b, In b (rctx_aios c') -> In b (rctx_aios cx)) ->
  In a (cbusy (kset k c' cs)) -> In a (cbusy cs).
Proof. intros G H X. apply cbusy_kset_in in X as [X|X]; [|exact X]. eapply cbusy_get; eauto. Qed.
Lemma resp_busy_eq s : resp_busy s = cbusy (rs_ctxs s). Proof. reflexivity. Qed.

Lemma resp_nb_send_immediate_at nbf s : nb_send_immediate_at (M_resp (rfx nbf)) s.
Proof.
  intros c a m s' outs Hok H. unM M_resp. cbn [resp_ok] in Hok. rewrite resp_busy_eq in *.
  cbn [resp_step rfx rf_nb rf_sbusy rf_wother andb] in H.
  destruct (kget (ckey c) (rs_ctxs s)) as [cx|] eqn:G.
  2:{ inversion H; subst. exists E_CLOSED. rewrite compl_of_self. split; [reflexivity|]. split; [exact Hok|].
      intros _ m2 _. cbn [resp_step]. now rewrite G. }
  destruct nbf; cbn [negb] in H.
  - rewrite !andb_false_r in H. cbv iota in H.
    assert (K: forall rv, rv <> E_OK -> (s', outs) = (s, [Complete a rv None]) ->
               (forall m2, resp_step (rfx true) s (PSend c a true m2) = (s, [Complete a rv None])) ->
               exists rv0, compl_of a outs = [(rv0, None)] /\ ~ In a (cbusy (rs_ctxs s')) /\
                 (rv0 <> E_OK -> forall m2 : pmsg, true = true -> resp_step (rfx true) s (PSend c a true m2) = (s', outs))).
    { intros rv Hrv E Hm. inversion E; subst. exists rv. rewrite compl_of_self. split; [reflexivity|]. split; [exact Hok|]. intros _ m2 _. apply Hm. }
    destruct (rc_bt cx) as [|b0 bt] eqn:BT.
    { apply (K E_STATE); [errs; discriminate|now rewrite H|]. intros m2. cbn [resp_step rfx rf_nb rf_sbusy rf_wother andb negb].
      rewrite !andb_false_r. cbv iota. now rewrite G, BT. }
    destruct (rc_saio cx) as [sa|] eqn:SA.
    { apply (K E_STATE); [errs; discriminate|now rewrite H|]. intros m2. cbn [resp_step rfx rf_nb rf_sbusy rf_wother andb negb].
      rewrite !andb_false_r. cbv iota. now rewrite G, BT, SA. }
    destruct (live_pipe (rc_pipe cx) (rs_pipes s)) as [x|] eqn:LP.
    + destruct (rp_busy x) eqn:BU; cbn [negb] in H.
      * cbn [andb] in H. apply (K E_AGAIN); [errs; discriminate|now rewrite H|]. intros m2. cbn [resp_step rfx rf_nb rf_sbusy rf_wother andb negb].
        rewrite !andb_false_r. cbv iota. now rewrite G, BT, SA, LP, BU.
      * cbn [andb] in H. match type of H with (?st, ?o) = _ => assert (E: s' = st /\ outs = o) by (inversion H; auto) end. destruct E as [-> ->].
        exists E_OK. rewrite compl_of_cons, compl_of_TranSend, compl_of_self. split; [reflexivity|]. split; [|intros X; now elim X].
        cbn [rs_ctxs rset_ctxs rset_pipes].
        match goal with |- context[if ?b then rset_w s false else s] => destruct (wif_same b s false) as (C1 & _) end. rewrite C1.
        intros X. apply Hok. eapply cbusy_kset_sub; [exact G| |exact X]. unfold rctx_aios. cbn [rc_saio rc_raio]. rewrite SA. auto.
    + rewrite ?andb_false_r in H. cbn [andb] in H. match type of H with (?st, ?o) = _ => assert (E: s' = st /\ outs = o) by (inversion H; auto) end. destruct E as [-> ->].
      exists E_OK. rewrite compl_of_cons, compl_of_self, compl_of_Free. split; [reflexivity|]. split; [|intros X; now elim X].
      cbn [rs_ctxs rset_ctxs rset_pipes].
      match goal with |- context[if ?b then rset_w s false else s] => destruct (wif_same b s false) as (C1 & _) end. rewrite C1.
      intros X. apply Hok. eapply cbusy_kset_sub; [exact G| |exact X]. unfold rctx_aios. cbn [rc_saio rc_raio]. rewrite SA. auto.
  - cbn [andb] in H. rewrite andb_true_r in H. inversion H; subst. exists E_AGAIN. rewrite compl_of_self. split; [reflexivity|]. split.
    + destruct (wif_same (N.eqb (ckey c) 0) s false) as (C1 & _). rewrite C1. exact Hok.
    + intros _ m2 _. cbn [resp_step rfx rf_nb andb negb]. rewrite G, andb_true_r. reflexivity.
Qed.

Lemma resp_nb_recv_immediate_at fx s : nb_recv_immediate_at (M_resp fx) s.
Proof.
  intros c a s' outs Hok H. unM M_resp. cbn [resp_ok] in Hok. rewrite resp_busy_eq in *. cbn [resp_step] in H.
  assert (K: forall rv, rv <> E_OK -> forall st, rs_ctxs st = rs_ctxs s -> (st, [Complete a rv None]) = (s', outs) ->
             exists rv0 x, compl_of a outs = [(rv0, x)] /\ ~ In a (cbusy (rs_ctxs s')) /\ (x <> None <-> rv0 = E_OK)).
  { intros rv Hrv st Est E. inversion E; subst. exists rv, None. rewrite compl_of_self, Est. split; [reflexivity|]. split; [exact Hok|].
    split; [intros X; now elim X|intros X; contradiction]. }
  destruct (kget (ckey c) (rs_ctxs s)) as [cx|] eqn:G; [|apply (K E_CLOSED) with (st := s); [errs; discriminate|reflexivity|exact H]].
  destruct (rs_recvpipes s) as [|p rest]; [apply (K E_AGAIN) with (st := s); [errs; discriminate|reflexivity|exact H]|].
  destruct (kget p (rs_pipes s)) as [x|]; [|apply (K E_AGAIN) with (st := rset_recvpipes s rest); [errs; discriminate|reflexivity|exact H]].
  destruct (rp_rmsg x) as [|msg tl]; [apply (K E_AGAIN) with (st := rset_recvpipes s rest); [errs; discriminate|reflexivity|exact H]|].
  inversion H; subst. exists E_OK, (Some (mkPmsg [] (pm_body msg))). rewrite compl_of_cons, compl_of_TranRecv, compl_of_self.
  split; [reflexivity|]. split; [|split; [reflexivity|discriminate]]. cbn [rs_ctxs].
  intros X. apply Hok. eapply cbusy_kset_sub; [exact G| |exact X]. unfold rctx_aios. cbn [rc_saio rc_raio]. auto.
Qed.

Lemma resp_nb_send_possible_at s : nb_send_possible_at (M_resp (rfx true)) s.
Proof.
  intros c a m _ H. unM M_resp. cbn [resp_step rfx rf_nb rf_sbusy rf_wother andb negb] in *. rewrite !andb_false_r in *. cbv iota in *.
  destruct (kget (ckey c) (rs_ctxs s)) as [cx|]; [|reflexivity].
  destruct (rc_bt cx) as [|b0 bt]; [reflexivity|]. destruct (rc_saio cx); [reflexivity|].
  destruct (live_pipe (rc_pipe cx) (rs_pipes s)) as [x|]; [|reflexivity].
  destruct (rp_busy x); cbn [negb andb] in *; [|reflexivity]. cbn [snd] in H. discriminate.
Qed.
Lemma resp_nb_recv_possible_at fx s : nb_recv_possible_at (M_resp fx) s.
Proof.
  intros c a _ H. unM M_resp. cbn [resp_step] in *.
  destruct (kget (ckey c) (rs_ctxs s)) as [cx|]; [|reflexivity].
  destruct (rs_recvpipes s) as [|p rest]; [|reflexivity].
  destruct (rc_raio cx); cbn [snd] in H; [rewrite result_of_single in H; errs|]; discriminate.
Qed.
Lemma resp_nb_send_strict_at s : nb_send_eagain_queues_at (M_resp (rfx true)) s.
Proof.
  intros c a m _ H. unM M_resp. rewrite resp_busy_eq. cbn [resp_step rfx rf_nb rf_sbusy rf_wother andb negb] in *. rewrite !andb_false_r in *. cbv iota in *.
  destruct (kget (ckey c) (rs_ctxs s)) as [cx|]; [|cbn [snd] in H; rewrite result_of_single in H; errs; discriminate].
  destruct (rc_bt cx) as [|b0 bt]; [cbn [snd] in H; rewrite result_of_single in H; errs; discriminate|].
  destruct (rc_saio cx); [cbn [snd] in H; rewrite result_of_single in H; errs; discriminate|].
  destruct (live_pipe (rc_pipe cx) (rs_pipes s)) as [x|].
  - destruct (rp_busy x); cbn [negb andb fst snd] in *.
    + split; [reflexivity|]. cbn [rs_ctxs rset_ctxs]. apply cbusy_kset_new. unfold rctx_aios. cbn [rc_saio]. now left.
    + rewrite result_of_skip, result_of_single in H by reflexivity. errs; discriminate.
  - rewrite !andb_false_r in H. cbn [snd] in H. rewrite result_of_self in H. errs; discriminate.
Qed.

(* the receive descriptor: raised <-> a survey waits <-> the receive succeeds (whatever rf_nb) *)
Lemma resp_mirror_r_exact_at nbf s : pm_inv (M_resp (rfx nbf)) s -> mirror_r_exact_at (M_resp (rfx nbf)) s.
Proof.
  intros [(HC & HR & HQ) _] a _. unM M_resp. unfold rv_recv. unM M_resp. cbn [resp_poll poll_r resp_step ckey].
  destruct HC as (_ & c0 & G0 & _). rewrite G0. destruct HR as (_ & R & _ & E). rewrite E.
  destruct (rs_recvpipes s) as [|p rest]; cbn [isnil negb snd].
  - rewrite result_of_single. errs. split; intros X; congruence.
  - destruct (R p (or_introl eq_refl)) as (x & m & tl & GP & _ & RM & _). rewrite GP, RM. cbn [snd].
    rewrite result_of_skip, result_of_single by reflexivity. split; auto.
Qed.
Lemma resp_mirror_r_at nbf s : pm_inv (M_resp (rfx nbf)) s -> mirror_r_at (M_resp (rfx nbf)) s.
Proof. intros H. apply mirror_r_exact_weaken. now apply resp_mirror_r_exact_at. Qed.
(* the send descriptor (all repairs): raised only where the NONBLOCK send does not answer EAGAIN, and wherever it succeeds *)
Lemma resp_mirror_w_at s : pm_inv (M_resp (rfx true)) s -> mirror_w_at (M_resp (rfx true)) s.
Proof.
  intros [(HC & HR & HQ) HW] a m _ _. specialize (HW eq_refl). unM M_resp. unfold rv_send. unM M_resp.
  cbn [resp_poll poll_w]. rewrite HW. unfold idle0, pidle.
  cbn [resp_step rfx rf_nb rf_sbusy rf_wother andb negb ckey]. rewrite !andb_false_r. cbv iota.
  destruct HC as (_ & c0 & G0 & _). rewrite G0.
  destruct (rc_bt c0) as [|b0 bt]; cbn [isnil negb andb snd]; [rewrite result_of_single; errs; split; intros; discriminate|].
  destruct (rc_saio c0); [cbn [snd]; rewrite result_of_single; errs; split; [discriminate|intros _; discriminate]|].
  destruct (live_pipe (rc_pipe c0) (rs_pipes s)) as [x|].
  - destruct (rp_busy x); cbn [negb andb snd].
    + rewrite result_of_single. errs. split; intros; discriminate.
    + rewrite result_of_skip, result_of_single by reflexivity. errs. split; [reflexivity|intros _; discriminate].
  - rewrite !andb_false_r. cbn [snd]. rewrite result_of_self. errs. split; [reflexivity|intros _; discriminate].
Qed.

Theorem resp_c15_nb_immediate : C15_nb_immediate (M_resp rfix_all).
Proof. intros s _. split; [apply (resp_nb_send_immediate_at true)|apply resp_nb_recv_immediate_at]. Qed.
Theorem resp_c15_nb_possible : C15_nb_possible (M_resp rfix_all).
Proof. intros s _. split; [apply resp_nb_send_possible_at|apply resp_nb_recv_possible_at]. Qed.
Theorem resp_c15_mirror : C15_mirror (M_resp rfix_all).
Proof.
  intros s R. pose proof (resp_c15_inv s R) as HI. split; [exact (resp_mirror_r_at true s HI)|exact (resp_mirror_w_at s HI)].
Qed.
(* the halves that hold at full strength *)
Theorem resp_c15_nb_send_strict : forall s, reachable (M_resp rfix_all) s -> nb_send_eagain_queues_at (M_resp rfix_all) s.
Proof. intros s _. apply resp_nb_send_strict_at. Qed.
Theorem resp_c15_mirror_r_exact : forall s, reachable (M_resp rfix_all) s -> mirror_r_exact_at (M_resp rfix_all) s.
Proof. intros s R. exact (resp_mirror_r_exact_at true s (resp_c15_inv s R)). Qed.
(* the source today (rf_nb absent) *)
Theorem resp_c15_nb_immediate_cur : C15_nb_immediate (M_resp resp_cur).
Proof. intros s _. split; [apply (resp_nb_send_immediate_at false)|apply resp_nb_recv_immediate_at]. Qed.
Theorem resp_c15_mirror_r_cur : C15_mirror_r (M_resp resp_cur).
Proof. intros s R. exact (resp_mirror_r_at false s (resp_c15_inv_cur s R)). Qed.
Theorem resp_c15_nb_recv_possible_cur : C15_nb_recv_possible (M_resp resp_cur).
Proof. intros s _. apply resp_nb_recv_possible_at. Qed.

(* ---- witnesses ---- *)
Ltac wit_atom := first [ exact I | reflexivity | discriminate
  | (let H := fresh in intro H; repeat (destruct H as [H|H]); first [discriminate H | contradiction | lia]) ].
Ltac wit := vm_compute; repeat match goal with |- _ /\ _ => split | |- exists _, _ => eexists end; wit_atom.
Ltac reach ops := exists ops; split; [wit|reflexivity].

(* strict reading: a second receive while one is pending answers NNG_EAGAIN in the NONBLOCK form, NNG_ESTATE
   (not queued) in the blocking form *)
Definition resp_ops_pending : list pop := [PRecv None 1%N false].
Theorem resp_c15_nb_strict_refuted : ~ C15_nb_strict (M_resp rfix_all).
Proof.
  intros H.
  assert (R: reachable (M_resp rfix_all) (prun (M_resp rfix_all) (pm_init (M_resp rfix_all)) resp_ops_pending)) by reach resp_ops_pending.
  destruct (H _ R) as [_ Hr]. destruct (Hr None 2%N) as [X _]; [wit|vm_compute; reflexivity|]. vm_compute in X. discriminate.
Qed.
(* raised <-> not EAGAIN: false in the initial state (no survey: the send answers NNG_ESTATE, the descriptor is down) *)
Theorem resp_c15_mirror_iff_refuted : ~ C15_mirror_iff (M_resp rfix_all).
Proof.
  intros H. destruct (H _ (reachable_init _)) as [_ Hw]. specialize (Hw 1%N (mkPmsg [] []) ltac:(wit) eq_refl).
  vm_compute in Hw. destruct Hw as [_ X]. assert (F: false = true) by (apply X; discriminate). discriminate.
Qed.
(* raised <-> would succeed: false when the previous response is still queued behind a busy pipe and a new survey
   arrives from an idle pipe: the descriptor is raised, the send is refused with NNG_ESTATE (rf_sbusy) *)
Definition resp_ops_exact : list pop :=
  [PPipeStart 1%N PROTO_SURVEYOR; PPipeStart 2%N PROTO_SURVEYOR;
   PRecvDone 1%N 0%N (mkPmsg [] [128%N; 0%N; 0%N; 1%N; 7%N]); PRecv None 1%N true; PSend None 2%N false (mkPmsg [] [9%N]);
   PRecvDone 1%N 0%N (mkPmsg [] [128%N; 0%N; 0%N; 2%N; 8%N]); PRecv None 3%N true; PSend None 4%N false (mkPmsg [] [10%N]);
   PRecvDone 2%N 0%N (mkPmsg [] [128%N; 0%N; 0%N; 3%N; 8%N]); PRecv None 5%N true].
Theorem resp_c15_mirror_exact_refuted : ~ C15_mirror_exact (M_resp rfix_all).
Proof.
  intros H.
  assert (R: reachable (M_resp rfix_all) (prun (M_resp rfix_all) (pm_init (M_resp rfix_all)) resp_ops_exact)) by reach resp_ops_exact.
  destruct (H _ R) as [_ Hw]. specialize (Hw 6%N (mkPmsg [] [11%N]) ltac:(wit) eq_refl).
  vm_compute in Hw. destruct Hw as [X _]. specialize (X eq_refl). discriminate.
Qed.
(* the source today: nni_aio_start comes first in resp0_ctx_send, so a NONBLOCK send answers NNG_EAGAIN (and
   lowers the descriptor) although the survey's pipe is idle and the descriptor raised *)
Definition resp_ops_cur : list pop :=
  [PPipeStart 1%N PROTO_SURVEYOR; PRecvDone 1%N 0%N (mkPmsg [] [128%N; 0%N; 0%N; 1%N; 7%N]); PRecv None 1%N true].
Lemma resp_cur_reach : reachable (M_resp resp_cur) (prun (M_resp resp_cur) (pm_init (M_resp resp_cur)) resp_ops_cur).
Proof. reach resp_ops_cur. Qed.
Theorem resp_c15_nb_possible_refuted_cur : ~ C15_nb_possible (M_resp resp_cur).
Proof.
  intros H. destruct (H _ resp_cur_reach) as [Hs _]. specialize (Hs None 2%N (mkPmsg [] [9%N]) ltac:(wit) ltac:(vm_compute; reflexivity)).
  vm_compute in Hs. discriminate.
Qed.
Theorem resp_c15_mirror_refuted_cur : ~ C15_mirror (M_resp resp_cur).
Proof.
  intros H. destruct (H _ resp_cur_reach) as [_ Hw]. specialize (Hw 2%N (mkPmsg [] [9%N]) ltac:(wit) eq_refl).
  vm_compute in Hw. destruct Hw as [_ X]. apply (X eq_refl). reflexivity.
Qed.
Theorem resp_c15_mirror_w_refuted_cur : ~ C15_mirror_w (M_resp resp_cur).
Proof.
  intros H. pose proof (H _ resp_cur_reach) as Hw. specialize (Hw 2%N (mkPmsg [] [9%N]) ltac:(wit) eq_refl).
  vm_compute in Hw. destruct Hw as [_ X]. apply (X eq_refl). reflexivity.
Qed.

(* non-vacuity: reachable RESPONDENT states with each descriptor raised / lowered *)
Example resp_reachable_r_raised : exists s, reachable (M_resp rfix_all) s /\ poll_r (pm_poll (M_resp rfix_all) s) = Some true.
Proof.
  exists (prun (M_resp rfix_all) resp_init [PPipeStart 1%N PROTO_SURVEYOR; PRecvDone 1%N 0%N (mkPmsg [] [128%N; 0%N; 0%N; 1%N; 7%N])]).
  split; [|reflexivity]. reach [PPipeStart 1%N PROTO_SURVEYOR; PRecvDone 1%N 0%N (mkPmsg [] [128%N; 0%N; 0%N; 1%N; 7%N])].
Qed.
Example resp_reachable_w_raised : exists s, reachable (M_resp rfix_all) s /\ pm_poll (M_resp rfix_all) s = mkPoll (Some false) (Some true).
Proof.
  exists (prun (M_resp rfix_all) resp_init resp_ops_cur). split; [|reflexivity]. reach resp_ops_cur.
Qed.
Example resp_reachable_lowered : reachable (M_resp rfix_all) resp_init /\ pm_poll (M_resp rfix_all) resp_init = mkPoll (Some false) (Some false).
Proof. split; [apply (reachable_init (M_resp rfix_all))|reflexivity]. Qed.

(* ================================================================== SURVEYOR *)
Definition sbusy (cs : list (N * sctx)) : list aioid := flat_map (fun x => sc_rq (snd x)) cs.
Definition surv_busy (s : surv) : list aioid := sbusy (sv_ctxs s).
(* contract: transports deliver whole wire messages in the body; the clock does not run backwards; an aio is
   submitted once at a time *)
Definition surv_ok (s : surv) (o : pop) : Prop :=
  surv_op_ok o /\ time_ok s o /\ match o with PSend _ a _ _ | PRecv _ a _ => ~ In a (surv_busy s) | _ => True end.
(* the receive descriptor: raised iff the socket's own context has a response queued *)
Definition SRd (s : surv) : Prop := exists c0, kget 0%N (sv_ctxs s) = Some c0 /\ sv_readable s = negb (isnil (sc_lmq c0)).
Definition M_surv (nbfix : bool) : pmodel :=
  mkPM surv surv_init (surv_step nbfix) surv_poll surv_ok (fun s => SInv s /\ SRd s) surv_busy (fun _ => true).

Lemma ckey_some_nz' c : 0%N <> ckey (Some c).
Proof. unfold ckey. lia. Qed.
Lemma cancel_ctxs_lmq a rv l : forall k c, kget k l = Some c ->
  exists c', kget k (fst (cancel_ctxs a rv l)) = Some c' /\ sc_lmq c' = sc_lmq c.
Proof.
  induction l as [|[k0 c1] l IH]; intros k c G; cbn [cancel_ctxs kget] in *; [discriminate|].
  destruct (has_id a (sc_rq c1)); cbn [fst kget].
  - destruct (N.eqb k0 k); [inversion G; subst; eexists; split; reflexivity|eauto].
  - specialize (IH k c). destruct (cancel_ctxs a rv l) as [r o]. cbn [fst kget] in *. destruct (N.eqb k0 k); eauto.
Qed.
Lemma expire_ctxs_lmq now l : forall k c, kget k l = Some c ->
  exists c', kget k (fst (expire_ctxs now l)) = Some c' /\ sc_lmq c' = sc_lmq c.
Proof.
  induction l as [|[k0 c1] l IH]; intros k c G; cbn [expire_ctxs kget] in *; [discriminate|].
  specialize (IH k c). destruct (expire_ctxs now l) as [r o]. cbn [fst] in IH.
  destruct (sc_rq c1); [|destruct (sc_expire c1 <? Z.of_N now)%Z]; cbn [fst kget]; destruct (N.eqb k0 k); eauto;
    inversion G; subst; eexists; split; reflexivity.
Qed.
Ltac srd_unfold := cbn [fst]; unfold SRd; cbn [sv_ctxs sv_readable set_ctxs set_readable set_pipes set_cur].

Lemma surv_rd_step fx s o : SInv s -> SRd s -> surv_op_ok o -> o <> PSockClose -> SRd (fst (surv_step fx s o)).
Proof.
  intros HI (c0 & G0 & E) Hok NC. pose proof HI as [ND HC]. assert (SAME: SRd s) by (exists c0; auto).
  destruct o as [c a nb m|c a nb|a rv|p peer|p|p rv|p rv m|c op|c|c| |now]; cbn [surv_step].
  - destruct (kget (ckey c) (sv_ctxs s)) as [cx|] eqn:G; [|exact SAME]. cbn [ctx_abort].
    destruct (id_alloc _ _ _) as [[id cur']|].
    + destruct (fanout _ _) as [pipes' tx]. srd_unfold. destruct (N.eqb_spec (ckey c) 0) as [K|K].
      * rewrite K. eexists. split; [apply kget_kset_eq|reflexivity].
      * exists c0. rewrite !kget_kset_neq by auto. auto.
    + srd_unfold. destruct (N.eqb_spec (ckey c) 0) as [K|K].
      * rewrite K. eexists. split; [apply kget_kset_eq|reflexivity].
      * exists c0. rewrite !kget_kset_neq by auto. auto.
  - destruct (kget (ckey c) (sv_ctxs s)) as [cx|] eqn:G; [|exact SAME]. destruct (_ || _); [exact SAME|].
    destruct (sc_lmq cx) as [|m0 r] eqn:L.
    + destruct (nb && fx); [exact SAME|]. srd_unfold. destruct (N.eqb_spec (ckey c) 0) as [K|K].
      * rewrite K in *. assert (cx = c0) by congruence. subst. eexists. split; [apply kget_kset_eq|]. cbn [sc_lmq]. now rewrite E, L.
      * exists c0. rewrite kget_kset_neq by auto. auto.
    + destruct (N.eqb_spec (ckey c) 0) as [K|K].
      * rewrite K in *. assert (cx = c0) by congruence. subst. rewrite andb_true_r. destruct r as [|m1 r]; cbn [isnil]; srd_unfold.
        -- eexists. split; [apply kget_kset_eq|reflexivity].
        -- eexists. split; [apply kget_kset_eq|]. cbn [sc_lmq]. now rewrite E, L.
      * rewrite andb_false_r. srd_unfold. exists c0. rewrite kget_kset_neq by auto. auto.
  - destruct (cancel_ctxs_lmq a rv _ _ _ G0) as (c' & G' & L'). destruct (cancel_ctxs a rv (sv_ctxs s)) as [cs o]. cbn [fst] in G'.
    srd_unfold. exists c'. split; [exact G'|now rewrite L'].
  - destruct (negb (N.eqb peer PROTO_RESPONDENT)); [exact SAME|]. srd_unfold. exists c0. auto.
  - destruct (kget p (sv_pipes s)); [|exact SAME]. srd_unfold. exists c0. auto.
  - destruct (kget p (sv_pipes s)) as [x|]; [|exact SAME]. destruct (negb (N.eqb rv 0)); [srd_unfold; exists c0; auto|].
    destruct (sp_closed x); [srd_unfold; exists c0; auto|]. destruct (sp_q x); srd_unfold; exists c0; auto.
  - destruct (negb (N.eqb rv 0)); [exact SAME|]. destruct (surv_recv (pm_body m)) as [[[id h] b]|]; [|exact SAME].
    destruct (find_owner id (sv_ctxs s)) as [[k cc]|] eqn:FO; [|exact SAME].
    destruct (find_owner_some _ _ _ _ FO) as (_ & _ & E3). pose proof (in_kget _ _ _ ND E3) as G.
    destruct (_ <=? _); [exact SAME|]. destruct (sc_rq cc) as [|a r].
    + destruct (N.eqb_spec k 0) as [K|K]; srd_unfold.
      * rewrite K in *. eexists. split; [apply kget_kset_eq|]. cbn [sc_lmq]. now destruct (sc_lmq cc).
      * exists c0. rewrite kget_kset_neq by auto. auto.
    + srd_unfold. destruct (N.eqb_spec k 0) as [K|K].
      * rewrite K in *. assert (cc = c0) by congruence. subst. eexists. split; [apply kget_kset_eq|]. exact E.
      * exists c0. rewrite kget_kset_neq by auto. auto.
  - destruct op; try (destruct c; exact SAME).
    + destruct c; [exact SAME|]. destruct (_ <? _)%N; exact SAME.
    + destruct c; [exact SAME|]. destruct (_ <? _)%N; exact SAME.
    + destruct c; [exact SAME|]. destruct (_ && _); [|exact SAME]. srd_unfold. exists c0. auto.
    + destruct (ms <? -1)%Z; [destruct c; exact SAME|].
      destruct (kget (ckey c) (sv_ctxs s)) as [cx|] eqn:G; [|destruct c; exact SAME].
      assert (R: SRd (set_ctxs s (kset (ckey c) (mkSctx (sc_survey cx) (sc_lmq cx) (sc_rq cx) ms (sc_expire cx)) (sv_ctxs s)))).
      { srd_unfold. destruct (N.eqb_spec (ckey c) 0) as [K|K].
        - rewrite K in *. assert (cx = c0) by congruence. subst. eexists. split; [apply kget_kset_eq|exact E].
        - exists c0. rewrite kget_kset_neq by auto. auto. }
      destruct c; exact R.
  - srd_unfold. exists c0. rewrite kget_kset_neq by apply ckey_some_nz'. auto.
  - destruct (kget (ckey (Some c)) (sv_ctxs s)); [|exact SAME]. cbn [ctx_abort]. srd_unfold. exists c0.
    rewrite kget_kdel_neq by apply ckey_some_nz'. auto.
  - congruence.
  - destruct (expire_ctxs_lmq now _ _ _ G0) as (c' & G' & L'). destruct (expire_ctxs now (sv_ctxs s)) as [cs o]. cbn [fst] in G'.
    srd_unfold. exists c'. split; [exact G'|now rewrite L'].
Qed.
Lemma surv_inv_init nbfix : pm_inv (M_surv nbfix) (pm_init (M_surv nbfix)).
Proof. split; [exact surv_init_inv|]. eexists. split; reflexivity. Qed.
Lemma surv_inv_step nbfix s o : pm_inv (M_surv nbfix) s -> pm_ok (M_surv nbfix) s o -> o <> PSockClose ->
  pm_inv (M_surv nbfix) (fst (pm_step (M_surv nbfix) s o)).
Proof.
  unM M_surv. intros [HI HR] (Hok & _ & _) NC. split; [|now apply surv_rd_step].
  destruct (surv_step nbfix s o) as [s' outs] eqn:St. cbn [fst]. eapply surv_step_inv; eauto.
Qed.
Theorem surv_c15_inv nbfix : C15_inv (M_surv nbfix).
Proof. apply reachable_inv; [apply surv_inv_init|apply surv_inv_step]. Qed.

Lemma sbusy_kset_in a k c' cs : In a (sbusy (kset k c' cs)) -> In a (sc_rq c') \/ In a (sbusy cs).
Proof.
  unfold sbusy. induction cs as [|[k0 c0] cs IH]; cbn [kset flat_map snd].
  - rewrite app_nil_r. auto.
  - destruct (N.eqb k0 k); cbn [flat_map snd]; intros H; apply in_app_or in H as [H|H]; auto.
    + right. apply in_or_app. auto.
    + right. apply in_or_app. auto.
    + destruct (IH H); auto. right. apply in_or_app. auto.
Qed.
Lemma sbusy_get a k c cs : kget k cs = Some c -> In a (sc_rq c) -> In a (sbusy cs).
Proof. intros G H. apply kget_in in G. unfold sbusy. apply in_flat_map. exists (k, c). auto. Qed.
Lemma sbusy_kset_new a k c' cs : In a (sc_rq c') -> In a (sbusy (kset k c' cs)).
Proof. intros H. eapply sbusy_get; [apply kget_kset_eq|exact H]. Qed.
Lemma compl_of_fanout a m l : compl_of a (snd (fanout m l)) = [].
Proof.
  induction l as [|[p x] l IH]; cbn [fanout]; [reflexivity|]. destruct (fanout m l) as [r o]. cbn [snd] in IH.
  destruct (sp_closed x); [exact IH|]. destruct (negb (sp_busy x)); cbn [snd]; [rewrite compl_of_cons, IH; reflexivity|].
  destruct (_ <? _); exact IH.
Qed.
Lemma compl_of_abort a cx : ~ In a (sc_rq cx) -> compl_of a (fail_aios E_CANCELED (sc_rq cx) ++ map Free (sc_lmq cx)) = [].
Proof. intros H. now rewrite compl_of_app, compl_of_fail_aios, compl_of_map_Free. Qed.

(* a survey never waits: the send completes in its own step with E_OK, or E_NOMEM (id space exhausted), or E_CLOSED *)
Lemma surv_nb_send_immediate_at nbfix s : nb_send_immediate_at (M_surv nbfix) s.
Proof.
  intros c a m s' outs (_ & _ & Hok) H. unM M_surv. unfold surv_busy in *. cbn [surv_step] in H.
  destruct (kget (ckey c) (sv_ctxs s)) as [cx|] eqn:G.
  2:{ inversion H; subst. exists E_CLOSED. rewrite compl_of_self. split; [reflexivity|]. split; [exact Hok|].
      intros _ m2 _. cbn [surv_step]. now rewrite G. }
  cbn [ctx_abort] in H. assert (NA: ~ In a (sc_rq cx)) by (intros X; apply Hok; eapply sbusy_get; eauto).
  destruct (id_alloc _ _ _) as [[id cur']|] eqn:IA.
  - destruct (fanout _ _) as [pipes' tx] eqn:FO. inversion H; subst. exists E_OK.
    rewrite app_assoc, compl_of_app, compl_of_app, compl_of_self, (compl_of_abort _ _ NA).
    replace tx with (snd (fanout (mkPmsg (be32 id) (pm_body m)) (sv_pipes s))) by now rewrite FO. rewrite compl_of_fanout.
    split; [reflexivity|]. split; [|intros X; now elim X]. cbn [sv_ctxs].
    intros X. apply sbusy_kset_in in X as [X|X]; [exact X|]. apply sbusy_kset_in in X as [X|X]; [exact X|auto].
  - inversion H; subst. exists E_NOMEM. rewrite compl_of_app, compl_of_self, (compl_of_abort _ _ NA). split; [reflexivity|]. split.
    + cbn [sv_ctxs set_ctxs set_readable]. intros X. apply sbusy_kset_in in X as [X|X]; [exact X|auto].
    + intros _ m2 _. cbn [surv_step]. rewrite G. cbn [ctx_abort]. now rewrite IA.
Qed.
Lemma surv_send_not_again nbfix s c a nb m : ~ In a (surv_busy s) ->
  result_of a (snd (surv_step nbfix s (PSend c a nb m))) <> Some E_AGAIN.
Proof.
  intros Hok. destruct (surv_step nbfix s (PSend c a true m)) as [s' outs] eqn:St.
  assert (E: surv_step nbfix s (PSend c a nb m) = (s', outs)) by (rewrite <- St; reflexivity). rewrite E. cbn [snd].
  unfold surv_busy in Hok. cbn [surv_step] in St.
  destruct (kget (ckey c) (sv_ctxs s)) as [cx|] eqn:G; [|inversion St; subst; rewrite result_of_single; errs; discriminate].
  cbn [ctx_abort] in St. assert (NA: ~ In a (sc_rq cx)) by (intros X; apply Hok; eapply sbusy_get; eauto).
  destruct (id_alloc _ _ _) as [[id cur']|] eqn:IA.
  - destruct (fanout _ _) as [pipes' tx] eqn:FO. inversion St; subst. unfold result_of.
    rewrite app_assoc, compl_of_app, compl_of_app, compl_of_self, (compl_of_abort _ _ NA).
    replace tx with (snd (fanout (mkPmsg (be32 id) (pm_body m)) (sv_pipes s))) by now rewrite FO. rewrite compl_of_fanout.
    cbn. errs. discriminate.
  - inversion St; subst. unfold result_of. rewrite compl_of_app, compl_of_self, (compl_of_abort _ _ NA). cbn. errs. discriminate.
Qed.
Lemma surv_nb_recv_immediate_at s : nb_recv_immediate_at (M_surv true) s.
Proof.
  intros c a s' outs (_ & _ & Hok) H. unM M_surv. unfold surv_busy in *. cbn [surv_step andb] in H.
  assert (K: forall rv, rv <> E_OK -> (s, [Complete a rv None]) = (s', outs) ->
             exists rv0 x, compl_of a outs = [(rv0, x)] /\ ~ In a (sbusy (sv_ctxs s')) /\ (x <> None <-> rv0 = E_OK)).
  { intros rv Hrv E. inversion E; subst. exists rv, None. rewrite compl_of_self. split; [reflexivity|]. split; [exact Hok|].
    split; [intros X; now elim X|intros X; contradiction]. }
  destruct (kget (ckey c) (sv_ctxs s)) as [cx|] eqn:G; [|apply (K E_CLOSED); [errs; discriminate|exact H]].
  destruct (_ || _); [apply (K E_STATE); [errs; discriminate|exact H]|].
  destruct (sc_lmq cx) as [|m0 r]; [apply (K E_AGAIN); [errs; discriminate|exact H]|].
  assert (E: outs = [Complete a E_OK (Some m0)] /\
             sv_ctxs s' = kset (ckey c) (mkSctx (sc_survey cx) r (sc_rq cx) (sc_stime cx) (sc_expire cx)) (sv_ctxs s)).
  { destruct (isnil r && (ckey c =? 0)%N); inversion H; subst; auto. }
  destruct E as [-> E]. exists E_OK, (Some m0). rewrite compl_of_self, E. split; [reflexivity|]. split; [|split; [reflexivity|discriminate]].
  intros X. apply sbusy_kset_in in X as [X|X]; [|auto]. cbn [sc_rq] in X. apply Hok. eapply sbusy_get; eauto.
Qed.
Lemma surv_nb_possible_at nbfix s : nb_send_possible_at (M_surv nbfix) s /\ nb_recv_possible_at (M_surv nbfix) s.
Proof.
  split.
  - intros c a m _ _. reflexivity.
  - intros c a _ H. unM M_surv. cbn [surv_step andb] in *.
    destruct (kget (ckey c) (sv_ctxs s)) as [cx|]; [|reflexivity]. destruct (_ || _); [reflexivity|].
    destruct (sc_lmq cx); [|reflexivity]. cbn [snd] in H. discriminate.
Qed.
Lemma surv_nb_strict_at s : nb_send_eagain_queues_at (M_surv true) s /\ nb_recv_eagain_queues_at (M_surv true) s.
Proof.
  split.
  - intros c a m (_ & _ & Hok) H. unM M_surv. exfalso. revert H. now apply surv_send_not_again.
  - intros c a _ H. unM M_surv. unfold surv_busy. cbn [surv_step andb] in *.
    destruct (kget (ckey c) (sv_ctxs s)) as [cx|]; [|cbn [snd] in H; rewrite result_of_single in H; errs; discriminate].
    destruct (_ || _); [cbn [snd] in H; rewrite result_of_single in H; errs; discriminate|].
    destruct (sc_lmq cx) as [|m0 r].
    + cbn [fst snd sv_ctxs set_ctxs]. split; [reflexivity|]. apply sbusy_kset_new. cbn [sc_rq]. apply in_or_app. right. now left.
    + cbn [snd] in H. rewrite result_of_single in H. errs; discriminate.
Qed.
Lemma surv_mirror_at s : pm_inv (M_surv true) s -> mirror_r_at (M_surv true) s /\ mirror_w_at (M_surv true) s.
Proof.
  intros [HI (c0 & G0 & E)]. split.
  - intros a _. unM M_surv. unfold rv_recv. unM M_surv. cbn [surv_poll poll_r surv_step ckey andb]. rewrite G0, E.
    destruct (_ || _); [cbn [snd]; rewrite result_of_single; errs; split; [discriminate|intros _; discriminate]|].
    destruct (sc_lmq c0) as [|m0 r]; cbn [isnil negb snd]; rewrite result_of_single; errs; split; try discriminate; auto.
  - intros a m (_ & _ & Hok) _. unM M_surv. unfold rv_send. unM M_surv. cbn [surv_poll poll_w]. split; [reflexivity|].
    intros _. now apply surv_send_not_again.
Qed.

Theorem surv_c15_nb_immediate : C15_nb_immediate (M_surv true).
Proof. intros s _. split; [apply surv_nb_send_immediate_at|apply surv_nb_recv_immediate_at]. Qed.
Theorem surv_c15_nb_possible nbfix : C15_nb_possible (M_surv nbfix).
Proof. intros s _. apply surv_nb_possible_at. Qed.
Theorem surv_c15_nb_strict : C15_nb_strict (M_surv true).
Proof. intros s _. apply surv_nb_strict_at. Qed.
Theorem surv_c15_mirror : C15_mirror (M_surv true).
Proof. intros s R. apply surv_mirror_at. now apply surv_c15_inv. Qed.
Theorem surv_c15_nb_send_immediate_pinned : C15_nb_send_immediate (M_surv false).
Proof. intros s _. apply surv_nb_send_immediate_at. Qed.

(* raised <-> not EAGAIN: false in the initial state (no survey: the receive answers NNG_ESTATE, descriptor down) *)
Theorem surv_c15_mirror_iff_refuted : ~ C15_mirror_iff (M_surv true).
Proof.
  intros H. destruct (H _ (reachable_init _)) as [Hr _]. specialize (Hr 1%N ltac:(wit)).
  vm_compute in Hr. destruct Hr as [_ X]. assert (F: false = true) by (apply X; discriminate). discriminate.
Qed.
(* raised <-> would succeed: false once the survey has expired with a response still queued: the descriptor
   stays raised, the receive answers NNG_ESTATE *)
Definition surv_ops_expired : list pop :=
  [PPipeStart 1%N PROTO_RESPONDENT; PSend None 1%N false (mkPmsg [] [7%N]);
   PRecvDone 1%N 0%N (mkPmsg [] [128%N; 0%N; 0%N; 1%N; 9%N]); PTick 2000%N].
Theorem surv_c15_mirror_exact_refuted : ~ C15_mirror_exact (M_surv true).
Proof.
  intros H.
  assert (R: reachable (M_surv true) (prun (M_surv true) (pm_init (M_surv true)) surv_ops_expired)) by reach surv_ops_expired.
  destruct (H _ R) as [Hr _]. specialize (Hr 2%N ltac:(wit)). vm_compute in Hr. destruct Hr as [X _]. specialize (X eq_refl). discriminate.
Qed.
(* the pinned clamp test (`timeout < 1`): a NONBLOCK receive with a live survey and no response is queued *)
Definition surv_ops_live : list pop := [PSend None 1%N false (mkPmsg [] [7%N])].
Theorem surv_c15_nb_immediate_refuted_pinned : ~ C15_nb_immediate (M_surv false).
Proof.
  intros H.
  assert (R: reachable (M_surv false) (prun (M_surv false) (pm_init (M_surv false)) surv_ops_live)) by reach surv_ops_live.
  destruct (H _ R) as [_ Hr]. destruct (Hr None 2%N _ _ ltac:(wit) (surjective_pairing _)) as (rv & x & X & _).
  vm_compute in X. discriminate.
Qed.
Example surv_reachable_raised : exists s, reachable (M_surv true) s /\ poll_r (pm_poll (M_surv true) s) = Some true.
Proof.
  exists (prun (M_surv true) surv_init (removelast surv_ops_expired)). split; [|reflexivity]. reach (removelast surv_ops_expired).
Qed.
Example surv_reachable_lowered : reachable (M_surv true) surv_init /\ pm_poll (M_surv true) surv_init = mkPoll (Some false) (Some true).
Proof. split; [apply (reachable_init (M_surv true))|reflexivity]. Qed.

(* ================================================================== raw SURVEYOR / raw RESPONDENT *)
(* ---- the upper read queue (msgqueue.c with its repairs) ---- *)
Lemma run_putq_no_compl a f : forall u, uq_readers u = [] -> compl_of a (snd (run_putq f u)) = [].
Proof.
  induction f as [|f IH]; intros u R; cbn [run_putq]; [reflexivity|]. destruct (uq_writers u) as [|[p m] ws]; [reflexivity|].
  rewrite R. destruct (_ <? _); [|reflexivity]. specialize (IH (mkUrq (uq_q u ++ [m]) (uq_cap u) [] ws) eq_refl).
  destruct (run_putq f _) as [u' o]. cbn [snd] in *. now rewrite compl_of_cons, IH.
Qed.
Lemma run_putq_nowriters f u : uq_writers u = [] -> run_putq f u = (u, []).
Proof. intros W. destruct f; [reflexivity|]. cbn [run_putq]. now rewrite W. Qed.
(* something is there and nobody is ahead: the receive is served in the same step *)
Lemma urq_get_ready fx u a : urq_get_waits u = false ->
  exists m, compl_of a (snd (urq_get_fx fx u a)) = [(E_OK, Some m)] /\ uq_readers (fst (urq_get_fx fx u a)) = [].
Proof.
  unfold urq_get_waits. intros W. apply orb_false_iff in W as [W1 W2]. destruct (uq_readers u) eqn:R; [|discriminate].
  assert (K: forall u1 m r0, uq_readers u1 = [] -> compl_of a r0 = [] ->
     exists m', compl_of a (snd (if mf_getput fx then let (u2, o2) := run_putq (S (length (uq_writers u1))) u1 in (u2, (Complete a E_OK (Some m) :: r0) ++ o2)
                                  else (u1, Complete a E_OK (Some m) :: r0))) = [(E_OK, Some m')] /\
                uq_readers (fst (if mf_getput fx then let (u2, o2) := run_putq (S (length (uq_writers u1))) u1 in (u2, (Complete a E_OK (Some m) :: r0) ++ o2)
                                  else (u1, Complete a E_OK (Some m) :: r0))) = []).
  { intros u1 m r0 R1 C0. exists m. destruct (mf_getput fx).
    - pose proof (run_putq_keeps (S (length (uq_writers u1))) u1 R1) as KK. pose proof (run_putq_no_compl a (S (length (uq_writers u1))) u1 R1) as KC.
      destruct (run_putq _ u1) as [u2 o2]. cbn [fst snd] in *. split; [|exact KK]. now rewrite compl_of_app, compl_of_cons, compl_of_self, C0, KC.
    - cbn [fst snd]. split; [|exact R1]. now rewrite compl_of_cons, compl_of_self, C0. }
  unfold urq_get_fx, urq_get. rewrite R. cbn [app length run_getq uq_readers uq_q uq_writers uq_cap].
  destruct (uq_q u) as [|m q'] eqn:Q.
  - destruct (uq_writers u) as [|[p m] ws] eqn:Wr; [cbn in W2; discriminate|]. cbn [uq_readers uq_q uq_writers uq_cap].
    apply (K (mkUrq [] (uq_cap u) [] ws) m [TranRecv p]); reflexivity.
  - cbn [uq_readers uq_q uq_writers uq_cap]. apply (K (mkUrq q' (uq_cap u) [] (uq_writers u)) m []); reflexivity.
Qed.
(* nothing is there (or a reader is ahead, which under the invariant means the same): the receive is queued *)
Lemma urq_get_blocked fx u a : UInv u -> urq_get_waits u = true ->
  urq_get_fx fx u a = (mkUrq (uq_q u) (uq_cap u) (uq_readers u ++ [a]) (uq_writers u), []).
Proof.
  intros [A _] W. assert (E: uq_q u = [] /\ uq_writers u = []).
  { unfold urq_get_waits in W. destruct (uq_readers u) eqn:R; cbn [isnil negb orb] in W.
    - destruct (uq_q u); [|discriminate]. destruct (uq_writers u); [auto|discriminate].
    - apply A. discriminate. }
  destruct E as [E1 E2]. unfold urq_get_fx, urq_get. rewrite run_getq_idle by (cbn; auto).
  rewrite run_putq_nowriters by (cbn; auto). destruct (mf_getput fx); reflexivity.
Qed.
Definition raw_ok (u : urq) (o : pop) : Prop :=
  match o with PSend _ a _ _ | PRecv _ a _ => ~ In a (uq_readers u) | _ => True end.

Lemma urq_nb_recv_imm u a : ~ In a (uq_readers u) ->
  exists rv x, compl_of a (snd (urq_user_recv mqfix_all u a true)) = [(rv, x)] /\
    ~ In a (uq_readers (fst (urq_user_recv mqfix_all u a true))) /\ (x <> None <-> rv = E_OK) /\
    rv = (if urq_get_waits u then E_AGAIN else E_OK).
Proof.
  intros Hok. unfold urq_user_recv. cbn [mqfix_all mf_nb negb orb andb]. destruct (urq_get_waits u) eqn:W.
  - exists E_AGAIN, None. cbn [fst snd]. rewrite compl_of_self. repeat split; auto; [intros X; now elim X|errs; discriminate].
  - destruct (urq_get_ready mqfix_all u a W) as (m & C & R). exists E_OK, (Some m). rewrite C, R. repeat split; auto. discriminate.
Qed.
Lemma urq_recv_possible u a : UInv u -> result_of a (snd (urq_user_recv mqfix_all u a false)) = Some E_OK ->
  urq_user_recv mqfix_all u a true = urq_user_recv mqfix_all u a false.
Proof.
  intros HI H. unfold urq_user_recv in *. cbn [mqfix_all mf_nb negb orb andb] in *. destruct (urq_get_waits u) eqn:W; [|reflexivity].
  change (mkMqfix3 true true true) with mqfix_all in H. rewrite (urq_get_blocked _ _ _ HI W) in H. discriminate.
Qed.
Lemma urq_recv_strict u a : UInv u -> result_of a (snd (urq_user_recv mqfix_all u a true)) = Some E_AGAIN ->
  result_of a (snd (urq_user_recv mqfix_all u a false)) = None /\ In a (uq_readers (fst (urq_user_recv mqfix_all u a false))).
Proof.
  intros HI H. unfold urq_user_recv in *. cbn [mqfix_all mf_nb negb orb andb] in *. destruct (urq_get_waits u) eqn:W.
  - change (mkMqfix3 true true true) with mqfix_all. rewrite (urq_get_blocked _ _ _ HI W). cbn [fst snd uq_readers]. split; [reflexivity|].
    apply in_or_app. right. now left.
  - cbv iota in H. destruct (urq_get_ready mqfix_all u a W) as (m & C & _). rewrite (result_of_compl _ _ _ _ C) in H. errs; discriminate.
Qed.
Lemma urq_mirror u a : UInv u -> ~ In a (uq_readers u) ->
  (urq_recvable u = true <-> result_of a (snd (urq_user_recv mqfix_all u a true)) = Some E_OK) /\
  (urq_recvable u = true <-> result_of a (snd (urq_user_recv mqfix_all u a true)) <> Some E_AGAIN).
Proof.
  intros HI Hok. rewrite (urq_recvable_mirror_inv _ HI). destruct (urq_nb_recv_imm u a Hok) as (rv & x & C & _ & _ & E).
  rewrite (result_of_compl _ _ _ _ C), E. destruct (urq_get_waits u); cbn [negb]; errs; split; split; intros; try discriminate; try reflexivity.
  now elim H.
Qed.

Lemma compl_of_tryput a cap p x m : compl_of a (snd (xpipe_tryput cap p x m)) = [].
Proof. unfold xpipe_tryput. destruct (xp_closed x); [reflexivity|]. destruct (negb (xp_busy x)); [reflexivity|]. destruct (_ <? _); reflexivity. Qed.
Lemma compl_of_xfanout a m l : compl_of a (snd (xfanout m l)) = [].
Proof.
  induction l as [|[p x] l IH]; cbn [xfanout]; [reflexivity|]. destruct (xfanout m l) as [r o]. cbn [snd] in IH.
  destruct (xp_closed x); [exact IH|]. pose proof (compl_of_tryput a XSURV_SENDQ p x m) as T.
  destruct (xpipe_tryput XSURV_SENDQ p x m) as [x' o1]. cbn [snd] in *. now rewrite compl_of_app, T, IH.
Qed.

(* ---- raw SURVEYOR ---- *)
Definition M_xsurv (fx : mq_fix) : pmodel :=
  mkPM xsurv xsurv_init (xsurv_step fx) xsurv_poll (fun s o => raw_ok (xs_urq s) o) (fun s => UInv (xs_urq s))
       (fun s => uq_readers (xs_urq s)) (fun _ => true).
Lemma xsurv_inv_init fx : pm_inv (M_xsurv fx) (pm_init (M_xsurv fx)).
Proof. exact uinv_init. Qed.
Lemma xsurv_inv_step s o : pm_inv (M_xsurv mqfix_all) s -> pm_ok (M_xsurv mqfix_all) s o -> o <> PSockClose ->
  pm_inv (M_xsurv mqfix_all) (fst (pm_step (M_xsurv mqfix_all) s o)).
Proof.
  unM M_xsurv. intros HI _ _. destruct (xsurv_step mqfix_all s o) as [s' outs] eqn:St. cbn [fst].
  exact (xsurv_urq_inv mqfix_all s o s' outs eq_refl eq_refl HI St).
Qed.
Theorem xsurv_c15_inv : C15_inv (M_xsurv mqfix_all).
Proof. apply reachable_inv; [apply xsurv_inv_init|exact xsurv_inv_step]. Qed.

Lemma xsurv_send_shape s c a nb m : exists ps o1,
  xsurv_step mqfix_all s (PSend c a nb m) = (mkXsurv ps (xs_urq s) (xs_uwcap s) (xs_ttl s), Complete a E_OK None :: o1) /\ compl_of a o1 = [].
Proof.
  cbn [xsurv_step mqfix_all mf_nb negb]. rewrite andb_false_r. pose proof (compl_of_xfanout a m (xs_pipes s)) as C.
  destruct (xfanout m (xs_pipes s)) as [ps o1]. eauto.
Qed.
Lemma xsurv_recv_shape s c a nb :
  xsurv_step mqfix_all s (PRecv c a nb) =
  (mkXsurv (xs_pipes s) (fst (urq_user_recv mqfix_all (xs_urq s) a nb)) (xs_uwcap s) (xs_ttl s), snd (urq_user_recv mqfix_all (xs_urq s) a nb)).
Proof. cbn [xsurv_step]. destruct (urq_user_recv mqfix_all (xs_urq s) a nb). reflexivity. Qed.

Lemma xsurv_nb_immediate_at s : nb_send_immediate_at (M_xsurv mqfix_all) s /\ nb_recv_immediate_at (M_xsurv mqfix_all) s.
Proof.
  split.
  - intros c a m s' outs Hok H. unM M_xsurv. destruct (xsurv_send_shape s c a true m) as (ps & o1 & E & C). rewrite E in H. inversion H; subst.
    exists E_OK. rewrite compl_of_cons, compl_of_self, C. split; [reflexivity|]. split; [exact Hok|intros X; now elim X].
  - intros c a s' outs Hok H. unM M_xsurv. rewrite xsurv_recv_shape in H. inversion H; subst. cbn [xs_urq].
    destruct (urq_nb_recv_imm (xs_urq s) a Hok) as (rv & x & C & B & X & _). exists rv, x. auto.
Qed.
Lemma xsurv_nb_possible_at s : pm_inv (M_xsurv mqfix_all) s -> nb_send_possible_at (M_xsurv mqfix_all) s /\ nb_recv_possible_at (M_xsurv mqfix_all) s.
Proof.
  intros HI. split.
  - intros c a m _ _. unM M_xsurv. cbn [xsurv_step mqfix_all mf_nb negb]. now rewrite !andb_false_r.
  - intros c a _ H. unM M_xsurv. rewrite !xsurv_recv_shape in *. cbn [snd] in H. now rewrite (urq_recv_possible _ _ HI H).
Qed.
Lemma xsurv_nb_strict_at s : pm_inv (M_xsurv mqfix_all) s -> nb_send_eagain_queues_at (M_xsurv mqfix_all) s /\ nb_recv_eagain_queues_at (M_xsurv mqfix_all) s.
Proof.
  intros HI. split.
  - intros c a m _ H. unM M_xsurv. destruct (xsurv_send_shape s c a true m) as (ps & o1 & E & C). rewrite E in H. cbn [snd] in H.
    rewrite result_of_self in H. errs; discriminate.
  - intros c a _ H. unM M_xsurv. rewrite !xsurv_recv_shape in *. cbn [fst snd xs_urq] in *. now apply urq_recv_strict.
Qed.
Lemma xsurv_mirror_at s : pm_inv (M_xsurv mqfix_all) s ->
  (mirror_r_exact_at (M_xsurv mqfix_all) s /\ mirror_w_exact_at (M_xsurv mqfix_all) s) /\
  (mirror_r_iff_at (M_xsurv mqfix_all) s /\ mirror_w_iff_at (M_xsurv mqfix_all) s).
Proof.
  intros HI. assert (W: forall a m, rv_send (M_xsurv mqfix_all) s a m = Some E_OK).
  { intros a m. unfold rv_send. unM M_xsurv. destruct (xsurv_send_shape s None a true m) as (ps & o1 & E & C). rewrite E. apply result_of_self. }
  assert (R: forall a, rv_recv (M_xsurv mqfix_all) s a = result_of a (snd (urq_user_recv mqfix_all (xs_urq s) a true))).
  { intros a. unfold rv_recv. unM M_xsurv. now rewrite xsurv_recv_shape. }
  split; split.
  - intros a Hok. rewrite R. unM M_xsurv. cbn [xsurv_poll poll_r]. now apply urq_mirror.
  - intros a m _ _. rewrite W. unM M_xsurv. cbn [xsurv_poll poll_w]. split; auto.
  - intros a Hok. rewrite R. unM M_xsurv. cbn [xsurv_poll poll_r]. now apply urq_mirror.
  - intros a m _ _. rewrite W. unM M_xsurv. cbn [xsurv_poll poll_w]. split; [intros _; errs; discriminate|auto].
Qed.
Theorem xsurv_c15_nb_immediate : C15_nb_immediate (M_xsurv mqfix_all).
Proof. intros s _. apply xsurv_nb_immediate_at. Qed.
Theorem xsurv_c15_nb_possible : C15_nb_possible (M_xsurv mqfix_all).
Proof. intros s R. apply xsurv_nb_possible_at. now apply xsurv_c15_inv. Qed.
Theorem xsurv_c15_nb_strict : C15_nb_strict (M_xsurv mqfix_all).
Proof. intros s R. apply xsurv_nb_strict_at. now apply xsurv_c15_inv. Qed.
Theorem xsurv_c15_mirror_exact : C15_mirror_exact (M_xsurv mqfix_all).
Proof. intros s R. apply xsurv_mirror_at. now apply xsurv_c15_inv. Qed.
Theorem xsurv_c15_mirror_iff : C15_mirror_iff (M_xsurv mqfix_all).
Proof. intros s R. apply xsurv_mirror_at. now apply xsurv_c15_inv. Qed.
Theorem xsurv_c15_mirror : C15_mirror (M_xsurv mqfix_all).
Proof.
  intros s R. destruct (xsurv_c15_mirror_exact s R) as [A B]. split; [now apply mirror_r_exact_weaken|now apply mirror_w_exact_weaken].
Qed.

(* ---- raw RESPONDENT ---- *)
Definition M_xresp (fx : mq_fix) : pmodel :=
  mkPM xresp xresp_init (xresp_step fx) xresp_poll (fun s o => raw_ok (xr_urq s) o) (fun s => UInv (xr_urq s))
       (fun s => uq_readers (xr_urq s)) (fun _ => true).
Lemma xresp_inv_init fx : pm_inv (M_xresp fx) (pm_init (M_xresp fx)).
Proof. exact uinv_init. Qed.
Lemma xresp_inv_step s o : pm_inv (M_xresp mqfix_all) s -> pm_ok (M_xresp mqfix_all) s o -> o <> PSockClose ->
  pm_inv (M_xresp mqfix_all) (fst (pm_step (M_xresp mqfix_all) s o)).
Proof.
  unM M_xresp. intros HI _ _. destruct (xresp_step mqfix_all s o) as [s' outs] eqn:St. cbn [fst].
  exact (xresp_urq_inv mqfix_all s o s' outs eq_refl eq_refl HI St).
Qed.
Theorem xresp_c15_inv : C15_inv (M_xresp mqfix_all).
Proof. apply reachable_inv; [apply xresp_inv_init|exact xresp_inv_step]. Qed.

Lemma xresp_send_shape s c a nb m : exists ps o1,
  xresp_step mqfix_all s (PSend c a nb m) = (mkXresp ps (xr_urq s) (xr_uwcap s) (xr_ttl s), Complete a E_OK None :: o1) /\ compl_of a o1 = [].
Proof.
  cbn [xresp_step mqfix_all mf_nb negb]. rewrite andb_false_r. cbv iota.
  assert (S0: s = mkXresp (xr_pipes s) (xr_urq s) (xr_uwcap s) (xr_ttl s)) by (destruct s; reflexivity).
  destruct (xresp_send (pm_hdr m)) as [[id h]|]; [|exists (xr_pipes s), [Free m]; rewrite <- S0; auto].
  destruct (kget id (xr_pipes s)) as [x|]; [|exists (xr_pipes s), [Free (mkPmsg h (pm_body m))]; rewrite <- S0; auto].
  destruct (xp_closed x); [exists (xr_pipes s), [Free (mkPmsg h (pm_body m))]; rewrite <- S0; auto|].
  pose proof (compl_of_tryput a XRESP_SENDQ id x (mkPmsg h (pm_body m))) as T.
  destruct (xpipe_tryput XRESP_SENDQ id x (mkPmsg h (pm_body m))) as [x' o1]. eauto.
Qed.
Lemma xresp_recv_shape s c a nb :
  xresp_step mqfix_all s (PRecv c a nb) =
  (mkXresp (xr_pipes s) (fst (urq_user_recv mqfix_all (xr_urq s) a nb)) (xr_uwcap s) (xr_ttl s), snd (urq_user_recv mqfix_all (xr_urq s) a nb)).
Proof. cbn [xresp_step]. destruct (urq_user_recv mqfix_all (xr_urq s) a nb). reflexivity. Qed.

Lemma xresp_nb_immediate_at s : nb_send_immediate_at (M_xresp mqfix_all) s /\ nb_recv_immediate_at (M_xresp mqfix_all) s.
Proof.
  split.
  - intros c a m s' outs Hok H. unM M_xresp. destruct (xresp_send_shape s c a true m) as (ps & o1 & E & C). rewrite E in H. inversion H; subst.
    exists E_OK. rewrite compl_of_cons, compl_of_self, C. split; [reflexivity|]. split; [exact Hok|intros X; now elim X].
  - intros c a s' outs Hok H. unM M_xresp. rewrite xresp_recv_shape in H. inversion H; subst. cbn [xr_urq].
    destruct (urq_nb_recv_imm (xr_urq s) a Hok) as (rv & x & C & B & X & _). exists rv, x. auto.
Qed.
Lemma xresp_nb_possible_at s : pm_inv (M_xresp mqfix_all) s -> nb_send_possible_at (M_xresp mqfix_all) s /\ nb_recv_possible_at (M_xresp mqfix_all) s.
Proof.
  intros HI. split.
  - intros c a m _ _. unM M_xresp. cbn [xresp_step mqfix_all mf_nb negb]. now rewrite !andb_false_r.
  - intros c a _ H. unM M_xresp. rewrite !xresp_recv_shape in *. cbn [snd] in H. now rewrite (urq_recv_possible _ _ HI H).
Qed.
Lemma xresp_nb_strict_at s : pm_inv (M_xresp mqfix_all) s -> nb_send_eagain_queues_at (M_xresp mqfix_all) s /\ nb_recv_eagain_queues_at (M_xresp mqfix_all) s.
Proof.
  intros HI. split.
  - intros c a m _ H. unM M_xresp. destruct (xresp_send_shape s c a true m) as (ps & o1 & E & C). rewrite E in H. cbn [snd] in H.
    rewrite result_of_self in H. errs; discriminate.
  - intros c a _ H. unM M_xresp. rewrite !xresp_recv_shape in *. cbn [fst snd xr_urq] in *. now apply urq_recv_strict.
Qed.
Lemma xresp_mirror_at s : pm_inv (M_xresp mqfix_all) s ->
  (mirror_r_exact_at (M_xresp mqfix_all) s /\ mirror_w_exact_at (M_xresp mqfix_all) s) /\
  (mirror_r_iff_at (M_xresp mqfix_all) s /\ mirror_w_iff_at (M_xresp mqfix_all) s).
Proof.
  intros HI. assert (W: forall a m, rv_send (M_xresp mqfix_all) s a m = Some E_OK).
  { intros a m. unfold rv_send. unM M_xresp. destruct (xresp_send_shape s None a true m) as (ps & o1 & E & C). rewrite E. apply result_of_self. }
  assert (R: forall a, rv_recv (M_xresp mqfix_all) s a = result_of a (snd (urq_user_recv mqfix_all (xr_urq s) a true))).
  { intros a. unfold rv_recv. unM M_xresp. now rewrite xresp_recv_shape. }
  split; split.
  - intros a Hok. rewrite R. unM M_xresp. cbn [xresp_poll poll_r]. now apply urq_mirror.
  - intros a m _ _. rewrite W. unM M_xresp. cbn [xresp_poll poll_w]. split; auto.
  - intros a Hok. rewrite R. unM M_xresp. cbn [xresp_poll poll_r]. now apply urq_mirror.
  - intros a m _ _. rewrite W. unM M_xresp. cbn [xresp_poll poll_w]. split; [intros _; errs; discriminate|auto].
Qed.
Theorem xresp_c15_nb_immediate : C15_nb_immediate (M_xresp mqfix_all).
Proof. intros s _. apply xresp_nb_immediate_at. Qed.
Theorem xresp_c15_nb_possible : C15_nb_possible (M_xresp mqfix_all).
Proof. intros s R. apply xresp_nb_possible_at. now apply xresp_c15_inv. Qed.
Theorem xresp_c15_nb_strict : C15_nb_strict (M_xresp mqfix_all).
Proof. intros s R. apply xresp_nb_strict_at. now apply xresp_c15_inv. Qed.
Theorem xresp_c15_mirror_exact : C15_mirror_exact (M_xresp mqfix_all).
Proof. intros s R. apply xresp_mirror_at. now apply xresp_c15_inv. Qed.
Theorem xresp_c15_mirror_iff : C15_mirror_iff (M_xresp mqfix_all).
Proof. intros s R. apply xresp_mirror_at. now apply xresp_c15_inv. Qed.
Theorem xresp_c15_mirror : C15_mirror (M_xresp mqfix_all).
Proof.
  intros s R. destruct (xresp_c15_mirror_exact s R) as [A B]. split; [now apply mirror_r_exact_weaken|now apply mirror_w_exact_weaken].
Qed.

(* non-vacuity for the raw sockets: a response / survey queued raises the receive descriptor *)
Example xsurv_reachable_raised : exists s, reachable (M_xsurv mqfix_all) s /\ poll_r (pm_poll (M_xsurv mqfix_all) s) = Some true.
Proof.
  exists (prun (M_xsurv mqfix_all) xsurv_init [PPipeStart 1%N PROTO_RESPONDENT; PRecvDone 1%N 0%N (mkPmsg [] [128%N; 0%N; 0%N; 1%N; 9%N])]).
  split; [|reflexivity]. reach [PPipeStart 1%N PROTO_RESPONDENT; PRecvDone 1%N 0%N (mkPmsg [] [128%N; 0%N; 0%N; 1%N; 9%N])].
Qed.
Example xresp_reachable_raised : exists s, reachable (M_xresp mqfix_all) s /\ poll_r (pm_poll (M_xresp mqfix_all) s) = Some true.
Proof.
  exists (prun (M_xresp mqfix_all) xresp_init [PPipeStart 1%N PROTO_SURVEYOR; PRecvDone 1%N 0%N (mkPmsg [] [128%N; 0%N; 0%N; 1%N; 7%N])]).
  split; [|reflexivity]. reach [PPipeStart 1%N PROTO_SURVEYOR; PRecvDone 1%N 0%N (mkPmsg [] [128%N; 0%N; 0%N; 1%N; 7%N])].
Qed.
Example xraw_reachable_lowered : pm_poll (M_xsurv mqfix_all) xsurv_init = mkPoll (Some false) (Some true) /\
  pm_poll (M_xresp mqfix_all) xresp_init = mkPoll (Some false) (Some true).
Proof. split; reflexivity. Qed.
