(* PollProofs: the generic part of C15 -- lifting of per-state clauses to all
   reachable states, facts about completions in an output list, relations between
   the three mirror forms -- and the theorems about the models of pollable.c and of
   the NONBLOCK path of nng.c.  The per-protocol instances are in PollPipeline,
   PollPubSub, PollReqRep, PollSurvey, PollPairBus. *)
From Coq Require Import List Arith NArith Bool ZArith Lia.
From NngV Require Import Proto.Common Proto.PollModel.
Import ListNotations.

(* ------------------------------------------------------------------ completions in an output list *)
Lemma compl_of_nil a : compl_of a [] = [].
Proof. reflexivity. Qed.
Lemma compl_of_app a l1 l2 : compl_of a (l1 ++ l2) = compl_of a l1 ++ compl_of a l2.
Proof. unfold compl_of. apply flat_map_app. Qed.
Lemma compl_of_cons a o l : compl_of a (o :: l) = compl_of a [o] ++ compl_of a l.
Proof. change (o :: l) with ([o] ++ l). apply compl_of_app. Qed.
Lemma compl_of_self a rv m : compl_of a [Complete a rv m] = [(rv, m)].
Proof. unfold compl_of. cbn. now rewrite N.eqb_refl. Qed.
Lemma compl_of_other a b rv m : a <> b -> compl_of a [Complete b rv m] = [].
Proof. intros H. unfold compl_of. cbn. destruct (N.eqb_spec a b); [contradiction|reflexivity]. Qed.
Lemma compl_of_TranSend a p m : compl_of a [TranSend p m] = []. Proof. reflexivity. Qed.
Lemma compl_of_TranRecv a p : compl_of a [TranRecv p] = []. Proof. reflexivity. Qed.
Lemma compl_of_Free a m : compl_of a [Free m] = []. Proof. reflexivity. Qed.
Lemma compl_of_ClosePipe a p : compl_of a [ClosePipe p] = []. Proof. reflexivity. Qed.
Lemma compl_of_Arm a d : compl_of a [Arm d] = []. Proof. reflexivity. Qed.
Lemma compl_of_OptRv a r : compl_of a [OptRv r] = []. Proof. reflexivity. Qed.
Lemma compl_of_map_Free a l : compl_of a (map Free l) = [].
Proof. induction l; cbn; auto. Qed.
Lemma compl_of_fail_aios a rv l : ~ In a l -> compl_of a (fail_aios rv l) = [].
Proof.
  induction l as [|b l IH]; intros H; [reflexivity|]. unfold fail_aios in *. cbn [map].
  rewrite compl_of_cons, IH by (intros X; apply H; now right).
  rewrite compl_of_other; [reflexivity|]. intros ->. apply H. now left.
Qed.
(* outputs that are not completions of a contribute nothing *)
Definition not_compl_of (a : aioid) (o : pout) : Prop := match o with Complete b _ _ => a <> b | _ => True end.
Lemma compl_of_none a l : Forall (not_compl_of a) l -> compl_of a l = [].
Proof.
  induction 1 as [|o l H _ IH]; [reflexivity|]. rewrite compl_of_cons, IH, app_nil_r.
  destruct o; try reflexivity. cbn in H. now apply compl_of_other.
Qed.
Lemma result_of_self a rv m l : result_of a (Complete a rv m :: l) = Some rv.
Proof. unfold result_of. rewrite compl_of_cons, compl_of_self. reflexivity. Qed.
Lemma result_of_single a rv m : result_of a [Complete a rv m] = Some rv.
Proof. apply result_of_self. Qed.
Lemma result_of_skip a o l : compl_of a [o] = [] -> result_of a (o :: l) = result_of a l.
Proof. intros H. unfold result_of. now rewrite compl_of_cons, H. Qed.
Lemma result_of_compl a outs rv x : compl_of a outs = [(rv, x)] -> result_of a outs = Some rv.
Proof. unfold result_of. now intros ->. Qed.

(* ------------------------------------------------------------------ lifting *)
Section Lift.
  Variable M : pmodel.
  Hypothesis inv_init : pm_inv M (pm_init M).
  Hypothesis inv_step : forall s o, pm_inv M s -> pm_ok M s o -> o <> PSockClose -> pm_inv M (fst (pm_step M s o)).

  Lemma run_inv : forall ops s, pm_inv M s -> pops_ok M s ops -> pm_inv M (prun M s ops).
  Proof.
    induction ops as [|o r IH]; intros s HI Hok; cbn [prun]; [exact HI|].
    cbn [pops_ok] in Hok. destruct Hok as (Ho & Hc & Hr). apply IH; auto.
  Qed.
  Theorem reachable_inv : C15_inv M.
  Proof. intros s (ops & Hok & <-). apply run_inv; auto. Qed.
  Lemma lift_at (X : pm_st M -> Prop) : (forall s, pm_inv M s -> X s) -> forall s, reachable M s -> X s.
  Proof. intros H s R. apply H. now apply reachable_inv. Qed.
  Lemma lift_at2 (X Y : pm_st M -> Prop) :
    (forall s, pm_inv M s -> X s) -> (forall s, pm_inv M s -> Y s) -> forall s, reachable M s -> X s /\ Y s.
  Proof. intros HX HY s R. pose proof (reachable_inv s R). split; auto. Qed.
End Lift.

(* a reachable state extended by one more contract-respecting step is reachable *)
Lemma reachable_init (M : pmodel) : reachable M (pm_init M).
Proof. exists []. split; [exact I|reflexivity]. Qed.
Lemma prun_app (M : pmodel) : forall l1 l2 s, prun M s (l1 ++ l2) = prun M (prun M s l1) l2.
Proof. induction l1 as [|o r IH]; intros; cbn; auto. Qed.
Lemma pops_ok_app (M : pmodel) : forall l1 l2 s, pops_ok M s l1 -> pops_ok M (prun M s l1) l2 -> pops_ok M s (l1 ++ l2).
Proof.
  induction l1 as [|o r IH]; intros l2 s H1 H2; cbn in *; auto.
  destruct H1 as (A & B & C). repeat split; auto.
Qed.
Lemma reachable_step (M : pmodel) s o :
  reachable M s -> pm_ok M s o -> o <> PSockClose -> reachable M (fst (pm_step M s o)).
Proof.
  intros (ops & Hok & <-) Ho Hc. exists (ops ++ [o]). split.
  - apply pops_ok_app; auto. cbn. auto.
  - now rewrite prun_app.
Qed.

(* ------------------------------------------------------------------ the three forms of the mirror *)
Section Forms.
  Variable M : pmodel.
  Lemma mirror_r_exact_weaken s : mirror_r_exact_at M s -> mirror_r_at M s.
  Proof.
    intros H a Ha. specialize (H a Ha). destruct (poll_r (pm_poll M s)) as [b|]; [|exact H].
    split; [apply H|]. intros Hb E. apply H in Hb. rewrite Hb in E. discriminate.
  Qed.
  Lemma mirror_w_exact_weaken s : mirror_w_exact_at M s -> mirror_w_at M s.
  Proof.
    intros H a m Ha Hm. specialize (H a m Ha Hm). destruct (poll_w (pm_poll M s)) as [b|]; [|exact H].
    split; [apply H|]. intros Hb E. apply H in Hb. rewrite Hb in E. discriminate.
  Qed.
  Lemma mirror_r_iff_weaken s : mirror_r_iff_at M s -> mirror_r_at M s.
  Proof.
    intros H a Ha. specialize (H a Ha). destruct (poll_r (pm_poll M s)) as [b|]; [|exact H].
    split; [|apply H]. intros E. apply H. rewrite E. discriminate.
  Qed.
  Lemma mirror_w_iff_weaken s : mirror_w_iff_at M s -> mirror_w_at M s.
  Proof.
    intros H a m Ha Hm. specialize (H a m Ha Hm). destruct (poll_w (pm_poll M s)) as [b|]; [|exact H].
    split; [|apply H]. intros E. apply H. rewrite E. discriminate.
  Qed.
End Forms.

(* ================================================================== src/core/pollable.c *)
(* the invariant of the sequential model: once the descriptor exists its readability is the flag *)
Definition plb_inv (p : pollable) : Prop := match plb_fd p with None => True | Some sig => sig = plb_raised p end.

Lemma plb_step_inv p o : plb_inv p -> plb_inv (plb_step p o).
Proof.
  unfold plb_inv. destruct p as [r [sig|]]; destruct o; cbn; intros H; subst; destruct r; cbn; auto.
Qed.
Lemma plb_run_inv ops : forall p, plb_inv p -> plb_inv (plb_run p ops).
Proof. induction ops as [|o r IH]; intros p H; cbn; auto using plb_step_inv. Qed.

Lemma plb_step_raised p o : plb_raised (plb_step p o) = plb_level (plb_raised p) [o].
Proof. destruct p as [r [sig|]]; destruct o; destruct r; reflexivity. Qed.
Lemma plb_level_app cur l1 l2 : plb_level cur (l1 ++ l2) = plb_level (plb_level cur l1) l2.
Proof. revert cur. induction l1 as [|o r IH]; intros; cbn; auto. destruct o; auto. Qed.
Lemma plb_run_raised ops : forall p, plb_raised (plb_run p ops) = plb_level (plb_raised p) ops.
Proof.
  induction ops as [|o r IH]; intros p; cbn [plb_run]; [reflexivity|].
  rewrite IH, plb_step_raised. destruct o; reflexivity.
Qed.
Lemma plb_step_fd_some p o : plb_fd p <> None -> plb_fd (plb_step p o) <> None.
Proof. destruct p as [r [sig|]]; destruct o; destruct r; cbn; congruence. Qed.
Lemma plb_run_fd_some ops : forall p, plb_fd p <> None -> plb_fd (plb_run p ops) <> None.
Proof. induction ops as [|o r IH]; intros p H; cbn; auto using plb_step_fd_some. Qed.
Lemma plb_run_getfd ops : forall p, In PlGetFd ops -> plb_fd (plb_run p ops) <> None.
Proof.
  induction ops as [|o r IH]; intros p H; [destruct H|]. cbn [plb_run]. destruct H as [->|H]; [|auto].
  apply plb_run_fd_some. destruct p as [rr [sig|]]; cbn; congruence.
Qed.
Lemma plb_run_no_getfd ops : forall p, plb_fd p = None -> ~ In PlGetFd ops -> plb_fd (plb_run p ops) = None.
Proof.
  induction ops as [|o r IH]; intros p H Hn; [exact H|]. cbn [plb_run]. apply IH.
  - destruct p as [rr fd]; cbn in H; subst. destruct o; cbn; try (destruct rr; reflexivity). exfalso. apply Hn. now left.
  - intros X. apply Hn. now right.
Qed.

(* the level flag: whatever the history of raise / clear / getfd calls (none of them
   overlapping), the descriptor -- from the moment somebody has asked for it --
   polls readable exactly when the last raise/clear was a raise; before that there
   is no descriptor *)
Theorem plb_level_holds ops :
  match plb_readable (plb_run plb_init ops) with
  | Some sig => In PlGetFd ops /\ sig = plb_level false ops
  | None => ~ In PlGetFd ops
  end.
Proof.
  pose proof (plb_run_inv ops plb_init I) as HI. pose proof (plb_run_raised ops plb_init) as HR.
  unfold plb_readable, plb_inv in *. destruct (plb_fd (plb_run plb_init ops)) as [sig|] eqn:E.
  - split; [|now rewrite HI, HR].
    destruct (in_dec (fun x y : plop => ltac:(decide equality) : {x = y} + {x <> y}) PlGetFd ops) as [H|H]; [exact H|].
    rewrite (plb_run_no_getfd ops plb_init eq_refl H) in E. discriminate.
  - intros H. apply (plb_run_getfd ops plb_init) in H. contradiction.
Qed.
(* "regardless of when the descriptor is first requested": two histories with the
   same raise/clear calls, the getfd calls placed anywhere (at least one each) *)
Fixpoint plb_mutators (ops : list plop) : list plop :=
  match ops with [] => [] | PlGetFd :: r => plb_mutators r | o :: r => o :: plb_mutators r end.
Lemma plb_level_mutators cur ops : plb_level cur (plb_mutators ops) = plb_level cur ops.
Proof. revert cur. induction ops as [|o r IH]; intros; cbn; auto. destruct o; cbn; auto. Qed.
Theorem plb_level_any_time ops1 ops2 :
  plb_mutators ops1 = plb_mutators ops2 -> In PlGetFd ops1 -> In PlGetFd ops2 ->
  plb_readable (plb_run plb_init ops1) = plb_readable (plb_run plb_init ops2) /\
  plb_readable (plb_run plb_init ops1) = Some (plb_level false (plb_mutators ops1)).
Proof.
  intros E H1 H2. pose proof (plb_level_holds ops1) as A. pose proof (plb_level_holds ops2) as B.
  destruct (plb_readable (plb_run plb_init ops1)) as [s1|]; [|contradiction].
  destruct (plb_readable (plb_run plb_init ops2)) as [s2|]; [|contradiction].
  destruct A as [_ ->]. destruct B as [_ ->].
  rewrite <- (plb_level_mutators false ops1), <- (plb_level_mutators false ops2), E. auto.
Qed.

(* ---- the interleaving model: finite, so decided by exhaustion ---- *)
Definition pc_eqb (a b : plpc) : bool :=
  match a, b with
  | PcIdle, PcIdle | PcRaise1, PcRaise1 | PcRaise2, PcRaise2 | PcClear1, PcClear1 | PcClear2, PcClear2
  | PcGet1, PcGet1 | PcGet2, PcGet2 | PcGet3, PcGet3 => true
  | PcGetA x, PcGetA y | PcGetB x, PcGetB y => Bool.eqb x y
  | _, _ => false
  end.
Definition ob_eqb (a b : option bool) : bool :=
  match a, b with None, None => true | Some x, Some y => Bool.eqb x y | _, _ => false end.
Definition plc_eqb (a b : plconc) : bool :=
  Bool.eqb (plb_raised (pc_p a)) (plb_raised (pc_p b)) && ob_eqb (plb_fd (pc_p a)) (plb_fd (pc_p b)) &&
  pc_eqb (pc_mut a) (pc_mut b) && pc_eqb (pc_get a) (pc_get b).
Lemma pc_eqb_eq a b : pc_eqb a b = true -> a = b.
Proof. destruct a as [| | | | | | | |[|]|[|]], b as [| | | | | | | |[|]|[|]]; cbn; congruence. Qed.
Lemma pc_eqb_refl a : pc_eqb a a = true.
Proof. destruct a as [| | | | | | | |[|]|[|]]; reflexivity. Qed.
Lemma plc_eqb_eq a b : plc_eqb a b = true -> a = b.
Proof.
  destruct a as [[r1 f1] m1 g1], b as [[r2 f2] m2 g2]. unfold plc_eqb. cbn.
  intros H. apply andb_true_iff in H as [H Hg]. apply andb_true_iff in H as [H Hm]. apply andb_true_iff in H as [Hr Hf].
  apply Bool.eqb_prop in Hr. apply pc_eqb_eq in Hm. apply pc_eqb_eq in Hg. subst.
  destruct f1 as [x|], f2 as [y|]; cbn in Hf; try discriminate; [apply Bool.eqb_prop in Hf; subst|]; reflexivity.
Qed.
Lemma plc_eqb_refl a : plc_eqb a a = true.
Proof. destruct a as [[r [f|]] m g]; unfold plc_eqb; cbn; rewrite !pc_eqb_refl; destruct r; try destruct f; reflexivity. Qed.
Definition plc_mem (c : plconc) (l : list plconc) : bool := existsb (plc_eqb c) l.
Lemma plc_mem_in c l : plc_mem c l = true -> In c l.
Proof. unfold plc_mem. intros H. apply existsb_exists in H as (x & Hx & E). apply plc_eqb_eq in E. now subst. Qed.
Lemma plc_in_mem c l : In c l -> plc_mem c l = true.
Proof. intros H. apply existsb_exists. exists c. split; auto. apply plc_eqb_refl. Qed.

(* the states reachable under a set of allowed actions, by saturation *)
Fixpoint nodup_add (l seen : list plconc) : list plconc :=
  match l with [] => seen | c :: r => if plc_mem c seen then nodup_add r seen else nodup_add r (c :: seen) end.
Fixpoint grow (gfix : bool) (acts : list plact) (fuel : nat) (seen : list plconc) : list plconc :=
  match fuel with
  | O => seen
  | S f =>
      let next := flat_map (fun c => map (fun a => plb_astep gfix c a) acts) seen in
      let seen' := nodup_add next seen in
      if length seen' =? length seen then seen else grow gfix acts f seen'
  end.
Definition closed_under (gfix : bool) (acts : list plact) (S : list plconc) : bool :=
  forallb (fun c => forallb (fun a => plc_mem (plb_astep gfix c a) S) acts) S.

Lemma closed_step gfix acts S c a : closed_under gfix acts S = true -> In c S -> In a acts -> In (plb_astep gfix c a) S.
Proof.
  intros H Hc Ha. unfold closed_under in H. rewrite forallb_forall in H. specialize (H c Hc).
  rewrite forallb_forall in H. apply plc_mem_in. now apply H.
Qed.
Lemma closed_run gfix acts S : closed_under gfix acts S = true ->
  forall l c, In c S -> Forall (fun a => In a acts) l -> In (plb_arun gfix c l) S.
Proof.
  intros H. induction l as [|a r IH]; intros c Hc Hl; cbn; [exact Hc|].
  inversion Hl; subst. apply IH; auto. eapply closed_step; eauto.
Qed.

(* all actions; actions without a clear *)
Definition acts_all : list plact := [ActMut PlRaise; ActMut PlClear; ActMutStep; ActGet; ActGetStep].
Definition acts_noclear : list plact := [ActMut PlRaise; ActMutStep; ActGet; ActGetStep].
Definition reach_noclear : list plconc := grow false acts_noclear 64 [plc_init].
Definition reach_fixed : list plconc := grow true acts_all 64 [plc_init].

Definition quiescentb (c : plconc) : bool := pc_eqb (pc_mut c) PcIdle && pc_eqb (pc_get c) PcIdle.
Definition levelb (c : plconc) : bool :=
  match plb_fd (pc_p c) with None => true | Some sig => Bool.eqb sig (plb_raised (pc_p c)) end.

(* first getfd racing raises only: at every quiescent point the descriptor (if created) shows the flag *)
Lemma reach_noclear_closed : closed_under false acts_noclear reach_noclear = true.
Proof. vm_compute. reflexivity. Qed.
Lemma reach_noclear_init : plc_mem plc_init reach_noclear = true.
Proof. vm_compute. reflexivity. Qed.
Lemma reach_noclear_level : forallb (fun c => negb (quiescentb c) || levelb c) reach_noclear = true.
Proof. vm_compute. reflexivity. Qed.
Theorem plb_concurrent_raise_holds l :
  Forall (fun a => In a acts_noclear) l ->
  let c := plb_arun false plc_init l in
  plc_quiescent c -> match plb_fd (pc_p c) with None => True | Some sig => sig = plb_raised (pc_p c) end.
Proof.
  intros Hl c [Qm Qg].
  pose proof (closed_run _ _ _ reach_noclear_closed l plc_init (plc_mem_in _ _ reach_noclear_init) Hl) as Hin.
  pose proof reach_noclear_level as Hp.
  rewrite forallb_forall in Hp. specialize (Hp _ Hin). fold c in Hp. clear Hin.
  unfold quiescentb in Hp. rewrite Qm, Qg in Hp. cbn [pc_eqb andb negb orb] in Hp. unfold levelb in Hp.
  destruct (plb_fd (pc_p c)) as [sig|]; [|exact I]. apply Bool.eqb_prop in Hp. exact Hp.
Qed.

(* first getfd racing a clear: getfd loads p_raised (set), the clear runs to completion (swap, load of the now
   published p_fds, drain of the still empty pipe), getfd writes its token: flag down, descriptor readable --
   and it stays so, because the next clear finds the flag already down and does not drain *)
Definition plb_clear_race : list plact :=
  [ActMut PlRaise; ActMutStep; ActGet; ActGetStep; ActGetStep; ActMut PlClear; ActMutStep; ActMutStep; ActGetStep].
Theorem plb_concurrent_clear_refuted :
  exists l, Forall (fun a => In a acts_all) l /\
    let c := plb_arun false plc_init l in
    plc_quiescent c /\ plb_raised (pc_p c) = false /\ plb_fd (pc_p c) = Some true /\
    (* a further clear does not repair it *)
    plb_fd (pc_p (plb_arun false c [ActMut PlClear; ActMutStep; ActMutStep])) = Some true.
Proof.
  exists plb_clear_race. split.
  - unfold plb_clear_race, acts_all. repeat (apply Forall_cons; [cbn; tauto|]). apply Forall_nil.
  - vm_compute. repeat split; reflexivity.
Qed.
(* with the proposed repair of nni_pollable_getfd (PollModel.plb_astep true) the level holds at every quiescent
   point of every interleaving of one mutator thread (any raises and clears) with the first getfd *)
Lemma reach_fixed_closed : closed_under true acts_all reach_fixed = true.
Proof. vm_compute. reflexivity. Qed.
Lemma reach_fixed_init : plc_mem plc_init reach_fixed = true.
Proof. vm_compute. reflexivity. Qed.
Lemma reach_fixed_level : forallb (fun c => negb (quiescentb c) || levelb c) reach_fixed = true.
Proof. vm_compute. reflexivity. Qed.
Theorem plb_concurrent_holds_when_fixed l :
  Forall (fun a => In a acts_all) l ->
  let c := plb_arun true plc_init l in
  plc_quiescent c -> match plb_fd (pc_p c) with None => True | Some sig => sig = plb_raised (pc_p c) end.
Proof.
  intros Hl c [Qm Qg].
  pose proof (closed_run _ _ _ reach_fixed_closed l plc_init (plc_mem_in _ _ reach_fixed_init) Hl) as Hin.
  pose proof reach_fixed_level as Hp.
  rewrite forallb_forall in Hp. specialize (Hp _ Hin). fold c in Hp. clear Hin.
  unfold quiescentb in Hp. rewrite Qm, Qg in Hp. cbn [pc_eqb andb negb orb] in Hp. unfold levelb in Hp.
  destruct (plb_fd (pc_p c)) as [sig|]; [|exact I]. apply Bool.eqb_prop in Hp. exact Hp.
Qed.

(* the statement for either form of getfd, and its truth value as a function of the form *)
Definition plb_conc_level (gfix : bool) : Prop :=
  forall l, Forall (fun a => In a acts_all) l ->
  let c := plb_arun gfix plc_init l in
  plc_quiescent c -> match plb_fd (pc_p c) with None => True | Some sig => sig = plb_raised (pc_p c) end.
Theorem plb_conc_level_by_form (gfix : bool) : if gfix then plb_conc_level true else ~ plb_conc_level false.
Proof.
  destruct gfix; [exact plb_concurrent_holds_when_fixed|].
  intros H. destruct plb_concurrent_clear_refuted as (l & Hl & W). cbv zeta in W. destruct W as (Q & R & F & _).
  unfold plb_conc_level in H. specialize (H l Hl). cbv zeta in H. specialize (H Q). rewrite F, R in H. discriminate.
Qed.

(* without overlap (every call runs to completion before the next begins) the interleaving model is the sequential one *)
Definition seq_acts (o : plop) : list plact :=
  match o with
  | PlRaise => [ActMut PlRaise; ActMutStep; ActMutStep]
  | PlClear => [ActMut PlClear; ActMutStep; ActMutStep]
  | PlGetFd => [ActGet; ActGetStep; ActGetStep; ActGetStep]
  end.
Lemma seq_acts_step p o : plb_arun false (mkPlc p PcIdle PcIdle) (seq_acts o) = mkPlc (plb_step p o) PcIdle PcIdle.
Proof. destruct p as [r [sig|]]; destruct o; destruct r; try destruct sig; reflexivity. Qed.
Lemma plb_arun_app g c l1 l2 : plb_arun g c (l1 ++ l2) = plb_arun g (plb_arun g c l1) l2.
Proof. revert c. induction l1 as [|a r IH]; intros; cbn; auto. Qed.
Theorem plb_sequential_refines ops : forall p,
  plb_arun false (mkPlc p PcIdle PcIdle) (flat_map seq_acts ops) = mkPlc (plb_run p ops) PcIdle PcIdle.
Proof.
  induction ops as [|o r IH]; intros p; [reflexivity|]. cbn [flat_map plb_run].
  now rewrite plb_arun_app, seq_acts_step, IH.
Qed.

(* ================================================================== src/nng.c, NNG_FLAG_NONBLOCK *)
(* a NONBLOCK call never waits; it returns NNG_EAGAIN exactly when the protocol would have had to wait (or
   itself reported a timeout), otherwise what the protocol reported; after a failed nng_sendmsg the caller
   still owns the message, after a successful one it does not; nng_send frees exactly the message it made
   itself when the send fails *)
Ltac api_cases r :=
  unfold api_send, api_sendmsg, api_recvmsg, aio_outcome, api_map, E_TIMEDOUT, E_AGAIN, E_OK in *; cbn [andb];
  destruct (N.eqb_spec r 0); destruct (N.eqb_spec r 5); subst; cbn; try lia;
  repeat split; intros; try reflexivity; try congruence; try discriminate; try lia.

Theorem api_sendmsg_nonblock msg pr :
  let '(rv, kept, waited) := api_sendmsg true msg pr in
  waited = false /\ (kept = true <-> rv <> E_OK) /\
  match pr with
  | PrStart _ _ => rv = E_AGAIN /\ kept = true
  | PrDone r _ => rv = (if N.eqb r E_TIMEDOUT then E_AGAIN else r)
  end.
Proof.
  destruct pr as [r m|later m].
  - api_cases r.
  - cbn. repeat split; intros; try reflexivity; discriminate.
Qed.
Theorem api_recvmsg_nonblock pr :
  let '(rv, got, waited) := api_recvmsg true pr in
  waited = false /\ (got <> None -> rv = E_OK) /\
  match pr with
  | PrStart _ _ => rv = E_AGAIN /\ got = None
  | PrDone r m => rv = (if N.eqb r E_TIMEDOUT then E_AGAIN else r) /\ (r = E_OK -> got = m)
  end.
Proof.
  destruct pr as [r m|later m].
  - api_cases r.
  - cbn. repeat split; intros; try reflexivity; congruence.
Qed.
(* the blocking form differs from the NONBLOCK form only where the protocol has to wait *)
Theorem api_nonblock_same_when_ready msg rv m :
  api_sendmsg true msg (PrDone rv m) = (api_map true rv, negb (N.eqb rv 0), false) /\
  api_sendmsg false msg (PrDone rv m) = (rv, negb (N.eqb rv 0), false) /\
  api_recvmsg true (PrDone rv m) = (api_map true rv, (if N.eqb rv 0 then m else None), false) /\
  api_recvmsg false (PrDone rv m) = (rv, (if N.eqb rv 0 then m else None), false).
Proof. repeat split. Qed.
Theorem api_send_frees_own_copy nb body pr :
  let '(rv, freed, waited) := api_send nb body pr in
  (rv <> E_OK -> freed = [mkPmsg [] body]) /\ (rv = E_OK -> freed = []).
Proof.
  destruct pr as [r m|r m]; destruct nb.
  - api_cases r.
  - api_cases r.
  - cbn. split; intros; [reflexivity|discriminate].
  - api_cases r.
Qed.
(* composed with a protocol model: the NONBLOCK step of a model already answers E_AGAIN where nni_aio_start
   refuses, so the API result is the model's result and the call did not wait, provided the step completed the aio *)
Theorem api_over_model a outs rv x msg :
  compl_of a outs = [(rv, x)] -> rv <> E_TIMEDOUT ->
  api_sendmsg true msg (reply_of_step a outs) = (rv, negb (N.eqb rv 0), false) /\
  api_recvmsg true (reply_of_step a outs) = (rv, (if N.eqb rv 0 then x else None), false).
Proof.
  intros H Hr. unfold reply_of_step. rewrite H. cbn. unfold api_map.
  destruct (N.eqb_spec rv E_TIMEDOUT); [contradiction|]. cbn. auto.
Qed.
