(* XsubModel: src/sp/protocol/pubsub0/xsub.c (raw SUB): no filtering, everything
   goes through the socket's upper read queue (nni_msgq urq), which is used at the
   level of its specification -- a bounded FIFO plus waiting readers -- with the
   faithful entry-point behaviour of src/core/msgqueue.c: nni_msgq_aio_get calls
   nni_aio_start before looking at the queue, tryput, close, the resize drop rule
   (oldest first beyond cap+1), the pollable updated only by run_notify.
   Definitions only.

   [mq_fixed] = nni_msgq_aio_get calls nni_aio_start only when the operation would
   have to wait (another reader is ahead, or nothing is queued); the pinned tree
   called it first (DESIGN 8 / C15, every msgq-based raw socket).
   [rs_fixed] = nni_msgq_resize re-runs the queues and run_notify before unlocking
   (the pinned tree did not).  Both detected by tools/gen_consts_d/c05_pubsub.py. *)
From Coq Require Import List Arith NArith Bool.
From NngV Require Import Proto.Common Proto.SubModel.
Import ListNotations.

Definition XSUB_DEFAULT_RECVBUF : nat := 1.    (* socket.c: nni_msgq_init(&s->s_urq, 1) *)

Record xsub := mkXsub {
  xs_q : list pmsg; xs_cap : nat;
  xs_rq : list aioid;            (* mq_aio_getq *)
  xs_closed : bool;
  xs_recvable : bool }.          (* mq_recvable as last set by run_notify *)

Definition xsub_init : xsub := mkXsub [] XSUB_DEFAULT_RECVBUF [] false false.

(* nni_msgq_run_notify (the put queue of urq is never used by xsub) *)
Definition run_notify (s : xsub) : xsub :=
  mkXsub (xs_q s) (xs_cap s) (xs_rq s) (xs_closed s) (negb (match xs_q s with [] => true | _ => false end)).

(* nni_msgq_run_getq *)
Fixpoint run_getq (q : list pmsg) (rq : list aioid) : list pmsg * list aioid * list pout :=
  match q, rq with
  | m :: q', a :: rq' => let '(q2, rq2, o) := run_getq q' rq' in (q2, rq2, Complete a E_OK (Some m) :: o)
  | _, _ => (q, rq, [])
  end.

Definition xsub_step (mq_fixed rs_fixed : bool) (s : xsub) (o : pop) : xsub * list pout :=
  match o with
  | PPipeStart p peer =>
      if negb (N.eqb peer PROTO_PUB) then (s, [Reject E_PROTO]) else (s, [TranRecv p])
  | PPipeClose _ | PSendDone _ _ | PTick _ | PCtxClose _ => (s, [])
  | PCtxOpen _ => (s, [OptRv E_NOTSUP])
  | PRecvDone p rv m =>
      if negb (N.eqb rv 0) then (s, [ClosePipe p])
      else if xs_closed s then (s, [Free m; TranRecv p])                      (* tryput: NNG_ECLOSED *)
      else match xs_rq s with
           | a :: rest =>
               (run_notify (mkXsub (xs_q s) (xs_cap s) rest false (xs_recvable s)), [Complete a E_OK (Some m); TranRecv p])
           | [] =>
               if length (xs_q s) <? xs_cap s
               then (run_notify (mkXsub (xs_q s ++ [m]) (xs_cap s) [] false (xs_recvable s)), [TranRecv p])
               else (s, [Free m; TranRecv p])                                  (* tryput: NNG_EAGAIN, discarded *)
           end
  | PRecv _ a nb =>
      if nb && (negb mq_fixed || negb (match xs_rq s with [] => true | _ => false end)
                              || match xs_q s with [] => true | _ => false end)
      then (s, [Complete a E_AGAIN None])                                      (* nni_aio_start refuses *)
      else
        let '(q2, rq2, outs) := run_getq (xs_q s) (xs_rq s ++ [a]) in
        (run_notify (mkXsub q2 (xs_cap s) rq2 (xs_closed s) (xs_recvable s)), outs)
  | PSend _ a _ _ => (s, [Complete a E_NOTSUP None])
  | PCancel a rv =>
      if has_id a (xs_rq s)
      then (run_notify (mkXsub (xs_q s) (xs_cap s) (remove_id a (xs_rq s)) (xs_closed s) (xs_recvable s)), [Complete a rv None])
      else (s, [])
  | PSetOpt None (ORecvBuf n) =>
      (* sock_set_recvbuf -> nni_msgq_resize: the oldest go first while len > cap + 1 *)
      if (8192 <? N.of_nat n)%N then (s, [OptRv E_INVAL])
      else
        let excess := length (xs_q s) - (n + 1) in
        if rs_fixed then
          let '(q2, rq2, outs) := run_getq (skipn excess (xs_q s)) (xs_rq s) in
          (run_notify (mkXsub q2 n rq2 (xs_closed s) (xs_recvable s)),
           map Free (firstn excess (xs_q s)) ++ outs ++ [OptRv E_OK])
        else
          (mkXsub (skipn excess (xs_q s)) n (xs_rq s) (xs_closed s) (xs_recvable s),
           map Free (firstn excess (xs_q s)) ++ [OptRv E_OK])
  | PSetOpt None (OSendBuf n) =>
      if (8192 <? N.of_nat n)%N then (s, [OptRv E_INVAL]) else (s, [OptRv E_OK])
  | PSetOpt _ _ => (s, [OptRv E_NOTSUP])
  | PSockClose =>
      (* nni_msgq_close *)
      (mkXsub [] (xs_cap s) [] true (xs_recvable s), map Free (xs_q s) ++ fail_aios E_CLOSED (xs_rq s))
  end.

(* nng_socket_get_recv_poll_fd goes through nni_msgq_get_recvable, which runs
   run_notify before handing out the pollable: what a poll shows is the current
   predicate, not the stored flag *)
Definition xsub_poll (s : xsub) : ppoll := mkPoll (Some (xs_recvable (run_notify s))) None.
