(* Pair1Model: src/sp/protocol/pair1/pair.c (non-polyamorous) = the K1 instances of
   PairModel (cooked: s->raw = false, raw: s->raw = true), with the source-dependent
   switch read from the current tree (Gen/Consts.v).  Definitions only. *)
From Coq Require Import List NArith Bool.
From NngV Require Import Gen.Consts Proto.Common Proto.PairModel Proto.PairGuard.

Definition pair1_init : pair := pair_init.
Definition pair1_step : pair -> pop -> pair * list pout := pair_step_g (K1 false) C08_PAIR1_STOP_WRITABLE_FIXED C08_PAIR1_RESIZE_ADMITS_FIXED C08_PAIR1_STALE_FIXED.
Definition pair1_raw_step : pair -> pop -> pair * list pout := pair_step_g (K1 true) C08_PAIR1_STOP_WRITABLE_FIXED C08_PAIR1_RESIZE_ADMITS_FIXED C08_PAIR1_STALE_FIXED.
Definition pair1_poll : pair -> ppoll := pair_poll.
