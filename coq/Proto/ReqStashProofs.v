(* ReqStashProofs: REQ (cooked) -- a stashed reply survives the loss of its
   connection (C12, the no-retry case), over ALL reachable states.

   ReqProofs.req_stashed_reply_survives_repaired_w shows one history.  Here:
   with the repaired req0_recv_cb (fx_stash = true) every reachable state obeys

     stash_inv:  a context that holds a reply holds no request;
                 every context on some pipe's `contexts` list holds a request;
                 every context on the send queue holds a request.

   Hence a context holding a stashed reply is on no pipe's list and not on the
   send queue; req0_pipe_close walks only the lost pipe's list and
   req0_run_send_queue only the send queue, so neither touches that context: the
   reply, conn_reset and recv_aio are exactly what they were, and the next
   receive delivers the reply.  No assumption on the resend time is needed (the
   statement covers resending disabled, where the pinned code threw the reply
   away and reported NNG_ECONNRESET). *)
From Coq Require Import List Arith NArith Bool ZArith Lia.
From NngV Require Import Proto.Common Proto.ReqRepBacktrace Proto.ReqModel Proto.ReqRepProofs Proto.ReqProofs Proto.ReqIdsProofs.
Import ListNotations.

Ltac svs := cbn [rq_ctxs rq_retry rq_tick rq_closed rq_active rq_tickdl rq_ready rq_busy rq_pclosed rq_plist rq_sendq
                 rq_retryq rq_ids rq_cursor rq_sending rq_readable rq_writable rq_now rq_ttl
                 set_ctxs set_retry set_tick set_closed set_timer set_pipes set_plist set_sendq set_retryq set_ids
                 set_sending set_readable set_writable set_now set_ttl ctx_put].
Ltac svsin H := cbn [rq_ctxs rq_retry rq_tick rq_closed rq_active rq_tickdl rq_ready rq_busy rq_pclosed rq_plist rq_sendq
                 rq_retryq rq_ids rq_cursor rq_sending rq_readable rq_writable rq_now rq_ttl
                 set_ctxs set_retry set_tick set_closed set_timer set_pipes set_plist set_sendq set_retryq set_ids
                 set_sending set_readable set_writable set_now set_ttl ctx_put] in H.
Ltac cxs := cbn [cx_rid cx_recv cx_send cx_req cx_rep cx_retry cx_sretry cx_rtime cx_creset cx_owned].

(* ------------------------------------------------------------------ *)
(* the invariant                                                         *)
Definition has_req (s : req) (k : N) : Prop := exists c m, ctx_get s k = Some c /\ cx_req c = Some m.
Definition rep_excl (c : rctx) : Prop := cx_rep c <> None -> cx_req c = None.

Record stash_inv (s : req) : Prop := mkStash {
  st_rep : forall k c, ctx_get s k = Some c -> rep_excl c;
  st_plist : forall p k, In (p, k) (rq_plist s) -> has_req s k;
  st_sendq : forall k, In k (rq_sendq s) -> has_req s k }.

(* context k is on no pipe's list and not on the send queue *)
Definition off (s : req) (k : N) : Prop := ~ In k (rq_sendq s) /\ (forall p, ~ In (p, k) (rq_plist s)).

Lemma in_plist_del p k' k l : In (p, k') (plist_del k l) <-> In (p, k') l /\ k' <> k.
Proof.
  unfold plist_del. rewrite filter_In. cbn [snd]. split; intros [H1 H2]; (split; [exact H1|]).
  - destruct (N.eqb_spec k' k); [discriminate|assumption].
  - destruct (N.eqb_spec k' k); [contradiction|reflexivity].
Qed.

Lemma ctx_get_ext s s' : rq_ctxs s' = rq_ctxs s -> forall k, ctx_get s' k = ctx_get s k.
Proof. intros E k. unfold ctx_get. now rewrite E. Qed.

Lemma has_req_ext s s' k : rq_ctxs s' = rq_ctxs s -> has_req s k -> has_req s' k.
Proof. intros E [c [m [H1 H2]]]. exists c, m. rewrite (ctx_get_ext _ _ E). auto. Qed.

Lemma off_ext s s' k : rq_sendq s' = rq_sendq s -> rq_plist s' = rq_plist s -> off s k -> off s' k.
Proof. unfold off. intros -> ->. auto. Qed.

(* a context without a request is off the lists *)
Lemma inv_off s k c : stash_inv s -> ctx_get s k = Some c -> cx_req c = None -> off s k.
Proof.
  intros I P RN. split.
  - intros Hin. destruct (st_sendq s I k Hin) as [c' [m [H1 H2]]]. rewrite P in H1. inversion H1; subst. congruence.
  - intros p Hin. destruct (st_plist s I p k Hin) as [c' [m [H1 H2]]]. rewrite P in H1. inversion H1; subst. congruence.
Qed.

Lemma inv_off_none s k : stash_inv s -> ctx_get s k = None -> off s k.
Proof.
  intros I P. split.
  - intros Hin. destruct (st_sendq s I k Hin) as [c' [m [H1 H2]]]. congruence.
  - intros p Hin. destruct (st_plist s I p k Hin) as [c' [m [H1 H2]]]. congruence.
Qed.

(* same contexts; the lists shrink, or gain contexts that hold a request *)
Lemma stash_lists s s' :
  stash_inv s -> rq_ctxs s' = rq_ctxs s ->
  (forall p k, In (p, k) (rq_plist s') -> In (p, k) (rq_plist s) \/ has_req s k) ->
  (forall k, In k (rq_sendq s') -> In k (rq_sendq s) \/ has_req s k) ->
  stash_inv s'.
Proof.
  intros I E HP HQ. constructor.
  - intros k c H. rewrite (ctx_get_ext _ _ E) in H. eapply st_rep; eauto.
  - intros p k Hin. apply (has_req_ext s s' k E). destruct (HP p k Hin) as [H|H]; [eapply st_plist; eauto|exact H].
  - intros k Hin. apply (has_req_ext s s' k E). destruct (HQ k Hin) as [H|H]; [eapply st_sendq; eauto|exact H].
Qed.

(* only fields other than contexts / plist / sendq differ *)
Lemma stash_view s s' :
  stash_inv s -> rq_ctxs s' = rq_ctxs s -> rq_plist s' = rq_plist s -> rq_sendq s' = rq_sendq s -> stash_inv s'.
Proof. intros I E1 E2 E3. apply (stash_lists s s' I E1); intros; left; congruence. Qed.

(* context k is written *)
Lemma stash_put t s' k c' :
  stash_inv t -> rq_ctxs s' = assoc_set k c' (rq_ctxs t) -> rq_plist s' = rq_plist t -> rq_sendq s' = rq_sendq t ->
  rep_excl c' -> (cx_req c' = None -> off t k) -> stash_inv s'.
Proof.
  intros I E1 E2 E3 RX OFF.
  assert (G1 : ctx_get s' k = Some c') by (unfold ctx_get; rewrite E1; apply lookup_assoc_set_same).
  assert (G2 : forall k', k' <> k -> ctx_get s' k' = ctx_get t k')
    by (intros k' Hne; unfold ctx_get; rewrite E1; now apply lookup_assoc_set_other).
  assert (HR : forall k', has_req t k' -> (k' = k -> off t k -> False) -> has_req s' k').
  { intros k' [c [m [H1 H2]]] Hk. destruct (N.eq_dec k' k) as [->|Hne].
    - destruct (cx_req c') as [m'|] eqn:Er; [exists c', m'; auto|]. exfalso. apply Hk; auto.
    - exists c, m. rewrite G2 by exact Hne. auto. }
  constructor.
  - intros k0 c0 H. destruct (N.eq_dec k0 k) as [->|Hne].
    + rewrite G1 in H. inversion H; subst. exact RX.
    + rewrite G2 in H by exact Hne. eapply st_rep; eauto.
  - intros p k0 Hin. rewrite E2 in Hin. apply HR; [eapply st_plist; eauto|].
    intros -> [_ O]. exact (O p Hin).
  - intros k0 Hin. rewrite E3 in Hin. apply HR; [eapply st_sendq; eauto|].
    intros -> [O _]. exact (O Hin).
Qed.

(* context k is written, keeping its request and keeping or dropping its reply *)
Lemma stash_put_same s s' k c c' :
  stash_inv s -> ctx_get s k = Some c ->
  rq_ctxs s' = assoc_set k c' (rq_ctxs s) -> rq_plist s' = rq_plist s -> rq_sendq s' = rq_sendq s ->
  cx_req c' = cx_req c -> (cx_rep c' = cx_rep c \/ cx_rep c' = None) -> stash_inv s'.
Proof.
  intros I P E1 E2 E3 Q1 Q2. apply (stash_put s s' k c' I E1 E2 E3).
  - intros Hr. rewrite Q1. apply (st_rep s I k c P). destruct Q2 as [Q2|Q2]; congruence.
  - intros Hn. apply (inv_off s k c I P). congruence.
Qed.

(* context k is written with a request and goes to the tail of the send queue *)
Lemma stash_put_enq t s' k c3 m :
  stash_inv t -> rq_ctxs s' = assoc_set k c3 (rq_ctxs t) -> rq_plist s' = rq_plist t -> rq_sendq s' = rq_sendq t ++ [k] ->
  rep_excl c3 -> cx_req c3 = Some m -> stash_inv s'.
Proof.
  intros I E1 E2 E3 RX RQ.
  assert (I1 : stash_inv (ctx_put t k c3)).
  { apply (stash_put t (ctx_put t k c3) k c3 I); try reflexivity; [exact RX|]. intros Hn. congruence. }
  apply (stash_lists (ctx_put t k c3) s' I1).
  - exact E1.
  - intros p k0 Hin. left. rewrite E2 in Hin. exact Hin.
  - intros k0 Hin. rewrite E3 in Hin. apply in_app_or in Hin. destruct Hin as [Hin|[<-|[]]]; [left; exact Hin|].
    right. exists c3, m. rewrite ctx_get_put_same. auto.
Qed.

(* context k is removed *)
Lemma stash_del s k : stash_inv s -> off s k -> stash_inv (set_ctxs s (assoc_del k (rq_ctxs s))).
Proof.
  intros I [O1 O2].
  assert (G : forall k', k' <> k -> ctx_get (set_ctxs s (assoc_del k (rq_ctxs s))) k' = ctx_get s k').
  { intros k' Hne. unfold ctx_get. svs. now apply lookup_assoc_del_other. }
  constructor.
  - intros k0 c0 H. unfold ctx_get in H. svsin H. apply lookup_assoc_del_some in H. destruct H as [_ H].
    eapply st_rep; eauto.
  - intros p k0 Hin. svsin Hin. destruct (st_plist s I p k0 Hin) as [c [m [H1 H2]]].
    exists c, m. rewrite G; [auto|]. intros ->. exact (O2 p Hin).
  - intros k0 Hin. svsin Hin. destruct (st_sendq s I k0 Hin) as [c [m [H1 H2]]].
    exists c, m. rewrite G; [auto|]. intros ->. exact (O1 Hin).
Qed.

(* a new context is added *)
Lemma stash_open s k c : stash_inv s -> ctx_get s k = None -> rep_excl c ->
  stash_inv (set_ctxs s (rq_ctxs s ++ [(k, c)])).
Proof.
  intros I P RX.
  assert (G : forall k' c', ctx_get s k' = Some c' -> ctx_get (set_ctxs s (rq_ctxs s ++ [(k, c)])) k' = Some c').
  { intros k' c' H. unfold ctx_get in *. svs. now apply lookup_app_some. }
  assert (HR : forall k', has_req s k' -> has_req (set_ctxs s (rq_ctxs s ++ [(k, c)])) k').
  { intros k' [c' [m [H1 H2]]]. exists c', m. split; [now apply G|exact H2]. }
  constructor.
  - intros k0 c0 H. unfold ctx_get in H. svsin H.
    destruct (lookup k0 (rq_ctxs s)) as [c1|] eqn:L0.
    + erewrite lookup_app_some in H by exact L0. inversion H; subst c1. eapply st_rep; eauto.
    + rewrite lookup_app_none in H by exact L0. cbn in H.
      destruct (k =? k0)%N; [|discriminate]. inversion H; subst c0. exact RX.
  - intros p k0 Hin. svsin Hin. apply HR. eapply st_plist; eauto.
  - intros k0 Hin. svsin Hin. apply HR. eapply st_sendq; eauto.
Qed.

(* ------------------------------------------------------------------ *)
(* req0_ctx_reset: k leaves both lists                                   *)
Lemma ctx_reset_lists fx s k c s2 c2 o :
  ctx_reset fx s k c = (s2, c2, o) ->
  rq_ctxs s2 = rq_ctxs s /\ rq_sendq s2 = remove_id k (rq_sendq s) /\ rq_plist s2 = plist_del k (rq_plist s) /\
  cx_req c2 = None /\ cx_rep c2 = None /\ cx_recv c2 = cx_recv c /\ cx_creset c2 = false.
Proof.
  unfold ctx_reset. intros H. inversion H; subst; clear H.
  destruct (cx_rid c =? 0)%N, (fx_rdclr fx && (k =? 0)%N && match cx_rep c with Some _ => true | None => false end);
    repeat (split; [reflexivity|]); reflexivity.
Qed.

Lemma off_after_reset s2 s k :
  rq_sendq s2 = remove_id k (rq_sendq s) -> rq_plist s2 = plist_del k (rq_plist s) -> off s2 k.
Proof.
  intros E1 E2. split.
  - rewrite E1. intros Hin. apply in_remove_id in Hin. destruct Hin as [_ Hne]. now apply Hne.
  - intros p. rewrite E2. intros Hin. apply in_plist_del in Hin. destruct Hin as [_ Hne]. now apply Hne.
Qed.

Lemma reset_stash fx s k c s2 c2 o :
  stash_inv s -> ctx_reset fx s k c = (s2, c2, o) ->
  stash_inv s2 /\ off s2 k /\ cx_req c2 = None /\ cx_rep c2 = None.
Proof.
  intros I H. apply ctx_reset_lists in H. destruct H as [F1 [F2 [F3 [F4 [F5 _]]]]].
  split; [|split; [eapply off_after_reset; eauto|auto]].
  apply (stash_lists s s2 I F1).
  - intros p k0 Hin. left. rewrite F3 in Hin. apply in_plist_del in Hin. tauto.
  - intros k0 Hin. left. rewrite F2 in Hin. apply in_remove_id in Hin. tauto.
Qed.

Lemma rep_excl_none c : cx_rep c = None -> rep_excl c.
Proof. intros E H. congruence. Qed.

(* reset, then write the reset context back (possibly with other flags) *)
Lemma reset_put_stash fx s k c s2 c2 o s' c3 :
  stash_inv s -> ctx_reset fx s k c = (s2, c2, o) ->
  rq_ctxs s' = assoc_set k c3 (rq_ctxs s2) -> rq_plist s' = rq_plist s2 -> rq_sendq s' = rq_sendq s2 ->
  cx_rep c3 = cx_rep c2 -> stash_inv s'.
Proof.
  intros I H E1 E2 E3 Q. destruct (reset_stash _ _ _ _ _ _ _ I H) as [I2 [O [RN PN]]].
  apply (stash_put s2 s' k c3 I2 E1 E2 E3); [apply rep_excl_none; congruence|intros _; exact O].
Qed.

(* ------------------------------------------------------------------ *)
(* req0_run_send_queue                                                   *)
Lemma run_sendq_stash fx f : forall s s' outs cl, stash_inv s -> run_sendq fx f s = (s', outs, cl) -> stash_inv s'.
Proof.
  induction f as [|f IH]; intros s s' outs cl I H; cbn [run_sendq] in H.
  { inversion H; subst. exact I. }
  destruct (rq_sendq s) as [|k sq] eqn:Esq. { inversion H; subst. exact I. }
  destruct (rq_ready s) as [|p rd] eqn:Erd. { inversion H; subst. exact I. }
  assert (Iskip : stash_inv (set_sendq s sq)).
  { apply (stash_lists s _ I); [reflexivity|intros; left; assumption|].
    intros k0 Hin. left. svsin Hin. rewrite Esq. now right. }
  destruct (ctx_get s k) as [c|] eqn:Ec; [|eapply IH; eauto].
  destruct (cx_req c) as [m|] eqn:Em; [|eapply IH; eauto].
  clear Iskip. cbv zeta in H.
  match type of H with context [run_sendq fx f ?X] =>
    assert (I6 : stash_inv X); [|destruct (run_sendq fx f X) as [[s7 o7] c7] eqn:E7] end.
  2:{ inversion H; subst. eapply IH; eauto. }
  assert (I3 : stash_inv (set_plist (set_sendq s sq) (plist_del k (rq_plist s) ++ [(p, k)]))).
  { apply (stash_lists s _ I); [reflexivity| |].
    - intros p0 k0 Hin. svsin Hin. apply in_app_or in Hin. destruct Hin as [Hin|[E|[]]].
      + left. apply in_plist_del in Hin. tauto.
      + inversion E; subst. right. exists c, m. auto.
    - intros k0 Hin. left. svsin Hin. rewrite Esq. now right. }
  match goal with |- stash_inv (set_sending (ctx_put _ k ?C) _) =>
    apply (stash_put (set_plist (set_sendq s sq) (plist_del k (rq_plist s) ++ [(p, k)])) _ k C I3) end.
  - destruct (retry_on fx c), (is_nil rd); reflexivity.
  - destruct (retry_on fx c), (is_nil rd); reflexivity.
  - destruct (retry_on fx c), (is_nil rd); reflexivity.
  - unfold rep_excl. cxs. intros Hr. pose proof (st_rep s I k c Ec Hr). congruence.
  - cxs. intros Hn. congruence.
Qed.

Lemma run_send_queue_stash fx s s' outs cl : stash_inv s -> run_send_queue fx s = (s', outs, cl) -> stash_inv s'.
Proof. apply run_sendq_stash. Qed.

(* ------------------------------------------------------------------ *)
(* the entry points                                                      *)
Ltac put_same I P :=
  eapply (stash_put_same _ _ _ _ _ I P);
  [reflexivity|reflexivity|reflexivity|first [reflexivity|cxs; congruence]
  |first [left; reflexivity|right; reflexivity|left; cxs; congruence|right; cxs; congruence]].

Lemma sendq_shrink s k : stash_inv s -> stash_inv (set_sendq s (remove_id k (rq_sendq s))).
Proof.
  intros I. apply (stash_lists s _ I); [reflexivity|intros; left; assumption|].
  intros k0 Hin. left. svsin Hin. apply in_remove_id in Hin. tauto.
Qed.

Lemma req_ctx_recv_stash s k c a nb s' outs :
  stash_inv s -> ctx_get s k = Some c -> req_ctx_recv s k c a nb = (s', outs) -> stash_inv s'.
Proof.
  intros I P H. unfold req_ctx_recv in H.
  destruct (match cx_recv c with Some _ => true | None => false end
            || (match cx_req c with None => true | _ => false end) && (match cx_rep c with None => true | _ => false end)).
  - destruct (cx_creset c); inversion H; subst; [|exact I]. put_same I P.
  - destruct (cx_rep c) eqn:Er; [|destruct nb]; inversion H; subst.
    + destruct (k =? 0)%N; put_same I P.
    + exact I.
    + put_same I P.
Qed.

Lemma req_cancel_recv_stash fx s k c a rv s' outs :
  stash_inv s -> req_cancel_recv fx s k c a rv = (s', outs) -> stash_inv s'.
Proof.
  intros I H. unfold req_cancel_recv in H.
  destruct (cx_send c) as [sa|];
  match type of H with context [ctx_reset fx ?S k ?C] => destruct (ctx_reset fx S k C) as [[s2 c2] o2] eqn:ER end;
  inversion H; subst.
  - eapply reset_put_stash; [apply (sendq_shrink s k I)|exact ER|reflexivity..].
  - eapply reset_put_stash; [exact I|exact ER|reflexivity..].
Qed.

Lemma req_cancel_send_stash fx s k c a rv s' outs :
  stash_inv s -> req_cancel_send fx s k c a rv = (s', outs) -> stash_inv s'.
Proof.
  intros I H. unfold req_cancel_send in H.
  destruct (fx_cancel fx);
  match type of H with context [ctx_reset fx ?S k ?C] => destruct (ctx_reset fx S k C) as [[s2 c2] o2] eqn:ER end;
  inversion H; subst; (eapply reset_put_stash; [exact I|exact ER|reflexivity..]).
Qed.

Lemma req_ctx_fini_stash fx s k c s2 c2 outs :
  stash_inv s -> req_ctx_fini fx s k c = (s2, c2, outs) ->
  stash_inv s2 /\ off s2 k /\ cx_req c2 = None /\ cx_rep c2 = None.
Proof.
  intros I H. unfold req_ctx_fini in H.
  destruct (cx_send c) as [sa|];
  match type of H with context [ctx_reset fx ?S k ?C] => destruct (ctx_reset fx S k C) as [[s2' c2'] o2] eqn:ER end;
  inversion H; subst; eapply reset_stash; eauto.
Qed.

(* ---- req0_pipe_close ---- *)
Lemma pcl_body_stash fx s0 k c s1 o1 cl1 :
  stash_inv s0 -> ctx_get s0 k = Some c -> pcl_body fx s0 k c = (s1, o1, cl1) -> stash_inv s1.
Proof.
  intros I P H. unfold pcl_body in H. destruct (negb (retry_on fx c)).
  - destruct (cx_recv c) as [ra|];
    match type of H with context [ctx_reset fx ?S k ?C] => destruct (ctx_reset fx S k C) as [[s2 c2] o2] eqn:ER end;
    inversion H; subst; (eapply reset_put_stash; [exact I|exact ER|reflexivity..]).
  - destruct (cx_req c) as [r|] eqn:Er.
    2:{ inversion H; subst. exact I. }
    cbv zeta in H.
    match type of H with context [ctx_put s0 k ?C] =>
      assert (I1 : stash_inv (ctx_put s0 k C)) by (put_same I P) end.
    match type of H with context [if ?b then _ else _] => destruct b end.
    + inversion H; subst. exact I1.
    + eapply run_send_queue_stash; [|exact H].
      apply (stash_lists _ _ I1); [reflexivity|intros; left; assumption|].
      intros k0 Hin. svsin Hin. apply in_app_or in Hin. destruct Hin as [Hin|[<-|[]]]; [left; exact Hin|].
      right. eexists _, r. rewrite ctx_get_put_same. split; reflexivity.
Qed.

Lemma plist_shrink s k : stash_inv s -> stash_inv (set_plist s (plist_del k (rq_plist s))).
Proof.
  intros I. apply (stash_lists s _ I); [reflexivity| |intros; left; assumption].
  intros p k0 Hin. left. svsin Hin. apply in_plist_del in Hin. tauto.
Qed.

Lemma pcl_stash fx p : forall f s s' outs cl,
  stash_inv s -> pipe_close_loop fx f s p = (s', outs, cl) -> stash_inv s'.
Proof.
  induction f as [|f IH]; intros s s' outs cl I H.
  { cbn in H. inversion H; subst. exact I. }
  rewrite pcl_unfold in H. destruct (first_on p (rq_plist s)) as [k|].
  2:{ inversion H; subst. exact I. }
  cbv zeta in H.
  pose proof (plist_shrink s k I) as I0.
  destruct (ctx_get (set_plist s (plist_del k (rq_plist s))) k) as [c|] eqn:P.
  2:{ eapply IH; eauto. }
  destruct (pcl_body fx (set_plist s (plist_del k (rq_plist s))) k c) as [[s1 o1] cl1] eqn:EB.
  destruct (pipe_close_loop fx f s1 p) as [[s2 o2] cl2] eqn:EL.
  inversion H; subst.
  eapply IH; [|exact EL]. eapply pcl_body_stash; eauto.
Qed.

(* ---- req0_ctx_send ---- *)
Lemma req_ctx_send_stash fx s k c a nb m s' outs cl :
  stash_inv s -> req_ctx_send fx s k c a nb m = (s', outs, cl) -> stash_inv s'.
Proof.
  intros I H. unfold req_ctx_send in H.
  destruct (rq_closed s). { inversion H; subst. exact I. }
  destruct (match cx_send c with
            | Some sa => (set_sendq s (remove_id k (rq_sendq s)),
                          mkRctx (cx_rid c) None None None (cx_rep c) (cx_retry c) (cx_sretry c) (cx_rtime c) (cx_creset c) false,
                          [Complete sa E_CANCELED None])
            | None => (s, mkRctx (cx_rid c) None None (cx_req c) (cx_rep c) (cx_retry c) (cx_sretry c) (cx_rtime c) (cx_creset c) (cx_owned c), [])
            end) as [[s1 c1] o2] eqn:E2.
  assert (I1 : stash_inv s1).
  { destruct (cx_send c); inversion E2; subst; [apply sendq_shrink|]; exact I. }
  clear E2.
  destruct (ctx_reset fx s1 k c1) as [[s2 c2] o3] eqn:E3.
  destruct (reset_stash _ _ _ _ _ _ _ I1 E3) as [I2 [O2 [RN PN]]].
  assert (Ifail : stash_inv (ctx_put s2 k c2)).
  { apply (stash_put s2 _ k c2 I2); try reflexivity; [apply rep_excl_none; exact PN|intros _; exact O2]. }
  destruct (REQ_ID_MAX - REQ_ID_MIN <? N.of_nat (length (rq_ids s2)))%N. { inversion H; subst. exact Ifail. }
  destruct (id_alloc (S (length (rq_ids s2))) (rq_ids s2) (rq_cursor s2)) as [[id cur']|] eqn:EA.
  2:{ inversion H; subst. exact Ifail. }
  destruct (is_nil (rq_ready s2) && nb).
  - inversion H; subst.
    eapply (stash_put s2 _ k _ I2); [reflexivity|reflexivity|reflexivity|apply rep_excl_none; reflexivity|intros _; exact O2].
  - cbv zeta in H.
    destruct (0 <? cx_retry c2)%Z;
    match type of H with context [if ?b then (set_timer _ _ _, _) else _] => destruct b end;
    match type of H with context [run_send_queue fx ?X] => destruct (run_send_queue fx X) as [[s7 o5] cl'] eqn:E7 end;
    inversion H; subst;
    (eapply run_send_queue_stash; [|exact E7]);
    (eapply (stash_put_enq s2 _ k); [exact I2|reflexivity|reflexivity|reflexivity|apply rep_excl_none; reflexivity|reflexivity]).
Qed.

(* ---- req0_recv_cb: the repaired code takes the matched context off its pipe's list ---- *)
Lemma req_recvdone_stash_inv fx s p m s' outs cl :
  fx_stash fx = true -> stash_inv s -> req_stepL fx s (PRecvDone p 0 m) = (s', outs, cl) -> stash_inv s'.
Proof.
  intros FX I H. rewrite recvdone_cases in H. rewrite FX in H.
  destruct (req_recv (pm_body m)) as [[id m']|]. 2:{ inversion H; subst. exact I. }
  destruct (matchable_b s id) eqn:EM. 2:{ inversion H; subst. exact I. }
  apply matchable_b_true in EM. destruct EM as [k [c [H1 [H2 [H3 H4]]]]]. rewrite H1, H2 in H. cbv zeta in H.
  assert (I1 : stash_inv (set_plist (set_sendq s (remove_id k (rq_sendq s))) (plist_del k (rq_plist s)))).
  { apply plist_shrink with (s := set_sendq s (remove_id k (rq_sendq s))). now apply sendq_shrink. }
  assert (O1 : off (set_plist (set_sendq s (remove_id k (rq_sendq s))) (plist_del k (rq_plist s))) k)
    by (eapply off_after_reset; reflexivity).
  destruct (cx_recv c) as [ra|]; inversion H; subst; clear H.
  - eapply (stash_put _ _ k _ I1); [reflexivity|reflexivity|reflexivity|apply rep_excl_none; reflexivity|intros _; exact O1].
  - destruct (k =? 0)%N;
    (eapply (stash_put _ _ k _ I1); [reflexivity|reflexivity|reflexivity|intros _; reflexivity|intros _; exact O1]).
Qed.

(* ---- req0_retry_cb: only contexts holding a request are queued ---- *)
Lemma retry_scan_has s now ks : forall sq sq' b, retry_scan s now ks sq = (sq', b) ->
  forall k, In k sq' -> In k sq \/ has_req s k.
Proof.
  induction ks as [|k0 r IH]; intros sq sq' b H k Hin; cbn [retry_scan] in H.
  { inversion H; subst. now left. }
  destruct (ctx_get s k0) as [c|] eqn:Ec; [|eapply IH; eauto].
  destruct ((now <? cx_rtime c)%N || match cx_req c with None => true | _ => false end) eqn:Eb; [eapply IH; eauto|].
  destruct (retry_scan s now r (if has_id k0 sq then sq else sq ++ [k0])) as [sq1 b1] eqn:E1.
  inversion H; subst. destruct (IH _ _ _ E1 k Hin) as [G|G]; [|now right].
  destruct (has_id k0 sq); [now left|]. apply in_app_or in G. destruct G as [G|[<-|[]]]; [now left|].
  right. apply orb_false_iff in Eb. destruct Eb as [_ Eb]. destruct (cx_req c) as [m|] eqn:Er; [|discriminate].
  exists c, m. auto.
Qed.

(* ------------------------------------------------------------------ *)
(* every step                                                            *)
Ltac view_of I := apply (stash_view _ _ I); reflexivity.

Lemma stash_stepL fx s o s' outs cl :
  fx_stash fx = true -> ids_inv s -> stash_inv s -> op_ok s o -> req_stepL fx s o = (s', outs, cl) -> stash_inv s'.
Proof.
  intros FX J I OK H. destruct o; unfold req_stepL in H.
  - (* PSend *)
    destruct (ctx_get s (ckey c)) as [cx|] eqn:P; [eapply req_ctx_send_stash; eauto|].
    inversion H; subst. exact I.
  - (* PRecv *)
    destruct (ctx_get s (ckey c)) as [cx|] eqn:P.
    + destruct (req_ctx_recv s (ckey c) cx a nb) as [s1 o1] eqn:E. inversion H; subst.
      eapply req_ctx_recv_stash; eauto.
    + inversion H; subst. exact I.
  - (* PCancel *)
    destruct (find_ctx (fun c => opt_is a (cx_recv c)) (rq_ctxs s)) as [[k c]|] eqn:F1.
    + destruct (req_cancel_recv fx s k c a rv) as [s1 o1] eqn:E. inversion H; subst. eapply req_cancel_recv_stash; eauto.
    + destruct (find_ctx (fun c => opt_is a (cx_send c)) (rq_ctxs s)) as [[k c]|] eqn:F2.
      * destruct (req_cancel_send fx s k c a rv) as [s1 o1] eqn:E. inversion H; subst. eapply req_cancel_send_stash; eauto.
      * inversion H; subst. exact I.
  - (* PPipeStart *)
    destruct (negb (peer =? PROTO_REP)%N). { inversion H; subst. exact I. }
    cbv zeta in H.
    match type of H with context [run_send_queue fx ?X] => destruct (run_send_queue fx X) as [[s2 o2] cl2] eqn:E end.
    inversion H; subst. eapply run_send_queue_stash; [|exact E]. view_of I.
  - (* PPipeClose *)
    cbv zeta in H. eapply pcl_stash; [|exact H].
    match goal with |- stash_inv (if ?b then _ else _) => destruct b end; view_of I.
  - (* PSendDone *)
    cbv zeta in H.
    destruct (negb (rv =? 0)%N). { inversion H; subst. view_of I. }
    match type of H with context [if ?b then _ else _] => destruct b end.
    { inversion H; subst. view_of I. }
    eapply run_send_queue_stash; [|exact H].
    match goal with |- stash_inv (if ?b then _ else _) => destruct b end; view_of I.
  - (* PRecvDone *)
    destruct (N.eqb_spec rv 0) as [->|Hne].
    + eapply req_recvdone_stash_inv; eauto.
    + cbn [negb] in H. inversion H; subst. exact I.
  - (* PSetOpt *)
    destruct o, c;
    try (destruct (ctx_get s (ckey (Some n))) as [cx|] eqn:P);
    try (destruct (ctx_get s (ckey None)) as [cx|] eqn:P);
    repeat match type of H with context [if ?b then _ else _] => destruct b end;
    inversion H; subst;
    first [exact I | view_of I | put_same I P].
  - (* PCtxOpen *)
    inversion H; subst. apply stash_open; [exact I|exact OK|apply rep_excl_none; reflexivity].
  - (* PCtxClose *)
    destruct (ctx_get s (c + 1)%N) as [cx|] eqn:P; [|inversion H; subst; exact I].
    destruct (req_ctx_fini fx s (c + 1)%N cx) as [[s1 c1] o1] eqn:E. inversion H; subst.
    destruct (req_ctx_fini_stash _ _ _ _ _ _ _ I E) as [I1 [O1 _]]. now apply stash_del.
  - (* PSockClose *)
    cbv zeta in H.
    assert (I1 : stash_inv (set_closed s true)) by (view_of I).
    destruct (ctx_get (set_closed s true) 0%N) as [cx|] eqn:P; [|inversion H; subst; exact I1].
    destruct (req_ctx_fini fx (set_closed s true) 0%N cx) as [[s2 c2] o2] eqn:E. inversion H; subst.
    destruct (req_ctx_fini_stash _ _ _ _ _ _ _ I1 E) as [I2 [O2 [RN PN]]].
    apply (stash_put s2 _ 0%N c2 I2); try reflexivity; [apply rep_excl_none; exact PN|intros _; exact O2].
  - (* PTick *)
    cbv zeta in H.
    assert (I0 : stash_inv (set_now s now)) by (view_of I).
    destruct (rq_closed (set_now s now) || negb (rq_active (set_now s now))). { inversion H; subst. exact I0. }
    destruct (rq_tickdl (set_now s now)) as [d|]; [|inversion H; subst; exact I0].
    destruct (negb (d <? now)%N). { inversion H; subst. exact I0. }
    destruct (retry_scan (set_now s now) now (rq_retryq (set_now s now)) (rq_sendq (set_now s now))) as [sq resched] eqn:ES.
    assert (I1 : stash_inv (set_sendq (set_now s now) sq)).
    { apply (stash_lists _ _ I0); [reflexivity|intros; left; assumption|].
      intros k Hin. svsin Hin. exact (retry_scan_has _ _ _ _ _ _ ES k Hin). }
    match type of H with context [if is_nil ?l then _ else _] => destruct (is_nil l) end;
    destruct resched;
    try (match type of H with context [run_send_queue fx ?X] => destruct (run_send_queue fx X) as [[s3 o3] cl3] eqn:E end);
    inversion H; subst;
    try (eapply run_send_queue_stash; [|exact E]); view_of I1.
Qed.

Lemma stash_step fx s o s' outs :
  fx_stash fx = true -> ids_inv s -> stash_inv s -> op_ok s o -> req_step fx s o = (s', outs) -> stash_inv s'.
Proof.
  intros FX J I OK H. unfold req_step in H. destruct (req_stepL fx s o) as [[s1 o1] cl] eqn:E.
  inversion H; subst. eapply stash_stepL; eauto.
Qed.

Lemma stash_inv_init : stash_inv req_init.
Proof.
  constructor.
  - intros k c H. unfold ctx_get in H. destruct k; cbn in H; [|discriminate].
    inversion H; subst. apply rep_excl_none. reflexivity.
  - intros p k [].
  - intros k [].
Qed.

Lemma reach_stash fx s : fx_stash fx = true -> req_reach fx s -> stash_inv s.
Proof.
  intros FX R. induction R as [|s o R IH OK]; [apply stash_inv_init|].
  destruct (req_step fx s o) as [s' outs] eqn:E. cbn [fst].
  eapply stash_step; eauto. now apply (reach_inv fx).
Qed.

(* ------------------------------------------------------------------ *)
(* frame: a context that is on no pipe's list and not on the send queue is not
   touched by req0_run_send_queue nor by req0_pipe_close, and stays off both *)
Lemma run_sendq_frame fx k f : forall s s' outs cl, off s k -> run_sendq fx f s = (s', outs, cl) ->
  off s' k /\ ctx_get s' k = ctx_get s k.
Proof.
  induction f as [|f IH]; intros s s' outs cl O H; cbn [run_sendq] in H.
  { inversion H; subst. auto. }
  destruct (rq_sendq s) as [|k0 sq] eqn:Esq. { inversion H; subst. auto. }
  destruct (rq_ready s) as [|p rd] eqn:Erd. { inversion H; subst. auto. }
  destruct O as [O1 O2].
  assert (Hne : k0 <> k). { intros ->. apply O1. rewrite Esq. now left. }
  assert (Oskip : off (set_sendq s sq) k).
  { split; [|exact O2]. svs. intros Hin. apply O1. rewrite Esq. now right. }
  assert (Hskip : run_sendq fx f (set_sendq s sq) = (s', outs, cl) -> off s' k /\ ctx_get s' k = ctx_get s k).
  { intros H'. destruct (IH _ _ _ _ Oskip H') as [A B]. split; [exact A|]. rewrite B. reflexivity. }
  destruct (ctx_get s k0) as [c|] eqn:Ec; [|auto].
  destruct (cx_req c) as [m|] eqn:Em; [|auto].
  clear Hskip. cbv zeta in H.
  match type of H with context [run_sendq fx f ?X] =>
    assert (O6 : off X k /\ ctx_get X k = ctx_get s k); [|destruct (run_sendq fx f X) as [[s7 o7] c7] eqn:E7] end.
  2:{ inversion H; subst. destruct O6 as [O6 G6]. destruct (IH _ _ _ _ O6 E7) as [A B]. split; [exact A|congruence]. }
  destruct (retry_on fx c), (is_nil rd);
  (split;
   [split;
    [svs; intros Hin; apply O1; rewrite Esq; now right
    |intros p0; svs; intros Hin; apply in_app_or in Hin; destruct Hin as [Hin|[E|[]]];
     [apply in_plist_del in Hin; exact (O2 p0 (proj1 Hin))|injection E as _ E'; exact (Hne E')]]
   |unfold ctx_get; svs; apply lookup_assoc_set_other; intros E; apply Hne; now symmetry]).
Qed.

Lemma pcl_body_frame fx s0 k0 c k s1 o1 cl1 :
  k0 <> k -> off s0 k -> pcl_body fx s0 k0 c = (s1, o1, cl1) -> off s1 k /\ ctx_get s1 k = ctx_get s0 k.
Proof.
  intros Hne [O1 O2] H. assert (Hne' : k <> k0) by (intros E; apply Hne; now symmetry).
  unfold pcl_body in H. destruct (negb (retry_on fx c)).
  - destruct (cx_recv c) as [ra|];
    match type of H with context [ctx_reset fx ?S k0 ?C] => destruct (ctx_reset fx S k0 C) as [[s2 c2] o2] eqn:ER end;
    inversion H; subst; apply ctx_reset_lists in ER; destruct ER as [F1 [F2 [F3 _]]];
    (split;
     [split;
      [svs; rewrite F2; intros Hin; apply in_remove_id in Hin; exact (O1 (proj1 Hin))
      |intros p0; svs; rewrite F3; intros Hin; apply in_plist_del in Hin; exact (O2 p0 (proj1 Hin))]
     |rewrite ctx_get_put_other by exact Hne'; apply ctx_get_ext; exact F1]).
  - destruct (cx_req c) as [r|] eqn:Er.
    2:{ inversion H; subst. split; [split; assumption|reflexivity]. }
    cbv zeta in H.
    match type of H with context [if ?b then _ else _] => destruct b end.
    + inversion H; subst. split; [split; [exact O1|exact O2]|]. now apply ctx_get_put_other.
    + unfold run_send_queue in H.
      match type of H with run_sendq fx _ ?X = _ => assert (OX : off X k /\ ctx_get X k = ctx_get s0 k) end.
      { split; [split|].
        - svs. intros Hin. apply in_app_or in Hin. destruct Hin as [Hin|[E|[]]]; [exact (O1 Hin)|exact (Hne E)].
        - intros p0. svs. exact (O2 p0).
        - unfold ctx_get. svs. now apply lookup_assoc_set_other. }
      destruct OX as [OX GX]. destruct (run_sendq_frame _ _ _ _ _ _ _ OX H) as [A B]. split; [exact A|congruence].
Qed.

Lemma first_on_in p l k : first_on p l = Some k -> In (p, k) l.
Proof.
  induction l as [|[q k'] l IH]; cbn; [discriminate|].
  destruct (N.eqb_spec q p) as [->|Hne]; intros H; [inversion H; subst; now left|right; auto].
Qed.

Lemma pcl_frame fx p k : forall f s s' outs cl, off s k -> pipe_close_loop fx f s p = (s', outs, cl) ->
  off s' k /\ ctx_get s' k = ctx_get s k.
Proof.
  induction f as [|f IH]; intros s s' outs cl O H.
  { cbn in H. inversion H; subst. auto. }
  rewrite pcl_unfold in H. destruct (first_on p (rq_plist s)) as [k0|] eqn:EF.
  2:{ inversion H; subst. auto. }
  cbv zeta in H.
  assert (Hne : k0 <> k). { intros ->. apply first_on_in in EF. exact (proj2 O p EF). }
  assert (O0 : off (set_plist s (plist_del k0 (rq_plist s))) k).
  { split; [exact (proj1 O)|]. intros p0. svs. intros Hin. apply in_plist_del in Hin. exact (proj2 O p0 (proj1 Hin)). }
  destruct (ctx_get (set_plist s (plist_del k0 (rq_plist s))) k0) as [c|] eqn:P.
  2:{ destruct (IH _ _ _ _ O0 H) as [A B]. split; [exact A|]. rewrite B. reflexivity. }
  destruct (pcl_body fx (set_plist s (plist_del k0 (rq_plist s))) k0 c) as [[s1 o1] cl1] eqn:EB.
  destruct (pipe_close_loop fx f s1 p) as [[s2 o2] cl2] eqn:EL.
  inversion H; subst.
  destruct (pcl_body_frame _ _ _ _ _ _ _ _ Hne O0 EB) as [O1 G1].
  destruct (IH _ _ _ _ O1 EL) as [A B]. split; [exact A|]. rewrite B, G1. reflexivity.
Qed.

(* req0_pipe_close as a whole *)
Lemma pipe_close_frame fx s p k s' outs :
  off s k -> req_step fx s (PPipeClose p) = (s', outs) -> off s' k /\ ctx_get s' k = ctx_get s k.
Proof.
  intros [O1 O2] H. unfold req_step in H. rewrite req_pipe_close_unfold in H.
  destruct (pipe_close_loop fx (length (rq_plist (pc_start s p))) (pc_start s p) p) as [[s1 o1] cl1] eqn:E.
  inversion H; subst.
  assert (O : off (pc_start s p) k).
  { split; [rewrite pc_start_sendq; exact O1|]. intros p0. rewrite pc_start_plist. exact (O2 p0). }
  destruct (pcl_frame _ _ _ _ _ _ _ _ O E) as [A B]. split; [exact A|]. rewrite B. apply pc_start_ctx.
Qed.

(* ------------------------------------------------------------------ *)
(* the theorems                                                          *)

(* in a reachable state a context holding a reply is on no pipe's list and not on
   the send queue (and holds no request) *)
Lemma req_stashed_off fx s k c m :
  fx_stash fx = true -> req_reach fx s -> ctx_get s k = Some c -> cx_rep c = Some m ->
  cx_req c = None /\ off s k.
Proof.
  intros FX R P E. pose proof (reach_stash fx s FX R) as I.
  assert (RN : cx_req c = None) by (apply (st_rep s I k c P); congruence).
  split; [exact RN|]. exact (inv_off s k c I P RN).
Qed.

(* the loss of any connection leaves the whole context as it was *)
Theorem req_stashed_ctx_untouched_by_pipe_loss : forall fx s k c m p s' outs,
  fx_stash fx = true -> req_reach fx s -> ctx_get s k = Some c -> cx_rep c = Some m ->
  req_step fx s (PPipeClose p) = (s', outs) ->
  ctx_get s' k = Some c.
Proof.
  intros fx s k c m p s' outs FX R P E H.
  destruct (req_stashed_off fx s k c m FX R P E) as [_ O].
  destruct (pipe_close_frame fx s p k s' outs O H) as [_ G]. now rewrite G.
Qed.

Theorem req_stashed_reply_survives_pipe_loss : forall fx s k c m p s' outs,
  fx_stash fx = true -> req_reach fx s -> ctx_get s k = Some c -> cx_rep c = Some m ->
  req_step fx s (PPipeClose p) = (s', outs) ->
  exists c', ctx_get s' k = Some c' /\ cx_rep c' = Some m /\ cx_creset c' = cx_creset c /\ cx_recv c' = cx_recv c.
Proof.
  intros fx s k c m p s' outs FX R P E H. exists c.
  split; [eapply req_stashed_ctx_untouched_by_pipe_loss; eauto|]. auto.
Qed.

(* ... and the next receive on that context delivers the reply *)
Theorem req_stashed_reply_delivered_after_pipe_loss : forall fx s k c m p s' outs,
  fx_stash fx = true -> req_reach fx s -> ctx_get s k = Some c -> cx_rep c = Some m -> cx_recv c = None ->
  req_step fx s (PPipeClose p) = (s', outs) ->
  forall co a nb, ckey co = k ->
  exists s'', req_step fx s' (PRecv co a nb) = (s'', [Complete a E_OK (Some m)]).
Proof.
  intros fx s k c m p s' outs FX R P E RV H co a nb Hk.
  pose proof (req_stashed_ctx_untouched_by_pipe_loss fx s k c m p s' outs FX R P E H) as G.
  unfold req_step, req_stepL. rewrite Hk, G. unfold req_ctx_recv. rewrite RV, E. cbn [orb andb].
  destruct (cx_req c); cbn [orb andb]; eexists; reflexivity.
Qed.

(* the same, on the model's req0_ctx_recv directly *)
Corollary req_stashed_reply_recv_after_pipe_loss : forall fx s k c m p s' outs,
  fx_stash fx = true -> req_reach fx s -> ctx_get s k = Some c -> cx_rep c = Some m -> cx_recv c = None ->
  req_step fx s (PPipeClose p) = (s', outs) ->
  forall a nb, ctx_get s' k = Some c /\ snd (req_ctx_recv s' k c a nb) = [Complete a E_OK (Some m)].
Proof.
  intros fx s k c m p s' outs FX R P E RV H a nb.
  split; [eapply req_stashed_ctx_untouched_by_pipe_loss; eauto|].
  unfold req_ctx_recv. rewrite RV, E. destruct (cx_req c); reflexivity.
Qed.

(* ------------------------------------------------------------------ *)
(* the hypotheses are satisfiable: resending disabled, the reply arrives before
   the application asks for it and is stashed, then the connection is lost *)
Lemma reach_run fx : forall ops s, req_reach fx s -> (forall o k, In o ops -> o <> PCtxOpen k) ->
  req_reach fx (fst (req_run fx s ops)).
Proof.
  induction ops as [|o r IH]; intros s R NO; cbn [req_run]; [exact R|].
  destruct (req_stepL fx s o) as [[s1 o1] cl] eqn:E.
  assert (R1 : req_reach fx s1).
  { replace s1 with (fst (req_step fx s o)) by (unfold req_step; rewrite E; reflexivity).
    apply reach_step; [exact R|]. destruct o; cbn; trivial. exfalso. eapply NO; [now left|reflexivity]. }
  specialize (IH s1 R1). destruct (req_run fx s1 r) as [s2 tr]. cbn [fst] in *.
  apply IH. intros o' k Hin. apply NO. now right.
Qed.

Definition w_stash_pre : list pop := firstn 5 w_stash.   (* up to and including the reply *)
Definition w_stashed : req := fst (req_run fx_repaired req_init w_stash_pre).
Definition w_stashed_ctx : rctx :=
  mkRctx 0 None None None (Some (mkPmsg [] [187%N])) (-1) (-1) 0 false false.

Example req_stashed_hypotheses_w :
  fx_stash fx_repaired = true /\ req_reach fx_repaired w_stashed /\
  ctx_get w_stashed 0%N = Some w_stashed_ctx /\
  cx_rep w_stashed_ctx = Some (mkPmsg [] [187%N]) /\ cx_recv w_stashed_ctx = None /\
  retry_on fx_repaired w_stashed_ctx = false /\ ckey None = 0%N /\
  (* ... and what the theorems then say about this history *)
  (let s' := fst (req_step fx_repaired w_stashed (PPipeClose 1%N)) in
   ctx_get s' 0%N = Some w_stashed_ctx /\
   snd (req_step fx_repaired s' (PRecv None 9%N true)) = [Complete 9%N E_OK (Some (mkPmsg [] [187%N]))]).
Proof.
  split; [reflexivity|]. split.
  - apply reach_run; [apply reach_init|]. intros o k Hin. vm_compute in Hin.
    repeat (destruct Hin as [<-|Hin]; [discriminate|]). contradiction.
  - vm_compute. repeat split.
Qed.

(* the general theorems instantiated on it *)
Example req_stashed_instance_w : forall a nb,
  exists s'', req_step fx_repaired (fst (req_step fx_repaired w_stashed (PPipeClose 1%N))) (PRecv None a nb)
              = (s'', [Complete a E_OK (Some (mkPmsg [] [187%N]))]).
Proof.
  intros a nb. destruct req_stashed_hypotheses_w as [FX [R [P [E [RV _]]]]].
  destruct (req_step fx_repaired w_stashed (PPipeClose 1%N)) as [s' outs] eqn:H. cbn [fst].
  exact (req_stashed_reply_delivered_after_pipe_loss _ _ _ _ _ _ _ _ FX R P E RV H None a nb eq_refl).
Qed.

(* fx_stash is needed: in the pinned code the same history reaches a state that
   violates stash_inv (the answered context stays on its pipe's list), and the
   pipe's loss then throws the reply away (ReqProofs.req_stashed_reply_survives_refuted_w) *)
Example req_stash_inv_refuted_pinned_w :
  req_reach fx_pinned (fst (req_run fx_pinned req_init w_stash_pre)) /\
  ~ stash_inv (fst (req_run fx_pinned req_init w_stash_pre)).
Proof.
  split.
  - apply reach_run; [apply reach_init|]. intros o k Hin. vm_compute in Hin.
    repeat (destruct Hin as [<-|Hin]; [discriminate|]). contradiction.
  - intros I. assert (Hin : In (1%N, 0%N) (rq_plist (fst (req_run fx_pinned req_init w_stash_pre)))) by (vm_compute; now left).
    destruct (st_plist _ I _ _ Hin) as [c [m [H1 H2]]]. vm_compute in H1. inversion H1; subst. discriminate.
Qed.

Print Assumptions stash_step.
Print Assumptions reach_stash.
Print Assumptions req_stashed_ctx_untouched_by_pipe_loss.
Print Assumptions req_stashed_reply_survives_pipe_loss.
Print Assumptions req_stashed_reply_delivered_after_pipe_loss.
Print Assumptions req_stashed_reply_recv_after_pipe_loss.
Print Assumptions req_stashed_hypotheses_w.
Print Assumptions req_stashed_instance_w.
Print Assumptions req_stash_inv_refuted_pinned_w.
