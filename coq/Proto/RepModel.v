(* RepModel: src/sp/protocol/reqrep0/rep.c (cooked REP).  Definitions only.
   One step = one critical section of rep0_sock.lk.  Contexts are keyed as in
   ReqModel (0 = the socket's own context, k+1 = context c<k>).  The header
   parse of rep0_pipe_recv_cb (done before the lock is taken) is
   ReqRepBacktrace.rep_recv. *)
From Coq Require Import List Arith NArith Bool ZArith.
From NngV Require Import Proto.Common Proto.ReqRepBacktrace Proto.ReqModel.
Import ListNotations.

Record pctx := mkPctx {
  rc_pipe : N;                         (* pipe_id of the request being served, 0 = none *)
  rc_bt : list N;                      (* btrace (btrace_len = its length) *)
  rc_saio : option (aioid * pmsg);     (* saio with the reply attached (header = backtrace) *)
  rc_raio : option aioid }.

Record rep := mkRep {
  rp_ctxs : list (N * pctx);
  rp_pipes : list pid;                 (* the `pipes` id map: started, not yet closed *)
  rp_busy : list pid;                  (* p->busy *)
  rp_pclosed : list pid;               (* p->closed *)
  rp_holding : list (pid * pmsg);      (* recvpipes: a parsed request sits in the pipe's aio_recv *)
  rp_recvq : list N;                   (* contexts with a receive pending *)
  rp_sendq : list (pid * N);           (* the pipes' sendq lists: (pipe, ctx), oldest first *)
  rp_sending : list (pid * pmsg);      (* message attached to each pipe's aio_send *)
  rp_readable : bool;
  rp_writable : bool;
  rp_ttl : nat }.

(* which repairs rep.c has (Gen/Consts.v).  pf_rclose: rep0_pipe_close clears the
   readable pollable when the last holding pipe goes; pf_nbsend: a refused
   (non-blocking) send to a busy pipe gives the reply slot back; pf_saio: a send
   while the context's previous reply still waits for its pipe is refused with
   NNG_ESTATE before anything is touched (pinned: ctx->saio is overwritten and the
   list node appended twice -- an assertion failure in list.c); pf_wbusy: the
   writable pollable follows the state of the socket's reply pipe (cleared when
   the socket takes a request from a busy pipe, and when another context starts
   sending on the pipe the socket would reply on; pinned: only ever raised there). *)
Record pfix := mkPfix { pf_rclose : bool; pf_nbsend : bool; pf_saio : bool; pf_wbusy : bool }.

Definition pctx_init : pctx := mkPctx 0 [] None None.
Definition rep_init : rep := mkRep [(0%N, pctx_init)] [] [] [] [] [] [] [] false false 8.

Definition rp_set_ctxs (s : rep) v := mkRep v (rp_pipes s) (rp_busy s) (rp_pclosed s) (rp_holding s) (rp_recvq s) (rp_sendq s) (rp_sending s) (rp_readable s) (rp_writable s) (rp_ttl s).
Definition rp_set_pipes (s : rep) v b c := mkRep (rp_ctxs s) v b c (rp_holding s) (rp_recvq s) (rp_sendq s) (rp_sending s) (rp_readable s) (rp_writable s) (rp_ttl s).
Definition rp_set_holding (s : rep) v := mkRep (rp_ctxs s) (rp_pipes s) (rp_busy s) (rp_pclosed s) v (rp_recvq s) (rp_sendq s) (rp_sending s) (rp_readable s) (rp_writable s) (rp_ttl s).
Definition rp_set_recvq (s : rep) v := mkRep (rp_ctxs s) (rp_pipes s) (rp_busy s) (rp_pclosed s) (rp_holding s) v (rp_sendq s) (rp_sending s) (rp_readable s) (rp_writable s) (rp_ttl s).
Definition rp_set_sendq (s : rep) v := mkRep (rp_ctxs s) (rp_pipes s) (rp_busy s) (rp_pclosed s) (rp_holding s) (rp_recvq s) v (rp_sending s) (rp_readable s) (rp_writable s) (rp_ttl s).
Definition rp_set_sending (s : rep) v := mkRep (rp_ctxs s) (rp_pipes s) (rp_busy s) (rp_pclosed s) (rp_holding s) (rp_recvq s) (rp_sendq s) v (rp_readable s) (rp_writable s) (rp_ttl s).
Definition rp_set_readable (s : rep) v := mkRep (rp_ctxs s) (rp_pipes s) (rp_busy s) (rp_pclosed s) (rp_holding s) (rp_recvq s) (rp_sendq s) (rp_sending s) v (rp_writable s) (rp_ttl s).
Definition rp_set_writable (s : rep) v := mkRep (rp_ctxs s) (rp_pipes s) (rp_busy s) (rp_pclosed s) (rp_holding s) (rp_recvq s) (rp_sendq s) (rp_sending s) (rp_readable s) v (rp_ttl s).
Definition rp_set_ttl (s : rep) v := mkRep (rp_ctxs s) (rp_pipes s) (rp_busy s) (rp_pclosed s) (rp_holding s) (rp_recvq s) (rp_sendq s) (rp_sending s) (rp_readable s) (rp_writable s) v.

Definition rp_get (s : rep) (k : N) : option pctx := lookup k (rp_ctxs s).
Definition rp_put (s : rep) (k : N) (c : pctx) : rep := rp_set_ctxs s (assoc_set k c (rp_ctxs s)).
Definition master_pipe (s : rep) : N := match rp_get s 0%N with Some c => rc_pipe c | None => 0%N end.

(* ---- rep0_ctx_send ---- *)
Definition rep_ctx_send (pf : pfix) (s : rep) (k : N) (c : pctx) (a : aioid) (nb : bool) (m : pmsg) : rep * list pout :=
  if pf_saio pf && (match rc_saio c with Some _ => true | None => false end)
  then (s, [Complete a E_STATE None]) else
  let bt := rc_bt c in
  let p := rc_pipe c in
  (* the reply slot is consumed, whatever happens next *)
  let s1 := rp_put s k (mkPctx 0 [] (rc_saio c) (rc_raio c)) in
  let s2 := if N.eqb k 0 then rp_set_writable s1 false else s1 in
  if is_nil bt then (s2, [Complete a E_STATE None])
  else
    let m' := rep_send bt m in
    if negb (has_id p (rp_pipes s2)) then (s2, [Complete a E_OK None; Free m'])   (* pipe is gone *)
    else if negb (has_id p (rp_busy s2)) then
      let s3 := if pf_wbusy pf && N.eqb p (master_pipe s2) then rp_set_writable s2 false else s2 in
      (rp_set_sending (rp_set_pipes s3 (rp_pipes s3) (rp_busy s3 ++ [p]) (rp_pclosed s3)) ((p, m') :: assoc_del p (rp_sending s3)),
       [TranSend p m'; Complete a E_OK None])
    else if nb then ((if pf_nbsend pf then rp_put s2 k c else s2), [Complete a E_AGAIN None])
    else (rp_set_sendq (rp_put s2 k (mkPctx 0 [] (Some (a, m')) (rc_raio c))) (rp_sendq s2 ++ [(p, k)]), []).

(* the context takes a parsed request: backtrace and origin pipe are saved *)
Definition rep_take (pf : pfix) (s : rep) (k : N) (c : pctx) (p : pid) (m : pmsg) (raio : option aioid) : rep :=
  let s1 := rp_put s k (mkPctx p (pm_hdr m) (rc_saio c) raio) in
  if N.eqb k 0
  then (if negb (has_id p (rp_busy s)) then rp_set_writable s1 true
        else if pf_wbusy pf then rp_set_writable s1 false else s1)
  else s1.

(* ---- rep0_ctx_recv ---- *)
Definition rep_ctx_recv (pf : pfix) (s : rep) (k : N) (c : pctx) (a : aioid) (nb : bool) : rep * list pout :=
  match rp_holding s with
  | [] =>
      if nb then (s, [Complete a E_AGAIN None])           (* nni_aio_start comes first *)
      else match rc_raio c with
           | Some _ => (s, [Complete a E_STATE None])
           | None => (rp_set_recvq (rp_put s k (mkPctx (rc_pipe c) (rc_bt c) (rc_saio c) (Some a))) (rp_recvq s ++ [k]), [])
           end
  | (p, m) :: rest =>
      let s1 := rp_set_holding s rest in
      let s2 := if is_nil rest then rp_set_readable s1 false else s1 in
      (* ctx->raio is not touched on this path *)
      (rep_take pf s2 k c p m (rc_raio c), [TranRecv p; Complete a E_OK (Some (rep_deliver m))])
  end.

Fixpoint find_pctx (f : pctx -> bool) (l : list (N * pctx)) : option (N * pctx) :=
  match l with [] => None | (k, c) :: r => if f c then Some (k, c) else find_pctx f r end.
Definition saio_is (a : aioid) (c : pctx) : bool := match rc_saio c with Some (b, _) => N.eqb a b | None => false end.

(* ---- rep0_ctx_close ---- *)
Definition rep_ctx_close (s : rep) (k : N) (c : pctx) : rep * list pout :=
  let '(s1, o1) := match rc_saio c with
                   | Some (sa, _) => (rp_set_sendq s (plist_del k (rp_sendq s)), [Complete sa E_CLOSED None])
                   | None => (s, [])
                   end in
  let '(s2, o2) := match rc_raio c with
                   | Some ra => (rp_set_recvq s1 (remove_id k (rp_recvq s1)), [Complete ra E_CLOSED None])
                   | None => (s1, [])
                   end in
  (rp_put s2 k (mkPctx (rc_pipe c) (rc_bt c) None None), o1 ++ o2).

(* rep0_pipe_close: every context queued on the pipe "succeeds", its reply is freed *)
Fixpoint close_sendq (s : rep) (ks : list N) : rep * list pout :=
  match ks with
  | [] => (s, [])
  | k :: r =>
      match rp_get s k with
      | Some c =>
          match rc_saio c with
          | Some (a, m) =>
              let '(s1, outs) := close_sendq (rp_put s k (mkPctx (rc_pipe c) (rc_bt c) None (rc_raio c))) r in
              (s1, Complete a E_OK None :: Free m :: outs)
          | None => close_sendq s r
          end
      | None => close_sendq s r
      end
  end.

Definition rep_step (pf : pfix) (s : rep) (o : pop) : rep * list pout :=
  match o with
  | PCtxOpen k => (rp_set_ctxs s (rp_ctxs s ++ [((k + 1)%N, pctx_init)]), [])
  | PCtxClose k =>
      match rp_get s (k + 1)%N with
      | Some c => let '(s1, outs) := rep_ctx_close s (k + 1)%N c in
                  (rp_set_ctxs s1 (assoc_del (k + 1)%N (rp_ctxs s1)), outs)
      | None => (s, [])
      end
  | PSend c a nb m =>
      match rp_get s (ckey c) with
      | Some cx => rep_ctx_send pf s (ckey c) cx a nb m
      | None => (s, [Complete a E_CLOSED None])
      end
  | PRecv c a nb =>
      match rp_get s (ckey c) with
      | Some cx => rep_ctx_recv pf s (ckey c) cx a nb
      | None => (s, [Complete a E_CLOSED None])
      end
  | PCancel a rv =>
      match find_pctx (saio_is a) (rp_ctxs s) with
      | Some (k, c) =>
          (rp_set_sendq (rp_put s k (mkPctx (rc_pipe c) (rc_bt c) None (rc_raio c))) (plist_del k (rp_sendq s)),
           [Complete a rv None])
      | None =>
          match find_pctx (fun c => opt_is a (rc_raio c)) (rp_ctxs s) with
          | Some (k, c) =>
              (rp_set_recvq (rp_put s k (mkPctx (rc_pipe c) (rc_bt c) (rc_saio c) None)) (remove_id k (rp_recvq s)),
               [Complete a rv None])
          | None => (s, [])
          end
      end
  | PPipeStart p peer =>
      if negb (N.eqb peer PROTO_REQ) then (s, [Reject E_PROTO])
      else (rp_set_pipes s (rp_pipes s ++ [p]) (rp_busy s) (rp_pclosed s), [TranRecv p])
  | PPipeClose p =>
      let held := map snd (filter (fun x => N.eqb (fst x) p) (rp_holding s)) in
      let s0 := rp_set_holding (rp_set_pipes s (rp_pipes s) (rp_busy s) (rp_pclosed s ++ [p])) (assoc_del p (rp_holding s)) in
      let s1 := if pf_rclose pf && negb (is_nil held) && is_nil (rp_holding s0) then rp_set_readable s0 false else s0 in
      let ks := map snd (filter (fun x => N.eqb (fst x) p) (rp_sendq s1)) in
      let '(s2, outs) := close_sendq (rp_set_sendq s1 (assoc_del p (rp_sendq s1))) ks in
      let s3 := if N.eqb p (master_pipe s2) then rp_set_writable s2 true else s2 in
      (rp_set_pipes s3 (remove_id p (rp_pipes s3)) (rp_busy s3) (rp_pclosed s3), outs ++ map Free held)
  | PSendDone p rv =>
      let held := map snd (filter (fun x => N.eqb (fst x) p) (rp_sending s)) in
      let s0 := rp_set_sending s (assoc_del p (rp_sending s)) in
      if negb (N.eqb rv 0) then (s0, map Free held ++ [ClosePipe p])
      else
        let s1 := rp_set_pipes s0 (rp_pipes s0) (remove_id p (rp_busy s0)) (rp_pclosed s0) in
        match first_on p (rp_sendq s1) with
        | None => ((if N.eqb p (master_pipe s1) then rp_set_writable s1 true else s1), [])
        | Some k =>
            match rp_get s1 k with
            | Some c =>
                match rc_saio c with
                | Some (a, m) =>
                    let s2 := rp_set_sendq (rp_put s1 k (mkPctx (rc_pipe c) (rc_bt c) None (rc_raio c))) (plist_del k (rp_sendq s1)) in
                    (rp_set_sending (rp_set_pipes s2 (rp_pipes s2) (rp_busy s2 ++ [p]) (rp_pclosed s2)) ((p, m) :: rp_sending s2),
                     [TranSend p m; Complete a E_OK None])
                | None => (rp_set_sendq s1 (plist_del k (rp_sendq s1)), [])     (* not reachable *)
                end
            | None => (rp_set_sendq s1 (plist_del k (rp_sendq s1)), [])          (* not reachable *)
            end
        end
  | PRecvDone p rv m =>
      if negb (N.eqb rv 0) then (s, [ClosePipe p])
      else
        match rep_recv (rp_ttl s) (pm_body m) with
        | BtDrop => (s, [Free m; TranRecv p])
        | BtClose => (s, [Free m; ClosePipe p])
        | BtDeliver m' =>
            if has_id p (rp_pclosed s) then (s, [Free m'])
            else
              match rp_recvq s with
              | [] => (rp_set_readable (rp_set_holding s (rp_holding s ++ [(p, m')])) true, [])
              | k :: rest =>
                  match rp_get s k with
                  | Some c =>
                      match rc_raio c with
                      | Some a => (rep_take pf (rp_set_recvq s rest) k c p m' None, [TranRecv p; Complete a E_OK (Some (rep_deliver m'))])
                      | None => (rp_set_recvq s rest, [Free m'])                   (* not reachable *)
                      end
                  | None => (rp_set_recvq s rest, [Free m'])                       (* not reachable *)
                  end
              end
        end
  | PSetOpt None (OMaxTtl n) =>
      if (n <? BT_TTL_MIN) || (BT_TTL_MAX <? n) then (s, [OptRv E_INVAL]) else (rp_set_ttl s n, [OptRv E_OK])
  | PSetOpt None (OSendBuf n) | PSetOpt None (ORecvBuf n) =>
      if (8192 <? N.of_nat n)%N then (s, [OptRv E_INVAL]) else (s, [OptRv E_OK])
  | PSetOpt _ _ => (s, [OptRv E_NOTSUP])
  | PSockClose =>
      match rp_get s 0%N with
      | Some c => rep_ctx_close s 0%N c
      | None => (s, [])
      end
  | PTick _ => (s, [])
  end.

Definition rep_poll (s : rep) : ppoll := mkPoll (Some (rp_readable s)) (Some (rp_writable s)).
