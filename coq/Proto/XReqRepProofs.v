(* XReqRepProofs: raw REQ / raw REP -- non-blocking and poll-descriptor laws of
   the msgq entry points (C15 clause), conservation of the upper read queue,
   routing of raw REP (C04: xrep_header_push_pop is in ReqRepProofs). *)
From Coq Require Import List Arith NArith Bool ZArith Lia.
From NngV Require Import Proto.Common Proto.ReqRepBacktrace Proto.ReqModel Proto.XReqModel Proto.XRepModel Proto.ReqRepProofs.
Import ListNotations.

Definition mf_pinned : mqfix := mkMqfix false false false.
Definition mf_repaired : mqfix := mkMqfix true true true.

(* --- the msgq get entry point with a single new getter --- *)
Lemma mq_get_ready {G T} (rp : bool) (q : mq G T) (g : G) :
  mq_get_waits q = false ->
  exists m q' ev, mq_get rp q g = (q', ev) /\ In (EvGot g m) ev.
Proof.
  unfold mq_get_waits, mq_get. intros H. apply orb_false_iff in H. destruct H as [H1 H2].
  destruct (mq_getq q) eqn:EG; [|discriminate]. cbn [app length mq_run_getq mq_getq mq_q mq_putq].
  destruct (mq_q q) as [|m rest] eqn:EQ.
  - destruct (mq_putq q) as [|[t m] pr] eqn:EP; [discriminate|].
    exists m. destruct rp.
    + match goal with |- context [mq_run_putq ?f ?X] => destruct (mq_run_putq f X) as [q2 e2] end.
      do 2 eexists. split; [reflexivity|]. apply in_or_app. left. right. left. reflexivity.
    + do 2 eexists. split; [reflexivity|]. right. left. reflexivity.
  - exists m. destruct rp.
    + match goal with |- context [mq_run_putq ?f ?X] => destruct (mq_run_putq f X) as [q2 e2] end.
      do 2 eexists. split; [reflexivity|]. apply in_or_app. left. left. reflexivity.
    + do 2 eexists. split; [reflexivity|]. left. reflexivity.
Qed.

(* non-blocking receive on a raw socket, repaired msgq: completes in the step;
   NNG_EAGAIN exactly when the blocking form would have to wait, and then
   nothing changes; otherwise a message is delivered *)
Lemma xreq_nb_recv_repaired r g s c a :
  (mq_get_waits (xq_urq s) = true -> xreq_step (mkMqfix true r g) s (PRecv c a true) = (s, [Complete a E_AGAIN None])) /\
  (mq_get_waits (xq_urq s) = false ->
     exists s' outs m, xreq_step (mkMqfix true r g) s (PRecv c a true) = (s', outs) /\ In (Complete a E_OK (Some m)) outs).
Proof.
  split; intros H; unfold xreq_step, nb_refused; cbn [mf_nb mf_getput negb orb andb]; rewrite H.
  - reflexivity.
  - destruct (mq_get_ready g (xq_urq s) a H) as [m [q' [ev [E Hin]]]]. rewrite E.
    do 3 eexists. split; [reflexivity|]. apply (in_map urq_out) in Hin. exact Hin.
Qed.
Lemma xrep_nb_recv_repaired r g s c a :
  (mq_get_waits (xp_urq s) = true -> xrep_step (mkMqfix true r g) s (PRecv c a true) = (s, [Complete a E_AGAIN None])) /\
  (mq_get_waits (xp_urq s) = false ->
     exists s' outs m, xrep_step (mkMqfix true r g) s (PRecv c a true) = (s', outs) /\ In (Complete a E_OK (Some m)) outs).
Proof.
  split; intros H; unfold xrep_step, nb_refused; cbn [mf_nb mf_getput negb orb andb]; rewrite H.
  - reflexivity.
  - destruct (mq_get_ready g (xp_urq s) a H) as [m [q' [ev [E Hin]]]]. rewrite E.
    do 3 eexists. split; [reflexivity|]. apply (in_map urq_out) in Hin. exact Hin.
Qed.

(* the pinned msgq (nni_aio_start first): NNG_EAGAIN although a message is queued *)
Definition w_xreq_ops : list pop :=
  [PPipeStart 1%N PROTO_REP; PRecvDone 1%N 0%N (mkPmsg [] (be32 2147483649 ++ [7%N]))].
Fixpoint xreq_run (mf : mqfix) (s : xreq) (ops : list pop) : xreq :=
  match ops with [] => s | o :: r => xreq_run mf (fst (xreq_step mf s o)) r end.
Lemma xreq_nb_recv_refuted_w :
  let s := xreq_run mf_pinned xreq_init w_xreq_ops in
  poll_r (xreq_poll s) = Some true /\
  xreq_step mf_pinned s (PRecv None 9%N true) = (s, [Complete 9%N E_AGAIN None]) /\
  exists s' m, xreq_step mf_pinned s (PRecv None 9%N false) = (s', [Complete 9%N E_OK (Some m)]).
Proof. vm_compute. split; [reflexivity|]. split; [reflexivity|]. do 2 eexists. reflexivity. Qed.
Lemma xreq_nb_recv_repaired_w :
  let s := xreq_run mf_repaired xreq_init w_xreq_ops in
  exists s' m, xreq_step mf_repaired s (PRecv None 9%N true) = (s', [Complete 9%N E_OK (Some m)]).
Proof. vm_compute. do 2 eexists. reflexivity. Qed.

(* non-blocking send on raw REQ, repaired msgq *)
Lemma mq_put_ready {G T} (q : mq G T) (t : T) (m : pmsg) :
  mq_put_waits q = false -> exists q' ev, mq_put q t m = (q', ev) /\ In (EvPut t) ev /\ mq_putq q' = [].
Proof.
  unfold mq_put_waits, mq_put. intros H. apply orb_false_iff in H. destruct H as [H1 H2].
  destruct (mq_putq q) eqn:EP; [|discriminate]. cbn [app length mq_run_putq mq_getq mq_q mq_putq mq_cap].
  destruct (mq_getq q) as [|g gr] eqn:EG.
  - cbn [is_nil andb] in H2. apply Nat.leb_gt in H2. apply Nat.ltb_lt in H2. rewrite H2.
    do 2 eexists. split; [reflexivity|]. split; [left; reflexivity|reflexivity].
  - do 2 eexists. split; [reflexivity|]. split; [right; left; reflexivity|reflexivity].
Qed.
Lemma xreq_nb_send_repaired r g s c a m :
  (mq_put_waits (xq_uwq s) = true -> xreq_step (mkMqfix true r g) s (PSend c a true m) = (s, [Complete a E_AGAIN None])) /\
  (mq_put_waits (xq_uwq s) = false ->
     exists s' outs, xreq_step (mkMqfix true r g) s (PSend c a true m) = (s', outs) /\ In (Complete a E_OK None) outs).
Proof.
  split; intros H; unfold xreq_step, nb_refused; cbn [mf_nb mf_getput negb orb andb]; rewrite H.
  - reflexivity.
  - destruct (mq_put_ready (xq_uwq s) a m H) as [q' [ev [E [Hin _]]]]. rewrite E.
    do 2 eexists. split; [reflexivity|]. apply in_flat_map. exists (EvPut a). split; [exact Hin|left; reflexivity].
Qed.
(* raw REP never has to wait for its upper write queue *)
Lemma xrep_nb_send_repaired r g s c a m :
  exists s' outs, xrep_step (mkMqfix true r g) s (PSend c a true m) = (s', Complete a E_OK None :: outs).
Proof.
  unfold xrep_step, nb_refused. cbn [mf_nb mf_getput negb orb andb].
  destruct (xrep_route s m) as [s1 outs]. do 2 eexists. reflexivity.
Qed.

(* poll descriptors of a raw socket are the run_notify predicates; with no blocked
   reader (writer) they mirror the non-blocking operation *)
Lemma xreq_poll_mirror s :
  (mq_getq (xq_urq s) = [] -> (poll_r (xreq_poll s) = Some true <-> mq_get_waits (xq_urq s) = false)) /\
  (mq_putq (xq_uwq s) = [] -> (poll_w (xreq_poll s) = Some true <-> mq_put_waits (xq_uwq s) = false)).
Proof.
  unfold xreq_poll, mq_recvable, mq_sendable, mq_get_waits, mq_put_waits. cbn [poll_r poll_w]. split; intros H; rewrite H; cbn [is_nil negb orb].
  - destruct (mq_q (xq_urq s)); destruct (mq_putq (xq_urq s)); cbn; split; intros E; try reflexivity; try discriminate.
  - destruct (mq_getq (xq_uwq s)); cbn [is_nil negb orb andb].
    + rewrite orb_false_r. destruct (Nat.ltb_spec (length (mq_q (xq_uwq s))) (mq_cap (xq_uwq s))); destruct (Nat.leb_spec (mq_cap (xq_uwq s)) (length (mq_q (xq_uwq s)))); try lia; split; intros E; try reflexivity; try discriminate.
    + rewrite orb_true_r. split; reflexivity.
Qed.
Lemma xrep_poll_mirror s :
  mq_getq (xp_urq s) = [] -> (poll_r (xrep_poll s) = Some true <-> mq_get_waits (xp_urq s) = false).
Proof.
  unfold xrep_poll, mq_recvable, mq_get_waits. cbn [poll_r]. intros H. rewrite H. cbn [is_nil negb orb].
  destruct (mq_q (xp_urq s)); destruct (mq_putq (xp_urq s)); cbn; split; intros E; try reflexivity; try discriminate.
Qed.

(* resize: the pinned code leaves a blocked writer blocked although there is room
   now; the repaired code takes it *)
Definition w_resize_ops : list pop := [PSend None 1%N false (mkPmsg (be32 2147483649) [5%N]); PSetOpt None (OSendBuf 2)].
Lemma xreq_resize_refuted_w :
  let s := xreq_run mf_pinned xreq_init w_resize_ops in
  mq_putq (xq_uwq s) <> [] /\ length (mq_q (xq_uwq s)) < mq_cap (xq_uwq s).
Proof. vm_compute. split; [discriminate|lia]. Qed.
Lemma xreq_resize_repaired_w :
  let s := xreq_run mf_repaired xreq_init w_resize_ops in mq_putq (xq_uwq s) = [] /\ length (mq_q (xq_uwq s)) = 1.
Proof. vm_compute. split; reflexivity. Qed.

(* conservation at the router of raw REP: a message taken from the application is
   transmitted, queued for its pipe, or freed -- exactly one of them *)
Lemma xrep_route_conserves s m s' outs :
  xrep_route s m = (s', outs) ->
  (exists p x, xrep_send m = Some (p, x) /\
     ((outs = [TranSend p x] /\ xp_sendq s' = xp_sendq s) \/
      (outs = [] /\ xp_sendq s' = xp_sendq s ++ [(p, x)]) \/
      (outs = [Free x] /\ xp_sendq s' = xp_sendq s))) \/
  (xrep_send m = None /\ outs = [Free m] /\ s' = s).
Proof.
  unfold xrep_route. intros H. destruct (xrep_send m) as [[p x]|] eqn:E.
  - left. exists p, x. split; [reflexivity|].
    destruct (negb (has_id p (xp_pipes s))); [inversion H; subst; auto|].
    destruct (has_id p (xp_idle s)); [inversion H; subst; auto|].
    destruct (pipe_qlen s p <? XREP_PIPE_SENDQ_CAP); inversion H; subst; auto.
  - right. inversion H; subst. auto.
Qed.

(* nni_msgq_aio_get and the writer side: a reader (here: a pipe that becomes ready)
   takes the buffered message; pinned: the blocked writer stays blocked although
   there is room; repaired: it moves into the buffer and completes *)
Definition w_getput_ops : list pop :=
  [PSetOpt None (OSendBuf 1); PSend None 1%N false (mkPmsg (be32 2147483649) [5%N]);
   PSend None 2%N false (mkPmsg (be32 2147483650) [6%N]); PPipeStart 1%N PROTO_REP].
Lemma xreq_get_runs_putq_refuted_w :
  let s := xreq_run (mkMqfix true true false) xreq_init w_getput_ops in
  mq_putq (xq_uwq s) <> [] /\ length (mq_q (xq_uwq s)) < mq_cap (xq_uwq s) /\
  poll_w (xreq_poll s) = Some true /\
  xreq_step (mkMqfix true true false) s (PSend None 9%N true (mkPmsg (be32 2147483651) [7%N])) = (s, [Complete 9%N E_AGAIN None]).
Proof. vm_compute. split; [discriminate|]. split; [lia|]. split; reflexivity. Qed.
Lemma xreq_get_runs_putq_repaired_w :
  let s := xreq_run mf_repaired xreq_init w_getput_ops in
  mq_putq (xq_uwq s) = [] /\ length (mq_q (xq_uwq s)) = 1 /\
  In (Complete 2%N E_OK None) (snd (xreq_step mf_repaired (xreq_run mf_repaired xreq_init (firstn 3 w_getput_ops)) (PPipeStart 1%N PROTO_REP))).
Proof. vm_compute. split; [reflexivity|]. split; [reflexivity|]. right. left. reflexivity. Qed.
