(* Pair0Model: src/sp/protocol/pair0/pair.c = the K0 instance of PairModel, with the
   source-dependent switch read from the current tree (Gen/Consts.v).  pair0 has a
   single set of socket ops for cooked and raw sockets.  Definitions only. *)
From Coq Require Import List NArith Bool.
From NngV Require Import Gen.Consts Proto.Common Proto.PairModel Proto.PairGuard.

Definition pair0_init : pair := pair_init.
Definition pair0_step : pair -> pop -> pair * list pout := pair_step_g K0 C08_PAIR0_STOP_WRITABLE_FIXED C08_PAIR0_RESIZE_ADMITS_FIXED C08_PAIR0_STALE_FIXED.
Definition pair0_poll : pair -> ppoll := pair_poll.
