(* PairGuard: the completion callbacks of pair0/pair.c and pair1/pair.c as they are since
   fix ec0a8f1 ("PAIR acted on the completion of a pipe that had already been replaced"):
   pairX_send_sched(s, p) does nothing unless p is still the socket's peer, and
   pairX_pipe_recv_cb frees (instead of parking) a message of a pipe that is no longer the
   peer when nobody can take it.  [fs] = that repair is present in the source
   (Gen/Consts.v, C08_PAIRx_STALE_FIXED).  With fs = false this is PairModel.pair_step
   unchanged (the pinned tree).  Definitions only. *)
From Coq Require Import List Arith NArith Bool.
From NngV Require Import Proto.Common Proto.PairModel.
Import ListNotations.

Definition is_cur (s : pair) (p : pid) : bool := match pr_p s with Some q => N.eqb q p | None => false end.

Definition pair_step_g (k : pkind) (fx fr fs : bool) (s : pair) (o : pop) : pair * list pout :=
  match o with
  | PSendDone p rv =>
      if fs && N.eqb rv 0 && negb (is_cur s p) then
        (* pipe_send_cb -> send_sched(s, p): s->p != p => return *)
        (mkPair (pr_p s) (pr_ttl s) (pr_wmq s) (pr_wcap s) (pr_waq s) (pr_rmq s) (pr_rcap s) (pr_raq s)
                (pr_rd s) (pr_wr s) (set_snd (pr_sending s) p None) (pr_readable s) (pr_writable s), [])
      else pair_step k fx fr s o
  | PRecvDone p rv m =>
      if fs && N.eqb rv 0 && negb (is_cur s p) then
        match rx_decode k (pr_ttl s) m, pr_raq s with
        | RxOk m', [] =>
            if lmq_full (pr_rmq s) (pr_rcap s) then
              (* neither a waiting receiver nor room in rmq, and the pipe is not the peer: freed *)
              (mkPair (pr_p s) (pr_ttl s) (pr_wmq s) (pr_wcap s) (pr_waq s) (pr_rmq s) (pr_rcap s) []
                      (pr_rd s) (pr_wr s) (pr_sending s) true (pr_writable s), [Free m'])
            else pair_step k fx fr s o
        | _, _ => pair_step k fx fr s o
        end
      else pair_step k fx fr s o
  | _ => pair_step k fx fr s o
  end.
