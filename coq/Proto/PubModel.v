(* PubModel: src/sp/protocol/pubsub0/pub.c (cooked and raw PUB are the same code).
   Definitions only.  One step = one critical section of pub0_sock.mtx (or a
   callback that does not take it).  Each pipe's send queue (an nni_lmq) is used
   at the level of its specification, a bounded FIFO. *)
From Coq Require Import List Arith NArith Bool.
From NngV Require Import Proto.Common Proto.SubModel.
Import ListNotations.

Definition PUB_DEFAULT_SENDBUF : nat := 16.
Definition PUB_SENDBUF_MIN : N := 1.
Definition PUB_SENDBUF_MAX : N := 8192.

Record ppipe := mkPpipe {
  pp_id : pid;
  pp_closed : bool;              (* p->closed: pipe_close ran; the pipe is off sock->pipes *)
  pp_busy : bool;
  pp_q : list pmsg; pp_cap : nat;
  pp_tx : option pmsg }.         (* the message attached to aio_send *)

Record pub := mkPub { pb_pipes : list ppipe; pb_sendbuf : nat }.
Definition pub_init : pub := mkPub [] PUB_DEFAULT_SENDBUF.

Definition pq_full (p : ppipe) : bool := pp_cap p <=? length (pp_q p).

(* the body of the loop over sock->pipes in pub0_sock_send, for one pipe *)
Definition pipe_send (p : ppipe) (m : pmsg) : ppipe * list pout :=
  if pp_closed p then (p, [])
  else if pp_busy p then
    if pq_full p then
      match pp_q p with
      | old :: r => (mkPpipe (pp_id p) false true (r ++ [m]) (pp_cap p) (pp_tx p), [Free old])
      | [] => (p, [Free m])       (* capacity 0: not reachable (range 1..8192) *)
      end
    else (mkPpipe (pp_id p) false true (pp_q p ++ [m]) (pp_cap p) (pp_tx p), [])
  else (mkPpipe (pp_id p) false true (pp_q p) (pp_cap p) (Some m), [TranSend (pp_id p) m]).

Definition upd_pipe (id : pid) (f : ppipe -> ppipe) (l : list ppipe) : list ppipe :=
  map (fun p => if N.eqb (pp_id p) id then f p else p) l.
Definition find_pipe (id : pid) (l : list ppipe) : option ppipe := find (fun p => N.eqb (pp_id p) id) l.

Definition pub_step (s : pub) (o : pop) : pub * list pout :=
  match o with
  | PPipeStart p peer =>
      if negb (N.eqb peer PROTO_SUB) then (s, [Reject E_PROTO])
      else (mkPub (pb_pipes s ++ [mkPpipe p false false [] (pb_sendbuf s) None]) (pb_sendbuf s), [TranRecv p])
  | PPipeClose p =>
      match find_pipe p (pb_pipes s) with
      | None => (s, [])
      | Some x =>
          (mkPub (upd_pipe p (fun x => mkPpipe (pp_id x) true (pp_busy x) [] (pp_cap x) (pp_tx x)) (pb_pipes s)) (pb_sendbuf s),
           map Free (pp_q x))                                    (* nni_lmq_flush *)
      end
  | PRecvDone p rv m =>
      (* a publisher never expects data: whatever happens the pipe is closed *)
      (s, (if N.eqb rv 0 then [Free m] else []) ++ [ClosePipe p])
  | PSendDone p rv =>
      match find_pipe p (pb_pipes s) with
      | None => (s, [])
      | Some x =>
          if negb (N.eqb rv 0) then
            (mkPub (upd_pipe p (fun x => mkPpipe (pp_id x) (pp_closed x) (pp_busy x) (pp_q x) (pp_cap x) None) (pb_pipes s)) (pb_sendbuf s),
             (match pp_tx x with Some m => [Free m] | None => [] end) ++ [ClosePipe p])
          else if pp_closed x then
            (mkPub (upd_pipe p (fun x => mkPpipe (pp_id x) true (pp_busy x) (pp_q x) (pp_cap x) None) (pb_pipes s)) (pb_sendbuf s), [])
          else
            match pp_q x with
            | m :: r =>
                (mkPub (upd_pipe p (fun x => mkPpipe (pp_id x) false true r (pp_cap x) (Some m)) (pb_pipes s)) (pb_sendbuf s),
                 [TranSend p m])
            | [] =>
                (mkPub (upd_pipe p (fun x => mkPpipe (pp_id x) false false [] (pp_cap x) None) (pb_pipes s)) (pb_sendbuf s), [])
            end
      end
  | PSend _ a _ m =>
      (* no nni_aio_start anywhere: the send completes at once whatever the flags *)
      let r := map (fun p => pipe_send p m) (pb_pipes s) in
      (mkPub (map fst r) (pb_sendbuf s), flat_map snd r ++ [Free m; Complete a E_OK None])
  | PRecv _ a _ => (s, [Complete a E_NOTSUP None])
  | PCancel _ _ => (s, [])
  | PSetOpt None (OSendBuf n) =>
      if (N.of_nat n <? PUB_SENDBUF_MIN)%N || (PUB_SENDBUF_MAX <? N.of_nat n)%N then (s, [OptRv E_INVAL])
      else
        (mkPub (map (fun p => if pp_closed p then p
                              else mkPpipe (pp_id p) false (pp_busy p) (firstn n (pp_q p)) n (pp_tx p)) (pb_pipes s)) n,
         map Free (flat_map (fun p => if pp_closed p then [] else skipn n (pp_q p)) (pb_pipes s)) ++ [OptRv E_OK])
  | PSetOpt None (ORecvBuf n) =>
      (* not a protocol option: the socket core resizes its (unused) upper read queue *)
      if (8192 <? N.of_nat n)%N then (s, [OptRv E_INVAL]) else (s, [OptRv E_OK])
  | PSetOpt _ _ => (s, [OptRv E_NOTSUP])
  | PCtxOpen _ => (s, [OptRv E_NOTSUP])                           (* no context operations *)
  | PCtxClose _ | PSockClose | PTick _ => (s, [])
  end.

(* pub0_sock_get_sendfd raises the pollable every time it is asked for *)
Definition pub_poll (s : pub) : ppoll := mkPoll None (Some true).
